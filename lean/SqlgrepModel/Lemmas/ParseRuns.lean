import SqlgrepModel.Lemmas.ParsePrefixClauses
import SqlgrepModel.Lemmas.ParseAppend
/-
Successful runs of the clause loop, read backwards: a parser function with the barrier property consumes no boundary
token (`noadv_generic`, from the barrier equation and the append lemma); a successful turn of the clause loop consumed
exactly one clause (`clauseTurn_run`); a successful run of the loop is a sequence of clauses of pairwise different
kinds followed by `End` or `;` (`clauseLoop_run`).
-/
namespace Sqlgrep
namespace Parse

/-- a token list either has no boundary token or splits at its first one -/
theorem split_first_boundary (L : List PTok) :
    (∀ t ∈ L, ¬ Boundary t.tok) ∨ ∃ pre b y, L = pre ++ b :: y ∧ (∀ t ∈ pre, ¬ Boundary t.tok) ∧ Boundary b.tok := by
  induction L with
  | nil => left; simp
  | cons t ts ih =>
    by_cases ht : Boundary t.tok
    · right; exact ⟨[], t, ts, rfl, by simp, ht⟩
    · rcases ih with h | ⟨pre, b, y, h1, h2, h3⟩
      · left; intro u hu; simp only [List.mem_cons] at hu; rcases hu with rfl | hu; exact ht; exact h u hu
      · right; refine ⟨t :: pre, b, y, by simp [h1], ?_, h3⟩
        intro u hu; simp only [List.mem_cons] at hu; rcases hu with rfl | hu; exact ht; exact h2 u hu

theorem appSt_toks (y : List PTok) (s : PSt) : PSt.toks (appSt y s) = PSt.toks s ++ y := rfl

theorem swapToks_first (t2 : PSt) (pre : List PTok) (hnb : ∀ t ∈ pre, ¬ Boundary t.tok) (b : PTok) (hb : Boundary b.tok)
    (y : List PTok) : swapToks t2 (pre ++ b :: y) = pre ++ ⟨b.loc, t2.cur.tok⟩ :: t2.rest := by
  rw [swapToks_append t2 pre hnb]; simp [swapToks, hb]

/-- **a successful run consumes no boundary token**: for a parser function that never looks past the first boundary
token, leaves a suffix of its input and is not disturbed by appended tokens, the tokens between the start state and
the state it leaves contain no clause keyword, `;` or `End` -/
theorem noadv_generic {α : Type} (F : Nat → PSt → PRes α)
    (hswap : ∀ (t2 : PSt) (f : Nat) (s : PSt), Boundary t2.cur.tok → F f (swapB t2 s) = (F f s).mapSt (swapB t2))
    (hwithin : ∀ (f : Nat) (s : PSt) (toks : List PTok), s.Suffix toks → (F f s).Within toks)
    (happ : ∀ (y : List PTok) (f : Nat) (s : PSt), Sim y (F f s) (F f (appSt y s)))
    (f : Nat) (s s' : PSt) (a : α) (hrun : F f s = .ok a s') :
    ∃ body, s = PSt.prepend body s' ∧ ∀ t ∈ body, ¬ Boundary t.tok := by
  rcases split_first_boundary (PSt.toks s) with hnone | ⟨pre, b, y, hL, hpre, hb⟩
  · have hsuf : s'.Suffix (PSt.toks s) := (hwithin f s _ (List.suffix_refl _)).1 a s' hrun
    obtain ⟨body, hbody⟩ := hsuf
    refine ⟨body, pst_ext (by rw [prepend_toks]; exact hbody.symm), ?_⟩
    intro t ht; exact hnone t (by rw [← hbody]; exact List.mem_append_left _ ht)
  · -- the run on the input cut behind its first boundary token
    have h1 := hswap ⟨b, []⟩ f s hb
    rw [hrun] at h1
    simp only [PRes.mapSt] at h1
    have hcut : PSt.toks (swapB ⟨b, []⟩ s) = pre ++ [b] := by
      rw [swapB_toks, hL, swapToks_first _ pre hpre b hb]
    have hsufu : (swapB ⟨b, []⟩ s').Suffix (PSt.toks (swapB ⟨b, []⟩ s)) :=
      (hwithin f _ _ (List.suffix_refl _)).1 a _ h1
    -- appending what was cut off gives back the original input
    have hback : appSt y (swapB ⟨b, []⟩ s) = s := by
      apply pst_ext; rw [appSt_toks, hcut, hL]; simp
    have h2 := happ y f (swapB ⟨b, []⟩ s) a _ h1
    rw [hback, hrun] at h2
    simp only [PRes.ok.injEq, true_and] at h2
    -- the state left by the cut run ends with `b`
    unfold PSt.Suffix at hsufu
    rw [hcut] at hsufu
    obtain ⟨w, hw⟩ := hsufu
    change w ++ PSt.toks (swapB ⟨b, []⟩ s') = pre ++ [b] at hw
    have hne : PSt.toks (swapB ⟨b, []⟩ s') ≠ [] := by simp [PSt.toks]
    obtain ⟨u', x, hu⟩ : ∃ u' x, PSt.toks (swapB ⟨b, []⟩ s') = u' ++ [x] := by
      rcases List.eq_nil_or_concat (PSt.toks (swapB ⟨b, []⟩ s')) with h | ⟨u', x, h⟩
      · exact absurd h hne
      · exact ⟨u', x, by simpa using h⟩
    rw [hu, ← List.append_assoc] at hw
    obtain ⟨hpre', hx⟩ := List.append_inj' hw rfl
    refine ⟨w, pst_ext ?_, ?_⟩
    · rw [prepend_toks, h2, appSt_toks, hu, hL, ← hpre']
      simp only [List.cons.injEq] at hx
      simp [hx.1]
    · intro t ht; exact hpre t (by rw [← hpre']; exact List.mem_append_left _ ht)


/-! ### instances: the expression parser and the GROUP BY key list -/

theorem groupKeys_app (T : PrecTables) (y : List PTok) (n : Nat) (s : PSt) :
    Sim y (groupKeys T n s) (groupKeys T n (appSt y s)) := by
  unfold groupKeys
  intro v s' h
  cases hp : parseExpr T n s with
  | err e s1 => rw [hp] at h; cases h
  | fuel => rw [hp] at h; cases h
  | ok k s1 =>
    rw [hp] at h
    rw [parseExpr_app T y n s k s1 hp]
    exact groupKeysLoop_app T y n [k] s1 v s' h

section noadv
variable {T : PrecTables} (hT : InertBoundary T)
include hT

theorem parseExpr_noadv {f : Nat} {s s' : PSt} {e : PExpr} (hrun : parseExpr T f s = .ok e s') :
    ∃ body, s = PSt.prepend body s' ∧ ∀ t ∈ body, ¬ Boundary t.tok :=
  noadv_generic (parseExpr T) (fun _ f s h2 => parseExpr_swapB hT h2 f s) (fun _ _ _ h => parseExpr_within h)
    (fun y f s => parseExpr_app T y f s) f s s' e hrun

theorem groupKeys_noadv {f : Nat} {s s' : PSt} {ks : List PExpr} (hrun : groupKeys T f s = .ok ks s') :
    ∃ body, s = PSt.prepend body s' ∧ ∀ t ∈ body, ¬ Boundary t.tok :=
  noadv_generic (groupKeys T) (fun t2 f s h2 => groupKeys_swapB hT t2 h2 f s) (fun f s toks h => groupKeys_within f s toks h)
    (fun y f s => groupKeys_app T y f s) f s s' ks hrun

end noadv

/-! ### inversion of the consuming primitives -/

/-- `h : (try! (a, s) ← x; k a s) = .ok r s'`: `x` succeeded -/
macro "try_inv " h:ident : tactic =>
  `(tactic| (split at $h:ident; rotate_left; (· cases $h:ident); (· cases $h:ident)))

theorem next_inv {s s' : PSt} {u : Unit} (h : next s = .ok u s') : PSt.toks s = s.cur :: PSt.toks s' := by
  unfold next at h
  cases hr : s.rest with
  | nil => rw [hr] at h; cases h
  | cons t r => rw [hr] at h; cases h; simp [PSt.toks, hr]

theorem expectConsume_inv {X : Tok} {k : PErrKind} {s s' : PSt} {u : Unit} (h : expectConsume X k s = .ok u s') :
    s.cur.tok = X ∧ PSt.toks s = s.cur :: PSt.toks s' := by
  unfold expectConsume at h
  by_cases hc : s.cur.tok = X
  · simp only [hc, if_true] at h; exact ⟨hc, next_inv h⟩
  · simp only [hc, if_false] at h; cases h

theorem consumeIdentifier_inv {s s' : PSt} {n : List Char} (h : consumeIdentifier s = .ok n s') :
    s.cur.tok = .ident n ∧ PSt.toks s = s.cur :: PSt.toks s' := by
  unfold consumeIdentifier at h
  split at h
  · rename_i m hm
    cases hn : next s with
    | ok u s1 => rw [hn] at h; simp only [PRes.bind, PRes.ok.injEq] at h; obtain ⟨rfl, rfl⟩ := h; exact ⟨hm, next_inv hn⟩
    | err e s1 => rw [hn] at h; cases h
    | fuel => rw [hn] at h; cases h
  · cases h

theorem consumeString_inv {s s' : PSt} {n : List Char} (h : consumeString s = .ok n s') :
    s.cur.tok = .str n ∧ PSt.toks s = s.cur :: PSt.toks s' := by
  unfold consumeString at h
  split at h
  · rename_i m hm
    cases hn : next s with
    | ok u s1 => rw [hn] at h; simp only [PRes.bind, PRes.ok.injEq] at h; obtain ⟨rfl, rfl⟩ := h; exact ⟨hm, next_inv hn⟩
    | err e s1 => rw [hn] at h; cases h
    | fuel => rw [hn] at h; cases h
  · cases h

theorem consumeInt_inv {s s' : PSt} {n : Int} (h : consumeInt s = .ok n s') :
    s.cur.tok = .int n ∧ PSt.toks s = s.cur :: PSt.toks s' := by
  unfold consumeInt at h
  split at h
  · rename_i m hm
    cases hn : next s with
    | ok u s1 => rw [hn] at h; simp only [PRes.bind, PRes.ok.injEq] at h; obtain ⟨rfl, rfl⟩ := h; exact ⟨hm, next_inv hn⟩
    | err e s1 => rw [hn] at h; cases h
    | fuel => rw [hn] at h; cases h
  · cases h

/-- a successful `parse_join` consumed exactly the thirteen tokens of a JOIN clause -/
theorem parseJoin_inv {b : Bool} {s s' : PSt} {j : PJoin} (h : parseJoin b s = .ok j s') :
    ∃ seg : List PTok, PSt.toks s = seg ++ PSt.toks s' ∧
      seg.map (·.tok) = [s.cur.tok, .kw .join, .ident j.joinerTable, .dcolon, .str j.joinerFilename, .kw .on,
        .ident j.leftTable, .op (.single '.'), .ident j.leftColumn, .op (.single '='), .ident j.rightTable,
        .op (.single '.'), .ident j.rightColumn] ∧ j.isOuter = b := by
  unfold parseJoin at h
  try_inv h; rename_i _ s1 h1
  try_inv h; rename_i _ s2 h2
  try_inv h; rename_i u s3 h3
  try_inv h; rename_i _ s4 h4
  try_inv h; rename_i fl s5 h5
  try_inv h; rename_i _ s6 h6
  try_inv h; rename_i a s7 h7
  try_inv h; rename_i _ s8 h8
  try_inv h; rename_i bb s9 h9
  try_inv h; rename_i _ s10 h10
  try_inv h; rename_i c s11 h11
  try_inv h; rename_i _ s12 h12
  try_inv h; rename_i d s13 h13
  cases h
  have e1 := next_inv h1
  obtain ⟨t2, e2⟩ := expectConsume_inv h2
  obtain ⟨t3, e3⟩ := consumeIdentifier_inv h3
  obtain ⟨t4, e4⟩ := expectConsume_inv h4
  obtain ⟨t5, e5⟩ := consumeString_inv h5
  obtain ⟨t6, e6⟩ := expectConsume_inv h6
  obtain ⟨t7, e7⟩ := consumeIdentifier_inv h7
  obtain ⟨t8, e8⟩ := expectConsume_inv h8
  obtain ⟨t9, e9⟩ := consumeIdentifier_inv h9
  obtain ⟨t10, e10⟩ := expectConsume_inv h10
  obtain ⟨t11, e11⟩ := consumeIdentifier_inv h11
  obtain ⟨t12, e12⟩ := expectConsume_inv h12
  obtain ⟨t13, e13⟩ := consumeIdentifier_inv h13
  refine ⟨[s.cur, s1.cur, s2.cur, s3.cur, s4.cur, s5.cur, s6.cur, s7.cur, s8.cur, s9.cur, s10.cur, s11.cur, s12.cur], ?_, ?_, rfl⟩
  · rw [e1, e2, e3, e4, e5, e6, e7, e8, e9, e10, e11, e12, e13]; rfl
  · simp [t2, t3, t4, t5, t6, t7, t8, t9, t10, t11, t12, t13]


/-! ### a successful turn of the clause loop consumed one clause -/

theorem ClauseSeg.mono {T : PrecTables} {f f' : Nat} (hf : f ≤ f') {toks : List Tok} {v : ClauseVal}
    (h : ClauseSeg T f toks v) : ClauseSeg T f' toks v := by
  cases h with
  | limit n => exact .limit n
  | join outer u fl a b c d => exact .join outer u fl a b c d
  | filter body hnb tail0 hb0 e hrun => exact .filter body hnb tail0 hb0 e (fuel_mono_expr T hf hrun (by simp))
  | having body hnb tail0 hb0 e hrun => exact .having body hnb tail0 hb0 e (fuel_mono_expr T hf hrun (by simp))
  | groupBy body hnb tail0 hb0 ks hrun =>
    exact .groupBy body hnb tail0 hb0 ks ((groupKeys_mono_le T hf _).eq_of_ne (by rw [hrun]; simp) ▸ hrun)

theorem prepend_of_toks {s s' : PSt} {seg : List PTok} (h : PSt.toks s = seg ++ PSt.toks s') : s = PSt.prepend seg s' :=
  pst_ext (by rw [prepend_toks]; exact h)

theorem toks_prepend_cons {s s1 s' : PSt} {body : List PTok} (h1 : PSt.toks s = s.cur :: PSt.toks s1)
    (h2 : s1 = PSt.prepend body s') : PSt.toks s = (s.cur :: body) ++ PSt.toks s' := by
  rw [h1, h2, prepend_toks]; rfl

section runs
variable {T : PrecTables} (hT : InertBoundary T)
include hT

/-- if a turn of the clause loop succeeds (without the `;` break) and stops in front of a boundary token, what it
consumed is one clause (`ClauseSeg`) and what it did is storing that clause's value in its free slot -/
theorem clauseTurn_run {f : Nat} {c c' : Clauses} {s s' : PSt} (h : clauseTurn T f c s = .ok (c', false) s')
    (hb : Boundary s'.cur.tok) :
    ∃ seg v, s = PSt.prepend seg s' ∧ ClauseSeg T f (seg.map (·.tok)) v ∧ v.free c ∧ c' = v.put c := by
  unfold clauseTurn at h
  by_cases h1 : s.cur.tok = .kw .where
  · simp only [h1, if_true] at h
    try_inv h; rename_i _ s1 hn
    split at h
    · cases h
    · rename_i hfree
      try_inv h; rename_i e s2 he
      simp only [PRes.ok.injEq, Prod.mk.injEq, and_true] at h
      obtain ⟨rfl, rfl⟩ := h
      obtain ⟨body, hbody, hnb⟩ := parseExpr_noadv hT he
      refine ⟨s.cur :: body, .filter e, prepend_of_toks (toks_prepend_cons (next_inv hn) hbody), ?_, ?_, rfl⟩
      · simp only [List.map_cons, h1]
        exact .filter body hnb s2 hb e (hbody ▸ he)
      · simpa [ClauseVal.free] using hfree
  · simp only [h1, if_false] at h
    by_cases h2 : s.cur.tok = .kw .inner
    · simp only [h2, if_true] at h
      split at h
      · cases h
      · rename_i hfree
        try_inv h; rename_i j s2 hj
        simp only [PRes.ok.injEq, Prod.mk.injEq, and_true] at h
        obtain ⟨rfl, rfl⟩ := h
        obtain ⟨seg, hseg, htoks, hout⟩ := parseJoin_inv hj
        refine ⟨seg, .join j, prepend_of_toks hseg, ?_, by simpa [ClauseVal.free] using hfree, rfl⟩
        rw [htoks, h2]
        have := ClauseSeg.join (T := T) (fuel0 := f) false j.joinerTable j.joinerFilename j.leftTable j.leftColumn
          j.rightTable j.rightColumn
        cases j; simp only at hout; subst hout; exact this
    · simp only [h2, if_false] at h
      by_cases h3 : s.cur.tok = .kw .outer
      · simp only [h3, if_true] at h
        split at h
        · cases h
        · rename_i hfree
          try_inv h; rename_i j s2 hj
          simp only [PRes.ok.injEq, Prod.mk.injEq, and_true] at h
          obtain ⟨rfl, rfl⟩ := h
          obtain ⟨seg, hseg, htoks, hout⟩ := parseJoin_inv hj
          refine ⟨seg, .join j, prepend_of_toks hseg, ?_, by simpa [ClauseVal.free] using hfree, rfl⟩
          rw [htoks, h3]
          have := ClauseSeg.join (T := T) (fuel0 := f) true j.joinerTable j.joinerFilename j.leftTable j.leftColumn
            j.rightTable j.rightColumn
          cases j; simp only at hout; subst hout; exact this
      · simp only [h3, if_false] at h
        by_cases h4 : s.cur.tok = .kw .group
        · simp only [h4, if_true] at h
          try_inv h; rename_i _ s1 hn
          try_inv h; rename_i _ s2 hby
          split at h
          · cases h
          · rename_i hfree
            have hg : groupKeys T f s2 = .ok (c'.groupBy.getD []) s' ∧ c' = { c with groupBy := c'.groupBy } ∧ c'.groupBy.isSome := by
              unfold groupKeys
              try_inv h; rename_i k s3 hk
              try_inv h; rename_i ks s4 hks
              simp only [PRes.ok.injEq, Prod.mk.injEq, and_true] at h
              obtain ⟨rfl, rfl⟩ := h
              simp [hk, hks]
            obtain ⟨hrun, hc', hsome⟩ := hg
            obtain ⟨body, hbody, hnb⟩ := groupKeys_noadv hT hrun
            obtain ⟨tby, eby⟩ := expectConsume_inv hby
            refine ⟨s.cur :: s1.cur :: body, .groupBy (c'.groupBy.getD []), ?_, ?_, by simpa [ClauseVal.free] using hfree, ?_⟩
            · apply prepend_of_toks
              rw [next_inv hn, eby, hbody, prepend_toks]; rfl
            · simp only [List.map_cons, h4, tby]
              exact .groupBy body hnb s' hb _ (hbody ▸ hrun)
            · rw [hc']
              cases hgb : c'.groupBy with
              | none => rw [hgb] at hsome; cases hsome
              | some ks => simp [ClauseVal.put]
        · simp only [h4, if_false] at h
          by_cases h5 : s.cur.tok = .kw .having
          · simp only [h5, if_true] at h
            split at h
            · cases h
            · rename_i hfree
              try_inv h; rename_i _ s1 hn
              try_inv h; rename_i e s2 he
              simp only [PRes.ok.injEq, Prod.mk.injEq, and_true] at h
              obtain ⟨rfl, rfl⟩ := h
              obtain ⟨body, hbody, hnb⟩ := parseExpr_noadv hT he
              refine ⟨s.cur :: body, .having e, prepend_of_toks (toks_prepend_cons (next_inv hn) hbody), ?_, ?_, rfl⟩
              · simp only [List.map_cons, h5]
                exact .having body hnb s2 hb e (hbody ▸ he)
              · simpa [ClauseVal.free] using hfree
          · simp only [h5, if_false] at h
            by_cases h6 : s.cur.tok = .kw .limit
            · simp only [h6, if_true] at h
              split at h
              · cases h
              · rename_i hfree
                try_inv h; rename_i _ s1 hn
                try_inv h; rename_i n s2 hi
                simp only [PRes.ok.injEq, Prod.mk.injEq, and_true] at h
                obtain ⟨rfl, rfl⟩ := h
                obtain ⟨ti, ei⟩ := consumeInt_inv hi
                refine ⟨[s.cur, s1.cur], .limit (asUsize n), ?_, ?_, by simpa [ClauseVal.free] using hfree, rfl⟩
                · apply prepend_of_toks; rw [next_inv hn, ei]; rfl
                · simp only [List.map_cons, List.map_nil, h6, ti]; exact .limit n
            · simp only [h6, if_false] at h
              by_cases h7 : s.cur.tok = .semi
              · simp only [h7, if_true] at h
                try_inv h
                simp at h
              · simp only [h7, if_false] at h; cases h

omit hT in
theorem clauseTurn_flag {f : Nat} {c c1 : Clauses} {s s1 : PSt} (h : clauseTurn T f c s = .ok (c1, true) s1) :
    s.cur.tok = .semi ∧ c1 = c ∧ next s = .ok () s1 := by
  unfold clauseTurn at h
  by_cases h1 : s.cur.tok = .kw .where
  · exfalso; rw [if_pos h1] at h; revert h; repeat' split
    all_goals simp_all [mkErr]
  rw [if_neg h1] at h
  by_cases h2 : s.cur.tok = .kw .inner
  · exfalso; rw [if_pos h2] at h; revert h; repeat' split
    all_goals simp_all [mkErr]
  rw [if_neg h2] at h
  by_cases h3 : s.cur.tok = .kw .outer
  · exfalso; rw [if_pos h3] at h; revert h; repeat' split
    all_goals simp_all [mkErr]
  rw [if_neg h3] at h
  by_cases h4 : s.cur.tok = .kw .group
  · exfalso; rw [if_pos h4] at h; revert h; repeat' split
    all_goals simp_all [mkErr]
  rw [if_neg h4] at h
  by_cases h5 : s.cur.tok = .kw .having
  · exfalso; rw [if_pos h5] at h; revert h; repeat' split
    all_goals simp_all [mkErr]
  rw [if_neg h5] at h
  by_cases h6 : s.cur.tok = .kw .limit
  · exfalso; rw [if_pos h6] at h; revert h; repeat' split
    all_goals simp_all [mkErr]
  rw [if_neg h6] at h
  by_cases h7 : s.cur.tok = .semi
  · rw [if_pos h7] at h
    try_inv h; rename_i a s2 hn
    simp only [PRes.ok.injEq, Prod.mk.injEq, and_true] at h
    obtain ⟨rfl, rfl⟩ := h
    exact ⟨h7, rfl, hn⟩
  · rw [if_neg h7] at h; cases h

omit hT in
theorem clauseTurn_ok_boundary {f : Nat} {c : Clauses} {s s' : PSt} {r : Clauses × Bool}
    (h : clauseTurn T f c s = .ok r s') : Boundary s.cur.tok := by
  unfold clauseTurn at h
  unfold Boundary ClauseKw
  by_cases h1 : s.cur.tok = .kw .where; · simp [h1]
  by_cases h2 : s.cur.tok = .kw .inner; · simp [h2]
  by_cases h3 : s.cur.tok = .kw .outer; · simp [h3]
  by_cases h4 : s.cur.tok = .kw .group; · simp [h4]
  by_cases h5 : s.cur.tok = .kw .having; · simp [h5]
  by_cases h6 : s.cur.tok = .kw .limit; · simp [h6]
  by_cases h7 : s.cur.tok = .semi; · simp [h7]
  rw [if_neg h1, if_neg h2, if_neg h3, if_neg h4, if_neg h5, if_neg h6, if_neg h7] at h
  cases h

omit hT in
theorem free_of_free_put {v w : ClauseVal} {c : Clauses} (h : w.free (v.put c)) : w.free c ∧ v.kind ≠ w.kind := by
  cases v <;> cases w <;> simp_all [ClauseVal.put, ClauseVal.free, ClauseVal.kind]

/-- **a successful run of the clause loop is a sequence of clauses**: the input is clauses of pairwise different
kinds (`ClauseSeg`) followed by `End` (where the loop stops) or by `;` (which the loop consumes), and the slots
returned are those clauses' values -/
theorem clauseLoop_run : ∀ (fuel : Nat) (c : Clauses) (s : PSt) (cF : Clauses) (sF : PSt),
    clauseLoop T fuel c s = .ok cF sF →
    ∃ (segs : List (List PTok × ClauseVal)) (term : PSt),
      s = PSt.prependAll (segs.map (·.1)) term ∧
      (∀ p ∈ segs, ClauseSeg T fuel (p.1.map (·.tok)) p.2) ∧
      segs.Pairwise (fun a b => a.2.kind ≠ b.2.kind) ∧
      (∀ p ∈ segs, p.2.free c) ∧ cF = putAll (segs.map (·.2)) c ∧
      ((term.cur.tok = .eof ∧ sF = term ∧ segs ≠ []) ∨ (term.cur.tok = .semi ∧ next term = .ok () sF)) := by
  intro fuel
  induction fuel with
  | zero => intro c s cF sF h; rw [clauseLoop] at h; cases h
  | succ n ih =>
    intro c s cF sF h
    rw [clauseLoop] at h
    try_inv h; rename_i cb s1 hturn
    obtain ⟨c1, b⟩ := cb
    cases b with
    | true =>
      simp only [if_true, PRes.ok.injEq] at h
      obtain ⟨rfl, rfl⟩ := h
      obtain ⟨hs, rfl, hn⟩ := clauseTurn_flag hturn
      exact ⟨[], s, rfl, by simp, by simp, by simp, rfl, .inr ⟨hs, hn⟩⟩
    | false =>
      simp only [Bool.false_eq_true, if_false] at h
      by_cases he : s1.cur.tok = .eof
      · simp only [he, if_true, PRes.ok.injEq] at h
        obtain ⟨rfl, rfl⟩ := h
        obtain ⟨seg, v, hseg, hcs, hfree, rfl⟩ := clauseTurn_run hT hturn (.inr (.inl he))
        exact ⟨[(seg, v)], s1, by simp [PSt.prependAll, hseg], by
          intro p hp; simp only [List.mem_singleton] at hp; subst hp; exact hcs.mono (Nat.le_succ _),
          by simp, by intro p hp; simp only [List.mem_singleton] at hp; subst hp; exact hfree,
          by simp [putAll], .inl ⟨he, rfl, by simp⟩⟩
      · simp only [he, if_false] at h
        have hb1 : Boundary s1.cur.tok := by
          cases n with
          | zero => rw [clauseLoop] at h; cases h
          | succ m =>
            have h' := h
            rw [clauseLoop] at h'
            try_inv h'; rename_i cb2 s2 ht2
            exact clauseTurn_ok_boundary ht2
        obtain ⟨seg, v, hseg, hcs, hfree, rfl⟩ := clauseTurn_run hT hturn hb1
        obtain ⟨segs, term, hs1, hcss, hpw, hfrees, hcF, hend⟩ := ih _ _ _ _ h
        refine ⟨(seg, v) :: segs, term, ?_, ?_, ?_, ?_, ?_, ?_⟩
        · simp [PSt.prependAll, hseg, hs1]
        · intro p hp
          simp only [List.mem_cons] at hp
          rcases hp with rfl | hp
          · exact hcs.mono (Nat.le_succ _)
          · exact (hcss p hp).mono (Nat.le_succ _)
        · refine List.pairwise_cons.mpr ⟨?_, hpw⟩
          intro p hp; exact (free_of_free_put (hfrees p hp)).2
        · intro p hp
          simp only [List.mem_cons] at hp
          rcases hp with rfl | hp
          · exact hfree
          · exact (free_of_free_put (hfrees p hp)).1
        · simp [putAll, hcF]
        · rcases hend with ⟨h1, h2, _⟩ | h2
          · exact .inl ⟨h1, h2, by simp⟩
          · exact .inr h2

end runs

end Parse
end Sqlgrep
