import SqlgrepModel.Lemmas.ParseFuelStmt
/-
The clause loop of `parse_select` stores every clause in its own slot: the result of a run over a sequence of
clauses is the set of slots, whatever the order (parser-level half of C20's "clause order does not matter").
-/
namespace Sqlgrep

/-- the value one clause puts into the statement -/
inductive ClauseVal where
  | filter (e : PExpr)
  | groupBy (keys : List PExpr)
  | having (e : PExpr)
  | join (j : PJoin)
  | limit (n : Nat)
  deriving Repr, Inhabited

/-- which of the five slots -/
def ClauseVal.kind : ClauseVal → Nat
  | .filter _ => 0 | .groupBy _ => 1 | .having _ => 2 | .join _ => 3 | .limit _ => 4

/-- the slot of `v` is still empty in `c` -/
def ClauseVal.free (v : ClauseVal) (c : Clauses) : Prop :=
  match v with
  | .filter _ => c.filter = none
  | .groupBy _ => c.groupBy = none
  | .having _ => c.having = none
  | .join _ => c.join = none
  | .limit _ => c.limit = none

/-- store `v` in its slot -/
def ClauseVal.put (v : ClauseVal) (c : Clauses) : Clauses :=
  match v with
  | .filter e => { c with filter := some e }
  | .groupBy ks => { c with groupBy := some ks }
  | .having e => { c with having := some e }
  | .join j => { c with join := some j }
  | .limit n => { c with limit := some n }

def putAll (vs : List ClauseVal) (c : Clauses) : Clauses := vs.foldl (fun c v => v.put c) c

/-! ### trees modulo locations (permuting clauses moves every token) -/

mutual
def PExpr.noLoc : PExpr → PExpr
  | .value _ v => .value ⟨0, 0⟩ v
  | .column _ n => .column ⟨0, 0⟩ n
  | .wildcard _ => .wildcard ⟨0, 0⟩
  | .tuple _ vs => .tuple ⟨0, 0⟩ (PExpr.noLocList vs)
  | .binop _ o a b => .binop ⟨0, 0⟩ o a.noLoc b.noLoc
  | .boolop _ o a b => .boolop ⟨0, 0⟩ o a.noLoc b.noLoc
  | .unop _ o e => .unop ⟨0, 0⟩ o e.noLoc
  | .invert _ e => .invert ⟨0, 0⟩ e.noLoc
  | .nullcmp _ n a b => .nullcmp ⟨0, 0⟩ n a.noLoc b.noLoc
  | .inList _ n e vs => .inList ⟨0, 0⟩ n e.noLoc (PExpr.noLocList vs)
  | .call _ n args d => .call ⟨0, 0⟩ n (PExpr.noLocList args) d
  | .index _ a i => .index ⟨0, 0⟩ a.noLoc i.noLoc
  | .cast _ e t => .cast ⟨0, 0⟩ e.noLoc t
  | .case _ cs els => .case ⟨0, 0⟩ (PExpr.noLocClauses cs) els.noLoc
def PExpr.noLocList : List PExpr → List PExpr
  | [] => []
  | x :: xs => x.noLoc :: PExpr.noLocList xs
def PExpr.noLocClauses : List (PExpr × PExpr) → List (PExpr × PExpr)
  | [] => []
  | (c, r) :: xs => (c.noLoc, r.noLoc) :: PExpr.noLocClauses xs
end

def ClauseVal.erase : ClauseVal → ClauseVal
  | .filter e => .filter e.noLoc
  | .groupBy ks => .groupBy (PExpr.noLocList ks)
  | .having e => .having e.noLoc
  | .join j => .join j
  | .limit n => .limit n

def Clauses.erase (c : Clauses) : Clauses :=
  { filter := c.filter.map PExpr.noLoc, groupBy := c.groupBy.map PExpr.noLocList,
    having := c.having.map PExpr.noLoc, join := c.join, limit := c.limit }

/-- the same clauses up to locations -/
def Clauses.Same (c d : Clauses) : Prop := c.erase = d.erase
def ClauseVal.Same (v w : ClauseVal) : Prop := v.erase = w.erase


namespace Parse

theorem put_comm (v w : ClauseVal) (c : Clauses) (h : v.kind ≠ w.kind) : w.put (v.put c) = v.put (w.put c) := by
  cases v <;> cases w <;> simp_all [ClauseVal.put, ClauseVal.kind]

theorem put_free (v w : ClauseVal) (c : Clauses) (h : v.kind ≠ w.kind) (hf : w.free c) : w.free (v.put c) := by
  cases v <;> cases w <;> simp_all [ClauseVal.put, ClauseVal.kind, ClauseVal.free]

theorem putAll_put_comm (vs : List ClauseVal) (v : ClauseVal) (c : Clauses) (h : ∀ w ∈ vs, w.kind ≠ v.kind) :
    putAll vs (v.put c) = v.put (putAll vs c) := by
  induction vs generalizing c with
  | nil => rfl
  | cons w ws ih =>
    simp only [putAll, List.foldl_cons] at *
    rw [put_comm v w c (by have := h w (by simp); exact fun e => this e.symm)]
    exact ih _ (fun x hx => h x (by simp [hx]))

theorem same_kind {v w : ClauseVal} (h : v.Same w) : v.kind = w.kind := by
  unfold ClauseVal.Same at h
  cases v <;> cases w <;> simp_all [ClauseVal.erase, ClauseVal.kind]

theorem same_free {v w : ClauseVal} (h : v.Same w) (c : Clauses) : v.free c ↔ w.free c := by
  unfold ClauseVal.Same at h
  cases v <;> cases w <;> simp_all [ClauseVal.erase, ClauseVal.free]

theorem same_put {v w : ClauseVal} {c d : Clauses} (hv : v.Same w) (hc : c.Same d) : (v.put c).Same (w.put d) := by
  unfold ClauseVal.Same at hv
  unfold Clauses.Same at *
  cases v <;> cases w <;> simp_all [ClauseVal.erase, ClauseVal.put, Clauses.erase]

/-- the slots filled do not depend on the order in which clauses of pairwise different kinds are stored -/
theorem putAll_perm {vs ws : List ClauseVal} (hp : vs.Perm ws) (hd : vs.Pairwise (fun a b => a.kind ≠ b.kind))
    (c : Clauses) : putAll vs c = putAll ws c := by
  induction hp generalizing c with
  | nil => rfl
  | cons x _ ih =>
    simp only [putAll, List.foldl_cons]
    exact ih (List.Pairwise.of_cons hd) _
  | swap x y l =>
    simp only [putAll, List.foldl_cons]
    have hxy : y.kind ≠ x.kind := (List.pairwise_cons.mp hd).1 x (by simp)
    rw [put_comm y x c hxy]
  | trans h1 _ ih1 ih2 =>
    rw [ih1 hd, ih2 (h1.pairwise hd (fun hab e => hab e.symm))]

end Parse
end Sqlgrep

namespace Sqlgrep

/-- the tokens that start a clause -/
def ClauseKw (t : Tok) : Prop :=
  t = .kw .where ∨ t = .kw .inner ∨ t = .kw .outer ∨ t = .kw .group ∨ t = .kw .having ∨ t = .kw .limit

/-- what may follow a clause: the next clause, `;` or `End` -/
def Boundary (t : Tok) : Prop := ClauseKw t ∨ t = .eof ∨ t = .semi

/-- the state whose tokens are `seg` followed by the tokens of `tail` (`tail` itself for an empty `seg`) -/
def PSt.prepend : List PTok → PSt → PSt
  | [], tail => tail
  | t :: ts, tail => { cur := t, rest := ts ++ tail.cur :: tail.rest }

/-- several segments in a row -/
def PSt.prependAll : List (List PTok) → PSt → PSt
  | [], tail => tail
  | seg :: segs, tail => PSt.prepend seg (PSt.prependAll segs tail)

/-- `seg` is one clause with value `v`: in front of whatever may follow a clause (`tail` at a boundary token), one
turn of the clause loop with at least `fuel0` fuel consumes exactly `seg` and stores `v` up to locations (an identifier
node carries the location of the token *after* it, so the value cannot be the same to the letter) — "each clause parser
consumes exactly its clause" -/
structure IsClause (T : PrecTables) (fuel0 : Nat) (seg : List PTok) (v : ClauseVal) : Prop where
  head : ∃ t ts, seg = t :: ts ∧ ClauseKw t.tok
  turn : ∀ (fuel : Nat) (c : Clauses) (tail : PSt), fuel0 ≤ fuel → Boundary tail.cur.tok → v.free c →
    ∃ v' : ClauseVal, v'.Same v ∧ Parse.clauseTurn T fuel c (PSt.prepend seg tail) = .ok (v'.put c, false) tail

namespace Parse

theorem prepend_cur {seg : List PTok} {t ts} (h : seg = t :: ts) (tail : PSt) : (PSt.prepend seg tail).cur = t := by
  subst h; rfl

theorem prependAll_boundary (T : PrecTables) (fuel0 : Nat) (segs : List (List PTok × ClauseVal)) (final : PSt)
    (hs : ∀ p ∈ segs, IsClause T fuel0 p.1 p.2) (hf : Boundary final.cur.tok) :
    Boundary (PSt.prependAll (segs.map (·.1)) final).cur.tok := by
  cases segs with
  | nil => exact hf
  | cons p rest =>
    obtain ⟨t, ts, hseg, hk⟩ := (hs p (by simp)).head
    simp only [List.map_cons, PSt.prependAll]
    rw [prepend_cur hseg]
    exact .inl hk

theorem clauseKw_ne_eof {t : Tok} (h : ClauseKw t) : t ≠ .eof := by
  unfold ClauseKw at h; rcases h with h | h | h | h | h | h <;> simp [h]

/-- **the loop stores every clause in its own slot**: a run over clauses of pairwise different kinds, ended by `End`,
consumes all of them and returns (up to locations) the slots `putAll` -/
theorem clauseLoop_segments (T : PrecTables) (fuel0 : Nat) (final : PSt) (hfinal : final.cur.tok = .eof) :
    ∀ (segs : List (List PTok × ClauseVal)) (fuel : Nat) (c d : Clauses), segs ≠ [] →
      (∀ p ∈ segs, IsClause T fuel0 p.1 p.2) →
      segs.Pairwise (fun a b => a.2.kind ≠ b.2.kind) →
      (∀ p ∈ segs, p.2.free c) → c.Same d →
      fuel0 + segs.length ≤ fuel →
      ∃ c', clauseLoop T fuel c (PSt.prependAll (segs.map (·.1)) final) = .ok c' final ∧
        c'.Same (putAll (segs.map (·.2)) d) := by
  intro segs
  induction segs with
  | nil => intro _ _ _ h; exact absurd rfl h
  | cons p rest ih =>
    intro fuel c d _ hs hd hfree hcd hfuel
    obtain ⟨n, rfl⟩ : ∃ n, fuel = n + 1 := ⟨fuel - 1, by simp at hfuel; omega⟩
    have hp := hs p (by simp)
    have hrest : ∀ q ∈ rest, IsClause T fuel0 q.1 q.2 := fun q hq => hs q (by simp [hq])
    have htailb := prependAll_boundary T fuel0 rest final hrest (.inr (.inl hfinal))
    obtain ⟨v', hv', hturn⟩ := hp.turn n c (PSt.prependAll (rest.map (·.1)) final) (by simp at hfuel; omega) htailb
      (hfree p (by simp))
    rw [clauseLoop]
    simp only [List.map_cons, PSt.prependAll, hturn]
    simp only [putAll, List.foldl_cons]
    cases rest with
    | nil =>
      refine ⟨v'.put c, by simp [PSt.prependAll, hfinal], ?_⟩
      simpa using same_put hv' hcd
    | cons q rest' =>
      obtain ⟨t, ts, hseg, hk⟩ := (hrest q (by simp)).head
      have hne : (PSt.prependAll ((q :: rest').map (·.1)) final).cur.tok ≠ .eof := by
        simp only [List.map_cons, PSt.prependAll]
        rw [prepend_cur hseg]
        exact clauseKw_ne_eof hk
      simp only [Bool.false_eq_true, if_false, hne]
      have hk' := same_kind hv'
      have := ih n (v'.put c) (p.2.put d) (by simp) hrest (List.Pairwise.of_cons hd)
        (fun r hr => put_free v' r.2 c (by rw [hk']; exact (List.pairwise_cons.mp hd).1 r hr) (hfree r (by simp [hr])))
        (same_put hv' hcd) (by simp at hfuel ⊢; omega)
      simpa [putAll] using this

/-- **clause order does not matter** (given that every segment is a clause): two runs over the same clauses in
different orders return the same slots up to locations -/
theorem clauseLoop_perm (T : PrecTables) (fuel0 : Nat) (final1 final2 : PSt) (h1 : final1.cur.tok = .eof)
    (h2 : final2.cur.tok = .eof) (segs1 segs2 : List (List PTok × ClauseVal)) (hne : segs1 ≠ [])
    (hperm : (segs1.map (·.2)).Perm (segs2.map (·.2)))
    (hs1 : ∀ p ∈ segs1, IsClause T fuel0 p.1 p.2) (hs2 : ∀ p ∈ segs2, IsClause T fuel0 p.1 p.2)
    (hd : segs1.Pairwise (fun a b => a.2.kind ≠ b.2.kind))
    (fuel : Nat) (hfuel : fuel0 + segs1.length ≤ fuel) :
    ∃ c1 c2, clauseLoop T fuel {} (PSt.prependAll (segs1.map (·.1)) final1) = .ok c1 final1 ∧
      clauseLoop T fuel {} (PSt.prependAll (segs2.map (·.1)) final2) = .ok c2 final2 ∧ c1.Same c2 := by
  have hlen : segs1.length = segs2.length := by simpa using hperm.length_eq
  have hne2 : segs2 ≠ [] := by intro h; rw [h] at hlen; exact hne (List.length_eq_zero_iff.mp hlen)
  have hd1 : (segs1.map (·.2)).Pairwise (fun a b => a.kind ≠ b.kind) := by
    rw [List.pairwise_map]; exact hd
  have hd2' : (segs2.map (·.2)).Pairwise (fun a b => a.kind ≠ b.kind) :=
    hperm.pairwise hd1 (fun hab e => hab e.symm)
  have hd2 : segs2.Pairwise (fun a b => a.2.kind ≠ b.2.kind) := by
    rw [List.pairwise_map] at hd2'; exact hd2'
  have hfree : ∀ (segs : List (List PTok × ClauseVal)), ∀ p ∈ segs, p.2.free ({} : Clauses) := by
    intro segs p _; cases p.2 <;> simp [ClauseVal.free]
  obtain ⟨c1, hc1, hs1'⟩ := clauseLoop_segments T fuel0 final1 h1 segs1 fuel {} {} hne hs1 hd (hfree segs1) rfl hfuel
  obtain ⟨c2, hc2, hs2'⟩ := clauseLoop_segments T fuel0 final2 h2 segs2 fuel {} {} hne2 hs2 hd2 (hfree segs2) rfl
    (by omega)
  refine ⟨c1, c2, hc1, hc2, ?_⟩
  unfold Clauses.Same at *
  rw [hs1', hs2', putAll_perm hperm hd1]

/-- `LIMIT n` is a clause, whatever follows -/
theorem isClause_limit (T : PrecTables) (l1 l2 : Loc) (n : Int) :
    IsClause T 0 [⟨l1, .kw .limit⟩, ⟨l2, .int n⟩] (.limit (asUsize n)) := by
  refine ⟨⟨_, _, rfl, by simp [ClauseKw]⟩, ?_⟩
  intro fuel c tail _ _ hfree
  simp only [ClauseVal.free] at hfree
  refine ⟨_, rfl, ?_⟩
  simp [clauseTurn, PSt.prepend, next, consumeInt, PRes.bind, hfree, ClauseVal.put]

/-- `INNER|OUTER JOIN u::'file' ON a.b = c.d` is a clause, whatever follows -/
theorem isClause_join (T : PrecTables) (l : Fin 13 → Loc) (outer : Bool) (u f a b c d : List Char) :
    IsClause T 0
      [⟨l 0, .kw (if outer then .outer else .inner)⟩, ⟨l 1, .kw .join⟩, ⟨l 2, .ident u⟩, ⟨l 3, .dcolon⟩, ⟨l 4, .str f⟩,
       ⟨l 5, .kw .on⟩, ⟨l 6, .ident a⟩, ⟨l 7, .op (.single '.')⟩, ⟨l 8, .ident b⟩, ⟨l 9, .op (.single '=')⟩,
       ⟨l 10, .ident c⟩, ⟨l 11, .op (.single '.')⟩, ⟨l 12, .ident d⟩]
      (.join { joinerTable := u, joinerFilename := f, leftTable := a, leftColumn := b, rightTable := c,
               rightColumn := d, isOuter := outer }) := by
  refine ⟨⟨_, _, rfl, by cases outer <;> simp [ClauseKw]⟩, ?_⟩
  intro fuel cl tail _ _ hfree
  simp only [ClauseVal.free] at hfree
  refine ⟨_, rfl, ?_⟩
  cases outer <;>
    simp [clauseTurn, parseJoin, PSt.prepend, next, expectConsume, expectConsumeOp, consumeIdentifier, consumeString,
      PRes.bind, hfree, ClauseVal.put]

/-- tables that give no precedence to the tokens that may follow a clause (true of the code's tables) -/
def InertBoundary (T : PrecTables) : Prop := ∀ t, Boundary t → lookupTok T.other t = none

theorem inertBoundary_code : InertBoundary PrecTables.code := by
  intro t ht
  unfold Boundary ClauseKw at ht
  rcases ht with (h | h | h | h | h | h) | h | h <;> subst h <;> decide

/-- `WHERE x` (one identifier) is a clause: the value is the column node, located at whatever token follows -/
theorem isClause_where_ident (T : PrecTables) (hT : InertBoundary T) (l1 l2 : Loc) (x : List Char) :
    IsClause T 4 [⟨l1, .kw .where⟩, ⟨l2, .ident x⟩] (.filter (.column ⟨0, 0⟩ x)) := by
  refine ⟨⟨_, _, rfl, by simp [ClauseKw]⟩, ?_⟩
  intro fuel c tail hfuel hb hfree
  obtain ⟨n, rfl⟩ : ∃ n, fuel = n + 4 := ⟨fuel - 4, by omega⟩
  simp only [ClauseVal.free] at hfree
  have hnone := hT _ hb
  refine ⟨.filter (.column tail.cur.loc x), by simp [ClauseVal.Same, ClauseVal.erase, PExpr.noLoc], ?_⟩
  unfold Boundary ClauseKw at hb
  rcases hb with (h | h | h | h | h | h) | h | h <;>
    simp [clauseTurn, PSt.prepend, next, hfree, parseExpr, parseUnary, parsePrimary, parseRhs, tokenPrecedence, h,
      ClauseVal.put, h ▸ hnone]

end Parse
end Sqlgrep
