import SqlgrepModel.Model.Reader
namespace Sqlgrep.Props.C10
open Sqlgrep.Reader

example : (run (Follow.init [] true 2) [.append [97, 10, 98], .poll 1, .poll 1, .poll 1]).delivered = [[97]] := by decide

end Sqlgrep.Props.C10
