import SqlgrepModel.Model.JsonDoc
/-
`JsonDoc.docOfLine` (the Lean computation of `serde_json::from_str::<Value>(line)`) and RFC 8259.

* `parseJsonL_erase`: the lexeme-keeping parser is `Lemmas/JsonParser.parseJson` — same control flow, `.num` carries the
  text of the number instead of its denotation;
* `parseJsonL_grammar` / `parseJsonL_complete`: hence (by `parseJson_iff`) `parseJsonL cs = some l` exactly when `cs` is a
  `JSON-text` of RFC 8259 whose denotation is `l.erase`;
* `docOfLine_some_iff`, `docOfLine_rfc8259`, `not_rfc8259_not_json`: a line has a document iff its bytes are UTF-8 of a
  `JSON-text`, within serde_json's two limits (nesting ≤ 127, numbers in the REAL range).
-/
namespace Sqlgrep
namespace JsonDoc
open JsonGrammar

def eV (p : LVal × List Char) : JVal × List Char := (p.1.erase, p.2)
def eMs (p : List (List Char × LVal) × List Char) : List (List Char × JVal) × List Char := (LVal.eraseMembers p.1, p.2)
def eM (p : (List Char × LVal) × List Char) : (List Char × JVal) × List Char := ((p.1.1, p.1.2.erase), p.2)
def eEs (p : List LVal × List Char) : List JVal × List Char := (LVal.eraseList p.1, p.2)

structure EraseIH (fuel : Nat) : Prop where
  v : ∀ cs, (parseValL fuel cs).map eV = parseVal fuel cs
  ms : ∀ cs, (parseMembersL fuel cs).map eMs = parseMembers fuel cs
  m : ∀ cs, (parseMemberL fuel cs).map eM = parseMember fuel cs
  es : ∀ cs, (parseElemsL fuel cs).map eEs = parseElems fuel cs

theorem erase_zero : EraseIH 0 := by
  constructor <;> intro cs
  · rw [parseValL, parseVal]; rfl
  · rw [parseMembersL, parseMembers]; rfl
  · rw [parseMemberL, parseMember]; rfl
  · rw [parseElemsL, parseElems]; rfl

theorem erase_succ (f : Nat) (ih : EraseIH f) : EraseIH (f + 1) := by
  constructor
  · intro cs
    rw [parseValL, parseVal]
    cases dropWs cs with
    | nil => rfl
    | cons c t =>
      simp only
      by_cases h1 : c = '"'
      · simp only [h1, if_true]
        cases parseChars t with
        | none => rfl
        | some p => rfl
      simp only [h1, if_false]
      by_cases h2 : c = '{'
      · simp only [h2, if_true]
        cases dropWs t with
        | nil => rfl
        | cons c2 t2 =>
          simp only
          by_cases h3 : c2 = '}'
          · simp only [h3, if_true]; rfl
          · simp only [h3, if_false]
            rw [← ih.ms]
            cases parseMembersL f (c2 :: t2) with
            | none => rfl
            | some p => rfl
      simp only [h2, if_false]
      by_cases h3 : c = '['
      · simp only [h3, if_true]
        cases dropWs t with
        | nil => rfl
        | cons c2 t2 =>
          simp only
          by_cases h4 : c2 = ']'
          · simp only [h4, if_true]; rfl
          · simp only [h4, if_false]
            rw [← ih.es]
            cases parseElemsL f (c2 :: t2) with
            | none => rfl
            | some p => rfl
      simp only [h3, if_false]
      by_cases h4 : c = 't'
      · simp only [h4, if_true]
        cases stripLit ['r', 'u', 'e'] t <;> rfl
      simp only [h4, if_false]
      by_cases h5 : c = 'f'
      · simp only [h5, if_true]
        cases stripLit ['a', 'l', 's', 'e'] t <;> rfl
      simp only [h5, if_false]
      by_cases h6 : c = 'n'
      · simp only [h6, if_true]
        cases stripLit ['u', 'l', 'l'] t <;> rfl
      simp only [h6, if_false]
      cases hn : numValue (spanNum (c :: t)).1 with
      | none => rfl
      | some d => simp [eV, LVal.erase, hn]
  · intro cs
    rw [parseMembersL, parseMembers, ← ih.m]
    cases parseMemberL f cs with
    | none => rfl
    | some p =>
      obtain ⟨m, r⟩ := p
      simp only [Option.map, eM]
      cases r with
      | nil => rfl
      | cons c t =>
        simp only
        by_cases h1 : c = '}'
        · simp only [h1, if_true]; rfl
        simp only [h1, if_false]
        by_cases h2 : c = ','
        · simp only [h2, if_true]
          rw [← ih.ms]
          cases parseMembersL f t with
          | none => rfl
          | some p => rfl
        · simp only [h2, if_false]
  · intro cs
    rw [parseMemberL, parseMember]
    cases dropWs cs with
    | nil => rfl
    | cons c t =>
      simp only
      by_cases h1 : c = '"'
      · simp only [h1, if_true]
        cases parseChars t with
        | none => rfl
        | some p =>
          obtain ⟨k, r⟩ := p
          simp only
          cases dropWs r with
          | nil => rfl
          | cons c2 t2 =>
            simp only
            by_cases h2 : c2 = ':'
            · simp only [h2, if_true]
              rw [← ih.v]
              cases parseValL f t2 with
              | none => rfl
              | some p => rfl
            · simp only [h2, if_false]; rfl
      · simp only [h1, if_false]; rfl
  · intro cs
    rw [parseElemsL, parseElems, ← ih.v]
    cases parseValL f cs with
    | none => rfl
    | some p =>
      obtain ⟨x, r⟩ := p
      simp only [Option.map, eV]
      cases r with
      | nil => rfl
      | cons c t =>
        simp only
        by_cases h1 : c = ']'
        · simp only [h1, if_true]; rfl
        simp only [h1, if_false]
        by_cases h2 : c = ','
        · simp only [h2, if_true]
          rw [← ih.es]
          cases parseElemsL f t with
          | none => rfl
          | some p => rfl
        · simp only [h2, if_false]

theorem erase_all : ∀ fuel, EraseIH fuel
  | 0 => erase_zero
  | f + 1 => erase_succ f (erase_all f)

/-- **the lexeme parser is the grammar's parser**: forgetting the number lexemes of `parseJsonL`'s answer gives
`parseJson`'s answer, and one fails exactly when the other does -/
theorem parseJsonL_erase (cs : List Char) : (parseJsonL cs).map LVal.erase = parseJson cs := by
  unfold parseJsonL parseJson
  rw [← (erase_all _).v]
  cases parseValL (cs.length + 1) cs with
  | none => rfl
  | some p =>
    obtain ⟨x, r⟩ := p
    cases r <;> rfl


/-- a text the lexeme parser accepts is a `JSON-text` of RFC 8259 and denotes the tree with the lexemes forgotten -/
theorem parseJsonL_grammar {cs : List Char} {l : LVal} (h : parseJsonL cs = some l) : JsonTextD cs l.erase := by
  have := parseJsonL_erase cs
  rw [h] at this
  exact (parseJson_iff cs l.erase).1 this.symm

/-- every `JSON-text` is accepted, with a lexeme tree that denotes its value -/
theorem parseJsonL_complete {cs : List Char} {x : JVal} (h : JsonTextD cs x) : ∃ l, parseJsonL cs = some l ∧ l.erase = x := by
  have hp := (parseJson_iff cs x).2 h
  rw [← parseJsonL_erase] at hp
  cases hl : parseJsonL cs with
  | none => rw [hl] at hp; cases hp
  | some l =>
    rw [hl] at hp
    simp only [Option.map, Option.some.injEq] at hp
    exact ⟨l, rfl, hp⟩

/-- what it means that a line has a document -/
theorem docOfLine_some_iff (line : List Nat) (j : Json) :
    docOfLine line = some j ↔
      ∃ cs l, Utf8.decode line = some cs ∧ parseJsonL cs = some l ∧ l.depth ≤ maxDepth ∧ toJson l = some j := by
  unfold docOfLine docOfChars
  constructor
  · intro h
    cases hd : Utf8.decode line with
    | none => rw [hd] at h; cases h
    | some cs =>
      rw [hd] at h
      simp only at h
      cases hl : parseJsonL cs with
      | none => rw [hl] at h; cases h
      | some l =>
        rw [hl] at h
        simp only at h
        by_cases hdep : l.depth ≤ maxDepth
        · rw [if_pos hdep] at h; exact ⟨cs, l, rfl, hl, hdep, h⟩
        · rw [if_neg hdep] at h; cases h
  · rintro ⟨cs, l, hd, hl, hdep, hj⟩
    rw [hd]; simp only; rw [hl]; simp only; rw [if_pos hdep]; exact hj

/-- **a document comes from an RFC 8259 text**: if the line has a document, its bytes are the UTF-8 encoding of a
`JSON-text` (`Spec/JsonGrammar.lean`, written from the RFC), and the document is serde_json's classification
(`toJson`: integer / float numbers, UTF-8 strings, repeated keys) of a tree that denotes the text's value -/
theorem docOfLine_rfc8259 (line : List Nat) (j : Json) (h : docOfLine line = some j) :
    ∃ cs l, Utf8.decode line = some cs ∧ JsonTextD cs l.erase ∧ l.depth ≤ maxDepth ∧ toJson l = some j := by
  obtain ⟨cs, l, hd, hl, hdep, hj⟩ := (docOfLine_some_iff line j).1 h
  exact ⟨cs, l, hd, parseJsonL_grammar hl, hdep, hj⟩

/-- a line whose text is not a `JSON-text` of RFC 8259 has no document -/
theorem not_rfc8259_not_json (line : List Nat) (cs : List Char) (hd : Utf8.decode line = some cs)
    (h : ¬ ∃ x, JsonTextD cs x) : docOfLine line = none := by
  cases hdoc : docOfLine line with
  | none => rfl
  | some j =>
    obtain ⟨cs', l, hd', hg, _, _⟩ := docOfLine_rfc8259 line j hdoc
    rw [hd] at hd'
    cases hd'
    exact absurd ⟨_, hg⟩ h

/-- a line that is not UTF-8 has no document -/
theorem not_utf8_not_json (line : List Nat) (hd : Utf8.decode line = none) : docOfLine line = none := by
  unfold docOfLine; rw [hd]

/-- conversely, a `JSON-text` within serde_json's limits has a document -/
theorem rfc8259_has_doc (line : List Nat) (cs : List Char) (x : JVal) (hd : Utf8.decode line = some cs)
    (h : JsonTextD cs x) :
    ∃ l, l.erase = x ∧ docOfLine line = (if l.depth ≤ maxDepth then toJson l else none) := by
  obtain ⟨l, hl, he⟩ := parseJsonL_complete h
  refine ⟨l, he, ?_⟩
  unfold docOfLine docOfChars
  rw [hd]; simp only; rw [hl]

end JsonDoc
end Sqlgrep
