import SqlgrepModel.Lemmas.AggSummaryTable
import SqlgrepModel.Lemmas.AggPermSafe
import SqlgrepModel.Lemmas.RealSums
/-
C15 — order-insensitive aggregates ignore line order and how the input is split.

Built on the C04 refinement: the engine's table for an input is the specification's table (`Spec/Agg.lean`), and in
the specification every cell is a function of its group's row list. Here:

  * `aggregate_multiset_function`  COUNT, COUNT(c), COUNT(DISTINCT c), SUM, AVG, STDDEV, VARIANCE, MIN, MAX,
        PERCENTILE, BOOL_AND, BOOL_OR are functions of the MULTISET of the group's argument values;
  * `agg_perm_invariant`           hence the specification's table is the same for every permutation of the rows;
  * `engine_perm_invariant`        and so is the table the engine shows (through the refinement);
  * `batch_run_ignores_line_order` and what the executed batch run `runBatch` prints for a file and any permutation of it;
  * `concat_*`                     the result over a concatenation is the key-wise combination of the parts: the groups
        are the union, a group's rows are its rows in part one followed by its rows in part two, counts and sums add,
        minima and maxima combine.

The hypotheses are stated, never hidden — and ONE of them the property does NOT grant:
  * `SumsOrderFree`, INT / INTERVAL clause (`intOk`): the partial sums stay within range in EVERY order. The sentence grants an
    exception for REAL sums only; for INT sums whose exact total fits while a partial sum in some order does not, the code
    (checked addition in arrival order) reports an overflow in one order and prints the total in another: that is the open
    finding **D71** (exhibited by the extreme-INT stream of `./check C15`), and every theorem below that takes `SumsOrderFree`
    (through `PermSafe` / `SplitSafe`) is about the inputs outside it. For REAL addends: `RealAddLaws` (`Lemmas/AggPerm.lean`) — the model's `F64.add` satisfies
    `0.0 + y = y` and `x + y = y + x` on the addends and `(A + B) + C = A + (B + C)` on the partial sums of sub-multisets
    of the addends. That the REAL sum does not depend on the order, and that the sums of two parts add up to the sum of
    the whole, is PROVED from these laws; and the laws are PROVED (`Lemmas/RealSums.lean` `realAddLaws_of_exactSums`) for
    addends whose sums are exactly representable — `ExactSums rs`, decidable: every addend is a finite REAL other than
    `-0.0` and the exact sum of every sub-multiset of the addends is a REAL (`real_sum_order_free`, `concat_sum_adds_real`);
  * `ValuesExact` for MIN/MAX/PERCENTILE: equal in the value order ⇒ identical (no `0.0` next to `-0.0`; the harness
    excludes them too), since of equal extremes the first is shown;
  * group keys exact (implied by the specification answering: it declines array keys, `-0.0` and non-canonical NaN keys).

**Nothing is partial any more.** Until `Model/FloatArith.lean` `F64.add` was Lean's opaque hardware `Float`: no equation
about a REAL sum could be proved and `RealAddLaws` was an assumption about IEEE-754 addition. `F64.add` is now exact integer
arithmetic on the bit pattern with correct rounding (compared with the hardware on every case of every run), so IEEE addition's
"the exact sum is returned when it is a REAL" is a theorem (`F64.addX_exact`), `RealAddLaws` follows from `ExactSums`, and the
kernel evaluates REAL sums (`decide +kernel`, examples at the end). `ExactSums` is what the property's "sums exactly
representable" grants; where a partial sum is rounded the order can show in the last bit and the property says nothing.
The law-based forms (`real_sum_order_free_of_laws`, `concat_sum_adds_real_of_laws`) are kept: `SumsOrderFree` / `SplitSafe` are
stated with `RealAddLaws`, which `ExactSums` implies (`sumsOrderFree_real_of_exactSums`).
-/
namespace Sqlgrep.Props.C15
open Sqlgrep Sqlgrep.Value Sqlgrep.Spec.Agg

/-- **each order-insensitive aggregate is a function of the multiset of its group's argument values.** -/
theorem aggregate_multiset_function (k : AggKind) {vs₁ vs₂ : List Value} (h : vs₁.Perm vs₂) (hk : orderInsensitive k = true)
    (hex : usesOrder k = true → ValuesExact (nonNull vs₁)) (hsum : usesSums k = true → SumsOrderFree (nonNull vs₁)) :
    aggregate k vs₁ = aggregate k vs₂ :=
  aggregate_perm k h hk hex hsum

/-- **`agg_perm_invariant`.** For every statement (any GROUP BY, WHERE, HAVING, DISTINCT, LIMIT, transforms) whose
aggregates are order-insensitive, and every two inputs that are permutations of each other, the specification's
result table is the same — under `PermSafe` (the hypotheses listed in the header, per group). -/
theorem agg_perm_invariant {O : Oracles} {q : AggStmt} {rows₁ rows₂ : List Env} (h : rows₁.Perm rows₂)
    (hsafe : ∀ keyed, keyedRows O q rows₁ = some keyed → PermSafe O q keyed) :
    table O q rows₁ = table O q rows₂ :=
  table_perm h hsafe

/-- the admitted rows of a permuted input are a permutation of the admitted rows (WHERE and the key are per row) -/
theorem keyed_rows_permute (O : Oracles) (q : AggStmt) {rows₁ rows₂ : List Env} (h : rows₁.Perm rows₂) :
    OptPerm (keyedRows O q rows₁) (keyedRows O q rows₂) := keyedRows_perm O q h

/-- **the known deviation classes of C04 (D10, D15) do not depend on line order** for the statements of C15: D15 looks at
the first value of ARRAY_AGG in a group (an order-sensitive aggregate, excluded here), D10 at whether some aggregate of a
group has an argument value at all / a non-NULL one — a property of the multiset of the group's rows. No hypothesis on
keys, values or sums. (With ARRAY_AGG it is false: `deviation_class_of_array_agg_depends_on_order` below.) -/
theorem deviation_class_ignores_line_order {O : Oracles} {q : AggStmt}
    (hOI : ∀ kind ∈ slotKinds q, orderInsensitive kind = true) {rows₁ rows₂ : List Env} (h : rows₁.Perm rows₂) :
    deviationClass O q rows₁ = deviationClass O q rows₂ :=
  deviationClass_perm hOI h

/-- **the engine's table ignores line order**: the engine run (every row through `execute_update`, then `execute_result`
+ LIMIT) over an input and over any permutation of it both succeed and show the same table, whenever the
specification fixes the outcome of the first and the first input is outside the known deviation classes of C04 (D10, D15)
— the permuted input is then outside them as well (`deviation_class_ignores_line_order`). -/
theorem engine_perm_invariant {O : Oracles} {q : AggStmt} (hwf : StmtWF q) {rows₁ rows₂ : List Env} (h : rows₁.Perm rows₂)
    (hsafe : ∀ keyed, keyedRows O q rows₁ = some keyed → PermSafe O q keyed)
    {t : List (List Value)} (hspec : table O q rows₁ = some t)
    (hc₁ : deviationClass O q rows₁ = "") :
    (aggRun O q rows₁ {}).bind (fun st => finalResult O q { agg := st }) =
      (aggRun O q rows₂ {}).bind (fun st => finalResult O q { agg := st }) := by
  have hc₂ : deviationClass O q rows₂ = "" := by rw [deviationClass_perm_of_safe h hsafe hspec]; exact hc₁
  rw [engine_refines_spec_total hwf rows₁ hspec hc₁]
  rw [engine_refines_spec_total hwf rows₂ (by rw [← table_perm h hsafe]; exact hspec) hc₂]

/-- **the executed batch run ignores line order** (`runBatch` = the `FileExecutor` loop the driver runs): for an aggregate
statement without join and two files whose lines are permutations of each other, the printed table and the line count
are the same — whenever the specification answers for the first file with an empty deviation class (C04) and `PermSafe`
holds for its admitted rows -/
theorem batch_run_ignores_line_order {O : Oracles} {qy : Query} {q : AggStmt} (hq : qy.stmt = .aggregate q) (hwf : StmtWF q)
    (hj : qy.join = none) (joined : List FileLine) {l₁ l₂ : List FileLine} (hp : l₁.Perm l₂)
    (hsafe : ∀ keyed, keyedRows O q (envsOf qy.table l₁) = some keyed → PermSafe O q keyed)
    {ro : RunOut} (h₁ : Spec.Agg.batch O qy q joined [l₁] = some (ro, "")) :
    runBatch O qy joined [l₁] none = runBatch O qy joined [l₂] none :=
  runBatch_perm_invariant hq hwf hj joined hp hsafe h₁

/-! ### input split: the result over `r₁ ++ r₂` is the key-wise combination of the results over `r₁` and `r₂` -/

/-- the admitted rows of a concatenation are the admitted rows of the parts, in order -/
theorem concat_rows (O : Oracles) (q : AggStmt) (r₁ r₂ : List Env) {k₁ k₂ : List (List Value × Env)}
    (h₁ : keyedRows O q r₁ = some k₁) (h₂ : keyedRows O q r₂ = some k₂) :
    keyedRows O q (r₁ ++ r₂) = some (k₁ ++ k₂) := keyedRows_append O q r₁ r₂ h₁ h₂

/-- **the set of groups is the union** (and each key occurs once, ascending: `Props.C04.keys_ascending_each_once`) -/
theorem concat_groups_union {ks₁ ks₂ : List (List Value)} (hex : KeysExact (ks₁ ++ ks₂)) (k : List Value) :
    k ∈ distinctKeys (ks₁ ++ ks₂) ↔ k ∈ distinctKeys ks₁ ∨ k ∈ distinctKeys ks₂ := by
  have hex₁ : KeysExact ks₁ := fun a ha b hb => hex a (by simp [ha]) b (by simp [hb])
  have hex₂ : KeysExact ks₂ := fun a ha b hb => hex a (by simp [ha]) b (by simp [hb])
  rw [distinctKeys_mem_iff hex, distinctKeys_mem_iff hex₁, distinctKeys_mem_iff hex₂, List.mem_append]

/-- a group's rows in the concatenation: its rows in part one, then its rows in part two; likewise the argument values
of every aggregate — so every cell of the whole is a function of the two parts' groups -/
theorem concat_group_rows {O : Oracles} {q : AggStmt} (key : List Value) (k₁ k₂ : List (List Value × Env)) (kind : AggKind)
    {v₁ v₂ : List Value} (h₁ : arguments O q kind (rowsOfKey key k₁) = some v₁) (h₂ : arguments O q kind (rowsOfKey key k₂) = some v₂) :
    rowsOfKey key (k₁ ++ k₂) = rowsOfKey key k₁ ++ rowsOfKey key k₂ ∧
    arguments O q kind (rowsOfKey key (k₁ ++ k₂)) = some (v₁ ++ v₂) := by
  refine ⟨rowsOfKey_append key k₁ k₂, ?_⟩
  rw [rowsOfKey_append]
  exact arguments_append h₁ h₂

/-- **counts add**: COUNT(*) -/
theorem concat_count_star_adds (v₁ v₂ : List Value) :
    aggregate (.count none false) (v₁ ++ v₂) = some (.int (v₁.length + v₂.length)) := by
  simp [aggregate, List.length_append]

/-- **counts add**: COUNT(c) -/
theorem concat_count_adds (c : String) (v₁ v₂ : List Value) :
    aggregate (.count (some c) false) (v₁ ++ v₂) = some (.int ((nonNull v₁).length + (nonNull v₂).length)) := by
  simp [aggregate, nonNull_append, List.length_append]

/-- **sums add** (INT): NULL is neutral, otherwise the partial sums add — provided no partial sum of the whole
overflows (else the engine reports an error, which is outside the property) -/
theorem concat_sum_adds_int (e : Expr) (v₁ v₂ : List Value) (is₁ is₂ : List Int)
    (h₁ : nonNull v₁ = is₁.map Value.int) (h₂ : nonNull v₂ = is₂.map Value.int)
    (hok : partialSumsOk inI64 0 (is₁ ++ is₂) = true) :
    aggregate (.sum e) (v₁ ++ v₂) = some (mergeSum (intSumValue is₁) (intSumValue is₂)) := by
  simp only [aggregate, nonNull_append, h₁, h₂, ← List.map_append]
  rw [sumOf_ints _ hok, intSumValue_append]

/-- **sums add** (REAL), from the laws of the addition on the addends of both parts -/
theorem concat_sum_adds_real_of_laws (rs₁ rs₂ : List Nat) (hne : rs₂ ≠ []) (hlaws : RealAddLaws (rs₁ ++ rs₂)) :
    Value.real (realSum (rs₁ ++ rs₂)) = mergeSum (.real (realSum rs₁)) (.real (realSum rs₂)) := by
  simp only [mergeSum]
  rw [realSum_append_of_laws hlaws hne]

/-- **sums add** (REAL): when the sums of the addends of both parts are exactly representable (`ExactSums`), the sum of the
whole is the first part's sum plus the second part's sum -/
theorem concat_sum_adds_real (rs₁ rs₂ : List Nat) (hne : rs₂ ≠ []) (hex : ExactSums (rs₁ ++ rs₂)) :
    Value.real (realSum (rs₁ ++ rs₂)) = mergeSum (.real (realSum rs₁)) (.real (realSum rs₂)) :=
  concat_sum_adds_real_of_laws rs₁ rs₂ hne (realAddLaws_of_exactSums hex)

/-- **REAL sums ignore the order**, from the laws (zero neutral and commutativity on the addends, associativity on the
partial sums at hand). The proof walks through the swaps that generate the permutation; in front of two swapped addends
stands a partial sum of a sub-multiset, where the laws apply. -/
theorem real_sum_order_free_of_laws {rs l : List Nat} (hlaws : RealAddLaws rs) (hp : l.Perm rs) : realSum l = realSum rs :=
  realSum_perm_of_laws hlaws hp

/-- **REAL sums ignore the order**: when the sums of the addends are exactly representable (`ExactSums`: finite addends
other than `-0.0`, every sub-multiset sum a REAL), every order of adding them up — IEEE-754 addition, each step correctly
rounded — gives the same REAL, bit for bit -/
theorem real_sum_order_free {rs l : List Nat} (hex : ExactSums rs) (hp : l.Perm rs) : realSum l = realSum rs :=
  real_sum_order_free_of_laws (realAddLaws_of_exactSums hex) hp

/-- the REAL clauses of `SumsOrderFree` from `ExactSums` of the addends and of their squares -/
theorem sumsOrderFree_real_of_exactSums {rs : List Nat} (h : ExactSums rs) (hsq : ExactSums (rs.map (fun x => F64.mul x x))) :
    RealAddLaws rs ∧ RealAddLaws (rs.map (fun x => F64.mul x x)) :=
  ⟨realAddLaws_of_exactSums h, realAddLaws_of_exactSums hsq⟩

/-- the derivation itself, for ANY addition obeying the laws on the values at hand (so it can be instantiated) -/
theorem sum_order_free_of_laws {add : Nat → Nat → Nat} {z0 : Nat} {rs l : List Nat} (hlaws : AddLaws add z0 rs) (hp : l.Perm rs) :
    l.foldl add z0 = rs.foldl add z0 := fsum_perm_of_laws hlaws hp

/-- and the split, for any addition obeying the laws -/
theorem sum_split_of_laws {add : Nat → Nat → Nat} {z0 : Nat} {r₁ r₂ : List Nat} (hlaws : AddLaws add z0 (r₁ ++ r₂)) (hne : r₂ ≠ []) :
    (r₁ ++ r₂).foldl add z0 = add (r₁.foldl add z0) (r₂.foldl add z0) := fsum_append_of_laws hlaws hne

/-- **minima combine**: MIN of the whole is the lesser of the two parts' minima (the first part's on a tie) -/
theorem concat_min_combines (x : Value) (xs : List Value) (y : Value) (ys : List Value) :
    extreme true ((x :: xs) ++ (y :: ys)) =
      if Value.cmp (extreme true (y :: ys)) (extreme true (x :: xs)) == .lt then extreme true (y :: ys) else extreme true (x :: xs) := by
  have := extreme_append true x xs y ys
  simpa using this

/-- **maxima combine** -/
theorem concat_max_combines (x : Value) (xs : List Value) (y : Value) (ys : List Value) :
    extreme false ((x :: xs) ++ (y :: ys)) =
      if Value.cmp (extreme false (y :: ys)) (extreme false (x :: xs)) == .gt then extreme false (y :: ys) else extreme false (x :: xs) := by
  have := extreme_append false x xs y ys
  simpa using this

/-- **`agg_concat_merge`.** For every statement made of key columns, COUNT(*), COUNT(c), SUM over INT, MIN and MAX (any
GROUP BY, any WHERE; no arithmetic wrapper, HAVING, DISTINCT, LIMIT — `MergeableStmt`) and every two inputs `r₁`, `r₂`:
whenever the specification fixes the three tables, the table over `r₁ ++ r₂` is the key-wise combination `mergeKeyed`
of the tables over `r₁` and `r₂` — the set of groups is the union (ascending, each once), a group present in both
parts combines cell by cell (`mergeCell`: counts and sums add with NULL neutral, minima and maxima combine with NULL
neutral, key columns stay), a group present in one part keeps its row. Tables are taken with the group key attached
(`T.map (·.2)` are the tables themselves). `hint` = the SUM arguments are INT (for REAL the property's exactness
proviso would be needed: see `concat_sum_adds_real`). -/
theorem agg_concat_merge {O : Oracles} {q : AggStmt} (hm : MergeableStmt q) (r₁ r₂ : List Env) {t t₁ t₂ : List (List Value)}
    (h : table O q (r₁ ++ r₂) = some t) (h₁ : table O q r₁ = some t₁) (h₂ : table O q r₂ = some t₂)
    (hint : ∀ k₁ k₂, keyedRows O q r₁ = some k₁ → keyedRows O q r₂ = some k₂ →
      ∀ k, ∀ item ∈ q.items, ∀ e v1 v2, item.kind = .sum e → arguments O q item.kind (rowsOfKey k k₁) = some v1 →
        arguments O q item.kind (rowsOfKey k k₂) = some v2 → (ints (nonNull v1)).isSome ∧ (ints (nonNull v2)).isSome) :
    ∃ T T₁ T₂, t = T.map (·.2) ∧ t₁ = T₁.map (·.2) ∧ t₂ = T₂.map (·.2) ∧ T = mergeKeyed q T₁ T₂ :=
  table_concat_merge hm r₁ r₂ h h₁ h₂ hint

/-- **`agg_concat_merge` for all the aggregates the property names.** For every statement whose aggregates are COUNT(*),
COUNT(c), COUNT(DISTINCT c), SUM, AVG, STDDEV, VARIANCE, MIN, MAX, PERCENTILE, BOOL_AND, BOOL_OR — any GROUP BY, WHERE,
HAVING (incl. hidden aggregates), arithmetic wrappers, DISTINCT, LIMIT — and every two inputs: the tables over `r₁`, `r₂`
and `r₁ ++ r₂` are `tableOfSummaries` of keyed summaries `S₁`, `S₂` and of their key-wise combination: the groups are the
union; in a group present in both parts (`combine`) counts add, the sets of distinct values unite, sums and sums of
squares add with NULL neutral (AVG / STDDEV / VARIANCE through their (sum, sum of squares, count) components), minima and
maxima combine, conjunctions / disjunctions combine, PERCENTILE's sorted multisets merge; a group present in one part
keeps its summaries. Provisos (`SplitSafe`, per group): for REAL addends (and their squares) `RealAddLaws` on the addends
of both parts together — an assumption about IEEE addition, see the header; vacuous for non-REAL sums; PERCENTILE values
are exact (no `0.0` next to `-0.0`). `StmtWF` holds for every lowered
statement (`Props.Pipeline.lowered_aggregate_is_wellformed`). -/
theorem agg_concat_merge_all {O : Oracles} {q : AggStmt} (hwf : StmtWF q)
    (hOI : ∀ kind ∈ slotKinds q, orderInsensitive kind = true) (r₁ r₂ : List Env) {t t₁ t₂ : List (List Value)}
    (h : table O q (r₁ ++ r₂) = some t) (h₁ : table O q r₁ = some t₁) (h₂ : table O q r₂ = some t₂)
    (hsafe : ∀ k₁ k₂, keyedRows O q r₁ = some k₁ → keyedRows O q r₂ = some k₂ →
      ∀ k, SplitSafe O q (rowsOfKey k k₁) (rowsOfKey k k₂)) :
    ∃ S₁ S₂, tableOfSummaries O q S₁ = some t₁ ∧ tableOfSummaries O q S₂ = some t₂ ∧
      tableOfSummaries O q (mergeG (combineS (slotList q)) S₁ S₂) = some t :=
  table_concat_merge_all hwf hOI r₁ r₂ h h₁ h₂ hsafe

/-- every order-insensitive aggregate is the `finishSummary` of its part-wise summary … -/
theorem aggregate_is_finished_summary (k : AggKind) (hk : orderInsensitive k = true) (vs : List Value) :
    aggregate k vs = (summarize k vs).bind (finishSummary k) := aggregate_eq_finish k hk vs

/-- … and the summary of a concatenation is the combination of the summaries (monoid homomorphism per aggregate) -/
theorem summary_of_concat (k : AggKind) (v₁ v₂ : List Value) {s s₁ s₂ : Summary}
    (h : summarize k (v₁ ++ v₂) = some s) (h₁ : summarize k v₁ = some s₁) (h₂ : summarize k v₂ = some s₂)
    (hsplit : usesSums k = true → SplitExact (nonNull v₁) (nonNull v₂))
    (hex : (∃ e p, k = .percentile e p) → ValuesExact (nonNull (v₁ ++ v₂))) :
    s = combine k s₁ s₂ := summarize_append k v₁ v₂ h h₁ h₂ hsplit hex

/-- per aggregate: the value over the concatenation of two argument lists is the combination of the values over the parts -/
theorem aggregate_concat_merges (k : AggKind) (hk : mergeable k = true) (v₁ v₂ : List Value) {a b r : Value}
    (h₁ : aggregate k v₁ = some a) (h₂ : aggregate k v₂ = some b) (h : aggregate k (v₁ ++ v₂) = some r)
    (hint : ∀ e, k = .sum e → (ints (nonNull v₁)).isSome ∧ (ints (nonNull v₂)).isSome) :
    r = mergeCell k a b := aggregate_merge k hk v₁ v₂ h₁ h₂ h hint

/-- the ingredients on their own (any statement): for inputs `r₁`, `r₂` with admitted rows `k₁`, `k₂`: the admitted rows of
`r₁ ++ r₂` are `k₁ ++ k₂`; a key is a group of the whole iff it is a group of a part; and the rows of each group are
the concatenation of its rows in the parts. -/
theorem concat_ingredients (O : Oracles) (q : AggStmt) (r₁ r₂ : List Env) {k₁ k₂ : List (List Value × Env)}
    (h₁ : keyedRows O q r₁ = some k₁) (h₂ : keyedRows O q r₂ = some k₂)
    (hex : KeysExact ((k₁ ++ k₂).map (·.1))) :
    keyedRows O q (r₁ ++ r₂) = some (k₁ ++ k₂) ∧
    (∀ k, k ∈ distinctKeys ((k₁ ++ k₂).map (·.1)) ↔ k ∈ distinctKeys (k₁.map (·.1)) ∨ k ∈ distinctKeys (k₂.map (·.1))) ∧
    (∀ k, rowsOfKey k (k₁ ++ k₂) = rowsOfKey k k₁ ++ rowsOfKey k k₂) := by
  refine ⟨keyedRows_append O q r₁ r₂ h₁ h₂, ?_, fun k => rowsOfKey_append k k₁ k₂⟩
  intro k
  rw [List.map_append] at hex ⊢
  exact concat_groups_union hex k

/-! ### non-vacuity -/

/-- the hypotheses of `aggregate_multiset_function` hold for SUM over `[3, NULL, -1]` and its reversal -/
example : aggregate (.sum (.column "v")) [.int 3, .null, .int (-1)] = aggregate (.sum (.column "v")) [.int (-1), .null, .int 3] := rfl
/-- MIN of TEXT values in two orders -/
example : aggregate (.min (.column "k")) [.text [98], .text [97], .text [99]] = aggregate (.min (.column "k")) [.text [99], .text [98], .text [97]] := rfl
/-- counts of a split add up -/
example : aggregate (.count none false) ([.null, .int 1] ++ [.int 2]) = some (.int (2 + 1)) := rfl

/-- `ValuesExact` holds for INT values (hypothesis of the MIN/MAX/PERCENTILE case) -/
example : ValuesExact [.int 3, .int 1, .int 2] := by
  intro a ha b hb h
  have hs : ∀ x ∈ [Value.int 3, .int 1, .int 2], simpleValue x = true := by
    intro x hx; simp at hx; rcases hx with rfl | rfl | rfl <;> rfl
  exact cmp_eq_of_simple (hs a ha) (hs b hb) h
/-- `SELECT COUNT(*) FROM t` -/
def exCount : AggStmt :=
  { items := [{ name := "count0", kind := .count none false, transform := none }], filter := none, groupBy := none,
    having := none, havingAggs := [], havingKeys := [], havingVisit := [], limit := none, distinct := false }

/-- `PermSafe` holds for `SELECT COUNT(*)` on any rows (COUNT needs neither exact values nor sums) -/
example (O : Oracles) (keyed : List (List Value × Env)) : PermSafe O exCount keyed := by
  refine ⟨?_, ?_⟩
  · intro kind hk; simp [slotKinds, exCount] at hk; subst hk; rfl
  · intro k kind vs hk _; simp [slotKinds, exCount] at hk; subst hk; exact ⟨by simp [usesOrder], by simp [usesSums]⟩

/-- `SELECT k, COUNT(*), SUM(v), AVG(v), VARIANCE(v), MIN(v), MAX(v) FROM t GROUP BY k` -/
def exSumMin : AggStmt :=
  { items := [{ name := "k", kind := .groupKey (.column "k") "k", transform := none },
              { name := "count1", kind := .count none false, transform := none },
              { name := "sum2", kind := .sum (.column "v"), transform := none },
              { name := "avg3", kind := .avg (.column "v"), transform := none },
              { name := "variance4", kind := .stddev (.column "v") true, transform := none },
              { name := "min5", kind := .min (.column "v"), transform := none },
              { name := "max6", kind := .max (.column "v"), transform := none }],
    filter := none, groupBy := some [(.column "k", "k")], having := none, havingAggs := [], havingKeys := [],
    havingVisit := [], limit := none, distinct := false }
/-- the same select list with `PERCENTILE(v, 0.5)` (bit pattern of 0.5) -/
def exPct : AggStmt :=
  { exSumMin with items := exSumMin.items ++ [{ name := "percentile7", kind := .percentile (.column "v") 0x3fe0000000000000, transform := none }] }
def rowKV (k : Nat) (v : Value) : Env := { table := [("k", .text [k]), ("v", v)] }
/-- rows (a, 3), (b, 7), (a, NULL), (a, -1), (b, 2) -/
def exRows : List Env := [rowKV 97 (.int 3), rowKV 98 (.int 7), rowKV 97 .null, rowKV 97 (.int (-1)), rowKV 98 (.int 2)]
def exKeyed : List (List Value × Env) :=
  [([.text [97]], rowKV 97 (.int 3)), ([.text [98]], rowKV 98 (.int 7)), ([.text [97]], rowKV 97 .null),
   ([.text [97]], rowKV 97 (.int (-1))), ([.text [98]], rowKV 98 (.int 2))]

example : keyedRows {} exSumMin exRows = some exKeyed := rfl
example : keyedRows {} exPct exRows = some exKeyed := rfl

/-- **`PermSafe` holds for a statement with SUM, AVG, VARIANCE, MIN and MAX** on these rows (every hypothesis of
`agg_perm_invariant` discharged: INT arguments, no partial sum near the 64-bit range in any order) -/
example : PermSafe {} exSumMin exKeyed :=
  permSafe_of_small_ints (by decide) (by decide) (by decide)
/-- … and for the statement with PERCENTILE as well -/
example : PermSafe {} exPct exKeyed :=
  permSafe_of_small_ints (by decide) (by decide) (by decide)
/-- so the conclusion of `agg_perm_invariant` applies to every permutation of these rows (VARIANCE and PERCENTILE go
through `F64` operations the kernel cannot evaluate; the INT columns of the table are evaluated in the next example) -/
example (rows₂ : List Env) (h : exRows.Perm rows₂) : table {} exPct exRows = table {} exPct rows₂ :=
  agg_perm_invariant h (fun keyed hk => by
    have : keyed = exKeyed := by
      have h0 : keyedRows {} exPct exRows = some exKeyed := rfl
      rw [h0] at hk; exact (Option.some.inj hk).symm
    subst this
    exact permSafe_of_small_ints (by decide) (by decide) (by decide))
/-- the table of `SELECT k, COUNT(*), SUM(v), MIN(v), MAX(v) … GROUP BY k` on these rows and on their reversal, evaluated -/
def exSumMinInt : AggStmt :=
  { exSumMin with items := [exSumMin.items[0]!, exSumMin.items[1]!, exSumMin.items[2]!, exSumMin.items[5]!, exSumMin.items[6]!] }
example : table {} exSumMinInt exRows = some [[.text [97], .int 3, .int 2, .int (-1), .int 3], [.text [98], .int 2, .int 9, .int 2, .int 7]] ∧
    table {} exSumMinInt exRows.reverse = table {} exSumMinInt exRows := ⟨rfl, rfl⟩

/-- `SELECT ARRAY_AGG(v) FROM t` -/
def exArr : AggStmt :=
  { items := [{ name := "array_agg0", kind := .arrayAgg (.column "v"), transform := none }], filter := none, groupBy := none,
    having := none, havingAggs := [], havingKeys := [], havingVisit := [], limit := none, distinct := false }
/-- **why `deviation_class_ignores_line_order` excludes ARRAY_AGG**: for `SELECT ARRAY_AGG(v)` the rows (NULL, 1) fall into
D15 (the first value is NULL) and the same rows in the order (1, NULL) do not -/
theorem deviation_class_of_array_agg_depends_on_order :
    [rowKV 97 .null, rowKV 97 (.int 1)].Perm [rowKV 97 (.int 1), rowKV 97 .null] ∧
    deviationClass {} exArr [rowKV 97 .null, rowKV 97 (.int 1)] = "D15:array_agg-first-value-null" ∧
    deviationClass {} exArr [rowKV 97 (.int 1), rowKV 97 .null] = "" :=
  ⟨List.Perm.swap _ _ _, by decide +kernel, by decide +kernel⟩
/-- the deviation class of the example rows (`SELECT k, COUNT(*), SUM(v), … GROUP BY k`) is empty, and so it is for every
permutation of them -/
example (rows₂ : List Env) (h : exRows.Perm rows₂) : deviationClass {} exPct rows₂ = "" := by
  rw [← deviation_class_ignores_line_order (by decide) h]; decide +kernel

/-- the hypotheses of the input split (`SplitSafe` of `agg_concat_merge_all`) hold for INT arguments -/
example (v₁ v₂ : List Value) (h₁ : ∀ v ∈ nonNull v₁, ∃ i, v = .int i) (h₂ : ∀ v ∈ nonNull v₂, ∃ i, v = .int i) :
    SplitExact (nonNull v₁) (nonNull v₂) := splitExact_of_ints h₁ h₂

/-- **the laws are consistent and the derivation is not vacuous**: exact addition obeys `AddLaws` on every list of addends
(for `F64.add` see `realAddLaws_of_exactSums` and the REAL examples below) -/
example (rs : List Nat) : AddLaws (· + ·) 0 rs :=
  ⟨fun y _ => Nat.zero_add y, fun x _ y _ => Nat.add_comm x y, fun _ _ _ _ _ _ => Nat.add_assoc _ _ _⟩
example : [3, 1, 2].foldl (· + ·) 0 = [1, 2, 3].foldl (· + ·) 0 :=
  sum_order_free_of_laws (add := (· + ·))
    ⟨fun y _ => Nat.zero_add y, fun x _ y _ => Nat.add_comm x y, fun _ _ _ _ _ _ => Nat.add_assoc _ _ _⟩ (by decide)
/-- the REAL laws hold when there is nothing to add -/
example : RealAddLaws [] := realAddLaws_nil

/-- REAL addends `0.5, 1.5, -2.25, 100.0` (bit patterns): their sums are exactly representable, so every order gives the
same sum `99.75`, and a split adds up -/
def exReals : List Nat := [0x3fe0000000000000, 0x3ff8000000000000, 0xc002000000000000, 0x4059000000000000]
example : ExactSums exReals := by decide +kernel
example : ExactSums (exReals.map (fun x => F64.mul x x)) := by decide +kernel
example : realSum exReals = 0x4058f00000000000 := by decide +kernel
example : realSum [0x4059000000000000, 0xc002000000000000, 0x3ff8000000000000, 0x3fe0000000000000] = 0x4058f00000000000 := by decide +kernel
example : realSum [0xc002000000000000, 0x4059000000000000, 0x3fe0000000000000, 0x3ff8000000000000] = 0x4058f00000000000 := by decide +kernel
example (l : List Nat) (hp : l.Perm exReals) : realSum l = 0x4058f00000000000 := by
  rw [real_sum_order_free (by decide +kernel) hp]; decide +kernel
example : Value.real (realSum exReals) =
    mergeSum (.real (realSum [0x3fe0000000000000, 0x3ff8000000000000])) (.real (realSum [0xc002000000000000, 0x4059000000000000])) :=
  concat_sum_adds_real [0x3fe0000000000000, 0x3ff8000000000000] [0xc002000000000000, 0x4059000000000000] (by decide) (by decide +kernel)
/-- where a partial sum is rounded the hypothesis fails, and so may the conclusion: `1e16 + 1 + 1` in two orders -/
example : ¬ ExactSums [0x4341c37937e08000, 0x3ff0000000000000, 0x3ff0000000000000] := by decide +kernel
example : realSum [0x4341c37937e08000, 0x3ff0000000000000, 0x3ff0000000000000] ≠ realSum [0x3ff0000000000000, 0x3ff0000000000000, 0x4341c37937e08000] := by decide +kernel
/-- `-0.0` is excluded: `0.0 + -0.0 = 0.0`, so a lone `-0.0` does not sum to itself -/
example : ¬ ExactSums [0x8000000000000000] := by decide +kernel

/-- `SELECT COUNT(*), SUM(v), MIN(v) FROM t` is a `MergeableStmt`, and the combination of the rows `[2, 4, 1]` and `[1, 5, 5]`
of two parts is `[3, 9, 1]` -/
def exMerge : AggStmt :=
  { items := [{ name := "count0", kind := .count none false, transform := none },
              { name := "sum1", kind := .sum (.column "v"), transform := none },
              { name := "min2", kind := .min (.column "v"), transform := none }],
    filter := none, groupBy := none, having := none, havingAggs := [], havingKeys := [], havingVisit := [],
    limit := none, distinct := false }
example : MergeableStmt exMerge := by
  refine ⟨?_, rfl, rfl, rfl⟩
  intro item hi
  simp [exMerge] at hi
  rcases hi with rfl | rfl | rfl <;> exact ⟨rfl, rfl⟩
example : mergeKeyed exMerge [([.null], [.int 2, .int 4, .int 1])] [([.null], [.int 1, .int 5, .int 5])] =
    [([.null], [.int 3, .int 9, .int 1])] := rfl

/-- AVG over two parts through its components: (6, 2 values) and (3, 1 value) combine to (9, 3 values), average 3 -/
example : (summarize (.avg (.column "v")) [.int 2, .int 4]).bind (fun a => (summarize (.avg (.column "v")) [.null, .int 3]).bind
    (fun b => finishSummary (.avg (.column "v")) (combine (.avg (.column "v")) a b))) = some (.int 3) := rfl
/-- COUNT(DISTINCT) through set union: {1, 2} and {2, 3} unite to three values -/
example : combine (.count (some "v") true) (.distinct [.int 1, .int 2]) (.distinct [.int 2, .int 3]) = .distinct [.int 1, .int 2, .int 3] := rfl

end Sqlgrep.Props.C15
