mod util;
mod runq;
mod witness;
mod run;
mod gen;
mod c16;
mod exprs;
mod c03;
mod c03func;
mod c10;
mod c12;
mod queries;
mod engine_run;
mod c04;
mod c05;
mod c09;
mod c11;
mod c11x;
mod c15;
mod c18;
mod c19;
mod c17;
mod extract;
mod c01;
mod c02;
mod tables;
mod cli;
mod lexcases;
mod c20;
mod c07;
mod c08;
mod c06;
mod stmtcases;
mod c14;
mod c13;
mod tables_prec;
mod tables_lower;
mod e2e;
mod e2ef;
mod jsontext;
mod f64cases;

fn main() {
    util::silence_panics();
    let args: Vec<String> = std::env::args().collect();
    let cmd = args.get(1).map(|s| s.as_str()).unwrap_or("");
    match cmd {
        "witness" => {
            // harness witness [ID|Cxx ...]  : run the defect witnesses on the implementation
            let filter: Vec<&String> = args.iter().skip(2).collect();
            let mut failed = 0;
            for w in witness::all() {
                if !filter.is_empty() && !filter.iter().any(|f| *f == w.id || w.props.contains(&f.as_str())) {
                    continue;
                }
                match (w.run)() {
                    Ok(()) => println!("HOLDS {} {:?} {}", w.id, w.props, w.what),
                    Err(e) => { failed += 1; println!("FAILS {} {:?} {} :: {}", w.id, w.props, w.what, e.replace('\n', "\\n")); }
                }
            }
            runq::cleanup_tmp();
            eprintln!("{} witnesses fail", failed);
        }
        "tzprobe" => {
            println!("{}", witness::tzprobe(args.get(2).map(|s| s.as_str()).unwrap_or("")));
            runq::cleanup_tmp();
        }
        "c18child" => {
            let seed: u64 = args.get(2).and_then(|s| s.parse().ok()).unwrap_or(1);
            let n: usize = args.get(3).and_then(|s| s.parse().ok()).unwrap_or(10);
            c18::child(seed, n);
            runq::cleanup_tmp();
        }
        "c18now" => {
            let seed: u64 = args.get(2).and_then(|s| s.parse().ok()).unwrap_or(1);
            let n: usize = args.get(3).and_then(|s| s.parse().ok()).unwrap_or(10);
            c18::now_child(seed, n);
            runq::cleanup_tmp();
        }
        "c14long" => {
            if args.get(2).map(|s| s.as_str()) == Some("chain") {
                // harness c14long chain <kind> <n> <parse|exec>: an operator chain without brackets (finding D75)
                let kind: usize = args.get(3).and_then(|s| s.parse().ok()).unwrap_or(0);
                let n: usize = args.get(4).and_then(|s| s.parse().ok()).unwrap_or(200);
                c14::chain_child(kind, n, args.get(5).map(|s| s.as_str()) == Some("exec"));
                return;
            }
            let kind: usize = args.get(2).and_then(|s| s.parse().ok()).unwrap_or(0);
            let n: usize = args.get(3).and_then(|s| s.parse().ok()).unwrap_or(1000);
            c14::long_child(kind, n);
        }
        "c03tz" => {
            let seed: u64 = args.get(2).and_then(|s| s.parse().ok()).unwrap_or(1);
            let n: usize = args.get(3).and_then(|s| s.parse().ok()).unwrap_or(400);
            c03::tz_child(seed, n);
        }
        "tzscan" => {
            let seed: u64 = args.get(2).and_then(|s| s.parse().ok()).unwrap_or(1);
            let n: usize = args.get(3).and_then(|s| s.parse().ok()).unwrap_or(1000);
            let n_composed: usize = args.get(4).and_then(|s| s.parse().ok()).unwrap_or(200);
            c09::tzscan(seed, n, n_composed);
            runq::cleanup_tmp();
        }
        "tables" => {
            // harness tables <outdir>: regenerate Generated/*.lean from the running code
            let out = args.get(2).expect("outdir");
            std::fs::create_dir_all(out).unwrap();
            tables::write_all(out);
        }
        "gen" => {
            // harness gen <ID> <quick|thorough> <seed> <outdir>
            let id = args.get(2).expect("id").clone();
            let tier = args.get(3).map(|s| s.as_str()).unwrap_or("quick");
            let seed: u64 = args.get(4).and_then(|s| s.parse().ok()).unwrap_or(0);
            let out = args.get(5).expect("outdir");
            let params = run::Params { tier_thorough: tier == "thorough", seed };
            let mut r = match id.as_str() {
                "C16" => c16::run(&params),
                "C03" => c03::run(&params),
                "C04" => c04::run(&params),
                "C05" => c05::run(&params),
                "C09" => c09::run(&params),
                "C11" => c11::run(&params),
                "C15" => c15::run(&params),
                "C18" => c18::run(&params),
                "C19" => c19::run(&params),
                "C10" => c10::run(&params),
                "C12" => c12::run(&params),
                "C17" => c17::run(&params),
                "C01" => c01::run(&params),
                "C02" => c02::run(&params),
                "C20" => c20::run(&params),
                "C06" => c06::run(&params),
                "C07" => c07::run(&params),
                "C08" => c08::run(&params),
                "C14" => c14::run(&params),
                "C13" => c13::run(&params),
                "E2E" => e2e::run(&params),
                "E2EF" => e2ef::run(&params),
                _ => { eprintln!("unknown property {}", id); std::process::exit(2); }
            };
            // the witnesses of this property run as part of every check (regression corpus)
            for w in witness::all() {
                if w.props.contains(&id.as_str()) {
                    r.oracle_checks += 1;
                    if let Err(e) = (w.run)() {
                        // the finding's class only when the witness saw EXACTLY the documented wrong answer (an open finding's
                        // witness says so); a panic, another error or a different wrong answer is an unknown failure
                        let class = if e.starts_with(witness::KNOWN_DEVIATION) { format!("{}:{}", w.id, "witness") } else { format!("witness-failed-differently:{}", w.id) };
                        r.fail(format!("witness {}", w.id), &class, format!("{} :: {}", w.what, e));
                    }
                }
            }
            runq::cleanup_tmp();
            r.write(out).expect("write run");
        }
        _ => {
            eprintln!("usage: harness witness [ids] | gen <ID> <tier> <seed> <outdir>");
            std::process::exit(2);
        }
    }
}
