import SqlgrepModel.Drivers.C16
import SqlgrepModel.Drivers.Extract
/- Line protocol driver: `<kind> <payload…>` per line in, one answer line out. -/
open Sqlgrep

def dispatch (line : String) : String :=
  match Sexp.parseAll line with
  | some (.atom kind :: args) =>
    match kind with
    | "cmp3" => Drivers.C16.handle args
    | "extract" => Drivers.Extract.handle args
    | _ => "unknown-kind"
  | _ => "bad-line"

partial def loop (h : IO.FS.Stream) (out : IO.FS.Stream) : IO Unit := do
  let line ← h.getLine
  if line.isEmpty then return ()
  out.putStrLn (dispatch line)
  loop h out

def main : IO Unit := do
  let stdin ← IO.getStdin
  let stdout ← IO.getStdout
  loop stdin stdout
