import SqlgrepModel.Model.ParseExpr
import Lean
/-
Fuel monotonicity of the expression parser (`Parse.parseExpr` … `Parse.parseList`): more fuel never changes an
answer that is not "out of fuel". Stated with the flat order `PLe` (out of fuel below everything) and proved for the
six mutually recursive functions at once by induction on the fuel.
-/
namespace Sqlgrep.Parse

/-- flat order on results: out of fuel is below everything -/
def PLe {α : Type} (a b : PRes α) : Prop := a = .fuel ∨ a = b

theorem PLe.refl {α} (a : PRes α) : PLe a a := Or.inr rfl
theorem PLe.fuel {α} (b : PRes α) : PLe .fuel b := Or.inl rfl
theorem PLe.trans {α} {a b c : PRes α} (h1 : PLe a b) (h2 : PLe b c) : PLe a c := by
  rcases h1 with h | h
  · exact Or.inl h
  · rw [h]; exact h2
theorem PLe.eq_of_ne {α} {a b : PRes α} (h : PLe a b) (hne : a ≠ .fuel) : b = a := by
  rcases h with h | h
  · exact absurd h hne
  · exact h.symm

open Lean Elab Tactic Meta in
/-- goal `PLe (match d with …) _`: find a hypothesis `∀ …, PLe d' _` whose left side unifies with the scrutinee `d`
and add its instance as `hsub` -/
elab "mono_find" : tactic => withMainContext do
  let g ← getMainGoal
  let t := (← instantiateMVars (← g.getType)).consumeMData
  let args := t.getAppArgs
  unless t.isAppOf ``PLe && args.size == 3 do throwError "not a PLe goal"
  let lhs := args[1]!
  unless lhs.getAppFn.isConst do throwError "left side is not a match"
  let some info ← getMatcherInfo? lhs.getAppFn.constName! | throwError "left side is not a match"
  let discr := lhs.getAppArgs[info.getFirstDiscrPos]!
  for ldecl in ← getLCtx do
    if ldecl.isImplementationDetail then continue
    let ty ← instantiateMVars ldecl.type
    let (mvars, _, concl) ← forallMetaTelescope ty
    if concl.isAppOf ``PLe && concl.getAppArgs.size == 3 then
      if ← withReducible (isDefEq concl.getAppArgs[1]! discr) then
        let pf ← instantiateMVars (mkAppN ldecl.toExpr mvars)
        let pty ← instantiateMVars (← inferType pf)
        let g' ← g.assert `hsub pty pf
        let (_, g'') ← g'.intro1P
        replaceMainGoal [g'']
        return
  throwError "no induction hypothesis for the scrutinee"

open Lean Elab Tactic Meta in
/-- goal `PLe (match (if c then a else b) with …) _`: case split on `c` -/
elab "mono_ite" : tactic => withMainContext do
  let g ← getMainGoal
  let t := (← instantiateMVars (← g.getType)).consumeMData
  let args := t.getAppArgs
  unless t.isAppOf ``PLe && args.size == 3 do throwError "not a PLe goal"
  let lhs := args[1]!
  unless lhs.getAppFn.isConst do throwError "left side is not a match"
  let some info ← getMatcherInfo? lhs.getAppFn.constName! | throwError "left side is not a match"
  let discr := lhs.getAppArgs[info.getFirstDiscrPos]!
  unless discr.isAppOf ``ite do throwError "scrutinee is not an if"
  let c ← Term.exprToSyntax discr.getAppArgs[1]!
  evalTactic (← `(tactic| by_cases hc : $c <;> simp only [hc, if_true, if_false]))

set_option hygiene false in
macro "mono_sub" : tactic =>
  `(tactic| (mono_find; rcases hsub with hsub | hsub; (rw [hsub]; with_reducible exact PLe.fuel _); rw [hsub]; clear hsub))

set_option hygiene false in
macro "mono_auto" : tactic => `(tactic| repeat' (first
   | with_reducible exact PLe.refl _ | with_reducible exact PLe.fuel _
   | with_reducible exact ihE _ | with_reducible exact ihR _ _ _ | with_reducible exact ihU _
   | with_reducible exact ihP _ | with_reducible exact ihC _ _ _ | with_reducible exact ihL _ _ _
   | mono_sub
   | mono_ite
   | split))

variable (T : PrecTables)

theorem mono_all (n : Nat) :
    (∀ s, PLe (parseExpr T n s) (parseExpr T (n+1) s)) ∧
    (∀ p l s, PLe (parseRhs T n p l s) (parseRhs T (n+1) p l s)) ∧
    (∀ s, PLe (parseUnary T n s) (parseUnary T (n+1) s)) ∧
    (∀ s, PLe (parsePrimary T n s) (parsePrimary T (n+1) s)) ∧
    (∀ loc cl s, PLe (parseCase T n loc cl s) (parseCase T (n+1) loc cl s)) ∧
    (∀ c acc s, PLe (parseList T n c acc s) (parseList T (n+1) c acc s)) := by
  induction n with
  | zero =>
    refine ⟨?_, ?_, ?_, ?_, ?_, ?_⟩ <;> intros <;> apply Or.inl
    · rw [parseExpr]
    · rw [parseRhs]
    · rw [parseUnary]
    · rw [parsePrimary]
    · rw [parseCase]
    · rw [parseList]
  | succ n ih =>
    obtain ⟨ihE, ihR, ihU, ihP, ihC, ihL⟩ := ih
    refine ⟨?_, ?_, ?_, ?_, ?_, ?_⟩
    · intro s; rw [parseExpr, parseExpr]; mono_auto
    · intro p l s; rw [parseRhs, parseRhs]; dsimp only; mono_auto
    · intro s; rw [parseUnary, parseUnary]; dsimp only; mono_auto
    · intro s; rw [parsePrimary, parsePrimary]; dsimp only; mono_auto
    · intro loc cl s; rw [parseCase, parseCase]; dsimp only; mono_auto
    · intro c acc s; rw [parseList, parseList]; dsimp only; mono_auto

theorem mono_le {f f' : Nat} (h : f ≤ f') :
    (∀ s, PLe (parseExpr T f s) (parseExpr T f' s)) ∧
    (∀ p l s, PLe (parseRhs T f p l s) (parseRhs T f' p l s)) ∧
    (∀ s, PLe (parseUnary T f s) (parseUnary T f' s)) ∧
    (∀ s, PLe (parsePrimary T f s) (parsePrimary T f' s)) ∧
    (∀ loc cl s, PLe (parseCase T f loc cl s) (parseCase T f' loc cl s)) ∧
    (∀ c acc s, PLe (parseList T f c acc s) (parseList T f' c acc s)) := by
  induction h with
  | refl => exact ⟨fun _ => .refl _, fun _ _ _ => .refl _, fun _ => .refl _, fun _ => .refl _, fun _ _ _ => .refl _, fun _ _ _ => .refl _⟩
  | step _ ih =>
    obtain ⟨a1, a2, a3, a4, a5, a6⟩ := ih
    obtain ⟨b1, b2, b3, b4, b5, b6⟩ := mono_all T _
    exact ⟨fun s => (a1 s).trans (b1 s), fun p l s => (a2 p l s).trans (b2 p l s), fun s => (a3 s).trans (b3 s),
           fun s => (a4 s).trans (b4 s), fun x y s => (a5 x y s).trans (b5 x y s), fun x y s => (a6 x y s).trans (b6 x y s)⟩

/-- more fuel never changes an answer other than "out of fuel" -/
theorem fuel_mono_expr {f f' : Nat} (h : f ≤ f') {s : PSt} {r : PRes PExpr}
    (hr : parseExpr T f s = r) (hne : r ≠ .fuel) : parseExpr T f' s = r := by
  subst hr; exact ((mono_le T h).1 s).eq_of_ne hne

theorem fuel_mono_rhs {f f' : Nat} (h : f ≤ f') {p : Int} {l : PExpr} {s : PSt} {r : PRes PExpr}
    (hr : parseRhs T f p l s = r) (hne : r ≠ .fuel) : parseRhs T f' p l s = r := by
  subst hr; exact ((mono_le T h).2.1 p l s).eq_of_ne hne

theorem fuel_mono_unary {f f' : Nat} (h : f ≤ f') {s : PSt} {r : PRes PExpr}
    (hr : parseUnary T f s = r) (hne : r ≠ .fuel) : parseUnary T f' s = r := by
  subst hr; exact ((mono_le T h).2.2.1 s).eq_of_ne hne

theorem fuel_mono_primary {f f' : Nat} (h : f ≤ f') {s : PSt} {r : PRes PExpr}
    (hr : parsePrimary T f s = r) (hne : r ≠ .fuel) : parsePrimary T f' s = r := by
  subst hr; exact ((mono_le T h).2.2.2.1 s).eq_of_ne hne

theorem fuel_mono_case {f f' : Nat} (h : f ≤ f') {loc : Loc} {cl : List (PExpr × PExpr)} {s : PSt} {r : PRes PExpr}
    (hr : parseCase T f loc cl s = r) (hne : r ≠ .fuel) : parseCase T f' loc cl s = r := by
  subst hr; exact ((mono_le T h).2.2.2.2.1 loc cl s).eq_of_ne hne

theorem fuel_mono_list {f f' : Nat} (h : f ≤ f') {c : Tok} {acc : List PExpr} {s : PSt} {r : PRes (List PExpr)}
    (hr : parseList T f c acc s = r) (hne : r ≠ .fuel) : parseList T f' c acc s = r := by
  subst hr; exact ((mono_le T h).2.2.2.2.2 c acc s).eq_of_ne hne

end Sqlgrep.Parse
