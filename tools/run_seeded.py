#!/usr/bin/env python3
"""Run checks against a seeded faulty change: apply seeded/<name>/patch.diff to /repo, run the given checks,
undo the change. Evidence and replays of these runs go to build/seeded/<name>/ (never to evidence/).

  tools/run_seeded.py <name> [--tier quick|thorough] [--props C03,C09 | --all]
"""
import json, os, subprocess, sys
root = os.path.dirname(os.path.dirname(os.path.abspath(__file__)))
name = sys.argv[1]
tier = "quick"
props = None
scratch = False
args = sys.argv[2:]
i = 0
while i < len(args):
    if args[i] == "--tier": tier = args[i + 1]; i += 2
    elif args[i] == "--props": props = args[i + 1].split(","); i += 2
    elif args[i] == "--all": props = "all"; i += 1
    elif args[i] == "--scratch": scratch = True; i += 1
    else: i += 1
d = os.path.join(root, "seeded", name)
meta = json.load(open(os.path.join(d, "meta.json")))
if props is None:
    props = [meta["property"]]
if props == "all":
    props = [c["property_id"] for c in json.load(open(os.path.join(root, "MANIFEST.json")))["checks"]]
out_dir = os.path.join(root, "build", "seeded", name)
os.makedirs(out_dir, exist_ok=True)
env = dict(os.environ, VERIF_EVIDENCE_DIR=out_dir, VERIF_REPLAY_DIR=out_dir)
if scratch:
    # leave /repo alone (other work may be building against it): a scratch worktree of /repo with the change applied,
    # and a scratch worktree of /verif whose harness depends on that copy
    slot = os.environ.get("SEED_SLOT", "")  # parallel runs use different slots (separate scratch copies)
    repo, verif = "/tmp/seedrepo" + slot, "/tmp/vw-seed" + slot
    head = subprocess.run(["git", "-C", "/repo", "rev-parse", "HEAD"], capture_output=True, text=True).stdout.strip()
    if not os.path.exists(repo):
        subprocess.run(["git", "-C", "/repo", "worktree", "add", "--detach", repo, head], check=True, capture_output=True)
    subprocess.run(["git", "-C", repo, "checkout", "--", "."], check=True)
    subprocess.run(["git", "-C", repo, "checkout", "--detach", head], check=True, capture_output=True)
    vhead = subprocess.run(["git", "-C", root, "rev-parse", "HEAD"], capture_output=True, text=True).stdout.strip()
    if not os.path.exists(verif):
        subprocess.run(["git", "-C", root, "worktree", "add", "--detach", verif, vhead], check=True, capture_output=True)
    subprocess.run(["git", "-C", verif, "checkout", "--", "."], check=True)
    subprocess.run(["git", "-C", verif, "checkout", "--detach", vhead], check=True, capture_output=True)
    ct = os.path.join(verif, "harness", "Cargo.toml")
    text = open(ct).read().replace('path = "/repo"', f'path = "{repo}"')
    open(ct, "w").write(text)
    import shutil
    shutil.copy("/repo/Cargo.lock", os.path.join(verif, "harness", "Cargo.lock"))
    check_root = verif
else:
    repo, check_root = "/repo", root
    st = subprocess.run(["git", "-C", "/repo", "status", "--porcelain"], capture_output=True, text=True).stdout.strip()
    if st:
        print("refusing: /repo has uncommitted changes:\n" + st); sys.exit(2)
r = subprocess.run(["git", "-C", repo, "apply", os.path.join(d, "patch.diff")], capture_output=True, text=True)
if r.returncode != 0:
    print("patch does not apply:", r.stderr); sys.exit(2)
results = {}
try:
    for p in props:
        r = subprocess.run([os.path.join(check_root, "check"), p, "--tier", tier], cwd=check_root, env=env, capture_output=True, text=True)
        viol = [l for l in r.stdout.splitlines() if l.startswith("VIOLATION")]
        results[p] = {"exit": r.returncode, "violation": viol[0] if viol else None, "tail": r.stdout.strip().splitlines()[-1][:300] if r.stdout.strip() else ""}
        print(p, "exit", r.returncode, viol[0] if viol else "-")
finally:
    subprocess.run(["git", "-C", repo, "checkout", "--", "."], check=True)
json.dump(results, open(os.path.join(out_dir, f"results-{tier}.json"), "w"), indent=1)
caught = [p for p, v in results.items() if v["exit"] == 1]
print("CAUGHT by" if caught else "MISSED", caught)
