import SqlgrepModel.Model.DecFloat
import SqlgrepModel.Lemmas.FloatOrder
/-
`DecFloat.decToF64` is *correct rounding*: theorems about the function the drivers execute.

Everything is stated in exact arithmetic on naturals, in units of 2^-1074 (`F64.umag`): the number `N / D` is
`A / D` units with `A = N · 2^1074`, a finite REAL `y` is `umag y` units, and the distance between them — over the
common denominator `D` — is `adist A (umag y · D)`.

* `magBits_nearest`: no finite REAL is closer to `N / D` than the result (when the result is finite);
* `magBits_tie_even`: if another REAL is exactly as close, the result's last mantissa bit is 0 (ties to even);
* `magBits_overflow`: the result is `+inf` only if `N / D` lies above every finite REAL;
* `magBits_exact`: a number that *is* a finite REAL converts to that REAL; `decToF64_int`: integers below 2^53;
* `decToF64_neg`: sign symmetry; `clamp_inf_sound` / `clamp_zero_sound`: the exponent clamps of `decToF64`
  answer what the exact computation would answer;
* `magBits_mono`: the conversion is monotone (weakly increasing patterns for increasing numbers).
-/
namespace Sqlgrep
namespace DecFloat
open F64

/-- `|a − b|` on naturals -/
def adist (a b : Nat) : Nat := (a - b) + (b - a)

theorem adist_eq_zero {a b : Nat} : adist a b = 0 ↔ a = b := by unfold adist; omega

/-! ### rounding a quotient -/

theorem roundQ_cases (q r den : Nat) :
    (roundQ q r den = q ∧ 2 * r ≤ den) ∨ (roundQ q r den = q + 1 ∧ den ≤ 2 * r) := by
  unfold roundQ
  by_cases h1 : 2 * r < den
  · simp [h1]; omega
  · by_cases h2 : den < 2 * r
    · simp [h1, h2]; omega
    · simp only [h1, h2, if_false]
      have : q % 2 = 0 ∨ q % 2 = 1 := by omega
      rcases this with h | h <;> rw [h] <;> omega

theorem roundQ_ge (q r den : Nat) : q ≤ roundQ q r den := by
  rcases roundQ_cases q r den with h | h <;> omega
theorem roundQ_le (q r den : Nat) : roundQ q r den ≤ q + 1 := by
  rcases roundQ_cases q r den with h | h <;> omega

/-- the rounded quotient is a nearest multiple: `|A − R·den| ≤ |A − t·den|` for every `t` -/
theorem roundQ_nearest (q r den t : Nat) (hr : r < den) :
    adist (q * den + r) (roundQ q r den * den) ≤ adist (q * den + r) (t * den) := by
  unfold adist
  rcases Nat.lt_or_ge q t with ht | ht
  · -- t ≥ q + 1
    have h1 : (q + 1) * den ≤ t * den := Nat.mul_le_mul_right _ ht
    rw [Nat.add_mul, Nat.one_mul] at h1
    rcases roundQ_cases q r den with ⟨h, h2⟩ | ⟨h, h2⟩ <;> rw [h]
    · omega
    · rw [Nat.add_mul, Nat.one_mul]; omega
  · have h1 : t * den ≤ q * den := Nat.mul_le_mul_right _ ht
    rcases roundQ_cases q r den with ⟨h, h2⟩ | ⟨h, h2⟩ <;> rw [h]
    · omega
    · rw [Nat.add_mul, Nat.one_mul]; omega

/-- on a tie the rounded quotient is even -/
theorem roundQ_tie_even (q r den : Nat) (h : 2 * r = den) : roundQ q r den % 2 = 0 := by
  unfold roundQ
  simp only [h, Nat.lt_irrefl, if_false]
  omega

/-! ### the grid exponent -/

theorem two_pow3 (a b c : Nat) : (2:Nat) ^ a * (2 ^ b * 2 ^ c) = 2 ^ (a + b + c) := by
  rw [← Nat.pow_add, ← Nat.pow_add, Nat.add_assoc]

/-- with `k = gridExp A D` the quotient `A / (D · 2^k)` has at most 53 bits, and exactly 53 unless `k = 0` -/
theorem gridExp_spec (A D : Nat) (hD : 0 < D) :
    A / (D * 2 ^ gridExp A D) < 2 ^ 53 ∧ (gridExp A D = 0 ∨ 2 ^ 52 ≤ A / (D * 2 ^ gridExp A D)) := by
  by_cases hA : A = 0
  · subst hA; simp [gridExp]
  have hD0 : D ≠ 0 := by omega
  have a1 : 2 ^ A.log2 ≤ A := Nat.log2_self_le hA
  have a2 : A < 2 ^ (A.log2 + 1) := Nat.lt_log2_self
  have d1 : 2 ^ D.log2 ≤ D := Nat.log2_self_le hD0
  have d2 : D < 2 ^ (D.log2 + 1) := Nat.lt_log2_self
  generalize hk0 : A.log2 - D.log2 - 53 = k0
  have hden : 0 < D * 2 ^ k0 := Nat.mul_pos hD (Nat.two_pow_pos _)
  -- the first quotient is below 2^54
  have hq0 : A / (D * 2 ^ k0) < 2 ^ 54 := by
    rw [Nat.div_lt_iff_lt_mul hden]
    have h1 : (2:Nat) ^ (A.log2 + 1) ≤ 2 ^ (54 + D.log2 + k0) := Nat.pow_le_pow_right (by decide) (by omega)
    rw [← two_pow3] at h1
    have h2 : (2:Nat) ^ 54 * (2 ^ D.log2 * 2 ^ k0) ≤ 2 ^ 54 * (D * 2 ^ k0) :=
      Nat.mul_le_mul_left _ (Nat.mul_le_mul_right _ d1)
    omega
  unfold gridExp
  simp only [hk0]
  by_cases hc : A / (D * 2 ^ k0) < 2 ^ 53
  · simp only [hc, if_true, true_and]
    by_cases hz : k0 = 0
    · exact Or.inl hz
    · right
      rw [Nat.le_div_iff_mul_le hden]
      have e : A.log2 = 52 + (D.log2 + 1) + k0 := by omega
      have h1 : (2:Nat) ^ 52 * (D * 2 ^ k0) ≤ 2 ^ 52 * (2 ^ (D.log2 + 1) * 2 ^ k0) :=
        Nat.mul_le_mul_left _ (Nat.mul_le_mul_right _ (Nat.le_of_lt d2))
      rw [two_pow3, ← e] at h1
      omega
  · simp only [hc, if_false]
    have e : D * 2 ^ (k0 + 1) = D * 2 ^ k0 * 2 := by rw [Nat.pow_succ, Nat.mul_assoc]
    rw [e, ← Nat.div_div_eq_div_mul]
    omega


/-! ### patterns with an unbounded exponent field

`uW x` reads `x` as exponent field `x / 2^52` and fraction field `x % 2^52` with no bound on the exponent field; on
the magnitude bits of a REAL it is `umag`. Rounding is first analysed on such patterns (`rawBits`), the overflow cut
of `magBits` comes last. -/

def uW (x : Nat) : Nat := W (x / 2 ^ 52) (x % 2 ^ 52)

theorem umag_eq_uW (y : Nat) : umag y = uW (mag y) := by
  rw [umag_eq_W, expBits_eq, fracBits_eq]; rfl

theorem W_succ (E F : Nat) : W (E + 1) F = (2 ^ 52 + F) * 2 ^ E := by
  unfold W; simp

/-- the pattern `k · 2^52 + R` stands for `R · 2^k` units -/
theorem uW_encode (k R : Nat) (hR : R ≤ 2 ^ 53) (hk : k = 0 ∨ 2 ^ 52 ≤ R) : uW (k * 2 ^ 52 + R) = R * 2 ^ k := by
  unfold uW
  by_cases h1 : R < 2 ^ 52
  · have hk0 : k = 0 := by omega
    subst hk0
    have e1 : (0 * 2 ^ 52 + R) / 2 ^ 52 = 0 := by omega
    have e2 : (0 * 2 ^ 52 + R) % 2 ^ 52 = R := by omega
    rw [e1, e2]; simp [W]
  · by_cases h2 : R = 2 ^ 53
    · have e1 : (k * 2 ^ 52 + R) / 2 ^ 52 = (k + 1) + 1 := by omega
      have e2 : (k * 2 ^ 52 + R) % 2 ^ 52 = 0 := by omega
      rw [e1, e2, h2, W_succ, Nat.pow_succ 2 k]
      have : (2:Nat) ^ 53 = 2 ^ 52 * 2 := by decide
      rw [this, Nat.add_zero, Nat.mul_assoc, Nat.mul_comm 2 (2 ^ k)]
    · have e1 : (k * 2 ^ 52 + R) / 2 ^ 52 = k + 1 := by omega
      have e2 : (k * 2 ^ 52 + R) % 2 ^ 52 = R - 2 ^ 52 := by omega
      rw [e1, e2, W_succ]
      have e3 : 2 ^ 52 + (R - 2 ^ 52) = R := by omega
      rw [e3]

theorem uW_strictMono {x y : Nat} (h : x < y) : uW x < uW y := by
  unfold uW
  apply W_strictMono _ _ _ _ (Nat.mod_lt _ (by decide)) (Nat.mod_lt _ (by decide))
  omega

theorem uW_le {x y : Nat} (h : x ≤ y) : uW x ≤ uW y := by
  rcases Nat.lt_or_eq_of_le h with h | h
  · exact Nat.le_of_lt (uW_strictMono h)
  · rw [h]; exact Nat.le_refl _

theorem uW_inj {x y : Nat} (h : uW x = uW y) : x = y := by
  rcases Nat.lt_trichotomy x y with h' | h' | h'
  · have := uW_strictMono h'; omega
  · exact h'
  · have := uW_strictMono h'; omega

/-- every pattern is below `2^(52+k)` units or a multiple of `2^k` units -/
theorem uW_grid (x k : Nat) : uW x < 2 ^ (52 + k) ∨ ∃ t, uW x = t * 2 ^ k := by
  unfold uW
  have hF : x % 2 ^ 52 < 2 ^ 52 := Nat.mod_lt _ (by decide)
  generalize x / 2 ^ 52 = E at *
  generalize x % 2 ^ 52 = F at *
  cases E with
  | zero =>
    left
    have : (2:Nat) ^ 52 ≤ 2 ^ (52 + k) := Nat.pow_le_pow_right (by decide) (by omega)
    simp [W]; omega
  | succ E' =>
    rw [W_succ]
    by_cases h : k ≤ E'
    · right
      refine ⟨(2 ^ 52 + F) * 2 ^ (E' - k), ?_⟩
      rw [Nat.mul_assoc, ← Nat.pow_add]
      congr 2; omega
    · left
      have h1 : (2 ^ 52 + F) * 2 ^ E' < 2 ^ 53 * 2 ^ E' :=
        (Nat.mul_lt_mul_right (Nat.two_pow_pos _)).2 (by omega)
      have h2 : (2:Nat) ^ 53 * 2 ^ E' ≤ 2 ^ (52 + k) := by
        rw [← Nat.pow_add]; exact Nat.pow_le_pow_right (by decide) (by omega)
      omega

/-! ### the rounded pattern is a nearest pattern -/

/-- the quantities `rawBits N D` is computed from -/
structure Parts (N D : Nat) where
  k : Nat
  q : Nat
  r : Nat
  hk : k = gridExp (N * unitScale) D
  hq : q = N * unitScale / (D * 2 ^ k)
  hr : r = N * unitScale % (D * 2 ^ k)

def parts (N D : Nat) : Parts N D := ⟨_, _, _, rfl, rfl, rfl⟩

namespace Parts
variable {N D : Nat} (p : Parts N D)

/-- the rounded quotient -/
def R : Nat := roundQ p.q p.r (D * 2 ^ p.k)

theorem raw : rawBits N D = p.k * 2 ^ 52 + p.R := by
  unfold R
  rw [p.hr, p.hq, p.hk]
  unfold rawBits
  exact rfl

theorem split : N * unitScale = p.q * (D * 2 ^ p.k) + p.r := by
  rw [p.hq, p.hr, Nat.mul_comm _ (D * 2 ^ p.k)]; exact (Nat.div_add_mod _ _).symm

theorem r_lt (hD : 0 < D) : p.r < D * 2 ^ p.k := by
  rw [p.hr]; exact Nat.mod_lt _ (Nat.mul_pos hD (Nat.two_pow_pos _))

theorem q_lt (hD : 0 < D) : p.q < 2 ^ 53 := by
  rw [p.hq, p.hk]; exact (gridExp_spec _ _ hD).1

theorem q_ge (hD : 0 < D) : p.k = 0 ∨ 2 ^ 52 ≤ p.q := by
  have := (gridExp_spec (N * unitScale) D hD).2
  rw [← p.hk, ← p.hq] at this; exact this

theorem R_cases : (p.R = p.q ∧ 2 * p.r ≤ D * 2 ^ p.k) ∨ (p.R = p.q + 1 ∧ D * 2 ^ p.k ≤ 2 * p.r) :=
  roundQ_cases _ _ _

/-- the rounded pattern stands for `R · 2^k` units; over the denominator `D` that is `R · den` -/
theorem uW_raw (hD : 0 < D) : uW (rawBits N D) * D = p.R * (D * 2 ^ p.k) := by
  have hq1 := p.q_lt hD
  have hq2 := p.q_ge hD
  rw [p.raw, uW_encode p.k p.R (by rcases p.R_cases with h | h <;> omega) (by rcases p.R_cases with h | h <;> omega),
    Nat.mul_assoc, Nat.mul_comm (2 ^ p.k) D]

end Parts

/-- a pattern that is not on the grid of the result lies more than the rounding error away -/
theorem raw_offgrid {N D : Nat} (p : Parts N D) (hD : 0 < D) (x : Nat) (hk : p.k ≠ 0) (hsm : uW x < 2 ^ (52 + p.k)) :
    adist (N * unitScale) (uW (rawBits N D) * D) < adist (N * unitScale) (uW x * D) := by
  have hq : 2 ^ 52 ≤ p.q := by rcases p.q_ge hD with h | h; exact absurd h hk; exact h
  have hr := p.r_lt hD
  have h1 : uW x * D < 2 ^ (52 + p.k) * D := (Nat.mul_lt_mul_right hD).2 hsm
  have h2 : 2 ^ (52 + p.k) * D = 2 ^ 52 * (D * 2 ^ p.k) := by
    rw [Nat.pow_add, Nat.mul_assoc, Nat.mul_comm (2 ^ p.k) D]
  have h3 : 2 ^ 52 * (D * 2 ^ p.k) ≤ p.q * (D * 2 ^ p.k) := Nat.mul_le_mul_right _ hq
  rw [p.uW_raw hD, p.split]
  unfold adist
  rcases p.R_cases with ⟨h, h4⟩ | ⟨h, h4⟩ <;> rw [h]
  · omega
  · rw [Nat.add_mul, Nat.one_mul]; omega

/-- **Nearest.** No pattern (with whatever exponent) is closer to `N / D` than `rawBits N D`: distances over the
common denominator `D`, in units of 2^-1074. -/
theorem raw_nearest (N D x : Nat) (hD : 0 < D) :
    adist (N * unitScale) (uW (rawBits N D) * D) ≤ adist (N * unitScale) (uW x * D) := by
  let p := parts N D
  have hr := p.r_lt hD
  have grid : ∀ t, uW x = t * 2 ^ p.k →
      adist (N * unitScale) (uW (rawBits N D) * D) ≤ adist (N * unitScale) (uW x * D) := by
    intro t ht
    have : uW x * D = t * (D * 2 ^ p.k) := by rw [ht, Nat.mul_assoc, Nat.mul_comm (2 ^ p.k) D]
    rw [this, p.uW_raw hD, p.split]; exact roundQ_nearest _ _ _ _ hr
  rcases uW_grid x p.k with hsm | ⟨t, ht⟩
  · by_cases hk0 : p.k = 0
    · exact grid (uW x) (by rw [hk0]; simp)
    · exact Nat.le_of_lt (raw_offgrid p hD x hk0 hsm)
  · exact grid t ht

theorem unitScale_pos : 0 < unitScale := by unfold unitScale; exact Nat.pow_pos (by decide)

/-- **Ties to even.** If another pattern is exactly as close to `N / D` as the result, the result is even
(its last mantissa bit is 0). -/
theorem raw_tie_even (N D x : Nat) (hD : 0 < D) (hne : x ≠ rawBits N D)
    (heq : adist (N * unitScale) (uW x * D) = adist (N * unitScale) (uW (rawBits N D) * D)) :
    rawBits N D % 2 = 0 := by
  let p := parts N D
  have hr := p.r_lt hD
  have grid : ∀ t, uW x = t * 2 ^ p.k → rawBits N D % 2 = 0 := by
    intro t ht
    have hx : uW x * D = t * (D * 2 ^ p.k) := by rw [ht, Nat.mul_assoc, Nat.mul_comm (2 ^ p.k) D]
    have htR : t ≠ p.R := by
      intro h
      apply hne
      apply uW_inj
      have : uW x * D = uW (rawBits N D) * D := by rw [hx, p.uW_raw hD, h]
      exact Nat.eq_of_mul_eq_mul_right hD this
    rw [hx, p.uW_raw hD, p.split] at heq
    unfold adist at heq
    have tie : 2 * p.r = D * 2 ^ p.k := by
      rcases Nat.lt_trichotomy t p.q with h | h | h
      · have h1 : (t + 1) * (D * 2 ^ p.k) ≤ p.q * (D * 2 ^ p.k) := Nat.mul_le_mul_right _ h
        rw [Nat.add_mul, Nat.one_mul] at h1
        rcases p.R_cases with ⟨hR, h4⟩ | ⟨hR, h4⟩ <;> rw [hR] at heq
        · omega
        · rw [Nat.add_mul, Nat.one_mul] at heq; omega
      · subst h
        rcases p.R_cases with ⟨hR, h4⟩ | ⟨hR, h4⟩ <;> rw [hR] at heq htR
        · exact absurd rfl htR
        · rw [Nat.add_mul, Nat.one_mul] at heq; omega
      · rcases Nat.lt_or_eq_of_le (Nat.succ_le_of_lt h) with h' | h'
        · have h1 : (p.q + 2) * (D * 2 ^ p.k) ≤ t * (D * 2 ^ p.k) := Nat.mul_le_mul_right _ h'
          rw [Nat.add_mul] at h1
          rcases p.R_cases with ⟨hR, h4⟩ | ⟨hR, h4⟩ <;> rw [hR] at heq
          · omega
          · rw [Nat.add_mul, Nat.one_mul] at heq; omega
        · rw [← h'] at heq htR
          rcases p.R_cases with ⟨hR, h4⟩ | ⟨hR, h4⟩ <;> rw [hR] at heq htR
          · rw [Nat.succ_mul] at heq; omega
          · exact absurd rfl htR
    have ev : p.R % 2 = 0 := roundQ_tie_even _ _ _ tie
    rw [p.raw]; omega
  rcases uW_grid x p.k with hsm | ⟨t, ht⟩
  · by_cases hk0 : p.k = 0
    · exact grid (uW x) (by rw [hk0]; simp)
    · have := raw_offgrid p hD x hk0 hsm; omega
  · exact grid t ht

/-- **Monotone.** A larger number never rounds to a smaller pattern. -/
theorem raw_mono (N1 N2 D : Nat) (hD : 0 < D) (h : N1 ≤ N2) : rawBits N1 D ≤ rawBits N2 D := by
  false_or_by_contra
  rename_i hlt
  have hlt : rawBits N2 D < rawBits N1 D := by omega
  have hu := (Nat.mul_lt_mul_right hD).2 (uW_strictMono hlt)
  have n1 := raw_nearest N1 D (rawBits N2 D) hD
  have n2 := raw_nearest N2 D (rawBits N1 D) hD
  have hA : N1 * unitScale ≤ N2 * unitScale := Nat.mul_le_mul_right _ h
  unfold adist at n1 n2
  have : N1 * unitScale = N2 * unitScale := by omega
  have : N1 = N2 := Nat.eq_of_mul_eq_mul_right unitScale_pos this
  subst this; omega

/-! ### the overflow cut: `magBits` -/

/-- the largest finite REAL, `(2^53 − 1) · 2^971` -/
def maxFiniteBits : Nat := 0x7fefffffffffffff

/-- `2^-1074 · 2^2044 = 2^970`: half the spacing of the REALs in the top binade -/
def topHalfUlp : Nat := 2 ^ 2044

theorem uW_inf : uW infBits = 2 ^ 54 * topHalfUlp := by
  have e : infBits = 2046 * 2 ^ 52 + 2 ^ 52 := by decide
  rw [e, uW_encode 2046 (2 ^ 52) (by decide) (Or.inr (Nat.le_refl _))]
  have : (2046 : Nat) = 2044 + 2 := rfl
  rw [this, Nat.pow_add, ← Nat.mul_assoc, Nat.mul_comm (2 ^ 52) (2 ^ 2044), Nat.mul_assoc]
  unfold topHalfUlp
  rw [Nat.mul_comm]

theorem uW_maxFinite : uW maxFiniteBits = (2 ^ 54 - 2) * topHalfUlp := by
  have e : maxFiniteBits = 2045 * 2 ^ 52 + (2 ^ 53 - 1) := by decide
  rw [e, uW_encode 2045 (2 ^ 53 - 1) (by decide) (Or.inr (by decide))]
  have : (2045 : Nat) = 2044 + 1 := rfl
  rw [this, Nat.pow_add, ← Nat.mul_assoc, Nat.mul_comm (2 ^ 53 - 1) (2 ^ 2044), Nat.mul_assoc]
  unfold topHalfUlp
  rw [Nat.mul_comm]

theorem magBits_le_inf (N D : Nat) : magBits N D ≤ infBits := by unfold magBits; omega

theorem magBits_eq_inf_iff (N D : Nat) : magBits N D = infBits ↔ infBits ≤ rawBits N D := by
  unfold magBits; omega

/-- **Overflow exactly at the IEEE threshold.** The result is `+inf` iff `N / D ≥ (2^54 − 1) · 2^970`, the midpoint
between the largest finite REAL `(2^54 − 2) · 2^970` and `2^1024` (the midpoint itself goes up: the largest finite
REAL is odd). -/
theorem magBits_overflow_iff (N D : Nat) (hD : 0 < D) :
    magBits N D = infBits ↔ (2 ^ 54 - 1) * topHalfUlp * D ≤ N * unitScale := by
  rw [magBits_eq_inf_iff]
  have e1 : uW infBits * D = 2 ^ 54 * (topHalfUlp * D) := by rw [uW_inf, Nat.mul_assoc]
  have e2 : uW maxFiniteBits * D = (2 ^ 54 - 2) * (topHalfUlp * D) := by rw [uW_maxFinite, Nat.mul_assoc]
  rw [Nat.mul_assoc]
  generalize topHalfUlp * D = z at *
  constructor
  · intro h
    have n := raw_nearest N D maxFiniteBits hD
    have h1 : uW infBits * D ≤ uW (rawBits N D) * D := Nat.mul_le_mul_right _ (uW_le h)
    unfold adist at n
    omega
  · intro h
    false_or_by_contra
    rename_i hlt
    have hle : rawBits N D ≤ maxFiniteBits := by unfold maxFiniteBits; unfold infBits at hlt; omega
    have h1 : uW (rawBits N D) * D ≤ uW maxFiniteBits * D := Nat.mul_le_mul_right _ (uW_le hle)
    have n := raw_nearest N D infBits hD
    have heq : adist (N * unitScale) (uW infBits * D) = adist (N * unitScale) (uW (rawBits N D) * D) := by
      unfold adist at n ⊢; omega
    have hne : infBits ≠ rawBits N D := by omega
    have ev := raw_tie_even N D infBits hD hne heq
    have hu : uW (rawBits N D) * D = uW maxFiniteBits * D := by unfold adist at n heq; omega
    have : rawBits N D = maxFiniteBits := uW_inj (Nat.eq_of_mul_eq_mul_right hD hu)
    rw [this] at ev
    exact absurd ev (by decide)

/-- a finite result is the rounded pattern itself: a finite REAL with the sign bit clear -/
theorem magBits_finite {N D : Nat} (hfin : magBits N D < infBits) :
    magBits N D = rawBits N D ∧ mag (magBits N D) = magBits N D ∧ isFinite (magBits N D) = true ∧
    signBit (magBits N D) = false := by
  have h1 : magBits N D = rawBits N D := by unfold magBits at hfin ⊢; omega
  unfold infBits at hfin
  have h2 : mag (magBits N D) = magBits N D := by unfold mag; omega
  refine ⟨h1, h2, ?_, ?_⟩
  · unfold isFinite; rw [h2]; simp; omega
  · unfold signBit; simp; omega

theorem umag_magBits {N D : Nat} (hfin : magBits N D < infBits) : umag (magBits N D) = uW (rawBits N D) := by
  have h := magBits_finite hfin
  rw [umag_eq_uW, h.2.1, h.1]

/-- **Correct rounding, nearest.**  `N / D` is `N · 2^1074 / D` units of 2^-1074 and a REAL `y` is `umag y` units;
over the common denominator `D` the distance between them is `adist (N · 2^1074) (umag y · D)`.  When the result
is finite, no REAL is closer to `N / D` than the result. -/
theorem magBits_nearest (N D y : Nat) (hD : 0 < D) (hfin : magBits N D < infBits) :
    adist (N * unitScale) (umag (magBits N D) * D) ≤ adist (N * unitScale) (umag y * D) := by
  rw [umag_magBits hfin, umag_eq_uW y]; exact raw_nearest N D (mag y) hD

/-- **Correct rounding, ties to even.** If a REAL of another magnitude is exactly as close to `N / D` as the
(finite) result, the result's last mantissa bit is 0. -/
theorem magBits_tie_even (N D y : Nat) (hD : 0 < D) (hfin : magBits N D < infBits) (hne : mag y ≠ magBits N D)
    (heq : adist (N * unitScale) (umag y * D) = adist (N * unitScale) (umag (magBits N D) * D)) :
    magBits N D % 2 = 0 := by
  rw [umag_magBits hfin, umag_eq_uW y] at heq
  rw [(magBits_finite hfin).1] at hne ⊢
  exact raw_tie_even N D (mag y) hD hne heq

/-- **Monotone**: a larger number never converts to a smaller pattern (same denominator) -/
theorem magBits_mono (N1 N2 D : Nat) (hD : 0 < D) (h : N1 ≤ N2) : magBits N1 D ≤ magBits N2 D := by
  have := raw_mono N1 N2 D hD h
  unfold magBits; omega

/-- **Exact**: a number that is a finite REAL `y` converts to `y` -/
theorem magBits_exact (N D y : Nat) (hD : 0 < D) (hy : isFinite y = true) (h : N * unitScale = umag y * D) :
    magBits N D = mag y := by
  have hmy : mag y < infBits := by unfold isFinite at hy; unfold infBits; simpa using hy
  have n := raw_nearest N D (mag y) hD
  rw [← umag_eq_uW, ← h] at n
  have : uW (rawBits N D) * D = N * unitScale := by
    generalize N * unitScale = A at n
    unfold adist at n; omega
  have : uW (rawBits N D) = uW (mag y) := by
    rw [← umag_eq_uW]; exact Nat.eq_of_mul_eq_mul_right hD (this.trans h)
  have : rawBits N D = mag y := uW_inj this
  unfold magBits; rw [this]; exact Nat.min_eq_left (Nat.le_of_lt hmy)

/-! ### `decToF64`: the exponent clamps are sound, sign symmetry, monotonicity, integers -/

theorem rawBits_zero (D : Nat) : rawBits 0 D = 0 := by
  unfold rawBits
  simp [gridExp, roundQ]

theorem magBits_zero (D : Nat) : magBits 0 D = 0 := by
  unfold magBits; rw [rawBits_zero]; decide

/-- a number of at least `2^1024` converts to `+inf` -/
theorem magBits_inf_of_ge (N : Nat) (h : 2 ^ 1024 ≤ N) : magBits N 1 = infBits := by
  rw [magBits_overflow_iff N 1 (by decide), Nat.mul_one]
  have h1 : 2 ^ 1024 * unitScale ≤ N * unitScale := Nat.mul_le_mul_right _ h
  have h2 : 2 ^ 1024 * unitScale = 2 ^ 54 * topHalfUlp := by
    unfold unitScale topHalfUlp
    rw [← Nat.pow_add, ← Nat.pow_add]
  have h3 : (2 ^ 54 - 1) * topHalfUlp ≤ 2 ^ 54 * topHalfUlp := Nat.mul_le_mul_right _ (by decide)
  omega

/-- a number below `2^-1075` (half the smallest subnormal) converts to `0` -/
theorem magBits_zero_of_lt (N D : Nat) (h : 2 * (N * unitScale) < D) : magBits N D = 0 := by
  have hD : 0 < D := by omega
  let p := parts N D
  have hden : D ≤ D * 2 ^ p.k := Nat.le_mul_of_pos_right _ (Nat.two_pow_pos _)
  have hq : p.q = 0 := by rw [p.hq]; exact Nat.div_eq_of_lt (by omega)
  have hk : p.k = 0 := by
    rcases p.q_ge hD with h | h
    · exact h
    · rw [hq] at h; exact absurd h (by decide)
  have hr : p.r = N * unitScale := by rw [p.hr]; exact Nat.mod_eq_of_lt (by omega)
  have hR : p.R = 0 := by
    unfold Parts.R roundQ
    rw [hq, hr, hk]
    simp only [Nat.pow_zero, Nat.mul_one, h, if_true]
  unfold magBits
  rw [p.raw, hk, hR]; decide

theorem eight_pow_le (n : Nat) : 2 ^ (3 * n) ≤ 10 ^ n := by
  rw [Nat.pow_mul]; exact Nat.pow_le_pow_left (by decide) n

/-- the clamp to `inf`: what `decToF64` answers without computing the power of ten is what the exact computation answers -/
theorem clamp_inf_sound (mant e : Nat) (hm : mant ≠ 0) (h : 1024 ≤ mant.log2 + 3 * e) :
    magBits (mant * 10 ^ e) 1 = infBits := by
  apply magBits_inf_of_ge
  have h1 : 2 ^ mant.log2 ≤ mant := Nat.log2_self_le hm
  have h2 := eight_pow_le e
  have h3 : 2 ^ mant.log2 * 2 ^ (3 * e) ≤ mant * 10 ^ e := Nat.mul_le_mul h1 h2
  rw [← Nat.pow_add] at h3
  have h4 : (2:Nat) ^ 1024 ≤ 2 ^ (mant.log2 + 3 * e) := Nat.pow_le_pow_right (by decide) h
  omega

/-- the clamp to `0` -/
theorem clamp_zero_sound (mant n : Nat) (h : mant.log2 + 1076 ≤ 3 * n) : magBits mant (10 ^ n) = 0 := by
  apply magBits_zero_of_lt
  have h1 : mant < 2 ^ (mant.log2 + 1) := Nat.lt_log2_self
  have h2 := eight_pow_le n
  have h3 : (2:Nat) ^ (mant.log2 + 1076) ≤ 2 ^ (3 * n) := Nat.pow_le_pow_right (by decide) h
  have h4 : mant * unitScale < 2 ^ (mant.log2 + 1) * unitScale := (Nat.mul_lt_mul_right unitScale_pos).2 h1
  have h5 : 2 * (2 ^ (mant.log2 + 1) * unitScale) = 2 ^ (mant.log2 + 1076) := by
    unfold unitScale
    rw [← Nat.pow_add, Nat.mul_comm, ← Nat.pow_succ]
  omega

/-- numerator and denominator of `mant · 10^e` -/
def numOf (mant : Nat) (e : Int) : Nat := if 0 ≤ e then mant * 10 ^ e.toNat else mant
def denOf (e : Int) : Nat := if 0 ≤ e then 1 else 10 ^ (-e).toNat

theorem denOf_pos (e : Int) : 0 < denOf e := by
  unfold denOf; split
  · decide
  · exact Nat.pow_pos (by decide)

/-- **`decToF64` is the exact conversion**: with or without the shortcuts (zero mantissa, hopeless exponents) the
answer is the sign bit plus the correctly rounded magnitude of `mant · 10^e = numOf mant e / denOf e`. -/
theorem decToF64_eq (neg : Bool) (mant : Nat) (e : Int) :
    decToF64 neg mant e = (if neg then signMask else 0) + magBits (numOf mant e) (denOf e) := by
  unfold decToF64 numOf denOf
  by_cases hm : mant = 0
  · subst hm; simp [magBits_zero]
  · simp only [hm, if_false]
    by_cases he : 0 ≤ e
    · simp only [he, if_true]
      by_cases hc : 1024 ≤ mant.log2 + 3 * e.toNat
      · simp only [hc, if_true]; rw [clamp_inf_sound mant e.toNat hm hc]
      · simp only [hc, if_false]
    · simp only [he, if_false]
      by_cases hc : mant.log2 + 1076 ≤ 3 * (-e).toNat
      · simp only [hc, if_true]; rw [clamp_zero_sound mant (-e).toNat hc]; rfl
      · simp only [hc, if_false]

/-- **sign symmetry**: the negative number has the same magnitude bits and the sign bit set -/
theorem decToF64_neg (mant : Nat) (e : Int) : decToF64 true mant e = signMask + decToF64 false mant e := by
  rw [decToF64_eq, decToF64_eq]; simp

theorem decToF64_pos_le (mant : Nat) (e : Int) : decToF64 false mant e ≤ infBits := by
  rw [decToF64_eq]; simp; exact magBits_le_inf _ _

theorem decToF64_neg_eq_neg (mant : Nat) (e : Int) : decToF64 true mant e = F64.neg (decToF64 false mant e) := by
  have h := decToF64_pos_le mant e
  rw [decToF64_neg]
  unfold F64.neg F64.negX signMask; unfold infBits at h
  have : decToF64 false mant e / 2 ^ 63 % 2 = 0 := by omega
  simp [this]; omega

theorem numOf_mono (m1 m2 : Nat) (e : Int) (h : m1 ≤ m2) : numOf m1 e ≤ numOf m2 e := by
  unfold numOf; split
  · exact Nat.mul_le_mul_right _ h
  · exact h

/-- **monotone in the mantissa** (fixed exponent): patterns of non-negative numbers increase weakly … -/
theorem decToF64_mono (m1 m2 : Nat) (e : Int) (h : m1 ≤ m2) : decToF64 false m1 e ≤ decToF64 false m2 e := by
  rw [decToF64_eq, decToF64_eq]; simp
  exact magBits_mono _ _ _ (denOf_pos e) (numOf_mono m1 m2 e h)

/-- … and so does the order key of `impl Ord for Float`; for negative numbers it decreases -/
theorem decToF64_mono_key (m1 m2 : Nat) (e : Int) (h : m1 ≤ m2) :
    F64.key (decToF64 false m1 e) ≤ F64.key (decToF64 false m2 e) ∧
    F64.key (decToF64 true m2 e) ≤ F64.key (decToF64 true m1 e) := by
  have h1 := decToF64_pos_le m1 e
  have h2 := decToF64_pos_le m2 e
  have hm := decToF64_mono m1 m2 e h
  rw [decToF64_neg, decToF64_neg]
  unfold infBits at h1 h2
  unfold F64.key signBit mag signMask
  generalize decToF64 false m1 e = a at *
  generalize decToF64 false m2 e = b at *
  have ea : a / 2 ^ 63 % 2 = 0 := by omega
  have eb : b / 2 ^ 63 % 2 = 0 := by omega
  have ea' : (2 ^ 63 + a) / 2 ^ 63 % 2 = 1 := by omega
  have eb' : (2 ^ 63 + b) / 2 ^ 63 % 2 = 1 := by omega
  simp only [ea, eb, ea', eb']
  simp
  omega

/-! ### headline statements about `decToF64` -/

/-- **`decToF64` rounds correctly** (non-negative numbers; `decToF64_neg` mirrors them): the number is
`numOf mant e / denOf e`; when the answer is not `+inf` it is a finite REAL to which no REAL is closer, … -/
theorem decToF64_nearest (mant : Nat) (e : Int) (y : Nat) (hfin : decToF64 false mant e ≠ infBits) :
    isFinite (decToF64 false mant e) = true ∧
    adist (numOf mant e * unitScale) (umag (decToF64 false mant e) * denOf e) ≤
      adist (numOf mant e * unitScale) (umag y * denOf e) := by
  have hle := decToF64_pos_le mant e
  rw [decToF64_eq] at hfin hle ⊢
  simp only [Bool.false_eq_true, if_false, Nat.zero_add] at hfin hle ⊢
  have hlt : magBits (numOf mant e) (denOf e) < infBits := by omega
  exact ⟨(magBits_finite hlt).2.2.1, magBits_nearest _ _ y (denOf_pos e) hlt⟩

/-- … and when a REAL of another magnitude is exactly as close, the answer's last mantissa bit is 0 -/
theorem decToF64_tie_even (mant : Nat) (e : Int) (y : Nat) (hfin : decToF64 false mant e ≠ infBits)
    (hne : mag y ≠ decToF64 false mant e)
    (heq : adist (numOf mant e * unitScale) (umag y * denOf e) =
      adist (numOf mant e * unitScale) (umag (decToF64 false mant e) * denOf e)) :
    decToF64 false mant e % 2 = 0 := by
  have hle := decToF64_pos_le mant e
  rw [decToF64_eq] at hfin hle hne heq ⊢
  simp only [Bool.false_eq_true, if_false, Nat.zero_add] at hfin hle hne heq ⊢
  have hlt : magBits (numOf mant e) (denOf e) < infBits := by omega
  exact magBits_tie_even _ _ y (denOf_pos e) hlt hne heq

/-- the answer is `+inf` exactly from the IEEE overflow threshold `(2^54 − 1) · 2^970` on -/
theorem decToF64_overflow_iff (mant : Nat) (e : Int) :
    decToF64 false mant e = infBits ↔ (2 ^ 54 - 1) * topHalfUlp * denOf e ≤ numOf mant e * unitScale := by
  rw [decToF64_eq]
  simp only [Bool.false_eq_true, if_false, Nat.zero_add]
  exact magBits_overflow_iff _ _ (denOf_pos e)

/-- a decimal number that is a finite REAL converts to that REAL -/
theorem decToF64_exact (mant : Nat) (e : Int) (y : Nat) (hy : isFinite y = true)
    (h : numOf mant e * unitScale = umag y * denOf e) : decToF64 false mant e = mag y := by
  rw [decToF64_eq]
  simp only [Bool.false_eq_true, if_false, Nat.zero_add]
  exact magBits_exact _ _ y (denOf_pos e) hy h

/-- the pattern of the integer `m < 2^53`: exponent field `1023 + ⌊log2 m⌋`, the integer's bits left-aligned -/
def intBits (m : Nat) : Nat := if m = 0 then 0 else (1022 + m.log2) * 2 ^ 52 + m * 2 ^ (52 - m.log2)

theorem intBits_spec (m : Nat) (h : m < 2 ^ 53) :
    isFinite (intBits m) = true ∧ mag (intBits m) = intBits m ∧ umag (intBits m) = m * unitScale := by
  unfold intBits
  by_cases hm : m = 0
  · subst hm
    simp only [if_true]
    refine ⟨by decide, by decide, ?_⟩
    rw [Nat.zero_mul]; decide
  · simp only [hm, if_false]
    have l1 : 2 ^ m.log2 ≤ m := Nat.log2_self_le hm
    have l2 : m < 2 ^ (m.log2 + 1) := Nat.lt_log2_self
    have hl : m.log2 ≤ 52 := by
      have := (Nat.log2_lt hm (k := 53)).2 h; omega
    have r1 : 2 ^ 52 ≤ m * 2 ^ (52 - m.log2) := by
      have := Nat.mul_le_mul_right (2 ^ (52 - m.log2)) l1
      rw [← Nat.pow_add] at this
      have e : m.log2 + (52 - m.log2) = 52 := by omega
      rw [e] at this; exact this
    have r2 : m * 2 ^ (52 - m.log2) < 2 ^ 53 := by
      have := (Nat.mul_lt_mul_right (Nat.two_pow_pos (52 - m.log2))).2 l2
      rw [← Nat.pow_add] at this
      have e : m.log2 + 1 + (52 - m.log2) = 53 := by omega
      rw [e] at this; exact this
    generalize hR : m * 2 ^ (52 - m.log2) = R at *
    have hb : (1022 + m.log2) * 2 ^ 52 + R < infBits := by unfold infBits; omega
    have hmag : mag ((1022 + m.log2) * 2 ^ 52 + R) = (1022 + m.log2) * 2 ^ 52 + R := by
      unfold mag; unfold infBits at hb; omega
    refine ⟨?_, hmag, ?_⟩
    · unfold isFinite; rw [hmag]; unfold infBits at hb; simp; omega
    · rw [umag_eq_uW, hmag, uW_encode _ _ (by omega) (Or.inr r1), ← hR, Nat.mul_assoc, ← Nat.pow_add]
      unfold unitScale
      congr 2; omega

/-- **integers that fit 53 bits are exact**: `decToF64` of `m < 2^53` is the REAL whose value is `m` -/
theorem decToF64_int (m : Nat) (h : m < 2 ^ 53) :
    decToF64 false m 0 = intBits m ∧ umag (decToF64 false m 0) = m * unitScale := by
  have s := intBits_spec m h
  have : decToF64 false m 0 = intBits m := by
    rw [decToF64_exact m 0 (intBits m) s.1 (by simp [numOf, denOf, s.2.2]), s.2.1]
  rw [this]; exact ⟨rfl, s.2.2⟩

/-- the same with the exact value of `Lemmas/FloatOrder.lean`: `F64.value (decToF64 false m 0)` is the number `m` -/
theorem decToF64_int_value (m : Nat) (h : m < 2 ^ 53) :
    Dy.Eqv (F64.value (decToF64 false m 0)) (Dy.ofInt m) := by
  have hi := decToF64_int m h
  have hs : signBit (decToF64 false m 0) = false := by
    have := decToF64_pos_le m 0
    unfold signBit; unfold infBits at this; simp; omega
  unfold Dy.Eqv
  rw [Dy.cmp_eq_scale _ _ (-1074) (mantExp_exp_ge _) (by simp [Dy.ofInt]), value_scale, Int.compare_eq_eq]
  unfold units
  rw [hs, hi.2]
  simp [Dy.scale, Dy.ofInt, unitScale]

end DecFloat
end Sqlgrep
