import SqlgrepModel.Lemmas.LexRun
/-
The tokenizer on a text with a `;` appended (`q ++ ";"`, `q ++ " ;"`), for EVERY text `q`: the `;` either becomes
the token `;` in front of `End` — the tokens in front of `End` being exactly the tokens of `q` — or it falls into a
`--` comment / an unterminated string of `q` and the answer is the answer for `q`.

The one invariant needed: a `--` token is only ever the LAST token (the next character removes it and opens the
comment), and there is none while a word / number is being collected.
-/
set_option linter.unusedSimpArgs false
namespace Sqlgrep.Lex
open Sqlgrep

/-- no token of the list is `--` -/
def NoDash (ts : List PTok) : Prop := ∀ t ∈ ts, t.tok ≠ dashDash

/-- `--` occurs at most as the last token, and not at all while a word / number is pending -/
structure DashInv (st : St) : Prop where
  tail : NoDash st.toks.tail
  pend : st.pend ≠ .none → NoDash st.toks

theorem noDash_tail {ts : List PTok} (h : NoDash ts) : NoDash ts.tail := fun t ht => h t (List.mem_of_mem_tail ht)

theorem add_noDash {st : St} (h : NoDash st.toks) {t : Tok} (ht : t ≠ dashDash) : NoDash (st.add t).toks := by
  intro x hx
  simp only [St.add, List.mem_cons] at hx
  rcases hx with rfl | hx
  · exact ht
  · exact h x hx

theorem setLast_noDash {st : St} (h : NoDash st.toks) {t : Tok} (ht : t ≠ dashDash) : NoDash (st.setLast t).toks := by
  unfold St.setLast
  split
  · exact h
  · rename_i p rest hp
    intro x hx
    simp only [List.mem_cons] at hx
    rcases hx with rfl | hx
    · exact ht
    · exact h x (by rw [hp]; simp [hx])

theorem add_tail (st : St) (t : Tok) : (st.add t).toks.tail = st.toks := rfl

theorem setLast_tail (st : St) (t : Tok) : (st.setLast t).toks.tail = st.toks.tail := by
  unfold St.setLast; split
  · rfl
  · rename_i p rest hp; simp [hp]

/-- a state all of whose tokens are not `--`, with nothing pending -/
structure NoDashSt (st : St) : Prop where
  all : NoDash st.toks
  pend : st.pend = .none

theorem NoDashSt.inv {st : St} (h : NoDashSt st) : DashInv st := ⟨noDash_tail h.all, fun hp => absurd h.pend hp⟩

/-- a state reached by adding / rewriting the last token of a `NoDashSt` state -/
theorem inv_of_tail {st : St} (ht : NoDash st.toks.tail) (hp : st.pend = .none) : DashInv st :=
  ⟨ht, fun h => absurd hp h⟩

theorem dashCheck_noDash {st : St} (h : NoDash st.toks.tail) : NoDash st.dashCheck.toks := by
  unfold St.dashCheck
  split
  · exact h
  · rename_i hl
    intro t ht
    cases hts : st.toks with
    | nil => rw [hts] at ht; cases ht
    | cons p rest =>
      rw [hts] at ht
      rcases List.mem_cons.mp ht with rfl | hr
      · intro e; apply hl; simp [St.lastTok, hts, e]
      · exact h t (by rw [hts]; exact hr)

theorem inv_ite {c : Prop} [Decidable c] {a b : St} (ha : DashInv a) (hb : DashInv b) :
    DashInv (if c then a else b) := by split <;> assumption

theorem operator_inv {st : St} (h : NoDashSt st) (adj : Bool) (c : Char) : DashInv (operator st adj c) := by
  have hadd : DashInv (addOp st c) := inv_of_tail (by simpa [addOp, St.add] using h.all) (by simp [addOp, St.add, h.pend])
  have hset : ∀ t, DashInv (st.setLast t) := fun t =>
    inv_of_tail (by rw [setLast_tail]; exact noDash_tail h.all) (by unfold St.setLast; split <;> simp [h.pend])
  unfold operator
  repeat' split
  all_goals first | exact hadd | exact hset _

theorem classify_inv (o : Oracles) {st : St} (h : NoDashSt st) (adj : Bool) (c : Char) : DashInv (classify o st adj c) := by
  have hadd : ∀ t, DashInv (st.add t) := fun t => inv_of_tail h.all (by simp [St.add, h.pend])
  have hset : ∀ t, DashInv (st.setLast t) := fun t =>
    inv_of_tail (by rw [setLast_tail]; exact noDash_tail h.all) (by unfold St.setLast; split <;> simp [h.pend])
  unfold classify
  dsimp only
  repeat' with_reducible apply inv_ite
  all_goals first
    | exact hadd _
    | exact operator_inv h adj c
    | exact h.inv
    | exact ⟨noDash_tail h.all, fun _ => h.all⟩
    | (split <;> first | exact hset _ | exact hadd _)

theorem body_inv (o : Oracles) {st : St} (h : DashInv st) (hp : st.pend = .none) (c : Char) : DashInv (body o st c) := by
  have h1 : NoDashSt (st.advance c).dashCheck := by
    constructor
    · apply dashCheck_noDash
      unfold St.advance; split <;> exact h.tail
    · unfold St.dashCheck St.advance; repeat' split
      all_goals simp [hp]
  unfold body
  dsimp only
  generalize (st.advance c).dashCheck = s1 at h1 ⊢
  have keep : ∀ s : St, s.toks = s1.toks → s.pend = s1.pend → DashInv s := fun s ht hpd =>
    inv_of_tail (by rw [ht]; exact noDash_tail h1.all) (by rw [hpd]; exact h1.pend)
  split
  · split
    · exact keep _ rfl rfl
    · exact h1.inv
  · split
    · exact keep _ rfl rfl
    · split
      · unfold quote
        split
        · exact inv_of_tail (by simpa [St.add] using h1.all) (by simp [St.add, h1.pend])
        · exact keep _ rfl rfl
      · split
        · exact keep _ rfl rfl
        · exact classify_inv o (st := { s1 with esc := false }) ⟨h1.all, h1.pend⟩ _ c

theorem addKeyword_noDash {st : St} (h : NoDash st.toks) (k : Keyword) : NoDash (addKeyword st k).toks := by
  unfold addKeyword
  split
  · exact setLast_noDash h (by simp [dashDash])
  · exact setLast_noDash h (by simp [dashDash])
  · exact add_noDash h (by simp [dashDash])

theorem flush_inv (o : Oracles) {st st' : St} (h : DashInv st) (hf : flush o st = .run st') :
    DashInv st' ∧ st'.pend = .none := by
  unfold flush at hf
  split at hf
  · rename_i hp
    simp only [R.run.injEq] at hf; subst hf
    exact ⟨h, hp⟩
  · rename_i r hp
    have hall : NoDash st.toks := h.pend (by rw [hp]; simp)
    simp only [R.run.injEq] at hf; subst hf
    have h0 : NoDash ({ st with pend := .none } : St).toks := hall
    have hp0 : ({ st with pend := .none } : St).pend = .none := rfl
    generalize ({ st with pend := .none } : St) = s0 at h0 hp0
    unfold flushIdent
    simp only []
    have hadd : ∀ t, t ≠ dashDash → DashInv (s0.add t) ∧ (s0.add t).pend = .none := fun t ht =>
      ⟨inv_of_tail h0 (by simp [St.add, hp0]), by simp [St.add, hp0]⟩
    repeat' split
    all_goals first
      | exact hadd _ (by simp [dashDash])
      | (refine ⟨inv_of_tail (noDash_tail (addKeyword_noDash h0 _)) ?_, ?_⟩ <;>
          (unfold addKeyword St.setLast St.add; repeat' split
           all_goals simp [hp0]))
  · rename_i r d hp
    have hall : NoDash st.toks := h.pend (by rw [hp]; simp)
    have h0 : NoDash ({ st with pend := .none } : St).toks := hall
    have hp0 : ({ st with pend := .none } : St).pend = .none := rfl
    generalize ({ st with pend := .none } : St) = s0 at h0 hp0 hf
    have hadd : ∀ t, DashInv (s0.add t) ∧ (s0.add t).pend = .none := fun t =>
      ⟨inv_of_tail h0 (by simp [St.add, hp0]), by simp [St.add, hp0]⟩
    unfold flushNumber at hf
    repeat' split at hf
    all_goals first
      | (simp only [R.run.injEq] at hf; subst hf; exact hadd _)
      | cases hf

theorem step_inv (o : Oracles) {st st' : St} (h : DashInv st) (c : Char) (hs : step o st c = .run st') : DashInv st' := by
  have cont : ∀ p, p ≠ Pending.none → st.pend ≠ .none → DashInv { st with pend := p, col := st.col + 1 } := fun p hp hst =>
    ⟨h.tail, fun _ => h.pend hst⟩
  have fl : (flush o st).bind (fun st => .run (body o st c)) = .run st' → DashInv st' := by
    intro hs
    cases hf : flush o st with
    | run s1 =>
      rw [hf] at hs
      simp only [R.bind_run, R.run.injEq] at hs
      obtain ⟨hi, hp⟩ := flush_inv o h hf
      rw [← hs]; exact body_inv o hi hp c
    | fail l e => rw [hf] at hs; cases hs
    | missing w => rw [hf] at hs; cases hs
  unfold step at hs
  split at hs
  · rename_i hp
    simp only [R.run.injEq] at hs
    rw [← hs]; exact body_inv o h hp c
  · rename_i r hp
    split at hs
    · simp only [R.run.injEq] at hs
      rw [← hs]; exact cont _ (by simp) (by rw [hp]; simp)
    · exact fl hs
  · rename_i r d hp
    split at hs
    · simp only [R.run.injEq] at hs
      rw [← hs]; exact cont _ (by simp) (by rw [hp]; simp)
    · split at hs
      · split at hs
        · cases hs
        · simp only [R.run.injEq] at hs
          rw [← hs]; exact cont _ (by simp) (by rw [hp]; simp)
      · exact fl hs

theorem run_inv (o : Oracles) (text : List Char) : ∀ {st st' : St}, DashInv st → run o st text = .run st' → DashInv st' := by
  induction text with
  | nil => intro st st' h hr; simp only [run_nil, R.run.injEq] at hr; rw [← hr]; exact h
  | cons c cs ih =>
    intro st st' h hr
    rw [run_cons] at hr
    cases hs : step o st c with
    | run s1 => rw [hs] at hr; exact ih (step_inv o h c hs) hr
    | fail l e => rw [hs] at hr; cases hr
    | missing w => rw [hs] at hr; cases hr

theorem dashInv_init : DashInv {} := ⟨(by intro t ht; cases ht), fun _ => (by intro t ht; cases ht)⟩

/-! ### a character that is neither a word / number character nor a line break, appended to a text -/

/-- the token list a state stands for at the end of the text: the answer of `tokenize`, given the loop's result -/
def answer (r : R) : Result :=
  match r with
  | .run st => .ok st.toks.reverse
  | .fail l e => .error l e
  | .missing w => .missing w

theorem tokenize_eq (o : Oracles) (text : List Char) : tokenize o text = answer ((run o {} text).bind (finish o)) := by
  unfold tokenize answer; rfl

/-- what appending `;` to a text does to the tokenizer's answer: nothing (the `;` fell into a `--` comment or an
unterminated string literal of the text — or the text has a lexical error), or one token `;` in front of `End` -/
inductive SemiAppended : Result → Result → Prop
  | same (r : Result) : SemiAppended r r
  | semi (pre : List PTok) (l0 l l' : Loc) :
      SemiAppended (.ok (pre ++ [⟨l0, .eof⟩])) (.ok (pre ++ [⟨l, .semi⟩, ⟨l', .eof⟩]))

theorem close_toks_of_noDash {st : St} (h : st.lastTok ≠ some dashDash) :
    st.close.toks = ⟨⟨st.line, st.start⟩, .eof⟩ :: st.toks := by
  unfold St.close; rw [if_neg h]; rfl

theorem close_toks_of_dash {st : St} (h : st.lastTok = some dashDash) :
    st.close.toks = ⟨⟨st.line, st.start⟩, .eof⟩ :: st.toks.tail := by
  unfold St.close; rw [if_pos h]; rfl

theorem lastTok_ne_of_noDash {st : St} (h : NoDash st.toks) : st.lastTok ≠ some dashDash := by
  unfold St.lastTok
  cases hts : st.toks with
  | nil => simp
  | cons p rest => simp only [ne_eq, Option.some.injEq]; exact h p (by rw [hts]; simp)

theorem finish_of_pend_none (o : Oracles) {st : St} (h : st.pend = .none) : finish o st = .run st.close := by
  unfold finish flush; rw [h]; rfl

theorem advance_not_nl (st : St) {c : Char} (h : c ≠ '\n') :
    st.advance c = { st with col := st.col + 1, prevOp := false } := by
  unfold St.advance; rw [if_neg h]

/-- the loop body on `;` followed by the end of the text, against the end of the text -/
theorem semi_body (o : Oracles) {st : St} (h : DashInv st) (hp : st.pend = .none) :
    SemiAppended (.ok st.close.toks.reverse) (answer (finish o (body o st ';'))) := by
  have hi : o.info ';' = asciiInfo ';' := info_of_ascii o _ (by decide)
  unfold body
  dsimp only
  rw [advance_not_nl st (by decide)]
  by_cases hd : st.lastTok = some dashDash
  · -- the text ends with `--`: the `;` opens the comment
    have hd' : ({ st with col := st.col + 1, prevOp := false } : St).lastTok = some dashDash := hd
    unfold St.dashCheck
    rw [if_pos hd']
    simp only [if_true, show ((';' : Char) = '\n') = False from by decide, if_false]
    rw [finish_of_pend_none o (by exact hp)]
    have hnd : ({ st with col := st.col + 1, prevOp := false, com := true, toks := st.toks.tail } : St).lastTok ≠ some dashDash :=
      lastTok_ne_of_noDash h.tail
    simp only [answer]
    rw [close_toks_of_dash hd, close_toks_of_noDash hnd]
    exact .same _
  · have hd' : ({ st with col := st.col + 1, prevOp := false } : St).lastTok ≠ some dashDash := hd
    unfold St.dashCheck
    rw [if_neg hd']
    dsimp only
    have hL := close_toks_of_noDash hd
    by_cases hc : st.com = true
    · simp only [hc, if_true, show ((';' : Char) = '\n') = False from by decide, if_false]
      rw [finish_of_pend_none o (by exact hp)]
      simp only [answer]
      rw [hL, close_toks_of_noDash (by exact hd)]
      exact .same _
    · simp only [hc, if_false, show ((';' : Char) = '\\') = False from by decide, show ((';' : Char) = '\'') = False from by decide,
        false_and, Bool.false_eq_true]
      cases hcur : st.cur with
      | some sstr =>
        simp only []
        rw [finish_of_pend_none o (by exact hp)]
        simp only [answer]
        rw [hL, close_toks_of_noDash (by exact hd)]
        exact .same _
      | none =>
        simp only []
        unfold classify
        dsimp only
        rw [hi]
        simp only [show (asciiInfo ';').alpha = false from by decide, show (asciiInfo ';').numeric = false from by decide,
          Bool.false_eq_true, if_false, show ((';' : Char) = '(') = False from by decide,
          show ((';' : Char) = ')') = False from by decide, show ((';' : Char) = '[') = False from by decide,
          show ((';' : Char) = ']') = False from by decide, show ((';' : Char) = '{') = False from by decide,
          show ((';' : Char) = '}') = False from by decide, show ((';' : Char) = ',') = False from by decide, if_true]
        rw [finish_of_pend_none o (by simp [St.add, hp])]
        simp only [answer]
        rw [hL, close_toks_of_noDash (by simp [St.lastTok, St.add, dashDash])]
        simp only [St.add, List.reverse_cons, List.append_assoc, List.singleton_append]
        exact .semi _ _ _ _

/-- a step on `;` ends the pending word / number and runs the loop body -/
theorem step_semi (o : Oracles) (st : St) : step o st ';' = (flush o st).bind (fun st' => .run (body o st' ';')) := by
  have hi : o.info ';' = asciiInfo ';' := info_of_ascii o _ (by decide)
  unfold step
  split
  · rename_i hp; unfold flush; rw [hp]; rfl
  · rw [hi]; simp only [show (asciiInfo ';').alnum = false from by decide, show ((';' : Char) = '_') = False from by decide]
    simp
  · rw [hi]; simp only [show (asciiInfo ';').numeric = false from by decide, show ((';' : Char) = '.') = False from by decide]
    simp

/-- **appending `;` to a text**: the tokenizer's answer is unchanged (the `;` fell into a comment / an open string, or
the text has a lexical error), or it is the same tokens with one `;` in front of `End` -/
theorem tokenize_append_semi (o : Oracles) (q : List Char) : SemiAppended (tokenize o q) (tokenize o (q ++ [';'])) := by
  rw [tokenize_eq, tokenize_eq, run_append]
  cases hr : run o {} q with
  | fail l e => exact .same _
  | missing w => exact .same _
  | run st =>
    have hinv := run_inv o q dashInv_init hr
    simp only [R.bind_run, run_cons, run_nil]
    rw [step_semi, R.bind_assoc, R.bind_assoc]
    unfold finish
    cases hf : flush o st with
    | fail l e => exact .same _
    | missing w => exact .same _
    | run st' =>
      obtain ⟨hi', hp'⟩ := flush_inv o hinv hf
      simp only [R.bind_run]
      exact semi_body o hi' hp'

/-! ### a blank appended to a text changes nothing -/

theorem space_body (o : Oracles) {st : St} (h : DashInv st) (hp : st.pend = .none) :
    (body o st ' ').close.toks = st.close.toks ∧ (body o st ' ').pend = .none := by
  have hi : o.info ' ' = asciiInfo ' ' := info_of_ascii o _ (by decide)
  unfold body
  dsimp only
  rw [advance_not_nl st (by decide)]
  by_cases hd : st.lastTok = some dashDash
  · have hd' : ({ st with col := st.col + 1, prevOp := false } : St).lastTok = some dashDash := hd
    unfold St.dashCheck
    rw [if_pos hd']
    simp only [if_true, show ((' ' : Char) = '\n') = False from by decide, if_false]
    have hnd : ({ st with col := st.col + 1, prevOp := false, com := true, toks := st.toks.tail } : St).lastTok ≠ some dashDash :=
      lastTok_ne_of_noDash h.tail
    rw [close_toks_of_dash hd, close_toks_of_noDash hnd]
    exact ⟨rfl, hp⟩
  · have hd' : ({ st with col := st.col + 1, prevOp := false } : St).lastTok ≠ some dashDash := hd
    unfold St.dashCheck
    rw [if_neg hd']
    dsimp only
    have hL := close_toks_of_noDash hd
    by_cases hc : st.com = true
    · simp only [hc, if_true, show ((' ' : Char) = '\n') = False from by decide, if_false]
      rw [hL, close_toks_of_noDash (by exact hd)]
      exact ⟨rfl, hp⟩
    · simp only [hc, if_false, show ((' ' : Char) = '\\') = False from by decide, show ((' ' : Char) = '\'') = False from by decide,
        false_and, Bool.false_eq_true]
      cases hcur : st.cur with
      | some sstr =>
        simp only []
        rw [hL, close_toks_of_noDash (by exact hd)]
        exact ⟨rfl, hp⟩
      | none =>
        simp only []
        unfold classify
        dsimp only
        rw [hi]
        simp only [show (asciiInfo ' ').alpha = false from by decide, show (asciiInfo ' ').numeric = false from by decide,
          show (asciiInfo ' ').white = true from by decide,
          Bool.false_eq_true, if_false, show ((' ' : Char) = '(') = False from by decide,
          show ((' ' : Char) = ')') = False from by decide, show ((' ' : Char) = '[') = False from by decide,
          show ((' ' : Char) = ']') = False from by decide, show ((' ' : Char) = '{') = False from by decide,
          show ((' ' : Char) = '}') = False from by decide, show ((' ' : Char) = ',') = False from by decide,
          show ((' ' : Char) = ';') = False from by decide, show ((' ' : Char) = ':') = False from by decide, if_true]
        rw [hL, close_toks_of_noDash (by exact hd)]
        exact ⟨rfl, hp⟩

theorem step_space (o : Oracles) (st : St) : step o st ' ' = (flush o st).bind (fun st' => .run (body o st' ' ')) := by
  have hi : o.info ' ' = asciiInfo ' ' := info_of_ascii o _ (by decide)
  unfold step
  split
  · rename_i hp; unfold flush; rw [hp]; rfl
  · rw [hi]; simp only [show (asciiInfo ' ').alnum = false from by decide, show ((' ' : Char) = '_') = False from by decide]
    simp
  · rw [hi]; simp only [show (asciiInfo ' ').numeric = false from by decide, show ((' ' : Char) = '.') = False from by decide]
    simp

/-- **a blank appended to a text changes nothing**: the same tokens at the same locations, or the same error -/
theorem tokenize_append_space (o : Oracles) (q : List Char) : tokenize o (q ++ [' ']) = tokenize o q := by
  rw [tokenize_eq, tokenize_eq, run_append]
  cases hr : run o {} q with
  | fail l e => rfl
  | missing w => rfl
  | run st =>
    have hinv := run_inv o q dashInv_init hr
    simp only [R.bind_run, run_cons, run_nil]
    rw [step_space, R.bind_assoc, R.bind_assoc]
    unfold finish
    cases hf : flush o st with
    | fail l e => rfl
    | missing w => rfl
    | run st' =>
      obtain ⟨hi', hp'⟩ := flush_inv o hinv hf
      obtain ⟨h1, h2⟩ := space_body o hi' hp'
      simp only [R.bind_run]
      unfold flush
      rw [h2]
      simp only [R.bind_run, answer, h1]

/-- `q ++ " ;"` -/
theorem tokenize_append_space_semi (o : Oracles) (q : List Char) :
    SemiAppended (tokenize o q) (tokenize o (q ++ [' ', ';'])) := by
  have := tokenize_append_semi o (q ++ [' '])
  rw [tokenize_append_space, List.append_assoc] at this
  exact this

/-! ### `End` is only ever the last token of the tokenizer's answer -/

/-- no token of the state is `End` -/
def NoEof (st : St) : Prop := ∀ t ∈ st.toks, t.tok ≠ .eof

theorem noEof_of_toks {st st' : St} (h : NoEof st) (ht : st'.toks = st.toks) : NoEof st' := by
  intro t hx; rw [ht] at hx; exact h t hx

theorem add_noEof {st : St} (h : NoEof st) {t : Tok} (ht : t ≠ .eof) : NoEof (st.add t) := by
  intro x hx
  simp only [St.add, List.mem_cons] at hx
  rcases hx with rfl | hx
  · exact ht
  · exact h x hx

theorem setLast_noEof {st : St} (h : NoEof st) {t : Tok} (ht : t ≠ .eof) : NoEof (st.setLast t) := by
  unfold St.setLast
  split
  · exact h
  · rename_i p rest hp
    intro x hx
    simp only [List.mem_cons] at hx
    rcases hx with rfl | hx
    · exact ht
    · exact h x (by rw [hp]; simp [hx])

theorem noEof_ite {c : Prop} [Decidable c] {a b : St} (ha : NoEof a) (hb : NoEof b) : NoEof (if c then a else b) := by
  split <;> assumption

theorem operator_noEof {st : St} (h : NoEof st) (adj : Bool) (c : Char) : NoEof (operator st adj c) := by
  have hadd : NoEof (addOp st c) := noEof_of_toks (add_noEof h (t := .op (.single c)) (by simp)) rfl
  unfold operator
  repeat' split
  all_goals first | exact hadd | exact setLast_noEof h (by simp)

theorem classify_noEof (o : Oracles) {st : St} (h : NoEof st) (adj : Bool) (c : Char) : NoEof (classify o st adj c) := by
  unfold classify
  dsimp only
  repeat' with_reducible apply noEof_ite
  all_goals first
    | exact add_noEof h (by simp)
    | exact operator_noEof h adj c
    | exact h
    | exact noEof_of_toks h rfl
    | (split <;> first | exact setLast_noEof h (by simp) | exact add_noEof h (by simp))

theorem body_noEof (o : Oracles) {st : St} (h : NoEof st) (c : Char) : NoEof (body o st c) := by
  have h1 : NoEof (st.advance c).dashCheck := by
    have ha : NoEof (st.advance c) := by unfold St.advance; split <;> exact noEof_of_toks h rfl
    unfold St.dashCheck
    split
    · intro t ht; exact ha t (List.mem_of_mem_tail ht)
    · exact ha
  unfold body
  dsimp only
  generalize (st.advance c).dashCheck = s1 at h1 ⊢
  split
  · split
    · exact noEof_of_toks h1 rfl
    · exact h1
  · split
    · exact noEof_of_toks h1 rfl
    · split
      · unfold quote
        split
        · exact add_noEof (noEof_of_toks h1 rfl) (by simp)
        · exact noEof_of_toks h1 rfl
      · split
        · exact noEof_of_toks h1 rfl
        · exact classify_noEof o (st := { s1 with esc := false }) (noEof_of_toks h1 rfl) _ c

theorem flush_noEof (o : Oracles) {st st' : St} (h : NoEof st) (hf : flush o st = .run st') : NoEof st' := by
  unfold flush at hf
  split at hf
  · simp only [R.run.injEq] at hf; subst hf; exact h
  · simp only [R.run.injEq] at hf; subst hf
    have h0 : NoEof ({ st with pend := .none } : St) := noEof_of_toks h rfl
    generalize ({ st with pend := .none } : St) = s0 at h0
    unfold flushIdent
    dsimp only
    repeat' split
    all_goals first
      | exact add_noEof h0 (by simp)
      | (unfold addKeyword; split <;> first | exact setLast_noEof h0 (by simp) | exact add_noEof h0 (by simp))
  · have h0 : NoEof ({ st with pend := .none } : St) := noEof_of_toks h rfl
    generalize ({ st with pend := .none } : St) = s0 at h0 hf
    unfold flushNumber at hf
    repeat' split at hf
    all_goals first
      | (simp only [R.run.injEq] at hf; subst hf; exact add_noEof h0 (by simp))
      | cases hf

theorem step_noEof (o : Oracles) {st st' : St} (h : NoEof st) (c : Char) (hs : step o st c = .run st') : NoEof st' := by
  have fl : (flush o st).bind (fun st => .run (body o st c)) = .run st' → NoEof st' := by
    intro hs
    cases hf : flush o st with
    | run s1 =>
      rw [hf] at hs
      simp only [R.bind_run, R.run.injEq] at hs
      rw [← hs]; exact body_noEof o (flush_noEof o h hf) c
    | fail l e => rw [hf] at hs; cases hs
    | missing w => rw [hf] at hs; cases hs
  unfold step at hs
  split at hs
  · simp only [R.run.injEq] at hs
    rw [← hs]; exact body_noEof o h c
  · split at hs
    · simp only [R.run.injEq] at hs
      rw [← hs]; exact noEof_of_toks h rfl
    · exact fl hs
  · split at hs
    · simp only [R.run.injEq] at hs
      rw [← hs]; exact noEof_of_toks h rfl
    · split at hs
      · split at hs
        · cases hs
        · simp only [R.run.injEq] at hs
          rw [← hs]; exact noEof_of_toks h rfl
      · exact fl hs

theorem run_noEof (o : Oracles) (text : List Char) : ∀ {st st' : St}, NoEof st → run o st text = .run st' → NoEof st' := by
  induction text with
  | nil => intro st st' h hr; simp only [run_nil, R.run.injEq] at hr; rw [← hr]; exact h
  | cons c cs ih =>
    intro st st' h hr
    rw [run_cons] at hr
    cases hs : step o st c with
    | run s1 => rw [hs] at hr; exact ih (step_noEof o h c hs) hr
    | fail l e => rw [hs] at hr; cases hr
    | missing w => rw [hs] at hr; cases hr

/-- **`End` is the last token and only the last**: the answer of the tokenizer is `init ++ [End]` with no `End` in
`init` -/
theorem tokenize_init_noEof (o : Oracles) (text : List Char) (init : List PTok) (last : PTok)
    (h : tokenize o text = .ok (init ++ [last])) : last.tok = .eof ∧ ∀ t ∈ init, t.tok ≠ .eof := by
  rw [tokenize_eq] at h
  cases hr : run o {} text with
  | fail l e => rw [hr] at h; cases h
  | missing w => rw [hr] at h; cases h
  | run st =>
    rw [hr] at h
    simp only [R.bind_run] at h
    unfold finish at h
    cases hf : flush o st with
    | fail l e => rw [hf] at h; cases h
    | missing w => rw [hf] at h; cases h
    | run st' =>
      rw [hf] at h
      simp only [R.bind_run, answer, Result.ok.injEq] at h
      have hn : NoEof st' := flush_noEof o (run_noEof o text (by intro t ht; cases ht) hr) hf
      have hc : ∃ rest, st'.close.toks = ⟨⟨st'.line, st'.start⟩, .eof⟩ :: rest ∧ ∀ t ∈ rest, t.tok ≠ .eof := by
        by_cases hd : st'.lastTok = some dashDash
        · exact ⟨_, close_toks_of_dash hd, fun t ht => hn t (List.mem_of_mem_tail ht)⟩
        · exact ⟨_, close_toks_of_noDash hd, hn⟩
      obtain ⟨rest, hrest, hne⟩ := hc
      rw [hrest, List.reverse_cons] at h
      have := List.append_inj' h rfl
      obtain ⟨h1, h2⟩ := this
      simp only [List.cons.injEq, and_true] at h2
      refine ⟨by rw [← h2], ?_⟩
      intro t ht
      rw [← h1] at ht
      exact hne t (List.mem_reverse.mp ht)

end Sqlgrep.Lex
