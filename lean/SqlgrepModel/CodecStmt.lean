import SqlgrepModel.CodecExpr
import SqlgrepModel.Model.Exec
/- Wire codec for statements, tables, input lines. -/
namespace Sqlgrep
open Sexp

def optExpr : Sexp → Option (Option Expr)
  | .list [.atom "none"] => some none
  | s => (Expr.ofSexp s).map some

def optNat : Sexp → Option (Option Nat)
  | .list [.atom "none"] => some none
  | s => s.nat?.map some

def flag (s : Sexp) : Bool := match s with
  | .atom "1" => true
  | _ => false

def AggKind.ofSexp : Sexp → Option AggKind
  | .list [.atom "gkey", e, c] => do pure (.groupKey (← Expr.ofSexp e) (← str? c))
  | .list [.atom "count", .list [.atom "none"], d] => some (.count none (flag d))
  | .list [.atom "count", c, d] => do pure (.count (some (← str? c)) (flag d))
  | .list [.atom "min", e] => (Expr.ofSexp e).map .min
  | .list [.atom "max", e] => (Expr.ofSexp e).map .max
  | .list [.atom "sum", e] => (Expr.ofSexp e).map .sum
  | .list [.atom "avg", e] => (Expr.ofSexp e).map .avg
  | .list [.atom "stddev", e, v] => (Expr.ofSexp e).map (.stddev · (flag v))
  | .list [.atom "percentile", e, p] => do pure (.percentile (← Expr.ofSexp e) (← p.nat?))
  | .list [.atom "booland", e] => (Expr.ofSexp e).map .boolAnd
  | .list [.atom "boolor", e] => (Expr.ofSexp e).map .boolOr
  | .list [.atom "arrayagg", e] => (Expr.ofSexp e).map .arrayAgg
  | .list [.atom "stringagg", e, d] => do pure (.stringAgg (← Expr.ofSexp e) (← d.bytes?))
  | _ => none

def Stmt.ofSexp : Sexp → Option Stmt
  | .list [.atom "select", .list (.atom "projs" :: ps), w, f, l, d] => do
    let projs ← ps.mapM (fun (p : Sexp) => match p with
      | .list [n, e] => do pure (← str? n, ← Expr.ofSexp e)
      | _ => none)
    pure (.select { projections := projs, wildcard := flag w, filter := ← optExpr f, limit := ← optNat l, distinct := flag d })
  | .list [.atom "agg", .list (.atom "items" :: is), f, g, h, .list (.atom "haggs" :: has), .list (.atom "hkeys" :: hks), .list (.atom "hvisit" :: hvs), l, d] => do
    let items ← is.mapM (fun (p : Sexp) => match p with
      | .list [n, k, t] => do pure ({ name := ← str? n, kind := ← AggKind.ofSexp k, transform := ← optExpr t } : AggItem)
      | _ => none)
    let groupBy ← (match g with
      | .list [.atom "none"] => some none
      | .list (.atom "groupby" :: parts) => (parts.mapM (fun (p : Sexp) => match p with
          | .list [e, c] => do pure (← Expr.ofSexp e, ← str? c)
          | _ => none)).map some
      | _ => none : Option (Option (List (Expr × String))))
    let haggs ← has.mapM (fun (p : Sexp) => match p with
      | .list [i, k] => do pure (← i.nat?, ← AggKind.ofSexp k)
      | _ => none)
    let hkeys ← hks.mapM str?
    let hvisit ← hvs.mapM (fun (p : Sexp) => match p with
      | .list [.atom "key", c] => (str? c).map HavingRef.key
      | .list [.atom "agg", i, k] => do pure (HavingRef.agg (← i.nat?) (← AggKind.ofSexp k))
      | _ => none)
    pure (.aggregate { items := items, filter := ← optExpr f, groupBy := groupBy, having := ← optExpr h,
                       havingAggs := haggs, havingKeys := hkeys, havingVisit := hvisit, limit := ← optNat l, distinct := flag d })
  | _ => none

def TableInfo.ofSexp : Sexp → Option TableInfo
  | .list (.atom "table" :: n :: cols) => do pure { name := ← str? n, columns := ← cols.mapM str? }
  | _ => none

def Query.ofSexp : Sexp → Option Query
  | .list [.atom "query", s, t, j] => do
    let join ← (match j with
      | .list [.atom "nojoin"] => some none
      | .list [.atom "join", jt, a, b, o] => do
        pure (some { joined := ← TableInfo.ofSexp jt, joinerColumn := ← str? a, joinedColumn := ← str? b, isOuter := flag o })
      | _ => none : Option (Option JoinInfo))
    pure { stmt := ← Stmt.ofSexp s, table := ← TableInfo.ofSexp t, join := join }
  | _ => none

def FileLine.ofSexp : Sexp → Option FileLine
  | .list [.atom "bad"] => some { readable := false, line := { text := [], row := [] } }
  | .list (.atom "l" :: t :: vs) => do pure { readable := true, line := { text := ← t.bytes?, row := ← Value.ofSexps vs } }
  | _ => none

def fileOfSexp : Sexp → Option (List FileLine)
  | .list (.atom "file" :: ls) => ls.mapM FileLine.ofSexp
  | _ => none

def rowOutToWire (r : RowOut) : String :=
  "(" ++ " ".intercalate (r.columns.map (fun c => Sexp.showBytes (strBytes c))) ++ ")" ++
    String.join (r.rows.map (fun row => "(" ++ " ".intercalate (row.map Value.toWireCanon) ++ ")"))

end Sqlgrep
