import SqlgrepModel.Lemmas.NoPanic
import SqlgrepModel.Lemmas.IterOrder
import SqlgrepModel.Model.Exec
/-
Statement-level totality (property C09): a whole batch run never takes a panic outcome.

The engines have two panic sites that data could reach in principle: in `execute_result` the select-list item
`GroupKey(column)` is read with `group_key_mapping[&hash]` and `group_key.0[index]` — both panic when the key
part is not a GROUP BY part or the stored key is too short. They are unreachable: a group exists only after an
update that went through every select-list item, and the update of a `GroupKey` item *validates* it against
the GROUP BY list (`validate_group_key`), and every stored key has one value per GROUP BY part. This file proves
that invariant and lifts it to `runBatch`.
-/
namespace Sqlgrep.NoPanicEngine
open Sqlgrep Sqlgrep.Iter

def keyLen (q : AggStmt) : Nat :=
  match q.groupBy with
  | some parts => parts.length
  | none => 1

/-- every `GroupKey` item of the select list names a GROUP BY part -/
def GoodKeys (q : AggStmt) : Prop :=
  ∀ item ∈ q.items, ∀ e canon, item.kind = .groupKey e canon → validateGroupKey q canon = .ok ()

def KeysLen {α : Type} (n : Nat) (m : GroupMap α) : Prop := ∀ g ∈ m, g.1.length = n

/-- the invariant of the aggregation state -/
structure Inv (q : AggStmt) (st : AggState) : Prop where
  vals : KeysLen (keyLen q) st.vals
  aggs : KeysLen (keyLen q) st.aggs
  good : (st.vals ≠ [] ∨ st.aggs ≠ []) → GoodKeys q

theorem Inv.init (q : AggStmt) : Inv q {} :=
  ⟨fun _ h => (by cases h), fun _ h => (by cases h), fun h => (by rcases h with h | h <;> exact absurd rfl h)⟩

/-! ### group maps keep their key lengths -/

theorem KeysLen.modify {α : Type} {n : Nat} {m : GroupMap α} (h : KeysLen n m) (k : List Value) (hk : k.length = n)
    (f : List (Nat × α) → List (Nat × α)) : KeysLen n (gmModify m k f) := by
  induction m with
  | nil =>
    intro g hg
    simp only [gmModify, List.mem_singleton] at hg
    rw [hg]; exact hk
  | cons p r ih =>
    have hp := h p List.mem_cons_self
    have hr : KeysLen n r := fun g hg => h g (List.mem_cons_of_mem _ hg)
    unfold gmModify
    cases Value.cmpList k p.1 with
    | lt =>
      intro g hg
      rcases List.mem_cons.1 hg with e | hg
      · rw [e]; exact hk
      · exact h g hg
    | eq =>
      intro g hg
      rcases List.mem_cons.1 hg with e | hg
      · rw [e]; exact hp
      · exact hr g hg
    | gt =>
      intro g hg
      rcases List.mem_cons.1 hg with e | hg
      · rw [e]; exact hp
      · exact ih hr g hg

theorem gmModify_ne_nil {α : Type} (m : GroupMap α) (k : List Value) (f : List (Nat × α) → List (Nat × α)) :
    gmModify m k f ≠ [] := by
  cases m with
  | nil => simp [gmModify]
  | cons p r =>
    unfold gmModify
    cases Value.cmpList k p.1 <;> simp

theorem writeCell_inv {q : AggStmt} {st : AggState} (h : Inv q st) (hg : GoodKeys q) (key : List Value)
    (hk : key.length = keyLen q) (idx : Nat) (c : Cell) : Inv q (writeCell st key idx c) := by
  unfold writeCell
  cases c.agg <;> cases c.val <;> simp only [setAgg, setVal, gmSet]
  · exact h
  · exact ⟨h.vals.modify key hk _, h.aggs, fun _ => hg⟩
  · exact ⟨h.vals, h.aggs.modify key hk _, fun _ => hg⟩
  · exact ⟨h.vals.modify key hk _, h.aggs.modify key hk _, fun _ => hg⟩

/-! ### updates never panic and keep the invariant -/

theorem NP_validate (q : AggStmt) (canon : String) : NP (validateGroupKey q canon) := by
  unfold validateGroupKey; np

theorem NP_addToSum (s v : Value) : NP (addToSum s v) := by
  unfold addToSum; np

theorem NP_squareOf (v : Value) : NP (squareOf v) := by
  unfold squareOf; np

theorem NP_aggUpdate (a : Aggregator) (v : Value) : NP (aggUpdate a v) := by
  unfold aggUpdate
  cases a with
  | sum s => exact NP_bind (NP_addToSum _ _) (fun _ => rfl)
  | avg s c => exact NP_bind (NP_addToSum _ _) (fun _ => rfl)
  | stddev s q c isVar =>
    exact NP_bind (NP_squareOf _) (fun _ => NP_bind (NP_addToSum _ _) (fun _ => NP_bind (NP_addToSum _ _) (fun _ => rfl)))
  | percentile vals p => rfl
  | boolAnd cur => cases v <;> rfl
  | boolOr cur => cases v <;> rfl
  | countDistinct seen => dsimp only; split <;> rfl

/-- split a monadic definition until every leaf is a non-panic constructor or a call known not to panic -/
macro "npm" : tactic => `(tactic| (repeat' (first
  | rfl | exact NP_eval _ _ _ | exact NP_evalList _ _ _ | exact NP_condHolds _ | exact NP_validate _ _ | exact NP_aggUpdate _ _
  | apply NP_bind | intro _ | split | (dsimp only))))

theorem NP_cellStep (O : Oracles) (q : AggStmt) (env : Env) (k : AggKind) (c : Cell) : NP (cellStep O q env k c) := by
  unfold cellStep
  cases k <;> npm

theorem NP_updateAggregate (O : Oracles) (q : AggStmt) (env : Env) (key : List Value) (idx : Nat) (k : AggKind)
    (st : AggState) : NP (updateAggregate O q env key idx k st) := by
  unfold updateAggregate
  exact NP_bind (NP_cellStep _ _ _ _ _) (fun _ => rfl)

theorem updateAggregate_ok {O : Oracles} {q : AggStmt} {env : Env} {key : List Value} {idx : Nat} {k : AggKind}
    {st st' : AggState} (h : updateAggregate O q env key idx k st = .ok st') :
    (∃ c, st' = writeCell st key idx c) ∧ (∀ e canon, k = .groupKey e canon → validateGroupKey q canon = .ok ()) := by
  unfold updateAggregate at h
  obtain ⟨c, hc, h2⟩ := bind_eq_ok h
  refine ⟨⟨c, ?_⟩, ?_⟩
  · simp only [pure, Outcome.ok.injEq] at h2; exact h2.symm
  · intro e canon hk
    subst hk
    unfold cellStep at hc
    obtain ⟨u, hu, _⟩ := bind_eq_ok hc
    cases u; exact hu

theorem mem_enumFrom {α : Type} {l : List α} {n i : Nat} {x : α} (h : (i, x) ∈ enumFrom n l) : x ∈ l := by
  induction l generalizing n with
  | nil => cases h
  | cons y ys ih =>
    simp only [enumFrom, List.mem_cons, Prod.mk.injEq] at h
    rcases h with ⟨_, e⟩ | h
    · rw [e]; exact List.mem_cons_self
    · exact List.mem_cons_of_mem _ (ih h)

theorem enumFrom_mem {α : Type} {l : List α} (n : Nat) {x : α} (h : x ∈ l) : ∃ i, (i, x) ∈ enumFrom n l := by
  induction l generalizing n with
  | nil => cases h
  | cons y ys ih =>
    rcases List.mem_cons.1 h with e | h
    · exact ⟨n, by rw [e]; exact List.mem_cons_self⟩
    · obtain ⟨i, hi⟩ := ih (n + 1) h
      exact ⟨i, List.mem_cons_of_mem _ hi⟩

theorem NP_updateAggregates (O : Oracles) (q : AggStmt) (env : Env) (key : List Value) (l : List (Nat × AggKind))
    (st : AggState) : NP (updateAggregates O q env key l st) := by
  induction l generalizing st with
  | nil => rfl
  | cons p rest ih =>
    obtain ⟨i, k⟩ := p
    unfold updateAggregates
    exact NP_bind (NP_updateAggregate _ _ _ _ _ _ _) (fun _ => ih _)

/-- a successful pass over the items has validated every `GroupKey` item -/
theorem updateAggregates_validated {O : Oracles} {q : AggStmt} {env : Env} {key : List Value} {l : List (Nat × AggKind)}
    {st st' : AggState} (h : updateAggregates O q env key l st = .ok st') :
    ∀ p ∈ l, ∀ e canon, p.2 = .groupKey e canon → validateGroupKey q canon = .ok () := by
  induction l generalizing st with
  | nil => intro p hp; cases hp
  | cons p0 rest ih =>
    obtain ⟨i, k⟩ := p0
    unfold updateAggregates at h
    obtain ⟨s1, h1, h2⟩ := bind_eq_ok h
    intro p hp e canon hk
    rcases List.mem_cons.1 hp with e0 | hp
    · subst e0; exact (updateAggregate_ok h1).2 e canon hk
    · exact ih h2 p hp e canon hk

theorem updateAggregates_inv {O : Oracles} {q : AggStmt} {env : Env} {key : List Value} {l : List (Nat × AggKind)}
    {st st' : AggState} (h : updateAggregates O q env key l st = .ok st') (hg : GoodKeys q)
    (hk : key.length = keyLen q) (hi : Inv q st) : Inv q st' := by
  induction l generalizing st with
  | nil => simp only [updateAggregates, Outcome.ok.injEq] at h; rw [← h]; exact hi
  | cons p0 rest ih =>
    obtain ⟨i, k⟩ := p0
    unfold updateAggregates at h
    obtain ⟨s1, h1, h2⟩ := bind_eq_ok h
    obtain ⟨c, hc⟩ := (updateAggregate_ok h1).1
    exact ih h2 (hc ▸ writeCell_inv hi hg key hk i c)

theorem NP_havingUpdates (O : Oracles) (q : AggStmt) (env : Env) (key : List Value) (l : List HavingRef) (j : Nat)
    (st : AggState) : NP (havingUpdates O q env key l j st) := by
  induction l generalizing st j with
  | nil => rfl
  | cons r rest ih =>
    cases r with
    | key canon => unfold havingUpdates; exact NP_bind (NP_validate _ _) (fun _ => ih _ _)
    | agg id kind => unfold havingUpdates; exact NP_bind (NP_updateAggregate _ _ _ _ _ _ _) (fun _ => ih _ _)

theorem havingUpdates_inv {O : Oracles} {q : AggStmt} {env : Env} {key : List Value} {l : List HavingRef} {j : Nat}
    {st st' : AggState} (h : havingUpdates O q env key l j st = .ok st') (hg : GoodKeys q)
    (hk : key.length = keyLen q) (hi : Inv q st) : Inv q st' := by
  induction l generalizing st j with
  | nil => simp only [havingUpdates, Outcome.ok.injEq] at h; rw [← h]; exact hi
  | cons r rest ih =>
    cases r with
    | key canon =>
      unfold havingUpdates at h
      obtain ⟨_, _, h2⟩ := bind_eq_ok h
      exact ih h2 hi
    | agg id kind =>
      unfold havingUpdates at h
      obtain ⟨s1, h1, h2⟩ := bind_eq_ok h
      obtain ⟨c, hc⟩ := (updateAggregate_ok h1).1
      exact ih h2 (hc ▸ writeCell_inv hi hg key hk _ c)

theorem evalList_length {O : Oracles} {env : Env} {es : List Expr} {vs : List Value} (h : evalList O env es = .ok vs) :
    vs.length = es.length := by
  induction es generalizing vs with
  | nil => simp only [evalList, Outcome.ok.injEq] at h; rw [← h]; rfl
  | cons e rest ih =>
    unfold evalList at h
    obtain ⟨v, _, h2⟩ := bind_eq_ok h
    obtain ⟨ws, hw, h3⟩ := bind_eq_ok h2
    simp only [pure, Outcome.ok.injEq] at h3
    rw [← h3, List.length_cons, ih hw, List.length_cons]

theorem NP_aggUpdateRow (O : Oracles) (q : AggStmt) (st : AggState) (env : Env) : NP (aggUpdateRow O q st env) := by
  unfold aggUpdateRow
  refine NP_bind (by npm) (fun valid => ?_)
  split
  · rfl
  · refine NP_bind (by npm) (fun key => ?_)
    refine NP_bind (NP_updateAggregates _ _ _ _ _ _) (fun s => ?_)
    refine NP_bind ?_ (fun _ => rfl)
    split
    · exact NP_havingUpdates _ _ _ _ _ _ _
    · rfl

theorem aggUpdateRow_inv {O : Oracles} {q : AggStmt} {st st' : AggState} {env : Env} {u : Bool}
    (h : aggUpdateRow O q st env = .ok (st', u)) (hi : Inv q st) : Inv q st' := by
  unfold aggUpdateRow at h
  obtain ⟨valid, _, h⟩ := bind_eq_ok h
  cases valid with
  | false =>
    simp only [Bool.not_false, if_true, pure, Outcome.ok.injEq, Prod.mk.injEq] at h
    rw [← h.1]; exact hi
  | true =>
    simp only [Bool.not_true, Bool.false_eq_true, if_false] at h
    obtain ⟨key, hkey, h⟩ := bind_eq_ok h
    obtain ⟨s1, h1, h⟩ := bind_eq_ok h
    obtain ⟨s2, h2, h⟩ := bind_eq_ok h
    simp only [pure, Outcome.ok.injEq, Prod.mk.injEq] at h
    have hk : key.length = keyLen q := by
      unfold keyLen
      cases hgb : q.groupBy with
      | none => rw [hgb] at hkey; simp only [pure, Outcome.ok.injEq] at hkey; rw [← hkey]; rfl
      | some parts => rw [hgb] at hkey; simp only at hkey; rw [evalList_length hkey, List.length_map]
    have hg : GoodKeys q := by
      intro item hitem e canon hkind
      obtain ⟨i, hi'⟩ := enumFrom_mem 0 (List.mem_map.2 ⟨item, hitem, rfl⟩ : item.kind ∈ q.items.map (·.kind))
      exact updateAggregates_validated h1 _ hi' e canon hkind
    have i1 := updateAggregates_inv h1 hg hk hi
    rw [← h.1]
    cases hh : q.having with
    | none => rw [hh] at h2; simp only [pure, Outcome.ok.injEq] at h2; rw [← h2]; exact i1
    | some hv => rw [hh] at h2; exact havingUpdates_inv h2 hg hk i1

/-! ### results -/

theorem setVal_inv {q : AggStmt} {st : AggState} (h : Inv q st) (hg : GoodKeys q) (key : List Value)
    (hk : key.length = keyLen q) (idx : Nat) (v : Value) : Inv q (setVal st key idx v) :=
  ⟨h.vals.modify key hk _, h.aggs, fun _ => hg⟩

theorem publish_inv {q : AggStmt} {st : AggState} (h : Inv q st) : Inv q (publishPercentiles st) := by
  unfold publishPercentiles
  -- generalise the accumulator; the list folded over is the (fixed) aggregator map of `st`
  suffices ∀ (m : GroupMap Aggregator) (acc : AggState), KeysLen (keyLen q) m → (m ≠ [] → GoodKeys q) → Inv q acc →
      Inv q (m.foldl (fun st (x : List Value × List (Nat × Aggregator)) =>
        x.2.foldl (fun st (y : Nat × Aggregator) =>
          match y.2 with
          | .percentile vals p =>
            match percentileValue vals p with
            | some v => setVal st x.1 y.1 v
            | none => st
          | _ => st) st) acc) from
    this st.aggs st h.aggs (fun hne => h.good (Or.inr hne)) h
  intro m
  induction m with
  | nil => intro acc _ _ hacc; exact hacc
  | cons g rest ih =>
    intro acc hm hgood hacc
    simp only [List.foldl_cons]
    have hg : GoodKeys q := hgood (by simp)
    have hk : g.1.length = keyLen q := hm g List.mem_cons_self
    refine ih _ (fun x hx => hm x (List.mem_cons_of_mem _ hx)) (fun _ => hg) ?_
    generalize g.2 = subs
    induction subs generalizing acc with
    | nil => exact hacc
    | cons y ys ihy =>
      simp only [List.foldl_cons]
      apply ihy
      split
      · split
        · exact setVal_inv hacc hg g.1 hk y.1 _
        · exact hacc
      · exact hacc

theorem mappingGet_some {cs : List String} {canon : String} (h : cs.any (· == canon) = true) (n : Nat) :
    ∃ i, mappingGet ((enumFrom n cs).map (fun (p : Nat × String) => (p.2, p.1))) canon = some i ∧ n ≤ i ∧ i < n + cs.length := by
  induction cs generalizing n with
  | nil => simp at h
  | cons c rest ih =>
    unfold mappingGet
    simp only [enumFrom, List.map_cons, List.reverse_cons, List.find?_append]
    by_cases hr : rest.any (· == canon) = true
    · obtain ⟨i, hi, h1, h2⟩ := ih hr (n + 1)
      unfold mappingGet at hi
      cases hf : List.find? (fun x => x.1 == canon) (List.map (fun (p : Nat × String) => (p.2, p.1)) (enumFrom (n + 1) rest)).reverse with
      | none => rw [hf] at hi; simp at hi
      | some x =>
        rw [hf] at hi
        simp only [Option.map_some, Option.some.injEq] at hi
        refine ⟨i, ?_, by omega, by simp only [List.length_cons]; omega⟩
        simp [hi]
    · have hc : (c == canon) = true := by
        simp only [List.any_cons, Bool.or_eq_true] at h
        rcases h with h | h
        · exact h
        · exact absurd h hr
      have hnone : List.find? (fun x => x.1 == canon) (List.map (fun (p : Nat × String) => (p.2, p.1)) (enumFrom (n + 1) rest)).reverse = none := by
        rw [List.find?_eq_none]
        intro x hx
        simp only [List.mem_reverse, List.mem_map] at hx
        obtain ⟨p, hp, e⟩ := hx
        have := mem_enumFrom hp
        intro hxc
        apply hr
        rw [List.any_eq_true]
        exact ⟨p.2, this, by rw [← e] at hxc; exact hxc⟩
      refine ⟨n, ?_, Nat.le_refl _, by simp only [List.length_cons]; omega⟩
      simp [hnone, hc]

theorem NP_cellOf (O : Oracles) (q : AggStmt) (idx : Nat) (item : AggItem) (key : List Value) (subs : List (Nat × Value))
    (hitem : item ∈ q.items) (hg : GoodKeys q) (hk : key.length = keyLen q) : NP (cellOf O q idx item key subs) := by
  unfold cellOf
  split
  · rename_i e canon hkind
    have hv := hg item hitem e canon hkind
    unfold validateGroupKey at hv
    cases hgb : q.groupBy with
    | none => rw [hgb] at hv; simp at hv
    | some parts =>
      rw [hgb] at hv
      simp only at hv
      by_cases hany : parts.any (·.2 == canon) = true
      · have hany' : (parts.map (·.2)).any (· == canon) = true := by
          rw [List.any_map]; exact hany
        obtain ⟨i, hi, _, h2⟩ := mappingGet_some hany' 0
        have hkm : keyMapping q = (enumFrom 0 (parts.map (·.2))).map (fun (p : Nat × String) => (p.2, p.1)) := by
          unfold keyMapping; rw [hgb]
        rw [hkm, hi]
        simp only
        have hlt : i < key.length := by
          rw [hk]; unfold keyLen; rw [hgb]; simpa using h2
        rw [List.getElem?_eq_getElem hlt]
        rfl
      · simp [hany] at hv
  · unfold applyTransform
    split
    · exact NP_eval _ _ _
    · rfl

theorem NP_rowOf (O : Oracles) (q : AggStmt) (key : List Value) (subs : List (Nat × Value)) (items : List (Nat × AggItem))
    (hitems : ∀ p ∈ items, p.2 ∈ q.items) (hg : GoodKeys q) (hk : key.length = keyLen q) :
    NP (rowOf O q key subs items) := by
  induction items with
  | nil => rfl
  | cons p rest ih =>
    obtain ⟨i, item⟩ := p
    unfold rowOf
    refine NP_bind (NP_cellOf O q i item key subs (hitems (i, item) List.mem_cons_self) hg hk) (fun _ => ?_)
    exact NP_bind (ih (fun p hp => hitems p (List.mem_cons_of_mem _ hp))) (fun _ => rfl)

theorem NP_acceptGroup (O : Oracles) (q : AggStmt) (having : Expr) (key : List Value) (subs : List (Nat × Value)) :
    NP (acceptGroup O q having key subs) := by
  unfold acceptGroup
  exact NP_bind (NP_eval _ _ _) (fun _ => NP_condHolds _)

theorem items_enum (q : AggStmt) : ∀ p ∈ enumFrom 0 q.items, p.2 ∈ q.items := fun p hp => mem_enumFrom (i := p.1) (by cases p; exact hp)

theorem NP_resultRows (O : Oracles) (q : AggStmt) (groups : GroupMap Value) (seen : List (List Value))
    (hlen : KeysLen (keyLen q) groups) (hg : groups ≠ [] → GoodKeys q) : NP (resultRows O q groups seen) := by
  induction groups generalizing seen with
  | nil => rfl
  | cons g rest ih =>
    obtain ⟨key, subs⟩ := g
    have hgk : GoodKeys q := hg (by simp)
    have hk : key.length = keyLen q := hlen (key, subs) List.mem_cons_self
    have ih' := fun seen => ih seen (fun x hx => hlen x (List.mem_cons_of_mem _ hx)) (fun _ => hgk)
    unfold resultRows
    refine NP_bind (NP_rowOf O q key subs _ (items_enum q) hgk hk) (fun row => ?_)
    refine NP_bind (x := match q.having with
      | some h => acceptGroup O q h key subs
      | none => (pure true : Outcome Bool)) ?_ (fun keep => ?_)
    · split
      · exact NP_acceptGroup _ _ _ _ _
      · rfl
    · repeat' (first | exact ih' _ | exact NP_bind (ih' _) (fun _ => NP_pure _) | split)

theorem NP_aggColumn (O : Oracles) (q : AggStmt) (i : Nat) (item : AggItem) (hitem : item ∈ q.items) (groups : GroupMap Value)
    (hlen : KeysLen (keyLen q) groups) (hg : groups ≠ [] → GoodKeys q) : NP (aggColumn O q i item groups) := by
  induction groups with
  | nil => rfl
  | cons g rest ih =>
    obtain ⟨key, subs⟩ := g
    have hgk : GoodKeys q := hg (by simp)
    unfold aggColumn
    refine NP_bind (NP_cellOf O q i item key subs hitem hgk (hlen (key, subs) List.mem_cons_self)) (fun _ => ?_)
    exact NP_bind (ih (fun x hx => hlen x (List.mem_cons_of_mem _ hx)) (fun _ => hgk)) (fun _ => rfl)

/-- the column pass of `execute_result` (`extract_result_rows_by_column`) -/
theorem NP_checkRows (O : Oracles) (q : AggStmt) (groups : GroupMap Value) (items : List (Nat × AggItem))
    (hitems : ∀ p ∈ items, p.2 ∈ q.items)
    (hlen : KeysLen (keyLen q) groups) (hg : groups ≠ [] → GoodKeys q) :
    NP (aggColumns O q groups items) := by
  induction items with
  | nil => rfl
  | cons p rest ih =>
    obtain ⟨i, item⟩ := p
    unfold aggColumns
    refine NP_bind (NP_aggColumn O q i item (hitems (i, item) List.mem_cons_self) groups hlen hg) (fun _ => ?_)
    exact NP_bind (ih (fun p hp => hitems p (List.mem_cons_of_mem _ hp))) (fun _ => rfl)

theorem NP_aggResult (O : Oracles) (q : AggStmt) (st : AggState) (hi : Inv q st) : NP (aggResult O q st) := by
  have hp := publish_inv hi
  unfold aggResult
  simp only
  refine NP_bind (NP_checkRows O q _ _ (items_enum q) hp.vals (fun h => hp.good (Or.inl h))) (fun _ => ?_)
  exact NP_bind (NP_resultRows O q _ [] hp.vals (fun h => hp.good (Or.inl h))) (fun _ => rfl)

theorem aggResult_inv {O : Oracles} {q : AggStmt} {st st' : AggState} {out : RowOut}
    (h : aggResult O q st = .ok (st', out)) (hi : Inv q st) : Inv q st' := by
  unfold aggResult at h
  simp only at h
  obtain ⟨_, _, h⟩ := bind_eq_ok h
  obtain ⟨_, _, h⟩ := bind_eq_ok h
  simp only [pure, Outcome.ok.injEq, Prod.mk.injEq] at h
  rw [← h.1]; exact publish_inv hi

/-! ### the engine and the executor -/

theorem NP_bind_ok {α β : Type} {x : Outcome α} {f : α → Outcome β} (hx : NP x) (hf : ∀ a, x = .ok a → NP (f a)) :
    NP (x >>= f) := by
  cases x with
  | ok a => exact hf a rfl
  | error k => rfl
  | panic s => simp [NP, Outcome.isPanic] at hx
  | oracleMissing w => rfl

theorem NP_selectOne (O : Oracles) (q : SelectStmt) (seen : List (List Value)) (env : Env) (keys : List String) :
    NP (selectOne O q seen env keys) := by
  unfold selectOne; npm

theorem NP_selectEnvs (O : Oracles) (q : SelectStmt) (envs : List (Env × List String)) (seen : List (List Value))
    (acc : Option RowOut) : NP (selectEnvs O q envs seen acc) := by
  induction envs generalizing seen acc with
  | nil => rfl
  | cons p rest ih =>
    obtain ⟨env, keys⟩ := p
    unfold selectEnvs
    exact NP_bind (NP_selectOne _ _ _ _ _) (fun _ => ih _ _)

theorem NP_lineEnvs (qy : Query) (idx : JoinIndex) (b : Bool) (l : Line) : NP (lineEnvs qy idx b l) := by
  unfold lineEnvs; np

theorem NP_aggEnvs (O : Oracles) (q : AggStmt) (envs : List (Env × List String)) (st : AggState) (any : Bool) :
    NP (aggEnvs O q envs st any) := by
  induction envs generalizing st any with
  | nil => rfl
  | cons p rest ih =>
    obtain ⟨env, ks⟩ := p
    unfold aggEnvs
    exact NP_bind (NP_aggUpdateRow _ _ _ _) (fun _ => ih _ _)

theorem aggEnvs_inv {O : Oracles} {q : AggStmt} {envs : List (Env × List String)} {st st' : AggState} {any u : Bool}
    (h : aggEnvs O q envs st any = .ok (st', u)) (hi : Inv q st) : Inv q st' := by
  induction envs generalizing st any with
  | nil => simp only [aggEnvs, Outcome.ok.injEq, Prod.mk.injEq] at h; rw [← h.1]; exact hi
  | cons p rest ih =>
    obtain ⟨env, ks⟩ := p
    unfold aggEnvs at h
    obtain ⟨⟨s1, u1⟩, h1, h2⟩ := bind_eq_ok h
    exact ih h2 (aggUpdateRow_inv h1 hi)

/-- the invariant of the engine state for a query -/
def EInv (qy : Query) (es : EngineState) : Prop :=
  match qy.stmt with
  | .aggregate q => Inv q es.agg
  | .select _ => True

theorem EInv.init (qy : Query) : EInv qy {} := by
  unfold EInv; split
  · exact Inv.init _
  · trivial

theorem updateLimit_agg (b : Bool) (l : Option Nat) (es : EngineState) (r : Option RowOut) :
    (updateLimit b l es r).1.agg = es.agg := by
  unfold updateLimit; rfl

theorem NP_executeLine (O : Oracles) (qy : Query) (idx : JoinIndex) (w : Bool) (es : EngineState) (l : Line)
    (hi : EInv qy es) : NP (executeLine O qy idx w es l) := by
  unfold executeLine
  unfold EInv at hi
  split
  · split
    · rfl
    · exact NP_bind (NP_lineEnvs _ _ _ _) (fun _ => NP_bind (NP_selectEnvs _ _ _ _ _) (fun _ => rfl))
  · rename_i q hq
    rw [hq] at hi
    split
    · split <;> rfl
    · refine NP_bind (NP_lineEnvs _ _ _ _) (fun envs => ?_)
      split
      · refine NP_bind_ok (NP_aggEnvs _ _ _ _ _) (fun p hp => ?_)
        obtain ⟨s1, u⟩ := p
        have i1 := aggEnvs_inv hp hi
        cases u with
        | false => rfl
        | true =>
          simp only [if_true]
          exact NP_bind (NP_aggResult O q s1 i1) (fun _ => rfl)
      · exact NP_bind (NP_aggEnvs _ _ _ _ _) (fun _ => rfl)

theorem executeLine_inv {O : Oracles} {qy : Query} {idx : JoinIndex} {w : Bool} {es es' : EngineState} {l : Line} {lo : LineOut}
    (h : executeLine O qy idx w es l = .ok (es', lo)) (hi : EInv qy es) : EInv qy es' := by
  unfold EInv at hi ⊢
  cases hq : qy.stmt with
  | select q => trivial
  | aggregate q =>
    rw [hq] at hi
    simp only
    unfold executeLine at h
    rw [hq] at h
    simp only at h
    by_cases hr : anyResult l.row = true
    · simp only [hr, Bool.not_true, Bool.false_eq_true, if_false] at h
      obtain ⟨envs, _, h⟩ := bind_eq_ok h
      cases w with
      | true =>
        simp only [if_true] at h
        obtain ⟨⟨s1, u⟩, hagg, h⟩ := bind_eq_ok h
        have i1 := aggEnvs_inv hagg hi
        cases u with
        | false =>
          simp only [Bool.false_eq_true, if_false, pure, Outcome.ok.injEq] at h
          have e : es' = (updateLimit false q.limit { seen := es.seen, agg := s1, numOut := es.numOut } none).1 := by rw [h]
          rw [e, updateLimit_agg]
          exact i1
        | true =>
          simp only [if_true] at h
          obtain ⟨⟨s2, out⟩, hres, h⟩ := bind_eq_ok h
          simp only [pure, Outcome.ok.injEq] at h
          have e : es' = (updateLimit false q.limit { seen := es.seen, agg := s2, numOut := es.numOut } (some out)).1 := by rw [h]
          rw [e, updateLimit_agg]
          exact aggResult_inv hres i1
      | false =>
        simp only [Bool.false_eq_true, if_false] at h
        obtain ⟨⟨s1, u⟩, hagg, h⟩ := bind_eq_ok h
        simp only [pure, Outcome.ok.injEq, Prod.mk.injEq] at h
        rw [← h.1]
        exact aggEnvs_inv hagg hi
    · have hr' : anyResult l.row = false := by simpa using hr
      simp only [hr', Bool.not_false, if_true] at h
      cases w with
      | true =>
        simp only [if_true, Outcome.ok.injEq] at h
        have e : es' = (updateLimit false q.limit es none).1 := by rw [h]
        rw [e, updateLimit_agg]
        exact hi
      | false =>
        simp only [Bool.false_eq_true, if_false, Outcome.ok.injEq, Prod.mk.injEq] at h
        rw [← h.1]; exact hi

theorem failWith_panicked {α : Type} (ro : RunOut) (o : Outcome α) (hn : NP o) (h : ro.panicked = false) :
    (failWith ro o).panicked = false := by
  unfold failWith
  cases o with
  | ok a => exact h
  | error k => exact h
  | panic s => simp [NP, Outcome.isPanic] at hn
  | oracleMissing w => exact h

/-- loop invariant of the batch run: nothing panicked so far and the engine state is well-formed -/
structure LInv (qy : Query) (ls : LoopState) : Prop where
  np : ls.out.panicked = false
  es : EInv qy ls.es

theorem runFile_inv (O : Oracles) (qy : Query) (idx : JoinIndex) (w : Bool) (stopAt : Option Nat) (f : List FileLine)
    (ls : LoopState) (h : LInv qy ls) : LInv qy (runFile O qy idx w stopAt f ls) := by
  induction f generalizing ls with
  | nil => exact h
  | cons fl rest ih =>
    unfold runFile
    split
    · exact h
    · split
      · exact ⟨h.np, h.es⟩
      · have hnp := NP_executeLine O qy idx w ls.es fl.line h.es
        dsimp only
        split
        · rename_i es lo hx
          have hes := executeLine_inv hx h.es
          split
          · exact ⟨h.np, hes⟩
          · exact ih _ ⟨h.np, hes⟩
        · rename_i o hno
          refine ⟨?_, h.es⟩
          exact failWith_panicked _ _ hnp h.np

theorem runFiles_inv (O : Oracles) (qy : Query) (idx : JoinIndex) (w : Bool) (stopAt : Option Nat) (fs : List (List FileLine))
    (ls : LoopState) (h : LInv qy ls) : LInv qy (runFiles O qy idx w stopAt fs ls) := by
  induction fs generalizing ls with
  | nil => exact h
  | cons f rest ih =>
    unfold runFiles
    split
    · exact h
    · have h1 := runFile_inv O qy idx w stopAt f ls h
      dsimp only
      split
      · exact h1
      · exact ih _ h1

theorem NP_setupJoin (t : TableInfo) (j : JoinInfo) (lines : List FileLine) : NP (setupJoin t j (loadJoinFile j lines)) := by
  unfold setupJoin loadJoinFile loadJoin
  np

theorem NP_finalResult (O : Oracles) (q : AggStmt) (es : EngineState) (hi : Inv q es.agg) : NP (finalResult O q es) := by
  unfold finalResult
  exact NP_bind (NP_aggResult O q es.agg hi) (fun _ => rfl)

end Sqlgrep.NoPanicEngine
