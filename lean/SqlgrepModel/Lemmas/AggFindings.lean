import SqlgrepModel.Lemmas.AggFollowSim
/-
Concrete statements, rows and intermediate engine states for the negation witnesses of the findings D60 and D61
(`Props/C11.lean`).
-/
namespace Sqlgrep
open Value Spec.Agg

/-- `SELECT r, COUNT(v), PERCENTILE(w, p) FROM t GROUP BY r` -/
def d60Stmt (p : Nat) : AggStmt :=
  { items := [{ name := "r", kind := .groupKey (.column "r") "r", transform := none },
              { name := "count1", kind := .count (some "v") false, transform := none },
              { name := "percentile2", kind := .percentile (.column "w") p, transform := none }],
    filter := none, groupBy := some [(.column "r", "r")], having := none, havingAggs := [], havingKeys := [],
    havingVisit := [], limit := none, distinct := false }

def rowRVW (r : Nat) (v w : Value) : Env := { table := [("r", .real r), ("v", v), ("w", w)] }

theorem percentileValue_singleton (v : Value) (p : Nat) : percentileValue [v] p = some v := by
  simp [percentileValue, sortValues, insertSorted]

-- after the first row (r = 0.0, v NULL, w = 1): only the percentile aggregator exists, under key 0.0
def st1 (p : Nat) : AggState := { aggs := [([.real 0], [(2, .percentile [.int 1] p)])], vals := [] }
example (p : Nat) : aggUpdateRow {} (d60Stmt p) {} (rowRVW 0 .null (.int 1)) = .ok (st1 p, true) := rfl
-- batch: second row (r = -0.0, v = 1, w NULL): COUNT(v) creates the group_values entry under key -0.0
def st2b (p : Nat) : AggState := { aggs := [([.real 0], [(2, .percentile [.int 1] p)])], vals := [([.real (2^63)], [(1, .int 1)])] }
example (p : Nat) : aggUpdateRow {} (d60Stmt p) (st1 p) (rowRVW (2^63) (.int 1) .null) = .ok (st2b p, true) := rfl
theorem pub_b (p : Nat) : publishPercentiles (st2b p) = { aggs := (st2b p).aggs, vals := [([.real (2^63)], [(1, .int 1), (2, .int 1)])] } := by
  rw [publish_eq]
  simp [pubEntries, st2b, pubOf, percentileValue_singleton, applyPubs, setVal, gmSet, gmModify, Value.cmpList, Value.cmp, F64.cmp, F64.isNaN, F64.mag, F64.key, F64.signBit, alSet]
theorem pub_1 (p : Nat) : publishPercentiles (st1 p) = { aggs := (st1 p).aggs, vals := [([.real 0], [(2, .int 1)])] } := by
  rw [publish_eq]
  simp [pubEntries, st1, pubOf, percentileValue_singleton, applyPubs, setVal, gmSet, gmModify, alSet]
-- follow mode: the refresh after the first row has created the entry under key 0.0; the second row adds to it
def st2f (p : Nat) : AggState := { aggs := [([.real 0], [(2, .percentile [.int 1] p)])], vals := [([.real 0], [(2, .int 1), (1, .int 1)])] }
example (p : Nat) : aggUpdateRow {} (d60Stmt p) { aggs := (st1 p).aggs, vals := [([.real 0], [(2, .int 1)])] } (rowRVW (2^63) (.int 1) .null) =
    .ok (st2f p, true) := rfl
theorem pub_f (p : Nat) : publishPercentiles (st2f p) = st2f p := by
  rw [publish_eq]
  simp [pubEntries, st2f, pubOf, percentileValue_singleton, applyPubs, setVal, gmSet, gmModify, Value.cmpList, Value.cmp, F64.cmp, F64.isNaN, F64.mag, F64.key, F64.signBit, alSet]

def exCountQ : AggStmt :=
  { items := [{ name := "count0", kind := .count none false, transform := none }], filter := none, groupBy := none,
    having := none, havingAggs := [], havingKeys := [], havingVisit := [], limit := none, distinct := false }

/-- `SELECT COUNT(*) FROM a INNER JOIN b ON a.k = b.k` -/
def d61Query : Query :=
  { stmt := .aggregate exCountQ, table := { name := "a", columns := ["x", "k"] },
    join := some { joined := { name := "b", columns := ["y", "k"] }, joinerColumn := "k", joinedColumn := "k", isOuter := false } }
/-- the joined file has two rows with key 1 -/
def d61Index : JoinIndex := [(.int 1, [[.text [120], .int 1], [.text [121], .int 1]])]
def d61Line : Line := { text := [65], row := [.text [109], .int 1] }
/-- … as the lines of the joined file (`d61Index` is what the loader makes of them) -/
def d61Joined : List FileLine :=
  [{ readable := true, line := { text := [66], row := [.text [120], .int 1] } },
   { readable := true, line := { text := [66], row := [.text [121], .int 1] } }]

/-- `SELECT COUNT(*) FROM a WHERE k = 1` -/
def exWhereStmt : AggStmt :=
  { items := [{ name := "count0", kind := .count none false, transform := none }],
    filter := some (.compare .eq (.column "k") (.value (.int 1))), groupBy := none,
    having := none, havingAggs := [], havingKeys := [], havingVisit := [], limit := none, distinct := false }
def exWhereQuery : Query := { stmt := .aggregate exWhereStmt, table := { name := "a", columns := ["x", "k"] }, join := none }
/-- `k = 1`: admitted, WHERE admits it -/
def exLineShown : Line := { text := [65], row := [.text [109], .int 1] }
/-- `k = 2`: admitted, WHERE rejects it -/
def exLineRejected : Line := { text := [66], row := [.text [110], .int 2] }
/-- no column extracted: the line is not admitted -/
def exLineNotAdmitted : Line := { text := [67], row := [.null, .null] }

end Sqlgrep
