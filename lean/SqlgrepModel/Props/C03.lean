import SqlgrepModel.Model.Eval
import SqlgrepModel.Lemmas.Cond
import SqlgrepModel.Lemmas.NumericOrder
import SqlgrepModel.Lemmas.Utf8Order
import SqlgrepModel.Lemmas.ParseLitTs
/-
C03 (expression level) — the documented meaning of expressions, for ALL operands, environments and
oracle tables. The model is `Sqlgrep.eval` (Model/Eval.lean), mirroring
`ExpressionExecutionEngine::evaluate` of /repo HEAD. The SELECT-level theorems (one output row per
qualifying row, evaluated on that row alone; `*`, `input`, column names) live in Props/C03Select.lean (audited together with this file by ./check C03).
-/
namespace Sqlgrep.Props.C03
open Sqlgrep

variable (O : Oracles) (env : Env)

/-- comparisons are false when an operand is NULL -/
theorem cmp_null_false (op : CmpOp) (l r : Expr) (lv rv : Value)
    (hl : eval O env l = .ok lv) (hr : eval O env r = .ok rv) (hn : lv.isNull = true ∨ rv.isNull = true) :
    eval O env (.compare op l r) = .ok (.bool false) := by
  simp only [eval, hl, hr, bind, Outcome.bind, prepCompare, coerceTs]
  cases lv <;> cases rv <;> simp_all [Value.isNull, pure, Outcome.bind]

/-- `x IS NULL` / `x IS NOT NULL` test NULL -/
theorem is_null_test (isNot : Bool) (l : Expr) (lv : Value) (hl : eval O env l = .ok lv) :
    eval O env (.nullCmp isNot l (.value .null)) = .ok (.bool (if isNot then !lv.isNull else lv.isNull)) := by
  simp only [eval, hl, bind, Outcome.bind, pure]
  cases lv <;> cases isNot <;> simp [Value.beq, Value.isNull]

/-! ### AND / OR: conditions

An operand of AND / OR is a *condition*: a BOOLEAN or NULL. TRUE holds; FALSE and NULL do not hold (AND / OR are
two-valued: NULL counts as not true, and the result is never NULL). A value of any other type has no truth value: if
such an operand is evaluated, the operation is a type error (finding D69, repaired: it used to count as FALSE).
The right operand is evaluated exactly when the left one does not decide (`LeftDecides`). -/

/-- the value is a condition: BOOLEAN or NULL -/
def BoolOrNull (v : Value) : Prop := v = .null ∨ ∃ b, v = .bool b

/-- the value is of another type than BOOLEAN (and not NULL): it has no truth value -/
def NoTruthValue (v : Value) : Prop := v ≠ .null ∧ ∀ b, v ≠ .bool b

/-- the left operand alone fixes the result: a left operand of AND that is not TRUE (FALSE or NULL), a left operand of
OR that is TRUE -/
def LeftDecides (isAnd : Bool) (lv : Value) : Prop :=
  if isAnd then (lv = .bool false ∨ lv = .null) else lv = .bool true

theorem boolOrNull_or_noTruthValue (v : Value) : BoolOrNull v ∨ NoTruthValue v := by
  cases v <;> simp [BoolOrNull, NoTruthValue]

/-- AND / OR are two-valued: whenever they have a value it is TRUE or FALSE, never NULL -/
theorem bool_ops_two_valued (isAnd : Bool) (l r : Expr) (v : Value)
    (h : eval O env (.boolOp isAnd l r) = .ok v) : ∃ b, v = .bool b := by
  rw [eval_boolOp] at h
  cases hl : eval O env l <;> rw [hl] at h <;> simp only [Outcome.bind, reduceCtorEq] at h
  rename_i lv
  cases hc : condHolds lv <;> rw [hc] at h <;> simp only [reduceCtorEq] at h
  split at h
  · cases hr : eval O env r <;> rw [hr] at h <;> simp only [reduceCtorEq] at h
    rename_i rv
    cases hrc : condHolds rv <;> rw [hrc] at h <;> simp only [reduceCtorEq] at h
    exact ⟨_, (Outcome.ok.inj h).symm⟩
  · exact ⟨_, (Outcome.ok.inj h).symm⟩

/-- **AND** of two conditions (each BOOLEAN or NULL) is TRUE exactly when both operands are TRUE, and FALSE otherwise —
in particular `NULL AND x` is FALSE, not NULL -/
theorem and_meaning (l r : Expr) (lv rv : Value) (hl : eval O env l = .ok lv) (hr : eval O env r = .ok rv)
    (cl : BoolOrNull lv) (cr : BoolOrNull rv) :
    ∃ b, eval O env (.boolOp true l r) = .ok (.bool b) ∧ (b = true ↔ lv = .bool true ∧ rv = .bool true) := by
  rw [eval_boolOp, hl, hr]
  rcases cl with rfl | ⟨x, rfl⟩ <;> rcases cr with rfl | ⟨y, rfl⟩ <;> try cases x <;> try cases y
  all_goals simp [Outcome.bind]

/-- **OR** of two conditions is TRUE exactly when at least one operand is TRUE, and FALSE otherwise
(`NULL OR FALSE` is FALSE) -/
theorem or_meaning (l r : Expr) (lv rv : Value) (hl : eval O env l = .ok lv) (hr : eval O env r = .ok rv)
    (cl : BoolOrNull lv) (cr : BoolOrNull rv) :
    ∃ b, eval O env (.boolOp false l r) = .ok (.bool b) ∧ (b = true ↔ lv = .bool true ∨ rv = .bool true) := by
  rw [eval_boolOp, hl, hr]
  rcases cl with rfl | ⟨x, rfl⟩ <;> rcases cr with rfl | ⟨y, rfl⟩ <;> try cases x <;> try cases y
  all_goals simp [Outcome.bind]

/-- **a type mismatch in AND / OR is an error** (C03: "an expression that has no value … (type mismatch …) makes the
query report an error rather than emit a wrong value"), and the right operand is evaluated exactly when the left does
not decide. For a left operand with value `lv`:
1. `lv` of another type than BOOLEAN (not NULL): the operation is the type error, whatever the right operand is;
2. `lv` decides (`FALSE`/`NULL AND …`, `TRUE OR …`): the result is that of the left operand and does not depend on the
   right operand at all — not on its value, its type, or on whether it has a value;
3. `lv` is a condition that does not decide: the right operand IS evaluated — its error is the operation's error, and
   a right value of another type than BOOLEAN (not NULL) is the type error. -/
theorem bool_op_type_mismatch_is_error (isAnd : Bool) (l r : Expr) (lv : Value) (hl : eval O env l = .ok lv) :
    (NoTruthValue lv → eval O env (.boolOp isAnd l r) = .error .typeError) ∧
    (LeftDecides isAnd lv → eval O env (.boolOp isAnd l r) = .ok (.bool (!isAnd))) ∧
    (BoolOrNull lv → ¬ LeftDecides isAnd lv →
      (∀ rv, eval O env r = .ok rv → NoTruthValue rv → eval O env (.boolOp isAnd l r) = .error .typeError) ∧
      (∀ k, eval O env r = .error k → eval O env (.boolOp isAnd l r) = .error k)) := by
  rw [eval_boolOp, hl]
  refine ⟨fun hn => ?_, fun hd => ?_, fun hc hd => ⟨fun rv hr hn => ?_, fun k hr => ?_⟩⟩
  · simp [Outcome.bind, condHolds_typeError lv hn.1 hn.2]
  · cases isAnd
    · simp only [LeftDecides, Bool.false_eq_true, if_false] at hd; subst hd; simp [Outcome.bind]
    · simp only [LeftDecides, if_true] at hd; rcases hd with rfl | rfl <;> simp [Outcome.bind]
  · rw [hr]
    rcases hc with rfl | ⟨x, rfl⟩ <;> cases isAnd <;> try cases x
    all_goals simp_all [Outcome.bind, LeftDecides, condHolds_typeError rv hn.1 hn.2]
  · rw [hr]
    rcases hc with rfl | ⟨x, rfl⟩ <;> cases isAnd <;> try cases x
    all_goals simp_all [Outcome.bind, LeftDecides]

-- non-vacuity: `5 AND TRUE`, `'a' OR FALSE`, `TRUE AND 5` are errors; `FALSE AND 5`, `NULL AND 5`, `TRUE OR 'a'` are
-- decided by the left operand; `NULL OR 5` is an error (NULL does not decide OR)
example : eval {} {} (.boolOp true (.value (.int 5)) (.value (.bool true))) = .error .typeError := rfl
example : eval {} {} (.boolOp false (.value (.text [97])) (.value (.bool false))) = .error .typeError := rfl
example : eval {} {} (.boolOp true (.value (.bool true)) (.value (.int 5))) = .error .typeError := rfl
example : eval {} {} (.boolOp true (.value (.bool false)) (.value (.int 5))) = .ok (.bool false) := rfl
example : eval {} {} (.boolOp true (.value .null) (.value (.int 5))) = .ok (.bool false) := rfl
example : eval {} {} (.boolOp false (.value (.bool true)) (.value (.text [97]))) = .ok (.bool true) := rfl
example : eval {} {} (.boolOp false (.value .null) (.value (.int 5))) = .error .typeError := rfl
example : NoTruthValue (.int 5) ∧ BoolOrNull .null ∧ LeftDecides true .null ∧ ¬ LeftDecides false .null := by
  simp [NoTruthValue, BoolOrNull, LeftDecides]

/-- arithmetic with NULL gives NULL -/
theorem arith_null_left (op : ArithOp) (r : Value) : arith op .null r = .ok .null := by
  cases r <;> simp [arith]
theorem arith_null_right (op : ArithOp) (l : Value) : arith op l .null = .ok .null := by
  cases l <;> simp [arith]

/-- INT arithmetic is exact or an error: never a wrapped value, never a panic -/
theorem int_add_exact (x y : Int) :
    arith .add (.int x) (.int y) = if inI64 (x + y) then .ok (.int (x + y)) else .error .undefinedOperation := by
  by_cases h : inI64 (x + y) = true <;> simp [arith, checked, h]
theorem int_sub_exact (x y : Int) :
    arith .sub (.int x) (.int y) = if inI64 (x - y) then .ok (.int (x - y)) else .error .undefinedOperation := by
  by_cases h : inI64 (x - y) = true <;> simp [arith, checked, h]
theorem int_mul_exact (x y : Int) :
    arith .mul (.int x) (.int y) = if inI64 (x * y) then .ok (.int (x * y)) else .error .undefinedOperation := by
  by_cases h : inI64 (x * y) = true <;> simp [arith, checked, h]
theorem int_div_exact (x y : Int) :
    arith .div (.int x) (.int y) =
      if y = 0 then .error .undefinedOperation
      else if inI64 (Int.tdiv x y) then .ok (.int (Int.tdiv x y)) else .error .undefinedOperation := by
  simp only [arith, checked]
  by_cases hy : y = 0
  · simp [hy]
  · by_cases h : inI64 (Int.tdiv x y) = true <;> simp [hy, h]

/-! ### IN / NOT IN mean the OR of `=` / the AND of `!=`, *as the evaluator evaluates `=`*

`orOfEq e [m1, …, mn]` is the expression `e = m1 OR (… OR (e = mn OR FALSE))`, built from the evaluator's own
`Compare` node (timestamp text is parsed, a member of another type is a type error, a NULL operand makes `=` false) and
its short-circuiting `OR`. `x IN (…)` IS that expression — values and errors alike, for arbitrary member expressions. -/

def orOfEq (e : Expr) : List Expr → Expr
  | [] => .value (.bool false)
  | m :: ms => .boolOp false (.compare .eq e m) (orOfEq e ms)

def andOfNe (e : Expr) : List Expr → Expr
  | [] => .value (.bool true)
  | m :: ms => .boolOp true (.compare .ne e m) (andOfNe e ms)

theorem prepCompare_null_right (v : Value) : prepCompare O v .null = .ok (v, .null) := by
  cases v <;> simp [prepCompare, coerceTs, Value.isNull, Outcome.bind]

theorem prepCompare_null_left (x : Value) (hx : x.isNull = false) : prepCompare O .null x = .ok (.null, x) := by
  cases x <;> simp_all [prepCompare, coerceTs, Value.isNull, Outcome.bind]

theorem tsOfText_nonnull (s : Bytes) (w : Value) (h : tsOfText O s = .ok w) : w.isNull = false := by
  unfold tsOfText parseLit at h
  simp only [bind, Outcome.bind] at h
  cases hl : lookupB O.tsparse s with
  | none =>
    rw [hl] at h
    cases hp : Lit.parseTimestampLit s with
    | none => rw [hp] at h; simp at h
    | some t =>
      rw [hp] at h
      simp only [pure, Outcome.ok.injEq] at h
      obtain ⟨d, sec, f, ht⟩ := Lit.parseTimestampLit_timestamp s t hp
      rw [← h, ht]; rfl
  | some r =>
    rw [hl] at h
    cases r with
    | none => simp [Option.map, pure] at h
    | some t =>
      simp only [Option.map, pure, Outcome.ok.injEq] at h
      rw [← h]; rfl

theorem coerceTs_nonnull (v x a b : Value) (hv : v.isNull = false) (hx : x.isNull = false)
    (h : coerceTs O v x = .ok (a, b)) : a.isNull = false ∧ b.isNull = false := by
  unfold coerceTs at h
  split at h
  · rename_i d sec f s
    cases ht : tsOfText O s with
    | ok w =>
      rw [ht] at h
      simp only [Outcome.bind, Outcome.ok.injEq, Prod.mk.injEq] at h
      obtain ⟨h1, h2⟩ := h
      subst h1; subst h2
      exact ⟨rfl, tsOfText_nonnull O s w ht⟩
    | error k => rw [ht] at h; simp [Outcome.bind] at h
    | panic s => rw [ht] at h; simp [Outcome.bind] at h
    | oracleMissing w => rw [ht] at h; simp [Outcome.bind] at h
  · rename_i s d sec f
    cases ht : tsOfText O s with
    | ok w =>
      rw [ht] at h
      simp only [Outcome.bind, Outcome.ok.injEq, Prod.mk.injEq] at h
      obtain ⟨h1, h2⟩ := h
      subst h1; subst h2
      exact ⟨tsOfText_nonnull O s w ht, rfl⟩
    | error k => rw [ht] at h; simp [Outcome.bind] at h
    | panic s => rw [ht] at h; simp [Outcome.bind] at h
    | oracleMissing w => rw [ht] at h; simp [Outcome.bind] at h
  · simp only [Outcome.ok.injEq, Prod.mk.injEq] at h
    obtain ⟨h1, h2⟩ := h
    subst h1; subst h2
    exact ⟨hv, hx⟩

theorem prepCompare_nonnull (v x a b : Value) (hv : v.isNull = false) (hx : x.isNull = false)
    (h : prepCompare O v x = .ok (a, b)) : a.isNull = false ∧ b.isNull = false := by
  unfold prepCompare at h
  cases hc : coerceTs O v x with
  | ok p =>
    rw [hc] at h
    simp only [Outcome.bind] at h
    split at h
    · simp at h
    · simp only [Outcome.ok.injEq] at h
      subst h
      exact coerceTs_nonnull O v x _ _ hv hx hc
  | error k => rw [hc] at h; simp [Outcome.bind] at h
  | panic s => rw [hc] at h; simp [Outcome.bind] at h
  | oracleMissing w => rw [hc] at h; simp [Outcome.bind] at h

theorem eval_orOfEq_bool (e : Expr) (ms : List Expr) (r : Value) (h : eval O env (orOfEq e ms) = .ok r) :
    ∃ b, r = .bool b := by
  cases ms with
  | nil => simp only [orOfEq, eval, Outcome.ok.injEq] at h; exact ⟨false, h.symm⟩
  | cons m ms => exact bool_ops_two_valued O env false _ _ r h

theorem evalIn_is_or (e : Expr) (v : Value) (he : eval O env e = .ok v) :
    ∀ (ms : List Expr) (a : Bool), evalIn O env false v a ms = eval O env (orOfEq e ms) := by
  intro ms
  induction ms with
  | nil => intro a; simp [evalIn, orOfEq, eval]
  | cons m ms ih =>
    intro a
    have hrest : ∀ a', evalIn O env false v a' ms =
        (eval O env (orOfEq e ms)).bind (fun rv => (condHolds rv).bind (fun rb => .ok (.bool rb))) := by
      intro a'
      rw [ih a']
      cases hr : eval O env (orOfEq e ms) with
      | ok r => obtain ⟨b, hb⟩ := eval_orOfEq_bool O env e ms r hr; subst hb; simp [Outcome.bind]
      | error k => rfl
      | panic s => rfl
      | oracleMissing w => rfl
    show evalIn O env false v a (m :: ms) = eval O env (.boolOp false (.compare .eq e m) (orOfEq e ms))
    rw [eval_boolOp]
    simp only [evalIn, eval, he, bind, pure]
    cases hm : eval O env m with
    | error k => rfl
    | panic s => rfl
    | oracleMissing w => rfl
    | ok x =>
      simp only [Outcome.bind]
      by_cases hx : x.isNull = true
      · -- a NULL member: `e = NULL` is false, the next members decide
        have hxn : x = .null := by cases x <;> simp_all [Value.isNull]
        subst hxn
        simp only [Value.isNull, if_true, prepCompare_null_right, Bool.not_true, Bool.and_false, Bool.false_eq_true, if_false,
          condHolds_bool]
        exact hrest true
      · have hx' : x.isNull = false := by simpa using hx
        simp only [hx', Bool.false_eq_true, if_false]
        by_cases hv : v.isNull = true
        · have hvn : v = .null := by cases v <;> simp_all [Value.isNull]
          subst hvn
          simp only [Value.isNull, if_true, prepCompare_null_left O x hx', Bool.not_true, Bool.false_and, Bool.false_eq_true,
            if_false, condHolds_bool]
          exact hrest a
        · have hv' : v.isNull = false := by simpa using hv
          simp only [hv', Bool.false_eq_true, if_false]
          cases hp : prepCompare O v x with
          | error k => rfl
          | panic s => rfl
          | oracleMissing w => rfl
          | ok p =>
            obtain ⟨a', b'⟩ := p
            obtain ⟨ha, hb⟩ := prepCompare_nonnull O v x a' b' hv' hx' hp
            simp only [ha, hb, Bool.not_false, Bool.and_self, if_true, applyCmp]
            by_cases hc : (compareValues a' b' == Ordering.eq) = true
            · simp [hc]
            · have hc' : (compareValues a' b' == Ordering.eq) = false := by simpa using hc
              simp only [hc', Bool.false_eq_true, if_false, condHolds_bool]
              exact hrest a

/-- **`x IN (v1, …, vn)` means `x = v1 OR … OR x = vn`**: the evaluator gives `IN` exactly the outcome it gives the
OR-chain of its own `=` — the same value, and the same error when some member cannot be compared with `x` before a
match was found. For arbitrary operand and member expressions. -/
theorem in_is_or_of_eq (e : Expr) (ms : List Expr) :
    eval O env (.inList false e ms) = (eval O env e).bind (fun _ => eval O env (orOfEq e ms)) := by
  cases he : eval O env e with
  | ok v => simp only [eval, he, bind, Outcome.bind]; exact evalIn_is_or O env e v he ms v.isNull
  | error k => simp [eval, he, bind, Outcome.bind]
  | panic s => simp [eval, he, bind, Outcome.bind]
  | oracleMissing w => simp [eval, he, bind, Outcome.bind]

/-- the membership tests over already evaluated, comparable operands -/
def notInSpec (v : Value) (xs : List Value) : Bool :=
  xs.all (fun x => !v.isNull && !x.isNull && compareValues v x != .eq)

/-- `x` can be compared with `m` without coercion or type error: what `=` / `!=` then compute is `compareValues` -/
def PlainComparable (v x : Value) : Prop := prepCompare O v x = .ok (v, x)

theorem evalIn_notIn (v : Value) : ∀ (xs : List Value) (anyNull : Bool), (v.isNull = true → anyNull = true) →
    (∀ x ∈ xs, PlainComparable O v x) →
    evalIn O env true v anyNull (xs.map .value) = .ok (.bool (!anyNull && notInSpec v xs)) := by
  intro xs
  induction xs with
  | nil => intro a _ _; simp [evalIn, notInSpec]
  | cons x xs ih =>
    intro a ha hc
    have hcx := hc x List.mem_cons_self
    have hcs : ∀ y ∈ xs, PlainComparable O v y := fun y hy => hc y (List.mem_cons_of_mem _ hy)
    simp only [List.map, evalIn, eval, bind, Outcome.bind, pure, notInSpec, List.all_cons]
    by_cases hx : x.isNull = true
    · simp only [hx, if_true]; rw [ih true (fun _ => rfl) hcs]; simp
    · simp only [hx]
      by_cases hv : v.isNull = true
      · simp only [hv, if_true, Bool.false_eq_true, if_false]
        rw [ih a ha hcs]; simp [ha hv]
      · simp only [hv, Bool.false_eq_true, if_false]
        unfold PlainComparable at hcx
        rw [hcx]
        simp only [Outcome.bind]
        by_cases hcq : compareValues v x = .eq
        · simp [hcq]
        · have hc' : (compareValues v x == Ordering.eq) = false := by
            cases h : compareValues v x <;> simp_all
          simp only [hc', Bool.false_eq_true, if_false]; rw [ih a ha hcs]
          have hne : (compareValues v x != Ordering.eq) = true := by simp [bne, hc']
          simp [hv, notInSpec, hne]

/-- **`x NOT IN (v1, …, vn)` (n ≥ 1) means `x != v1 AND … AND x != vn`** (each `!=` false on NULL), whenever every
member can be compared with `x` (`PlainComparable`: when some member cannot, `NOT IN` reports the error even if an
earlier NULL member has already made the conjunction false — the sentence does not say whether that error surfaces).
The NULL-free, comparable case is the AND-chain of the evaluator's own `!=`: `notin_is_and_chain` below. -/
theorem notin_is_and_of_ne (e : Expr) (v : Value) (x : Value) (xs : List Value) (he : eval O env e = .ok v)
    (hc : ∀ y ∈ x :: xs, PlainComparable O v y) :
    eval O env (.inList true e ((x :: xs).map .value)) = .ok (.bool (notInSpec v (x :: xs))) := by
  simp only [eval, he, bind, Outcome.bind]
  rw [evalIn_notIn O env v (x :: xs) v.isNull (fun h => h) hc]
  by_cases hv : v.isNull = true
  · simp [hv, notInSpec]
  · simp [hv]

/-- the AND-chain of the evaluator's `!=` over literal members computes the same conjunction -/
theorem andOfNe_value (e : Expr) (v : Value) (he : eval O env e = .ok v) :
    ∀ (xs : List Value), (∀ y ∈ xs, PlainComparable O v y) →
      eval O env (andOfNe e (xs.map .value)) = .ok (.bool (notInSpec v xs)) := by
  intro xs
  induction xs with
  | nil => intro _; simp [andOfNe, eval, notInSpec]
  | cons x xs ih =>
    intro hc
    have hcx := hc x List.mem_cons_self
    have hcs : ∀ y ∈ xs, PlainComparable O v y := fun y hy => hc y (List.mem_cons_of_mem _ hy)
    unfold PlainComparable at hcx
    simp only [List.map, andOfNe, eval, he, bind, Outcome.bind, pure, hcx, notInSpec, List.all_cons]
    by_cases hn : (!v.isNull && !x.isNull) = true
    · simp only [hn, if_true, applyCmp, Bool.true_and]
      by_cases hne : (compareValues v x != Ordering.eq) = true
      · simp only [hne]
        have := ih hcs
        rw [this]
        simp [notInSpec]
      · have : (compareValues v x != Ordering.eq) = false := by simpa using hne
        simp [this]
    · have : (!v.isNull && !x.isNull) = false := by simpa using hn
      simp [this]

/-- `x NOT IN (literals)` IS the AND-chain of `x != literal`, when every literal is comparable with `x` -/
theorem notin_is_and_chain (e : Expr) (v : Value) (x : Value) (xs : List Value) (he : eval O env e = .ok v)
    (hc : ∀ y ∈ x :: xs, PlainComparable O v y) :
    eval O env (.inList true e ((x :: xs).map .value)) = eval O env (andOfNe e ((x :: xs).map .value)) := by
  rw [notin_is_and_of_ne O env e v x xs he hc, andOfNe_value O env e v he (x :: xs) hc]

/-- CASE takes the first branch whose WHEN condition is TRUE -/
theorem case_first_true (c r els : Expr) (rest : List (Expr × Expr))
    (hc : eval O env c = .ok (.bool true)) :
    eval O env (.case ((c, r) :: rest) els) = eval O env r := by
  simp only [eval, evalCase, hc, bind, Outcome.bind, pure, condHolds_bool, if_true]
  cases eval O env r <;> rfl

/-- a WHEN condition that is FALSE or NULL does not hold: the clause is skipped -/
theorem case_skip_false (c r els : Expr) (rest : List (Expr × Expr)) (cv : Value)
    (hc : eval O env c = .ok cv) (ht : cv = .bool false ∨ cv = .null) :
    eval O env (.case ((c, r) :: rest) els) = eval O env (.case rest els) := by
  rcases ht with rfl | rfl <;> simp [eval, evalCase, hc, bind, Outcome.bind, pure]

/-- **a type mismatch in a WHEN condition is an error**: a WHEN expression that is reached (the clauses before it were
skipped, `case_skip_false`) and whose value is of another type than BOOLEAN (not NULL) makes the CASE expression a type
error — it is not skipped as if it were FALSE (finding D69, repaired) -/
theorem case_condition_type_mismatch_is_error (c r els : Expr) (rest : List (Expr × Expr)) (cv : Value)
    (hc : eval O env c = .ok cv) (hn : NoTruthValue cv) :
    eval O env (.case ((c, r) :: rest) els) = .error .typeError := by
  simp [eval, evalCase, hc, bind, Outcome.bind, condHolds_typeError cv hn.1 hn.2]

-- non-vacuity: `CASE WHEN 5 THEN 1 ELSE 2 END` is an error; `CASE WHEN NULL THEN 1 WHEN 'a' THEN 2 ELSE 3 END` too
-- (the NULL clause is skipped, the TEXT condition is reached); `CASE WHEN TRUE THEN 1 WHEN 5 THEN 2 …` is 1
example : eval {} {} (.case [(.value (.int 5), .value (.int 1))] (.value (.int 2))) = .error .typeError := rfl
example : eval {} {} (.case [(.value .null, .value (.int 1)), (.value (.text [97]), .value (.int 2))] (.value (.int 3))) =
    .error .typeError := rfl
example : eval {} {} (.case [(.value (.bool true), .value (.int 1)), (.value (.int 5), .value (.int 2))] (.value (.int 3))) =
    .ok (.int 1) := rfl

/-- array subscripts are 1-based; out-of-range subscripts give NULL -/
theorem subscript_one_based (a i : Expr) (t : VType) (xs : List Value) (n : Int)
    (ha : eval O env a = .ok (.array t xs)) (hi : eval O env i = .ok (.int n)) :
    eval O env (.index a i) = .ok (if n ≥ 1 then (xs[(n - 1).toNat]?).getD .null else .null) := by
  simp only [eval, ha, hi, bind, Outcome.bind, pure]

/-- a type mismatch in a comparison is an error, not a value -/
theorem cmp_type_mismatch_is_error (op : CmpOp) (l r : Expr) (x : Int) (s : Bytes)
    (hl : eval O env l = .ok (.int x)) (hr : eval O env r = .ok (.text s)) :
    eval O env (.compare op l r) = .error .typeError := by
  simp [eval, hl, hr, bind, Outcome.bind, pure, prepCompare, coerceTs, Value.isNull, typesComparable, Value.valueType]

/-- a member of another type makes IN a type error, exactly as `=` is (D53, repaired) -/
theorem in_type_mismatch_is_error (e m : Expr) (x : Int) (s : Bytes)
    (he : eval O env e = .ok (.int x)) (hm : eval O env m = .ok (.text s)) :
    eval O env (.inList false e [m]) = .error .typeError := by
  rw [in_is_or_of_eq]
  simp [he, Outcome.bind, orOfEq, eval, hm, bind, pure, prepCompare, coerceTs, Value.isNull, typesComparable, Value.valueType]

/-- non-vacuity: the hypotheses above are met by concrete expressions -/
example : eval {} {} (.inList false (.value (.int 5)) ([.int 5, .null].map .value)) = .ok (.bool true) := by rfl
example : eval {} {} (.inList true (.value .null) ([.int 5, .int 7].map .value)) = .ok (.bool false) := by rfl
example : PlainComparable {} (.int 5) (.real 0x3ff8000000000000) := by rfl
example : eval {} {} (.inList false (.value (.text [97])) [.value (.int 1)]) = .error .typeError := by rfl
example : eval {} {} (.compare .gt (.value (.int 2)) (.value (.real 0x3ff8000000000000))) = .ok (.bool true) := by rfl
example : eval {} {} (.arith .add (.value (.int 9223372036854775807)) (.value (.int 1))) = .error .undefinedOperation := by rfl
example : eval {} {} (.arith .div (.value (.int 1)) (.value (.int 0))) = .error .undefinedOperation := by rfl

/-! ## NEW (review gap, comparison clause): "comparisons compare by value (numbers numerically, text by code
point, timestamps by instant)"

`Compare` evaluates to `applyCmp op (compareValues lv rv)` (`compare_is_order`); the theorems below say what
that order IS on numbers, TEXT and TIMESTAMP. The order-theoretic laws of `compareValues` are in Props/C16.lean
(`numbers_compare_by_value`, `where_order_is_total_on_numbers`, `where_order_agrees_with_group_order_same_type`). -/

/-- the six comparison operators read over an order given by its three-way comparison -/
theorem applyCmp_meaning (o : Ordering) :
    applyCmp .eq o = decide (o = .eq) ∧ applyCmp .ne o = decide (o ≠ .eq) ∧
    applyCmp .lt o = decide (o = .lt) ∧ applyCmp .le o = decide (o ≠ .gt) ∧
    applyCmp .gt o = decide (o = .gt) ∧ applyCmp .ge o = decide (o ≠ .lt) := by
  cases o <;> decide

/-- a comparison of two non-NULL operands that need no coercion (same type, or INT with REAL) is the operator
applied to the three-way result of the WHERE order `compareValues` -/
theorem compare_is_order (op : CmpOp) (l r : Expr) (lv rv : Value)
    (hl : eval O env l = .ok lv) (hr : eval O env r = .ok rv)
    (hp : PlainComparable O lv rv) (nl : lv.isNull = false) (nr : rv.isNull = false) :
    eval O env (.compare op l r) = .ok (.bool (applyCmp op (compareValues lv rv))) := by
  unfold PlainComparable at hp
  simp only [eval, hl, hr, bind, Outcome.bind, hp, nl, nr, pure]
  simp

theorem plainComparable_numbers (lv rv : Value) (hl : isNumber lv = true) (hr : isNumber rv = true) :
    PlainComparable O lv rv := by
  cases lv <;> simp [isNumber] at hl <;> cases rv <;> simp [isNumber] at hr <;>
    simp [PlainComparable, prepCompare, coerceTs, Outcome.bind, Value.isNull, typesComparable, Value.valueType]

/-- what an operator says about two exact values -/
def holdsOn (op : CmpOp) (a b : Dy) : Bool :=
  match op with
  | .eq => decide (Dy.Eqv a b) | .ne => !decide (Dy.Eqv a b)
  | .lt => decide (a < b) | .le => decide (a ≤ b)
  | .gt => decide (b < a) | .ge => decide (b ≤ a)

/-- **numbers compare numerically**: for operands that are INT or finite REAL in any mix, each of
`= != < <= > >=` holds exactly when it holds between the exact numeric values (`numValue`: the integer, resp. the
dyadic value `±mantissa·2^exponent` of the bit pattern; order `Dy.cmp` = order of the numbers, see
Props/C16.lean `numbers_compare_by_value`, `value_order_laws`). Non-finite REAL operands: see
`cmp_numeric_nonfinite`. -/
theorem cmp_numeric_by_value (op : CmpOp) (l r : Expr) (lv rv : Value)
    (hl : eval O env l = .ok lv) (hr : eval O env r = .ok rv)
    (fl : isFiniteNumber lv = true) (fr : isFiniteNumber rv = true) :
    eval O env (.compare op l r) = .ok (.bool (holdsOn op (numValue lv) (numValue rv))) := by
  have nl : isNumber lv = true := by cases lv <;> simp_all [isFiniteNumber, isNumber]
  have nr : isNumber rv = true := by cases rv <;> simp_all [isFiniteNumber, isNumber]
  have il : lv.isNull = false := by cases lv <;> simp_all [isNumber, Value.isNull]
  have ir : rv.isNull = false := by cases rv <;> simp_all [isNumber, Value.isNull]
  rw [compare_is_order O env op l r lv rv hl hr (plainComparable_numbers O lv rv nl nr) il ir,
    compareValues_eq_value_cmp lv rv fl fr]
  congr 2
  have hs := Dy.cmp_swap (numValue lv) (numValue rv)
  cases op <;> cases h : Dy.cmp (numValue lv) (numValue rv) <;>
    simp [holdsOn, applyCmp, Dy.lt_def, Dy.le_def, Dy.Eqv, hs, h, Ordering.swap]

/-- numbers in general (±inf and NaN included): the comparison is the operator applied to the comparison of the
integer keys `(numClass, numUnits)` — class −1 for −inf, 0 for INT and finite REAL, 1 for +inf, 2 for NaN; then the
exact value in units of 2^-1074. So ±inf are below/above every finite number and every NaN is equal to every NaN
and greater than every other number (as in the derived order of REAL). -/
theorem cmp_numeric_nonfinite (op : CmpOp) (l r : Expr) (lv rv : Value)
    (hl : eval O env l = .ok lv) (hr : eval O env r = .ok rv)
    (nl : isNumber lv = true) (nr : isNumber rv = true) :
    eval O env (.compare op l r) = .ok (.bool (applyCmp op
      ((compare (numClass lv) (numClass rv)).then (compare (numUnits lv) (numUnits rv))))) := by
  have il : lv.isNull = false := by cases lv <;> simp_all [isNumber, Value.isNull]
  have ir : rv.isNull = false := by cases rv <;> simp_all [isNumber, Value.isNull]
  rw [compare_is_order O env op l r lv rv hl hr (plainComparable_numbers O lv rv nl nr) il ir,
    compareValues_eq_key lv rv nl nr]

-- non-vacuity: 2 > 1.5; 2^53+1 (INT) > 2^53 (REAL) and not equal; 0 = -0.0
example : eval {} {} (.compare .gt (.value (.int 2)) (.value (.real 0x3ff8000000000000))) = .ok (.bool true) ∧
    isFiniteNumber (.real 0x3ff8000000000000) = true ∧ holdsOn .gt (numValue (.int 2)) (numValue (.real 0x3ff8000000000000)) = true := ⟨rfl, by decide, by decide⟩
example : eval {} {} (.compare .eq (.value (.int (2 ^ 53 + 1))) (.value (.real 0x4340000000000000))) = .ok (.bool false) ∧
    eval {} {} (.compare .gt (.value (.int (2 ^ 53 + 1))) (.value (.real 0x4340000000000000))) = .ok (.bool true) := ⟨rfl, rfl⟩
-- NaN = NaN, NaN > +inf, NaN > every INT in WHERE comparisons
example : eval {} {} (.compare .eq (.value (.real 0x7ff8000000000000)) (.value (.real 0xfff8000000000001))) = .ok (.bool true) ∧
    eval {} {} (.compare .gt (.value (.real 0x7ff8000000000000)) (.value (.real 0x7ff0000000000000))) = .ok (.bool true) ∧
    eval {} {} (.compare .lt (.value (.int 9223372036854775807)) (.value (.real 0x7ff8000000000000))) = .ok (.bool true) := ⟨rfl, rfl, rfl⟩
example : holdsOn .eq (numValue (.real 0)) (numValue (.real 0x8000000000000000)) = true ∧
    holdsOn .le (numValue (.real 1)) (numValue (.real 0x0010000000000000)) = true := by decide

/-! ### text by code point -/

/-- **text compares by code point**: two TEXT operands — the UTF-8 encodings (`Utf8.encode`, = `char::encode_utf8`
per character) of the character strings `a` and `b`; the model stores TEXT as its bytes and compares bytes, like
Rust's `str` — compare as the sequences of their code point numbers do, lexicographically (first differing code
point decides; a proper prefix is smaller): core's `compare` on `List Nat`. Holds for every `Char` (surrogates
are not `Char`s; the byte-order fact itself needs no range restriction, `Utf8.encodeNat_lt`). -/
theorem cmp_text_codepoint (op : CmpOp) (l r : Expr) (a b : List Char)
    (hl : eval O env l = .ok (.text (Utf8.encode a))) (hr : eval O env r = .ok (.text (Utf8.encode b))) :
    eval O env (.compare op l r) = .ok (.bool (applyCmp op (compare (a.map Char.toNat) (b.map Char.toNat)))) := by
  have hp : PlainComparable O (.text (Utf8.encode a)) (.text (Utf8.encode b)) := by
    simp [PlainComparable, prepCompare, coerceTs, Outcome.bind, Value.isNull, typesComparable, Value.valueType]
  rw [compare_is_order O env op l r _ _ hl hr hp rfl rfl]
  simp only [compareValues, Value.cmp]
  rw [Utf8.cmpBytes_encode, Utf8.cmpBytes_eq_compare]

/-- the same order stated on the derived order of values (GROUP BY, MIN/MAX, ORDER of array_unique …), and
through the strings' own `<` (lexicographic on characters by code point) and `=` -/
theorem text_order_is_codepoint_order (a b : List Char) :
    Value.cmp (.text (Utf8.encode a)) (.text (Utf8.encode b)) = compare (a.map Char.toNat) (b.map Char.toNat) ∧
    (Value.cmp (.text (Utf8.encode a)) (.text (Utf8.encode b)) = .lt ↔ a < b) ∧
    (Value.cmp (.text (Utf8.encode a)) (.text (Utf8.encode b)) = .eq ↔ a = b) := by
  simp only [Value.cmp]
  refine ⟨by rw [Utf8.cmpBytes_encode, Utf8.cmpBytes_eq_compare], ?_, ?_⟩
  · rw [Utf8.cmpBytes_encode]; exact Utf8.cmpBytes_map_toNat_lt_iff a b
  · rw [Value.cmpBytes_eq_iff]
    exact ⟨Utf8.encode_injective a b, fun h => by rw [h]⟩

-- non-vacuity: "é" (U+E9, bytes C3 A9) < "€" (U+20AC, E2 82 AC) < "😀" (U+1F600, F0 9F 98 80); "z" < "é"; "a" < "ab"
example : Utf8.encode "é".toList = [0xC3, 0xA9] ∧ Utf8.encode "€".toList = [0xE2, 0x82, 0xAC] ∧
    Utf8.encode "😀".toList = [0xF0, 0x9F, 0x98, 0x80] := by decide
example : eval {} {} (.compare .lt (.value (.text (Utf8.encode "zé".toList))) (.value (.text (Utf8.encode "z€".toList)))) = .ok (.bool true) := rfl
example : compare ("zé".toList.map Char.toNat) ("z€".toList.map Char.toNat) = .lt ∧
    compare ("a".toList.map Char.toNat) ("ab".toList.map Char.toNat) = .lt ∧
    compare ("€".toList.map Char.toNat) ("😀".toList.map Char.toNat) = .lt := by decide

/-! ### timestamps by instant -/

/-- **timestamps compare by instant**: for TIMESTAMP operands `(day, second of day, nanosecond)` in the ranges of
every value the model creates and outside chrono's leap-second representation (`TsPlain`: 0 ≤ sec < 86400,
0 ≤ ns < 10^9), the comparison is the comparison of the instants `tsTotal = (day·86400 + sec)·10^9 + ns` in
nanoseconds — the same `tsTotal` timestamp subtraction uses. -/
theorem cmp_timestamp_instant (op : CmpOp) (l r : Expr) (d s f d' s' f' : Int)
    (hl : eval O env l = .ok (.timestamp d s f)) (hr : eval O env r = .ok (.timestamp d' s' f'))
    (v : TsPlain s f) (v' : TsPlain s' f') :
    eval O env (.compare op l r) = .ok (.bool (applyCmp op (compare (tsTotal d s f) (tsTotal d' s' f')))) := by
  have hp : PlainComparable O (.timestamp d s f) (.timestamp d' s' f') := by
    simp [PlainComparable, prepCompare, coerceTs, Outcome.bind, Value.isNull, typesComparable, Value.valueType]
  rw [compare_is_order O env op l r _ _ hl hr hp rfl rfl]
  simp only [compareValues, Value.cmp]
  rw [ts_lex_eq_instant d s f d' s' f' v v']

/-- with chrono's leap-second representation allowed (`TsValid`: 0 ≤ ns < 2·10^9; `create_timestamp` accepts
microseconds up to 1 999 999 at second 59 of ANY minute): the order is chrono's derived order on
`(date, secs, frac)` = the order of positions on a time line where every second is followed by room for its leap
second (`tsLeapKey = (day·86400 + sec)·2·10^9 + ns`). A leap-second value `hh:mm:59 + 1.5 s` is therefore AFTER
`hh:mm:59.999` and BEFORE `hh:(mm+1):00.2`, whereas the linear count `tsTotal` (which identifies the leap second with
the first second of the next minute, as POSIX time does) would put it after `hh:(mm+1):00.2`:
`leap_second_order_flag`. The sentence's "by instant" is met in chrono's sense (a leap second is its own second);
the model mirrors chrono. -/
theorem cmp_timestamp_leap (op : CmpOp) (l r : Expr) (d s f d' s' f' : Int)
    (hl : eval O env l = .ok (.timestamp d s f)) (hr : eval O env r = .ok (.timestamp d' s' f'))
    (v : TsValid s f) (v' : TsValid s' f') :
    eval O env (.compare op l r) = .ok (.bool (applyCmp op (compare (tsLeapKey d s f) (tsLeapKey d' s' f')))) := by
  have hp : PlainComparable O (.timestamp d s f) (.timestamp d' s' f') := by
    simp [PlainComparable, prepCompare, coerceTs, Outcome.bind, Value.isNull, typesComparable, Value.valueType]
  rw [compare_is_order O env op l r _ _ hl hr hp rfl rfl]
  simp only [compareValues, Value.cmp]
  rw [ts_lex_eq_leapKey d s f d' s' f' v v']

/-- FLAG (kernel-checked witness): 2016-12-31 23:59:60.5 (leap representation: second 86399, 1.5·10^9 ns) is
smaller than 2017-01-01 00:00:00.2 in the order, although its linear nanosecond count `tsTotal` is larger.
(Arithmetic on such values mirrors chrono exactly: `tsShift`, `tsDiff`; theorems in `Props/C03Func.lean` section A′.) -/
theorem leap_second_order_flag :
    Value.cmp (.timestamp 736329 86399 1500000000) (.timestamp 736330 0 200000000) = .lt ∧
    compare (tsTotal 736329 86399 1500000000) (tsTotal 736330 0 200000000) = .gt ∧
    TsValid 86399 1500000000 ∧ ¬ TsPlain 86399 1500000000 := by
  refine ⟨by decide, by decide, by unfold TsValid; omega, by unfold TsPlain; omega⟩

/-- where the ranges come from: timestamps made by timestamp ± interval (`tsOfTotal`) are `TsPlain`; timestamps
made by `create_timestamp` from non-negative fields are `TsValid` -/
theorem timestamp_ranges (t : Int) (y mo d h mi s us : Int) (v : Value)
    (h0 : 0 ≤ h) (m0 : 0 ≤ mi) (s0 : 0 ≤ s) (u0 : 0 ≤ us) (hv : createTimestamp y mo d h mi s us = some v) :
    (∃ dd ss ff, tsOfTotal t = .timestamp dd ss ff ∧ TsPlain ss ff) ∧
    (∃ dd ss ff, v = .timestamp dd ss ff ∧ TsValid ss ff) :=
  ⟨tsOfTotal_plain t, createTimestamp_valid y mo d h mi s us v h0 m0 s0 u0 hv⟩

-- non-vacuity: 2024-01-01 00:00:01.5 > 2023-12-31 23:59:59.25 (day numbers from CE)
example : TsPlain 1 500000000 ∧ TsPlain 86399 250000000 ∧
    compare (tsTotal 738886 1 500000000) (tsTotal 738885 86399 250000000) = .gt := by
  refine ⟨by unfold TsPlain; omega, by unfold TsPlain; omega, by decide⟩
example : eval {} {} (.compare .gt (.value (.timestamp 738886 1 500000000)) (.value (.timestamp 738885 86399 250000000))) = .ok (.bool true) := rfl
example : createTimestamp 2016 12 31 23 59 59 1500000 = some (.timestamp 736329 86399 1500000000) := rfl

end Sqlgrep.Props.C03
