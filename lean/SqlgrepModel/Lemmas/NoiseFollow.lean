import SqlgrepModel.Lemmas.NoiseStep
/-
Line-at-a-time execution (follow mode, `ExecutionConfig::default()` = update + result): the engine's answers for
a sequence of lines, and what `FollowFileExecutor::execute` prints from them. Lines that yield no row contribute
an answer without a result and leave the state unchanged, so they are invisible to everything that only looks at
answers with a result.
-/
namespace Sqlgrep

/-- the engine's answers for the lines fed one at a time (up to the first failure), and the final state or the
failure -/
def feedLines (O : Oracles) (qy : Query) (idx : JoinIndex) (w : Bool) : List Line → EngineState → List LineOut × Outcome EngineState
  | [], es => ([], .ok es)
  | l :: ls, es =>
    match executeLine O qy idx w es l with
    | .ok (es1, lo) => (lo :: (feedLines O qy idx w ls es1).1, (feedLines O qy idx w ls es1).2)
    | .error k => ([], .error k)
    | .panic s => ([], .panic s)
    | .oracleMissing s => ([], .oracleMissing s)

/-- the answers that carry a result table (with their `reached_limit` flag) -/
def withResult (los : List LineOut) : List LineOut := los.filter (fun lo => lo.result.isSome)

/-- the loop of `FollowFileExecutor::execute` (src/executor.rs) over the engine's answers: an answer without a
result is skipped (the limit flag is looked at only inside `if let Some(result_row)`), every result table is
printed, and the loop ends after a table that came with the flag -/
def followPrinted (single : Bool) : List LineOut → List String
  | [] => []
  | lo :: rest =>
    match lo.result with
    | some r => printResult r single ++ (if lo.reachedLimit then [] else followPrinted single rest)
    | none => followPrinted single rest

theorem followPrinted_withResult (single : Bool) (los : List LineOut) :
    followPrinted single (withResult los) = followPrinted single los := by
  induction los with
  | nil => rfl
  | cons lo rest ih =>
    unfold withResult at ih ⊢
    cases hr : lo.result with
    | none => simp only [List.filter_cons, hr, Option.isSome_none, Bool.false_eq_true, if_false, followPrinted, ih]
    | some r =>
      simp only [List.filter_cons, hr, Option.isSome_some, if_true, followPrinted, ih]

/-- **noise invariance, line at a time**: the answers with a result, and the final state or failure, are those
of the run over the lines that yield a row -/
theorem feedLines_noise (O : Oracles) (qy : Query) (idx : JoinIndex) (w : Bool) (lines : List Line) (es : EngineState) :
    withResult (feedLines O qy idx w (lines.filter (fun l => anyResult l.row)) es).1 =
        withResult (feedLines O qy idx w lines es).1 ∧
    (feedLines O qy idx w (lines.filter (fun l => anyResult l.row)) es).2 = (feedLines O qy idx w lines es).2 := by
  induction lines generalizing es with
  | nil => exact ⟨rfl, rfl⟩
  | cons l ls ih =>
    by_cases ha : anyResult l.row = true
    · simp only [List.filter_cons, ha, if_true, feedLines]
      cases executeLine O qy idx w es l with
      | ok p =>
        obtain ⟨es1, lo⟩ := p
        obtain ⟨h1, h2⟩ := ih es1
        refine ⟨?_, h2⟩
        unfold withResult at h1 ⊢
        simp only [List.filter_cons, h1]
      | error k => exact ⟨rfl, rfl⟩
      | panic s => exact ⟨rfl, rfl⟩
      | oracleMissing s => exact ⟨rfl, rfl⟩
    · have ha' : anyResult l.row = false := by simpa using ha
      simp only [List.filter_cons, ha', Bool.false_eq_true, if_false]
      simp only [feedLines, executeLine_noise O qy idx w es l ha']
      obtain ⟨h1, h2⟩ := ih es
      refine ⟨?_, h2⟩
      rw [h1]
      simp [withResult]

end Sqlgrep
