import SqlgrepModel.Props.C04
/-
C04 — AVG over INTERVAL arguments: the cell is the EXACT total of nanoseconds divided by the count, truncated towards zero.

Finding **D74** (repaired in /repo ae3273b; found by the third independent review). The code used chrono's `TimeDelta / i32`
(`checked_div`), which divides the whole seconds and the nanosecond part APART and truncates twice, and took the count
`as i32`: over three rows whose intervals are 1.002 s, 0, 0 the program printed `00:00:00.333` (333 999 999 ns) where the
total 1 002 000 000 ns divided by 3 is exactly 334 000 000 ns; over −2 ms, 0, 0 it gave −666 667 ns (the truncated quotient
is −666 666 ns). The model (`Model/Engine.lean` `aggUpdate`, `.avg`), the specification (`Spec/Agg.lean` `avgOf`) and the
summaries lemma (`Lemmas/AggSummary.lean` `avgFinish`) had always said `Int.tdiv` of the total — model and code differed
silently, and nothing sampled the difference: every generator produced whole-second, non-negative intervals (on which the two
divisions agree unless the count does not divide the seconds — and then chrono's carry is exact for whole seconds below
2^63/10^9), and the harness reference called chrono's own `/`. The repaired code forms the total in `i128`
(`num_seconds()·10^9 + subsec_nanos()`: the exact signed total, also for negative intervals, whose internal representation is
a negative second count and a non-negative nanosecond part), divides by the count in `i128` (Rust's `/` truncates towards
zero = `Int.tdiv`) and rebuilds the interval as `seconds(q / 10^9) + nanoseconds(q % 10^9)` (`reassembled_is_the_quotient`:
that sum is `q` again — both parts carry the sign of `q`, `|q / 10^9|` is at most the total's seconds, so neither constructor
nor the addition can leave chrono's range).

* `avg_of_intervals` — GENERAL: for a group whose non-NULL argument values are the intervals `ns` (total nanoseconds each,
  any signs, any magnitudes inside chrono's range; partial sums inside the range, else the code reports an error) the AVG
  cell is `Int.tdiv (Σ ns) n`.
* `avg_interval_quotient_characterised` — what "truncated towards zero" means without naming `tdiv`: the cell `q` satisfies
  `n·q + r = Σ ns` with `|r| < n` and `r` of the sign of the total (so `|q| = ⌊|Σ ns| / n⌋`).
* `engine_avg_of_intervals` — the engine's running fold (`update_aggregate` per row) shows that cell.
* `d74_*` — regression witnesses, kernel-evaluated, and `chronoDivBeforeRepair`: a transcription of chrono 0.4.39
  `TimeDelta::checked_div` used ONLY to state what the program used to print on the two witnesses.
-/
namespace Sqlgrep.Props.C04Avg
open Sqlgrep Sqlgrep.Value Sqlgrep.Spec.Agg

theorem intervals_map_interval (l : List Int) : intervals (l.map Value.interval) = some l := by
  induction l with
  | nil => rfl
  | cons x xs ih => simp only [intervals, List.map_cons, asInterval, collect_cons_some] at ih ⊢; rw [ih]; rfl

theorem tmod_nonpos {a : Int} (b : Int) (h : a ≤ 0) : a.tmod b ≤ 0 := by
  have := Int.tmod_nonneg b (show 0 ≤ -a by omega)
  rw [Int.neg_tmod] at this; omega
theorem tdiv_nonpos {a b : Int} (h : a ≤ 0) (hb : 0 ≤ b) : a.tdiv b ≤ 0 := by
  have := Int.tdiv_nonneg (show 0 ≤ -a by omega) hb
  rw [Int.neg_tdiv] at this; omega

theorem ints_interval_none (y : Int) (ys : List Value) : ints (Value.interval y :: ys) = none := by
  simp [ints, asInt, collect]
theorem reals_interval_none (y : Int) (ys : List Value) : reals (Value.interval y :: ys) = none := by
  simp [reals, asReal, collect]

/-- **AVG(INTERVAL) = tdiv (Σ ns) n.** For a group whose non-NULL argument values are the intervals `n :: ns` (signed total
nanoseconds) with every partial sum inside chrono's range (`inIv`; otherwise the running sum reports an error), the AVG cell
is the interval of `Int.tdiv (n + Σ ns) (count)` nanoseconds: the exact total divided by the count, truncated towards zero. -/
theorem avg_of_intervals (e : Expr) (vs : List Value) (n : Int) (ns : List Int)
    (h : nonNull vs = (n :: ns).map Value.interval) (hok : partialSumsOk inIv 0 (n :: ns) = true) :
    aggregate (.avg e) vs = some (.interval (Int.tdiv (intSum (n :: ns)) (n :: ns).length)) := by
  have hi := intervals_map_interval (n :: ns)
  simp only [List.map_cons] at hi
  simp only [aggregate, h, avgOf, List.map_cons, ints_interval_none, reals_interval_none, hi, hok, if_true]

/-- **what the truncated quotient is** (no `tdiv` in the statement): with `S` the exact total and `c ≥ 1` the count, the
cell `q` is the unique integer with `c·q + r = S`, `|r| < c`, and `r` zero or of the sign of `S` — i.e. `|q| = ⌊|S| / c⌋`
with the sign of `S`; never rounded away from zero, never off by one nanosecond -/
theorem avg_interval_quotient_characterised (e : Expr) (vs : List Value) (n : Int) (ns : List Int)
    (h : nonNull vs = (n :: ns).map Value.interval) (hok : partialSumsOk inIv 0 (n :: ns) = true) :
    ∃ q r : Int, aggregate (.avg e) vs = some (.interval q) ∧
      ((n :: ns).length : Int) * q + r = intSum (n :: ns) ∧ r.natAbs < (n :: ns).length ∧
      (0 ≤ intSum (n :: ns) → 0 ≤ r) ∧ (intSum (n :: ns) ≤ 0 → r ≤ 0) := by
  refine ⟨Int.tdiv (intSum (n :: ns)) (n :: ns).length, Int.tmod (intSum (n :: ns)) (n :: ns).length,
    avg_of_intervals e vs n ns h hok, Int.mul_tdiv_add_tmod _ _, ?_, ?_, ?_⟩
  · have hpos : (0 : Int) < ((n :: ns).length : Int) := by simp only [List.length_cons]; omega
    have h1 := Int.tmod_lt_of_pos (intSum (n :: ns)) hpos
    have h2 := Int.lt_tmod_of_pos (intSum (n :: ns)) hpos
    omega
  · intro h0; exact Int.tmod_nonneg _ h0
  · intro h0; exact tmod_nonpos _ h0

/-- the engine's running computation (`update_aggregate` folded over the group's rows, NULL arguments skipped) shows that
very cell -/
theorem engine_avg_of_intervals (e : Expr) (vs : List Value) (n : Int) (ns : List Int) (hvs : vs ≠ [])
    (h : nonNull vs = (n :: ns).map Value.interval) (hok : partialSumsOk inIv 0 (n :: ns) = true) :
    ∃ c, foldV (.avg e) vs {} = .ok c ∧
      shownValue (.avg e) c = .interval (Int.tdiv (intSum (n :: ns)) (n :: ns).length) := by
  obtain ⟨c, hc, hs, _⟩ := Props.C04.aggregate_fold_refines (.avg e) vs _ hvs (avg_of_intervals e vs n ns h hok) rfl
  exact ⟨c, hc, hs⟩

/-- **the repaired code's reassembly is the identity**: `seconds(q / 10^9) + nanoseconds(q % 10^9)` (Rust's `/` and `%` on
`i128` truncate towards zero) has `q` total nanoseconds again; both parts have the sign of `q` and the seconds part is no
larger in magnitude than `q`'s own seconds, so neither `TimeDelta::seconds` nor the addition can fail inside chrono's range -/
theorem reassembled_is_the_quotient (q : Int) :
    Int.tdiv q 1000000000 * 1000000000 + Int.tmod q 1000000000 = q ∧
    (Int.tdiv q 1000000000).natAbs * 1000000000 ≤ q.natAbs ∧
    (0 ≤ q → 0 ≤ Int.tdiv q 1000000000 ∧ 0 ≤ Int.tmod q 1000000000) ∧
    (q ≤ 0 → Int.tdiv q 1000000000 ≤ 0 ∧ Int.tmod q 1000000000 ≤ 0) := by
  have h1 := Int.tdiv_mul_add_tmod q 1000000000
  have h2 := Int.tmod_lt_of_pos q (show (0 : Int) < 1000000000 by decide)
  have h3 := Int.lt_tmod_of_pos q (show (0 : Int) < 1000000000 by decide)
  refine ⟨h1, ?_, ?_, ?_⟩
  · rcases Int.le_total 0 q with hq | hq
    · have := Int.tmod_nonneg (1000000000 : Int) hq
      have := Int.tdiv_nonneg hq (show (0 : Int) ≤ 1000000000 by decide)
      omega
    · have := tmod_nonpos (1000000000 : Int) hq
      have := tdiv_nonpos hq (show (0 : Int) ≤ 1000000000 by decide)
      omega
  · intro hq
    exact ⟨Int.tdiv_nonneg hq (by decide), Int.tmod_nonneg _ hq⟩
  · intro hq
    exact ⟨tdiv_nonpos hq (by decide), tmod_nonpos _ hq⟩

/-! ### finding D74, repaired: regression witnesses (kernel-evaluated; the typed stream of `./check C04` samples the class) -/

/-- a cell is the INTERVAL of `n` nanoseconds (decidable form, for kernel evaluation) -/
theorem interval_of_ns {o : Option Value} {n : Int} (h : o.bind asInterval = some n) : o = some (.interval n) := by
  cases o with
  | none => simp at h
  | some v => cases v <;> simp [asInterval] at h ⊢; exact h

/-- chrono 0.4.39 `TimeDelta::checked_div(rhs : i32)` on the internal representation (`secs` = floor of the seconds,
`nanos` ∈ [0, 10^9)): seconds and nanoseconds are divided APART (each truncating), the remainder of the seconds is carried
over as truncated nanoseconds, then the pair is normalised. NOT part of the model — the repaired code does not call it;
kept to state what the program printed before the repair. -/
def chronoDivBeforeRepair (ns : Int) (rhs : Int) : Int :=
  let secs := ns / 1000000000          -- floor
  let nanos := ns % 1000000000         -- in [0, 10^9)
  let s := Int.tdiv secs rhs
  let carry := Int.tmod secs rhs
  let extra := Int.tdiv (carry * 1000000000) rhs
  let n := Int.tdiv nanos rhs + extra
  s * 1000000000 + n

/-- **D74 regression, positive sub-second total.** AVG over the intervals 1.002 s, 0, 0 is exactly 0.334 s
(334 000 000 ns, printed `00:00:00.334`); dividing seconds and nanoseconds apart gave 333 999 999 ns (`00:00:00.333`) -/
theorem d74_avg_interval_exact :
    aggregate (.avg (.column "d")) [.interval 1002000000, .interval 0, .interval 0] = some (.interval 334000000) ∧
    chronoDivBeforeRepair 1002000000 3 = 333999999 :=
  ⟨interval_of_ns (by decide +kernel), by decide +kernel⟩

/-- **D74 regression, negative total.** AVG over −2 ms, 0, 0 is −666 666 ns (truncated towards zero); the old division gave
−666 667 ns. NULL arguments do not count: with a NULL row in between the cell is the same. -/
theorem d74_avg_negative_interval :
    aggregate (.avg (.column "d")) [.interval (-2000000), .interval 0, .interval 0] = some (.interval (-666666)) ∧
    aggregate (.avg (.column "d")) [.interval (-2000000), .null, .interval 0, .interval 0] = some (.interval (-666666)) ∧
    chronoDivBeforeRepair (-2000000) 3 = -666667 :=
  ⟨interval_of_ns (by decide +kernel), interval_of_ns (by decide +kernel), by decide +kernel⟩

/-- **beyond 64-bit nanoseconds.** Two intervals of 200 years and −50 years sum to 150 years ≈ 4.7·10^18 ns … and three of
200 years to 1.9·10^19 ns > 2^63: the total is formed exactly (the code: `i128`) and the average is 200 years again -/
theorem d74_avg_beyond_i64_nanoseconds :
    (2 : Int) ^ 63 < 3 * 6311520000000000000 ∧
    aggregate (.avg (.column "d")) [.interval 6311520000000000000, .interval 6311520000000000000, .interval 6311520000000000001] =
      some (.interval 6311520000000000000) :=
  ⟨by decide, interval_of_ns (by decide +kernel)⟩

/-- the engine shows exactly the witness cell: three `update_aggregate` steps over 1.002 s, 0, 0 end with 0.334 s -/
theorem d74_engine :
    ∃ c, foldV (.avg (.column "d")) [.interval 1002000000, .interval 0, .interval 0] {} = .ok c ∧
      shownValue (.avg (.column "d")) c = .interval 334000000 := by
  obtain ⟨c, hc, hs, _⟩ := Props.C04.aggregate_fold_refines (.avg (.column "d"))
    [.interval 1002000000, .interval 0, .interval 0] (.interval 334000000) (by decide) d74_avg_interval_exact.1 rfl
  exact ⟨c, hc, hs⟩

/-- the hypotheses of `avg_of_intervals` hold on the witness (with a NULL row) and the general statement gives its cell -/
example : aggregate (.avg (.column "d")) [.interval 1002000000, .null, .interval 0, .interval 0] = some (.interval 334000000) :=
  avg_of_intervals _ _ 1002000000 [0, 0] rfl (by decide)

end Sqlgrep.Props.C04Avg
