import SqlgrepModel.Lemmas.Lower
/-
Letter case of function and aggregate names does not matter to the lowering: every lookup goes through
`lowerChars`; the only trace of the spelling is the payload of `UndefinedFunction`.
-/
namespace Sqlgrep

mutual
/-- respell every call name of a tree -/
def PExpr.renameCalls (ρ : List Char → List Char) : PExpr → PExpr
  | .value l v => .value l v
  | .column l n => .column l n
  | .wildcard l => .wildcard l
  | .tuple l vs => .tuple l (PExpr.renameCallsList ρ vs)
  | .binop l o a b => .binop l o (a.renameCalls ρ) (b.renameCalls ρ)
  | .boolop l o a b => .boolop l o (a.renameCalls ρ) (b.renameCalls ρ)
  | .unop l o e => .unop l o (e.renameCalls ρ)
  | .invert l e => .invert l (e.renameCalls ρ)
  | .nullcmp l n a b => .nullcmp l n (a.renameCalls ρ) (b.renameCalls ρ)
  | .inList l n e vs => .inList l n (e.renameCalls ρ) (PExpr.renameCallsList ρ vs)
  | .call l n args d => .call l (ρ n) (PExpr.renameCallsList ρ args) d
  | .index l a i => .index l (a.renameCalls ρ) (i.renameCalls ρ)
  | .cast l e t => .cast l (e.renameCalls ρ) t
  | .case l cs els => .case l (PExpr.renameCallsClauses ρ cs) (els.renameCalls ρ)
def PExpr.renameCallsList (ρ : List Char → List Char) : List PExpr → List PExpr
  | [] => []
  | x :: xs => x.renameCalls ρ :: PExpr.renameCallsList ρ xs
def PExpr.renameCallsClauses (ρ : List Char → List Char) : List (PExpr × PExpr) → List (PExpr × PExpr)
  | [] => []
  | (c, r) :: xs => (c.renameCalls ρ, r.renameCalls ρ) :: PExpr.renameCallsClauses ρ xs
end

/-- the respelling shows only in the payload of `UndefinedFunction` -/
def CErr.rename (ρ : List Char → List Char) (e : CErr) : CErr :=
  match e.kind with
  | .undefinedFunction n => ⟨e.loc, .undefinedFunction (ρ n)⟩
  | _ => e

def LRes.mapErr {α : Type} (f : CErr → CErr) : LRes α → LRes α
  | .ok a => .ok a
  | .err e => .err (f e)
  | .panic s => .panic s

/-- a respelling that lower-cases to the same word: a change of letter case -/
def CaseOnly (ρ : List Char → List Char) : Prop := ∀ n, lowerChars (ρ n) = lowerChars n

namespace Lower

theorem functionOfName_case {n1 n2 : List Char} (h : lowerChars n1 = lowerChars n2) :
    functionOfName n1 = functionOfName n2 := by
  unfold functionOfName; rw [h]

theorem isAggregateName_case {n1 n2 : List Char} (h : lowerChars n1 = lowerChars n2) :
    isAggregateName n1 = isAggregateName n2 := by
  unfold isAggregateName; rw [h]

/-- `transform_call_aggregate` sees the name only lower-cased -/
theorem lowerCallAggregate_case {n1 n2 : List Char} (h : lowerChars n1 = lowerChars n2) (loc args d i) :
    lowerCallAggregate loc n1 args d i = lowerCallAggregate loc n2 args d i := by
  unfold lowerCallAggregate; rw [h]

theorem lowerCall_case (ρ : List Char → List Char) (hρ : CaseOnly ρ) (loc n args) :
    lowerCall loc (ρ n) args = (lowerCall loc n args).mapErr (CErr.rename ρ) := by
  unfold lowerCall
  rw [functionOfName_case (hρ n)]
  split <;> simp [LRes.mapErr, CErr.rename]

theorem mapErr_binop (ρ) (loc o l r) : (lowerBinop loc o l r).mapErr (CErr.rename ρ) = lowerBinop loc o l r := by
  unfold lowerBinop
  repeat' split
  all_goals simp [LRes.mapErr, CErr.rename]

theorem mapErr_unop (ρ) (loc o e) : (lowerUnop loc o e).mapErr (CErr.rename ρ) = lowerUnop loc o e := by
  unfold lowerUnop
  split <;> simp [LRes.mapErr, CErr.rename]

/-- **letter case of function names does not matter** (expressions without aggregates) -/
theorem lowerPlain_case (ρ : List Char → List Char) (hρ : CaseOnly ρ) :
    (∀ e, lowerPlain (e.renameCalls ρ) = (lowerPlain e).mapErr (CErr.rename ρ)) ∧
    (∀ es, lowerPlainList (PExpr.renameCallsList ρ es) = (lowerPlainList es).mapErr (CErr.rename ρ)) ∧
    (∀ cs, lowerPlainClauses (PExpr.renameCallsClauses ρ cs) = (lowerPlainClauses cs).mapErr (CErr.rename ρ)) := by
  have hb := mapErr_binop ρ
  have hu := mapErr_unop ρ
  have hc := lowerCall_case ρ hρ
  apply PExpr.induct3
  case value => intro l v; rw [PExpr.renameCalls, lowerPlain]; rfl
  case column => intro l n; rw [PExpr.renameCalls, lowerPlain]; rfl
  case wildcard => intro l; rw [PExpr.renameCalls, lowerPlain]; rfl
  case tuple => intro l vs _; rw [PExpr.renameCalls, lowerPlain, lowerPlain]; rfl
  case binop =>
    intro l o a b iha ihb
    rw [PExpr.renameCalls, lowerPlain, lowerPlain, iha, ihb]
    cases lowerPlain a <;> simp only [LRes.mapErr]
    cases lowerPlain b <;> first | exact (hb _ _ _ _).symm | simp only [LRes.mapErr]
  case boolop =>
    intro l o a b iha ihb
    rw [PExpr.renameCalls, lowerPlain, lowerPlain, iha, ihb]
    cases lowerPlain a <;> simp only [LRes.mapErr]
    cases lowerPlain b <;> simp only [LRes.mapErr]
  case nullcmp =>
    intro l o a b iha ihb
    rw [PExpr.renameCalls, lowerPlain, lowerPlain, iha, ihb]
    cases lowerPlain a <;> simp only [LRes.mapErr]
    cases lowerPlain b <;> simp only [LRes.mapErr]
  case index =>
    intro l a b iha ihb
    rw [PExpr.renameCalls, lowerPlain, lowerPlain, iha, ihb]
    cases lowerPlain a <;> simp only [LRes.mapErr]
    cases lowerPlain b <;> simp only [LRes.mapErr]
  case unop =>
    intro l o a iha
    rw [PExpr.renameCalls, lowerPlain, lowerPlain, iha]
    cases lowerPlain a <;> first | exact (hu _ _ _).symm | simp only [LRes.mapErr]
  case invert =>
    intro l a iha
    rw [PExpr.renameCalls, lowerPlain, lowerPlain, iha]
    cases lowerPlain a <;> simp only [LRes.mapErr]
  case cast =>
    intro l a ty iha
    rw [PExpr.renameCalls, lowerPlain, lowerPlain, iha]
    cases lowerPlain a <;> simp only [LRes.mapErr]
  case inList =>
    intro l n a vs iha ihvs
    rw [PExpr.renameCalls, lowerPlain, lowerPlain, iha, ihvs]
    cases lowerPlain a <;> simp only [LRes.mapErr]
    cases lowerPlainList vs <;> simp only [LRes.mapErr]
  case call =>
    intro l n args d ihargs
    rw [PExpr.renameCalls, lowerPlain, lowerPlain, ihargs]
    cases lowerPlainList args <;> first | exact hc _ _ _ | simp only [LRes.mapErr]
  case case =>
    intro l cs els ihcs ihels
    rw [PExpr.renameCalls, lowerPlain, lowerPlain, ihcs, ihels]
    cases lowerPlainClauses cs <;> simp only [LRes.mapErr]
    cases lowerPlain els <;> simp only [LRes.mapErr]
  case nil => rw [PExpr.renameCallsList, lowerPlainList]; rfl
  case cons =>
    intro x xs ihx ihxs
    rw [PExpr.renameCallsList, lowerPlainList, lowerPlainList, ihx, ihxs]
    cases lowerPlain x <;> simp only [LRes.mapErr]
    cases lowerPlainList xs <;> simp only [LRes.mapErr]
  case cnil => rw [PExpr.renameCallsClauses, lowerPlainClauses]; rfl
  case ccons =>
    intro c r xs ihc ihr ihxs
    rw [PExpr.renameCallsClauses, lowerPlainClauses, lowerPlainClauses, ihc, ihr, ihxs]
    cases lowerPlain c <;> simp only [LRes.mapErr]
    cases lowerPlain r <;> simp only [LRes.mapErr]
    cases lowerPlainClauses xs <;> simp only [LRes.mapErr]

end Lower
end Sqlgrep

/-! ### whole statements: aggregates, HAVING, extraction -/

namespace Sqlgrep

mutual
def Lower.XExpr.renameCalls (ρ : List Char → List Char) : Lower.XExpr → Lower.XExpr
  | .plain e => .plain (e.renameCalls ρ)
  | .hole => .hole
  | .binop l o a b => .binop l o (a.renameCalls ρ) (b.renameCalls ρ)
  | .boolop o a b => .boolop o (a.renameCalls ρ) (b.renameCalls ρ)
  | .unop l o e => .unop l o (e.renameCalls ρ)
  | .invert e => .invert (e.renameCalls ρ)
  | .nullcmp n a b => .nullcmp n (a.renameCalls ρ) (b.renameCalls ρ)
  | .index a i => .index (a.renameCalls ρ) (i.renameCalls ρ)
  | .cast e t => .cast (e.renameCalls ρ) t
  | .call l n args => .call l (ρ n) (Lower.XExpr.renameCallsList ρ args)
def Lower.XExpr.renameCallsList (ρ : List Char → List Char) : List Lower.XExpr → List Lower.XExpr
  | [] => []
  | x :: xs => x.renameCalls ρ :: Lower.XExpr.renameCallsList ρ xs
end

def Lower.Extracted.rename (ρ : List Char → List Char) : Lower.Extracted → Lower.Extracted
  | .column n => .column n
  | .call n args d => .call (ρ n) (PExpr.renameCallsList ρ args) d

namespace Lower

theorem countAggregates_rename (ρ : List Char → List Char) (hρ : CaseOnly ρ) :
    (∀ e, countAggregates (e.renameCalls ρ) = countAggregates e) ∧
    (∀ es, countAggregatesList (PExpr.renameCallsList ρ es) = countAggregatesList es) ∧
    (∀ cs, countAggregatesClauses (PExpr.renameCallsClauses ρ cs) = countAggregatesClauses cs) := by
  have hn : ∀ n, isAggregateName (ρ n) = isAggregateName n := fun n => isAggregateName_case (hρ n)
  apply PExpr.induct3
  all_goals intros
  all_goals (first | rw [PExpr.renameCalls] | rw [PExpr.renameCallsList] | rw [PExpr.renameCallsClauses])
  all_goals (simp only [countAggregates, countAggregatesList, countAggregatesClauses, *])

theorem holeOr_rename (ρ) (b : Bool) (x : XExpr) : (holeOr b x).renameCalls ρ = holeOr b (x.renameCalls ρ) := by
  unfold holeOr; split <;> simp [XExpr.renameCalls]

theorem firstSome_rename (ρ) (a b : Option Extracted) :
    (firstSome a b).map (Extracted.rename ρ) = firstSome (a.map (Extracted.rename ρ)) (b.map (Extracted.rename ρ)) := by
  unfold firstSome; cases a <;> simp

/-- `extract_aggregate` commutes with the respelling -/
theorem extractAggregate_rename (ρ : List Char → List Char) (hρ : CaseOnly ρ) :
    (∀ e, extractAggregate (e.renameCalls ρ) =
      ((extractAggregate e).1.map (Extracted.rename ρ), (extractAggregate e).2.1, (extractAggregate e).2.2.renameCalls ρ)) ∧
    (∀ es acc, extractArgs (PExpr.renameCallsList ρ es) (acc.map (Extracted.rename ρ)) =
      ((extractArgs es acc).1.map (Extracted.rename ρ), XExpr.renameCallsList ρ (extractArgs es acc).2)) ∧
    (∀ _cs : List (PExpr × PExpr), True) := by
  have hn : ∀ n, isAggregateName (ρ n) = isAggregateName n := fun n => isAggregateName_case (hρ n)
  apply PExpr.induct3
  case cnil => trivial
  case ccons => intros; trivial
  case nil => intro acc; simp [PExpr.renameCallsList, extractArgs, XExpr.renameCallsList]
  case cons =>
    intro x xs ihx ihxs acc
    rw [PExpr.renameCallsList, extractArgs, extractArgs, ihx]
    dsimp only
    have := ihxs (if (extractAggregate x).1.isSome then (extractAggregate x).1 else acc)
    have hcond : (Option.map (Extracted.rename ρ) (extractAggregate x).1).isSome = (extractAggregate x).1.isSome := by simp
    have harg : (if (Option.map (Extracted.rename ρ) (extractAggregate x).1).isSome = true then Option.map (Extracted.rename ρ) (extractAggregate x).1 else Option.map (Extracted.rename ρ) acc)
        = Option.map (Extracted.rename ρ) (if (extractAggregate x).1.isSome then (extractAggregate x).1 else acc) := by
      rw [hcond]; split <;> rfl
    rw [harg, this]
    simp [XExpr.renameCallsList, holeOr_rename]
  case call =>
    intro l n args d ih
    rw [PExpr.renameCalls, extractAggregate, extractAggregate, hn]
    split
    · simp [Extracted.rename, XExpr.renameCalls, PExpr.renameCalls]
    · have := ih none
      simp only [Option.map_none] at this
      simp [this, XExpr.renameCalls]
  all_goals intros
  all_goals (rw [PExpr.renameCalls])
  all_goals (first | rw [extractAggregate, extractAggregate] | rw [extractAggregate])
  all_goals (simp_all [XExpr.renameCalls, Extracted.rename, holeOr_rename, firstSome_rename, PExpr.renameCalls])


theorem mapErr_ok {α : Type} (f : CErr → CErr) (a : α) : (LRes.ok a).mapErr f = .ok a := rfl
theorem mapErr_err {α : Type} (f : CErr → CErr) (e : CErr) : (LRes.err e : LRes α).mapErr f = .err (f e) := rfl
theorem mapErr_panic {α : Type} (f : CErr → CErr) (s : String) : (LRes.panic s : LRes α).mapErr f = .panic s := rfl

/-- errors the respelling cannot show in: everything but `UndefinedFunction` -/
theorem rename_other (ρ) (loc : Loc) (k : CErrKind) (h : ∀ n, k ≠ .undefinedFunction n) : CErr.rename ρ ⟨loc, k⟩ = ⟨loc, k⟩ := by
  unfold CErr.rename; cases k <;> simp_all

theorem lowerX_case (ρ : List Char → List Char) (hρ : CaseOnly ρ) :
    ∀ x, lowerX (XExpr.renameCalls ρ x) = (lowerX x).mapErr (CErr.rename ρ) := by
  have hp := (lowerPlain_case ρ hρ).1
  have hb := mapErr_binop ρ
  have hu := mapErr_unop ρ
  have hc := lowerCall_case ρ hρ
  apply XExpr.rec (motive_1 := fun x => lowerX (XExpr.renameCalls ρ x) = (lowerX x).mapErr (CErr.rename ρ))
    (motive_2 := fun xs => lowerXList (XExpr.renameCallsList ρ xs) = (lowerXList xs).mapErr (CErr.rename ρ))
  case plain => intro e; rw [XExpr.renameCalls, lowerX, lowerX]; exact hp e
  case hole => rw [XExpr.renameCalls, lowerX]; rfl
  case binop =>
    intro l o a b iha ihb
    rw [XExpr.renameCalls, lowerX, lowerX, iha, ihb]
    cases lowerX a <;> simp only [LRes.mapErr]
    cases lowerX b <;> first | exact (hb _ _ _ _).symm | simp only [LRes.mapErr]
  case boolop =>
    intro o a b iha ihb
    rw [XExpr.renameCalls, lowerX, lowerX, iha, ihb]
    cases lowerX a <;> simp only [LRes.mapErr]
    cases lowerX b <;> simp only [LRes.mapErr]
  case unop =>
    intro l o a iha
    rw [XExpr.renameCalls, lowerX, lowerX, iha]
    cases lowerX a <;> first | exact (hu _ _ _).symm | simp only [LRes.mapErr]
  case invert =>
    intro a iha
    rw [XExpr.renameCalls, lowerX, lowerX, iha]
    cases lowerX a <;> simp only [LRes.mapErr]
  case nullcmp =>
    intro n a b iha ihb
    rw [XExpr.renameCalls, lowerX, lowerX, iha, ihb]
    cases lowerX a <;> simp only [LRes.mapErr]
    cases lowerX b <;> simp only [LRes.mapErr]
  case index =>
    intro a b iha ihb
    rw [XExpr.renameCalls, lowerX, lowerX, iha, ihb]
    cases lowerX a <;> simp only [LRes.mapErr]
    cases lowerX b <;> simp only [LRes.mapErr]
  case cast =>
    intro a ty iha
    rw [XExpr.renameCalls, lowerX, lowerX, iha]
    cases lowerX a <;> simp only [LRes.mapErr]
  case call =>
    intro l n args ih
    rw [XExpr.renameCalls, lowerX, lowerX, ih]
    cases lowerXList args <;> first | exact hc _ _ _ | simp only [LRes.mapErr]
  case nil => rw [XExpr.renameCallsList, lowerXList]; rfl
  case cons =>
    intro x xs ihx ihxs
    rw [XExpr.renameCallsList, lowerXList, lowerXList, ihx, ihxs]
    cases lowerX x <;> simp only [LRes.mapErr]
    cases lowerXList xs <;> simp only [LRes.mapErr]

theorem renameCallsList_length (ρ) : ∀ es : List PExpr, (PExpr.renameCallsList ρ es).length = es.length := by
  intro es; induction es with
  | nil => simp [PExpr.renameCallsList]
  | cons x xs ih => simp [PExpr.renameCallsList, ih]

theorem renameCalls_loc (ρ) (e : PExpr) : PExpr.loc (e.renameCalls ρ) = PExpr.loc e := by
  cases e <;> simp [PExpr.renameCalls, PExpr.loc]

/-- `transform_call_aggregate` on a respelled call with respelled arguments -/
theorem lowerCallAggregate_rename (ρ : List Char → List Char) (hρ : CaseOnly ρ) (loc n args d i) :
    lowerCallAggregate loc (ρ n) (PExpr.renameCallsList ρ args) d i
      = (lowerCallAggregate loc n args d i).mapErr (CErr.rename ρ) := by
  have hp := (lowerPlain_case ρ hρ).1
  rw [lowerCallAggregate_case (hρ n)]
  unfold lowerCallAggregate
  dsimp only
  by_cases h1 : str (lowerChars n) = "count"
  · simp only [h1, if_true]
    cases args with
    | nil => simp [PExpr.renameCallsList, LRes.mapErr]
    | cons a0 rest =>
      cases rest with
      | nil =>
        simp only [PExpr.renameCallsList, List.isEmpty_cons, Bool.false_eq_true, if_false, List.length_singleton, if_true,
          hp, renameCalls_loc]
        cases lowerPlain a0 with
        | ok e => cases e <;> simp [LRes.mapErr, CErr.rename]
        | err e => simp [LRes.mapErr]
        | panic s => simp [LRes.mapErr]
      | cons a1 rest2 => simp [PExpr.renameCallsList, LRes.mapErr, CErr.rename]
  · simp only [h1, if_false]
    by_cases h2 : aggregateNames.contains (str (lowerChars n)) = true
    · simp only [h2, if_true]
      cases args with
      | nil => simp [PExpr.renameCallsList, LRes.mapErr, CErr.rename]
      | cons a0 rest =>
        cases rest with
        | nil =>
          simp only [PExpr.renameCallsList, List.length_singleton, if_true, hp]
          cases lowerPlain a0 with
          | ok e => simp only [LRes.mapErr]; cases aggOfName1 (str (lowerChars n)) e <;> simp [LRes.mapErr, CErr.rename]
          | err e => simp [LRes.mapErr]
          | panic s => simp [LRes.mapErr]
        | cons a1 rest2 =>
          cases rest2 with
          | nil =>
            simp only [PExpr.renameCallsList, List.length_cons, List.length_nil, hp]
            simp only [show (0 + 1 + 1 = 1) = False by simp, if_false, show (0 + 1 + 1 = 2) = True by simp, if_true]
            cases lowerPlain a0 with
            | ok e0 =>
              cases lowerPlain a1 with
              | ok e1 =>
                simp only [LRes.mapErr]
                by_cases hpct : str (lowerChars n) = "percentile"
                · simp only [hpct, if_true]; cases e1 with
                  | value v => cases v <;> simp [LRes.mapErr, CErr.rename]
                  | _ => simp [LRes.mapErr, CErr.rename]
                · simp only [hpct, if_false]
                  by_cases hsa : str (lowerChars n) = "string_agg"
                  · simp only [hsa, if_true]; cases e1 with
                    | value v => cases v <;> simp [LRes.mapErr, CErr.rename]
                    | _ => simp [LRes.mapErr, CErr.rename]
                  · simp [hsa, LRes.mapErr, CErr.rename]
              | err e => simp [LRes.mapErr]
              | panic s => simp [LRes.mapErr]
            | err e => simp [LRes.mapErr]
            | panic s => simp [LRes.mapErr]
          | cons a2 rest3 => simp [PExpr.renameCallsList, LRes.mapErr, CErr.rename]
    · rw [if_neg h2, if_neg h2]; simp [LRes.mapErr, CErr.rename]


theorem lowerAggregate_rename (ρ : List Char → List Char) (hρ : CaseOnly ρ) (tree : PExpr) (i : Nat) :
    lowerAggregate (tree.renameCalls ρ) i = (lowerAggregate tree i).mapErr (CErr.rename ρ) := by
  have hc := (countAggregates_rename ρ hρ).1 tree
  have hx := (extractAggregate_rename ρ hρ).1 tree
  have hp := (lowerPlain_case ρ hρ).1 tree
  unfold lowerAggregate
  simp only [hc, renameCalls_loc, hx]
  by_cases h1 : countAggregates tree > 1
  · simp [h1, LRes.mapErr, CErr.rename]
  · simp only [h1, if_false]
    by_cases h2 : countAggregates tree > 0
    · simp only [h2, if_true]
      cases hex : (extractAggregate tree).1 with
      | none => simp [LRes.mapErr, CErr.rename]
      | some x =>
        cases x with
        | column c => simp [Extracted.rename, LRes.mapErr, CErr.rename]
        | call name args d =>
          simp only [Option.map_some, Extracted.rename, lowerCallAggregate_rename ρ hρ, lowerX_case ρ hρ]
          cases lowerCallAggregate (PExpr.loc tree) name args d i with
          | ok r =>
            simp only [LRes.mapErr]
            cases (extractAggregate tree).2.1 with
            | true => simp
            | false => simp only [Bool.false_eq_true, if_false]; cases lowerX (extractAggregate tree).2.2 <;> simp [LRes.mapErr]
          | err e => simp [LRes.mapErr]
          | panic s => simp [LRes.mapErr]
    · simp only [h2, if_false, hp]
      cases lowerPlain tree <;> simp [LRes.mapErr]

theorem lowerHaving_rename (ρ : List Char → List Char) (hρ : CaseOnly ρ) :
    (∀ e st, lowerHaving (e.renameCalls ρ) st = (lowerHaving e st).mapErr (CErr.rename ρ)) ∧
    (∀ es st, lowerHavingList (PExpr.renameCallsList ρ es) st = (lowerHavingList es st).mapErr (CErr.rename ρ)) ∧
    (∀ cs st, lowerHavingClauses (PExpr.renameCallsClauses ρ cs) st = (lowerHavingClauses cs st).mapErr (CErr.rename ρ)) := by
  have hb := mapErr_binop ρ
  have hu := mapErr_unop ρ
  have hc := lowerCall_case ρ hρ
  have hca := lowerCallAggregate_rename ρ hρ
  apply PExpr.induct3
  case value => intro l v st; rw [PExpr.renameCalls, lowerHaving]; rfl
  case column => intro l n st; rw [PExpr.renameCalls, lowerHaving]; rfl
  case wildcard => intro l st; rw [PExpr.renameCalls, lowerHaving]; rfl
  case tuple => intro l vs _ st; rw [PExpr.renameCalls, lowerHaving, lowerHaving]; rfl
  case binop =>
    intro l o a b iha ihb st
    rw [PExpr.renameCalls, lowerHaving, lowerHaving, iha]
    cases lowerHaving a st with
    | ok r => obtain ⟨a', st1⟩ := r; simp only [LRes.mapErr]; rw [ihb]
              cases lowerHaving b st1 with
              | ok r2 => obtain ⟨b', st2⟩ := r2; simp only [LRes.mapErr]
                         have := hb l o a' b'
                         cases hlb : lowerBinop l o a' b' <;> simp_all [LRes.mapErr]
              | err e => simp [LRes.mapErr]
              | panic s => simp [LRes.mapErr]
    | err e => simp [LRes.mapErr]
    | panic s => simp [LRes.mapErr]
  case boolop =>
    intro l o a b iha ihb st
    rw [PExpr.renameCalls, lowerHaving, lowerHaving, iha]
    cases lowerHaving a st with
    | ok r => obtain ⟨a', st1⟩ := r; simp only [LRes.mapErr]; rw [ihb]
              cases lowerHaving b st1 with
              | ok r2 => obtain ⟨b', st2⟩ := r2; simp [LRes.mapErr]
              | err e => simp [LRes.mapErr]
              | panic s => simp [LRes.mapErr]
    | err e => simp [LRes.mapErr]
    | panic s => simp [LRes.mapErr]
  case nullcmp =>
    intro l o a b iha ihb st
    rw [PExpr.renameCalls, lowerHaving, lowerHaving, iha]
    cases lowerHaving a st with
    | ok r => obtain ⟨a', st1⟩ := r; simp only [LRes.mapErr]; rw [ihb]
              cases lowerHaving b st1 with
              | ok r2 => obtain ⟨b', st2⟩ := r2; simp [LRes.mapErr]
              | err e => simp [LRes.mapErr]
              | panic s => simp [LRes.mapErr]
    | err e => simp [LRes.mapErr]
    | panic s => simp [LRes.mapErr]
  case index =>
    intro l a b iha ihb st
    rw [PExpr.renameCalls, lowerHaving, lowerHaving, iha]
    cases lowerHaving a st with
    | ok r => obtain ⟨a', st1⟩ := r; simp only [LRes.mapErr]; rw [ihb]
              cases lowerHaving b st1 with
              | ok r2 => obtain ⟨b', st2⟩ := r2; simp [LRes.mapErr]
              | err e => simp [LRes.mapErr]
              | panic s => simp [LRes.mapErr]
    | err e => simp [LRes.mapErr]
    | panic s => simp [LRes.mapErr]
  case unop =>
    intro l o a iha st
    rw [PExpr.renameCalls, lowerHaving, lowerHaving, iha]
    cases lowerHaving a st with
    | ok r => obtain ⟨a', st1⟩ := r; simp only [LRes.mapErr]
              have := hu l o a'
              cases hlu : lowerUnop l o a' <;> simp_all [LRes.mapErr]
    | err e => simp [LRes.mapErr]
    | panic s => simp [LRes.mapErr]
  case invert =>
    intro l a iha st
    rw [PExpr.renameCalls, lowerHaving, lowerHaving, iha]
    cases lowerHaving a st with
    | ok r => obtain ⟨a', st1⟩ := r; simp [LRes.mapErr]
    | err e => simp [LRes.mapErr]
    | panic s => simp [LRes.mapErr]
  case cast =>
    intro l a ty iha st
    rw [PExpr.renameCalls, lowerHaving, lowerHaving, iha]
    cases lowerHaving a st with
    | ok r => obtain ⟨a', st1⟩ := r; simp [LRes.mapErr]
    | err e => simp [LRes.mapErr]
    | panic s => simp [LRes.mapErr]
  case inList =>
    intro l n a vs iha ihvs st
    rw [PExpr.renameCalls, lowerHaving, lowerHaving, iha]
    cases lowerHaving a st with
    | ok r => obtain ⟨a', st1⟩ := r; simp only [LRes.mapErr]; rw [ihvs]
              cases lowerHavingList vs st1 with
              | ok r2 => obtain ⟨b', st2⟩ := r2; simp [LRes.mapErr]
              | err e => simp [LRes.mapErr]
              | panic s => simp [LRes.mapErr]
    | err e => simp [LRes.mapErr]
    | panic s => simp [LRes.mapErr]
  case call =>
    intro l n args d ihargs st
    rw [PExpr.renameCalls, lowerHaving, lowerHaving, hca]
    cases hagg : lowerCallAggregate l n args d 0 with
    | ok r => obtain ⟨nm, k⟩ := r; simp [LRes.mapErr]
    | panic s => simp [LRes.mapErr]
    | err e =>
      simp only [LRes.mapErr]
      have hk : (CErr.rename ρ e).kind = .undefinedAggregate ↔ e.kind = .undefinedAggregate := by
        unfold CErr.rename; cases hke : e.kind <;> simp_all
      by_cases hua : e.kind = .undefinedAggregate
      · have hua' : (CErr.rename ρ e).kind = .undefinedAggregate := hk.mpr hua
        simp only [hua, hua', ne_eq, not_true_eq_false, if_false]
        rw [ihargs]
        cases lowerHavingList args st with
        | ok r2 => obtain ⟨b', st2⟩ := r2; simp only [LRes.mapErr]
                   have := hc l n b'
                   cases hlc : lowerCall l n b' <;> simp_all [LRes.mapErr]
        | err e => simp [LRes.mapErr]
        | panic s => simp [LRes.mapErr]
      · have hua' : ¬(CErr.rename ρ e).kind = .undefinedAggregate := fun h => hua (hk.mp h)
        simp [hua, hua', LRes.mapErr]
  case case =>
    intro l cs els ihcs ihels st
    rw [PExpr.renameCalls, lowerHaving, lowerHaving, ihcs]
    cases lowerHavingClauses cs st with
    | ok r => obtain ⟨a', st1⟩ := r; simp only [LRes.mapErr]; rw [ihels]
              cases lowerHaving els st1 with
              | ok r2 => obtain ⟨b', st2⟩ := r2; simp [LRes.mapErr]
              | err e => simp [LRes.mapErr]
              | panic s => simp [LRes.mapErr]
    | err e => simp [LRes.mapErr]
    | panic s => simp [LRes.mapErr]
  case nil => intro st; rw [PExpr.renameCallsList, lowerHavingList]; rfl
  case cons =>
    intro x xs ihx ihxs st
    rw [PExpr.renameCallsList, lowerHavingList, lowerHavingList, ihx]
    cases lowerHaving x st with
    | ok r => obtain ⟨a', st1⟩ := r; simp only [LRes.mapErr]; rw [ihxs]
              cases lowerHavingList xs st1 with
              | ok r2 => obtain ⟨b', st2⟩ := r2; simp [LRes.mapErr]
              | err e => simp [LRes.mapErr]
              | panic s => simp [LRes.mapErr]
    | err e => simp [LRes.mapErr]
    | panic s => simp [LRes.mapErr]
  case cnil => intro st; rw [PExpr.renameCallsClauses, lowerHavingClauses]; rfl
  case ccons =>
    intro c r xs ihc ihr ihxs st
    rw [PExpr.renameCallsClauses, lowerHavingClauses, lowerHavingClauses, ihc]
    cases lowerHaving c st with
    | ok r1 => obtain ⟨a', st1⟩ := r1; simp only [LRes.mapErr]; rw [ihr]
               cases lowerHaving r st1 with
               | ok r2 => obtain ⟨b', st2⟩ := r2; simp only [LRes.mapErr]; rw [ihxs]
                          cases lowerHavingClauses xs st2 with
                          | ok r3 => obtain ⟨c', st3⟩ := r3; simp [LRes.mapErr]
                          | err e => simp [LRes.mapErr]
                          | panic s => simp [LRes.mapErr]
               | err e => simp [LRes.mapErr]
               | panic s => simp [LRes.mapErr]
    | err e => simp [LRes.mapErr]
    | panic s => simp [LRes.mapErr]


end Lower

/-- respell every call name of a SELECT (projections, WHERE, GROUP BY, HAVING) -/
def PSelect.renameCalls (ρ : List Char → List Char) (q : PSelect) : PSelect :=
  { q with projections := q.projections.map (fun p => (p.1, p.2.renameCalls ρ)),
           filter := q.filter.map (PExpr.renameCalls ρ),
           groupBy := q.groupBy.map (PExpr.renameCallsList ρ),
           having := q.having.map (PExpr.renameCalls ρ) }

def POp.renameCalls (ρ : List Char → List Char) : POp → POp
  | .select q => .select (q.renameCalls ρ)
  | t => t

namespace Lower

theorem lowerOpt_rename (ρ) (hρ : CaseOnly ρ) (o : Option PExpr) :
    lowerOpt lowerPlain (o.map (PExpr.renameCalls ρ)) = (lowerOpt lowerPlain o).mapErr (CErr.rename ρ) := by
  cases o with
  | none => rfl
  | some e => simp only [Option.map_some, lowerOpt, (lowerPlain_case ρ hρ).1]; cases lowerPlain e <;> rfl

theorem lowerHavingOpt_rename (ρ) (hρ : CaseOnly ρ) (o : Option PExpr) :
    lowerHavingOpt (o.map (PExpr.renameCalls ρ)) = (lowerHavingOpt o).mapErr (CErr.rename ρ) := by
  cases o with
  | none => rfl
  | some e => simp only [Option.map_some, lowerHavingOpt, (lowerHaving_rename ρ hρ).1]; cases lowerHaving e {} <;> rfl

theorem lowerGroupBy_rename (ρ) (hρ : CaseOnly ρ) (o : Option (List PExpr)) :
    lowerGroupBy (o.map (PExpr.renameCallsList ρ)) = (lowerGroupBy o).mapErr (CErr.rename ρ) := by
  cases o with
  | none => rfl
  | some es => simp only [Option.map_some, lowerGroupBy, (lowerPlain_case ρ hρ).2.1]; cases lowerPlainList es <;> rfl

theorem lowerProjections_rename (ρ) (hρ : CaseOnly ρ) : ∀ (ps : List (Option (List Char) × PExpr)) (i : Nat),
    lowerProjections (ps.map (fun p => (p.1, p.2.renameCalls ρ))) i = (lowerProjections ps i).mapErr (CErr.rename ρ) := by
  intro ps
  induction ps with
  | nil => intro i; rfl
  | cons p rest ih =>
    intro i
    obtain ⟨name, tree⟩ := p
    simp only [List.map_cons, lowerProjections, (lowerPlain_case ρ hρ).1, ih]
    cases lowerPlain tree with
    | ok e => simp only [LRes.mapErr]; cases lowerProjections rest (i + 1) <;> rfl
    | err e => rfl
    | panic s => rfl

theorem lowerItems_rename (ρ) (hρ : CaseOnly ρ) : ∀ (ps : List (Option (List Char) × PExpr)) (i : Nat),
    lowerItems (ps.map (fun p => (p.1, p.2.renameCalls ρ))) i = (lowerItems ps i).mapErr (CErr.rename ρ) := by
  intro ps
  induction ps with
  | nil => intro i; rfl
  | cons p rest ih =>
    intro i
    obtain ⟨name, tree⟩ := p
    simp only [List.map_cons, lowerItems, lowerAggregate_rename ρ hρ, ih]
    cases lowerAggregate tree i with
    | ok r => obtain ⟨dn, k, tr⟩ := r; simp only [LRes.mapErr]; cases lowerItems rest (i + 1) <;> rfl
    | err e => rfl
    | panic s => rfl

theorem mapErr_join (ρ) (loc f j) : (lowerJoin loc f j).mapErr (CErr.rename ρ) = lowerJoin loc f j := by
  unfold lowerJoin
  repeat' split
  all_goals simp [LRes.mapErr, CErr.rename]

theorem anyAggregates_rename (ρ) (hρ : CaseOnly ρ) (ps : List (Option (List Char) × PExpr)) :
    anyAggregates (ps.map (fun p => (p.1, p.2.renameCalls ρ))) = anyAggregates ps := by
  unfold anyAggregates
  simp [List.any_map, Function.comp_def, (countAggregates_rename ρ hρ).1]

theorem lowerSelect_rename (ρ) (hρ : CaseOnly ρ) (q : PSelect) :
    lowerSelect (q.renameCalls ρ) = (lowerSelect q).mapErr (CErr.rename ρ) := by
  have hj := mapErr_join ρ q.loc q.fromTable q.join
  unfold lowerSelect
  simp only [PSelect.renameCalls, lowerProjections_rename ρ hρ, lowerOpt_rename ρ hρ]
  cases lowerProjections q.projections 0 with
  | ok ps =>
    simp only [LRes.mapErr]
    cases lowerOpt lowerPlain q.filter with
    | ok f => simp only [LRes.mapErr]; cases hlj : lowerJoin q.loc q.fromTable q.join <;> simp_all [LRes.mapErr]
    | err e => rfl
    | panic s => rfl
  | err e => rfl
  | panic s => rfl

theorem lowerAggregateStmt_rename (ρ) (hρ : CaseOnly ρ) (q : PSelect) :
    lowerAggregateStmt (q.renameCalls ρ) = (lowerAggregateStmt q).mapErr (CErr.rename ρ) := by
  have hj := mapErr_join ρ q.loc q.fromTable q.join
  unfold lowerAggregateStmt
  simp only [PSelect.renameCalls, lowerItems_rename ρ hρ, lowerOpt_rename ρ hρ, lowerHavingOpt_rename ρ hρ,
    lowerGroupBy_rename ρ hρ]
  cases lowerItems q.projections 0 with
  | ok items =>
    simp only [LRes.mapErr]
    cases lowerOpt lowerPlain q.filter with
    | ok f =>
      simp only [LRes.mapErr]
      cases lowerHavingOpt q.having with
      | ok h =>
        simp only [LRes.mapErr]
        cases hlj : lowerJoin q.loc q.fromTable q.join with
        | ok j => simp only [LRes.mapErr]; cases lowerGroupBy q.groupBy <;> rfl
        | err e => simp_all [LRes.mapErr]
        | panic s => rfl
      | err e => rfl
      | panic s => rfl
    | err e => rfl
    | panic s => rfl
  | err e => rfl
  | panic s => rfl

theorem lowerCreate_err (rv : List Char → Bool) (c : PCreate) (e : CErr) (h : lowerCreate rv c = .err e) :
    e = ⟨c.loc, .invalidPattern⟩ := by
  unfold lowerCreate at h
  cases hc : lowerColumns c.columns with
  | ok cols =>
    rw [hc] at h
    by_cases hv : (c.patterns.all fun p => rv p.2.1) = true
    · simp [hv] at h
    · simp [hv] at h; exact h.symm
  | err e' => exact absurd hc (lowerColumns_noErr _ _)
  | panic s => rw [hc] at h; simp at h

theorem mapErr_create (ρ) (rv : List Char → Bool) (c : PCreate) :
    (lowerCreate rv c).mapErr (CErr.rename ρ) = lowerCreate rv c := by
  cases h : lowerCreate rv c with
  | ok s => rfl
  | err e => rw [lowerCreate_err rv c e h]; rfl
  | panic s => rfl

/-- **letter case of function and aggregate names does not matter to a whole statement**: respelling every call name
of a SELECT (projections, WHERE, GROUP BY, HAVING) by a change of letter case gives the same lowered statement; an
error differs only in the spelling carried by `UndefinedFunction` -/
theorem lowerStatement_rename (ρ : List Char → List Char) (hρ : CaseOnly ρ) (rv : List Char → Bool) (t : POp) :
    lowerStatement rv (t.renameCalls ρ) = (lowerStatement rv t).mapErr (CErr.rename ρ) := by
  cases t with
  | select q =>
    simp only [POp.renameCalls, lowerStatement]
    have hg : (q.renameCalls ρ).groupBy.isSome = q.groupBy.isSome := by simp [PSelect.renameCalls]
    have hh : (q.renameCalls ρ).having.isSome = q.having.isSome := by simp [PSelect.renameCalls]
    have ha : anyAggregates (q.renameCalls ρ).projections = anyAggregates q.projections := anyAggregates_rename ρ hρ _
    have hl : (q.renameCalls ρ).loc = q.loc := rfl
    simp only [hg, hh, ha, hl, lowerSelect_rename ρ hρ, lowerAggregateStmt_rename ρ hρ]
    repeat' split
    all_goals first | rfl | simp [LRes.mapErr, CErr.rename]
  | createTable c =>
    simp only [POp.renameCalls, lowerStatement]
    exact (mapErr_create ρ rv c).symm
  | multiple cs =>
    simp only [POp.renameCalls, lowerStatement]
    have : ∀ cs : List PCreate, (lowerCreates rv cs).mapErr (CErr.rename ρ) = lowerCreates rv cs := by
      intro cs
      induction cs with
      | nil => rfl
      | cons c rest ih =>
        rw [lowerCreates]
        have hc1 := mapErr_create ρ rv c
        cases hlc : lowerCreate rv c with
        | ok s => simp only []; cases hlr : lowerCreates rv rest <;> simp_all [LRes.mapErr]
        | err e => simp_all [LRes.mapErr]
        | panic s => rfl
    have h := this cs
    cases hl : lowerCreates rv cs <;> simp_all [LRes.mapErr]

end Lower
end Sqlgrep
