import SqlgrepModel.Sexp
import SqlgrepModel.Model.DecFloat
import SqlgrepModel.Model.ParseLit
import SqlgrepModel.Drivers.Extract
import SqlgrepModel.Drivers.JsonDocD
/-
Cross-check of shipped library facts against the Lean functions that *predict* them. Every case line is scanned
before it is dispatched; a shipped fact that differs from the computed one makes the driver answer
`fact-mismatch <what> <text> shipped=… computed=…` instead of the model's answer (which the check then reports as a
disagreement, with the case as replay). Checked:

* `f64::from_str` facts — `(oracles (fparse (xTEXT BITS|none)…) …)` (evaluator), `(f64 (xTEXT BITS|none)…)`
  (extraction), the number table of `tok` / `e2e` cases `(((cp…) BITS|e)…)` — against `DecFloat.parseF64N`;
* `NaiveDateTime::parse_from_str(_, "%Y-%m-%d %H:%M:%S")` facts — `(oracles … (tsparse (xTEXT (d s f)|none)…) …)` —
  against `Lit.parseTimestampLit`;
* the serde_json rendering shipped for a finite REAL — `(reals (BITS xFIXED2 xJSON)…)` and the table of `print`
  cases — must parse back to the same bits, both by `f64::from_str` (`parseF64N`, `real-roundtrip`) and by the RFC 8259
  grammar with nearest rounding (`JsonDoc.readReal`, `real-json-roundtrip`: the hypothesis `RealReadsBack` of
  `Props/C17Json.json_real_reads_back`); the rendering itself stays an oracle;
* the `serde_json::from_str::<Value>` document shipped for a line — `(json J)` / `notjson` in `extract` cases and in the
  `(lines (l xLINE … FACT)…)` section of `e2e` cases — against `JsonDoc.docOfLine` of the line's bytes.
-/
namespace Sqlgrep.Drivers.FactCheck
open Sqlgrep

def showOptNat : Option Nat → String
  | some b => toString b
  | none => "none"

def firstSome {α : Type} (xs : List α) (f : α → Option String) : Option String := xs.findSome? f

def f64Mismatch (what : String) (text : List Nat) (shipped : Option Nat) : Option String :=
  let computed := DecFloat.parseF64N text
  if computed == shipped then none
  else some s!"fact-mismatch {what} {Sexp.showBytes text} shipped={showOptNat shipped} computed={showOptNat computed}"

/-- `(xTEXT BITS|none)` -/
def checkF64Entry (what : String) : Sexp → Option String
  | .list [t, .atom "none"] => t.bytes?.bind (fun bs => f64Mismatch what bs none)
  | .list [t, b] =>
    match t.bytes?, b.nat? with
    | some bs, some b => f64Mismatch what bs (some b)
    | _, _ => none
  | _ => none

/-- `((cp…) BITS|e)` -/
def checkNumEntry : Sexp → Option String
  | .list [.list cps, .atom a] =>
    match cps.mapM Sexp.nat? with
    | some text =>
      if a == "e" then f64Mismatch "number" text none
      else match a.toNat? with
        | some b => f64Mismatch "number" text (some b)
        | none => none
    | none => none
  | _ => none

def showTs : Option (Int × Int × Int) → String
  | some (d, s, f) => s!"({d} {s} {f})"
  | none => "none"

def tsMismatch (text : List Nat) (shipped : Option (Int × Int × Int)) : Option String :=
  let computed : Option (Int × Int × Int) :=
    match Lit.parseTimestampLit text with
    | some (.timestamp d s f) => some (d, s, f)
    | _ => none
  if computed == shipped then none
  else some s!"fact-mismatch tsparse {Sexp.showBytes text} shipped={showTs shipped} computed={showTs computed}"

/-- `(xTEXT (d s f)|none)` -/
def checkTsEntry : Sexp → Option String
  | .list [t, .atom "none"] => t.bytes?.bind (fun bs => tsMismatch bs none)
  | .list [t, .list [d, s, f]] =>
    match t.bytes?, d.int?, s.int?, f.int? with
    | some bs, some d, some s, some f => tsMismatch bs (some (d, s, f))
    | _, _, _, _ => none
  | _ => none

/-- `(BITS xFIXED2 xJSON)`: the JSON rendering of a finite REAL reads back as the same REAL -/
def checkRealEntry : Sexp → Option String
  | .list [b, _, j] =>
    match b.nat?, j.bytes? with
    | some bits, some text =>
      if bits % 2 ^ 63 < 0x7ff0000000000000 then
        (if DecFloat.parseF64N text != some bits then
           some s!"fact-mismatch real-roundtrip {bits} {Sexp.showBytes text} reads-back={showOptNat (DecFloat.parseF64N text)}"
         else if JsonDoc.readReal (text.map Char.ofNat) != some bits then
           some s!"fact-mismatch real-json-roundtrip {bits} {Sexp.showBytes text} reads-back={showOptNat (JsonDoc.readReal (text.map Char.ofNat))}"
         else none)
      else none
    | _, _ => none
  | _ => none

/-- the shipped document of a line against the computed one -/
def docMismatch (line : List Nat) (fact : Sexp) : Option String :=
  let shipped : Option (Option Json) :=
    match fact with
    | .atom "notjson" => some none
    | .list [.atom "json", j] => (Drivers.Extract.jsonOfSexp j).map some
    | _ => none            -- `nojson` (not needed), `compute` (not shipped): nothing to compare
  match shipped with
  | none => none
  | some sh =>
    let computed := JsonDoc.docOfLine line
    if Drivers.JsonDocD.docWire computed == Drivers.JsonDocD.docWire sh then none
    else some s!"fact-mismatch json {Sexp.showBytes line} shipped={Drivers.JsonDocD.docWire sh} computed={Drivers.JsonDocD.docWire computed}"

/-- `(l xLINE (caps…) (splits…) FACT)` -/
def checkLineEntry : Sexp → Option String
  | .list [.atom "l", line, _, _, fact] => line.bytes?.bind (fun l => docMismatch l fact)
  | _ => none

/-- `extract … (line xHEX) … FACT …`: the line and the document fact are two of the arguments -/
def checkExtractCase (args : List Sexp) : Option String :=
  let line? := args.findSome? fun
    | .list [.atom "line", l] => l.bytes?
    | _ => none
  match line? with
  | some line => firstSome args (fun a => match a with
      | .atom "notjson" => docMismatch line a
      | .list [.atom "json", _] => docMismatch line a
      | _ => none)
  | none => none

/-- a tagged top-level section -/
def checkSection : Sexp → Option String
  | .list (.atom "oracles" :: parts) =>
    firstSome parts fun
      | .list (.atom "fparse" :: xs) => firstSome xs (checkF64Entry "fparse")
      | .list (.atom "tsparse" :: xs) => firstSome xs checkTsEntry
      | _ => none
  | .list (.atom "f64" :: xs) => firstSome xs (checkF64Entry "f64")
  | .list (.atom "reals" :: xs) => firstSome xs checkRealEntry
  | .list (.atom "lines" :: xs) => firstSome xs checkLineEntry
  | _ => none

def tableAt (args : List Sexp) (i : Nat) : List Sexp :=
  match args[i]? with
  | some (Sexp.list xs) => xs
  | _ => []

/-- untagged tables, by case kind and position -/
def checkPositional (kind : String) (args : List Sexp) : Option String :=
  match kind with
  | "tok" => firstSome (tableAt args 2) checkNumEntry
  | "e2e" => firstSome (tableAt args 7) checkNumEntry
  | "print" => firstSome (tableAt args 3) checkRealEntry
  | "extract" => checkExtractCase args
  | _ => none

def check (kind : String) (args : List Sexp) : Option String :=
  match firstSome args checkSection with
  | some m => some m
  | none => checkPositional kind args

end Sqlgrep.Drivers.FactCheck
