import SqlgrepModel.Codec
import SqlgrepModel.Model.Print
import SqlgrepModel.Model.Reader
import SqlgrepModel.Lemmas.PrintGrammar
import SqlgrepModel.Lemmas.PrintReal
/- Driver handler for C17 cases:
`print FMT FIRST ((SINGLE (xCOL…) ((v…)…))…) ((BITS xFIXED2 xJSON)…)` → the lines handed to `println`
(`lines N xHEX…`), or `panic` when an index of `OutputPrinter::print` is out of range.
In JSON format the hypotheses of the grammar theorems (`Props/C17Json.lean`) are evaluated on the case
(`jsonHypotheses`): a case that violated them would answer `hypothesis-violated` and show up as a disagreement. -/
namespace Sqlgrep.Drivers.Print
open Sqlgrep Sqlgrep.Print

def format? : Sexp → Option Format
  | .atom "text" => some .text
  | .atom "json" => some .json
  | .list [.atom "csv", d] => d.bytes?.map .csv
  | _ => none

def rows? : List Sexp → Option (List (List Value))
  | [] => some []
  | r :: rest => do
      let cells ← r.list?
      let vs ← Value.ofSexps cells
      let more ← rows? rest
      pure (vs :: more)

def result? : Sexp → Option (ResultRow × Bool)
  | .list [single, .list cols, .list rows] => do
      let s ← single.nat?
      let cs ← cols.mapM Sexp.bytes?
      let rs ← rows? rows
      pure ({ columns := cs, rows := rs }, s != 0)
  | _ => none

def oracleEntry? : Sexp → Option (Nat × Bytes × Bytes)
  | .list [b, f, j] => do pure (← b.nat?, ← f.bytes?, ← j.bytes?)
  | _ => none

def mkOracle (tbl : List (Nat × Bytes × Bytes)) : RealOracle :=
  { fixed2 := fun b => match tbl.find? (·.1 == b) with | some e => e.2.1 | none => [63]
    json := fun b => match tbl.find? (·.1 == b) with | some e => e.2.2 | none => [63] }

/-- the hypotheses of `Props/C17Json.printed_json_lines_are_json` / `json_record_denotes_row`, evaluated:
every column name and every TEXT payload is valid UTF-8 (`Reader.validUtf8`, which implies `IsUtf8`), the
text shipped for every finite REAL of the rows is a JSON number of RFC 8259 §6 (`RealTextsOk`), and — hypothesis of
`json_real_reads_back` / `json_record_reals_read_back` — that text reads back, by the RFC grammar and nearest rounding, as
the same REAL (`RealReadsBack`) -/
def jsonHypotheses (o : RealOracle) (results : List (ResultRow × Bool)) : Bool :=
  results.all fun r =>
    r.1.columns.all Reader.validUtf8 &&
    r.1.rows.all fun row => row.all fun v => decide (RealTextsOk o v) && decide (RealReadsBack o v) && (allTexts v).all Reader.validUtf8

def handle (args : List Sexp) : String :=
  match args with
  | [fmt, first, .list results, .list oracle] =>
    match format? fmt, first.nat?, results.mapM result?, oracle.mapM oracleEntry? with
    | some fmt, some first, some results, some tbl =>
      if results.any (fun r => resultPanics fmt r.1) then "panic"
      else if fmt == .json && !jsonHypotheses (mkOracle tbl) results then "hypothesis-violated"
      else
        let lines := (printAll (mkOracle tbl) fmt (first != 0) results).map Line.bytes
        "lines " ++ toString lines.length ++ String.join (lines.map fun l => " " ++ Sexp.showBytes l)
    | _, _, _, _ => "bad-case"
  | _ => "bad-case"

end Sqlgrep.Drivers.Print
