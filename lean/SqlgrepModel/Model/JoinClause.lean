import SqlgrepModel.Model.Expr
/-
`transform_join` (src/parsing/parser_tree_converter.rs): which side of `ON a.x = b.y` is the queried table's
(joiner) column and which the joined table's.
-/
namespace Sqlgrep

/-- `ParserJoinClause`: `… JOIN joinerTable::'file' ON leftTable.leftColumn = rightTable.rightColumn` -/
structure OnClause where
  joinerTable : String
  leftTable : String
  leftColumn : String
  rightTable : String
  rightColumn : String
  deriving Repr, Inhabited

inductive JoinResolveError where
  | invalidOnJoin | invalidJoinerTable
  deriving DecidableEq, Repr, Inhabited

/-- `transform_join` for `FROM fromTable`: the (joiner column, joined column) of the lowered `JoinClause` -/
def resolveJoin (fromTable : String) (on : OnClause) : Except JoinResolveError (String × String) :=
  if on.leftTable == fromTable then
    if on.rightTable == on.joinerTable then .ok (on.leftColumn, on.rightColumn) else .error .invalidJoinerTable
  else if on.rightTable == fromTable then
    if on.leftTable == on.joinerTable then .ok (on.rightColumn, on.leftColumn) else .error .invalidJoinerTable
  else .error .invalidOnJoin

/-- the same clause written the other way round -/
def OnClause.swap (on : OnClause) : OnClause :=
  { on with leftTable := on.rightTable, leftColumn := on.rightColumn, rightTable := on.leftTable, rightColumn := on.leftColumn }

end Sqlgrep
