import SqlgrepModel.Lemmas.LexRun
import SqlgrepModel.Lemmas.LexWords
/-
The tokenizer fold over rendered pieces: gaps (whitespace, comments), string literals, words, numbers,
operators; and the induction over a lexeme sequence that yields `tokenize_render` (Props/C20.lean).
-/
set_option linter.unusedSimpArgs false
namespace Sqlgrep.Lex
open Sqlgrep

theorem run_body (o : Oracles) {st : St} (h : st.pend = .none) (c : Char) (cs : List Char) :
    run o st (c :: cs) = run o (body o st c) cs := by
  rw [run_cons, step_of_pend_none o st c h]; rfl

/-! ### comments and gaps -/

theorem run_incom (o : Oracles) (b : List Char) : ∀ {st : St} {T : List Tok}, InCom st T → '\n' ∉ b →
    ∃ st', run o st (b ++ ['\n']) = .run st' ∧ Clean st' T false := by
  induction b with
  | nil =>
    intro st T h _
    exact ⟨_, by rw [List.nil_append, run_body o h.pend]; rfl, (body_incom o '\n' h).1 rfl⟩
  | cons c b ih =>
    intro st T h hb
    have hc : c ≠ '\n' := fun e => hb (by simp [e])
    have hb' : '\n' ∉ b := fun e => hb (by simp [e])
    obtain ⟨st', hr, hcl⟩ := ih ((body_incom o c h).2 hc) hb'
    exact ⟨st', by rw [List.cons_append, run_body o h.pend]; exact hr, hcl⟩

theorem run_dashed (o : Oracles) (b : List Char) {st : St} {T : List Tok} (h : Dashed st T) (hb : '\n' ∉ b) :
    ∃ st', run o st (b ++ ['\n']) = .run st' ∧ Clean st' T false := by
  cases b with
  | nil => exact ⟨_, by rw [List.nil_append, run_body o h.pend]; rfl, (body_dashed o '\n' h).1 rfl⟩
  | cons c b =>
    have hc : c ≠ '\n' := fun e => hb (by simp [e])
    have hb' : '\n' ∉ b := fun e => hb (by simp [e])
    obtain ⟨st', hr, hcl⟩ := run_incom o b ((body_dashed o c h).2 hc) hb'
    exact ⟨st', by rw [List.cons_append, run_body o h.pend]; exact hr, hcl⟩

/-- the two dashes of a comment opener -/
theorem run_dashes (o : Oracles) {st : St} {T : List Tok} {p : Bool} (h : Clean st T p)
    (hp : p = true → T.head? ≠ some (.op (.single '-'))) (cs : List Char) :
    ∃ st', run o st ('-' :: '-' :: cs) = run o st' cs ∧ Dashed st' T := by
  have h1 := body_dash1 o h hp
  have h2 := body_dash2 o h1 h.nodash
  exact ⟨_, by rw [run_body o h.pend, run_body o h1.pend], h2⟩

/-- a comment `-- … \n` leaves the tokens alone -/
theorem run_comment (o : Oracles) {st : St} {T : List Tok} {p : Bool} (b : List Char) (h : Clean st T p)
    (hp : p = true → T.head? ≠ some (.op (.single '-'))) (hb : '\n' ∉ b) :
    ∃ st', run o st (GapItem.comment b).text = .run st' ∧ Clean st' T false := by
  obtain ⟨st1, hr1, hd⟩ := run_dashes o h hp (b ++ ['\n'])
  obtain ⟨st2, hr2, hc⟩ := run_dashed o b hd hb
  exact ⟨st2, by rw [GapItem.text, hr1, hr2], hc⟩

/-- a whitespace character leaves the tokens alone -/
theorem body_space (o : Oracles) {st : St} {T : List Tok} {p : Bool} {c : Char} (h : Clean st T p)
    (hc : isSpace o c = true) : Clean (body o st c) T false := by
  have hs := not_special_of_space o hc
  simp only [special, List.mem_cons, List.not_mem_nil, or_false, not_or] at hs
  rw [body_clean o c h hs.2.2.2.2.2.1 hs.2.2.2.2.2.2.1, classify_space o _ _ hc]
  exact advance_clean c h

theorem run_gap (o : Oracles) (g : Gap) : ∀ {st : St} {T : List Tok} {p : Bool}, Clean st T p → g.Ok o →
    (p = true → T.head? = some (.op (.single '-')) → g.startsWithComment = false) →
    ∃ st', run o st g.text = .run st' ∧ Clean st' T (if g = [] then p else false) := by
  induction g with
  | nil => intro st T p h _ _; exact ⟨st, rfl, by simpa using h⟩
  | cons i g ih =>
    intro st T p h hok hstart
    have hi : i.Ok o := hok i (by simp)
    have hg : Gap.Ok o g := fun j hj => hok j (by simp [hj])
    have hfirst : ∃ st1, run o st i.text = .run st1 ∧ Clean st1 T false := by
      cases i with
      | ws c => exact ⟨_, by rw [GapItem.text, run_body o h.pend]; rfl, body_space o h hi⟩
      | comment b =>
        refine run_comment o b h ?_ hi
        intro hp hd
        have := hstart hp hd
        simp [Gap.startsWithComment] at this
    obtain ⟨st1, hr1, hc1⟩ := hfirst
    obtain ⟨st2, hr2, hc2⟩ := ih hc1 hg (by intro hp; cases hp)
    refine ⟨st2, ?_, ?_⟩
    · show run o st (i.text ++ Gap.text g) = _
      rw [run_append, hr1]; exact hr2
    · have : (if g = [] then false else false) = false := by split <;> rfl
      rw [this] at hc2
      simpa using hc2


/-! ### string literals -/

/-- the text between the quotes: every well-escaped body is pushed as its unescaped content -/
theorem run_str_body (o : Oracles) (n : Nat) : ∀ (body : List Char) {st : St} {T : List Tok} {s : List Char},
    body.length ≤ n → InStr st T s false → wellEscaped body = true →
    ∃ st', run o st body = .run st' ∧ InStr st' T ((unescape body).reverse ++ s) false := by
  induction n with
  | zero =>
    intro body st T s hn h _
    have : body = [] := List.length_eq_zero_iff.mp (Nat.le_zero.mp hn)
    subst this
    exact ⟨st, rfl, by simpa [unescape] using h⟩
  | succ n ih =>
    intro body st T s hn h hw
    match body, hn, hw with
    | [], _, _ => exact ⟨st, rfl, by simpa [unescape] using h⟩
    | [c], _, hw =>
      have hc : c ≠ '\\' ∧ c ≠ '\'' := by simpa [wellEscaped] using hw
      have h1 := body_instr_plain o c h hc.1 hc.2
      exact ⟨_, by rw [run_body o h.pend]; rfl, by simpa [unescape, hc.1] using h1⟩
    | c :: d :: rest, hn, hw =>
      by_cases hc : c = '\\'
      · subst hc
        have h1 := body_instr_backslash o h
        have h2 := body_instr_escaped o d h1
        have hw' : wellEscaped rest = true := by simpa [wellEscaped] using hw
        obtain ⟨st', hr, hi⟩ := ih rest (by simp at hn; omega) h2 hw'
        refine ⟨st', by rw [run_body o h.pend, run_body o h1.pend]; exact hr, ?_⟩
        simpa [unescape] using hi
      · have hq : c ≠ '\'' := by
          intro e; subst e; simp [wellEscaped] at hw
        have h1 := body_instr_plain o c h hc hq
        have hw' : wellEscaped (d :: rest) = true := by simpa [wellEscaped, hc, hq] using hw
        obtain ⟨st', hr, hi⟩ := ih (d :: rest) (by simp at hn ⊢; omega) h1 hw'
        refine ⟨st', by rw [run_body o h.pend]; exact hr, ?_⟩
        simpa [unescape, hc] using hi

/-- a string literal adds exactly one token: its unescaped content -/
theorem run_str (o : Oracles) {st : St} {T : List Tok} {p : Bool} (body : List Char) (h : Clean st T p)
    (hw : wellEscaped body = true) :
    ∃ st', run o st ('\'' :: (body ++ ['\''])) = .run st' ∧ Clean st' (.str (unescape body) :: T) false := by
  have h0 := body_open o h
  obtain ⟨st1, hr1, h1⟩ := run_str_body o body.length body (Nat.le_refl _) h0 hw
  have h2 := body_close o h1
  refine ⟨_, ?_, by simpa using h2⟩
  rw [run_body o h.pend, run_append, hr1]
  show run o st1 ['\''] = _
  rw [run_body o h1.pend]; rfl


/-! ### words -/

/-- a word is being collected: `r` = its characters so far, reversed -/
structure PendW (st : St) (T : List Tok) (r : List Char) : Prop where
  cur : st.cur = none
  esc : st.esc = false
  com : st.com = false
  pend : st.pend = .ident r
  prevOp : st.prevOp = false
  toks : st.toks.map (·.tok) = T
  nodash : T.head? ≠ some dashDash

theorem body_word_start (o : Oracles) {st : St} {T : List Tok} {p : Bool} {c : Char} (h : Clean st T p)
    (hc : (o.info c).alpha = true) : PendW (body o st c) T [c] := by
  have hs := not_special_of_alpha o hc
  simp only [special, List.mem_cons, List.not_mem_nil, or_false, not_or] at hs
  have ha := advance_clean c h
  rw [body_clean o c h hs.2.2.2.2.2.2.1 hs.2.2.2.2.2.2.2.1, classify_alpha o _ _ hc]
  exact ⟨ha.cur, ha.esc, ha.com, rfl, ha.prevOp, ha.toks, ha.nodash⟩

theorem step_word_cont (o : Oracles) {st : St} {T : List Tok} {r : List Char} {x : Char} (h : PendW st T r)
    (hx : isWordCont o x = true) : ∃ st', step o st x = .run st' ∧ PendW st' T (x :: r) := by
  refine ⟨{ st with pend := .ident (x :: r), col := st.col + 1 }, ?_, ⟨h.cur, h.esc, h.com, rfl, h.prevOp, h.toks, h.nodash⟩⟩
  unfold step
  rw [h.pend]
  simp only [isWordCont] at hx
  simp [hx]

theorem run_word_cont (o : Oracles) (w : List Char) : ∀ {st : St} {T : List Tok} {r : List Char}, PendW st T r →
    (∀ x ∈ w, isWordCont o x = true) → ∃ st', run o st w = .run st' ∧ PendW st' T (w.reverse ++ r) := by
  induction w with
  | nil => intro st T r h _; exact ⟨st, rfl, by simpa using h⟩
  | cons x w ih =>
    intro st T r h hw
    obtain ⟨st1, hs, h1⟩ := step_word_cont o h (hw x (by simp))
    obtain ⟨st2, hr, h2⟩ := ih h1 (fun y hy => hw y (by simp [hy]))
    exact ⟨st2, by rw [run_cons, hs]; exact hr, by simpa using h2⟩

/-- a whole word from a state between tokens -/
theorem run_word (o : Oracles) {st : St} {T : List Tok} {p : Bool} {c : Char} {w : List Char} (h : Clean st T p)
    (hc : (o.info c).alpha = true) (hw : ∀ x ∈ w, isWordCont o x = true) :
    ∃ st', run o st (c :: w) = .run st' ∧ PendW st' T (c :: w).reverse := by
  obtain ⟨st', hr, h'⟩ := run_word_cont o w (body_word_start o h hc) hw
  exact ⟨st', by rw [run_body o h.pend]; exact hr, by simpa using h'⟩

theorem flush_word (o : Oracles) {st : St} {T : List Tok} {r : List Char} (h : PendW st T r) :
    ∃ st0, Clean st0 T false ∧ flush o st = .run (flushIdent o st0 r.reverse) :=
  ⟨{ st with pend := .none }, ⟨h.cur, h.esc, h.com, rfl, h.prevOp, h.toks, h.nodash⟩, by unfold flush; rw [h.pend]⟩

theorem step_word_end (o : Oracles) {st : St} {T : List Tok} {r : List Char} {x : Char} (h : PendW st T r)
    (hx : isWordCont o x = false) : step o st x = (flush o st).bind (fun st => .run (body o st x)) := by
  unfold step
  rw [h.pend]
  simp only [isWordCont] at hx
  simp [hx]

/-! ### numbers -/

/-- a number is being collected -/
structure PendN (st : St) (T : List Tok) (r : List Char) (d : Bool) : Prop where
  cur : st.cur = none
  esc : st.esc = false
  com : st.com = false
  pend : st.pend = .number r d
  prevOp : st.prevOp = false
  toks : st.toks.map (·.tok) = T
  nodash : T.head? ≠ some dashDash

theorem body_num_start (o : Oracles) {st : St} {T : List Tok} {p : Bool} {c : Char} (h : Clean st T p)
    (h0 : (o.info c).alpha = false) (hc : (o.info c).numeric = true) : PendN (body o st c) T [c] false := by
  have hs := not_special_of_numeric o hc
  simp only [special, List.mem_cons, List.not_mem_nil, or_false, not_or] at hs
  have ha := advance_clean c h
  rw [body_clean o c h hs.2.2.2.2.2.2.1 hs.2.2.2.2.2.2.2.1, classify_numeric o _ _ h0 hc]
  exact ⟨ha.cur, ha.esc, ha.com, rfl, ha.prevOp, ha.toks, ha.nodash⟩

theorem step_num_cont (o : Oracles) {st : St} {T : List Tok} {r : List Char} {d : Bool} {x : Char} (h : PendN st T r d)
    (hx : (o.info x).numeric = true) : ∃ st', step o st x = .run st' ∧ PendN st' T (x :: r) d := by
  refine ⟨{ st with pend := .number (x :: r) d, col := st.col + 1 }, ?_, ⟨h.cur, h.esc, h.com, rfl, h.prevOp, h.toks, h.nodash⟩⟩
  unfold step
  rw [h.pend]
  simp [hx]

theorem step_num_dot (o : Oracles) {st : St} {T : List Tok} {r : List Char} (h : PendN st T r false) :
    ∃ st', step o st '.' = .run st' ∧ PendN st' T ('.' :: r) true := by
  refine ⟨{ st with pend := .number ('.' :: r) true, col := st.col + 1 }, ?_, ⟨h.cur, h.esc, h.com, rfl, h.prevOp, h.toks, h.nodash⟩⟩
  have hn := (info_special o '.' (by decide)).2.1
  unfold step
  rw [h.pend]
  simp [hn]

theorem run_num_cont (o : Oracles) (w : List Char) : ∀ {st : St} {T : List Tok} {r : List Char} {d : Bool}, PendN st T r d →
    (∀ x ∈ w, (o.info x).numeric = true) → ∃ st', run o st w = .run st' ∧ PendN st' T (w.reverse ++ r) d := by
  induction w with
  | nil => intro st T r d h _; exact ⟨st, rfl, by simpa using h⟩
  | cons x w ih =>
    intro st T r d h hw
    obtain ⟨st1, hs, h1⟩ := step_num_cont o h (hw x (by simp))
    obtain ⟨st2, hr, h2⟩ := ih h1 (fun y hy => hw y (by simp [hy]))
    exact ⟨st2, by rw [run_cons, hs]; exact hr, by simpa using h2⟩

theorem flush_num (o : Oracles) {st : St} {T : List Tok} {r : List Char} {d : Bool} (h : PendN st T r d) :
    ∃ st0, Clean st0 T false ∧ flush o st = flushNumber o st0 r.reverse d :=
  ⟨{ st with pend := .none }, ⟨h.cur, h.esc, h.com, rfl, h.prevOp, h.toks, h.nodash⟩, by unfold flush; rw [h.pend]⟩

theorem step_num_end (o : Oracles) {st : St} {T : List Tok} {r : List Char} {d : Bool} {x : Char} (h : PendN st T r d)
    (hx : (o.info x).numeric = false) (hd : x ≠ '.') : step o st x = (flush o st).bind (fun st => .run (body o st x)) := by
  unfold step
  rw [h.pend]
  simp [hx, hd]


/-! ### the state after a lexeme -/

def EndKind.isOp : EndKind → Bool
  | .op _ => true
  | _ => false

/-- the state after a lexeme that ended as `k`; `T` = the tokens once a pending word / number has been converted -/
inductive Inv (o : Oracles) (st : St) (T : List Tok) : EndKind → Prop
  | other (h : Clean st T false) : Inv o st T .other
  | op {a : Char} (h : Clean st T true) (hl : T.head? = some (.op (.single a))) : Inv o st T (.op a)
  | word {T0 : List Tok} {r : List Char} (h : PendW st T0 r)
      (hf : ∀ st0, Clean st0 T0 false → Clean (flushIdent o st0 r.reverse) T false) : Inv o st T .word
  | int {T0 : List Tok} {r : List Char} (h : PendN st T0 r false)
      (hf : ∀ st0, Clean st0 T0 false → ∃ st1, flushNumber o st0 r.reverse false = .run st1 ∧ Clean st1 T false) : Inv o st T .int
  | float {T0 : List Tok} {r : List Char} (h : PendN st T0 r true)
      (hf : ∀ st0, Clean st0 T0 false → ∃ st1, flushNumber o st0 r.reverse true = .run st1 ∧ Clean st1 T false) : Inv o st T .float

/-- character `c` does not continue a pending word / number -/
def NoContK (o : Oracles) : EndKind → Char → Prop
  | .word, c => isWordCont o c = false
  | .int, c => (o.info c).numeric = false ∧ c ≠ '.'
  | .float, c => (o.info c).numeric = false ∧ c ≠ '.'
  | _, _ => True

theorem NoContK_of_AdjOk {o : Oracles} {k : EndKind} {c : Char} (h : AdjOk o k c) : NoContK o k c := by
  cases k <;> simp_all [AdjOk, NoContK]

theorem Inv.flush {o : Oracles} {st : St} {T : List Tok} {k : EndKind} (h : Inv o st T k) :
    ∃ st', Lex.flush o st = .run st' ∧ Clean st' T k.isOp := by
  cases h with
  | other h => exact ⟨st, by unfold Lex.flush; rw [h.pend], h⟩
  | op h _ => exact ⟨st, by unfold Lex.flush; rw [h.pend], h⟩
  | word h hf =>
    obtain ⟨st0, hc, he⟩ := flush_word o h
    exact ⟨_, he, hf st0 hc⟩
  | int h hf =>
    obtain ⟨st0, hc, he⟩ := flush_num o h
    obtain ⟨st1, h1, hc1⟩ := hf st0 hc
    exact ⟨st1, by rw [he, h1], hc1⟩
  | float h hf =>
    obtain ⟨st0, hc, he⟩ := flush_num o h
    obtain ⟨st1, h1, hc1⟩ := hf st0 hc
    exact ⟨st1, by rw [he, h1], hc1⟩

theorem Inv.head_of_op {o : Oracles} {st : St} {T : List Tok} {k : EndKind} (h : Inv o st T k) (hk : k.isOp = true) :
    ∃ a, k = .op a ∧ T.head? = some (.op (.single a)) := by
  cases h with
  | op h hl => exact ⟨_, rfl, hl⟩
  | other h => cases hk
  | word h hf => cases hk
  | int h hf => cases hk
  | float h hf => cases hk

/-- a character that does not continue the pending word / number is processed from the converted state -/
theorem Inv.bridge {o : Oracles} {st : St} {T : List Tok} {k : EndKind} (h : Inv o st T k) {c : Char}
    (hc : NoContK o k c) : ∃ st', Clean st' T k.isOp ∧ ∀ cs, run o st (c :: cs) = run o st' (c :: cs) := by
  obtain ⟨st', hf, hcl⟩ := h.flush
  refine ⟨st', hcl, fun cs => ?_⟩
  have hstep : step o st c = (Lex.flush o st).bind (fun st => .run (body o st c)) := by
    cases h with
    | other h => unfold Lex.flush; rw [h.pend, step_of_pend_none o st c h.pend]; rfl
    | op h _ => unfold Lex.flush; rw [h.pend, step_of_pend_none o st c h.pend]; rfl
    | word h _ => exact step_word_end o h hc
    | int h _ => exact step_num_end o h hc.1 hc.2
    | float h _ => exact step_num_end o h hc.1 hc.2
  rw [run_cons, hstep, hf, run_body o hcl.pend]
  rfl


/-! ### one lexeme -/

theorem digit_info (o : Oracles) {c : Char} (h : isDigitA c = true) :
    (o.info c).numeric = true ∧ (o.info c).alpha = false := by
  have h' := h
  simp only [isDigitA, Bool.and_eq_true, decide_eq_true_eq] at h'
  rw [info_of_ascii o c (by omega)]
  refine ⟨h, ?_⟩
  simp only [asciiInfo, isUpperA, isLowerA, Bool.or_eq_false_iff, Bool.and_eq_false_iff, decide_eq_false_iff_not]
  omega

theorem all_isLowerA {w : List Char} (h : w.all isLowerA = true) : ∀ x ∈ w, isLowerA x = true := by
  simpa using h

/-- a case variant of a lower-case ASCII word `w` from a state between tokens: the word is pending, and converting it
looks `w` up -/
theorem run_cased_word (o : Oracles) {st : St} {T : List Tok} {p : Bool} (h : Clean st T p) {w : List Char}
    (hne : w ≠ []) (hw : w.all isLowerA = true) (f : List Bool) :
    ∃ st' r, run o st (applyCase f w) = .run st' ∧ PendW st' T r ∧ lower o r.reverse = w := by
  cases w with
  | nil => exact absurd rfl hne
  | cons c w =>
    obtain ⟨c', w', he, ha, hw'⟩ := applyCase_word o c w (all_isLowerA hw) f
    obtain ⟨st', hr, hp⟩ := run_word o h ha hw'
    refine ⟨st', (c' :: w').reverse, by rw [he]; exact hr, hp, ?_⟩
    rw [List.reverse_reverse, ← he]
    exact lower_applyCase o _ (all_isLowerA hw) f

theorem run_lexeme_kw (o : Oracles) {st : St} {T : List Tok} {p : Bool} (h : Clean st T p) (k : Keyword) (f : List Bool)
    (hv : (Lexeme.kw k f).Valid o) :
    ∃ st', run o st (Lexeme.kw k f).text = .run st' ∧ Inv o st' (pushTok T ((Lexeme.kw k f).tok o)) (Lexeme.kw k f).endKind := by
  simp only [Lexeme.Valid] at hv
  obtain ⟨w, hw⟩ := Option.isSome_iff_exists.mp hv
  obtain ⟨hk, hne, hlow⟩ := kwWord_spec k w hw
  obtain ⟨st', r, hr, hp, hl⟩ := run_cased_word o h hne hlow f
  refine ⟨st', by simpa [Lexeme.text, hw] using hr, ?_⟩
  exact Inv.word hp (fun st0 h0 => flushIdent_kw o h0 (by rw [hl]; exact hk))

theorem run_lexeme_lit (o : Oracles) {st : St} {T : List Tok} {p : Bool} (h : Clean st T p) (l : LitWord) (f : List Bool) :
    ∃ st', run o st (Lexeme.lit l f).text = .run st' ∧ Inv o st' (pushTok T ((Lexeme.lit l f).tok o)) (Lexeme.lit l f).endKind := by
  obtain ⟨_, hne, hlow⟩ := litWord_spec l
  obtain ⟨st', r, hr, hp, hl⟩ := run_cased_word o h hne hlow f
  exact ⟨st', hr, Inv.word hp (fun st0 h0 => flushIdent_lit o h0 l hl)⟩

theorem run_lexeme_ident (o : Oracles) {st : St} {T : List Tok} {p : Bool} (h : Clean st T p) (w : List Char)
    (hv : (Lexeme.ident w).Valid o) :
    ∃ st', run o st (Lexeme.ident w).text = .run st' ∧ Inv o st' (pushTok T ((Lexeme.ident w).tok o)) (Lexeme.ident w).endKind := by
  obtain ⟨hw, hk, h1, h2, h3⟩ := hv
  cases w with
  | nil => exact hw.elim
  | cons c r =>
  obtain ⟨ha, hr⟩ := hw
  obtain ⟨st', hrun, hp⟩ := run_word o h ha hr
  refine ⟨st', hrun, Inv.word hp (fun st0 h0 => ?_)⟩
  rw [List.reverse_reverse]
  exact flushIdent_ident o h0 hk h1 h2 h3

theorem run_lexeme_int (o : Oracles) {st : St} {T : List Tok} {p : Bool} (h : Clean st T p) (ds : List Char)
    (hv : (Lexeme.int ds).Valid o) :
    ∃ st', run o st (Lexeme.int ds).text = .run st' ∧ Inv o st' (pushTok T ((Lexeme.int ds).tok o)) (Lexeme.int ds).endKind := by
  obtain ⟨hne, hd, hp⟩ := hv
  cases ds with
  | nil => exact absurd rfl hne
  | cons c r =>
    have hc := digit_info o (hd c (by simp))
    have h1 := body_num_start o h hc.2 hc.1
    obtain ⟨st', hr, hpn⟩ := run_num_cont o r h1 (fun x hx => (digit_info o (hd x (by simp [hx]))).1)
    refine ⟨st', by show run o st (c :: r) = _; rw [run_body o h.pend]; exact hr, ?_⟩
    refine Inv.int hpn (fun st0 h0 => ?_)
    obtain ⟨i, hi⟩ := Option.isSome_iff_exists.mp hp
    have e : (r.reverse ++ [c]).reverse = c :: r := by simp
    rw [e]
    refine ⟨st0.add (.int i), by unfold flushNumber; simp only [Bool.false_eq_true, if_false, hi], ?_⟩
    simp only [Lexeme.tok, hi, Option.getD_some]
    rw [pushTok_plain T _ (by simp) (by simp) (by simp)]
    exact add_clean _ h0 (by simp [dashDash])

theorem run_lexeme_float (o : Oracles) {st : St} {T : List Tok} {p : Bool} (h : Clean st T p) (a b : List Char)
    (hv : (Lexeme.float a b).Valid o) :
    ∃ st', run o st (Lexeme.float a b).text = .run st' ∧ Inv o st' (pushTok T ((Lexeme.float a b).tok o)) (Lexeme.float a b).endKind := by
  obtain ⟨ha, hnum, hf⟩ := hv
  cases a with
  | nil => exact ha.elim
  | cons c r =>
  have hca : (o.info c).alpha = false := ha
  obtain ⟨n, hn⟩ : ∃ n, o.fparse (c :: r ++ '.' :: b) = .bits n := by
    cases hfp : o.fparse (c :: r ++ '.' :: b) with
    | bits n => exact ⟨n, rfl⟩
    | err => simp only [hfp] at hf
    | missing => simp only [hfp] at hf
  have h1 := body_num_start o h hca (hnum c (by simp))
  obtain ⟨st1, hr1, hp1⟩ := run_num_cont o r h1 (fun x hx => hnum x (by simp [hx]))
  obtain ⟨st2, hs2, hp2⟩ := step_num_dot o hp1
  obtain ⟨st3, hr3, hp3⟩ := run_num_cont o b hp2 (fun x hx => hnum x (by simp [hx]))
  refine ⟨st3, ?_, ?_⟩
  · show run o st (c :: r ++ '.' :: b) = _
    rw [List.cons_append, run_body o h.pend, run_append, hr1]
    show run o st1 ('.' :: b) = _
    rw [run_cons, hs2]; exact hr3
  · refine Inv.float hp3 (fun st0 h0 => ?_)
    have e : (b.reverse ++ '.' :: (r.reverse ++ [c])).reverse = c :: r ++ '.' :: b := by simp
    rw [e]
    refine ⟨st0.add (.float n), by unfold flushNumber; simp only [if_true, hn], ?_⟩
    simp only [Lexeme.tok, hn]
    rw [pushTok_plain T _ (by simp) (by simp) (by simp)]
    exact add_clean _ h0 (by simp [dashDash])

theorem run_lexeme_str (o : Oracles) {st : St} {T : List Tok} {p : Bool} (h : Clean st T p) (body : List Char)
    (hv : (Lexeme.str body).Valid o) :
    ∃ st', run o st (Lexeme.str body).text = .run st' ∧ Inv o st' (pushTok T ((Lexeme.str body).tok o)) (Lexeme.str body).endKind := by
  obtain ⟨st', hr, hc⟩ := run_str o body h hv
  refine ⟨st', hr, ?_⟩
  simp only [Lexeme.tok, Lexeme.endKind]
  rw [pushTok_plain T _ (by simp) (by simp) (by simp)]
  exact Inv.other hc


/-- the adjacency side condition of the operator lexemes: directly after an operator `a`, character `c` may follow -/
def OpAdj (o : Oracles) (T : List Tok) (p : Bool) (c : Char) : Prop :=
  p = true → ∃ a, T.head? = some (.op (.single a)) ∧ AdjOk o (.op a) c

/-- an operator character that does not fuse with what precedes it -/
theorem body_op1 (o : Oracles) {st : St} {T : List Tok} {p : Bool} (h : Clean st T p) {c : Char}
    (hc : isOpChar o c = true) (hadj : OpAdj o T p c) : Clean (body o st c) (.op (.single c) :: T) true := by
  have hs := not_special_of_op o hc
  simp only [special, List.mem_cons, List.not_mem_nil, or_false, not_or] at hs
  have ha := advance_clean c h
  rw [body_clean o c h hs.2.1 hs.2.2.1, classify_op o _ _ hc]
  cases p with
  | false => rw [operator_not_adjacent]; exact addOp_clean c ha
  | true =>
    obtain ⟨a, hl, h1, h2⟩ := hadj rfl
    rw [operator_adjacent_plain (a := a) (by rw [ha.lastTok]; exact hl) h1 h2]
    exact addOp_clean c ha

theorem run_lexeme_op1 (o : Oracles) {st : St} {T : List Tok} {p : Bool} (h : Clean st T p) (c : Char)
    (hv : (Lexeme.op1 c).Valid o) (hadj : OpAdj o T p c) :
    ∃ st', run o st (Lexeme.op1 c).text = .run st' ∧ Inv o st' (pushTok T ((Lexeme.op1 c).tok o)) (Lexeme.op1 c).endKind := by
  have h1 := body_op1 o h hv hadj
  refine ⟨_, by show run o st [c] = _; rw [run_body o h.pend]; rfl, ?_⟩
  simp only [Lexeme.tok, Lexeme.endKind]
  rw [pushTok_plain T _ (by simp) (by simp) (by simp)]
  exact Inv.op h1 rfl

theorem isOpChar_ascii (o : Oracles) (c : Char) (h : c ∈ ['!', '<', '>', '=']) : isOpChar o c = true := by
  simp only [List.mem_cons, List.not_mem_nil, or_false] at h
  rcases h with h | h | h | h <;> subst h <;> (rw [isOpChar, info_of_ascii o _ (by decide)]; decide)

theorem run_lexeme_op2 (o : Oracles) {st : St} {T : List Tok} {p : Bool} (h : Clean st T p) (a b : Char)
    (hv : (Lexeme.op2 a b).Valid o) (hadj : OpAdj o T p a) :
    ∃ st', run o st (Lexeme.op2 a b).text = .run st' ∧ Inv o st' (pushTok T ((Lexeme.op2 a b).tok o)) (Lexeme.op2 a b).endKind := by
  obtain ⟨hm, hne⟩ := hv
  have hfacts : a ∈ ['!', '<', '>', '='] ∧ isTwoChar a b = true ∧ ¬ (a = '=' ∧ b = '>') ∧ b ≠ '\\' ∧ b ≠ '\'' ∧ isOpChar o b = true ∧
      Tok.op (.dual a b) ≠ dashDash := by
    simp only [twoCharOps, List.mem_cons, List.not_mem_nil, or_false, Prod.mk.injEq] at hm
    rcases hm with ⟨rfl, rfl⟩ | ⟨rfl, rfl⟩ | ⟨rfl, rfl⟩ | ⟨rfl, rfl⟩
    · exact ⟨by decide, by decide, by decide, by decide, by decide, isOpChar_ascii o _ (by decide), by decide⟩
    · exact absurd rfl hne
    · exact ⟨by decide, by decide, by decide, by decide, by decide, isOpChar_ascii o _ (by decide), by decide⟩
    · exact ⟨by decide, by decide, by decide, by decide, by decide, isOpChar_ascii o _ (by decide), by decide⟩
  obtain ⟨ha, h2c, hna, hb1, hb2, hbo, hnd⟩ := hfacts
  have h1 := body_op1 o h (isOpChar_ascii o a ha) hadj
  have hadv := advance_clean b h1
  have h2 : Clean (body o (body o st a) b) (.op (.dual a b) :: T) false := by
    rw [body_clean o b h1 hb1 hb2, classify_op o _ _ hbo,
      operator_adjacent_dual (a := a) (by rw [hadv.lastTok]; rfl) hna h2c]
    exact setLast_clean _ hadv hnd
  refine ⟨_, by show run o st [a, b] = _; rw [run_body o h.pend, run_body o h1.pend]; rfl, ?_⟩
  simp only [Lexeme.tok, Lexeme.endKind]
  rw [pushTok_plain T _ (by simp) (by simp) (by simp)]
  exact Inv.other h2

theorem run_lexeme_rarrow (o : Oracles) {st : St} {T : List Tok} {p : Bool} (h : Clean st T p) (hadj : OpAdj o T p '=') :
    ∃ st', run o st Lexeme.rarrow.text = .run st' ∧ Inv o st' (pushTok T (Lexeme.rarrow.tok o)) Lexeme.rarrow.endKind := by
  have h1 := body_op1 o h (isOpChar_ascii o '=' (by decide)) hadj
  have hadv := advance_clean '>' h1
  have h2 : Clean (body o (body o st '=') '>') (.rarrow :: T) false := by
    rw [body_clean o '>' h1 (by decide) (by decide), classify_op o _ _ (isOpChar_ascii o '>' (by decide)),
      operator_adjacent_arrow (by rw [hadv.lastTok]; rfl)]
    exact setLast_clean _ hadv (by simp [dashDash])
  refine ⟨_, by show run o st ['=', '>'] = _; rw [run_body o h.pend, run_body o h1.pend]; rfl, ?_⟩
  simp only [Lexeme.tok, Lexeme.endKind]
  rw [pushTok_plain T _ (by simp) (by simp) (by simp)]
  exact Inv.other h2

theorem run_lexeme_punct (o : Oracles) {st : St} {T : List Tok} {p : Bool} (h : Clean st T p) (q : Punct) :
    ∃ st', run o st (Lexeme.punct q).text = .run st' ∧ Inv o st' (pushTok T ((Lexeme.punct q).tok o)) (Lexeme.punct q).endKind := by
  have hq : q.char ≠ '\\' ∧ q.char ≠ '\'' := by cases q <;> decide
  have ha := advance_clean q.char h
  refine ⟨_, by show run o st [q.char] = _; rw [run_body o h.pend]; rfl, ?_⟩
  simp only [Lexeme.tok, Lexeme.endKind]
  rw [body_clean o q.char h hq.1 hq.2]
  by_cases hc : q = .colon
  · subst hc
    replace ha : Clean (st.advance ':') T false := ha
    by_cases hl : T.head? = some .colon
    · rw [show Punct.colon.char = ':' from rfl, classify_colon_fuse o _ _ (by rw [ha.lastTok]; exact hl)]
      cases T with
      | nil => simp at hl
      | cons t T' =>
        simp only [List.head?_cons, Option.some.injEq] at hl
        subst hl
        simpa [pushTok, Punct.tok] using Inv.other (setLast_clean .dcolon ha (by simp [dashDash]))
    · rw [show Punct.colon.char = ':' from rfl, classify_colon_add o _ _ (by rw [ha.lastTok]; exact hl)]
      have : pushTok T Punct.colon.tok = .colon :: T := by
        unfold pushTok
        split <;> simp_all [Punct.tok]
      rw [this]
      exact Inv.other (add_clean _ ha (by simp [dashDash]))
  · rw [classify_punct o _ _ q hc]
    rw [pushTok_plain T _ (by cases q <;> simp [Punct.tok]) (by cases q <;> simp [Punct.tok]) (by cases q <;> simp_all [Punct.tok])]
    exact Inv.other (add_clean _ ha (by cases q <;> simp [Punct.tok, dashDash]))

/-- **one lexeme**: from a state between tokens, the text of a valid lexeme adds its token (through `pushTok`) -/
theorem run_lexeme (o : Oracles) {st : St} {T : List Tok} {p : Bool} (h : Clean st T p) (l : Lexeme)
    (hv : l.Valid o) (hadj : OpAdj o T p (firstChar l)) :
    ∃ st', run o st l.text = .run st' ∧ Inv o st' (pushTok T (l.tok o)) l.endKind := by
  cases l with
  | kw k f => exact run_lexeme_kw o h k f hv
  | lit w f => exact run_lexeme_lit o h w f
  | ident w => exact run_lexeme_ident o h w hv
  | int ds => exact run_lexeme_int o h ds hv
  | float a b => exact run_lexeme_float o h a b hv
  | str body => exact run_lexeme_str o h body hv
  | op1 c => exact run_lexeme_op1 o h c hv hadj
  | op2 a b => exact run_lexeme_op2 o h a b hv hadj
  | rarrow => exact run_lexeme_rarrow o h hadj
  | punct q => exact run_lexeme_punct o h q


/-! ### the induction over the lexeme sequence -/

theorem Lexeme.text_cons {o : Oracles} (l : Lexeme) (hv : l.Valid o) : ∃ c cs, l.text = c :: cs ∧ firstChar l = c := by
  have key : l.text ≠ [] → ∃ c cs, l.text = c :: cs ∧ firstChar l = c := by
    intro hne
    cases ht : l.text with
    | nil => exact absurd ht hne
    | cons c cs => exact ⟨c, cs, rfl, by simp [firstChar, ht]⟩
  apply key
  cases l with
  | kw k f =>
    simp only [Lexeme.Valid] at hv
    obtain ⟨w, hw⟩ := Option.isSome_iff_exists.mp hv
    obtain ⟨_, hne, _⟩ := kwWord_spec k w hw
    intro e
    have := applyCase_length f w
    simp only [Lexeme.text, hw, Option.getD_some] at e
    rw [e] at this
    exact hne (List.length_eq_zero_iff.mp this.symm)
  | lit w f =>
    obtain ⟨_, hne, _⟩ := litWord_spec w
    intro e
    have := applyCase_length f w.word
    simp only [Lexeme.text] at e
    rw [e] at this
    exact hne (List.length_eq_zero_iff.mp this.symm)
  | ident w =>
    cases w with
    | nil => exact hv.1.elim
    | cons c r => simp [Lexeme.text]
  | int ds => exact hv.1
  | float a b => simp [Lexeme.text]
  | str body => simp [Lexeme.text]
  | op1 c => simp [Lexeme.text]
  | op2 a b => simp [Lexeme.text]
  | rarrow => simp [Lexeme.text]
  | punct q => simp [Lexeme.text]

theorem noCont_space (o : Oracles) {c : Char} (h : isSpace o c = true) (k : EndKind) : NoContK o k c := by
  have hs := not_special_of_space o h
  simp only [special, List.mem_cons, List.not_mem_nil, or_false, not_or] at hs
  simp only [isSpace, Bool.and_eq_true, Bool.not_eq_eq_eq_not, Bool.not_true] at h
  cases k <;> simp [NoContK, isWordCont, h.2, h.1.2, hs.1, hs.2.2.1]

theorem noCont_dash (o : Oracles) (k : EndKind) : NoContK o k '-' := by
  have hi := info_special o '-' (by decide)
  cases k <;> simp [NoContK, isWordCont, hi]

theorem gap_first (o : Oracles) (i : GapItem) (hi : i.Ok o) : ∃ c cs, i.text = c :: cs ∧ ∀ k, NoContK o k c := by
  cases i with
  | ws c => exact ⟨c, [], rfl, noCont_space o hi⟩
  | comment b => exact ⟨'-', '-' :: (b ++ ['\n']), rfl, noCont_dash o⟩

/-- the gap condition after an operator, in the form `run_gap` wants -/
theorem gapStart_of_inv {o : Oracles} {st : St} {T : List Tok} {k : EndKind} (h : Inv o st T k) {g : Gap}
    (hg : GapStartOk k g) : k.isOp = true → T.head? = some (.op (.single '-')) → g.startsWithComment = false := by
  intro hk hl
  obtain ⟨a, rfl, hl'⟩ := h.head_of_op hk
  rw [hl] at hl'
  simp only [Option.some.injEq, Tok.op.injEq, Operator.single.injEq] at hl'
  subst hl'
  exact hg rfl

/-- **the lexeme sequence**: gaps and lexemes in turn, neighbours kept apart, add exactly the lexemes' tokens -/
theorem run_items (o : Oracles) (items : List (Gap × Lexeme)) : ∀ {st : St} {T : List Tok} {k : EndKind},
    Inv o st T k → ItemsOk o k items →
    ∃ st', run o st (renderItems items) = .run st' ∧
      Inv o st' ((items.map (fun x => x.2.tok o)).foldl pushTok T) (lastKind k items) := by
  induction items with
  | nil => intro st T k h _; exact ⟨st, rfl, h⟩
  | cons x rest ih =>
    obtain ⟨g, l⟩ := x
    intro st T k h hok
    obtain ⟨hg, hv, ⟨hadj, hgs⟩, hrest⟩ := hok
    obtain ⟨c, cs, htext, hfc⟩ := l.text_cons hv
    -- the state between tokens reached after the gap
    have hmid : ∃ st1 p, run o st (renderItems ((g, l) :: rest)) = run o st1 (l.text ++ renderItems rest) ∧
        Clean st1 T p ∧ OpAdj o T p (firstChar l) := by
      cases g with
      | nil =>
        have hadj' := hadj rfl
        obtain ⟨st1, hcl, hrun⟩ := h.bridge (NoContK_of_AdjOk hadj')
        refine ⟨st1, k.isOp, ?_, hcl, ?_⟩
        · show run o st ([] ++ l.text ++ renderItems rest) = _
          rw [List.nil_append, htext, List.cons_append]
          rw [hfc] at hrun
          exact hrun _
        · intro hk
          obtain ⟨a, rfl, hl⟩ := h.head_of_op hk
          exact ⟨a, hl, hadj'⟩
      | cons i g' =>
        obtain ⟨c0, cs0, hi, hnc⟩ := gap_first o i (hg i (by simp))
        obtain ⟨st0, hcl, hrun⟩ := h.bridge (hnc k)
        obtain ⟨st1, hr1, hc1⟩ := run_gap o (i :: g') hcl hg (gapStart_of_inv h hgs)
        refine ⟨st1, false, ?_, by simpa using hc1, fun hp => by cases hp⟩
        show run o st (Gap.text (i :: g') ++ l.text ++ renderItems rest) = _
        have e : Gap.text (i :: g') = c0 :: (cs0 ++ Gap.text g') := by
          show i.text ++ Gap.text g' = _
          rw [hi]; rfl
        rw [List.append_assoc, e, List.cons_append, hrun, ← List.cons_append, ← e, run_append, hr1]
        rfl
    obtain ⟨st1, p, hrun1, hcl1, hopadj⟩ := hmid
    obtain ⟨st2, hr2, hinv2⟩ := run_lexeme o hcl1 l hv hopadj
    obtain ⟨st3, hr3, hinv3⟩ := ih hinv2 hrest
    refine ⟨st3, ?_, by simpa [lastKind] using hinv3⟩
    rw [hrun1, run_append, hr2]
    exact hr3


/-! ### the end of the text -/

theorem flush_of_pend_none (o : Oracles) {st : St} (hp : st.pend = .none) : flush o st = .run st := by
  unfold flush; rw [hp]

theorem finish_of_pend_none (o : Oracles) {st : St} (hp : st.pend = .none) : finish o st = .run st.close := by
  unfold finish; rw [flush_of_pend_none o hp]; rfl

theorem finish_clean (o : Oracles) {st : St} {T : List Tok} {p : Bool} (h : Clean st T p) :
    ∃ st', finish o st = .run st' ∧ st'.toks.map (·.tok) = .eof :: T := by
  refine ⟨_, finish_of_pend_none o h.pend, ?_⟩
  unfold St.close
  rw [h.lastTok, if_neg h.nodash]
  simp [St.add, h.toks]

theorem finish_incom (o : Oracles) {st : St} {T : List Tok} (h : InCom st T) :
    ∃ st', finish o st = .run st' ∧ st'.toks.map (·.tok) = .eof :: T := by
  refine ⟨_, finish_of_pend_none o h.pend, ?_⟩
  unfold St.close
  rw [lastTok_eq, h.toks, if_neg h.nodash]
  simp [St.add, h.toks]

theorem finish_dashed (o : Oracles) {st : St} {T : List Tok} (h : Dashed st T) :
    ∃ st', finish o st = .run st' ∧ st'.toks.map (·.tok) = .eof :: T := by
  refine ⟨_, finish_of_pend_none o h.pend, ?_⟩
  unfold St.close
  rw [lastTok_eq, h.toks]
  simp [St.add, List.map_tail, h.toks]

theorem run_incom_tail (o : Oracles) (b : List Char) : ∀ {st : St} {T : List Tok}, InCom st T → '\n' ∉ b →
    ∃ st', run o st b = .run st' ∧ InCom st' T := by
  induction b with
  | nil => intro st T h _; exact ⟨st, rfl, h⟩
  | cons c b ih =>
    intro st T h hb
    have hc : c ≠ '\n' := fun e => hb (by simp [e])
    have hb' : '\n' ∉ b := fun e => hb (by simp [e])
    obtain ⟨st', hr, hi⟩ := ih ((body_incom o c h).2 hc) hb'
    exact ⟨st', by rw [run_body o h.pend]; exact hr, hi⟩

/-- an unterminated comment at the very end of the text adds nothing -/
theorem finish_tail (o : Oracles) (b : List Char) {st : St} {T : List Tok} (h : Dashed st T) (hb : '\n' ∉ b) :
    ∃ st', (run o st b).bind (finish o) = .run st' ∧ st'.toks.map (·.tok) = .eof :: T := by
  cases b with
  | nil => simpa using finish_dashed o h
  | cons c b =>
    have hc : c ≠ '\n' := fun e => hb (by simp [e])
    have hb' : '\n' ∉ b := fun e => hb (by simp [e])
    obtain ⟨st', hr, hi⟩ := run_incom_tail o b ((body_dashed o c h).2 hc) hb'
    obtain ⟨st'', hf, ht⟩ := finish_incom o hi
    exact ⟨st'', by rw [run_body o h.pend, hr]; exact hf, ht⟩

theorem init_clean : Clean ({} : St) [] false := ⟨rfl, rfl, rfl, rfl, rfl, rfl, by simp⟩

/-- the whole text of a layout: the tokens are those of the lexemes, fused through the last token, then `End` -/
theorem run_layout (o : Oracles) (L : Layout) (h : L.Ok o) :
    ∃ st', (run o {} L.text).bind (finish o) = .run st' ∧
      st'.toks.map (·.tok) = .eof :: (L.lexemes.map (·.tok o)).foldl pushTok [] := by
  obtain ⟨hitems, hfinal, hfs, htail⟩ := h
  obtain ⟨st1, hr1, hinv1⟩ := run_items o L.items (Inv.other init_clean) hitems
  have e : (L.items.map (fun x => x.2.tok o)) = L.lexemes.map (·.tok o) := by simp [Layout.lexemes]
  rw [e] at hinv1
  generalize (L.lexemes.map (·.tok o)).foldl pushTok [] = T at hinv1 ⊢
  generalize lastKind .other L.items = k at hinv1 hfs htail
  unfold Layout.text
  rw [List.append_assoc, run_append, hr1]
  simp only [R.bind_run]
  cases hfin : L.final with
  | nil =>
    rw [hfin] at hfs htail
    cases htl : L.tail with
    | none =>
      obtain ⟨st2, hf2, hc2⟩ := hinv1.flush
      obtain ⟨st3, hf3, ht3⟩ := finish_clean o hc2
      refine ⟨st3, ?_, ht3⟩
      simp only [Gap.text, List.flatMap_nil, List.nil_append, run_nil, R.bind_run]
      rw [finish_of_pend_none o hc2.pend] at hf3
      unfold finish
      rw [hf2]
      exact hf3
    | some b =>
      rw [htl] at htail
      obtain ⟨hb, hk⟩ := htail
      obtain ⟨st2, hc2, hrun2⟩ := hinv1.bridge (noCont_dash o k)
      have hp : k.isOp = true → T.head? ≠ some (.op (.single '-')) := by
        intro hop hl
        obtain ⟨a, rfl, hl'⟩ := hinv1.head_of_op hop
        rw [hl] at hl'
        simp only [Option.some.injEq, Tok.op.injEq, Operator.single.injEq] at hl'
        subst hl'
        exact hk rfl rfl
      obtain ⟨st3, hr3, hd3⟩ := run_dashes o hc2 hp b
      obtain ⟨st4, hf4, ht4⟩ := finish_tail o b hd3 hb
      refine ⟨st4, ?_, ht4⟩
      simp only [Gap.text, List.flatMap_nil, List.nil_append]
      rw [hrun2, hr3]
      exact hf4
  | cons i g =>
    rw [hfin] at hfs hfinal
    obtain ⟨c0, cs0, hi, hnc⟩ := gap_first o i (hfinal i (by simp))
    obtain ⟨st2, hc2, hrun2⟩ := hinv1.bridge (hnc k)
    obtain ⟨st3, hr3, hc3⟩ := run_gap o (i :: g) hc2 hfinal (gapStart_of_inv hinv1 hfs)
    have hc3' : Clean st3 T false := by simpa using hc3
    have e2 : Gap.text (i :: g) = c0 :: (cs0 ++ Gap.text g) := by
      show i.text ++ Gap.text g = _
      rw [hi]; rfl
    have hstart : ∀ rest, run o st1 (Gap.text (i :: g) ++ rest) = run o st3 rest := by
      intro rest
      rw [e2, List.cons_append, hrun2, ← List.cons_append, ← e2, run_append, hr3]
      rfl
    rw [hstart]
    cases htl : L.tail with
    | none =>
      obtain ⟨st4, hf4, ht4⟩ := finish_clean o hc3'
      exact ⟨st4, by simpa using hf4, ht4⟩
    | some b =>
      rw [htl] at htail
      obtain ⟨st4, hr4, hd4⟩ := run_dashes o hc3' (fun hp => by cases hp) b
      obtain ⟨st5, hf5, ht5⟩ := finish_tail o b hd4 htail.1
      exact ⟨st5, by simp only []; rw [hr4]; exact hf5, ht5⟩

/-- **the tokenizer inverts rendering under any layout** -/
theorem tokens_layout (o : Oracles) (L : Layout) (h : L.Ok o) :
    tokens o L.text = some (fuse (L.lexemes.map (·.tok o)) ++ [.eof]) := by
  obtain ⟨st', hr, ht⟩ := run_layout o L h
  unfold tokens tokenize
  rw [hr]
  simp only [Option.some.injEq]
  rw [List.map_reverse, ht, fuse]
  simp


/-! ### small layouts, comment stripping -/

/-- a text consisting of one lexeme is a layout -/
theorem single_ok (o : Oracles) (l : Lexeme) (hv : l.Valid o) : ({ items := [([], l)] } : Layout).Ok o := by
  refine ⟨⟨?_, hv, ⟨fun _ => trivial, fun _ => rfl⟩, trivial⟩, ?_, fun _ => rfl, trivial⟩ <;> (intro i hi; cases hi)

theorem stripGap_ok (o : Oracles) (g : Gap) (h : g.Ok o) : (stripGap g).Ok o := by
  intro i hi
  simp only [stripGap, List.mem_map] at hi
  obtain ⟨j, hj, rfl⟩ := hi
  cases j with
  | ws c => exact h _ hj
  | comment b =>
    show isSpace o '\n' = true
    rw [isSpace, info_of_ascii o _ (by decide)]; decide

theorem stripGap_nil (g : Gap) : stripGap g = [] ↔ g = [] := by
  cases g <;> simp [stripGap]

theorem stripGap_start (g : Gap) : (stripGap g).startsWithComment = false := by
  cases g with
  | nil => rfl
  | cons i g => cases i <;> rfl

theorem stripItems_ok (o : Oracles) (items : List (Gap × Lexeme)) : ∀ k, ItemsOk o k items →
    ItemsOk o k (items.map (fun x => (stripGap x.1, x.2))) := by
  induction items with
  | nil => intro _ _; trivial
  | cons x rest ih =>
    intro k h
    obtain ⟨hg, hv, ⟨hadj, _⟩, hrest⟩ := h
    exact ⟨stripGap_ok o _ hg, hv, ⟨fun e => hadj ((stripGap_nil _).mp e), fun _ => stripGap_start _⟩, ih _ hrest⟩

end Sqlgrep.Lex
