import SqlgrepModel.Model.Token
import SqlgrepModel.Model.ParseLit
import SqlgrepModel.Model.DecFloat
/-
The tokenizer of `src/parsing/tokenizer.rs` (`tokenize`) as the character fold it is, and
`TokenLocation::extract_near`.

`tokenize` is one `while let Some(current) = next_char()` loop over the characters of the text with the
mutable state `tokens, line, column, token_column_start, current_str, is_escaped, is_comment,
previous_was_operator`.  Two branches of the loop body (identifier, number) consume further characters
through `peek`/`next_char` in an inner loop.  The model is a fold of `step` over the characters; the inner
loops are the `pend` component of the state: while a word / a number is being collected the next character
either continues it (what the inner loop's `peek` arm does) or ends it (`flush` = the code after the inner
loop: keyword lookup / number conversion / `add`), after which the character is handled by the loop body
(`body`) exactly as the outer loop would handle it in its next iteration.

What the code does, mirrored here (each point is exercised by the correspondence check `tok`):
* `next_char` increments `column` for every character; a `\n` seen by the *outer* loop increments `line` and
  resets `column` and `token_column_start` to 0 (inside strings and comments too).
* `add(token)` stamps the token with `(line, token_column_start)` and then sets `token_column_start := column`:
  a token's column is the column where the *previous* token on that line ended (0 after a line break), not where
  its own text starts.  Fusions (`IS NOT`, `NOT IN`, `::`, two-character operators) rewrite the last token in
  place and do not touch `token_column_start`.
* As soon as the last token is `Operator(Dual('-','-'))` the next character (whatever it is) removes that token
  and switches `is_comment` on; a comment ends at `\n`.  A `--` that is the last token at the end of the text is
  removed as well.  The two `-` must be adjacent (see the operator rule).
* A backslash that is not itself escaped sets `is_escaped` and is dropped — inside *and outside* strings.
  The escaped character is never a string delimiter; inside a string it is pushed verbatim (`\n` is the letter
  `n`), outside a string it is classified like any other character (an escaped `'` or `\` becomes
  `Operator(Single(..))`).  The flag is cleared by the next character that reaches that point of the loop body
  (characters of a comment do not reach it).
* An unescaped `'` opens a string or closes the open one (`add(String(..))`); an unterminated string is dropped
  silently at the end of the text.
* Outside strings: `is_alphabetic` starts a word, continued by `is_alphanumeric` or `_`; the word is looked up
  in `KEYWORDS` by `to_lowercase`; `NOT` directly after a last token `IS` rewrites it to `IsNot`, `IN` after a last
  token `NOT` rewrites it to `NotIn` (the *last token*, whatever whitespace or comments lie between); otherwise
  `null`/`true`/`false` (lower-cased), otherwise `Identifier` with the original spelling.
* `is_numeric` starts a number, continued by `is_numeric` characters and at most one `.`; a second `.` is
  `AlreadyHasDot` at `(line, column)` (the dot not consumed); then `f64::from_str` (with dot) or `i64::from_str`,
  failing with `FloatConvertError` / `IntConvertError` at `(line, column)` after the number.
* `( ) [ ] { } , ;` are tokens; `:` rewrites a last token `Colon` to `DoubleColon` (no adjacency required:
  `: :` and `:` newline `:` fuse), else adds `Colon`; `is_whitespace` is skipped.
* Every other character is an operator character: if the previous loop iteration added an
  `Operator(Single(a))` (`previous_was_operator`, i.e. the two characters are adjacent) and `a = '='`, `current = '>'`
  the last token becomes `RightArrow`; if `(a, current)` is in `TWO_CHAR_OPERATORS` it becomes `Dual(a, current)`;
  otherwise `add(Operator(Single(current)))` and `previous_was_operator := true`.

External facts (oracles, shipped with every correspondence case): for non-ASCII characters the Unicode class
bits `is_alphabetic / is_numeric / is_alphanumeric / is_whitespace` and the `char::to_lowercase` expansion
(`Oracles.ext`); `f64::from_str` of a number text (`Oracles.fparse`).  For ASCII characters the classes and the
lower-case mapping are *computed here* (`asciiInfo`): letters `A-Z a-z`, digits `0-9`, whitespace U+0009..U+000D
and U+0020.  `i64::from_str` is `Lit.parseI64` (Model/ParseLit.lean).
`String::to_lowercase` differs from the per-character `char::to_lowercase` only for `Σ` (U+03A3, final-sigma
rule: `σ` or `ς`); both results are non-ASCII, and the lower-cased word is only ever compared with ASCII words,
so the difference cannot be observed.
-/
namespace Sqlgrep.Lex
open Sqlgrep

/-! ### character classes -/

structure CharInfo where
  alpha : Bool      -- `char::is_alphabetic`
  numeric : Bool    -- `char::is_numeric`
  alnum : Bool      -- `char::is_alphanumeric`
  white : Bool      -- `char::is_whitespace`
  lower : List Char -- `char::to_lowercase`
  deriving Repr, DecidableEq, Inhabited

def isUpperA (c : Char) : Bool := decide (65 ≤ c.toNat) && decide (c.toNat ≤ 90)
def isLowerA (c : Char) : Bool := decide (97 ≤ c.toNat) && decide (c.toNat ≤ 122)
def isDigitA (c : Char) : Bool := decide (48 ≤ c.toNat) && decide (c.toNat ≤ 57)
def isWhiteA (c : Char) : Bool := (decide (9 ≤ c.toNat) && decide (c.toNat ≤ 13)) || c.toNat == 32
def lowerA (c : Char) : Char := if isUpperA c then Char.ofNat (c.toNat + 32) else c

/-- the classes of an ASCII character, computed (not an oracle) -/
def asciiInfo (c : Char) : CharInfo :=
  { alpha := isUpperA c || isLowerA c
    numeric := isDigitA c
    alnum := isUpperA c || isLowerA c || isDigitA c
    white := isWhiteA c
    lower := [lowerA c] }

inductive FloatAns where
  | bits (b : Nat)      -- `f64::from_str` = Ok, the value's bit pattern
  | err                 -- `f64::from_str` = Err
  | missing             -- the case did not ship this fact
  deriving Repr, DecidableEq, Inhabited

structure Oracles where
  ext : Char → CharInfo                 -- consulted for non-ASCII characters only
  fparse : List Char → FloatAns

def Oracles.info (o : Oracles) (c : Char) : CharInfo :=
  if c.toNat < 128 then asciiInfo c else o.ext c

/-- `String::to_lowercase` (see the header for `Σ`) -/
def lower (o : Oracles) (w : List Char) : List Char := w.flatMap (fun c => (o.info c).lower)

/-! ### tables -/

/-- `KEYWORDS` (sorted by word; `Lemmas/LexTables.lean` proves it equal to the table regenerated from the code) -/
def keywordTable : List (List Char × Keyword) :=
  [ ("and".toList, .and), ("as".toList, .as), ("by".toList, .by), ("case".toList, .case),
    ("create".toList, .create), ("default".toList, .default), ("distinct".toList, .distinct),
    ("else".toList, .else), ("end".toList, .end), ("extract".toList, .extract), ("from".toList, .from),
    ("group".toList, .group), ("having".toList, .having), ("in".toList, .in), ("inner".toList, .inner),
    ("is".toList, .is), ("join".toList, .join), ("limit".toList, .limit), ("not".toList, .not),
    ("on".toList, .on), ("or".toList, .or), ("outer".toList, .outer), ("select".toList, .select),
    ("table".toList, .table), ("then".toList, .then), ("when".toList, .when), ("where".toList, .where) ]

def keywordOf (lw : List Char) : Option Keyword := keywordTable.lookup lw

/-- `TWO_CHAR_OPERATORS` (sorted) -/
def twoCharOps : List (Char × Char) := [('!', '='), ('-', '-'), ('<', '='), ('>', '=')]

def isTwoChar (a b : Char) : Bool := twoCharOps.contains (a, b)

/-! ### state -/

inductive LexErr where
  | intConvert | floatConvert | alreadyHasDot
  deriving Repr, DecidableEq, Inhabited

/-- the inner loops: nothing, a word being collected, a number being collected (characters reversed) -/
inductive Pending where
  | none
  | ident (rev : List Char)
  | number (rev : List Char) (hasDot : Bool)
  deriving Repr, DecidableEq, Inhabited

structure St where
  toks : List PTok := []          -- `tokens`, last token first
  line : Nat := 0
  col : Nat := 0                  -- `column`
  start : Nat := 0                -- `token_column_start`
  cur : Option (List Char) := none  -- `current_str`, reversed
  esc : Bool := false             -- `is_escaped`
  com : Bool := false             -- `is_comment`
  prevOp : Bool := false          -- `previous_was_operator`
  pend : Pending := .none
  deriving Repr, DecidableEq, Inhabited

/-- result of a step: go on, a `ParserError`, or an oracle fact is missing -/
inductive R where
  | run (st : St)
  | fail (loc : Loc) (e : LexErr)
  | missing (what : List Char)
  deriving Repr, DecidableEq, Inhabited

def R.bind (r : R) (f : St → R) : R :=
  match r with
  | .run st => f st
  | .fail l e => .fail l e
  | .missing w => .missing w

def St.lastTok (st : St) : Option Tok :=
  match st.toks with
  | [] => none
  | p :: _ => some p.tok

/-- `state.add(token)` -/
def St.add (st : St) (t : Tok) : St :=
  { st with toks := ⟨⟨st.line, st.start⟩, t⟩ :: st.toks, start := st.col }

/-- `state.tokens.last_mut().unwrap().token = t` (only called when a last token exists) -/
def St.setLast (st : St) (t : Tok) : St :=
  match st.toks with
  | [] => st
  | p :: rest => { st with toks := { p with tok := t } :: rest }

def dashDash : Tok := .op (.dual '-' '-')

/-! ### the code after the inner loops -/

def wNull : List Char := "null".toList
def wTrue : List Char := "true".toList
def wFalse : List Char := "false".toList

/-- a keyword: `NOT` after a last token `IS`, `IN` after a last token `NOT` rewrite that token, else `add` -/
def addKeyword (st : St) (k : Keyword) : St :=
  match k, st.lastTok with
  | .not, some (.kw .is) => st.setLast (.kw .isNot)
  | .in, some (.kw .not) => st.setLast (.kw .notIn)
  | _, _ => st.add (.kw k)

/-- after the identifier loop: keyword lookup with the `IS NOT` / `NOT IN` fusion, `null`/`true`/`false`, identifier -/
def flushIdent (o : Oracles) (st : St) (w : List Char) : St :=
  let lw := lower o w
  match keywordOf lw with
  | some k => addKeyword st k
  | none =>
    if lw = wNull then st.add .null
    else if lw = wTrue then st.add .tru
    else if lw = wFalse then st.add .fls
    else st.add (.ident w)

/-- after the number loop: `f64::from_str` / `i64::from_str`, error located at `state.location()`.
`f64::from_str`: a shipped fact (`Oracles.fparse`, kept as a cross-check of the Lean function against the real
one) or, when the case ships none, `DecFloat.parseF64`. -/
def flushNumber (o : Oracles) (st : St) (w : List Char) (hasDot : Bool) : R :=
  if hasDot then
    match o.fparse w with
    | .bits b => .run (st.add (.float b))
    | .err => .fail ⟨st.line, st.col⟩ .floatConvert
    | .missing =>
      -- no shipped fact: `f64::from_str` as computed by `Model/DecFloat.lean`
      match DecFloat.parseF64 w with
      | some b => .run (st.add (.float b))
      | none => .fail ⟨st.line, st.col⟩ .floatConvert
  else
    match Lit.parseI64 (w.map Char.toNat) with
    | some i => .run (st.add (.int i))
    | none => .fail ⟨st.line, st.col⟩ .intConvert

def flush (o : Oracles) (st : St) : R :=
  match st.pend with
  | .none => .run st
  | .ident r => .run (flushIdent o { st with pend := .none } r.reverse)
  | .number r d => flushNumber o { st with pend := .none } r.reverse d

/-! ### the loop body -/

def addOp (st : St) (c : Char) : St := { st.add (.op (.single c)) with prevOp := true }

/-- the final `else` branch: operator characters and the adjacency rule -/
def operator (st : St) (adj : Bool) (c : Char) : St :=
  if adj then
    match st.lastTok with
    | some (.op (.single a)) =>
      if a = '=' ∧ c = '>' then st.setLast .rarrow
      else if isTwoChar a c then st.setLast (.op (.dual a c))
      else addOp st c
    | _ => addOp st c
  else addOp st c

/-- the `if current.is_alphabetic() … else if …` chain (outside strings and comments) -/
def classify (o : Oracles) (st : St) (adj : Bool) (c : Char) : St :=
  let i := o.info c
  if i.alpha then { st with pend := .ident [c] }
  else if i.numeric then { st with pend := .number [c] false }
  else if c = '(' then st.add .lp
  else if c = ')' then st.add .rp
  else if c = '[' then st.add .lsq
  else if c = ']' then st.add .rsq
  else if c = '{' then st.add .lcu
  else if c = '}' then st.add .rcu
  else if c = ',' then st.add .comma
  else if c = ';' then st.add .semi
  else if c = ':' then
    match st.lastTok with
    | some .colon => st.setLast .dcolon
    | _ => st.add .colon
  else if i.white then st
  else operator st adj c

/-- top of the loop body: `next_char` (column), `previous_was_operator := false`, the `\n` bookkeeping -/
def St.advance (st : St) (c : Char) : St :=
  if c = '\n' then { st with line := st.line + 1, col := 0, start := 0, prevOp := false }
  else { st with col := st.col + 1, prevOp := false }

/-- a last token `--` is removed and switches the comment flag on -/
def St.dashCheck (st : St) : St :=
  if st.lastTok = some dashDash then { st with com := true, toks := st.toks.tail } else st

/-- the string delimiter: close the open string (`add(String(..))`) or open one -/
def quote (st : St) : St :=
  match st.cur with
  | some s => { st with cur := none }.add (.str s.reverse)
  | none => { st with cur := some [] }

/-- one iteration of the outer loop on character `c` (no word / number pending) -/
def body (o : Oracles) (st : St) (c : Char) : St :=
  let adj := st.prevOp
  let st := (st.advance c).dashCheck
  if st.com then
    if c = '\n' then { st with com := false } else st
  else if c = '\\' ∧ st.esc = false then { st with esc := true }
  else if c = '\'' ∧ st.esc = false then quote st
  else
    let st := { st with esc := false }
    match st.cur with
    | some s => { st with cur := some (c :: s) }
    | none => classify o st adj c

/-- one character: continue the pending word / number (inner loop), or end it and run the loop body -/
def step (o : Oracles) (st : St) (c : Char) : R :=
  match st.pend with
  | .none => .run (body o st c)
  | .ident r =>
    if (o.info c).alnum || c = '_' then .run { st with pend := .ident (c :: r), col := st.col + 1 }
    else (flush o st).bind (fun st => .run (body o st c))
  | .number r d =>
    if (o.info c).numeric then .run { st with pend := .number (c :: r) d, col := st.col + 1 }
    else if c = '.' then
      if d then .fail ⟨st.line, st.col⟩ .alreadyHasDot
      else .run { st with pend := .number (c :: r) true, col := st.col + 1 }
    else (flush o st).bind (fun st => .run (body o st c))

def stepR (o : Oracles) (r : R) (c : Char) : R := r.bind (fun st => step o st c)

/-- the whole loop -/
def run (o : Oracles) (st : St) (text : List Char) : R := text.foldl (stepR o) (.run st)

/-- after the loop: removal of a trailing `--`, the `End` token -/
def St.close (st : St) : St :=
  (if st.lastTok = some dashDash then { st with toks := st.toks.tail } else st).add .eof

/-- after the loop: the pending word / number is converted first -/
def finish (o : Oracles) (st : St) : R := (flush o st).bind (fun st => .run st.close)

inductive Result where
  | ok (ts : List PTok)
  | error (loc : Loc) (e : LexErr)
  | missing (what : List Char)
  deriving Repr, DecidableEq, Inhabited

def tokenize (o : Oracles) (text : List Char) : Result :=
  match (run o {} text).bind (finish o) with
  | .run st => .ok st.toks.reverse
  | .fail l e => .error l e
  | .missing w => .missing w

/-- `tokenize_simple` -/
def tokens (o : Oracles) (text : List Char) : Option (List Tok) :=
  match tokenize o text with
  | .ok ts => some (ts.map (·.tok))
  | _ => none

/-! ### `str::lines` and `TokenLocation::extract_near` -/

/-- `str::lines()`: pieces ended by `\n` (one `\r` directly before it removed too); a non-empty rest is the last line -/
def linesGo : List Char → List Char → List (List Char)
  | [], cur => if cur.isEmpty then [] else [cur.reverse]
  | c :: cs, cur =>
    if c = '\n' then
      (match cur with
       | '\r' :: r => r.reverse
       | _ => cur.reverse) :: linesGo cs []
    else linesGo cs (c :: cur)

def lines (text : List Char) : List (List Char) := linesGo text []

structure WordSt where
  words : List (Nat × Nat) := []     -- reversed
  start : Nat := 0
  len : Nat := 0
  index : Nat := 0
  deriving Repr, DecidableEq, Inhabited

def wordStep (o : Oracles) (w : WordSt) (c : Char) : WordSt :=
  if (o.info c).white then
    { words := (w.start, w.len) :: w.words, len := 0, start := w.index + 1, index := w.index + 1 }
  else { w with len := w.len + 1, index := w.index + 1 }

/-- the `(word_start, word_length)` list: every whitespace character ends a (possibly empty) word -/
def wordsOf (o : Oracles) (line : List Char) : List (Nat × Nat) :=
  let w := line.foldl (wordStep o) {}
  (if w.len > 0 then (w.start, w.len) :: w.words else w.words).reverse

inductive Near where
  | text (s : List Char)
  | panic (site : String)
  deriving Repr, DecidableEq, Inhabited

/-- `&line_chars[start..(start + length)]`: the slice, or `none` where Rust's slice indexing panics -/
def getSubstr (line : List Char) (w : Nat × Nat) : Option (List Char) :=
  if w.1 ≤ w.1 + w.2 ∧ w.1 + w.2 ≤ line.length then some ((line.drop w.1).take w.2) else none

/-- `word_index.checked_sub(1).and_then(|i| words.get(i)).map(|w| get_substr(w) + " ").unwrap_or(String::new())`
(`none` = the slice panics) -/
def prevPart (line : List Char) (all : List (Nat × Nat)) (i : Nat) : Option (List Char) :=
  match (if i = 0 then none else all[i - 1]?) with
  | none => some []
  | some p => (getSubstr line p).map (· ++ [' '])

/-- `words.get(word_index + 1).map(|w| " " + &get_substr(w)).unwrap_or(String::new())` -/
def nextPart (line : List Char) (all : List (Nat × Nat)) (i : Nat) : Option (List Char) :=
  match all[i + 1]? with
  | none => some []
  | some n => (getSubstr line n).map (' ' :: ·)

/-- the `format!` of the excerpt around word `i`: previous word + space, the word, space + next word
(arguments evaluated in this order) -/
def excerpt (line : List Char) (all : List (Nat × Nat)) (i : Nat) (w : Nat × Nat) : Near :=
  match prevPart line all i with
  | none => .panic "slice(prev)"
  | some a =>
    match getSubstr line w with
    | none => .panic "slice(word)"
    | some b =>
      match nextPart line all i with
      | none => .panic "slice(next)"
      | some c => .text (a ++ b ++ c)

/-- the `for (word_index, …) in words.iter().enumerate()` loop with its `break` -/
def nearFrom (line : List Char) (col : Nat) (all : List (Nat × Nat)) : Nat → List (Nat × Nat) → Near
  | _, [] => .text []
  | i, w :: rest =>
    if w.1 ≥ col ∨ w.1 + w.2 ≥ col then excerpt line all i w
    else nearFrom line col all (i + 1) rest

def extractNear (o : Oracles) (loc : Loc) (text : List Char) : Near :=
  match (lines text)[loc.line]? with
  | some line =>
    let ws := wordsOf o line
    nearFrom line loc.column ws 0 ws
  | none => .text []

end Sqlgrep.Lex
