// C12: every line of every input file reaches the query exactly once, in order.
// Byte contents x splits into 1..4 files are run through the real FileExecutor with a table that admits
// every line; printed records and `total_lines` are compared with the Lean model (`lines`, `linecount`, `joinlines`
// cases) and with the property itself (independent split; multi-file == concatenation; no silent drop).
use std::fs::File;
use std::path::PathBuf;
use std::sync::atomic::AtomicBool;
use std::sync::Arc;

use sqlgrep::execution::execution_engine::ExecutionEngine;
use sqlgrep::execution::ExecutionError;
use sqlgrep::executor::{DisplayOptions, FileExecutor, OutputFormat};

use crate::run::{Params, Run};
use crate::runq::{parse_tables, tmp_file, CapturePrinter};
use crate::util::{catch, hex, Caught, Rng};

const DEFS: &str = "CREATE TABLE t(line = '(.*)', line[1] => x TEXT);";
const DEFS_U: &str = "CREATE TABLE t(line = '(.*)', line[1] => x TEXT); CREATE TABLE u(line = '(.*)', line[1] => y TEXT);";
const Q_SELECT: &str = "SELECT x FROM t";
const Q_COUNT: &str = "SELECT COUNT(*) AS n FROM t";

#[derive(Debug, Clone, PartialEq)]
pub enum Status { Ok, ReadErr, EngineErr(String), Panic(String) }

impl Status {
    fn word(&self) -> String {
        match self {
            Status::Ok => "ok".to_owned(),
            Status::ReadErr => "readerr".to_owned(),
            Status::EngineErr(_) => "engineerr".to_owned(),
            Status::Panic(_) => "panic".to_owned(),
        }
    }
}

#[derive(Debug, Clone, PartialEq)]
pub struct Observed {
    pub status: Status,
    pub printed: Vec<String>,
    pub total_lines: u64,
}

pub fn run_paths(defs: &str, query: &str, paths: &[PathBuf]) -> Observed {
    let mut total_lines = 0u64;
    let mut printed = Vec::new();
    let res = catch(|| -> Result<Status, String> {
        let tables = parse_tables(defs)?;
        let statement = sqlgrep::parsing::parse(query).map_err(|e| format!("parse: {}", e))?;
        let mut fs = Vec::new();
        for p in paths {
            fs.push(File::open(p).map_err(|e| format!("open: {}", e))?);
        }
        let running = Arc::new(AtomicBool::new(true));
        let display = DisplayOptions { output_format: OutputFormat::Json, single_result: false, print_result: true };
        let engine = ExecutionEngine::new(&tables, &statement);
        let mut executor = FileExecutor::with_output_printer(running, fs, display, CapturePrinter::new(), engine)
            .map_err(|e| format!("io: {}", e))?;
        let r = executor.execute();
        total_lines = executor.statistics().total_lines;
        printed = executor.output_printer().printer().lines.clone();
        Ok(match r {
            Ok(()) => Status::Ok,
            Err(ExecutionError::FailReadFile(_)) => Status::ReadErr,
            Err(e) => Status::EngineErr(format!("{}", e)),
        })
    });
    let status = match res {
        Caught::Done(Ok(s)) => s,
        Caught::Done(Err(e)) => Status::EngineErr(e),
        Caught::Panic(m) => Status::Panic(m),
    };
    Observed { status, printed, total_lines }
}

pub fn run_files(defs: &str, query: &str, files: &[Vec<u8>]) -> Observed {
    let paths: Vec<PathBuf> = files.iter().map(|c| tmp_file(c)).collect();
    let r = run_paths(defs, query, &paths);
    for p in paths { let _ = std::fs::remove_file(p); }
    r
}

/// printed JSON record `{"<col>": <string|null>}` -> the bytes of the value (None = not a string)
fn record_bytes(printed: &str, col: &str) -> Option<Vec<u8>> {
    let v: serde_json::Value = serde_json::from_str(printed).ok()?;
    v.get(col)?.as_str().map(|s| s.as_bytes().to_vec())
}

fn show_records(printed: &[String], col: &str) -> String {
    printed.iter().map(|p| match record_bytes(p, col) {
        Some(b) => format!(" {}", hex(&b)),
        None => format!(" [{}]", p.replace(' ', "_")),
    }).collect()
}

/// the property's reading of a file, computed independently of the implementation and of the model:
/// one item per line, None = the line is not valid UTF-8
pub fn spec_lines(content: &[u8]) -> Vec<Option<Vec<u8>>> {
    let mut out = Vec::new();
    let mut rest = content;
    while !rest.is_empty() {
        let (mut line, terminated) = match rest.iter().position(|b| *b == b'\n') {
            Some(i) => { let l = &rest[..i]; rest = &rest[i + 1..]; (l, true) }
            None => { let l = rest; rest = &rest[rest.len()..]; (l, false) }
        };
        let valid = std::str::from_utf8(line).is_ok();
        if terminated && line.last() == Some(&b'\r') { line = &line[..line.len() - 1]; }
        out.push(if valid { Some(line.to_vec()) } else { None });
    }
    out
}

const ATOMS: [&[u8]; 16] = [b"a", b"bc", b" ", b"'", "\u{e9}".as_bytes(), "\u{20ac}".as_bytes(), "\u{1f600}".as_bytes(),
    b"\n", b"\n", b"\n", b"\n\n", b"\r\n", b"\r\n", b"\r", b"\\", b"\""];
const BAD: [&[u8]; 6] = [b"\xff", b"\xc3", b"\xe2\x82", b"\x80", b"\xed\xa0\x80", b"\xc0\xaf"];

fn gen_content(rng: &mut Rng, max_atoms: usize, invalid: bool) -> Vec<u8> {
    let n = rng.below(max_atoms + 1);
    let mut out = Vec::new();
    for _ in 0..n {
        if invalid && rng.chance(1, 8) {
            let a: &[u8] = *rng.pick(&BAD[..]); out.extend_from_slice(a);
        } else {
            let a: &[u8] = *rng.pick(&ATOMS[..]); out.extend_from_slice(a);
        }
    }
    out
}

fn split_files(rng: &mut Rng, content: &[u8], k: usize, at_lines: bool) -> Vec<Vec<u8>> {
    // k files; cut points anywhere, or only directly after a newline
    let candidates: Vec<usize> = (0..=content.len()).filter(|&i| !at_lines || i == 0 || content[i - 1] == b'\n').collect();
    let mut pts: Vec<usize> = (1..k).map(|_| *rng.pick(&candidates)).collect();
    pts.sort();
    let mut out = Vec::new();
    let mut last = 0;
    for p in pts { out.push(content[last..p].to_vec()); last = p; }
    out.push(content[last..].to_vec());
    out
}

fn files_sexp(files: &[Vec<u8>]) -> String {
    format!("({})", files.iter().map(|f| hex(f)).collect::<Vec<_>>().join(" "))
}

fn bucket(n: usize) -> &'static str { match n { 0 => "0", 1 => "1", 2..=4 => "2-4", _ => "5+" } }

fn nl_terminated(f: &[u8]) -> bool { f.is_empty() || *f.last().unwrap() == b'\n' }

pub fn check_files(run: &mut Run, files: &[Vec<u8>], shape: &str) {
    let desc = format!("files {}", files_sexp(files));
    let spec: Vec<Vec<Option<Vec<u8>>>> = files.iter().map(|f| spec_lines(f)).collect();
    let flat: Vec<&Option<Vec<u8>>> = spec.iter().flatten().collect();
    let first_bad = flat.iter().position(|l| l.is_none());
    let all_valid = first_bad.is_none();
    let has_crlf = files.iter().any(|f| f.windows(2).any(|w| w == b"\r\n"));
    let has_empty = flat.iter().any(|l| l.as_ref().map(|x| x.is_empty()).unwrap_or(false));
    let unterminated = files.iter().filter(|f| !nl_terminated(f)).count();
    let boundary_inside_line = files.iter().take(files.len().saturating_sub(1)).any(|f| !nl_terminated(f));
    if has_crlf { run.count("has-crlf"); }
    if has_empty { run.count("has-empty-line"); }
    if unterminated > 0 { run.count("file-without-final-newline"); }
    if !all_valid { run.count("has-invalid-utf8-line"); }
    if boundary_inside_line { run.count("file-boundary-inside-line"); }
    if files.iter().any(|f| f.is_empty()) { run.count("has-empty-file"); }
    let tag_base = format!("{}/files{}/{}/crlf{}/nofinalnl{}/midline{}/n{}", shape, files.len(),
                           if all_valid { "valid" } else if first_bad == Some(flat.len() - 1) { "bad-last" } else { "bad-mid" },
                           has_crlf as u8, (unterminated > 0) as u8, boundary_inside_line as u8, bucket(flat.len()));

    // SELECT: one record per line
    let sel = run_files(DEFS, Q_SELECT, files);
    run.case(format!("lines {}", files_sexp(files)),
             format!("{} {}{}", sel.status.word(), sel.total_lines, show_records(&sel.printed, "x")),
             format!("select/{}", tag_base));
    // COUNT(*): aggregate over all lines
    let cnt = run_files(DEFS, Q_COUNT, files);
    run.case(format!("linecount {}", files_sexp(files)),
             format!("{} {}", cnt.status.word(), cnt.total_lines),
             format!("count/{}", tag_base));

    for o in [&sel, &cnt] {
        if let Status::Panic(m) = &o.status { run.fail(desc.clone(), "reader-panic", m.clone()); return; }
        if let Status::EngineErr(m) = &o.status { run.fail(desc.clone(), "unexpected-engine-error", m.clone()); return; }
    }

    // (1) every line presented exactly once, in order
    run.oracle_checks += 1;
    let got: Vec<Option<Vec<u8>>> = sel.printed.iter().map(|p| record_bytes(p, "x")).collect();
    if all_valid {
        let want: Vec<Option<Vec<u8>>> = flat.iter().map(|l| (*l).clone()).collect();
        if sel.status != Status::Ok {
            run.fail(desc.clone(), "spurious-read-error", format!("all lines valid but the run reported {}", sel.status.word()));
        } else if got != want {
            let common = got.iter().zip(want.iter()).take_while(|(a, b)| a == b).count();
            let class = if got.len() < want.len() && common == got.len() { "line-lost-at-end" }
                else if common < got.len() && common + 1 < want.len() && got[common] == want[common + 1] { "line-lost" }
                else if common > 0 && common < got.len() && got[common] == got[common - 1] { "line-duplicated" }
                else if got.len() > want.len() { "extra-line" }
                else { "line-altered" };
            run.fail(desc.clone(), class, format!("record {} differs: got {:?} want {:?}", common,
                     got.get(common).map(|x| x.as_ref().map(|b| hex(b))), want.get(common).map(|x| x.as_ref().map(|b| hex(b)))));
        } else if sel.total_lines != want.len() as u64 {
            run.fail(desc.clone(), "total-lines-mismatch", format!("total_lines {} for {} lines", sel.total_lines, want.len()));
        }
        // the aggregate saw every line
        let n = cnt.printed.first().and_then(|p| serde_json::from_str::<serde_json::Value>(p).ok()).and_then(|v| v.get("n").and_then(|n| n.as_i64()));
        // (an aggregate over no line at all prints no record)
        let n_ok = n == Some(want.len() as i64) || (want.is_empty() && cnt.printed.is_empty());
        if cnt.status != Status::Ok || !n_ok || cnt.total_lines != want.len() as u64 {
            run.fail(desc.clone(), "count-mismatch", format!("COUNT(*) printed {:?}, status {}, total_lines {} for {} lines", cnt.printed, cnt.status.word(), cnt.total_lines, want.len()));
        }
    } else {
        // (3) an invalid line never makes later lines vanish silently: error reported, or all valid lines still processed
        for o in [&sel, &cnt] {
            if o.status == Status::Ok {
                let valid_after = flat.iter().skip(first_bad.unwrap() + 1).filter(|l| l.is_some()).count();
                let valid_total = flat.iter().filter(|l| l.is_some()).count() as u64;
                if valid_after > 0 && o.total_lines < valid_total {
                    run.fail(desc.clone(), "D31:silent-drop", format!("{} valid lines follow the invalid one; run reported success with total_lines {}", valid_after, o.total_lines));
                }
            }
        }
        // the lines before the first invalid one are presented in order
        let before: Vec<Option<Vec<u8>>> = flat.iter().take(first_bad.unwrap()).map(|l| (*l).clone()).collect();
        if got.len() < before.len() || got[..before.len()] != before[..] {
            run.fail(desc.clone(), "line-lost-before-invalid", format!("records before the invalid line: got {} want {}", got.len(), before.len()));
        }
    }

    // (2) several newline-terminated files == their concatenation
    if files.len() > 1 && files.iter().take(files.len() - 1).all(|f| nl_terminated(f)) {
        run.oracle_checks += 1;
        run.count("concat-relation-checked");
        let cat: Vec<u8> = files.concat();
        let sel1 = run_files(DEFS, Q_SELECT, &[cat.clone()]);
        let cnt1 = run_files(DEFS, Q_COUNT, &[cat]);
        if sel1 != sel {
            run.fail(desc.clone(), "multi-file-neq-concat", format!("SELECT: files => {} {} records, concatenation => {} {} records", sel.status.word(), sel.printed.len(), sel1.status.word(), sel1.printed.len()));
        }
        if cnt1 != cnt {
            run.fail(desc.clone(), "multi-file-neq-concat", format!("COUNT: files => {:?}, concatenation => {:?}", cnt.printed, cnt1.printed));
        }
    }
}

/// the joined file goes through the same reader (src/execution/join.rs): every line of it is loaded once
pub fn check_join(run: &mut Run, main: &[u8], joined: &[u8]) {
    let jpath = tmp_file(joined);
    let mpath = tmp_file(main);
    let query = format!("SELECT t.x, u.y FROM t INNER JOIN u::'{}' ON t.x = u.y", jpath.display());
    let o = run_paths(DEFS_U, &query, &[mpath.clone()]);
    let _ = std::fs::remove_file(&jpath);
    let _ = std::fs::remove_file(&mpath);
    let desc = format!("join main {} joined {}", hex(main), hex(joined));
    let m = spec_lines(main);
    let j = spec_lines(joined);
    run.oracle_checks += 1;
    run.count("join-loader-checked");
    {
        let recs: Vec<String> = o.printed.iter().filter(|p| !p.is_empty()).cloned().collect();
        let kind = |v: &Vec<Option<Vec<u8>>>| if v.iter().all(|l| l.is_some()) { "valid" } else { "invalid" };
        run.case(format!("joinlines {} {}", hex(main), hex(joined)),
                 format!("{} {}{}", o.status.word(), o.total_lines, show_records(&recs, "t.x")),
                 format!("join/main-{}/joined-{}/m{}/j{}/out{}", kind(&m), kind(&j), bucket(m.len()), bucket(j.len()), bucket(recs.len())));
    }
    if let Status::Panic(e) = &o.status { run.fail(desc, "reader-panic", e.clone()); return; }
    let j_valid = j.iter().all(|l| l.is_some());
    let m_valid = m.iter().all(|l| l.is_some());
    if !j_valid || !m_valid {
        if o.status == Status::Ok {
            run.fail(desc, "D31:silent-drop", "an invalid line in the main or joined file, yet the join reported success".to_owned());
        }
        return;
    }
    if o.status != Status::Ok {
        run.fail(desc, "spurious-read-error", format!("valid inputs, status {:?}", o.status));
        return;
    }
    // expected: for every main line in order, one record per equal joined line (multiset per key)
    let mut want: Vec<Vec<u8>> = Vec::new();
    for l in m.iter().flatten() {
        let k = j.iter().flatten().filter(|x| *x == l).count();
        for _ in 0..k { want.push(l.clone()); }
    }
    let got: Vec<Option<Vec<u8>>> = o.printed.iter().filter(|p| !p.is_empty()).map(|p| record_bytes(p, "t.x")).collect();
    let want_o: Vec<Option<Vec<u8>>> = want.into_iter().map(Some).collect();
    if got != want_o {
        run.fail(desc, "join-line-lost-or-duplicated", format!("join produced {} records, expected {}: {:?}", got.len(), want_o.len(), o.printed));
    }
}

pub fn run(p: &Params) -> Run {
    let mut run = Run::new("C12");
    let mut rng = Rng::new(p.seed ^ 0xC12);

    // corner contents, every split count
    let corners: Vec<&[u8]> = vec![
        b"", b"\n", b"a", b"a\n", b"a\nb", b"a\r\nb\r\n", b"a\r\n\r\n", b"\r\n", b"\r", b"a\rb\n", b"a\r\r\n", b"\n\n\n",
        b"a\n\xff\nb\n", b"\xff", b"a\nb\xc3", b"a\xc3\nb\n", b"a\n\xc3\xa9\n", "\u{e9}\u{20ac}\u{1f600}\n".as_bytes(),
        b"a\nb\n\xffc", b"\xc3\n\xa9\n",
    ];
    for c in &corners {
        check_files(&mut run, &[c.to_vec()], "corner");
        for cutp in 0..=c.len() {
            check_files(&mut run, &[c[..cutp].to_vec(), c[cutp..].to_vec()], "corner-split");
        }
    }

    let n = p.n(4000, 30_000);
    for i in 0..n {
        let invalid = i % 3 == 0;
        let mut content = gen_content(&mut rng, if i % 5 == 0 { 40 } else { 12 }, invalid);
        if rng.chance(1, 2) && !content.is_empty() && *content.last().unwrap() != b'\n' { content.push(b'\n'); }
        let k = 1 + rng.below(4);
        let at_lines = rng.chance(1, 2);
        let files = split_files(&mut rng, &content, k, at_lines);
        check_files(&mut run, &files, if at_lines { "split-at-lines" } else { "split-anywhere" });
    }

    // long lines (longer than BufReader's 8 KiB buffer)
    let n_long = p.n(16, 60);
    for i in 0..n_long {
        let len = if p.tier_thorough && i % 4 == 0 { 100_000 } else { 8_000 + rng.below(12_000) };
        let mut content = gen_content(&mut rng, 3, false);
        if !content.is_empty() && *content.last().unwrap() != b'\n' { content.push(b'\n'); }
        let unit = "ab \u{e9}\u{20ac}".as_bytes();
        let mut l = 0;
        while l < len { content.extend_from_slice(unit); l += unit.len(); }
        if rng.chance(1, 4) { content.push(0xff); }
        if rng.chance(1, 2) { content.extend_from_slice(b"\r\n"); } else if rng.chance(1, 2) { content.push(b'\n'); }
        content.extend_from_slice(&gen_content(&mut rng, 3, false));
        let k = 1 + rng.below(3);
        let at_lines = rng.chance(1, 2);
        let files = split_files(&mut rng, &content, k, at_lines);
        check_files(&mut run, &files, "long-line");
    }

    // joined-file loader
    let n_join = p.n(600, 3000);
    for i in 0..n_join {
        let main = gen_content(&mut rng, 8, i % 5 == 0);
        let joined = gen_content(&mut rng, 8, i % 4 == 0);
        check_join(&mut run, &main, &joined);
    }
    // the command-line program itself on 1-4 files in command-line order, all formats (oracle only)
    let mut crng = Rng::new(p.seed ^ 0xC12C11);
    crate::cli::batch_stream(&mut run, &mut crng, p.n(45, 600));
    // the whole program in-process: any statement from raw text, every format, files vs their concatenation
    let mut erng = Rng::new(p.seed ^ 0xC12e2e);
    crate::e2e::concat_relation(&mut run, &mut erng, p.n(150, 2500));
    run
}
