import SqlgrepModel.Model.Value
import SqlgrepModel.Lemmas.Order
/- Order laws for the model of `Value`'s derived comparison. -/
set_option linter.unusedSimpArgs false
namespace Sqlgrep

/-! ### REAL -/
namespace F64

/-- total order key: NaN above every number -/
def okey (n : Nat) : Int := if isNaN n then 2^63 else key n

theorem key_lt (n : Nat) : key n < 2^63 ∧ -(2^63 : Int) < key n := by
  unfold key mag
  have : n % 2^63 < 2^63 := Nat.mod_lt _ (by decide)
  split <;> omega

theorem cmp_eq_compare (a b : Nat) : cmp a b = compare (okey a) (okey b) := by
  unfold cmp okey
  have ha := key_lt a
  have hb := key_lt b
  by_cases h1 : isNaN a <;> by_cases h2 : isNaN b <;> simp [h1, h2]
  · symm; rw [Int.compare_eq_gt]; omega
  · symm; rw [Int.compare_eq_lt]; omega

theorem cmp_T (a b c : Nat) : T (cmp a b) (cmp b c) (cmp a c) := by
  simp only [cmp_eq_compare]; exact T_int _ _ _

theorem cmp_swap (a b : Nat) : cmp b a = (cmp a b).swap := by
  simp only [cmp_eq_compare]; rw [Int.compare_swap]

theorem cmp_refl (a : Nat) : cmp a a = .eq := by
  simp only [cmp_eq_compare]; rw [Int.compare_eq_eq]

theorem hashBits_eq_of_cmp_eq {a b : Nat} (h : cmp a b = .eq) : hashBits a = hashBits b := by
  unfold cmp at h
  unfold hashBits
  by_cases h1 : isNaN a <;> by_cases h2 : isNaN b <;> simp [h1, h2] at h ⊢
  unfold key at h
  by_cases s1 : signBit a <;> by_cases s2 : signBit b <;> simp [s1, s2] at h ⊢
  · have : mag a = mag b := by omega
    simp [this]
  · have h0 : mag a = 0 := by omega
    have h0' : mag b = 0 := by omega
    simp [h0, h0']
  · have h0 : mag a = 0 := by omega
    have h0' : mag b = 0 := by omega
    simp [h0, h0']
  · have : mag a = mag b := by omega
    simp [this]

end F64

/-! ### ValueType -/
namespace VType

theorem cmp_T : ∀ (a b c : VType), T (cmp a b) (cmp b c) (cmp a c) := by
  intro a
  induction a with
  | array e ih =>
    intro b c
    cases b <;> cases c <;>
      first | exact ih _ _ | (simp only [cmp]; exact T_nat _ _ _)
            | simp [cmp, rank, T, Nat.compare_eq_lt, Nat.compare_eq_gt]
  | _ =>
    intro b c
    cases b <;> cases c <;>
      first | (simp only [cmp]; exact T_nat _ _ _)
            | simp [cmp, rank, T, Nat.compare_eq_lt, Nat.compare_eq_gt]

theorem cmp_swap : ∀ (a b : VType), cmp b a = (cmp a b).swap := by
  intro a
  induction a with
  | array e ih =>
    intro b
    cases b <;> first | exact ih _ | (simp only [cmp]; rw [Nat.compare_swap])
  | _ =>
    intro b
    cases b <;> (simp only [cmp]; rw [Nat.compare_swap])

theorem cmp_eq_iff : ∀ (a b : VType), cmp a b = .eq ↔ a = b := by
  intro a
  induction a with
  | array e ih =>
    intro b
    cases b <;> simp [cmp, rank, ih]
  | _ =>
    intro b
    cases b <;> simp [cmp, rank]

end VType

namespace Value

/-! ### byte strings -/
theorem cmpBytes_T : ∀ (a b c : List Nat), T (cmpBytes a b) (cmpBytes b c) (cmpBytes a c)
  | [], [], [] => by simp [cmpBytes, T]
  | [], [], _ :: _ => by simp [cmpBytes, T]
  | [], _ :: _, [] => by simp [cmpBytes, T]
  | [], _ :: _, _ :: _ => by simp [cmpBytes, T]
  | _ :: _, [], [] => by simp [cmpBytes, T]
  | _ :: _, [], _ :: _ => by simp [cmpBytes, T]
  | _ :: _, _ :: _, [] => by simp [cmpBytes, T]
  | x :: xs, y :: ys, z :: zs => by
    simp only [cmpBytes]
    exact T_then (T_nat x y z) (fun _ _ => cmpBytes_T xs ys zs)

theorem cmpBytes_swap : ∀ (a b : List Nat), cmpBytes b a = (cmpBytes a b).swap
  | [], [] => rfl
  | [], _ :: _ => rfl
  | _ :: _, [] => rfl
  | x :: xs, y :: ys => by
    simp only [cmpBytes, Ordering.swap_then, cmpBytes_swap xs ys, Nat.compare_swap]

theorem cmpBytes_eq_iff : ∀ (a b : List Nat), cmpBytes a b = .eq ↔ a = b
  | [], [] => by simp [cmpBytes]
  | [], _ :: _ => by simp [cmpBytes]
  | _ :: _, [] => by simp [cmpBytes]
  | x :: xs, y :: ys => by
    simp [cmpBytes, Ordering.then_eq_eq, Nat.compare_eq_eq, cmpBytes_eq_iff xs ys]

theorem cmpBool_T (a b c : Bool) : T (cmpBool a b) (cmpBool b c) (cmpBool a c) := T_nat _ _ _
theorem cmpBool_swap (a b : Bool) : cmpBool b a = (cmpBool a b).swap := by
  unfold cmpBool; rw [Nat.compare_swap]
theorem cmpBool_eq_iff (a b : Bool) : cmpBool a b = .eq ↔ a = b := by
  cases a <;> cases b <;> decide

/-! ### values: decomposition into rank and payload -/

theorem cmp_of_rank_ne {a b : Value} (h : a.rank ≠ b.rank) : cmp a b = compare a.rank b.rank := by
  cases a <;> cases b <;> simp [rank] at h <;> simp [cmp, rank]

theorem cmp_rank_lt {a b : Value} (h : a.rank < b.rank) : cmp a b = .lt := by
  rw [cmp_of_rank_ne (by omega), Nat.compare_eq_lt]; exact h

theorem cmp_rank_gt {a b : Value} (h : b.rank < a.rank) : cmp a b = .gt := by
  rw [cmp_of_rank_ne (by omega), Nat.compare_eq_gt]; exact h

theorem rank_le_of_cmp_ne_gt {a b : Value} (h : cmp a b ≠ .gt) : a.rank ≤ b.rank := by
  false_or_by_contra
  rename_i hn
  exact h (cmp_rank_gt (by omega))

theorem rank_eq_of_cmp_eq {a b : Value} (h : cmp a b = .eq) : a.rank = b.rank := by
  false_or_by_contra
  rename_i hn
  rw [cmp_of_rank_ne hn, Nat.compare_eq_eq] at h
  exact hn h

end Value
end Sqlgrep

namespace Sqlgrep
namespace Value

theorem T_ts (d s f d' s' f' d'' s'' f'' : Int) :
    T (((compare d d').then (compare s s')).then (compare f f'))
      (((compare d' d'').then (compare s' s'')).then (compare f' f''))
      (((compare d d'').then (compare s s'')).then (compare f f'')) :=
  T_then (T_then (T_int _ _ _) (fun _ _ => T_int _ _ _)) (fun _ _ => T_int _ _ _)

mutual
theorem cmp_T : ∀ (a b c : Value), T (cmp a b) (cmp b c) (cmp a c)
  | a, b, c => by
    by_cases hab : a.rank = b.rank
    · by_cases hbc : b.rank = c.rank
      · -- all three of the same variant
        cases a <;> cases b <;> simp [rank] at hab <;> cases c <;> simp [rank] at hbc <;> simp only [cmp]
        · simp [T]
        · exact T_int _ _ _
        · exact F64.cmp_T _ _ _
        · exact cmpBool_T _ _ _
        · exact cmpBytes_T _ _ _
        · rename_i t xs u ys v zs
          exact T_then (VType.cmp_T t u v) (fun _ _ => cmpList_T xs ys zs)
        · exact T_ts _ _ _ _ _ _ _ _ _
        · exact T_int _ _ _
      · have hac : a.rank ≠ c.rank := by omega
        rw [cmp_of_rank_ne hbc, cmp_of_rank_ne hac]
        have := rank_eq_of_cmp_eq (a := a) (b := b)
        unfold T
        refine ⟨?_, ?_, ?_⟩
        · intro _ h; rw [Nat.compare_eq_lt] at *; omega
        · intro h; rw [hab]
        · intro h; rw [Nat.compare_eq_eq] at h; exact absurd h hbc
    · rw [cmp_of_rank_ne hab]
      by_cases hbc : b.rank = c.rank
      · have hac : a.rank ≠ c.rank := by omega
        rw [cmp_of_rank_ne hac]
        unfold T
        refine ⟨?_, ?_, ?_⟩
        · intro h _; rw [Nat.compare_eq_lt] at *; omega
        · intro h; rw [Nat.compare_eq_eq] at h; exact absurd h hab
        · intro _; rw [hbc]
      · rw [cmp_of_rank_ne hbc]
        unfold T
        refine ⟨?_, ?_, ?_⟩
        · intro h1 h2
          rw [Nat.compare_eq_lt] at h1 h2
          exact cmp_rank_lt (by omega)
        · intro h; rw [Nat.compare_eq_eq] at h; exact absurd h hab
        · intro h; rw [Nat.compare_eq_eq] at h; exact absurd h hbc
theorem cmpList_T : ∀ (a b c : List Value), T (cmpList a b) (cmpList b c) (cmpList a c)
  | [], [], [] => by simp [cmpList, T]
  | [], [], _ :: _ => by simp [cmpList, T]
  | [], _ :: _, [] => by simp [cmpList, T]
  | [], _ :: _, _ :: _ => by simp [cmpList, T]
  | _ :: _, [], [] => by simp [cmpList, T]
  | _ :: _, [], _ :: _ => by simp [cmpList, T]
  | _ :: _, _ :: _, [] => by simp [cmpList, T]
  | x :: xs, y :: ys, z :: zs => by
    simp only [cmpList]
    exact T_then (cmp_T x y z) (fun _ _ => cmpList_T xs ys zs)
end

end Value
end Sqlgrep

namespace Sqlgrep
namespace Value

mutual
theorem cmp_swap : ∀ (a b : Value), cmp b a = (cmp a b).swap
  | a, b => by
    by_cases hab : a.rank = b.rank
    · cases a <;> cases b <;> simp [rank] at hab <;> simp only [cmp]
      · rfl
      · rw [Int.compare_swap]
      · exact F64.cmp_swap _ _
      · exact cmpBool_swap _ _
      · exact cmpBytes_swap _ _
      · rename_i t xs u ys
        rw [Ordering.swap_then, VType.cmp_swap t u, cmpList_swap xs ys]
      · simp only [Ordering.swap_then, Int.compare_swap]
      · rw [Int.compare_swap]
    · rw [cmp_of_rank_ne hab, cmp_of_rank_ne (Ne.symm hab), Nat.compare_swap]
theorem cmpList_swap : ∀ (a b : List Value), cmpList b a = (cmpList a b).swap
  | [], [] => rfl
  | [], _ :: _ => rfl
  | _ :: _, [] => rfl
  | x :: xs, y :: ys => by
    simp only [cmpList, Ordering.swap_then, cmp_swap x y, cmpList_swap xs ys]
end

theorem cmp_refl (a : Value) : cmp a a = .eq := by
  have h := cmp_swap a a
  cases h' : cmp a a <;> rw [h'] at h <;> simp [Ordering.swap] at h ⊢

mutual
theorem cmp_eq_iff_beq : ∀ (a b : Value), cmp a b = .eq ↔ beq a b = true
  | a, b => by
    by_cases hab : a.rank = b.rank
    · cases a <;> cases b <;> simp [rank] at hab
      case array.array t xs u ys =>
        simp [cmp, beq, Ordering.then_eq_eq, VType.cmp_eq_iff, cmpList_eq_iff_beqList xs ys]
      all_goals simp [cmp, beq, Int.compare_eq_eq, cmpBool_eq_iff, cmpBytes_eq_iff, Ordering.then_eq_eq, and_assoc]
    · constructor
      · intro h; exact absurd (rank_eq_of_cmp_eq h) hab
      · intro h
        cases a <;> cases b <;> simp [rank] at hab <;> simp [beq] at h
theorem cmpList_eq_iff_beqList : ∀ (a b : List Value), cmpList a b = .eq ↔ beqList a b = true
  | [], [] => by simp [cmpList, beqList]
  | [], _ :: _ => by simp [cmpList, beqList]
  | _ :: _, [] => by simp [cmpList, beqList]
  | x :: xs, y :: ys => by
    simp [cmpList, beqList, Ordering.then_eq_eq, cmp_eq_iff_beq x y, cmpList_eq_iff_beqList xs ys]
end

mutual
theorem hashRepr_eq_of_beq : ∀ (a b : Value), beq a b = true → hashRepr a = hashRepr b
  | a, b => by
    intro h
    cases a <;> cases b <;> simp [beq] at h <;> simp only [hashRepr]
    · rw [h]
    · rw [F64.hashBits_eq_of_cmp_eq h]
    · rw [h]
    · rw [h]
    · rename_i t xs u ys
      obtain ⟨h1, h2⟩ := h
      subst h1
      rw [hashList_eq_of_beqList xs ys h2, length_eq_of_beqList xs ys h2]
    · obtain ⟨⟨h1, h2⟩, h3⟩ := h
      rw [h1, h2, h3]
    · rw [h]
theorem hashList_eq_of_beqList : ∀ (a b : List Value), beqList a b = true → hashList a = hashList b
  | [], [] => fun _ => rfl
  | [], _ :: _ => by simp [beqList]
  | _ :: _, [] => by simp [beqList]
  | x :: xs, y :: ys => by
    intro h
    simp [beqList] at h
    simp only [hashList, hashRepr_eq_of_beq x y h.1, hashList_eq_of_beqList xs ys h.2]
theorem length_eq_of_beqList : ∀ (a b : List Value), beqList a b = true → a.length = b.length
  | [], [] => fun _ => rfl
  | [], _ :: _ => by simp [beqList]
  | _ :: _, [] => by simp [beqList]
  | _ :: xs, _ :: ys => by
    intro h
    simp [beqList] at h
    simp [length_eq_of_beqList xs ys h.2]
end

end Value
end Sqlgrep
