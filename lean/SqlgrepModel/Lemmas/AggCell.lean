import SqlgrepModel.Lemmas.AggMap
/-
One aggregate, one group: the cell (`group_aggregators[key][idx]`, `group_values[key][idx]`) an aggregate owns.
* `cellStep` factors into "evaluate the argument on the row" (`Spec.Agg.argument`) and a step on the value (`stepV`);
* a step never removes an entry;
* locality: `updateAggregate` on (key, idx) changes exactly the cell (key, idx).
-/
set_option linter.unusedSimpArgs false
namespace Sqlgrep
open Value

/-- does this row count for `COUNT(col)` / `COUNT(*)` -/
def countValid (col : Option String) (v : Value) : Bool :=
  match col with
  | some _ => !v.isNull
  | none => true

/-- `*group_value += 1` -/
def bumpCount (c : Cell) : Cell :=
  match c.val.getD (.int 0) with
  | .int n => { c with val := some (.int (n + 1)) }
  | other => { c with val := some other }

/-- `if let Some(this_valid) = aggregator.update(..)? { valid = this_valid.bool() }` -/
def validAfter (r : Option Value) (valid : Bool) : Bool :=
  match r with
  | some x => x.truthy
  | none => valid

def stepCount (col : Option String) (distinct : Bool) (v : Value) (c : Cell) : Outcome Cell :=
  if countValid col v && distinct then
    (aggUpdate (c.agg.getD (.countDistinct [])) v).bind (fun p =>
      let c1 : Cell := { c with agg := some p.1 }
      .ok (if validAfter p.2 (countValid col v) then bumpCount c1 else c1))
  else .ok (if countValid col v then bumpCount c else c)

/-- `cellStep` as a function of the already evaluated argument value -/
def stepV (k : AggKind) (v : Value) (c : Cell) : Outcome Cell :=
  match k with
  | .groupKey _ _ => .ok c
  | .count col distinct => stepCount col distinct v c
  | .min _ | .max _ =>
    if !v.isNull then
      let cur := c.val.getD v
      let better : Bool := match k with
        | .min _ => cur.isNull || Value.cmp v cur == .lt
        | _ => cur.isNull || Value.cmp v cur == .gt
      .ok { c with val := some (if better then v else cur) }
    else .ok { c with val := some (c.val.getD .null) }
  | .sum _ | .avg _ | .stddev _ _ | .percentile _ _ | .boolAnd _ | .boolOr _ =>
    let a := c.agg.getD (defaultAggregator k v)
    if !v.isNull then do
      let (a', r) ← aggUpdate a v
      match r with
      | some value => pure { agg := some a', val := some value }
      | none => pure { c with agg := some a' }
    else if aggIsNull a then .ok { agg := some a, val := some .null }
    else .ok { c with agg := some a }
  | .arrayAgg _ =>
    match c.val with
    | some (.array t xs) => .ok { c with val := some (.array t (xs ++ [v])) }
    | some _ => .ok c
    | none =>
      match v.valueType with
      | some t => .ok { c with val := some (.array t [v]) }
      | none => .error .cannotCreateArrayOfNullType
  | .stringAgg _ delim =>
    match v with
    | .text s =>
      match c.val with
      | none => .ok { c with val := some (.text s) }
      | some (.text cur) => .ok { c with val := some (.text (cur ++ delim ++ s)) }
      | some other => .ok { c with val := some other }
    | .null => .ok c
    | _ => .error .expectedStringValue

/-- `update_aggregate` = evaluate the aggregate's argument on the row, then fold the value into the cell -/
theorem cellStep_eq (O : Oracles) (q : AggStmt) (env : Env) (k : AggKind) (c : Cell) :
    cellStep O q env k c = (Spec.Agg.argument O q env k).bind (fun v => stepV k v c) := by
  cases k with
  | groupKey e canon =>
    simp only [cellStep, Spec.Agg.argument, stepV]
    cases validateGroupKey q canon <;> rfl
  | count col distinct =>
    cases col with
    | none =>
      cases distinct
      · simp only [cellStep, Spec.Agg.argument, stepV, stepCount, countValid, bumpCount]
        simp [Outcome.bind, bind, pure]
        generalize c.val.getD (Value.int 0) = w; cases w <;> rfl
      · simp [cellStep, Spec.Agg.argument, stepV, Outcome.bind, bind, pure]
    | some cn =>
      simp only [cellStep, Spec.Agg.argument, stepV, stepCount, countValid, bumpCount, validAfter]
      cases env.get .table cn with
      | none => simp [Outcome.ofOption, Outcome.bind, bind, pure]
      | some v =>
        cases hn : v.isNull <;> cases distinct
        · simp [Outcome.ofOption, Outcome.bind, bind, pure, hn]
          generalize c.val.getD (Value.int 0) = w; cases w <;> rfl
        · simp only [Outcome.ofOption, Outcome.bind, bind, pure, hn]
          simp
          cases aggUpdate (c.agg.getD (Aggregator.countDistinct [])) v with
          | ok p =>
            obtain ⟨a', r⟩ := p
            cases r with
            | none => simp [hn]; generalize c.val.getD (Value.int 0) = w; cases w <;> rfl
            | some x =>
              cases hx : x.truthy <;> simp [hx]
              generalize c.val.getD (Value.int 0) = w; cases w <;> rfl
          | error k => rfl
          | panic s => rfl
          | oracleMissing s => rfl
        · simp [Outcome.ofOption, Outcome.bind, bind, pure, hn]
        · simp [Outcome.ofOption, Outcome.bind, bind, pure, hn]
  | min e => simp only [cellStep, Spec.Agg.argument, stepV]; cases eval O env e <;> rfl
  | max e => simp only [cellStep, Spec.Agg.argument, stepV]; cases eval O env e <;> rfl
  | sum e => simp only [cellStep, Spec.Agg.argument, stepV]; cases eval O env e <;> rfl
  | avg e => simp only [cellStep, Spec.Agg.argument, stepV]; cases eval O env e <;> rfl
  | stddev e b => simp only [cellStep, Spec.Agg.argument, stepV]; cases eval O env e <;> rfl
  | percentile e p => simp only [cellStep, Spec.Agg.argument, stepV]; cases eval O env e <;> rfl
  | boolAnd e => simp only [cellStep, Spec.Agg.argument, stepV]; cases eval O env e <;> rfl
  | boolOr e => simp only [cellStep, Spec.Agg.argument, stepV]; cases eval O env e <;> rfl
  | arrayAgg e => simp only [cellStep, Spec.Agg.argument, stepV]; cases eval O env e <;> rfl
  | stringAgg e d => simp only [cellStep, Spec.Agg.argument, stepV]; cases eval O env e <;> rfl

/-! ### a step never removes an entry -/

theorem bind_ok {α β : Type} {x : Outcome α} {f : α → Outcome β} {b : β} (h : x >>= f = .ok b) :
    ∃ a, x = .ok a ∧ f a = .ok b := by
  cases x with
  | ok a => exact ⟨a, rfl, h⟩
  | error k => simp [bind, Outcome.bind] at h
  | panic s => simp [bind, Outcome.bind] at h
  | oracleMissing s => simp [bind, Outcome.bind] at h

theorem obind_ok {α β : Type} {x : Outcome α} {f : α → Outcome β} {b : β} (h : x.bind f = .ok b) :
    ∃ a, x = .ok a ∧ f a = .ok b := bind_ok h

/-- `c'` has every entry `c` has -/
def Cell.Extends (c' c : Cell) : Prop := (c.agg.isSome → c'.agg.isSome) ∧ (c.val.isSome → c'.val.isSome)

theorem Cell.Extends.refl (c : Cell) : Cell.Extends c c := ⟨id, id⟩

theorem bumpCount_extends (c : Cell) : (bumpCount c).agg = c.agg ∧ (bumpCount c).val.isSome := by
  unfold bumpCount
  generalize c.val.getD (Value.int 0) = w
  cases w <;> simp

theorem bumpIf_extends (b : Bool) (c1 : Cell) :
    (if b = true then bumpCount c1 else c1).agg = c1.agg ∧
      (c1.val.isSome → (if b = true then bumpCount c1 else c1).val.isSome) := by
  cases b
  · simp
  · simp only [if_true]
    exact ⟨(bumpCount_extends c1).1, fun _ => (bumpCount_extends c1).2⟩

theorem stepV_extends {k : AggKind} {v : Value} {c c' : Cell} (h : stepV k v c = .ok c') : Cell.Extends c' c := by
  unfold Cell.Extends
  cases k with
  | groupKey e canon => simp [stepV] at h; subst h; simp
  | count col distinct =>
    simp only [stepV, stepCount] at h
    split at h
    · obtain ⟨⟨a', r⟩, _, h2⟩ := obind_ok h
      simp only [Outcome.ok.injEq] at h2
      rw [← h2]
      have := bumpIf_extends (validAfter r (countValid col v)) { agg := some a', val := c.val }
      exact ⟨fun _ => by rw [this.1]; rfl, this.2⟩
    · simp only [Outcome.ok.injEq] at h
      rw [← h]
      have := bumpIf_extends (countValid col v) c
      exact ⟨fun hh => by rw [this.1]; exact hh, this.2⟩
  | min e => simp only [stepV] at h; split at h <;> (simp at h; rw [← h]; simp)
  | max e => simp only [stepV] at h; split at h <;> (simp at h; rw [← h]; simp)
  | arrayAgg e =>
    simp only [stepV] at h
    split at h
    · simp at h; rw [← h]; simp
    · simp at h; rw [← h]; simp
    · split at h
      · simp at h; rw [← h]; simp
      · simp at h
  | stringAgg e d =>
    simp only [stepV] at h
    split at h
    · split at h <;> (simp at h; rw [← h]; simp)
    · simp at h; rw [← h]; simp
    · simp at h
  | sum e | avg e | stddev e b | percentile e p | boolAnd e | boolOr e =>
    simp only [stepV] at h
    split at h
    · obtain ⟨⟨a', r⟩, _, h4⟩ := bind_ok h
      simp only at h4
      split at h4 <;> (simp [pure] at h4; rw [← h4]; simp)
    · split at h <;> (simp at h; rw [← h]; simp)

theorem cellStep_extends {O : Oracles} {q : AggStmt} {env : Env} {k : AggKind} {c c' : Cell}
    (h : cellStep O q env k c = .ok c') : Cell.Extends c' c := by
  rw [cellStep_eq] at h
  obtain ⟨v, _, h2⟩ := obind_ok h
  exact stepV_extends h2

/-! ### locality -/

structure AggSorted (st : AggState) : Prop where
  aggs : GmSorted st.aggs
  vals : GmSorted st.vals

theorem aggSorted_init : AggSorted {} := ⟨gmSorted_nil, gmSorted_nil⟩

theorem gmGet_congr {α : Type} (m : GroupMap α) {k k' : List Value} (hk : cmpList k k' = .eq) :
    gmGet m k = gmGet m k' := by
  unfold gmGet
  have : (fun g : List Value × List (Nat × α) => cmpList g.1 k == .eq) = (fun g => cmpList g.1 k' == .eq) := by
    funext g
    rw [cmpList_congr_right hk g.1]
  rw [this]

/-- equal keys address the same cell -/
theorem readCell_congr (st : AggState) {k k' : List Value} (hk : cmpList k k' = .eq) (i : Nat) :
    readCell st k i = readCell st k' i := by
  simp only [readCell, gmLookup, gmGet_congr _ hk]

theorem aggSorted_writeCell {st : AggState} (hs : AggSorted st) (k : List Value) (i : Nat) (c : Cell) :
    AggSorted (writeCell st k i c) := by
  unfold writeCell
  cases ha : c.agg <;> cases hv : c.val <;> simp only [setAgg, setVal]
  · exact hs
  · exact ⟨hs.aggs, gmSorted_gmModify hs.vals _ _⟩
  · exact ⟨gmSorted_gmModify hs.aggs _ _, hs.vals⟩
  · exact ⟨gmSorted_gmModify hs.aggs _ _, gmSorted_gmModify hs.vals _ _⟩

/-- writing a cell that has every entry of the old one: that cell is now `c`, every other cell is untouched -/
theorem readCell_writeCell {st : AggState} (hs : AggSorted st) (k : List Value) (i : Nat) (c : Cell)
    (hext : Cell.Extends c (readCell st k i)) (k' : List Value) (i' : Nat) :
    readCell (writeCell st k i c) k' i' = if cmpList k k' = .eq ∧ i = i' then c else readCell st k' i' := by
  obtain ⟨ca, cv⟩ := c
  unfold Cell.Extends at hext
  simp only [readCell] at hext
  by_cases hcond : cmpList k k' = .eq ∧ i = i'
  · obtain ⟨hk, hi⟩ := hcond
    subst hi
    have hga : gmLookup st.aggs k i = gmLookup st.aggs k' i := by simp only [gmLookup, gmGet_congr _ hk]
    have hgv : gmLookup st.vals k i = gmLookup st.vals k' i := by simp only [gmLookup, gmGet_congr _ hk]
    simp only [hk, and_self, if_true]
    unfold writeCell
    cases ca with
    | none =>
      have h1 : gmLookup st.aggs k i = none := by
        cases h : gmLookup st.aggs k i with
        | none => rfl
        | some a => simp [h] at hext
      cases cv with
      | none =>
        have h2 : gmLookup st.vals k i = none := by
          cases h : gmLookup st.vals k i with
          | none => rfl
          | some a => simp [h] at hext
        simp only [readCell, ← hga, ← hgv, h1, h2]
      | some v =>
        simp only [readCell, setVal, gmLookup_gmSet hs.vals, hk, and_self, if_true, ← hga, h1]
    | some a =>
      cases cv with
      | none =>
        have h2 : gmLookup st.vals k i = none := by
          cases h : gmLookup st.vals k i with
          | none => rfl
          | some a => simp [h] at hext
        simp only [readCell, setAgg, gmLookup_gmSet hs.aggs, hk, and_self, if_true, ← hgv, h2]
      | some v =>
        simp only [readCell, setAgg, setVal, gmLookup_gmSet hs.aggs, gmLookup_gmSet hs.vals, hk, and_self, if_true]
  · simp only [hcond, if_false]
    unfold writeCell
    cases ca <;> cases cv <;>
      simp only [readCell, setAgg, setVal, gmLookup_gmSet hs.aggs, gmLookup_gmSet hs.vals, hcond, if_false]

/-- shape invariants of the two maps: no aggregate index twice in a group, no empty group in `group_values`,
every stored key is one of the keys `S` (the keys of the rows seen) -/
structure Shape (st : AggState) (S : List (List Value)) : Prop where
  aggsInner : ∀ g ∈ st.aggs, (g.2.map (·.1)).Nodup
  valsNonempty : ∀ g ∈ st.vals, g.2 ≠ []
  aggsKeys : ∀ g ∈ st.aggs, g.1 ∈ S
  valsKeys : ∀ g ∈ st.vals, g.1 ∈ S

theorem shape_init (S : List (List Value)) : Shape {} S :=
  ⟨fun _ h => by simp at h, fun _ h => by simp at h, fun _ h => by simp at h, fun _ h => by simp at h⟩

theorem shape_mono {st : AggState} {S S' : List (List Value)} (h : Shape st S) (hsub : ∀ k ∈ S, k ∈ S') : Shape st S' :=
  ⟨h.aggsInner, h.valsNonempty, fun g hg => hsub _ (h.aggsKeys g hg), fun g hg => hsub _ (h.valsKeys g hg)⟩

theorem shape_setVal {st : AggState} {S : List (List Value)} (h : Shape st S) {k : List Value} (hk : k ∈ S) (i : Nat) (v : Value) :
    Shape (setVal st k i v) S := by
  refine ⟨h.aggsInner, ?_, h.aggsKeys, ?_⟩
  · exact gm_all_gmModify (P := fun l => l ≠ []) (f := fun l => alSet l i v) h.valsNonempty k (alSet_ne_nil _ _ _) (fun l _ => alSet_ne_nil l _ _)
  · intro g hg
    rcases gm_key_gmModify st.vals k _ g hg with h1 | h1
    · rw [h1]; exact hk
    · obtain ⟨g', hg', he⟩ := List.mem_map.mp h1
      rw [← he]; exact h.valsKeys g' hg'

theorem shape_setAgg {st : AggState} {S : List (List Value)} (h : Shape st S) {k : List Value} (hk : k ∈ S) (i : Nat) (a : Aggregator) :
    Shape (setAgg st k i a) S := by
  refine ⟨?_, h.valsNonempty, ?_, h.valsKeys⟩
  · exact gm_all_gmModify (P := fun l => (l.map (·.1)).Nodup) (f := fun l => alSet l i a) h.aggsInner k
      (alSet_nodup [] i a (by simp)) (fun l hl => alSet_nodup l i a hl)
  · intro g hg
    rcases gm_key_gmModify st.aggs k _ g hg with h1 | h1
    · rw [h1]; exact hk
    · obtain ⟨g', hg', he⟩ := List.mem_map.mp h1
      rw [← he]; exact h.aggsKeys g' hg'

theorem shape_writeCell {st : AggState} {S : List (List Value)} (h : Shape st S) {k : List Value} (hk : k ∈ S) (i : Nat) (c : Cell) :
    Shape (writeCell st k i c) S := by
  unfold writeCell
  cases c.agg <;> cases c.val <;> simp only
  · exact h
  · exact shape_setVal h hk _ _
  · exact shape_setAgg h hk _ _
  · exact shape_setVal (shape_setAgg h hk _ _) hk _ _

/-- `update_aggregate` for (key, idx): that cell takes one `cellStep`, every other cell is untouched -/
theorem updateAggregate_cells {O : Oracles} {q : AggStmt} {env : Env} {key : List Value} {idx : Nat} {k : AggKind}
    {st st' : AggState} (hs : AggSorted st) (h : updateAggregate O q env key idx k st = .ok st') :
    AggSorted st' ∧ ∃ c', cellStep O q env k (readCell st key idx) = .ok c' ∧
      ∀ k' i', readCell st' k' i' = if cmpList key k' = .eq ∧ idx = i' then c' else readCell st k' i' := by
  unfold updateAggregate at h
  obtain ⟨c', h1, h2⟩ := bind_ok h
  simp only [pure, Outcome.ok.injEq] at h2
  subst h2
  exact ⟨aggSorted_writeCell hs _ _ _, c', h1, readCell_writeCell hs key idx c' (cellStep_extends h1)⟩

theorem updateAggregate_shape {O : Oracles} {q : AggStmt} {env : Env} {key : List Value} {idx : Nat} {k : AggKind}
    {st st' : AggState} {S : List (List Value)} (hsh : Shape st S) (hk : key ∈ S)
    (h : updateAggregate O q env key idx k st = .ok st') : Shape st' S := by
  unfold updateAggregate at h
  obtain ⟨c', _, h2⟩ := bind_ok h
  simp only [pure, Outcome.ok.injEq] at h2
  subst h2
  exact shape_writeCell hsh hk _ _

end Sqlgrep
