import SqlgrepModel.Model.Print
/- Structure of the lines emitted by `OutputPrinter::print` (records / header / separator). -/
namespace Sqlgrep.Print

/-- the record lines among the printed lines -/
def records : List Line → List Bytes
  | [] => []
  | .record b :: rest => b :: records rest
  | _ :: rest => records rest

/-- the header lines among the printed lines -/
def headers : List Line → List Bytes
  | [] => []
  | .header b :: rest => b :: headers rest
  | _ :: rest => headers rest

def allRows : List (ResultRow × Bool) → List (List Bytes × List Value)
  | [] => []
  | (r, _) :: rest => r.rows.map (fun row => (r.columns, row)) ++ allRows rest

theorem records_append (a b : List Line) : records (a ++ b) = records a ++ records b := by
  induction a with
  | nil => rfl
  | cons x xs ih => cases x <;> simp [records, ih]

theorem headers_append (a b : List Line) : headers (a ++ b) = headers a ++ headers b := by
  induction a with
  | nil => rfl
  | cons x xs ih => cases x <;> simp [headers, ih]

theorem records_headerLines (fmt : Format) (cols : List Bytes) (first : Bool) :
    records (headerLines fmt cols first) = [] := by
  unfold headerLines
  cases fmt <;> simp [records]
  cases first <;> simp [records]

theorem records_separatorLines (rows : List (List Value)) (single : Bool) :
    records (separatorLines rows single) = [] := by
  unfold separatorLines
  split <;> simp [records]

theorem headers_separatorLines (rows : List (List Value)) (single : Bool) :
    headers (separatorLines rows single) = [] := by
  unfold separatorLines
  split <;> simp [headers]

theorem records_printRows (o : RealOracle) (fmt : Format) (cols : List Bytes) (first : Bool)
    (rows : List (List Value)) :
    records (printRows o fmt cols first rows) = rows.map (renderRecord o fmt cols) := by
  induction rows generalizing first with
  | nil => simp [printRows, records]
  | cons row rest ih =>
    simp [printRows, printRow, records_append, records_headerLines, records, ih]

theorem records_printResult (o : RealOracle) (fmt : Format) (first : Bool) (r : ResultRow) (single : Bool) :
    records (printResult o fmt first r single).1 = r.rows.map (renderRecord o fmt r.columns) := by
  simp [printResult, records_append, records_printRows, records_separatorLines]

theorem records_printAll (o : RealOracle) (fmt : Format) (first : Bool) (seq : List (ResultRow × Bool)) :
    records (printAll o fmt first seq)
      = (allRows seq).map (fun cr => renderRecord o fmt cr.1 cr.2) := by
  induction seq generalizing first with
  | nil => simp [printAll, records, allRows]
  | cons x rest ih =>
    obtain ⟨r, single⟩ := x
    simp only [printAll, allRows, records_append, List.map_append, List.map_map]
    rw [ih]
    have := records_printResult o fmt first r single
    simp only [printResult] at this ⊢
    rw [this]
    rfl

end Sqlgrep.Print

namespace Sqlgrep.Print

theorem headers_printRows_false (o : RealOracle) (fmt : Format) (cols : List Bytes) (rows : List (List Value)) :
    headers (printRows o fmt cols false rows) = [] := by
  induction rows with
  | nil => rfl
  | cons row rest ih =>
    simp only [printRows, printRow, headers_append, ih]
    cases fmt <;> simp [headerLines, headers]

theorem headers_printAll_false (o : RealOracle) (fmt : Format) (seq : List (ResultRow × Bool)) :
    headers (printAll o fmt false seq) = [] := by
  induction seq with
  | nil => rfl
  | cons x rest ih =>
    obtain ⟨r, single⟩ := x
    simp only [printAll, printResult, headers_append, headers_printRows_false, headers_separatorLines,
      Bool.false_and, ih, List.append_nil]

theorem headers_not_csv (o : RealOracle) (fmt : Format) (h : ∀ d, fmt ≠ .csv d) (first : Bool)
    (seq : List (ResultRow × Bool)) : headers (printAll o fmt first seq) = [] := by
  induction seq generalizing first with
  | nil => rfl
  | cons x rest ih =>
    obtain ⟨r, single⟩ := x
    simp only [printAll, printResult, headers_append, headers_separatorLines, ih, List.append_nil]
    generalize r.rows = rows
    induction rows generalizing first with
    | nil => rfl
    | cons row more ih2 =>
      simp only [printRows, printRow, headers_append, ih2]
      cases fmt with
      | csv d => exact absurd rfl (h d)
      | _ => simp [headerLines, headers]

/-- CSV from `first_line = true`: nothing is printed while no row has been seen; the first row of the
sequence is printed as header line then record line, and no later line is a header. -/
theorem printAll_csv_first (o : RealOracle) (d : Bytes) (seq : List (ResultRow × Bool)) :
    (allRows seq = [] → printAll o (.csv d) true seq = []) ∧
    (∀ cols row more, allRows seq = (cols, row) :: more →
      ∃ rest, printAll o (.csv d) true seq
          = .header (joinWith d cols) :: .record (renderRecord o (.csv d) cols row) :: rest
        ∧ headers rest = []) := by
  induction seq with
  | nil => exact ⟨fun _ => rfl, fun _ _ _ h => by simp [allRows] at h⟩
  | cons x rest ih =>
    obtain ⟨r, single⟩ := x
    obtain ⟨cols, rows⟩ := r
    cases rows with
    | nil =>
      simp only [allRows, List.map_nil, List.nil_append, printAll, printResult, printRows,
        separatorLines, List.length_nil, List.isEmpty_nil, Bool.and_self]
      simpa using ih
    | cons row more =>
      refine ⟨fun h => by simp [allRows] at h, ?_⟩
      intro cols' row' more' h
      simp only [allRows, List.map_cons, List.cons_append, List.cons.injEq, Prod.mk.injEq] at h
      obtain ⟨⟨rfl, rfl⟩, _⟩ := h
      refine ⟨printRows o (.csv d) cols false more ++ separatorLines (row :: more) single
        ++ printAll o (.csv d) false rest, ?_, ?_⟩
      · simp [printAll, printResult, printRows, printRow, headerLines]
      · simp [headers_append, headers_printRows_false, headers_separatorLines, headers_printAll_false]

end Sqlgrep.Print
