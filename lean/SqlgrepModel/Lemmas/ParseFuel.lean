import SqlgrepModel.Model.ParseStmt
/-
Termination half of C14: every loop turn and every recursive descent of the parser consumes a token or returns, so
the fuel `3·|tokens|+3` is never exhausted.

`PRes.Adv r n` : `r` is not the out-of-fuel answer and, when it is `ok _ s'`, fewer than `n` tokens remain in `s'`;
`PRes.Keep r n` : the same with "at most `n`".
For the expression parser (`Model/ParseExpr.lean`) the six mutually recursive functions are treated together
(`FuelIH`), by induction on the fuel; each function body is split along its control flow (`psplit`) and every leaf is
closed from the facts "this primitive consumed one token" by linear arithmetic.
-/
namespace Sqlgrep

def PRes.Adv {α : Type} (r : PRes α) (n : Nat) : Prop := r ≠ .fuel ∧ ∀ a s', r = .ok a s' → s'.remaining < n
def PRes.Keep {α : Type} (r : PRes α) (n : Nat) : Prop := r ≠ .fuel ∧ ∀ a s', r = .ok a s' → s'.remaining ≤ n

/-- split a function body along its control flow: zeta-reduce the `let`s, then split the outermost `match`/`if` -/
macro "psplit" : tactic => `(tactic| repeat' ((try dsimp only); split))

namespace Parse

theorem rem_pos (s : PSt) : 1 ≤ s.remaining := by simp [PSt.remaining]

theorem next_ok {s : PSt} {a s'} (h : next s = .ok a s') : s'.remaining + 1 = s.remaining := by
  unfold next mkErr at h
  split at h
  · simp at h
  · rename_i heq; simp at h; subst h; simp [PSt.remaining, heq]

theorem next_nofuel (s : PSt) : next s ≠ .fuel := by
  unfold next mkErr; split <;> simp

theorem mkErr_nofuel {α : Type} (s : PSt) (k : PErrKind) : (mkErr s k : PRes α) ≠ .fuel := by simp [mkErr]
theorem mkErr_notok {α : Type} (s : PSt) (k : PErrKind) (a : α) (s' : PSt) : (mkErr s k : PRes α) ≠ .ok a s' := by simp [mkErr]

theorem expectConsume_ok {t k} {s : PSt} {a s'} (h : expectConsume t k s = .ok a s') :
    s'.remaining + 1 = s.remaining := by
  unfold expectConsume mkErr at h
  split at h
  · exact next_ok h
  · simp at h

theorem expectConsume_nofuel (t k) (s : PSt) : expectConsume t k s ≠ .fuel := by
  unfold expectConsume mkErr; split
  · exact next_nofuel s
  · simp

theorem expectConsumeOp_ok {o} {s : PSt} {a s'} (h : expectConsumeOp o s = .ok a s') :
    s'.remaining + 1 = s.remaining := expectConsume_ok h

theorem expectConsumeOp_nofuel (o) (s : PSt) : expectConsumeOp o s ≠ .fuel := expectConsume_nofuel _ _ s

theorem consumeIdentifier_ok {s : PSt} {a s'} (h : consumeIdentifier s = .ok a s') :
    s'.remaining + 1 = s.remaining := by
  unfold consumeIdentifier mkErr PRes.bind at h
  split at h
  · split at h <;> simp_all
    rename_i h2; have := next_ok h2; omega
  · simp at h

theorem consumeIdentifier_nofuel (s : PSt) : consumeIdentifier s ≠ .fuel := by
  unfold consumeIdentifier mkErr PRes.bind
  split
  · split <;> simp_all [next_nofuel]
  · simp

theorem consumeString_ok {s : PSt} {a s'} (h : consumeString s = .ok a s') :
    s'.remaining + 1 = s.remaining := by
  unfold consumeString mkErr PRes.bind at h
  split at h
  · split at h <;> simp_all
    rename_i h2; have := next_ok h2; omega
  · simp at h

theorem consumeString_nofuel (s : PSt) : consumeString s ≠ .fuel := by
  unfold consumeString mkErr PRes.bind
  split
  · split <;> simp_all [next_nofuel]
  · simp

theorem consumeInt_ok {s : PSt} {a s'} (h : consumeInt s = .ok a s') :
    s'.remaining + 1 = s.remaining := by
  unfold consumeInt mkErr PRes.bind at h
  split at h
  · split at h <;> simp_all
    rename_i h2; have := next_ok h2; omega
  · simp at h

theorem consumeInt_nofuel (s : PSt) : consumeInt s ≠ .fuel := by
  unfold consumeInt mkErr PRes.bind
  split
  · split <;> simp_all [next_nofuel]
  · simp

theorem tokenPrecedence_ok {T} {s : PSt} {a s'} (h : tokenPrecedence T s = .ok a s') : s' = s := by
  unfold tokenPrecedence mkErr at h
  split at h
  · split at h <;> simp_all
  · simp_all

theorem tokenPrecedence_nofuel (T) (s : PSt) : tokenPrecedence T s ≠ .fuel := by
  unfold tokenPrecedence mkErr
  split
  · split <;> simp
  · simp

/-- the induction hypothesis for the six expression functions at one fuel value -/
structure FuelIH (T : PrecTables) (fuel : Nat) : Prop where
  e : ∀ s, 3 * s.remaining ≤ fuel → (parseExpr T fuel s).Adv s.remaining
  r : ∀ prec lhs s, 3 * s.remaining + 2 ≤ fuel → (parseRhs T fuel prec lhs s).Keep s.remaining
  u : ∀ s, 3 * s.remaining ≤ fuel + 1 → (parseUnary T fuel s).Adv s.remaining
  p : ∀ s, 3 * s.remaining ≤ fuel + 2 → (parsePrimary T fuel s).Adv s.remaining
  c : ∀ loc cl s, 3 * s.remaining ≤ fuel + 1 → (parseCase T fuel loc cl s).Adv s.remaining
  l : ∀ close acc s, 3 * s.remaining + 1 ≤ fuel → (parseList T fuel close acc s).Adv s.remaining

theorem adv_err {α : Type} (e : PErr) (s : PSt) (n : Nat) : (PRes.err e s : PRes α).Adv n := by simp [PRes.Adv]
theorem keep_err {α : Type} (e : PErr) (s : PSt) (n : Nat) : (PRes.err e s : PRes α).Keep n := by simp [PRes.Keep]
theorem adv_mkErr {α : Type} (s : PSt) (k : PErrKind) (n : Nat) : (mkErr s k : PRes α).Adv n := by simp [PRes.Adv, mkErr]
theorem keep_mkErr {α : Type} (s : PSt) (k : PErrKind) (n : Nat) : (mkErr s k : PRes α).Keep n := by simp [PRes.Keep, mkErr]

/-- leaves of the split bodies: facts about the primitives + the induction hypotheses + linear arithmetic -/
macro "pleaf" : tactic => `(tactic| first
  | exact adv_err _ _ _
  | exact keep_err _ _ _
  | exact adv_mkErr _ _ _
  | exact keep_mkErr _ _ _
  | exact absurd ‹_ = PRes.fuel› (next_nofuel _)
  | exact absurd ‹_ = PRes.fuel› (expectConsume_nofuel _ _ _)
  | exact absurd ‹_ = PRes.fuel› (consumeIdentifier_nofuel _)
  | exact absurd ‹_ = PRes.fuel› (tokenPrecedence_nofuel _ _)
  | grind [PRes.Adv, PRes.Keep, PRes.bind, mkErr, next_ok, next_nofuel, expectConsume_ok, expectConsume_nofuel,
         consumeIdentifier_ok, consumeIdentifier_nofuel, tokenPrecedence_ok, tokenPrecedence_nofuel, rem_pos, consumeString_ok, consumeString_nofuel,
         consumeInt_ok, consumeInt_nofuel, expectConsumeOp_ok, expectConsumeOp_nofuel])

theorem step_expr (T : PrecTables) (fuel : Nat) (ih : FuelIH T fuel) :
    ∀ s, 3 * s.remaining ≤ fuel + 1 → (parseExpr T (fuel + 1) s).Adv s.remaining := by
  intro s hb
  have ihr := ih.r; have ihu := ih.u
  rw [parseExpr]
  psplit
  all_goals pleaf

theorem step_rhs (T : PrecTables) (fuel : Nat) (ih : FuelIH T fuel) :
    ∀ prec lhs s, 3 * s.remaining + 2 ≤ fuel + 1 → (parseRhs T (fuel + 1) prec lhs s).Keep s.remaining := by
  intro prec lhs s hb
  have ihe := ih.e; have ihr := ih.r; have ihu := ih.u; have ihl := ih.l
  rw [parseRhs]
  psplit
  all_goals pleaf

theorem step_unary (T : PrecTables) (fuel : Nat) (ih : FuelIH T fuel) :
    ∀ s, 3 * s.remaining ≤ fuel + 1 + 1 → (parseUnary T (fuel + 1) s).Adv s.remaining := by
  intro s hb
  have ihr := ih.r; have ihu := ih.u; have ihp := ih.p
  rw [parseUnary]
  psplit
  all_goals pleaf

set_option maxHeartbeats 1000000 in
theorem step_primary (T : PrecTables) (fuel : Nat) (ih : FuelIH T fuel) :
    ∀ s, 3 * s.remaining ≤ fuel + 1 + 2 → (parsePrimary T (fuel + 1) s).Adv s.remaining := by
  intro s hb
  have ihe := ih.e; have ihc := ih.c; have ihl := ih.l
  rw [parsePrimary]
  simp only [PRes.bind]
  psplit
  all_goals pleaf

theorem step_case (T : PrecTables) (fuel : Nat) (ih : FuelIH T fuel) :
    ∀ loc cl s, 3 * s.remaining ≤ fuel + 1 + 1 → (parseCase T (fuel + 1) loc cl s).Adv s.remaining := by
  intro loc cl s hb
  have ihe := ih.e; have ihc := ih.c
  rw [parseCase]
  psplit
  all_goals pleaf

theorem step_list (T : PrecTables) (fuel : Nat) (ih : FuelIH T fuel) :
    ∀ close acc s, 3 * s.remaining + 1 ≤ fuel + 1 → (parseList T (fuel + 1) close acc s).Adv s.remaining := by
  intro close acc s hb
  have ihe := ih.e; have ihl := ih.l
  rw [parseList]
  simp only [PRes.bind]
  psplit
  all_goals pleaf

theorem fuelIH_all (T : PrecTables) : ∀ fuel, FuelIH T fuel := by
  intro fuel
  induction fuel with
  | zero =>
    constructor
    all_goals (intros; have := rem_pos ‹PSt›; omega)
  | succ n ih =>
    exact ⟨step_expr T n ih, step_rhs T n ih, step_unary T n ih, step_primary T n ih, step_case T n ih, step_list T n ih⟩

end Parse
end Sqlgrep
