// C09: execution is total — extreme-value generators at expression and statement level, all output formats,
// every case under catch_unwind. Local time zones: in BOTH tiers the composed timestamp statements (every date_trunc /
// EXTRACT part, text cast, comparisons over ts ± iv at both ends of chrono's range; D73) run in child processes under
// eleven zones east and west of UTC; the thorough tier also repeats the whole statement-level scan there. Operator
// chains without brackets (finding D75) run in child processes as well (library on an 8 MiB thread; the real program).
// A panic anywhere — or a child that dies — is a failure; the text-format runs are also correspondence cases.
use std::fs::File;
use std::sync::atomic::AtomicBool;
use std::sync::Arc;

use sqlgrep::execution::execution_engine::ExecutionEngine;
use sqlgrep::executor::{DisplayOptions, FileExecutor, OutputFormat};
use sqlgrep::model::ValueType;

use crate::c03::{check_expr, gen_env, gen_expr};
use crate::c04::{gen_input, join_lines};
use crate::engine_run::*;
use crate::queries::*;
use crate::run::{Params, Run};
use crate::runq::{tmp_file, CapturePrinter};
use crate::util::{catch, Caught, Rng};

const TS_DEFS: &str = "CREATE TABLE t(line = '^([^;]*);([^;]*);([^;]*);([^;]*);([^;]*);([^;]*);([^;]*);([^;]*)$', line[1], line[2], line[3], line[4], line[5], line[6], line[7] => ts TIMESTAMP, line[8] => iv INTERVAL, line[1], line[2] => arr INT[], line[8] => x TEXT, line[1], line[2], line[3], line[4], line[5], line[6], line[7], line[6] => ts8 TIMESTAMP, line[1], line[2], line[3], line[4], line[5], line[6], line[7], line[1], line[2] => ts9 TIMESTAMP MICROSECONDS);\nCREATE TABLE j({.a} => a INT, {.b[0]} => b REAL, {.c.d} => c TEXT DEFAULT 'z', {.t} => t TIMESTAMP CONVERT, {.i} => i INTERVAL CONVERT);";

use crate::gen::awkward_text;

fn ts_line(rng: &mut Rng) -> String {
    let num = |rng: &mut Rng, normal: &[&str]| -> String {
        if rng.chance(1, 5) { (*rng.pick(&["4294967297", "-1", "99999999999999999999", "", "x", "2147483648", "9999999", "0"])).to_owned() } else { (*rng.pick(normal)).to_owned() }
    };
    format!("{};{};{};{};{};{};{};{}",
        num(rng, &["2020", "1999", "2018", "262142", "1"]), num(rng, &["1", "2", "11", "12", "jan", "Feb", "sept"]), num(rng, &["1", "4", "28", "29", "31"]),
        num(rng, &["0", "12", "23"]), num(rng, &["0", "30", "59"]), num(rng, &["0", "30", "59", "60"]), num(rng, &["0", "5", "999", "999999"]),
        if rng.chance(1, 4) { awkward_text(rng) } else { (*rng.pick(&["1:2:3", "9999999999999999:0:0", "0:9999999999999999:0", "-5:0:0", "x", "2562047788015:0:0", "2018-11-04 00:30:00",
            // every part inside chrono's range, the SUM of the parts just outside / just inside (both signs)
            "2562047788015:13:00", "2562047788015:12:60", "2562047788015:12:55", "-2562047788015:-13:00", "2562047788015:0:99999", "0:153722867280912:56", "0:0:9223372036854775"])).to_owned() })
}

fn json_line(rng: &mut Rng) -> String {
    if rng.chance(1, 5) {
        return format!("{{\"a\": 1, \"t\": \"{}\", \"i\": \"{}\", \"c\": {{\"d\": \"{}\"}}}}", awkward_text(rng), awkward_text(rng), awkward_text(rng));
    }
    (*rng.pick(&[
        "{\"a\": 1, \"b\": [1.5], \"c\": {\"d\": \"x\"}, \"t\": \"2018-11-04 00:30:00\", \"i\": \"1:2:3\"}",
        "{\"a\": 9223372036854775808, \"b\": [1e308], \"t\": \"2018-02-17 23:30:00\", \"i\": \"99999999999999:0:0\"}", "{\"a\": 2, \"i\": \"2562047788015:13:00\", \"t\": \"2018-02-17 23:30:00\"}", "{\"a\": 3, \"i\": \"-2562047788015:-12:-60\"}",
        "{\"a\": -9223372036854775808, \"b\": [], \"c\": 5}", "{\"a\": 1e400}", "[1,2", "", "null", "{\"a\": {\"a\": 1}}", "{\"b\": [\"x\"]}",
        "{\"a\": 18446744073709551616, \"b\": [-0.0]}", "{\"t\": \"0000-00-00 00:00:00\", \"i\": \"::\"}",
    ])).to_owned()
}

const TS_QUERIES: &[&str] = &[
    "SELECT ts, iv, arr, x FROM t", "SELECT * FROM t", "SELECT ts8, ts9, ts FROM t", "SELECT SUM(iv), AVG(iv), STDDEV(iv), VARIANCE(iv) FROM t", "SELECT COUNT(*) FROM t HAVING SUM(iv) > iv", "SELECT ts + iv, ts - ts, iv + iv, iv - iv FROM t", "SELECT MIN(ts), MAX(ts), SUM(iv), AVG(iv), COUNT(*) FROM t",
    "SELECT EXTRACT(EPOCH FROM ts), EXTRACT(YEAR FROM ts), date_trunc('hour', ts), date_trunc('day', ts), date_trunc('year', ts) FROM t",
    "SELECT ts FROM t WHERE ts > '2018-11-04 00:30:00'", "SELECT ts FROM t WHERE ts > x", "SELECT x FROM t WHERE make_timestamp(2020, 1, 1, 0, 0, 0, 0, 0) < x", "SELECT x FROM t WHERE x >= make_timestamp(2005, 6, 17, 7, 7, 7, 0, 0) OR x = ts", "SELECT x::timestamp, x::interval, iv::int, iv::real, ts::text, iv::text FROM t",
    "SELECT arr[1], arr[0], arr[9223372036854775807], arr[-9223372036854775807 - 1], array_unique(arr), array_length(arr) FROM t",
    "SELECT STDDEV(iv), VARIANCE(iv), PERCENTILE(ts, 0.5), ARRAY_AGG(ts), STRING_AGG(x, ',') FROM t", "SELECT ts, COUNT(*) FROM t GROUP BY ts HAVING MAX(iv) > MIN(iv)",
    "SELECT greatest(ts, ts), least(iv, iv), abs(iv), -iv FROM t", "SELECT make_timestamp(2018, 11, 4, 0, 30, 0, 0, 0), make_timestamp(-262144, 1, 1, 0, 0, 0, 0, 0) + iv FROM t",
];
// ---------------------------------------------------------------------------------------------
// Composed timestamp queries (D73). The fixed list above never applied `date_trunc` / `EXTRACT` / `::text` / a comparison
// to `ts ± iv`; these are generated by composition: a TIMESTAMP-valued operand (the column, the column moved by the
// interval column or by a literal interval, a made timestamp at either end of the supported range, greatest / least of
// two such) under every part of `date_trunc`, every part of `EXTRACT`, the text cast, comparisons, differences and the
// aggregates that keep a timestamp — over lines whose timestamps lie in the first / last hours of the range
// (years -262143 / 262142) and intervals of a few hours that carry the instant to (and across) the end of the range,
// next to ordinary ones. East of UTC the LOCAL time of an instant in the last hours of the range lies outside the range
// (west of UTC: of one in the first hours); nothing may panic there. Oracle: no panic, no abort (C09).
// ---------------------------------------------------------------------------------------------

/// the zones of the time-zone children: DST gaps at midnight, half-hour and 45-minute offsets, a half-hour DST shift,
/// east and west of UTC up to the date line (UTC+14 / UTC-11)
pub const TZ_ZONES: &[&str] = &["America/Sao_Paulo", "Europe/London", "Asia/Beirut", "Australia/Lord_Howe", "Asia/Tokyo", "America/St_Johns",
    "Pacific/Kiritimati", "Pacific/Pago_Pago", "Asia/Kathmandu", "Pacific/Chatham", "America/Los_Angeles"];

/// every part `date_trunc` knows, and one it does not (an error, not a panic)
pub const TRUNC_PARTS: &[&str] = &["year", "month", "day", "hour", "minute", "second", "milliseconds", "microseconds", "week"];
pub const EXTRACT_PARTS: &[&str] = &["EPOCH", "YEAR", "MONTH", "DAY", "HOUR", "MINUTE", "SECOND"];
const EDGE_INTERVALS: &[&str] = &["1:2:3", "-1:2:3", "5:0:0", "-5:0:0", "13:59:59", "-13:59:59", "0:30:0", "-0:30:0", "24:0:0", "-24:0:0", "0:0:1", "11:22:48", "-12:37:12", "14:0:0", "-14:0:0", "0:0:0"];

/// a line of table t whose timestamp lies within the first / last day of the supported range, or an ordinary one
/// (DST switch days of the zones above among them); the interval is a few hours, of either sign
pub fn edge_ts_line(rng: &mut Rng) -> String {
    let iv = *rng.pick(EDGE_INTERVALS);
    let us = *rng.pick(&["0", "0", "999999", "500000"]);
    match rng.below(8) {
        0 | 1 | 2 => format!("262142;12;31;{};{};{};{};{}", rng.pick(&[0u32, 9, 10, 12, 13, 20, 21, 22, 23, 23]), rng.pick(&[0u32, 1, 30, 59]), rng.pick(&[0u32, 59]), us, iv),
        3 | 4 | 5 => format!("-262143;1;1;{};{};{};{};{}", rng.pick(&[0u32, 0, 1, 2, 3, 11, 12, 13, 14, 23]), rng.pick(&[0u32, 1, 30, 59]), rng.pick(&[0u32, 59]), us, iv),
        6 => format!("{};{};{};{};{};{};{};{}", rng.pick(&["262142", "-262143", "262141", "-262142"]), rng.pick(&[1u32, 12]), rng.pick(&[1u32, 2, 30, 31]), rng.below(24), rng.below(60), rng.below(60), us, iv),
        _ => format!("{};{};{};{}", rng.pick(&["2018;11;4", "2018;2;17", "2019;3;31", "2019;10;6", "2020;3;29", "2021;4;4", "2024;2;29", "1999;12;31", "1;1;1", "1883;11;18", "1969;12;31", "1970;1;1"]),
                     format!("{};{};{}", rng.below(24), rng.pick(&[0u32, 15, 30, 59]), rng.pick(&[0u32, 59])), us, iv),
    }
}

/// every combination the defect needs, independent of the PRNG: both ends × hours near the end × intervals of both signs
pub fn edge_ts_file() -> Vec<String> {
    let mut lines = Vec::new();
    for (date, hours) in &[("262142;12;31", [9u32, 12, 21, 22, 23]), ("-262143;1;1", [0u32, 1, 2, 12, 14])] {
        for h in hours {
            for iv in &["1:2:3", "-1:2:3", "13:59:59", "-13:59:59"] {
                lines.push(format!("{};{};0;0;0;{}", date, h, iv));
            }
        }
    }
    lines.push("2018;11;4;0;30;0;0;1:2:3".to_owned());
    lines.push("2020;3;29;2;30;0;0;-5:0:0".to_owned());
    lines
}

/// a TIMESTAMP-valued expression over the columns of t
fn ts_operand(rng: &mut Rng) -> String {
    match rng.below(12) {
        0 => "ts".to_owned(),
        1 | 2 | 3 => "ts + iv".to_owned(),
        4 | 5 => "ts - iv".to_owned(),
        6 => format!("ts {} iv {} iv", rng.pick(&["+", "-"]), rng.pick(&["+", "-"])),
        7 => format!("ts {} '{}'::interval", rng.pick(&["+", "-"]), rng.pick(&["05:00:00", "01:02:03", "13:59:59", "00:30:00", "24:00:00"])),
        8 => format!("make_timestamp(262142, 12, 31, {}, {}, 0, 0) {} iv", rng.pick(&[9u32, 21, 22, 23]), rng.pick(&[0u32, 59]), rng.pick(&["+", "-"])),
        9 => format!("make_timestamp(-262143, 1, 1, {}, {}, 0, 0) {} iv", rng.pick(&[0u32, 1, 2, 14]), rng.pick(&[0u32, 59]), rng.pick(&["+", "-"])),
        10 => format!("{}(ts, ts {} iv)", rng.pick(&["greatest", "least"]), rng.pick(&["+", "-"])),
        _ => "iv + ts".to_owned(),
    }
}

/// a TIMESTAMP-valued expression: an operand, possibly truncated (and moved again)
fn ts_value(rng: &mut Rng) -> String {
    let e = ts_operand(rng);
    match rng.below(5) {
        0 | 1 => e,
        2 | 3 => format!("date_trunc('{}', {})", rng.pick(TRUNC_PARTS), e),
        _ => format!("date_trunc('{}', {}) {} iv", rng.pick(TRUNC_PARTS), e, rng.pick(&["+", "-"])),
    }
}

fn composed_item(rng: &mut Rng) -> String {
    match rng.below(9) {
        0 | 1 => format!("date_trunc('{}', {})", rng.pick(TRUNC_PARTS), ts_value(rng)),
        2 | 3 => format!("EXTRACT({} FROM {})", rng.pick(EXTRACT_PARTS), ts_value(rng)),
        4 => format!("({})::text", ts_value(rng)),
        5 => format!("{} {} {}", ts_value(rng), rng.pick(&["<", "<=", "=", "!=", ">", ">="]), ts_value(rng)),
        6 => format!("{} - {}", ts_value(rng), ts_value(rng)),
        7 => format!("date_trunc('{}', {}) {} ({})::text", rng.pick(TRUNC_PARTS), ts_operand(rng), rng.pick(&["<", "=", ">="]), ts_value(rng)),
        _ => ts_value(rng),
    }
}

/// a statement over table t of TS_DEFS built from the pieces above
pub fn composed_query(rng: &mut Rng) -> String {
    match rng.below(8) {
        0 | 1 | 2 | 3 => { let k = 1 + rng.below(3); format!("SELECT {} FROM t", (0..k).map(|_| composed_item(rng)).collect::<Vec<_>>().join(", ")) }
        4 => format!("SELECT ts, iv FROM t WHERE {} {} {}", ts_value(rng), rng.pick(&["<", "<=", "=", "!=", ">", ">="]), ts_value(rng)),
        5 => format!("SELECT MIN({}), MAX({}), COUNT(*) FROM t", ts_value(rng), ts_value(rng)),
        6 => format!("SELECT ARRAY_AGG({}), PERCENTILE({}, 0.5) FROM t", ts_value(rng), ts_value(rng)),
        _ => format!("SELECT {}, COUNT(*) FROM t GROUP BY ts HAVING MAX({}) >= MIN({})", "ts", ts_value(rng), ts_value(rng)),
    }
}

/// the systematic part: every `date_trunc` part and every `EXTRACT` part over `ts + iv` and `ts - iv`, the text cast and the
/// comparisons, over the fixed file of range-end lines
pub fn composed_sweep(run: &mut Run) {
    let file = join_lines(&edge_ts_file());
    let mut queries: Vec<String> = Vec::new();
    for op in &["+", "-"] {
        for part in TRUNC_PARTS { queries.push(format!("SELECT date_trunc('{}', ts {} iv) FROM t", part, op)); }
        for part in EXTRACT_PARTS { queries.push(format!("SELECT EXTRACT({} FROM ts {} iv) FROM t", part, op)); }
        queries.push(format!("SELECT (ts {} iv)::text, ts {} iv FROM t", op, op));
        queries.push(format!("SELECT ts FROM t WHERE ts {} iv > ts", op));
        queries.push(format!("SELECT date_trunc('day', ts {} iv) <= ts {} iv, date_trunc('hour', ts {} iv) = ts FROM t", op, op, op));
        queries.push(format!("SELECT MIN(date_trunc('month', ts {} iv)), MAX(ts {} iv) FROM t", op, op));
    }
    for part in TRUNC_PARTS { queries.push(format!("SELECT date_trunc('{}', ts) FROM t", part)); }
    for q in &queries {
        progress(q);
        run_formats(run, TS_DEFS, q, &[file.clone()]);
        run.count("tz-sweep");
    }
}

/// the random part: composed statements over range-end and ordinary lines
pub fn composed_scan(run: &mut Run, rng: &mut Rng, n: usize) {
    for _ in 0..n {
        let nl = rng.below(6) + 1;
        let lines: Vec<String> = (0..nl).map(|_| if rng.chance(1, 6) { ts_line(rng) } else { edge_ts_line(rng) }).collect();
        let q = if rng.chance(1, 8) { (*rng.pick(TS_QUERIES)).to_owned() } else { composed_query(rng) };
        progress(&q);
        run_formats(run, TS_DEFS, &q, &[join_lines(&lines)]);
        run.count("tz-composed");
    }
}

/// in a child process: name the statement about to run, so that a death of the child (an abort cannot be caught) still
/// leaves the failing input in what the parent reads
fn progress(query: &str) {
    if IN_CHILD.load(std::sync::atomic::Ordering::Relaxed) { println!("AT {}", query.replace('\n', " ")); }
}
static IN_CHILD: AtomicBool = AtomicBool::new(false);

const JSON_QUERIES: &[&str] = &[
    "SELECT * FROM j", "SELECT a + 1, a * a, a / 0, -a, abs(a), pow(a, 2), pow(a, 70) FROM j", "SELECT b * b, sqrt(b), b / 0.0, b::text FROM j",
    "SELECT SUM(a), AVG(a), STDDEV(a), VARIANCE(b), MIN(b), MAX(b), PERCENTILE(b, 1.0) FROM j", "SELECT t, i, t + i, t - t FROM j", "SELECT c, COUNT(DISTINCT b) FROM j GROUP BY c",
];

fn run_formats(run: &mut Run, defs: &str, query: &str, files: &[Vec<u8>]) {
    let prepared = match catch(|| prepare(defs, query)) {
        Caught::Done(Ok(p)) => p,
        Caught::Done(Err(_)) => { run.count("rejected"); return; }
        Caught::Panic(m) => { run.fail(format!("query={}", query), "panic:parse", m); return; }
    };
    for (name, format) in &[("text", OutputFormat::Text), ("json", OutputFormat::Json), ("csv", OutputFormat::CSV(";".to_owned()))] {
        run.oracle_checks += 1;
        let paths: Vec<_> = files.iter().map(|c| tmp_file(c)).collect();
        let r = catch(|| {
            let fs: Vec<File> = paths.iter().map(|p| File::open(p).unwrap()).collect();
            let display = DisplayOptions { output_format: format.clone(), single_result: false, print_result: true };
            let engine = ExecutionEngine::new(&prepared.tables, &prepared.statement);
            let mut ex = FileExecutor::with_output_printer(Arc::new(AtomicBool::new(true)), fs, display, CapturePrinter::new(), engine).unwrap();
            let r = ex.execute();
            (r.is_ok(), ex.output_printer().printer().lines.len())
        });
        for p in paths { let _ = std::fs::remove_file(p); }
        match r {
            Caught::Done((ok, n)) => run.count(&format!("fmt:{}:{}", name, if ok { if n > 0 { "rows" } else { "empty" } } else { "error" })),
            Caught::Panic(m) => run.fail(format!("format={} query={} input={:?}", name, query, files.iter().map(|f| String::from_utf8_lossy(f).to_string()).collect::<Vec<_>>()), &format!("panic:run-{}", name), m),
        }
    }
}

/// statement-level scan (no model): used in-process and in the TZ children
pub fn scan(run: &mut Run, rng: &mut Rng, n: usize) {
    for i in 0..n {
        match i % 4 {
            0 => {
                let nl = rng.below(6) + 1;
                let mut lines: Vec<String> = (0..nl).map(|_| ts_line(rng)).collect();
                // one file in six: every line has a legal but huge INTERVAL, so that SUM / AVG / STDDEV over the column leave the range
                if rng.chance(1, 6) {
                    let huge = *rng.pick(&["2000000000000:00:00", "-2000000000000:00:00", "2562047788015:00:00", "1500000000000:59:59"]);
                    lines = (0..2 + rng.below(3)).map(|i| format!("2020;1;{};0;0;0;0;{}", 1 + i, huge)).collect();
                }
                let q = *rng.pick(TS_QUERIES);
                progress(q);
                run_formats(run, TS_DEFS, q, &[join_lines(&lines)]);
            }
            1 => {
                let nl = rng.below(5) + 1;
                let lines: Vec<String> = (0..nl).map(|_| json_line(rng)).collect();
                let q = *rng.pick(JSON_QUERIES);
                progress(q);
                run_formats(run, TS_DEFS, q, &[join_lines(&lines)]);
            }
            _ => {
                let sch = gen_schema(rng);
                let nj = rng.below(6);
                let jlines: Vec<String> = (0..nj).map(|_| gen_join_line(rng)).collect();
                let jpath = tmp_file(&join_lines(&jlines));
                let opts = QueryOpts { allow_limit: true, allow_distinct: true, allow_join: true, aggregate: None };
                let gq = gen_query(rng, &sch, &opts, &jpath.display().to_string());
                let nl = rng.below(12);
                let np = *rng.pick(&[10u64, 50]);
                let lines = gen_input(rng, nl, np, true);
                let mut bytes = join_lines(&lines);
                if rng.chance(1, 10) { bytes.extend_from_slice(b"\xff\xfe;1;2;3;4;\nlater;1;2;3;4;\n"); }
                progress(&gq.text);
                // one case in three: the JOINED table has a NOT NULL column (a joined-file line on which it is NULL is no row —
                // and must not crash the load) or an array column
                let defs = match rng.below(6) {
                    0 => sch.defs.replace("row[3] => y TEXT);", "row[3] => y TEXT NOT NULL);"),
                    1 => sch.defs.replace("row[3] => y TEXT);", "row[3] => y TEXT, row[2], row[2] => ja INT[] NOT NULL);"),
                    _ => sch.defs.clone(),
                };
                run_formats(run, &defs, &gq.text, &[bytes]);
                let _ = std::fs::remove_file(jpath);
            }
        }
    }
}

pub fn run(p: &Params) -> Run {
    let mut run = Run::new("C09");
    let mut rng = Rng::new(p.seed ^ 0x09);
    // expression level, biased to ill-typed and extreme operands (also correspondence cases)
    for _ in 0..p.n(2500, 100_000) {
        let env = gen_env(&mut rng);
        let t = match rng.below(5) { 0 => ValueType::Int, 1 => ValueType::Float, 2 => ValueType::Timestamp, 3 => ValueType::Interval, _ => ValueType::Bool };
        let depth = 1 + rng.below(3);
        let e = gen_expr(&mut rng, depth, &t, 30);
        check_expr(&mut run, &env, &e, "x:");
    }
    let env0 = gen_env(&mut rng);
    crate::c03::boundary_cases(&mut run, &env0, p.tier_thorough);
    // every function × every argument type and its boundary values (pow beyond u32, abs at MIN, out-of-range date parts)
    crate::c03func::function_cases(&mut run, &mut rng, p.tier_thorough);
    // statement level with extreme inputs: correspondence (text format) ...
    let opts = QueryOpts { allow_limit: true, allow_distinct: true, allow_join: false, aggregate: None };
    for _ in 0..p.n(800, 30_000) {
        let sch = gen_schema(&mut rng);
        let gq = gen_query(&mut rng, &sch, &opts, "");
        let prepared = match prepare(&sch.defs, &gq.text) { Ok(p) => p, Err(_) => continue };
        let nl = rng.below(14);
        let np = *rng.pick(&[10u64, 40]);
        let lines = gen_input(&mut rng, nl, np, true);
        let files = vec![join_lines(&lines)];
        let result = run_files(&prepared, &files);
        run.oracle_checks += 1;
        if result.status == "panic" {
            run.fail(format!("query={} input={:?}", gq.text, lines), "panic:run-text", "batch run panicked".to_owned());
        }
        if let Some(case) = batch_case(&prepared, b"", &files, None) {
            run.case_with_desc(case, result.wire(), format!("stmt:{}:{}", if gq.is_aggregate { "agg" } else { "sel" }, result.status), format!("query={} input={:?}", gq.text, lines));
        }
    }
    // ... and the panic scan over all formats, timestamp/interval/array/JSON tables
    let nscan = p.n(600, 20_000);
    scan(&mut run, &mut rng, nscan);
    // the composed timestamp statements (D73) under UTC ...
    composed_sweep(&mut run);
    composed_scan(&mut run, &mut rng, p.n(150, 5_000));
    // ... and under local time zones: child processes (chrono's local zone is fixed per process). Quick tier: the
    // systematic sweep and a short composed scan in every zone; thorough tier: also the whole statement-level scan.
    let exe = std::env::current_exe().unwrap();
    let (n_scan, n_composed) = (p.n(0, 4000), p.n(60, 3000));
    for zone in TZ_ZONES {
        let args = ["tzscan".to_owned(), p.seed.to_string(), n_scan.to_string(), n_composed.to_string()];
        let replay = format!("TZ={} harness {}", zone, args.join(" "));
        match std::process::Command::new(&exe).env("TZ", zone).args(&args).output() {
            Ok(o) => {
                let text = String::from_utf8_lossy(&o.stdout).to_string();
                let mut n = 0;
                let mut last_at = String::new();
                for l in text.lines() {
                    if let Some(rest) = l.strip_prefix("FAIL ") {
                        let mut it = rest.splitn(2, " :: ");
                        let class = it.next().unwrap_or("panic:tz");
                        run.fail(format!("TZ={} {}", zone, it.next().unwrap_or("")), class, "panicked under this time zone".to_owned());
                    }
                    if let Some(c) = l.strip_prefix("CHECKS ") { n = c.trim().parse().unwrap_or(0); }
                    if let Some(q) = l.strip_prefix("AT ") { last_at = q.to_owned(); }
                }
                run.oracle_checks += n;
                run.count(&format!("tz:{}", zone));
                if !o.status.success() {
                    let err = String::from_utf8_lossy(&o.stderr);
                    let tail: String = err.chars().rev().take(400).collect::<String>().chars().rev().collect();
                    run.fail(format!("TZ={} query={} (the statement the child was running when it died; `{}`)", zone, last_at, replay), "panic:tz-child-died", format!("child exit {:?}; stderr ends {:?}", o.status, tail));
                }
            }
            Err(e) => run.notes.push(format!("could not start TZ child: {}", e)),
        }
    }
    run.notes.push(format!("time zones: {} zones, each in a child process: composed sweep (every date_trunc / EXTRACT part over ts ± iv at both ends of the range) + {} composed statements + {} statements of the general scan", TZ_ZONES.len(), n_composed, n_scan));
    // finding D75: operator chains without brackets. In-process evaluation needs the statement on this thread's stack, so
    // they run in child processes: the library on an 8 MiB thread (parse, execute one row, drop — stage by stage) and the
    // real program on its own main thread. The safe size must give the documented answer.
    crate::c14::chain_stream(&mut run, true, &[crate::c14::CHAIN_SAFE, 200_000]);
    crate::cli::chain_stream(&mut run, if p.tier_thorough { &[crate::c14::CHAIN_SAFE, 300, 400, 500, 600, 700, 800, 1000, 2000, 5000, 20_000, 200_000] } else { &[crate::c14::CHAIN_SAFE, 600, 2000, 200_000] });
    run.notes.push("almost-literal text with a multi-byte character at every byte offset 0..30 in TIMESTAMP / INTERVAL / TEXT fields and JSON strings".to_owned());
    // extraction over generated definitions (every pattern kind incl. split field 0 = the whole line, every column type
    // and modifier, JSON paths) and lines made for them: a panic is a failure, the rows are correspondence cases
    let mut xrng = Rng::new(p.seed ^ 0x09E);
    crate::extract::random_cases(&mut run, &mut xrng, p.n(140, 3_000), 5, 3);
    run.notes.push("every case runs under catch_unwind with overflow checks on; a panic is a failure; text-format runs and expressions are also model correspondence cases".to_owned());
    run
}

/// child-process entry: the composed sweep, the composed scan and the statement-level scan under the inherited TZ
pub fn tzscan(seed: u64, n: usize, n_composed: usize) {
    IN_CHILD.store(true, std::sync::atomic::Ordering::Relaxed);
    let mut run = Run::new("C09");
    let mut rng = Rng::new(seed ^ 0x0909);
    composed_sweep(&mut run);
    composed_scan(&mut run, &mut rng, n_composed);
    scan(&mut run, &mut rng, n);
    for f in &run.failures {
        println!("FAIL {} :: {}", f.class, f.case.replace('\n', "\\n"));
    }
    println!("CHECKS {}", run.oracle_checks);
}
