import SqlgrepModel.Codec
import SqlgrepModel.Model.ParseExpr
import SqlgrepModel.Generated.PrecTable
/-
Driver handler for `pexpr` cases: a located token list → the canonical rendering of what
`Parser::parse_expression` answers on that token vector (tree with locations, or error kind + payload +
location), followed by the number of tokens left after the current one (the parser state is observable).
The precedence tables are the *generated* ones (`Generated/PrecTable.lean`, regenerated from the running code).

Wire format of a token: `(LINE COLUMN TOK)` with TOK one of
`(int N) (float BITS) (str xHEX) null true false (op CP) (op CP CP) (id xHEX) (kw Name) lp rp lsq rsq lcu rcu comma
semi colon dcolon rarrow eof`.
-/
namespace Sqlgrep.Drivers.ParseExpr
open Sqlgrep

def Keyword.name : Keyword → String
  | .select => "Select" | .from => "From" | .where => "Where" | .group => "Group" | .by => "By" | .as => "As"
  | .and => "And" | .or => "Or" | .create => "Create" | .table => "Table" | .not => "Not" | .is => "Is"
  | .isNot => "IsNot" | .in => "In" | .notIn => "NotIn" | .having => "Having" | .inner => "Inner"
  | .outer => "Outer" | .join => "Join" | .on => "On" | .extract => "Extract" | .default => "Default"
  | .distinct => "Distinct" | .case => "Case" | .when => "When" | .then => "Then" | .else => "Else"
  | .end => "End" | .limit => "Limit"

def allKeywords : List Keyword :=
  [.select, .from, .where, .group, .by, .as, .and, .or, .create, .table, .not, .is, .isNot, .in, .notIn, .having,
   .inner, .outer, .join, .on, .extract, .default, .distinct, .case, .when, .then, .else, .end, .limit]

def Keyword.ofName (s : String) : Option Keyword := allKeywords.find? (fun k => Keyword.name k == s)

def chars? (s : Sexp) : Option (List Char) := s.bytes?.bind Utf8.decode

def showChars (cs : List Char) : String := Sexp.showBytes (Utf8.encode cs)

def char? (s : Sexp) : Option Char := s.nat?.map Char.ofNat

def Tok.ofSexp : Sexp → Option Tok
  | .list [.atom "int", i] => i.int?.map .int
  | .list [.atom "float", b] => b.nat?.map .float
  | .list [.atom "str", s] => (chars? s).map .str
  | .atom "null" => some .null
  | .atom "true" => some .tru
  | .atom "false" => some .fls
  | .list [.atom "op", c] => (char? c).map (fun c => .op (.single c))
  | .list [.atom "op", c, d] => do pure (.op (.dual (← char? c) (← char? d)))
  | .list [.atom "id", s] => (chars? s).map .ident
  | .list [.atom "kw", .atom k] => (Keyword.ofName k).map .kw
  | .atom "lp" => some .lp | .atom "rp" => some .rp | .atom "lsq" => some .lsq | .atom "rsq" => some .rsq
  | .atom "lcu" => some .lcu | .atom "rcu" => some .rcu | .atom "comma" => some .comma | .atom "semi" => some .semi
  | .atom "colon" => some .colon | .atom "dcolon" => some .dcolon | .atom "rarrow" => some .rarrow
  | .atom "eof" => some .eof
  | _ => none

def PTok.ofSexp : Sexp → Option PTok
  | .list [l, c, t] => do pure ⟨⟨← l.nat?, ← c.nat?⟩, ← Tok.ofSexp t⟩
  | _ => none

def showOp : Operator → String
  | .single c => s!"(op {c.toNat})"
  | .dual c d => s!"(op {c.toNat} {d.toNat})"

def showLoc (l : Loc) : String := s!"{l.line} {l.column}"

mutual
def showExpr : PExpr → String
  | .value l v => s!"(value {showLoc l} {v.toWire})"
  | .column l n => s!"(column {showLoc l} {showChars n})"
  | .wildcard l => s!"(wildcard {showLoc l})"
  | .tuple l vs => s!"(tuple {showLoc l}{showExprs vs})"
  | .binop l o a b => s!"(binop {showLoc l} {showOp o} {showExpr a} {showExpr b})"
  | .boolop l isAnd a b => s!"(boolop {showLoc l} {if isAnd then "and" else "or"} {showExpr a} {showExpr b})"
  | .unop l o e => s!"(unop {showLoc l} {showOp o} {showExpr e})"
  | .invert l e => s!"(invert {showLoc l} {showExpr e})"
  | .nullcmp l isNot a b => s!"(nullcmp {showLoc l} {if isNot then "isnot" else "is"} {showExpr a} {showExpr b})"
  | .inList l isNot e vs => s!"(in {showLoc l} {if isNot then "1" else "0"} {showExpr e} ({showExprs vs}))"
  | .call l n args d =>
    let ds := match d with | none => "none" | some false => "d0" | some true => "d1"
    s!"(call {showLoc l} {showChars n} ({showExprs args}) {ds})"
  | .index l a i => s!"(index {showLoc l} {showExpr a} {showExpr i})"
  | .cast l e t => s!"(cast {showLoc l} {showExpr e} {t.toWire})"
  | .case l cs els => s!"(case {showLoc l} ({showClauses cs}) {showExpr els})"
def showExprs : List PExpr → String
  | [] => ""
  | e :: es => " " ++ showExpr e ++ showExprs es
def showClauses : List (PExpr × PExpr) → String
  | [] => ""
  | (c, r) :: cs => s!" ({showExpr c} {showExpr r})" ++ showClauses cs
end

def showErrKind : PErrKind → String
  | .unknown => "Unknown" | .reachedEndOfTokens => "ReachedEndOfTokens" | .tooManyTokens => "TooManyTokens"
  | .intConvertError => "IntConvertError" | .floatConvertError => "FloatConvertError" | .alreadyHasDot => "AlreadyHasDot"
  | .expectedKeyword k => s!"(ExpectedKeyword {Keyword.name k})"
  | .expectedAnyKeyword ks => "(ExpectedAnyKeyword" ++ String.join (ks.map (fun k => " " ++ Keyword.name k)) ++ ")"
  | .expectedLeftParentheses => "ExpectedLeftParentheses" | .expectedRightParentheses => "ExpectedRightParentheses"
  | .expectedLeftSquareParentheses => "ExpectedLeftSquareParentheses"
  | .expectedRightSquareParentheses => "ExpectedRightSquareParentheses"
  | .expectedExpression => "ExpectedExpression"
  | .expectedArgumentListContinuation => "ExpectedArgumentListContinuation"
  | .expectedProjectionContinuation => "ExpectedProjectionContinuation"
  | .expectedColumnDefinitionStart => "ExpectedColumnDefinitionStart"
  | .expectedColumnDefinitionContinuation => "ExpectedColumnDefinitionContinuation"
  | .expectedJsonColumnPartStart => "ExpectedJsonColumnPartStart"
  | .expectedIdentifier => "ExpectedIdentifier" | .expectedString => "ExpectedString" | .expectedInt => "ExpectedInt"
  | .expectedOperator => "ExpectedOperator"
  | .expectedSpecificOperator o => s!"(ExpectedSpecificOperator {showOp o})"
  | .expectedTuple => "ExpectedTuple" | .expectedColon => "ExpectedColon" | .expectedDoubleColon => "ExpectedDoubleColon"
  | .expectedRightArrow => "ExpectedRightArrow" | .expectedSemiColon => "ExpectedSemiColon" | .expectedNull => "ExpectedNull"
  | .expectedColumnAccess => "ExpectedColumnAccess"
  | .notDefinedBinaryOperator o => s!"(NotDefinedBinaryOperator {showOp o})"
  | .notDefinedUnaryOperator o => s!"(NotDefinedUnaryOperator {showOp o})"
  | .notDefinedType n => s!"(NotDefinedType {showChars n})"
  | .trimOnlyForString => "TrimOnlyForString" | .expectedValueForDefaultValue => "ExpectedValueForDefaultValue"
  | .expectedDefaultValueOfType t => s!"(ExpectedDefaultValueOfType {t.toWire})"
  | .alreadyHaveWhere => "AlreadyHaveWhere" | .alreadyHaveJoin => "AlreadyHaveJoin"
  | .alreadyHaveGroupBy => "AlreadyHaveGroupBy" | .alreadyHaveHaving => "AlreadyHaveHaving"
  | .alreadyHaveLimit => "AlreadyHaveLimit"

def showErr (e : PErr) : String := s!"err {showErrKind e.kind} {showLoc e.loc}"

/-- fuel that is enough for every token vector of that length (each call level consumes a token or is one of at
most four nested calls between two consumed tokens) -/
def fuelFor (n : Nat) : Nat := 8 * n + 16

def showRes (r : PRes PExpr) : String :=
  match r with
  | .ok e s => s!"ok {showExpr e} rest={s.rest.length}"
  | .err e s => s!"{showErr e} rest={s.rest.length}"
  | .fuel => "fuel"

/-- `EXTRACT ( part FROM …` puts `part.to_lowercase()` into the call name; the model lower-cases ASCII only
(`lowerChars`), so a part with a non-ASCII character needs the Unicode case mapping, an external fact no case ships:
such a token vector is answered `skip` (not compared). -/
def needsUnicodeLower : List Tok → Bool
  | .kw .extract :: .lp :: .ident n :: rest => n.any (fun c => c.toNat ≥ 128) || needsUnicodeLower (.lp :: .ident n :: rest)
  | _ :: rest => needsUnicodeLower rest
  | [] => false

/-- `Parser::new(&bin, &un, tokens).parse_expression()` on a non-empty token vector -/
def run (toks : List PTok) : String :=
  match toks with
  | [] => "bad-case"
  | t :: rest =>
    if needsUnicodeLower (toks.map (·.tok)) then "skip oracle-missing:unicode-lowercase" else
    showRes (Parse.parseExpr Generated.precTables (fuelFor toks.length) ⟨t, rest⟩)

def handle (args : List Sexp) : String :=
  match args with
  | [.list toks] =>
    match toks.mapM PTok.ofSexp with
    | some ts => run ts
    | none => "bad-case"
  | _ => "bad-case"

end Sqlgrep.Drivers.ParseExpr
