import SqlgrepModel.Model.ExecI
/-
Helper lemmas for C19 (joined-file loader): without an interrupt the loop of `Model/ExecI.lean` is the loader of
`Model/Exec.lean`; with the flag cleared before line `m` it processes the lines up to the next sampling point
(the first `n ≥ m` with `n > 0 ∧ n % 10 = 0`) and returns the index of exactly those lines.
-/
namespace Sqlgrep

def loadStep (ki : Nat) (idx : JoinIndex) (fl : FileLine) : JoinIndex :=
  if anyResult fl.line.row then joinIndexAdd idx (fl.line.row.getD ki .null) fl.line.row else idx

theorem loadJoinLoop_none (ki : Nat) (lines : List FileLine) (a : Nat) (idx : JoinIndex) :
    loadJoinLoop ki none lines a idx =
      if lines.any (fun fl => !fl.readable) then .error .failReadFile
      else .ok (lines.foldl (loadStep ki) idx, a + lines.length) := by
  induction lines generalizing a idx with
  | nil => simp [loadJoinLoop]
  | cons fl rest ih =>
    simp only [loadJoinLoop, Bool.and_false, Bool.false_eq_true, if_false]
    by_cases hr : fl.readable = true
    · simp only [hr, Bool.not_true, Bool.false_eq_true, if_false, List.any_cons, Bool.false_or]
      rw [ih]
      simp only [List.foldl_cons, List.length_cons, loadStep]
      split
      · rfl
      · congr 2; omega
    · simp [hr]

theorem loadJoinFileI_none (j : JoinInfo) (lines : List FileLine) :
    (loadJoinFileI j (some lines) none).bind (fun p => .ok p.1) = loadJoinFile j lines := by
  unfold loadJoinFileI loadJoinFile loadJoin
  cases hk : indexOf? j.joined.columns j.joinedColumn with
  | none => simp [Outcome.bind]
  | some ki =>
    simp only [Option.isNone_some, Bool.false_eq_true, if_false]
    rw [loadJoinLoop_none]
    by_cases hb : lines.any (fun fl => !fl.readable) = true
    · simp [hb, Outcome.bind]
    · simp only [hb, Bool.false_eq_true, if_false, Outcome.bind]
      rw [List.foldl_map]
      rfl

/-- the loop with the flag cleared before line `m`: where it stops and what it has loaded -/
theorem loadJoinLoop_cut (ki m : Nat) (lines : List FileLine) (a : Nat) (idx idx' : JoinIndex) (n : Nat)
    (h : loadJoinLoop ki (some m) lines a idx = .ok (idx', n)) :
    a ≤ n ∧ n ≤ a + lines.length ∧
    loadJoinLoop ki none (lines.take (n - a)) a idx = .ok (idx', n) ∧
    (n < a + lines.length → n > 0 ∧ n % 10 = 0 ∧ m ≤ n) ∧
    (∀ x, a ≤ x → x < n → ¬ (x > 0 ∧ x % 10 = 0 ∧ m ≤ x)) := by
  induction lines generalizing a idx with
  | nil =>
    simp only [loadJoinLoop, Outcome.ok.injEq, Prod.mk.injEq] at h
    obtain ⟨h1, h2⟩ := h
    subst h1 h2
    simp [loadJoinLoop]
    intro x h1 h2; omega
  | cons fl rest ih =>
    simp only [loadJoinLoop] at h
    by_cases hbrk : (decide (a > 0) && a % 10 == 0 && decide (m ≤ a)) = true
    · simp only [hbrk, if_true, Outcome.ok.injEq, Prod.mk.injEq] at h
      obtain ⟨h1, h2⟩ := h
      subst h1 h2
      simp only [Bool.and_eq_true, decide_eq_true_eq, beq_iff_eq] at hbrk
      refine ⟨Nat.le_refl _, by simp, by simp [loadJoinLoop], fun _ => ⟨hbrk.1.1, hbrk.1.2, hbrk.2⟩, ?_⟩
      intro x h1 h2; omega
    · simp only [hbrk, Bool.false_eq_true, if_false] at h
      by_cases hr : fl.readable = true
      · simp only [hr, Bool.not_true, Bool.false_eq_true, if_false] at h
        obtain ⟨i1, i2, i3, i4, i5⟩ := ih _ _ h
        have hna : n - a = (n - (a + 1)) + 1 := by omega
        refine ⟨by omega, by simp only [List.length_cons]; omega, ?_, ?_, ?_⟩
        · rw [hna, List.take_succ_cons]
          simp only [loadJoinLoop, Bool.and_false, Bool.false_eq_true, if_false, hr, Bool.not_true]
          exact i3
        · intro hlt
          exact i4 (by simp only [List.length_cons] at hlt; omega)
        · intro x h1 h2
          by_cases hx : x = a
          · subst hx
            intro hc
            apply hbrk
            simp only [Bool.and_eq_true, decide_eq_true_eq, beq_iff_eq]
            exact ⟨⟨hc.1, hc.2.1⟩, hc.2.2⟩
          · exact i5 x (by omega) h2
      · simp [hr] at h

/-- **at most ten more**: after the flag is cleared before line `m`, the loader stops within ten lines -/
theorem loadJoinLoop_at_most_ten (ki m : Nat) (lines : List FileLine) (idx' : JoinIndex) (n : Nat)
    (h : loadJoinLoop ki (some m) lines 0 [] = .ok (idx', n)) : n ≤ m + 10 := by
  obtain ⟨_, _, _, _, h5⟩ := loadJoinLoop_cut ki m lines 0 [] idx' n h
  by_cases hn : n ≤ m + 10
  · exact hn
  · exfalso
    -- the first sampling point at or after `m`
    have := h5 (if m = 0 then 10 else (m + 9) / 10 * 10) (Nat.zero_le _)
    split at this
    · apply this (by omega); omega
    · apply this (by omega); omega

/-- the number of lines a loader run processed (for examples) -/
def linesLoaded : Outcome (JoinIndex × Nat) → Option Nat
  | .ok p => some p.2
  | _ => none

end Sqlgrep
