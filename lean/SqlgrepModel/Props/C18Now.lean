import SqlgrepModel.Lemmas.NowFree
import SqlgrepModel.Props.C18
import SqlgrepModel.Props.Pipeline
/-
C18, last sentence: "Only now() may differ between runs."

Two halves.

(a) *Everything else is the same.* The model is a function: definitions text, statement text, format, display option,
file bytes and the facts about the outside world determine the answer (`two_runs_same_output`). The clock is one of those
facts: the model has no clock of its own, `now()` is answered by `F.eval.total`'s field `nowF` (`Model/Eval.lean`
`TotalOracles`; read at exactly one place, `callFunction … .now []`). Between two runs of the real program everything
else among the facts is a fixed function of the texts and the bytes (what `regex`, `serde_json`, `str::to_uppercase`,
`f64::from_str`, … answer); the clock is the one fact that moves. So "two runs" are two sets of facts that differ at
most in `nowF` (`Facts.SameButNow`, `Oracles.SameButNow`), and the sentence says: a statement that calls `now`
nowhere gives the same answer under both. That is `eval_ignores_now` (one expression: value, error kind, panic site,
missing fact), `run_ignores_now` (`runBatch`: printed records, line count, error, panic, skip), `runBatchI_ignores_now`
(joined file missing, both interrupt points), `follow_run_ignores_now`, `runStatement_ignores_now`,
`program_ignores_now` (`Pipeline.runText`: the whole program on raw texts and raw bytes) and
`follow_program_ignores_now` (`Pipeline.followText`).

`nowFree` is a decidable SYNTACTIC predicate (`Lemmas/NowFree.lean`: `Expr.nowFree`, `Stmt.nowFree`, `LStmt.nowFree`,
instances of `Expr.allFuncs` / `Stmt.allFuncs` with `notNow`): no call of `now` in the select list, WHERE, the GROUP BY
parts, the arguments of aggregates, the expressions around aggregates, HAVING and the aggregates inside HAVING, at any
depth (operands, function arguments, IN lists, CASE branches). A JOIN clause holds names only. At text level
(`Pipeline.textNowFree`) it is decided by running the tokenizer, the parser and the lowering on the statement text —
none of which looks at the evaluator's oracle; a rejected text is trivially `nowFree` (its answer is the rejection).
The predicate is sufficient, not necessary: `SELECT k FROM t WHERE false AND now() > x` never evaluates the call and
still is not `nowFree`.

(b) *`now()` may differ, and does.* `now_is_the_clock_reading`: a call of `now` IS the reading; `now_differs`: under two
oracles with different readings the expression `now()` evaluates to different values; the kernel-evaluated invocations at
the end run the whole program with two clocks one second apart: `SELECT k, now(), v FROM t` prints different `now()`
cells and identical other cells, a now-free statement prints the same lines, and a statement that uses `now()` only in a
comparison that holds for both readings prints the same lines although it is not `nowFree`.

What this file does not say: that the REAL program reads the clock only in `now()` — that is a reading of the source
(`Local::now()` occurs once, `execution/expression_execution.rs:408`; the only other clock read is
`std::time::Instant::now()` in `ExecutionStatistics`, shown by the line `Executed query in … seconds` that `--stats`
appends after the run: not query output, no option of `runText`, and different on every run by design), tied to the model
by the correspondence checks (every C-check compares the program with the clock-free model on statements without
`now()`) and by the `now` stream of `harness/src/c18.rs` (statements with `now()` run in processes a second apart: all
other cells, the row order, the line count and the status identical; the `now()` cells are timestamps and are not
compared).
-/
namespace Sqlgrep.Props.C18Now
open Sqlgrep Sqlgrep.Pipeline Sqlgrep.NowFree

/-! ### (a) a statement without `now()` does not see the clock -/

/-- the two oracles of `eval_ignores_now`, non-trivially: tables, total functions, two different clock readings -/
example : Oracles.SameButNow
    { regex := [(([97], [97]), some true)], total := some { upperF := id, lowerF := id, regexF := fun _ _ => none, nowF := .timestamp 739000 0 0 } }
    { regex := [(([97], [97]), some true)], total := some { upperF := id, lowerF := id, regexF := fun _ _ => none, nowF := .timestamp 739000 1 0 } } :=
  ⟨rfl, rfl, rfl, rfl, rfl, ⟨rfl, rfl, rfl⟩⟩

/-- `SameButNow` is not "anything goes": oracles whose `upper` functions differ are not related -/
example : ¬ Oracles.SameButNow
    { total := some { upperF := id, lowerF := id, regexF := fun _ _ => none, nowF := .null } }
    { total := some { upperF := fun _ => [], lowerF := id, regexF := fun _ _ => none, nowF := .null } } := by
  intro h
  have := congrFun h.total.1 [65]
  simp at this

/-- **C18, "only now() may differ", one expression.** Two oracles that agree on every shipped table and on the library
functions `upperF`, `lowerF`, `regexF`, and differ at most in the clock reading `nowF`, give every expression that
contains no call of `now` the same outcome in every environment: the same value, the same error kind, the same panic
site, the same request for a missing fact. -/
theorem eval_ignores_now (O₁ O₂ : Oracles) (h : O₁.SameButNow O₂) (env : Env) (e : Expr) (he : e.nowFree = true) :
    eval O₁ env e = eval O₂ env e := by
  obtain ⟨v, rfl⟩ := h.eq_withNow
  exact (eval_withNow O₁ v env e he).symm

/-- the hypothesis on a non-trivial expression: `upper(k) = 'A' AND regexp_matches(k, 'a') OR v + 1 IN (2, abs(v))` -/
example : (Expr.boolOp false
    (.boolOp true (.compare .eq (.call .upper [.column "k"]) (.value (.text [65]))) (.call .regexMatches [.column "k", .value (.text [97])]))
    (.inList false (.arith .add (.column "v") (.value (.int 1))) [.value (.int 2), .call .abs [.column "v"]])).nowFree = true := by
  decide

/-- … and `now()` below a cast inside a CASE branch inside a function argument is found -/
example : (Expr.call .greatest [.value (.int 1),
    .case [(.value (.bool true), .cast (.call .epoch [.call .now []]) .int)] (.value (.int 0))]).nowFree = false := by decide

/-- a list of expressions (a select list, the GROUP BY parts) -/
theorem evalList_ignores_now (O₁ O₂ : Oracles) (h : O₁.SameButNow O₂) (env : Env) (es : List Expr)
    (he : es.all (·.nowFree) = true) : evalList O₁ env es = evalList O₂ env es := by
  obtain ⟨v, rfl⟩ := h.eq_withNow
  have := allFuncsList_map notNow id es (by simpa using he)
  rw [List.map_id] at this
  exact (evalList_withNow O₁ v env es this).symm

/-- **C18, "only now() may differ", one run** (`FileExecutor::execute` over extracted lines, `Model/Exec.lean`). A
statement that calls `now` nowhere gives the same `RunOut` — printed records, number of lines, error, panic, skip —
under two oracles that differ at most in the clock reading; for every table, join, joined file, list of input files and
interrupt point. -/
theorem run_ignores_now (O₁ O₂ : Oracles) (h : O₁.SameButNow O₂) (qy : Query) (hq : qy.stmt.nowFree = true)
    (joined : List FileLine) (files : List (List FileLine)) (stopAt : Option Nat) :
    runBatch O₁ qy joined files stopAt = runBatch O₂ qy joined files stopAt := by
  obtain ⟨v, rfl⟩ := h.eq_withNow
  exact (runBatch_withNow O₁ v qy joined files stopAt hq).symm

/-- the same with everything that can happen around the joined file (missing; the flag cleared while it is loaded) -/
theorem runBatchI_ignores_now (O₁ O₂ : Oracles) (h : O₁.SameButNow O₂) (qy : Query) (hq : qy.stmt.nowFree = true)
    (joined : Option (List FileLine)) (files : List (List FileLine)) (clearAt stopAt : Option Nat) :
    runBatchI O₁ qy joined files clearAt stopAt = runBatchI O₂ qy joined files clearAt stopAt := by
  obtain ⟨v, rfl⟩ := h.eq_withNow
  exact (runBatchI_withNow O₁ v qy joined files clearAt stopAt hq).symm

/-- follow mode (`FollowFileExecutor::execute` over the delivered lines): one table per delivered line, the same under
both clocks -/
theorem follow_run_ignores_now (O₁ O₂ : Oracles) (h : O₁.SameButNow O₂) (qy : Query) (hq : qy.stmt.nowFree = true)
    (stopAt : Option Nat) (lines : List Line) : runFollowAll O₁ qy stopAt lines = runFollowAll O₂ qy stopAt lines := by
  obtain ⟨v, rfl⟩ := h.eq_withNow
  exact (runFollowAll_withNow O₁ v qy stopAt lines hq).symm

/-- one line through the engine, update and result (what both modes are made of) -/
theorem line_ignores_now (O₁ O₂ : Oracles) (h : O₁.SameButNow O₂) (qy : Query) (hq : qy.stmt.nowFree = true)
    (idx : JoinIndex) (withResult : Bool) (es : EngineState) (l : Line) :
    executeLine O₁ qy idx withResult es l = executeLine O₂ qy idx withResult es l := by
  obtain ⟨v, rfl⟩ := h.eq_withNow
  exact (executeLine_withNow O₁ v qy idx withResult es l hq).symm

/-- a statement for `run_ignores_now`: `SELECT k, MAX(v) + 1 FROM t WHERE v > 0 GROUP BY k HAVING COUNT(*) > 1` shaped —
aggregate argument, transform, WHERE, GROUP BY part, HAVING aggregate — is `nowFree` … -/
def exAgg (inHaving : Expr) : Stmt := .aggregate
  { items := [{ name := "k", kind := .groupKey (.column "k") "k", transform := none },
              { name := "m", kind := .max (.column "v"), transform := some (.arith .add (.scoped .aggValue "$value") (.value (.int 1))) }]
    filter := some (.compare .gt (.column "v") (.value (.int 0)))
    groupBy := some [(.column "k", "k")]
    having := some (.compare .gt (.groupValueRef 7) (.value (.int 1)))
    havingAggs := [(7, .max inHaving)], havingKeys := [], havingVisit := [.agg 7 (.max inHaving)]
    limit := none, distinct := false }

example : (exAgg (.column "v")).nowFree = true := by decide
/-- … and a `now()` hidden in the argument of an aggregate that occurs in HAVING only is found -/
example : (exAgg (.call .now [])).nowFree = false := by decide

/-! ### the whole program -/

/-- `FileExecutor::execute` for a lowered statement over the defined tables and the raw bytes of the input files
(`Pipeline.runStatement`: table lookups, reading, extraction, the loop, the recorded print calls) -/
theorem runStatement_ignores_now (F₁ F₂ : Facts) (h : F₁.SameButNow F₂) (tables : List Table) (stmt : Stmt)
    (hq : stmt.nowFree = true) (fromTable : String) (join : Option LJoin) (files : List (List Nat)) :
    runStatement F₁ tables stmt fromTable join files = runStatement F₂ tables stmt fromTable join files := by
  obtain ⟨v, rfl⟩ := h.eq_withNow
  exact (runStatement_withNow F₁ v tables stmt fromTable join files hq).symm

/-- **C18, "only now() may differ", the whole program on raw texts and raw bytes** (`Pipeline.runText`: what an
invocation `sqlgrep -d <definitions> -c <statement> --format <fmt> <files…>` comes to). Two sets of facts about the
outside world that differ at most in the clock reading give the same answer — rejection, error, number of lines, every
printed byte — whenever the statement text, as `parsing::parse` reads it, contains no call of `now`. -/
theorem program_ignores_now (F₁ F₂ : Facts) (h : F₁.SameButNow F₂) (defsText queryText : List Char)
    (hq : textNowFree F₁ queryText = true) (fmt : Print.Format) (single : Bool) (files : List (List Nat)) :
    runText F₁ defsText queryText fmt single files = runText F₂ defsText queryText fmt single files := by
  obtain ⟨v, rfl⟩ := h.eq_withNow
  exact (runText_withNow F₁ v defsText queryText fmt single files hq).symm

/-- the same for `--follow`: what is written to the terminal (clears, lines) and how the run ends, for every schedule of
appends, polls and an interrupt -/
theorem follow_program_ignores_now (F₁ F₂ : Facts) (h : F₁.SameButNow F₂) (defsText queryText : List Char)
    (hq : textNowFree F₁ queryText = true) (fmt : Print.Format) (head : Bool) (initial : List Nat) (ops : List FollowOp) :
    followText F₁ defsText queryText fmt head initial ops = followText F₂ defsText queryText fmt head initial ops := by
  obtain ⟨v, rfl⟩ := h.eq_withNow
  exact (followText_withNow F₁ v defsText queryText fmt head initial ops hq).symm

/-- which of the two sets of facts decides `textNowFree` does not matter -/
theorem textNowFree_same (F₁ F₂ : Facts) (h : F₁.SameButNow F₂) (queryText : List Char) :
    textNowFree F₁ queryText = textNowFree F₂ queryText := by
  obtain ⟨v, rfl⟩ := h.eq_withNow
  rfl

/-! ### `two_runs_same_output` -/

/-- **C18, "running the same query on the same definitions and input always prints byte-identical output".** The
end-to-end model is a FUNCTION: the same definitions text, statement text, format, display option, file bytes and facts
about the outside world give the same answer. The proof is `rfl` after substitution, and that is the point:

* what it says — `runText` has no argument besides these and no state: no hash seed, no clock other than the fact `nowF`
  inside `F.eval.total` (`program_ignores_now` says what happens when that one moves), no process identity, no earlier
  run. In Lean a `def` cannot read anything else. Each input that the real program takes from its environment is an
  explicit argument: the bytes of the files, the file system for the joined file (`F.fs`), the libraries' answers
  (`F.classes`, `F.regexValid`, `F.lines`, `F.eval`, `F.reals`, `F.lossy`).
* what it does NOT say by itself — that the real program is this function. The real engines keep columns, per-group
  aggregators, join buckets and table definitions in `HashMap`s seeded per process; the model lists their entries in one
  fixed order. That the choice of that order is immaterial is a separate family of theorems: `Props/C18.lean`
  `output_independent_of_iteration_order` (an adversary re-lists the entries of every inner hash map of the aggregation
  state before every line and before the final result: the same `RunOut`), `any_two_iteration_orders_agree`,
  `publish_order_irrelevant` (`Lemmas/IterOrderEngine.lean` `foldl_pubStep_perm`: the ONE loop of the engines that
  iterates a hash map commutes), `result_independent_of_listing`, and over the table map `Props/C18Defs.lean`
  `unrelated_definitions_irrelevant`. That no other hash map is iterated, and that the model is the program, is checked
  by running the real binary in fresh processes and comparing bytes (`harness/src/c18.rs`). -/
theorem two_runs_same_output (F F' : Facts) (defsText defsText' queryText queryText' : List Char)
    (fmt fmt' : Print.Format) (single single' : Bool) (files files' : List (List Nat))
    (hF : F = F') (hd : defsText = defsText') (hq : queryText = queryText') (hf : fmt = fmt') (hs : single = single')
    (hfiles : files = files') :
    runText F defsText queryText fmt single files = runText F' defsText' queryText' fmt' single' files' := by
  subst hF hd hq hf hs hfiles
  rfl

/-- the same for follow mode: text, format, start-up content and the schedule determine what is written -/
theorem two_follow_runs_same_output (F F' : Facts) (defsText defsText' queryText queryText' : List Char)
    (fmt fmt' : Print.Format) (head head' : Bool) (initial initial' : List Nat) (ops ops' : List FollowOp)
    (hF : F = F') (hd : defsText = defsText') (hq : queryText = queryText') (hf : fmt = fmt') (hh : head = head')
    (hi : initial = initial') (ho : ops = ops') :
    followText F defsText queryText fmt head initial ops = followText F' defsText' queryText' fmt' head' initial' ops' := by
  subst hF hd hq hf hh hi ho
  rfl

/-! ### (b) `now()` is the clock reading, and does differ -/

/-- a call of `now` IS the clock reading (and nothing else about the oracle) -/
theorem now_is_the_clock_reading (O : Oracles) (T : TotalOracles) (h : O.total = some T) (env : Env) :
    eval O env (.call .now []) = .ok T.nowF := by
  simp only [eval, evalList, bind, Outcome.bind, callFunction, h]

/-- without a clock the call is a request for the missing fact, never a guess -/
theorem now_without_clock (O : Oracles) (h : O.total = none) (env : Env) :
    eval O env (.call .now []) = .oracleMissing "now" := by
  simp only [eval, evalList, bind, Outcome.bind, callFunction, h]

/-- **"may differ" is real**: under two oracles with different clock readings — whatever else they hold — the expression
`now()` has different values -/
theorem now_differs (O₁ O₂ : Oracles) (T₁ T₂ : TotalOracles) (h₁ : O₁.total = some T₁) (h₂ : O₂.total = some T₂)
    (hne : T₁.nowF ≠ T₂.nowF) (env : Env) : eval O₁ env (.call .now []) ≠ eval O₂ env (.call .now []) := by
  rw [now_is_the_clock_reading O₁ T₁ h₁, now_is_the_clock_reading O₂ T₂ h₂]
  intro h
  exact hne (Outcome.ok.inj h)

/-- changing the reading changes exactly this: `O.withNow v` answers `now()` with `v` -/
theorem now_after_withNow (O : Oracles) (T : TotalOracles) (h : O.total = some T) (v : Value) (env : Env) :
    eval (O.withNow v) env (.call .now []) = .ok v := by
  have : (O.withNow v).total = some (T.withNow v) := by
    obtain ⟨fp, tp, rg, up, lo, tot⟩ := O
    simp only at h
    subst h
    rfl
  rw [now_is_the_clock_reading _ _ this]
  rfl

/-! ### whole invocations with two clocks one second apart (kernel-evaluated) -/

/-- the facts of `Props/Pipeline.lean`'s examples with a clock -/
def clockFacts (v : Value) : Facts :=
  { Props.Pipeline.exFacts with
    eval := { total := some { upperF := id, lowerF := id, regexF := fun _ _ => none, nowF := v } } }

/-- 2024-04-24 12:00:00 and one second later -/
def noon : Value := .timestamp 739000 43200 0
def noon1 : Value := .timestamp 739000 43201 0

open Sqlgrep.Props.Pipeline (exDefs recordsOf)

/-- the two sets of facts differ in the clock reading only -/
theorem clockFacts_sameButNow : (clockFacts noon).SameButNow (clockFacts noon1) :=
  ⟨rfl, rfl, rfl, rfl, rfl, rfl, rfl, rfl, ⟨rfl, rfl, rfl, rfl, rfl, ⟨rfl, rfl, rfl⟩⟩⟩

/-- `SELECT k, now(), v FROM t`: the `now()` cells are the two readings, every other cell, the row order, the line count
and the status are the same — and the two outputs are different -/
example :
    recordsOf (runText (clockFacts noon) exDefs "SELECT k, now(), v FROM t".toList .text false [strBytes "a;1\nb;2\n"]) =
      some (none, 2, [strBytes "k: 'a', p1: 2024-04-24 12:00:00.000, v: 1", strBytes "k: 'b', p1: 2024-04-24 12:00:00.000, v: 2"]) ∧
    recordsOf (runText (clockFacts noon1) exDefs "SELECT k, now(), v FROM t".toList .text false [strBytes "a;1\nb;2\n"]) =
      some (none, 2, [strBytes "k: 'a', p1: 2024-04-24 12:00:01.000, v: 1", strBytes "k: 'b', p1: 2024-04-24 12:00:01.000, v: 2"]) := by
  decide +kernel

/-- the statement of the example above is not `nowFree`; the one below is -/
example : textNowFree (clockFacts noon) "SELECT k, now(), v FROM t".toList = false ∧
    textNowFree (clockFacts noon) "SELECT k, v + 1 FROM t WHERE v > 0".toList = true ∧
    textNowFree (clockFacts noon) "SELECT k, COUNT(*) FROM t GROUP BY k HAVING MAX(NOW()) = MAX(v)".toList = false ∧
    textNowFree (clockFacts noon) "SELECT k, COUNT(*) FROM t GROUP BY k HAVING MAX(v) > 1".toList = true := by
  decide +kernel

/-- a now-free statement: the same answer under both clocks — by `program_ignores_now`, the hypothesis discharged by
evaluation — and the answer is a real run -/
example :
    runText (clockFacts noon) exDefs "SELECT k, v + 1 FROM t WHERE v > 0".toList .text false [strBytes "a;1\nb;2\n"] =
    runText (clockFacts noon1) exDefs "SELECT k, v + 1 FROM t WHERE v > 0".toList .text false [strBytes "a;1\nb;2\n"] :=
  program_ignores_now _ _ clockFacts_sameButNow _ _ (by decide +kernel) _ _ _

example :
    recordsOf (runText (clockFacts noon1) exDefs "SELECT k, v + 1 FROM t WHERE v > 0".toList .text false [strBytes "a;1\nb;2\n"]) =
      some (none, 2, [strBytes "k: 'a', p1: 2", strBytes "k: 'b', p1: 3"]) := by decide +kernel

/-- `nowFree` is sufficient, not necessary: `now()` inside a comparison that holds for both readings (and for decades to
come) — the statement is not `nowFree`, the output is the same -/
example :
    recordsOf (runText (clockFacts noon) exDefs
      "SELECT k, COUNT(*) FROM t WHERE now() > make_timestamp(2000,1,1,0,0,0,0) GROUP BY k".toList .text false [strBytes "a;1\nb;2\n"]) =
      some (none, 2, [strBytes "k: 'a', count1: 1", strBytes "k: 'b', count1: 1"]) ∧
    recordsOf (runText (clockFacts noon1) exDefs
      "SELECT k, COUNT(*) FROM t WHERE now() > make_timestamp(2000,1,1,0,0,0,0) GROUP BY k".toList .text false [strBytes "a;1\nb;2\n"]) =
      some (none, 2, [strBytes "k: 'a', count1: 1", strBytes "k: 'b', count1: 1"]) := by
  decide +kernel

/-- the oracles the driver builds have no clock (`total = none`): a statement with `now()` is answered `skip`, never
compared — the model does not guess the time -/
example : (match runText Props.Pipeline.exFacts exDefs "SELECT k, now(), v FROM t".toList .text false [strBytes "a;1\nb;2\n"] with
    | .skip _ => true
    | _ => false) = true := by decide +kernel

end Sqlgrep.Props.C18Now
