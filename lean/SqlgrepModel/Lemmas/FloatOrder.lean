import SqlgrepModel.Model.Float
import SqlgrepModel.Lemmas.ValueOrder
/-
The exact numeric value of a REAL bit pattern, and the proof that `F64.cmp` (the model of
`impl Ord for Float`) orders non-NaN patterns by that value.

No rationals: the value of a finite pattern is the dyadic number `m · 2^e` (`Dy`), with the integer
mantissa and binary exponent of `F64.mantExp`. Two dyadics are compared by scaling both to the
smaller exponent (`Dy.cmp`); `Dy.cmp_eq_scale` shows the result is the same for every common
exponent, i.e. `Dy.cmp` is the order of the numbers `m · 2^e`, not of their representations.
-/
namespace Sqlgrep

/-! ### small order helpers -/

theorem intCompare_congr {a b c d : Int} (h1 : a < b ↔ c < d) (h2 : b < a ↔ d < c) :
    compare a b = compare c d := by
  rcases Int.lt_trichotomy a b with h | h | h
  · rw [Int.compare_eq_lt.2 h, Int.compare_eq_lt.2 (h1.1 h)]
  · have hcd : c = d := by
      rcases Int.lt_trichotomy c d with h' | h' | h'
      · have := h1.2 h'; omega
      · exact h'
      · have := h2.2 h'; omega
    rw [Int.compare_eq_eq.2 h, Int.compare_eq_eq.2 hcd]
  · rw [Int.compare_eq_gt.2 h, Int.compare_eq_gt.2 (h2.1 h)]

theorem intCompare_mul_pos (a b p : Int) (hp : 0 < p) : compare (a * p) (b * p) = compare a b :=
  intCompare_congr (Int.mul_lt_mul_right hp) (Int.mul_lt_mul_right hp)

/-- a dyadic number `m · 2^e` -/
structure Dy where
  m : Int
  e : Int
  deriving Repr, DecidableEq

namespace Dy

/-- `a · 2^(-k)`; an integer, exact whenever `k ≤ a.e` -/
def scale (a : Dy) (k : Int) : Int := a.m * 2 ^ (a.e - k).toNat

/-- comparison of the numbers `a.m · 2^a.e` and `b.m · 2^b.e`: both scaled to the smaller exponent -/
def cmp (a b : Dy) : Ordering := compare (a.scale (min a.e b.e)) (b.scale (min a.e b.e))

instance : LT Dy := ⟨fun a b => cmp a b = .lt⟩
instance : LE Dy := ⟨fun a b => cmp a b ≠ .gt⟩
/-- numeric equality of dyadics (different representations of one number are `Eqv`) -/
def Eqv (a b : Dy) : Prop := cmp a b = .eq
instance (a b : Dy) : Decidable (a < b) := inferInstanceAs (Decidable (cmp a b = .lt))
instance (a b : Dy) : Decidable (a ≤ b) := inferInstanceAs (Decidable (cmp a b ≠ .gt))
instance (a b : Dy) : Decidable (Eqv a b) := inferInstanceAs (Decidable (cmp a b = .eq))

theorem lt_def (a b : Dy) : a < b ↔ cmp a b = .lt := Iff.rfl
theorem le_def (a b : Dy) : a ≤ b ↔ cmp a b ≠ .gt := Iff.rfl

/-- the integer `i` -/
def ofInt (i : Int) : Dy := ⟨i, 0⟩

theorem scale_shift (a : Dy) (k k' : Int) (h1 : k' ≤ k) (h2 : k ≤ a.e) :
    a.scale k' = a.scale k * 2 ^ (k - k').toNat := by
  unfold scale
  have : (a.e - k').toNat = (a.e - k).toNat + (k - k').toNat := by omega
  rw [this, Int.pow_add, Int.mul_assoc]

/-- `Dy.cmp` does not depend on the common exponent both sides are scaled to: it compares the
numbers `m · 2^e` (scaling by a positive power of two preserves order). -/
theorem cmp_eq_scale (a b : Dy) (k : Int) (ha : k ≤ a.e) (hb : k ≤ b.e) :
    cmp a b = compare (a.scale k) (b.scale k) := by
  unfold cmp
  have hk : k ≤ min a.e b.e := by omega
  rw [scale_shift a (min a.e b.e) k hk (by omega), scale_shift b (min a.e b.e) k hk (by omega)]
  rw [intCompare_mul_pos _ _ _ (Int.pow_pos (by decide))]

theorem cmp_T (a b c : Dy) : T (cmp a b) (cmp b c) (cmp a c) := by
  have h1 := cmp_eq_scale a b (min a.e (min b.e c.e)) (by omega) (by omega)
  have h2 := cmp_eq_scale b c (min a.e (min b.e c.e)) (by omega) (by omega)
  have h3 := cmp_eq_scale a c (min a.e (min b.e c.e)) (by omega) (by omega)
  rw [h1, h2, h3]; exact T_int _ _ _

theorem cmp_swap (a b : Dy) : cmp b a = (cmp a b).swap := by
  unfold cmp
  rw [Int.min_comm b.e a.e, Int.compare_swap]

theorem cmp_refl (a : Dy) : cmp a a = .eq := by
  unfold cmp; rw [Int.compare_eq_eq]

theorem cmp_ofInt (i j : Int) : cmp (ofInt i) (ofInt j) = compare i j := by
  simp [cmp, ofInt, scale]

/-- integers embed with their usual order and equality -/
theorem ofInt_lt (i j : Int) : ofInt i < ofInt j ↔ i < j := by
  rw [lt_def, cmp_ofInt, Int.compare_eq_lt]
theorem ofInt_eqv (i j : Int) : Eqv (ofInt i) (ofInt j) ↔ i = j := by
  unfold Eqv; rw [cmp_ofInt, Int.compare_eq_eq]

/-- representation independence: `(m · 2^j) · 2^e` and `m · 2^(e+j)` are the same number -/
theorem eqv_shift (m e : Int) (j : Nat) : Eqv ⟨m * 2 ^ j, e⟩ ⟨m, e + j⟩ := by
  unfold Eqv
  rw [cmp_eq_scale _ _ e (by simp) (by simp; omega), Int.compare_eq_eq]
  simp only [scale]
  have h1 : (e - e).toNat = 0 := by omega
  have h2 : (e + (j : Int) - e).toNat = j := by omega
  rw [h1, h2]; simp

/-- strict order, equality and the reverse strict order are the three exclusive cases -/
theorem trichotomy (a b : Dy) : (a < b ∧ ¬ Eqv a b ∧ ¬ b < a) ∨ (¬ a < b ∧ Eqv a b ∧ ¬ b < a) ∨
    (¬ a < b ∧ ¬ Eqv a b ∧ b < a) := by
  simp only [lt_def, Eqv, cmp_swap a b]
  cases cmp a b <;> simp [Ordering.swap]

theorem lt_trans {a b c : Dy} (h1 : a < b) (h2 : b < c) : a < c := (cmp_T a b c).1 h1 h2
theorem eqv_trans {a b c : Dy} (h1 : Eqv a b) (h2 : Eqv b c) : Eqv a c := by
  unfold Eqv at *; rw [(cmp_T a b c).2.1 h1]; exact h2
theorem eqv_symm {a b : Dy} (h : Eqv a b) : Eqv b a := by
  unfold Eqv at *; rw [cmp_swap, h]; rfl

end Dy

namespace F64

/-! ### the IEEE-754 binary64 layout -/

/-- neither NaN nor an infinity -/
def isFinite (n : Nat) : Bool := decide (mag n < 0x7ff0000000000000)

/-- the exact value of a finite pattern: `(-1)^sign · mantissa · 2^exponent` with `F64.mantExp` -/
def value (n : Nat) : Dy :=
  ⟨if signBit n then -((mantExp n).1 : Int) else ((mantExp n).1 : Int), (mantExp n).2⟩

-- `umag` (magnitude in units of 2^-1074) and `units` (the signed count) are defined in `Model/FloatArith.lean`

/-- `W E F`: magnitude (in units of 2^-1074) of exponent field `E` and fraction field `F` -/
def W (E F : Nat) : Nat := if E = 0 then F else (2 ^ 52 + F) * 2 ^ (E - 1)

theorem mag_lt (n : Nat) : mag n < 2 ^ 63 := Nat.mod_lt _ (by decide)

theorem expBits_eq (n : Nat) : expBits n = mag n / 2 ^ 52 := by
  unfold expBits mag
  have : (2 : Nat) ^ 63 = 2 ^ 52 * 2 ^ 11 := by decide
  rw [this, Nat.mod_mul_right_div_self]

theorem fracBits_eq (n : Nat) : fracBits n = mag n % 2 ^ 52 := by
  unfold fracBits mag
  have : (2 : Nat) ^ 63 = 2 ^ 52 * 2 ^ 11 := by decide
  rw [this, Nat.mod_mul_right_mod]

/-- the magnitude bits are the exponent field followed by the fraction field -/
theorem mag_eq (n : Nat) : mag n = expBits n * 2 ^ 52 + fracBits n := by
  rw [expBits_eq, fracBits_eq]
  have := Nat.div_add_mod (mag n) (2 ^ 52)
  omega

theorem fracBits_lt (n : Nat) : fracBits n < 2 ^ 52 := Nat.mod_lt _ (by decide)

theorem mantExp_exp_ge (n : Nat) : -1074 ≤ (mantExp n).2 := by
  unfold mantExp; split
  · simp
  · rename_i h
    have : expBits n ≠ 0 := by simpa using h
    simp; omega

theorem umag_eq_W (n : Nat) : umag n = W (expBits n) (fracBits n) := by
  unfold umag mantExp W
  by_cases h : expBits n = 0
  · simp [h]
  · have h' : (expBits n == 0) = false := by simpa using h
    simp only [h', h, if_false, Bool.false_eq_true]
    have : ((expBits n : Int) - 1075 + 1074).toNat = expBits n - 1 := by omega
    rw [this]

theorem W_lt_pow (E F : Nat) (hF : F < 2 ^ 52) : W E F < 2 ^ (52 + E) := by
  unfold W
  by_cases h : E = 0
  · simp [h]; exact hF
  · simp only [h, if_false]
    have h1 : (2 ^ 52 + F) * 2 ^ (E - 1) < (2 ^ 53) * 2 ^ (E - 1) :=
      (Nat.mul_lt_mul_right (Nat.two_pow_pos _)).2 (by omega)
    have h2 : (2 : Nat) ^ 53 * 2 ^ (E - 1) = 2 ^ (52 + E) := by
      rw [← Nat.pow_add]; congr 1; omega
    omega

theorem pow_le_W (E F : Nat) (hE : E ≠ 0) : 2 ^ (51 + E) ≤ W E F := by
  unfold W
  simp only [hE, if_false]
  have h2 : (2 : Nat) ^ 52 * 2 ^ (E - 1) = 2 ^ (51 + E) := by
    rw [← Nat.pow_add]; congr 1; omega
  have h1 : 2 ^ 52 * 2 ^ (E - 1) ≤ (2 ^ 52 + F) * 2 ^ (E - 1) :=
    Nat.mul_le_mul_right _ (by omega)
  omega

/-- monotonicity of the decoding in the magnitude bits (exponent field, then fraction field) -/
theorem W_strictMono (E1 F1 E2 F2 : Nat) (h1 : F1 < 2 ^ 52) (h2 : F2 < 2 ^ 52)
    (h : E1 * 2 ^ 52 + F1 < E2 * 2 ^ 52 + F2) : W E1 F1 < W E2 F2 := by
  by_cases he : E1 = E2
  · subst he
    have hf : F1 < F2 := by omega
    unfold W
    by_cases h0 : E1 = 0
    · simp [h0]; exact hf
    · simp only [h0, if_false]
      exact (Nat.mul_lt_mul_right (Nat.two_pow_pos _)).2 (by omega)
  · have hlt : E1 < E2 := by
      false_or_by_contra
      have : E2 + 1 ≤ E1 := by omega
      have : (E2 + 1) * 2 ^ 52 ≤ E1 * 2 ^ 52 := Nat.mul_le_mul_right _ this
      omega
    have a := W_lt_pow E1 F1 h1
    have b := pow_le_W E2 F2 (by omega)
    have c : (2 : Nat) ^ (52 + E1) ≤ 2 ^ (51 + E2) := Nat.pow_le_pow_right (by decide) (by omega)
    omega

theorem umag_strictMono (a b : Nat) (h : mag a < mag b) : umag a < umag b := by
  rw [umag_eq_W, umag_eq_W]
  apply W_strictMono _ _ _ _ (fracBits_lt a) (fracBits_lt b)
  rw [← mag_eq, ← mag_eq]; exact h

theorem umag_lt_iff (a b : Nat) : umag a < umag b ↔ mag a < mag b := by
  constructor
  · intro h
    false_or_by_contra
    rename_i hn
    rcases Nat.lt_or_eq_of_le (Nat.le_of_not_lt hn) with h' | h'
    · have := umag_strictMono b a h'; omega
    · have : umag a = umag b := by rw [umag_eq_W, umag_eq_W, expBits_eq, expBits_eq, fracBits_eq, fracBits_eq, h']
      omega
  · exact umag_strictMono a b

theorem umag_eq_zero_iff (a : Nat) : umag a = 0 ↔ mag a = 0 := by
  constructor
  · intro h
    false_or_by_contra
    rename_i hn
    have h0 : mag 0 < mag a := by
      have : mag 0 = 0 := by decide
      omega
    have := umag_strictMono 0 a h0
    omega
  · intro h
    rw [umag_eq_W, expBits_eq, fracBits_eq, h]; decide

/-- the bit-pattern order key and the exact value (in units of 2^-1074) order patterns alike -/
theorem units_lt_iff (a b : Nat) : units a < units b ↔ key a < key b := by
  unfold units key
  have h1 := umag_lt_iff a b
  have h2 := umag_lt_iff b a
  have h3 := umag_eq_zero_iff a
  have h4 := umag_eq_zero_iff b
  by_cases sa : signBit a <;> by_cases sb : signBit b <;> simp only [sa, sb, if_true, if_false, Bool.false_eq_true] <;> omega

theorem compare_units (a b : Nat) : compare (units a) (units b) = compare (key a) (key b) :=
  intCompare_congr (units_lt_iff a b) (units_lt_iff b a)

theorem value_scale (n : Nat) : (value n).scale (-1074) = units n := by
  unfold value units umag Dy.scale
  have : ((mantExp n).2 - -1074) = (mantExp n).2 + 1074 := by omega
  by_cases s : signBit n <;> simp only [s, if_true, if_false, Bool.false_eq_true, this] <;>
    simp [Int.natCast_mul, Int.natCast_pow, Int.neg_mul]

/-- `Dy` comparison of two pattern values is the comparison of their integer unit counts -/
theorem value_cmp (a b : Nat) : Dy.cmp (value a) (value b) = compare (units a) (units b) := by
  rw [Dy.cmp_eq_scale _ _ (-1074) (mantExp_exp_ge a) (mantExp_exp_ge b), value_scale, value_scale]

theorem isNaN_false_of_finite {n : Nat} (h : isFinite n = true) : isNaN n = false := by
  unfold isFinite at h; unfold isNaN
  simp at h ⊢; omega

theorem isInf_false_of_finite {n : Nat} (h : isFinite n = true) : isInf n = false := by
  unfold isFinite at h; unfold isInf
  simp at h ⊢; omega

/-- every pattern is exactly one of: finite, infinite, NaN -/
theorem classify (n : Nat) :
    (isFinite n = true ∧ isInf n = false ∧ isNaN n = false) ∨
    (isFinite n = false ∧ isInf n = true ∧ isNaN n = false) ∨
    (isFinite n = false ∧ isInf n = false ∧ isNaN n = true) := by
  unfold isFinite isInf isNaN
  rcases Nat.lt_trichotomy (mag n) 0x7ff0000000000000 with h | h | h
  · left; simp; omega
  · right; left; simp; omega
  · right; right; simp; omega

/-- **REAL values compare by numeric value**: for non-NaN, non-infinite patterns `F64.cmp` is the
comparison of the exact dyadic values. -/
theorem cmp_eq_value_cmp (a b : Nat) (ha : isFinite a = true) (hb : isFinite b = true) :
    cmp a b = Dy.cmp (value a) (value b) := by
  unfold cmp
  rw [isNaN_false_of_finite ha, isNaN_false_of_finite hb, value_cmp, compare_units]
  simp

/-- comparison of non-NaN patterns through `units` (infinities get `±2^2098` units = `±2^1024`) -/
theorem cmp_eq_compare_units (a b : Nat) (ha : isNaN a = false) (hb : isNaN b = false) :
    cmp a b = compare (units a) (units b) := by
  unfold cmp; rw [ha, hb, compare_units]; simp

theorem key_inf_pos {n : Nat} (hi : isInf n = true) (hs : signBit n = false) : key n = 0x7ff0000000000000 := by
  unfold isInf at hi; unfold key; simp at hi; simp [hs, hi]
theorem key_inf_neg {n : Nat} (hi : isInf n = true) (hs : signBit n = true) : key n = -0x7ff0000000000000 := by
  unfold isInf at hi; unfold key; simp at hi; simp [hs, hi]
theorem key_finite {n : Nat} (h : isFinite n = true) : -0x7ff0000000000000 < key n ∧ key n < 0x7ff0000000000000 := by
  unfold isFinite at h; unfold key; simp at h
  split <;> omega

/-- `-inf` is below and `+inf` above every finite value -/
theorem neg_inf_lt_finite (i a : Nat) (hi : isInf i = true) (hs : signBit i = true) (ha : isFinite a = true) :
    cmp i a = .lt := by
  have hni : isNaN i = false := by rcases classify i with h | h | h <;> simp_all
  unfold cmp
  rw [hni, isNaN_false_of_finite ha]
  simp only [Bool.false_eq_true, if_false]
  rw [Int.compare_eq_lt, key_inf_neg hi hs]; exact (key_finite ha).1

theorem finite_lt_pos_inf (i a : Nat) (hi : isInf i = true) (hs : signBit i = false) (ha : isFinite a = true) :
    cmp a i = .lt := by
  have hni : isNaN i = false := by rcases classify i with h | h | h <;> simp_all
  unfold cmp
  rw [hni, isNaN_false_of_finite ha]
  simp only [Bool.false_eq_true, if_false]
  rw [Int.compare_eq_lt, key_inf_pos hi hs]; exact (key_finite ha).2

theorem neg_inf_lt_pos_inf (i j : Nat) (hi : isInf i = true) (hs : signBit i = true)
    (hj : isInf j = true) (ht : signBit j = false) : cmp i j = .lt := by
  have hni : isNaN i = false := by rcases classify i with h | h | h <;> simp_all
  have hnj : isNaN j = false := by rcases classify j with h | h | h <;> simp_all
  unfold cmp
  rw [hni, hnj]
  simp only [Bool.false_eq_true, if_false]
  rw [Int.compare_eq_lt, key_inf_pos hj ht, key_inf_neg hi hs]; decide

/-- two infinities are equal exactly when they have the same sign -/
theorem inf_eq_iff (i j : Nat) (hi : isInf i = true) (hj : isInf j = true) :
    cmp i j = .eq ↔ signBit i = signBit j := by
  have hni : isNaN i = false := by rcases classify i with h | h | h <;> simp_all
  have hnj : isNaN j = false := by rcases classify j with h | h | h <;> simp_all
  unfold cmp
  rw [hni, hnj]
  simp only [Bool.false_eq_true, if_false]
  rw [Int.compare_eq_eq]
  cases hs : signBit i <;> cases ht : signBit j <;>
    simp only [key_inf_pos, key_inf_neg, hi, hj, hs, ht] <;> decide

/-- NaN: every NaN pattern equals every NaN pattern and is above every non-NaN pattern -/
theorem cmp_nan_nan (a b : Nat) (ha : isNaN a = true) (hb : isNaN b = true) : cmp a b = .eq := by
  unfold cmp; simp [ha, hb]
theorem cmp_lt_nan (a b : Nat) (ha : isNaN a = false) (hb : isNaN b = true) : cmp a b = .lt := by
  unfold cmp; simp [ha, hb]
theorem cmp_nan_gt (a b : Nat) (ha : isNaN a = true) (hb : isNaN b = false) : cmp a b = .gt := by
  unfold cmp; simp [ha, hb]

/-- the only two distinct finite patterns of equal value are `+0.0` and `-0.0` -/
theorem cmp_eq_iff_bits (a b : Nat) (ha : isNaN a = false) (hb : isNaN b = false) :
    cmp a b = .eq ↔ (mag a = mag b ∧ (signBit a = signBit b ∨ mag a = 0)) := by
  unfold cmp; rw [ha, hb]
  simp only [Bool.false_eq_true, if_false]
  rw [Int.compare_eq_eq]
  unfold key
  cases hs : signBit a <;> cases ht : signBit b <;> simp <;> omega

end F64
end Sqlgrep
