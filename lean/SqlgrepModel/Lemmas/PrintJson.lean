import SqlgrepModel.Lemmas.PrintString
/- A small reader for the compact JSON the printer emits (cell documents and one-level objects) and
the proof that it inverts `Json.render` / `renderObject`. -/
namespace Sqlgrep.Print

/-- characters of a JSON number token -/
def isNumChar (c : Nat) : Bool :=
  (decide (48 ≤ c) && decide (c ≤ 57)) || c == 45 || c == 43 || c == 46 || c == 101 || c == 69

def stripPrefix : Bytes → Bytes → Option Bytes
  | [], l => some l
  | _ :: _, [] => none
  | p :: ps, c :: l => if p = c then stripPrefix ps l else none

mutual
/-- read one cell document (`null`, `true`, `false`, a number token, a string, an array of cell
documents) from the front of the input; the number grammar is not validated beyond its character set -/
def readValue : Nat → Bytes → Option (Json × Bytes)
  | 0, _ => none
  | fuel + 1, l =>
    match l with
    | [] => none
    | c :: t =>
      if c = 34 then
        match readStr t with
        | some (s, r) => some (.str s, r)
        | none => none
      else if c = 91 then
        match t with
        | [] => none
        | c2 :: t2 =>
          if c2 = 93 then some (.arr [], t2)
          else
            match readValue fuel t with
            | none => none
            | some (x, r) =>
              match readTail fuel r with
              | none => none
              | some (xs, r') => some (.arr (x :: xs), r')
      else if c = 110 then
        match stripPrefix sNull l with
        | some r => some (.null, r)
        | none => none
      else if c = 116 then
        match stripPrefix sTrue l with
        | some r => some (.bool true, r)
        | none => none
      else if c = 102 then
        match stripPrefix sFalse l with
        | some r => some (.bool false, r)
        | none => none
      else if isNumChar c then some (.num (l.takeWhile isNumChar), l.dropWhile isNumChar)
      else none
/-- the rest of an array after an element: `]`, or `,` element rest -/
def readTail : Nat → Bytes → Option (List Json × Bytes)
  | 0, _ => none
  | fuel + 1, l =>
    match l with
    | [] => none
    | c :: t =>
      if c = 93 then some ([], t)
      else if c = 44 then
        match readValue fuel t with
        | none => none
        | some (x, r) =>
          match readTail fuel r with
          | none => none
          | some (xs, r') => some (x :: xs, r')
      else none
end

mutual
/-- number tokens are non-empty runs of number characters -/
def Json.ok : Json → Bool
  | .num t => !t.isEmpty && t.all isNumChar
  | .arr xs => Json.okAll xs
  | _ => true
def Json.okAll : List Json → Bool
  | [] => true
  | x :: xs => x.ok && Json.okAll xs
end

mutual
def Json.size : Json → Nat
  | .arr [] => 1
  | .arr (x :: xs) => 1 + x.size + Json.sizeAll xs
  | _ => 1
def Json.sizeAll : List Json → Nat
  | [] => 1
  | x :: xs => 1 + x.size + Json.sizeAll xs
end

/-- the rest of the input after a value does not continue a number token -/
def RestOk (r : Bytes) : Prop := ∀ c t, r = c :: t → isNumChar c = false

theorem restOk_nil : RestOk [] := by intro c t h; cases h
theorem restOk_cons {c : Nat} {t : Bytes} (h : isNumChar c = false) : RestOk (c :: t) := by
  intro c' t' e; cases e; exact h

theorem takeWhile_num (tok rest : Bytes) (h : tok.all isNumChar = true) (hr : RestOk rest) :
    (tok ++ rest).takeWhile isNumChar = tok ∧ (tok ++ rest).dropWhile isNumChar = rest := by
  induction tok with
  | nil =>
    cases rest with
    | nil => simp
    | cons c t => have := hr c t rfl; simp [this]
  | cons c t ih =>
    simp only [List.all_cons, Bool.and_eq_true] at h
    simp [h.1, ih h.2]

theorem numChar_ne {c : Nat} (h : isNumChar c = true) :
    c ≠ 34 ∧ c ≠ 91 ∧ c ≠ 110 ∧ c ≠ 116 ∧ c ≠ 102 ∧ c ≠ 93 ∧ c ≠ 44 ∧ c ≠ 125 := by
  simp only [isNumChar, Bool.or_eq_true, Bool.and_eq_true, decide_eq_true_eq, beq_iff_eq] at h
  omega

/-- first byte of a rendered document: never `]`, `,` or `}` -/
theorem render_head (j : Json) (h : j.ok = true) :
    ∃ c t, j.render = c :: t ∧ c ≠ 93 ∧ c ≠ 44 ∧ c ≠ 125 := by
  cases j with
  | null => exact ⟨110, _, rfl, by decide, by decide, by decide⟩
  | bool b => cases b <;> exact ⟨_, _, rfl, by decide, by decide, by decide⟩
  | num tok =>
    cases tok with
    | nil => simp [Json.ok] at h
    | cons c t =>
      simp only [Json.ok, List.all_cons, Bool.and_eq_true] at h
      have := numChar_ne h.2.1
      exact ⟨c, t, rfl, this.2.2.2.2.2.1, this.2.2.2.2.2.2.1, this.2.2.2.2.2.2.2⟩
  | str s => exact ⟨34, _, rfl, by decide, by decide, by decide⟩
  | arr xs => cases xs <;> exact ⟨91, _, rfl, by decide, by decide, by decide⟩

theorem stripPrefix_append (p rest : Bytes) : stripPrefix p (p ++ rest) = some rest := by
  induction p with
  | nil => rfl
  | cons c p ih => simp [stripPrefix, ih]

mutual
theorem readValue_render : ∀ (j : Json), j.ok = true → ∀ (rest : Bytes), RestOk rest →
    ∀ fuel, j.size ≤ fuel → readValue fuel (j.render ++ rest) = some (j, rest)
  | .null, _, rest, _, fuel, hf => by
    cases fuel with
    | zero => simp [Json.size] at hf
    | succ f =>
      have := stripPrefix_append sNull rest
      simp only [Json.render, sNull, List.cons_append, List.nil_append] at this ⊢
      simp [readValue, sNull, this]
  | .bool true, _, rest, _, fuel, hf => by
    cases fuel with
    | zero => simp [Json.size] at hf
    | succ f =>
      have := stripPrefix_append sTrue rest
      simp only [Json.render, renderBool, sTrue, List.cons_append, List.nil_append, if_true] at this ⊢
      simp [readValue, sTrue, this]
  | .bool false, _, rest, _, fuel, hf => by
    cases fuel with
    | zero => simp [Json.size] at hf
    | succ f =>
      have := stripPrefix_append sFalse rest
      simp only [Json.render, renderBool, sFalse, List.cons_append, List.nil_append] at this ⊢
      simp [readValue, sFalse, this]
  | .num tok, hok, rest, hr, fuel, hf => by
    cases fuel with
    | zero => simp [Json.size] at hf
    | succ f =>
      cases tok with
      | nil => simp [Json.ok] at hok
      | cons c t =>
        simp only [Json.ok, Bool.and_eq_true] at hok
        have hall := hok.2
        have hc : isNumChar c = true := by
          simp only [List.all_cons, Bool.and_eq_true] at hall; exact hall.1
        have hne := numChar_ne hc
        have htd := takeWhile_num (c :: t) rest hall hr
        simp only [Json.render, List.cons_append] at htd ⊢
        simp only [readValue, hne.1, hne.2.1, hne.2.2.1, hne.2.2.2.1, hne.2.2.2.2.1, if_false, hc, if_true,
          htd.1, htd.2]
  | .str s, _, rest, _, fuel, hf => by
    cases fuel with
    | zero => simp [Json.size] at hf
    | succ f =>
      have := readStr_jsonEscape s rest
      simp only [Json.render, renderString, List.cons_append, List.append_assoc, List.nil_append]
      simp [readValue, this]
  | .arr [], _, rest, _, fuel, hf => by
    cases fuel with
    | zero => simp [Json.size] at hf
    | succ f => simp [Json.render, readValue]
  | .arr (x :: xs), hok, rest, hr, fuel, hf => by
    cases fuel with
    | zero => simp [Json.size] at hf
    | succ f =>
      simp only [Json.ok, Json.okAll, Bool.and_eq_true] at hok
      simp only [Json.size] at hf
      obtain ⟨c, t, hct, hc93, _, _⟩ := render_head x hok.1
      have hrest : RestOk (Json.renderTail xs ++ 93 :: rest) := by
        cases xs with
        | nil => exact restOk_cons (by decide)
        | cons y ys => exact restOk_cons (by decide)
      have hx := readValue_render x hok.1 (Json.renderTail xs ++ 93 :: rest) hrest f (by omega)
      have hxs := readTail_render xs hok.2 rest f (by omega)
      have e : (Json.arr (x :: xs)).render ++ rest
          = 91 :: (x.render ++ (Json.renderTail xs ++ 93 :: rest)) := by
        simp [Json.render]
      rw [e, hct] at *
      simp only [List.cons_append] at hx ⊢
      simp only [readValue, show (91 : Nat) ≠ 34 by decide, if_false, if_true, hc93, hx, hxs]
theorem readTail_render : ∀ (xs : List Json), Json.okAll xs = true → ∀ (rest : Bytes),
    ∀ fuel, Json.sizeAll xs ≤ fuel → readTail fuel (Json.renderTail xs ++ 93 :: rest) = some (xs, rest)
  | [], _, rest, fuel, hf => by
    cases fuel with
    | zero => simp [Json.sizeAll] at hf
    | succ f => simp [Json.renderTail, readTail]
  | x :: xs, hok, rest, fuel, hf => by
    cases fuel with
    | zero => simp [Json.sizeAll] at hf
    | succ f =>
      simp only [Json.okAll, Bool.and_eq_true] at hok
      simp only [Json.sizeAll] at hf
      have hrest : RestOk (Json.renderTail xs ++ 93 :: rest) := by
        cases xs with
        | nil => exact restOk_cons (by decide)
        | cons y ys => exact restOk_cons (by decide)
      have hx := readValue_render x hok.1 (Json.renderTail xs ++ 93 :: rest) hrest f (by omega)
      have hxs := readTail_render xs hok.2 rest f (by omega)
      have e : Json.renderTail (x :: xs) ++ 93 :: rest
          = 44 :: (x.render ++ (Json.renderTail xs ++ 93 :: rest)) := by
        simp [Json.renderTail]
      rw [e]
      simp only [readTail, show (44 : Nat) ≠ 93 by decide, if_false, if_true, hx, hxs]
end

/-! ### one-level objects -/

/-- `"key":value` -/
def readMember (fuel : Nat) (l : Bytes) : Option ((Bytes × Json) × Bytes) :=
  match l with
  | [] => none
  | c :: t =>
    if c = 34 then
      match readStr t with
      | none => none
      | some (k, r) =>
        match r with
        | [] => none
        | c2 :: r2 =>
          if c2 = 58 then
            match readValue fuel r2 with
            | none => none
            | some (v, r3) => some ((k, v), r3)
          else none
    else none

/-- the rest of an object after a member: `}`, or `,` member rest -/
def readMembersTail (vfuel : Nat) : Nat → Bytes → Option (List (Bytes × Json) × Bytes)
  | 0, _ => none
  | n + 1, l =>
    match l with
    | [] => none
    | c :: t =>
      if c = 125 then some ([], t)
      else if c = 44 then
        match readMember vfuel t with
        | none => none
        | some (kv, r) =>
          match readMembersTail vfuel n r with
          | none => none
          | some (kvs, r') => some (kv :: kvs, r')
      else none

/-- read a whole line as one JSON object whose member values are cell documents; members are
returned in document order (nothing may follow the closing brace) -/
def readObject (l : Bytes) : Option (List (Bytes × Json)) :=
  match l with
  | [] => none
  | c :: t =>
    if c = 123 then
      match t with
      | [] => none
      | c2 :: t2 =>
        if c2 = 125 then (if t2 = [] then some [] else none)
        else
          match readMember l.length t with
          | none => none
          | some (kv, r) =>
            match readMembersTail l.length l.length r with
            | some (kvs, []) => some (kv :: kvs)
            | _ => none
    else none

mutual
theorem size_le_length : ∀ (j : Json), j.ok = true → j.size ≤ j.render.length
  | .null, _ => by simp [Json.size, Json.render, sNull]
  | .bool b, _ => by cases b <;> simp [Json.size, Json.render, renderBool, sTrue, sFalse]
  | .num tok, h => by
    cases tok with
    | nil => simp [Json.ok] at h
    | cons c t => simp [Json.size, Json.render]
  | .str s, _ => by simp [Json.size, Json.render, renderString]
  | .arr [], _ => by simp [Json.size, Json.render]
  | .arr (x :: xs), h => by
    simp only [Json.ok, Json.okAll, Bool.and_eq_true] at h
    have h1 := size_le_length x h.1
    have h2 := sizeAll_le_length xs h.2
    simp only [Json.size, Json.render, List.length_cons, List.length_append,
      List.length_nil] at *
    omega
theorem sizeAll_le_length : ∀ (xs : List Json), Json.okAll xs = true →
    Json.sizeAll xs ≤ (Json.renderTail xs).length + 1
  | [], _ => by simp [Json.sizeAll, Json.renderTail]
  | x :: xs, h => by
    simp only [Json.okAll, Bool.and_eq_true] at h
    have h1 := size_le_length x h.1
    have h2 := sizeAll_le_length xs h.2
    simp only [Json.sizeAll, Json.renderTail, List.length_cons, List.length_append] at *
    omega
end

def membersOk (kvs : List (Bytes × Json)) : Prop := ∀ kv ∈ kvs, kv.2.ok = true

theorem readMember_render (kv : Bytes × Json) (hok : kv.2.ok = true) (rest : Bytes) (hr : RestOk rest)
    (fuel : Nat) (hf : kv.2.size ≤ fuel) :
    readMember fuel (renderMember kv ++ rest) = some (kv, rest) := by
  obtain ⟨k, v⟩ := kv
  have e : renderMember (k, v) ++ rest = 34 :: (jsonEscape k ++ 34 :: (58 :: (v.render ++ rest))) := by
    simp [renderMember, renderString]
  rw [e]
  simp only [readMember, if_true, readStr_jsonEscape, readValue_render v hok rest hr fuel hf]

theorem readMembersTail_render (kvs : List (Bytes × Json)) (hok : membersOk kvs) (rest : Bytes)
    (vfuel : Nat) (hv : ∀ kv ∈ kvs, kv.2.size ≤ vfuel) (n : Nat) (hn : kvs.length < n) :
    readMembersTail vfuel n (renderMembersTail kvs ++ 125 :: rest) = some (kvs, rest) := by
  induction kvs generalizing n with
  | nil =>
    cases n with
    | zero => simp at hn
    | succ m => simp [renderMembersTail, readMembersTail]
  | cons kv kvs ih =>
    cases n with
    | zero => simp at hn
    | succ m =>
      have hrest : RestOk (renderMembersTail kvs ++ 125 :: rest) := by
        cases kvs with
        | nil => exact restOk_cons (by decide)
        | cons y ys => exact restOk_cons (by decide)
      have h1 := readMember_render kv (hok kv (by simp)) _ hrest vfuel (hv kv (by simp))
      have h2 := ih (fun x hx => hok x (by simp [hx])) (fun x hx => hv x (by simp [hx])) m
        (by simp at hn; omega)
      have e : renderMembersTail (kv :: kvs) ++ 125 :: rest
          = 44 :: (renderMember kv ++ (renderMembersTail kvs ++ 125 :: rest)) := by
        simp [renderMembersTail]
      rw [e]
      simp only [readMembersTail, show (44 : Nat) ≠ 125 by decide, if_false, if_true, h1, h2]

theorem renderMember_length (kv : Bytes × Json) (h : kv.2.ok = true) :
    kv.2.size + 3 ≤ (renderMember kv).length := by
  have := size_le_length kv.2 h
  simp only [renderMember, renderString, List.length_cons, List.length_append, List.length_nil]
  omega

theorem renderMembersTail_length (kvs : List (Bytes × Json)) (hok : membersOk kvs) :
    kvs.length ≤ (renderMembersTail kvs).length ∧
    ∀ kv ∈ kvs, kv.2.size ≤ (renderMembersTail kvs).length := by
  induction kvs with
  | nil => simp [renderMembersTail]
  | cons kv kvs ih =>
    have h1 := renderMember_length kv (hok kv (by simp))
    have ⟨h2, h3⟩ := ih (fun x hx => hok x (by simp [hx]))
    simp only [renderMembersTail, List.length_cons, List.length_append]
    refine ⟨by omega, ?_⟩
    intro x hx
    simp only [List.mem_cons] at hx
    cases hx with
    | inl hx => subst hx; omega
    | inr hx => have := h3 x hx; omega

/-- the object reader inverts `renderObject` for every member list of well-formed cell documents -/
theorem readObject_renderObject (kvs : List (Bytes × Json)) (hok : membersOk kvs) :
    readObject (renderObject kvs) = some kvs := by
  cases kvs with
  | nil => simp [renderObject, readObject]
  | cons kv kvs =>
    have hk := hok kv (by simp)
    have hoks : membersOk kvs := fun x hx => hok x (by simp [hx])
    have hlen := renderMember_length kv hk
    have ⟨hl1, hl2⟩ := renderMembersTail_length kvs hoks
    have hrest : RestOk (renderMembersTail kvs ++ [125]) := by
      cases kvs with
      | nil => exact restOk_cons (by decide)
      | cons y ys => exact restOk_cons (by decide)
    have e : renderObject (kv :: kvs) = 123 :: (renderMember kv ++ (renderMembersTail kvs ++ [125])) := by
      simp [renderObject]
    have hL : (renderObject (kv :: kvs)).length
        = 1 + (renderMember kv).length + (renderMembersTail kvs).length + 1 := by
      rw [e]; simp only [List.length_cons, List.length_append, List.length_nil]; omega
    have hm := readMember_render kv hk (renderMembersTail kvs ++ [125]) hrest
      (renderObject (kv :: kvs)).length (by omega)
    have ht := readMembersTail_render kvs hoks [] (renderObject (kv :: kvs)).length
      (fun x hx => by have := hl2 x hx; omega) (renderObject (kv :: kvs)).length (by omega)
    -- the first byte of a member is the opening quote of its key
    have hq : ∃ t, renderMember kv ++ (renderMembersTail kvs ++ [125]) = 34 :: t :=
      ⟨jsonEscape kv.1 ++ 34 :: 58 :: (kv.2.render ++ (renderMembersTail kvs ++ [125])),
        by simp [renderMember, renderString]⟩
    obtain ⟨t, hq⟩ := hq
    unfold readObject
    rw [e] at hm ht ⊢
    rw [hq] at hm ht ⊢
    simp only [if_true, show (34 : Nat) ≠ 125 by decide, if_false, hm, ht]

/-! ### `IndexMap` with distinct keys keeps the pairs as they are -/

theorem insertKV_fresh (m : List (Bytes × Json)) (k : Bytes) (v : Json) (h : k ∉ m.map Prod.fst) :
    insertKV m k v = m ++ [(k, v)] := by
  induction m with
  | nil => rfl
  | cons kv m ih =>
    obtain ⟨k', v'⟩ := kv
    simp only [List.map_cons, List.mem_cons, not_or] at h
    have hne : k' ≠ k := fun e => h.1 e.symm
    simp [insertKV, hne, ih h.2]

theorem foldl_insertKV_nodup (m kvs : List (Bytes × Json))
    (h : ((m ++ kvs).map Prod.fst).Nodup) :
    kvs.foldl (fun m kv => insertKV m kv.1 kv.2) m = m ++ kvs := by
  induction kvs generalizing m with
  | nil => simp
  | cons kv kvs ih =>
    have hfresh : kv.1 ∉ m.map Prod.fst := by
      intro hmem
      simp only [List.map_append, List.map_cons] at h
      have := (List.nodup_append.mp h).2.2 kv.1 hmem kv.1 (by simp)
      exact this rfl
    simp only [List.foldl_cons, insertKV_fresh m kv.1 kv.2 hfresh]
    rw [ih (m ++ [(kv.1, kv.2)]) (by simpa using h)]
    simp

theorem mapFromList_nodup (kvs : List (Bytes × Json)) (h : (kvs.map Prod.fst).Nodup) :
    mapFromList kvs = kvs := by
  have := foldl_insertKV_nodup [] kvs (by simpa using h)
  simpa [mapFromList] using this

end Sqlgrep.Print
