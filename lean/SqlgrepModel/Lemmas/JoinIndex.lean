import SqlgrepModel.Model.Exec
import SqlgrepModel.Lemmas.ValueOrder
/-
Helper lemmas for C05: bucket equality of the join index (`keySame`) is value equality (`Value.beq`), value
equality is an equivalence, and looking a key up in the index built by `joinIndexAdd` is filtering the inserted
rows by key equality (order of insertion kept).
-/
namespace Sqlgrep
open Value

theorem beq_symm (a b : Value) : beq a b = beq b a := by
  have h1 := cmp_eq_iff_beq a b
  have h2 := cmp_eq_iff_beq b a
  have hs := Value.cmp_swap a b
  cases hab : beq a b <;> cases hba : beq b a <;> simp_all

theorem beq_trans {a b c : Value} (h1 : beq a b = true) (h2 : beq b c = true) : beq a c = true := by
  have t := Value.cmp_T a b c
  rw [← cmp_eq_iff_beq] at h1 h2 ⊢
  rw [t.2.1 h1]; exact h2

theorem beq_refl' (a : Value) : beq a a = true := (cmp_eq_iff_beq a a).1 (Value.cmp_refl a)

/-- bucket equality of the hash index (equal hash stream ∧ `==`) is `==` (C16: equal values hash equally) -/
theorem keySame_eq_beq (a b : Value) : keySame a b = beq a b := by
  unfold keySame
  cases h : beq a b
  · simp
  · simp [hashRepr_eq_of_beq a b h]

theorem beq_null_left (b : Value) : beq .null b = b.isNull := by
  cases b <;> simp [Value.beq, Value.isNull]

theorem isNull_eq_of_beq {a b : Value} (h : beq a b = true) : a.isNull = b.isNull := by
  cases a <;> cases b <;> simp_all [Value.beq, Value.isNull]

/-- rows whose key (column `ki`) is non-NULL and equal to `k`, in insertion order -/
def matchingRows (ki : Nat) (k : Value) (rows : List (List Value)) : List (List Value) :=
  rows.filter (fun s => !(s.getD ki .null).isNull && beq (s.getD ki .null) k)

/-- the index after inserting `rows` one after the other -/
def buildIndex (ki : Nat) (rows : List (List Value)) (idx : JoinIndex) : JoinIndex :=
  rows.foldl (fun idx s => joinIndexAdd idx (s.getD ki .null) s) idx

theorem joinIndexGet_add (idx : JoinIndex) (k : Value) (s : List Value) (q : Value) :
    joinIndexGet (joinIndexAdd idx k s) q =
      if !k.isNull && beq k q then some ((joinIndexGet idx q).getD [] ++ [s]) else joinIndexGet idx q := by
  unfold joinIndexAdd
  by_cases hn : k.isNull = true
  · simp [hn]
  · simp only [hn, Bool.false_eq_true, if_false, Bool.not_false, Bool.true_and]
    by_cases hany : idx.any (fun b => keySame b.1 k) = true
    · simp only [hany, if_true]
      unfold joinIndexGet
      rw [List.find?_map]
      have hcomp : ((fun b : Value × List (List Value) => keySame b.1 q) ∘
          (fun b : Value × List (List Value) => if keySame b.1 k = true then (b.1, b.2 ++ [s]) else b)) =
          (fun b => keySame b.1 q) := by
        funext b; simp only [Function.comp]; split <;> rfl
      rw [hcomp]
      cases hf : idx.find? (fun b => keySame b.1 q) with
      | none =>
        have hkq : beq k q = false := by
          cases hkq : beq k q
          · rfl
          · exfalso
            rw [List.any_eq_true] at hany
            obtain ⟨b, hb, hbk⟩ := hany
            have := List.find?_eq_none.1 hf b hb
            rw [keySame_eq_beq] at hbk this
            exact this (beq_trans hbk hkq)
        simp [hkq]
      | some b =>
        have hbq : beq b.1 q = true := by
          have := List.find?_some hf
          rwa [keySame_eq_beq] at this
        by_cases hkq : beq k q = true
        · have : keySame b.1 k = true := by
            rw [keySame_eq_beq]; exact beq_trans hbq (by rw [beq_symm]; exact hkq)
          simp [hkq, this]
        · have : ¬ keySame b.1 k = true := by
            rw [keySame_eq_beq]; intro hbk
            exact hkq (beq_trans (by rw [beq_symm]; exact hbk) hbq)
          simp [hkq, this]
    · simp only [hany, Bool.false_eq_true, if_false]
      unfold joinIndexGet
      rw [List.find?_append]
      have hnone : ∀ b ∈ idx, ¬ keySame b.1 k = true := by
        intro b hb hbk
        exact hany (List.any_eq_true.2 ⟨b, hb, hbk⟩)
      by_cases hkq : beq k q = true
      · have hf : idx.find? (fun b => keySame b.1 q) = none := by
          rw [List.find?_eq_none]
          intro b hb hbq
          simp only [keySame_eq_beq] at hbq
          refine hnone b hb ?_
          rw [keySame_eq_beq]
          exact beq_trans hbq (by rw [beq_symm]; exact hkq)
        rw [hf]
        simp [hkq, keySame_eq_beq]
      · have : keySame k q = false := by rw [keySame_eq_beq]; simpa using hkq
        cases hf : idx.find? (fun b => keySame b.1 q) <;> simp [hkq, this, List.find?]

theorem joinIndexGet_build (ki : Nat) (rows : List (List Value)) (idx : JoinIndex) (q : Value) :
    joinIndexGet (buildIndex ki rows idx) q =
      if matchingRows ki q rows = [] then joinIndexGet idx q
      else some ((joinIndexGet idx q).getD [] ++ matchingRows ki q rows) := by
  induction rows generalizing idx with
  | nil => simp [buildIndex, matchingRows]
  | cons s rest ih =>
    have hstep : buildIndex ki (s :: rest) idx = buildIndex ki rest (joinIndexAdd idx (s.getD ki .null) s) := rfl
    rw [hstep, ih, joinIndexGet_add]
    by_cases hm : (!(s.getD ki .null).isNull && beq (s.getD ki .null) q) = true
    · have hmr : matchingRows ki q (s :: rest) = s :: matchingRows ki q rest := by
        simp only [matchingRows, List.filter_cons, hm, if_true]
      rw [hmr]
      simp only [hm, if_true]
      by_cases he : matchingRows ki q rest = []
      · simp [he]
      · simp [he]
    · have hmr : matchingRows ki q (s :: rest) = matchingRows ki q rest := by
        simp only [matchingRows, List.filter_cons, hm]
        simp
      rw [hmr]
      simp only [hm]
      simp

/-- the loader's fold over the joined lines is the insertion of the admitted rows in file order -/
theorem loadFold_eq_build (ki : Nat) (lines : List Line) (idx : JoinIndex) :
    lines.foldl (fun idx l => if anyResult l.row then joinIndexAdd idx (l.row.getD ki .null) l.row else idx) idx =
      buildIndex ki ((lines.filter (fun l => anyResult l.row)).map (·.row)) idx := by
  induction lines generalizing idx with
  | nil => rfl
  | cons l rest ih =>
    simp only [List.foldl_cons, List.filter_cons]
    by_cases ha : anyResult l.row = true
    · simp only [ha, if_true, List.map_cons]
      rw [ih]; rfl
    · simp only [ha, Bool.false_eq_true, if_false]
      rw [ih]

/-- **hash-bucket lookup = filter**: looking `q` up in the index loaded from the joined lines gives the
admitted joined rows whose key is non-NULL and equal to `q`, in file order (`none` when there are none) -/
theorem joinIndexGet_loadJoin (j : JoinInfo) (lines : List Line) (idx : JoinIndex) (ki : Nat)
    (hk : indexOf? j.joined.columns j.joinedColumn = some ki) (hl : loadJoin j lines = .ok idx) (q : Value) :
    joinIndexGet idx q =
      let ps := matchingRows ki q ((lines.filter (fun l => anyResult l.row)).map (·.row))
      if ps = [] then none else some ps := by
  unfold loadJoin at hl
  rw [hk] at hl
  simp only [Outcome.ok.injEq] at hl
  rw [← hl, loadFold_eq_build, joinIndexGet_build]
  simp [joinIndexGet]

end Sqlgrep
