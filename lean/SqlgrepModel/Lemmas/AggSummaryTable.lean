import SqlgrepModel.Lemmas.AggSummary
/-
C15, input split at table level for ALL order-insensitive aggregates: a group's row and HAVING verdict depend on its
rows only through its slot values; the slot values are the finished summaries; the summary row of a concatenated group
is the combination of the parts' summary rows; keyed tables of any per-group function merge key-wise. Hence
`table (r₁ ++ r₂) = tableOfSummaries (mergeG combine S₁ S₂)`.
-/
set_option linter.unusedSimpArgs false
namespace Sqlgrep
open Value Spec.Agg

/-! ### a group's row and HAVING verdict as a function of its slot values -/

def isKeyKind : AggKind → Bool
  | .groupKey _ _ => true
  | _ => false

/-- the values of all aggregate slots of one group (select list, then HAVING's aggregates); NULL stands in at key columns -/
def slotValues (O : Oracles) (q : AggStmt) (g : List Env) : Option (List Value) :=
  collect (q.items.map (fun it => if isKeyKind it.kind then some .null else groupValue O q it.kind g) ++
    q.havingAggs.map (fun p => groupValue O q p.2 g))

/-- one cell from the slot value -/
def cellV (O : Oracles) (q : AggStmt) (key : List Value) (item : AggItem) (v : Value) : Option Value :=
  match item.kind with
  | .groupKey _ canon => (mappingGet (keyMapping q) canon).bind (key[·]?)
  | _ => okOf (applyTransform O item.transform v)

def zipCollect {α β γ : Type} (f : α → β → Option γ) : List α → List β → Option (List γ)
  | [], _ => some []
  | _ :: _, [] => none
  | a :: as, b :: bs =>
    match f a b, zipCollect f as bs with
    | some c, some cs => some (c :: cs)
    | _, _ => none

/-- row and HAVING verdict of a group from its key and slot values -/
def perGroupV (O : Oracles) (q : AggStmt) (key : List Value) (vals : List Value) : Option (List Value × Bool) :=
  match zipCollect (cellV O q key) q.items vals with
  | none => none
  | some r =>
    match q.having with
    | none => some (r, true)
    | some h =>
      match zipCollect (fun (p : Nat × AggKind) v => some (p.1, v)) q.havingAggs (vals.drop q.items.length) with
      | none => none
      | some gvals => ((okOf (eval O { groupKeys := keyBindings q key, groupValues := gvals } h)).bind (fun v => okOf (condHolds v))).map (fun b => (r, b))

/-- `collect (l.map (f >=> g))` in two stages -/
theorem collect_bind_zip {α β γ : Type} (l : List α) (f : α → Option β) (g : α → β → Option γ) :
    collect (l.map (fun x => (f x).bind (g x))) = (collect (l.map f)).bind (fun ys => zipCollect g l ys) := by
  induction l with
  | nil => rfl
  | cons x xs ih =>
    simp only [List.map_cons]
    cases hf : f x with
    | none => simp [collect]
    | some y =>
      simp only [Option.bind_some]
      cases hg : g x y with
      | none =>
        simp only [collect]
        cases collect (xs.map f) with
        | none => rfl
        | some ys => simp [zipCollect, hg]
      | some z =>
        simp only [collect_cons_some, ih]
        cases collect (xs.map f) with
        | none => rfl
        | some ys =>
          simp only [Option.map_some, Option.bind_some, zipCollect, hg]
          cases zipCollect g xs ys <;> rfl

theorem zipCollect_append_left {α β γ : Type} (f : α → β → Option γ) (as : List α) (bs cs : List β) (h : bs.length = as.length) :
    zipCollect f as (bs ++ cs) = zipCollect f as bs := by
  induction as generalizing bs with
  | nil => rfl
  | cons a as ih =>
    cases bs with
    | nil => simp at h
    | cons b bs =>
      simp only [List.cons_append, zipCollect]
      rw [ih bs (by simpa using h)]

theorem collect_append_eq {α : Type} (a b : List (Option α)) :
    collect (a ++ b) = (collect a).bind (fun x => (collect b).map (x ++ ·)) := by
  induction a with
  | nil => simp [collect]
  | cons o os ih =>
    cases o with
    | none => rfl
    | some v =>
      simp only [List.cons_append, collect_cons_some, ih]
      cases collect os with
      | none => rfl
      | some x => cases collect b <;> rfl

theorem cell_eq_cellV (O : Oracles) (q : AggStmt) (key : List Value) (g : List Env) (item : AggItem) :
    cell O q key g item =
      (if isKeyKind item.kind then some Value.null else groupValue O q item.kind g).bind (cellV O q key item) := by
  by_cases hk : ∃ e c, item.kind = .groupKey e c
  · obtain ⟨e, c, hk⟩ := hk
    simp [cell, cellV, hk, isKeyKind]
  · have hk' : ∀ e c, item.kind ≠ .groupKey e c := fun e c he => hk ⟨e, c, he⟩
    rw [cell_nonkey O q key g item hk']
    have : isKeyKind item.kind = false := by
      cases h : item.kind <;> first | rfl | exact absurd h (hk' _ _)
    simp only [this, Bool.false_eq_true, if_false]
    cases groupValue O q item.kind g with
    | none => rfl
    | some v =>
      simp only [Option.bind_some, cellV]
      try (cases h : item.kind <;> first | rfl | exact absurd h (hk' _ _))

/-- **a group's row and HAVING verdict depend on its rows only through its slot values** -/
theorem perGroup_eq_slotValues {O : Oracles} {q : AggStmt} (hwf : StmtWF q) (k : List Value) (g : List Env) :
    perGroup O q (k, g) = (slotValues O q g).bind (perGroupV O q k) := by
  have hrow : row O q k g =
      (collect (q.items.map (fun it => if isKeyKind it.kind then some Value.null else groupValue O q it.kind g))).bind
        (zipCollect (cellV O q k) q.items) := by
    unfold row
    rw [← collect_bind_zip]
    congr 1
    apply List.map_congr_left
    intro item _
    exact cell_eq_cellV O q k g item
  simp only [perGroup, slotValues, collect_append_eq, hrow]
  cases hA : collect (q.items.map (fun it => if isKeyKind it.kind then some Value.null else groupValue O q it.kind g)) with
  | none => rfl
  | some x =>
    have hlen : x.length = q.items.length := by have := collect_length hA; simpa using this
    simp only [Option.bind_some]
    cases hh : q.having with
    | none =>
      have hB : q.havingAggs = [] := hwf.noHaving hh
      simp only [hB, List.map_nil, collect, Option.map_some, List.append_nil, Option.bind_some, perGroupV, accept, hh]
      cases zipCollect (cellV O q k) q.items x <;> rfl
    | some h =>
      have hacc : accept O q k g =
          (collect (q.havingAggs.map (fun p => groupValue O q p.2 g))).bind (fun y =>
            (zipCollect (fun (p : Nat × AggKind) v => some (p.1, v)) q.havingAggs y).bind (fun gvals =>
              (okOf (eval O { groupKeys := keyBindings q k, groupValues := gvals } h)).bind (fun v => okOf (condHolds v)))) := by
        unfold accept
        simp only [hh]
        have : q.havingAggs.map (fun (x : Nat × AggKind) => (groupValue O q x.2 g).map (fun v => (x.1, v))) =
            q.havingAggs.map (fun x => (groupValue O q x.2 g).bind (fun v => some (x.1, v))) := by
          apply List.map_congr_left; intro p _; cases groupValue O q p.2 g <;> rfl
        rw [this, collect_bind_zip]
        cases collect (q.havingAggs.map (fun p => groupValue O q p.2 g)) with
        | none => rfl
        | some y =>
          simp only [Option.bind_some]
          cases zipCollect (fun (p : Nat × AggKind) v => some (p.1, v)) q.havingAggs y <;> rfl
      rw [hacc]
      cases hB : collect (q.havingAggs.map (fun p => groupValue O q p.2 g)) with
      | none =>
        simp only [Option.bind_none, Option.map_none]
        cases zipCollect (cellV O q k) q.items x <;> rfl
      | some y =>
        simp only [Option.bind_some, Option.map_some, perGroupV, hh, zipCollect_append_left _ _ _ _ hlen]
        have hdrop : (x ++ y).drop q.items.length = y := by rw [← hlen]; simp
        rw [hdrop]
        cases zipCollect (cellV O q k) q.items x with
        | none => rfl
        | some r =>
          simp only [Option.bind_some]
          cases zipCollect (fun (p : Nat × AggKind) v => some (p.1, v)) q.havingAggs y with
          | none => rfl
          | some gvals =>
            cases okOf (eval O { groupKeys := keyBindings q k, groupValues := gvals } h) with
            | none => rfl
            | some v => cases okOf (condHolds v) <;> rfl

/-! ### keyed tables of any per-group function, and their key-wise combination -/

def keyedG {γ : Type} (F : List Value → List Env → Option (List γ)) (rows : List (List Value × Env)) :
    Option (List (List Value × List γ)) :=
  collect ((groups rows).map (fun kg => (F kg.1 kg.2).map (fun r => (kg.1, r))))

def lookupG {γ : Type} (T : List (List Value × List γ)) (k : List Value) : Option (List γ) :=
  (T.find? (fun p => sameKey p.1 k)).map (·.2)

/-- the groups are the union; a group present in both parts combines (`comb`), a group present in one part is kept -/
def mergeG {γ : Type} (comb : List γ → List γ → List γ) (T1 T2 : List (List Value × List γ)) : List (List Value × List γ) :=
  (distinctKeys (T1.map (·.1) ++ T2.map (·.1))).map (fun k =>
    (k, match lookupG T1 k, lookupG T2 k with
      | some a, some b => comb a b
      | some a, none => a
      | none, some b => b
      | none, none => []))

/-- what a keyed table says about a key -/
theorem keyedG_lookup {γ : Type} {F : List Value → List Env → Option (List γ)} {rows : List (List Value × Env)} {T : List (List Value × List γ)}
    (h : keyedG F rows = some T) (_hex : KeysExact (rows.map (·.1))) :
    T.map (·.1) = distinctKeys (rows.map (·.1)) ∧
    (∀ k ∈ distinctKeys (rows.map (·.1)), lookupG T k = F k (rowsOfKey k rows) ∧ (lookupG T k).isSome) ∧
    (∀ k, k ∉ distinctKeys (rows.map (·.1)) → (∀ k' ∈ rows.map (·.1), cmpList k' k ≠ .eq) → lookupG T k = none) := by
  unfold keyedG at h
  obtain ⟨hkeys, hmem⟩ := collect_map_keys (f := fun (kg : List Value × List Env) => F kg.1 kg.2)
    (g := fun (kg : List Value × List Env) => kg.1) h
  have hk : T.map (·.1) = distinctKeys (rows.map (·.1)) := by
    rw [hkeys]
    simp only [groups, List.map_map]
    exact List.map_id _
  have hsorted : (T.map (·.1)).Pairwise KeyLt := by rw [hk]; exact distinctKeys_sorted _
  -- in a table with strictly ascending keys, the entry of a key is found by lookup
  have hfind : ∀ (T : List (List Value × List γ)), (T.map (·.1)).Pairwise KeyLt → ∀ k r, (k, r) ∈ T → lookupG T k = some r := by
    intro T
    induction T with
    | nil => intro _ k r hm; simp at hm
    | cons p T ih =>
      intro hs k r hm
      simp only [List.map_cons, List.pairwise_cons] at hs
      rcases List.mem_cons.mp hm with hm | hm
      · subst hm; simp [lookupG, List.find?, sameKey, cmpList_refl]
      · have hlt : cmpList p.1 k = .lt := hs.1 k (List.mem_map.mpr ⟨(k, r), hm, rfl⟩)
        have := ih hs.2 k r hm
        simp only [lookupG, List.find?, sameKey, hlt] at this ⊢
        simpa using this
  refine ⟨hk, ?_, ?_⟩
  · intro k hkm
    have hg : (k, rowsOfKey k rows) ∈ groups rows := List.mem_map.mpr ⟨k, hkm, rfl⟩
    obtain ⟨y, hy, hym⟩ := hmem _ hg
    simp only at hy hym
    rw [hfind T hsorted k y hym, hy]; simp
  · intro k _ hno
    unfold lookupG
    have : T.find? (fun p => sameKey p.1 k) = none := by
      apply List.find?_eq_none.mpr
      intro p hp
      have hp1 : p.1 ∈ rows.map (·.1) := distinctKeys_sub _ _ (by rw [← hk]; exact List.mem_map.mpr ⟨p, hp, rfl⟩)
      simp [sameKey, hno p.1 hp1]
    rw [this]; rfl

/-- the keyed table (any per-group function `F`) over a concatenation is the key-wise combination of the keyed tables over
the parts, when `F` over a concatenated group is `comb` of `F` over its parts -/
theorem keyedG_concat {γ : Type} {F : List Value → List Env → Option (List γ)} {comb : List γ → List γ → List γ} (r1 r2 : List (List Value × Env))
    (hex : KeysExact ((r1 ++ r2).map (·.1))) {T T1 T2 : List (List Value × List γ)}
    (hT : keyedG F (r1 ++ r2) = some T) (hT1 : keyedG F r1 = some T1) (hT2 : keyedG F r2 = some T2)
    (hmerge : ∀ k a b r, F k (rowsOfKey k r1) = some a → F k (rowsOfKey k r2) = some b →
      F k (rowsOfKey k r1 ++ rowsOfKey k r2) = some r → r = comb a b) :
    T = mergeG comb T1 T2 := by
  have hex1 : KeysExact (r1.map (·.1)) := fun a ha b hb => hex a (by simp [List.map_append]; exact Or.inl (by simpa using ha)) b
    (by simp [List.map_append]; exact Or.inl (by simpa using hb))
  have hex2 : KeysExact (r2.map (·.1)) := fun a ha b hb => hex a (by simp [List.map_append]; exact Or.inr (by simpa using ha)) b
    (by simp [List.map_append]; exact Or.inr (by simpa using hb))
  obtain ⟨hk1, hl1, hn1⟩ := keyedG_lookup hT1 hex1
  obtain ⟨hk2, hl2, hn2⟩ := keyedG_lookup hT2 hex2
  obtain ⟨_, hl, _⟩ := keyedG_lookup hT hex
  have hTeq := collect_map_eq (f := fun (kg : List Value × List Env) => F kg.1 kg.2)
    (g := fun (kg : List Value × List Env) => kg.1) hT
  -- the key list of the combination
  have hkeys : distinctKeys (T1.map (·.1) ++ T2.map (·.1)) = distinctKeys ((r1 ++ r2).map (·.1)) := by
    rw [hk1, hk2]
    have hexu : KeysExact (distinctKeys (r1.map (·.1)) ++ distinctKeys (r2.map (·.1))) := by
      intro a ha b hb hab
      have ha' : a ∈ (r1 ++ r2).map (·.1) := by
        rw [List.map_append, List.mem_append]
        rcases List.mem_append.mp ha with h | h
        · exact Or.inl (distinctKeys_sub _ _ h)
        · exact Or.inr (distinctKeys_sub _ _ h)
      have hb' : b ∈ (r1 ++ r2).map (·.1) := by
        rw [List.map_append, List.mem_append]
        rcases List.mem_append.mp hb with h | h
        · exact Or.inl (distinctKeys_sub _ _ h)
        · exact Or.inr (distinctKeys_sub _ _ h)
      exact hex a ha' b hb' hab
    apply sorted_ext (distinctKeys_sorted _) (distinctKeys_sorted _)
    intro x
    rw [distinctKeys_mem_iff hexu, distinctKeys_mem_iff hex, List.mem_append, List.map_append, List.mem_append,
      distinctKeys_mem_iff hex1, distinctKeys_mem_iff hex2]
  rw [hTeq]
  unfold mergeG
  rw [hkeys]
  simp only [groups, List.map_map]
  apply List.map_congr_left
  intro k hk
  simp only [Function.comp]
  congr 1
  -- the row of group k over the whole, against the parts
  obtain ⟨hrow, _⟩ := hl k hk
  have hkmem : k ∈ (r1 ++ r2).map (·.1) := distinctKeys_sub _ _ hk
  rw [rowsOfKey_append] at hrow ⊢
  by_cases h1 : k ∈ distinctKeys (r1.map (·.1))
  · obtain ⟨hr1, hs1⟩ := hl1 k h1
    by_cases h2 : k ∈ distinctKeys (r2.map (·.1))
    · obtain ⟨hr2, hs2⟩ := hl2 k h2
      cases ha : F k (rowsOfKey k r1) with
      | none => rw [hr1, ha] at hs1; simp at hs1
      | some a =>
        cases hb : F k (rowsOfKey k r2) with
        | none => rw [hr2, hb] at hs2; simp at hs2
        | some b =>
          cases hr : F k (rowsOfKey k r1 ++ rowsOfKey k r2) with
          | none =>
            rw [hr] at hrow
            have := (hl k hk).2
            rw [hrow] at this; simp at this
          | some r =>
            rw [hr1, hr2, ha, hb]
            simp only [Option.getD_some]
            exact hmerge k a b r ha hb hr
    · -- only in the first part
      have habs : ∀ k' ∈ r2.map (·.1), cmpList k' k ≠ .eq := by
        intro k' hk' he
        have : k' = k := hex k' (by rw [List.map_append, List.mem_append]; exact Or.inr hk') k hkmem he
        subst this
        exact h2 ((distinctKeys_mem_iff hex2 k').mpr hk')
      rw [rowsOfKey_nil_of_absent habs, List.append_nil, hn2 k h2 habs, hr1]
      cases ha : F k (rowsOfKey k r1) with
      | none => rw [hr1, ha] at hs1; simp at hs1
      | some a => rfl
  · have habs1 : ∀ k' ∈ r1.map (·.1), cmpList k' k ≠ .eq := by
      intro k' hk' he
      have : k' = k := hex k' (by rw [List.map_append, List.mem_append]; exact Or.inl hk') k hkmem he
      subst this
      exact h1 ((distinctKeys_mem_iff hex1 k').mpr hk')
    have h2 : k ∈ distinctKeys (r2.map (·.1)) := by
      rw [List.map_append, List.mem_append] at hkmem
      rcases hkmem with h | h
      · exact absurd ((distinctKeys_mem_iff hex1 k).mpr h) h1
      · exact (distinctKeys_mem_iff hex2 k).mpr h
    obtain ⟨hr2, hs2⟩ := hl2 k h2
    rw [rowsOfKey_nil_of_absent habs1, List.nil_append, hn1 k h1 habs1, hr2]
    cases hb : F k (rowsOfKey k r2) with
    | none => rw [hr2, hb] at hs2; simp at hs2
    | some b => rfl


/-! ### summary rows -/

/-- the aggregate slots of a statement: (is a select-list slot, kind) -/
def slotList (q : AggStmt) : List (Bool × AggKind) :=
  q.items.map (fun it => (true, it.kind)) ++ q.havingAggs.map (fun p => (false, p.2))

theorem slotValues_eq (O : Oracles) (q : AggStmt) (g : List Env) :
    slotValues O q g = collect ((slotList q).map (fun s => if s.1 && isKeyKind s.2 then some Value.null else groupValue O q s.2 g)) := by
  simp only [slotValues, slotList, List.map_append, List.map_map]
  congr 2

def slotSummary (O : Oracles) (q : AggStmt) (g : List Env) (s : Bool × AggKind) : Option Summary :=
  if s.1 && isKeyKind s.2 then some .key else (arguments O q s.2 g).bind (summarize s.2)

def finishSlot (s : Bool × AggKind) (x : Summary) : Option Value :=
  if s.1 && isKeyKind s.2 then some .null else finishSummary s.2 x

/-- what a part remembers of one group: one summary per aggregate slot -/
def summaryRow (O : Oracles) (q : AggStmt) (_key : List Value) (g : List Env) : Option (List Summary) :=
  collect ((slotList q).map (slotSummary O q g))

/-- the slot values from the summaries -/
def finishRow (q : AggStmt) (ss : List Summary) : Option (List Value) := zipCollect finishSlot (slotList q) ss

theorem slotList_kinds {q : AggStmt} {s : Bool × AggKind} (h : s ∈ slotList q) : s.2 ∈ slotKinds q := by
  simp only [slotList, List.mem_append, List.mem_map] at h
  simp only [slotKinds, List.mem_append, List.mem_map]
  rcases h with ⟨it, hit, he⟩ | ⟨p, hp, he⟩
  · exact Or.inl ⟨it, hit, by rw [← he]⟩
  · exact Or.inr ⟨p, hp, by rw [← he]⟩

/-- **the slot values of a group are its summaries, finished** -/
theorem slotValues_eq_finish {O : Oracles} {q : AggStmt} (hOI : ∀ kind ∈ slotKinds q, orderInsensitive kind = true)
    (key : List Value) (g : List Env) : slotValues O q g = (summaryRow O q key g).bind (finishRow q) := by
  rw [slotValues_eq]
  unfold summaryRow finishRow
  rw [← collect_bind_zip]
  congr 1
  apply List.map_congr_left
  intro s hs
  unfold slotSummary finishSlot
  by_cases hk : (s.1 && isKeyKind s.2) = true
  · simp [hk]
  · simp only [hk, Bool.false_eq_true, if_false]
    unfold groupValue
    cases arguments O q s.2 g with
    | none => rfl
    | some vs => simp only [Option.bind_some]; exact aggregate_eq_finish s.2 (hOI _ (slotList_kinds hs)) vs

/-- combination of two summary rows, slot by slot -/
def combineS : List (Bool × AggKind) → List Summary → List Summary → List Summary
  | s :: sl, x :: xs, y :: ys => combine s.2 x y :: combineS sl xs ys
  | _, _, _ => []

/-- the property's provisos for one group split into two parts -/
def SplitSafe (O : Oracles) (q : AggStmt) (g1 g2 : List Env) : Prop :=
  ∀ kind ∈ slotKinds q, ∀ v1 v2, arguments O q kind g1 = some v1 → arguments O q kind g2 = some v2 →
    (usesSums kind = true → SplitExact (nonNull v1) (nonNull v2)) ∧
    ((∃ e p, kind = .percentile e p) → ValuesExact (nonNull (v1 ++ v2)))

theorem summaryRow_append {O : Oracles} {q : AggStmt} (key : List Value) (g1 g2 : List Env) (hsafe : SplitSafe O q g1 g2)
    {a b r : List Summary} (h1 : summaryRow O q key g1 = some a) (h2 : summaryRow O q key g2 = some b)
    (h : summaryRow O q key (g1 ++ g2) = some r) : r = combineS (slotList q) a b := by
  unfold summaryRow at h h1 h2
  have hk : ∀ s ∈ slotList q, s.2 ∈ slotKinds q := fun s hs => slotList_kinds hs
  generalize slotList q = sl at h h1 h2 hk
  induction sl generalizing a b r with
  | nil => simp [collect] at h; subst h; rfl
  | cons s rest ih =>
    simp only [List.map_cons] at h h1 h2
    cases hs1 : slotSummary O q g1 s with
    | none => simp [hs1, collect] at h1
    | some x =>
      cases hs2 : slotSummary O q g2 s with
      | none => simp [hs2, collect] at h2
      | some y =>
        cases hs : slotSummary O q (g1 ++ g2) s with
        | none => simp [hs, collect] at h
        | some z =>
          rw [hs1] at h1; rw [hs2] at h2; rw [hs] at h
          obtain ⟨a', ha', ha⟩ := collect_eq_some_cons h1
          obtain ⟨b', hb', hb⟩ := collect_eq_some_cons h2
          obtain ⟨r', hr', hr⟩ := collect_eq_some_cons h
          subst ha; subst hb; subst hr
          simp only [combineS]
          rw [ih hr' ha' hb' (fun s' hs' => hk s' (by simp [hs']))]
          congr 1
          -- one slot
          unfold slotSummary at hs hs1 hs2
          by_cases hkey : (s.1 && isKeyKind s.2) = true
          · simp only [hkey, if_true, Option.some.injEq] at hs hs1 hs2
            rw [← hs, ← hs1]; rfl
          · simp only [hkey, Bool.false_eq_true, if_false] at hs hs1 hs2
            cases ha1 : arguments O q s.2 g1 with
            | none => simp [ha1] at hs1
            | some v1 =>
              cases ha2 : arguments O q s.2 g2 with
              | none => simp [ha2] at hs2
              | some v2 =>
                rw [arguments_append ha1 ha2] at hs
                simp only [ha1, ha2, Option.bind_some] at hs hs1 hs2
                obtain ⟨hp1, hp2⟩ := hsafe s.2 (hk s (by simp)) v1 v2 ha1 ha2
                exact summarize_append s.2 v1 v2 hs hs1 hs2 hp1 hp2

/-! ### the table from keyed summaries -/

/-- the table a list of keyed summary rows stands for: finishSummary every slot, then rows, HAVING, DISTINCT, LIMIT -/
def tableOfSummaries (O : Oracles) (q : AggStmt) (S : List (List Value × List Summary)) : Option (List (List Value)) :=
  match collect (S.map (fun ks => ((finishRow q ks.2).bind (perGroupV O q ks.1)))) with
  | none => none
  | some all =>
    some (match q.limit with
      | some n => (if q.distinct then firstRows (keptRows all) else keptRows all).take n
      | none => if q.distinct then firstRows (keptRows all) else keptRows all)

/-- the keyed summaries of the admitted rows: per group (ascending keys), one summary per aggregate slot -/
def keyedSummaries (O : Oracles) (q : AggStmt) (rows : List (List Value × Env)) : Option (List (List Value × List Summary)) :=
  keyedG (summaryRow O q) rows

/-- **the result table is a function of the keyed summaries** -/
theorem tableOfGroups_eq_summaries {O : Oracles} {q : AggStmt} (hwf : StmtWF q)
    (hOI : ∀ kind ∈ slotKinds q, orderInsensitive kind = true) (rows : List (List Value × Env)) :
    tableOfGroups O q (groups rows) = (keyedSummaries O q rows).bind (tableOfSummaries O q) := by
  rw [tableOfGroups_eq]
  unfold keyedSummaries keyedG
  have hper : ∀ kg : List Value × List Env, perGroup O q kg =
      ((summaryRow O q kg.1 kg.2).map (fun r => (kg.1, r))).bind (fun ks => (finishRow q ks.2).bind (perGroupV O q ks.1)) := by
    intro kg
    obtain ⟨k, g⟩ := kg
    rw [perGroup_eq_slotValues hwf, slotValues_eq_finish hOI k g]
    cases summaryRow O q k g <;> rfl
  have hmap : (groups rows).map (perGroup O q) = (groups rows).map (fun kg =>
      ((summaryRow O q kg.1 kg.2).map (fun r => (kg.1, r))).bind (fun ks => (finishRow q ks.2).bind (perGroupV O q ks.1))) :=
    List.map_congr_left (fun kg _ => hper kg)
  rw [hmap]
  -- two-stage collect
  have h2 := collect_bind_zip (groups rows) (fun kg => (summaryRow O q kg.1 kg.2).map (fun r => (kg.1, r)))
    (fun _ ks => (finishRow q ks.2).bind (perGroupV O q ks.1))
  rw [h2]
  cases hc : collect ((groups rows).map (fun kg => (summaryRow O q kg.1 kg.2).map (fun r => (kg.1, r)))) with
  | none => rfl
  | some S =>
    simp only [Option.bind_some, tableOfSummaries]
    -- zipCollect with a function that ignores its first argument is a collect over the second list
    have hz : ∀ (l : List (List Value × List Env)) (S : List (List Value × List Summary)), l.length = S.length →
        zipCollect (fun (_ : List Value × List Env) ks => (finishRow q ks.2).bind (perGroupV O q ks.1)) l S =
          collect (S.map (fun ks => (finishRow q ks.2).bind (perGroupV O q ks.1))) := by
      intro l
      induction l with
      | nil => intro S h; cases S with
        | nil => rfl
        | cons _ _ => simp at h
      | cons x xs ih =>
        intro S h
        cases S with
        | nil => simp at h
        | cons y ys =>
          simp only [zipCollect, List.map_cons, ih ys (by simpa using h)]
          cases (finishRow q y.2).bind (perGroupV O q y.1) with
          | none => rfl
          | some v =>
            simp only [collect_cons_some]
            cases collect (ys.map (fun ks => (finishRow q ks.2).bind (perGroupV O q ks.1))) <;> rfl
    rw [hz _ _ (by have := collect_length hc; simpa using this.symm)]
    rfl

theorem summaries_of_table {O : Oracles} {q : AggStmt} (hwf : StmtWF q)
    (hOI : ∀ kind ∈ slotKinds q, orderInsensitive kind = true) {envs : List Env} {t : List (List Value)}
    (h : table O q envs = some t) :
    ∃ rows S, keyedRows O q envs = some rows ∧ KeysExact (rows.map (·.1)) ∧ keyedSummaries O q rows = some S ∧
      tableOfSummaries O q S = some t := by
  cases hr : keyedRows O q envs with
  | none => simp [table, hr] at h
  | some rows =>
    obtain ⟨htab, hex⟩ := table_of_keyed hr h
    rw [tableOfGroups_eq_summaries hwf hOI] at htab
    cases hS : keyedSummaries O q rows with
    | none => rw [hS] at htab; simp at htab
    | some S => rw [hS] at htab; exact ⟨rows, S, rfl, hex, hS, htab⟩

/-- **`agg_concat_merge` for all order-insensitive aggregates.** For every statement whose aggregates are COUNT(*),
COUNT(c), COUNT(DISTINCT c), SUM, AVG, STDDEV, VARIANCE, MIN, MAX, PERCENTILE, BOOL_AND, BOOL_OR (any GROUP BY, WHERE,
HAVING incl. hidden aggregates, arithmetic wrappers, DISTINCT, LIMIT) and every two inputs: the tables over `r₁`, over
`r₂` and over `r₁ ++ r₂` are `tableOfSummaries` of keyed summaries `S₁`, `S₂` and of their key-wise combination
`mergeG (combineS …) S₁ S₂` — the groups are the union; in a group present in both parts counts add, distinct-value
sets unite, sums and sums of squares add (AVG, STDDEV, VARIANCE through their (sum, sum of squares, count) components),
minima and maxima combine, conjunctions and disjunctions combine, PERCENTILE's sorted multisets merge. -/
theorem table_concat_merge_all {O : Oracles} {q : AggStmt} (hwf : StmtWF q)
    (hOI : ∀ kind ∈ slotKinds q, orderInsensitive kind = true) (r₁ r₂ : List Env) {t t₁ t₂ : List (List Value)}
    (h : table O q (r₁ ++ r₂) = some t) (h₁ : table O q r₁ = some t₁) (h₂ : table O q r₂ = some t₂)
    (hsafe : ∀ k₁ k₂, keyedRows O q r₁ = some k₁ → keyedRows O q r₂ = some k₂ →
      ∀ k, SplitSafe O q (rowsOfKey k k₁) (rowsOfKey k k₂)) :
    ∃ S₁ S₂, tableOfSummaries O q S₁ = some t₁ ∧ tableOfSummaries O q S₂ = some t₂ ∧
      tableOfSummaries O q (mergeG (combineS (slotList q)) S₁ S₂) = some t := by
  obtain ⟨k, S, hk, hex, hS, ht⟩ := summaries_of_table hwf hOI h
  obtain ⟨k₁, S₁, hk₁, _, hS₁, ht₁⟩ := summaries_of_table hwf hOI h₁
  obtain ⟨k₂, S₂, hk₂, _, hS₂, ht₂⟩ := summaries_of_table hwf hOI h₂
  have := keyedRows_append O q r₁ r₂ hk₁ hk₂
  rw [hk] at this
  simp only [Option.some.injEq] at this
  subst this
  refine ⟨S₁, S₂, ht₁, ht₂, ?_⟩
  have hm : S = mergeG (combineS (slotList q)) S₁ S₂ :=
    keyedG_concat k₁ k₂ hex hS hS₁ hS₂ (fun key a b r ha hb hr =>
      summaryRow_append key _ _ (hsafe k₁ k₂ hk₁ hk₂ key) ha hb hr)
  rw [← hm]; exact ht
end Sqlgrep
