import SqlgrepModel.Model.Lower
import SqlgrepModel.Model.ParseStmt
/-
An aggregate statement that comes from a text has at least one select-list item (third review, M6).

`AggregateExecutionEngine::execute_result` reads `result_rows_by_column[0].len()`
(/repo/src/execution/aggregate_execution.rs:276) — an index into the vector of result columns, one per select-list item
of the aggregate statement. It is in range iff the statement has at least one item. The engine model (`Model/Engine.lean`
`aggResult`) has no panic site there; this file shows why none is needed for statements that come from a text:

* the parser's projection loop runs at least once before it can succeed (`projLoop_nonempty`), so the tree of a parsed
  SELECT has at least one projection (`parseTokensFuel_projections`);
* `create_aggregate_statement` makes exactly one item per projection (`lowerItems_length`, `lowerAggregateStmt_items`);
* hence `lowered_aggregate_has_items`: whatever token vector is parsed and lowered, an aggregate statement that results
  has `items ≠ []`.
(The API would let a caller build an `AggregateStatement` with no aggregates by hand; that is outside "accepted statements".)
-/
namespace Sqlgrep
open Parse Lower

/-! ### lowering: one item per projection -/

theorem lowerItems_length : ∀ (ps : List (Option (List Char) × PExpr)) (i : Nat) (items : List AggItem),
    lowerItems ps i = .ok items → items.length = ps.length := by
  intro ps
  induction ps with
  | nil => intro i items h; rw [lowerItems] at h; cases h; rfl
  | cons p rest ih =>
    intro i items h
    obtain ⟨name, tree⟩ := p
    rw [lowerItems] at h
    split at h
    · split at h
      · rename_i its hr
        cases h
        simp only [List.length_cons, ih _ _ hr]
      · cases h
      · cases h
    · cases h
    · cases h

theorem lowerAggregateStmt_items (q : PSelect) (a : AggStmt) (t : String) (f : Option String) (j : Option LJoin)
    (h : lowerAggregateStmt q = .ok (.aggregate a t f j)) : a.items.length = q.projections.length := by
  unfold lowerAggregateStmt at h
  cases hi : lowerItems q.projections 0 with
  | ok items =>
    rw [hi] at h
    dsimp only at h
    repeat' (first | cases h | split at h)
    exact lowerItems_length _ _ _ hi
  | err e => rw [hi] at h; cases h
  | panic s => rw [hi] at h; cases h

theorem lowerSelect_not_aggregate (q : PSelect) (a : AggStmt) (t : String) (f : Option String) (j : Option LJoin) :
    lowerSelect q ≠ .ok (.aggregate a t f j) := by
  intro h
  unfold lowerSelect at h
  repeat' (first | cases h | split at h)

/-! ### parsing: a SELECT has at least one projection -/

theorem projLoop_nonempty (T : PrecTables) : ∀ (fuel : Nat) (acc : List (Option (List Char) × PExpr)) (s s' : PSt)
    (r : List (Option (List Char) × PExpr)), projLoop T fuel acc s = .ok r s' → r ≠ [] := by
  intro fuel
  induction fuel with
  | zero => intro acc s s' r h; rw [projLoop] at h; cases h
  | succ n ih =>
    intro acc s s' r h
    rw [projLoop] at h
    repeat' (first | cases h | split at h | (dsimp only at h))
    · exact ih _ _ _ _ h
    · simp

/-- the tree of a SELECT has at least one projection; other trees say nothing -/
def POp.ProjOk : POp → Prop
  | .select q => q.projections ≠ []
  | _ => True

theorem parseSelect_projOk (T : PrecTables) (fuel : Nat) (s s' : PSt) (op : POp)
    (h : parseSelect T fuel s = .ok op s') : POp.ProjOk op := by
  unfold parseSelect at h
  repeat' (first | cases h | split at h | (dsimp only at h))
  exact projLoop_nonempty T _ _ _ _ _ (by assumption)

theorem opOfCreates_projOk (l : List PCreate) : POp.ProjOk (opOfCreates l) := by
  unfold opOfCreates
  split <;> exact True.intro

theorem multiCreateLoop_projOk (T : PrecTables) : ∀ (fuel : Nat) (acc : List PCreate) (s s' : PSt) (op : POp),
    multiCreateLoop T fuel acc s = .ok op s' → POp.ProjOk op := by
  intro fuel
  induction fuel with
  | zero => intro acc s s' op h; rw [multiCreateLoop] at h; cases h
  | succ n ih =>
    intro acc s s' op h
    rw [multiCreateLoop] at h
    repeat' (first | cases h | split at h | (dsimp only at h))
    · exact opOfCreates_projOk _
    · exact ih _ _ _ _ h

theorem parseTokensFuel_projections (T : PrecTables) (fuel : Nat) (toks : List PTok) (op : POp)
    (h : parseTokensFuel T fuel toks = .tree op) : POp.ProjOk op := by
  unfold parseTokensFuel at h
  split at h
  · cases h
  · split at h
    · rename_i op' s' hp
      cases h
      unfold parseOp at hp
      split at hp
      · cases hp
      · split at hp
        · cases hp
        · rename_i op2 s2 hst
          have hok : POp.ProjOk op2 := by
            unfold parseStatement at hst
            split at hst
            · exact parseSelect_projOk T _ _ _ _ hst
            · exact multiCreateLoop_projOk T _ _ _ _ _ hst
          repeat' (first | cases hp | split at hp | (dsimp only at hp))
          exact hok
        · repeat' (first | cases hp | split at hp | (dsimp only at hp))
    · cases h
    · cases h

/-! ### together -/

/-- **an aggregate statement that comes from a text has at least one item**: whatever tokens are parsed (any fuel) and
whatever the lowering answers, if the result is an aggregate statement then `items ≠ []` — so
`result_rows_by_column[0]` of `execute_result` is in range -/
theorem lowered_aggregate_has_items (T : PrecTables) (fuel : Nat) (toks : List PTok) (op : POp)
    (rv : List Char → Bool) (a : AggStmt) (t : String) (f : Option String) (j : Option LJoin)
    (hp : parseTokensFuel T fuel toks = .tree op) (hl : lowerStatement rv op = .ok (.aggregate a t f j)) :
    a.items ≠ [] := by
  have hok := parseTokensFuel_projections T fuel toks op hp
  cases op with
  | select q =>
    have hne : q.projections ≠ [] := hok
    have hagg : lowerAggregateStmt q = .ok (.aggregate a t f j) := by
      simp only [lowerStatement] at hl
      by_cases h1 : q.groupBy.isSome = true
      · rw [if_pos h1] at hl; exact hl
      · rw [if_neg h1] at hl
        by_cases h2 : anyAggregates q.projections = true
        · rw [if_pos h2] at hl; exact hl
        · rw [if_neg h2] at hl
          by_cases h3 : q.having.isSome = true
          · rw [if_pos h3] at hl; cases hl
          · rw [if_neg h3] at hl; exact absurd hl (lowerSelect_not_aggregate q a t f j)
    have hlen := lowerAggregateStmt_items q a t f j hagg
    intro he
    rw [he] at hlen
    exact hne (List.length_eq_zero_iff.1 hlen.symm)
  | createTable c =>
    simp only [lowerStatement, lowerCreate] at hl
    repeat' (first | cases hl | split at hl)
  | multiple cs =>
    simp only [lowerStatement] at hl
    repeat' (first | cases hl | split at hl)

end Sqlgrep
