/- UTF-8: TEXT values are byte lists (Rust `String` order is byte order); tokens work on characters. -/
namespace Sqlgrep
namespace Utf8

/-- UTF-8 encoding of one scalar value (as `char::encode_utf8`) -/
def encodeChar (c : Char) : List Nat :=
  let n := c.toNat
  if n < 0x80 then [n]
  else if n < 0x800 then [0xC0 + n / 64, 0x80 + n % 64]
  else if n < 0x10000 then [0xE0 + n / 4096, 0x80 + n / 64 % 64, 0x80 + n % 64]
  else [0xF0 + n / 262144, 0x80 + n / 4096 % 64, 0x80 + n / 64 % 64, 0x80 + n % 64]

def encode (cs : List Char) : List Nat := cs.flatMap encodeChar

def isCont (b : Nat) : Bool := 0x80 ≤ b && b < 0xC0

/-- decode valid UTF-8 (as produced by `encode`); `none` on malformed input. Overlong forms, surrogates and
values above U+10FFFF are rejected like `std::str::from_utf8`. -/
def decode : List Nat → Option (List Char)
  | [] => some []
  | b0 :: rest =>
    if b0 < 0x80 then (decode rest).map (Char.ofNat b0 :: ·)
    else if b0 < 0xC2 then none
    else if b0 < 0xE0 then
      match rest with
      | b1 :: rest' =>
        if isCont b1 then (decode rest').map (Char.ofNat ((b0 - 0xC0) * 64 + (b1 - 0x80)) :: ·) else none
      | _ => none
    else if b0 < 0xF0 then
      match rest with
      | b1 :: b2 :: rest' =>
        let n := (b0 - 0xE0) * 4096 + (b1 - 0x80) * 64 + (b2 - 0x80)
        if isCont b1 && isCont b2 && 0x800 ≤ n && !(0xD800 ≤ n && n < 0xE000) then
          (decode rest').map (Char.ofNat n :: ·) else none
      | _ => none
    else if b0 < 0xF5 then
      match rest with
      | b1 :: b2 :: b3 :: rest' =>
        let n := (b0 - 0xF0) * 262144 + (b1 - 0x80) * 4096 + (b2 - 0x80) * 64 + (b3 - 0x80)
        if isCont b1 && isCont b2 && isCont b3 && 0x10000 ≤ n && n < 0x110000 then
          (decode rest').map (Char.ofNat n :: ·) else none
      | _ => none
    else none

/-- number of characters of a UTF-8 byte string (`str::chars().count()`): non-continuation bytes -/
def charCount (bs : List Nat) : Nat := (bs.filter (fun b => !isCont b)).length

end Utf8
end Sqlgrep
