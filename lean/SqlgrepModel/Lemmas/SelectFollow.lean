import SqlgrepModel.Lemmas.NoiseFollow
/-
Follow mode for non-aggregate statements: what the `FollowFileExecutor` loop prints from the engine's
line-at-a-time answers is what the batch loop prints over the same lines. (The two loops differ only in where
they look at the `reached_limit` flag: the follow loop only next to a result; for a non-aggregate statement below
its limit the flag never comes without a result.)
-/
namespace Sqlgrep
open Sqlgrep.Spec.Select

/-- a non-aggregate step without a result does not move the LIMIT counter -/
theorem executeLine_select_noresult (O : Oracles) (qy : Query) (q : SelectStmt) (hq : qy.stmt = .select q)
    (idx : JoinIndex) (w : Bool) (es es1 : EngineState) (l : Line) (lo : LineOut)
    (hx : executeLine O qy idx w es l = .ok (es1, lo)) (hr : lo.result = none) : es1.numOut = es.numOut := by
  rw [executeLine_select O qy q hq] at hx
  cases hl : lineRows O qy q idx l with
  | ok rs =>
    rw [hl] at hx
    simp only [Outcome.bind, Outcome.ok.injEq] at hx
    generalize keepRows q.distinct es.seen rs = kept at hx
    cases kept with
    | nil =>
      have : (es1, lo) = updateLimit true q.limit { es with seen := seenAfter q.distinct es.seen [] } (tableOf (columnsOf qy q) []) := hx.symm
      cases hlim : q.limit <;> rw [hlim] at this <;> simp [updateLimit, tableOf, appendRows] at this <;> rw [this.1]
    | cons x xs =>
      exfalso
      have : lo = (updateLimit true q.limit { es with seen := seenAfter q.distinct es.seen (x :: xs) }
          (tableOf (columnsOf qy q) (x :: xs))).2 := by rw [hx]
      rw [this] at hr
      cases hlim : q.limit <;> rw [hlim] at hr <;> simp [updateLimit, tableOf, appendRows] at hr
  | error k => rw [hl] at hx; cases hx
  | panic s => rw [hl] at hx; cases hx
  | oracleMissing s => rw [hl] at hx; cases hx

/-- **follow = batch for non-aggregate statements**: over readable lines, starting below the limit, the batch
loop prints what the follow loop prints from the engine's answers for the same lines (also when a line fails:
both have printed the answers before it) -/
theorem runFile_printed_eq_followPrinted (O : Oracles) (qy : Query) (q : SelectStmt) (hq : qy.stmt = .select q)
    (idx : JoinIndex) (fls : List FileLine) (hr : ∀ fl ∈ fls, fl.readable = true) (ls : LoopState)
    (h0 : reachedLimit qy ls.es = false) :
    (runFile O qy idx true none fls ls).out.printed =
      ls.out.printed ++ followPrinted false (feedLines O qy idx true (fls.map (·.line)) ls.es).1 := by
  induction fls generalizing ls with
  | nil => simp [runFile, feedLines, followPrinted]
  | cons fl rest ih =>
    have hrl : fl.readable = true := hr fl (List.mem_cons_self ..)
    have hrest : ∀ x ∈ rest, x.readable = true := fun x hx => hr x (List.mem_cons_of_mem _ hx)
    have hn : ((none : Option Nat) == some ls.consumed) = false := rfl
    cases hx : executeLine O qy idx true ls.es fl.line with
    | ok p =>
      obtain ⟨es1, lo⟩ := p
      rw [runFile_cons_ok O qy idx true fl rest ls es1 lo hrl hx]
      simp only [List.map_cons, feedLines, hx]
      have hflag := executeLine_select_reached O qy q hq idx true ls.es es1 fl.line lo hx
      by_cases hl : lo.reachedLimit = true
      · simp only [hl, if_true, advance]
        cases hres : lo.result with
        | some r => simp [followPrinted, hres, hl, piece]
        | none =>
          exfalso
          have hnum := executeLine_select_noresult O qy q hq idx true ls.es es1 fl.line lo hx hres
          rw [hflag] at hl
          simp only [reachedLimit, hq] at hl h0
          rw [hnum] at hl
          rw [hl] at h0; cases h0
      · simp only [hl, Bool.false_eq_true, if_false]
        have h1 : reachedLimit qy (advance ls es1 lo).es = false := by
          show reachedLimit qy es1 = false
          rw [← hflag]; simpa using hl
        rw [ih hrest _ h1]
        simp only [advance, List.append_assoc]
        cases hres : lo.result with
        | some r => simp [followPrinted, hres, hl, piece]
        | none => simp [followPrinted, hres, piece]
    | error k => simp [runFile, hn, hrl, hx, feedLines, followPrinted, failWith]
    | panic s => simp [runFile, hn, hrl, hx, feedLines, followPrinted, failWith]
    | oracleMissing s => simp [runFile, hn, hrl, hx, feedLines, followPrinted, failWith]

/-- a file whose lines are all readable -/
def readableFile (lines : List Line) : List FileLine := lines.map (fun l => { readable := true, line := l })

end Sqlgrep
