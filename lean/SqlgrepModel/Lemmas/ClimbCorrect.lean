import SqlgrepModel.Lemmas.ClimbSpine
/-
`climb_correct` on the production model: for every well-formed precedence table and every reference expression,
the expression parser run on the minimal-parenthesis printing of the expression followed by a stopping token returns
the expression's tree and stops in front of that token.
-/
namespace Sqlgrep.Spec
open Sqlgrep.Parse

variable {T : PrecTables}

/-! ### levels are inside `[0, dotPrec)` -/

theorem fixed_defined (hT : T.WF) {t : Tok}
    (h : t ∈ [Tok.kw .is, .kw .isNot, .kw .and, .kw .or, .kw .in, .kw .notIn, .lsq, .dcolon]) :
    0 ≤ tokPrec T t ∧ tokPrec T t < dotPrec T := by
  have hd := hT.2.2.2.1 t h
  refine tokPrec_other_range hT ?_ hd
  intro o ho
  simp only [List.mem_cons, List.mem_nil_iff, or_false] at h
  rcases h with h | h | h | h | h | h | h | h <;> rw [h] at ho <;> cases ho

theorem bop_range (hT : T.WF) {o : BOp} (h : ∀ s, o = .sym s → s ≠ .single '.' ∧ (lookupOp T.binary s).isSome) :
    0 ≤ tokPrec T o.tok ∧ tokPrec T o.tok < dotPrec T := by
  cases o with
  | sym s => exact tokPrec_op_range hT (h s rfl).2 (h s rfl).1
  | is => exact fixed_defined hT (by simp [BOp.tok])
  | isNot => exact fixed_defined hT (by simp [BOp.tok])
  | and => exact fixed_defined hT (by simp [BOp.tok])
  | or => exact fixed_defined hT (by simp [BOp.tok])

theorem inTok_range (hT : T.WF) (n : Bool) : 0 ≤ tokPrec T (RExpr.inTok n) ∧ tokPrec T (RExpr.inTok n) < dotPrec T := by
  cases n <;> exact fixed_defined hT (by simp [RExpr.inTok])

theorem bop_defined {o : BOp} (h : ∀ s, o = .sym s → s ≠ .single '.' ∧ (lookupOp T.binary s).isSome) :
    Defined T o.tok := by
  intro s hs
  cases o with
  | sym s' => simp only [BOp.tok, Tok.op.injEq] at hs; subst hs; exact (h _ rfl).2
  | _ => simp [BOp.tok] at hs

theorem level_range (hT : T.WF) {e : RExpr} (he : RExpr.WF T e) {p : Int} (hp : e.level T = some p) :
    0 ≤ p ∧ p < dotPrec T := by
  have h8 := dotPrec_ge8 hT
  cases e with
  | bin o l r =>
    simp only [RExpr.level, Option.some.injEq] at hp; subst hp
    simp only [RExpr.WF] at he; exact bop_range hT he.1
  | not e => simp only [RExpr.level, Option.some.injEq, notLevel] at hp; omega
  | neg e => simp only [RExpr.level, Option.some.injEq, negLevel] at hp; omega
  | index a i => simp only [RExpr.level, Option.some.injEq] at hp; subst hp; exact fixed_defined hT (by simp)
  | cast e t => simp only [RExpr.level, Option.some.injEq] at hp; subst hp; exact fixed_defined hT (by simp)
  | inList n e v vs => simp only [RExpr.level, Option.some.injEq] at hp; subst hp; exact inTok_range hT n
  | lit _ => simp [RExpr.level] at hp
  | col _ _ => simp [RExpr.level] at hp
  | paren _ => simp [RExpr.level] at hp
  | call _ _ => simp [RExpr.level] at hp
  | star => simp [RExpr.level] at hp
  | countDistinct _ _ _ => simp [RExpr.level] at hp
  | array _ _ => simp [RExpr.level] at hp
  | extract _ _ => simp [RExpr.level] at hp
  | tuple _ _ _ => simp [RExpr.level] at hp
  | case _ _ _ _ => simp [RExpr.level] at hp

/-- what `pr` prints for the node itself, parentheses aside (levels are non-negative, so context 0 never demands
parentheses) -/
theorem pr_eq_wrap (hT : T.WF) {e : RExpr} (he : RExpr.WF T e) (c : Int) :
    e.pr T c = RExpr.wrap (e.needsParen T c) (e.pr T 0) := by
  cases e with
  | bin o l r =>
    have := (level_range hT he (p := tokPrec T o.tok) rfl).1
    have h0 : ¬ tokPrec T o.tok < 0 := by omega
    rw [RExpr.pr, RExpr.pr]
    simp only [h0, decide_false, RExpr.wrap, Bool.false_eq_true, if_false, RExpr.needsParen, RExpr.level]
  | not e =>
    rw [RExpr.pr, RExpr.pr]
    by_cases h : (3 : Int) < c <;> simp [RExpr.wrap, RExpr.needsParen, RExpr.level, notLevel, h]
  | neg e =>
    rw [RExpr.pr, RExpr.pr]
    by_cases h : (7 : Int) < c <;> simp [RExpr.wrap, RExpr.needsParen, RExpr.level, negLevel, h]
  | index a i =>
    have := (level_range hT he (p := tokPrec T .lsq) rfl).1
    have h0 : ¬ tokPrec T .lsq < 0 := by omega
    rw [RExpr.pr, RExpr.pr]
    simp only [h0, decide_false, RExpr.wrap, Bool.false_eq_true, if_false, RExpr.needsParen, RExpr.level]
  | cast e t =>
    have := (level_range hT he (p := tokPrec T .dcolon) rfl).1
    have h0 : ¬ tokPrec T .dcolon < 0 := by omega
    rw [RExpr.pr, RExpr.pr]
    simp only [h0, decide_false, RExpr.wrap, Bool.false_eq_true, if_false, RExpr.needsParen, RExpr.level]
  | inList n e v vs =>
    have := (level_range hT he (p := tokPrec T (RExpr.inTok n)) rfl).1
    have h0 : ¬ tokPrec T (RExpr.inTok n) < 0 := by omega
    rw [RExpr.pr, RExpr.pr]
    simp only [h0, decide_false, RExpr.wrap, Bool.false_eq_true, if_false, RExpr.needsParen, RExpr.level]
  | lit _ => simp [RExpr.pr, RExpr.wrap, RExpr.needsParen, RExpr.level]
  | col _ _ => simp [RExpr.pr, RExpr.wrap, RExpr.needsParen, RExpr.level]
  | paren _ => simp [RExpr.pr, RExpr.wrap, RExpr.needsParen, RExpr.level]
  | call _ _ => simp [RExpr.pr, RExpr.wrap, RExpr.needsParen, RExpr.level]
  | star => simp [RExpr.pr, RExpr.wrap, RExpr.needsParen, RExpr.level]
  | countDistinct _ _ _ => simp [RExpr.pr, RExpr.wrap, RExpr.needsParen, RExpr.level]
  | array _ _ => simp [RExpr.pr, RExpr.wrap, RExpr.needsParen, RExpr.level]
  | extract _ _ => simp [RExpr.pr, RExpr.wrap, RExpr.needsParen, RExpr.level]
  | tuple _ _ _ => simp [RExpr.pr, RExpr.wrap, RExpr.needsParen, RExpr.level]
  | case _ _ _ _ => simp [RExpr.pr, RExpr.wrap, RExpr.needsParen, RExpr.level]


/-! ### the statements carried through the induction -/

/-- the parser inverts the printer on `e`, at every loop level, in front of every stopping state -/
def OK (T : PrecTables) (e : RExpr) : Prop :=
  ∀ (m : Int) (rest : PSt), m ≤ dotPrec T → rest.cur.loc = default → Stops T m rest →
    PExprAt T m (pushAll (e.pr T m) rest) e.embed rest

def prefixLevel : RExpr → Int
  | .not _ => notLevel
  | .neg _ => negLevel
  | _ => 0

/-- `parse_unary_operator` alone reads an unparenthesised prefix expression when what follows stops its operand loop -/
def OKU (T : PrecTables) (e : RExpr) : Prop :=
  e.isPrefix = true → ∀ (rest : PSt), rest.cur.loc = default → Stops T (prefixLevel e + 1) rest →
    PU T (pushAll (e.pr T 0) rest) e.embed rest

def SpOK (T : PrecTables) : Sp → Prop
  | .bin _ r => OK T r
  | .idx i => OK T i
  | .cast _ => True
  | .inl _ v vs => OK T v ∧ ∀ x ∈ vs, OK T x

theorem Sp.flat_head (T : PrecTables) (q : Sp) : ∃ ts, q.flat T = q.tok :: ts := by
  cases q <;> exact ⟨_, rfl⟩

theorem Sp.tok_ne_lp (q : Sp) : q.tok ≠ .lp := by
  cases q with
  | bin o r => cases o <;> simp [Sp.tok, BOp.tok]
  | idx i => simp [Sp.tok]
  | cast t => simp [Sp.tok]
  | inl n v vs => simp [Sp.tok, RExpr.inTok]

theorem Sp.defined {q : Sp} (h : q.WF T) : Defined T q.tok := by
  cases q with
  | bin o r => exact bop_defined h.1
  | idx i => intro o ho; simp [Sp.tok] at ho
  | cast t => intro o ho; simp [Sp.tok] at ho
  | inl n v vs => intro o ho; simp [Sp.tok, RExpr.inTok] at ho

theorem Sp.lvl_range (hT : T.WF) {q : Sp} (h : q.WF T) : 0 ≤ q.lvl T ∧ q.lvl T < dotPrec T := by
  cases q with
  | bin o r => exact bop_range hT h.1
  | idx i => exact fixed_defined hT (by simp [Sp.tok])
  | cast t => exact fixed_defined hT (by simp [Sp.tok])
  | inl n v vs => exact inTok_range hT n

/-- what follows an operand printed at level `p + 1` inside a spine stops the operand's loop -/
theorem stops_flat {m p : Int} (ps : List Sp) (rest : PSt) (hmp : m ≤ p) (hrest : Stops T m rest)
    (hps : ∀ q ∈ ps, q.lvl T ≤ p) (hwf : ∀ q ∈ ps, q.WF T) : Stops T (p + 1) (pushAll (flat T ps) rest) := by
  cases ps with
  | nil => exact hrest.mono (by omega)
  | cons q qs =>
    obtain ⟨ts, hts⟩ := Sp.flat_head T q
    simp only [flat, hts, List.cons_append, pushAll_cons]
    refine Stops.of_tok ?_ ?_ ?_
    · simpa using q.tok_ne_lp
    · simpa using Sp.defined (hwf q (by simp))
    · have := hps q (by simp); simp only [push_tok]; unfold Sp.lvl at this; omega

theorem flat_loc (ps : List Sp) (rest : PSt) (h : rest.cur.loc = default) :
    (pushAll (flat T ps) rest).cur.loc = default := pushAll_loc _ _ h

/-- `parse_list` on a printed, comma-separated, non-empty list closed by `)` or `]` -/
theorem list_ok (hT : T.WF) (close : Tok) (hcl : close = .rp ∨ close = .rsq) :
    ∀ (vs : List RExpr) (v : RExpr) (acc : List PExpr) (Y : PSt),
    OK T v → (∀ x ∈ vs, OK T x) → Y.cur.loc = default →
    PL T close acc (pushAll (v.pr T 0 ++ RExpr.prTail T vs ++ [close]) Y) (acc ++ v.embed :: RExpr.embeds vs) Y
  | [], v, acc, Y, hv, _, hY => by
    simp only [RExpr.prTail, List.append_nil, pushAll_append, pushAll_cons, pushAll_nil, RExpr.embeds]
    have h8 := dotPrec_ge8 hT
    have hd : close ∈ delims := by rcases hcl with h | h <;> subst h <;> simp [delims]
    have := hv 0 (push close Y) (by omega) rfl (Stops.delim hT (Int.le_refl 0) hd Y)
    exact PL_last T (PE_of_at T this) rfl rfl
  | w :: ws, v, acc, Y, hv, hvs, hY => by
    simp only [RExpr.prTail, pushAll_append, pushAll_cons, pushAll_nil, RExpr.embeds, List.cons_append, List.append_assoc]
    have h8 := dotPrec_ge8 hT
    have hw := list_ok hT close hcl ws w (acc ++ [v.embed]) Y (hvs w (by simp)) (fun x hx => hvs x (by simp [hx])) hY
    simp only [pushAll_append, pushAll_cons, pushAll_nil, List.append_assoc, List.cons_append, List.nil_append] at hw
    have := hv 0 (push .comma (pushAll (w.pr T 0) (pushAll (RExpr.prTail T ws) (push close Y)))) (by omega) rfl
      (Stops.delim hT (Int.le_refl 0) (by simp [delims]) _)
    have hne : (push Tok.comma (pushAll (w.pr T 0) (pushAll (RExpr.prTail T ws) (push close Y)))).cur.tok ≠ close := by
      rcases hcl with h | h <;> subst h <;> simp
    exact PL_more T (PE_of_at T this) hne rfl rfl hw

/-- the clauses of a CASE: `WHEN c THEN r (WHEN … THEN …)… ELSE els END` -/
theorem case_ok (hT : T.WF) : ∀ (more : List (RExpr × RExpr)) (c r : RExpr) (acc : List (PExpr × PExpr)) (els : RExpr) (Y : PSt),
    OK T c → OK T r → (∀ p ∈ more, OK T p.1 ∧ OK T p.2) → OK T els → Y.cur.loc = default →
    PC T default acc
      (pushAll ([.kw .when] ++ c.pr T 0 ++ [.kw .then] ++ r.pr T 0 ++ RExpr.prClauses T more ++ [.kw .else] ++ els.pr T 0 ++ [.kw .end]) Y)
      (.case default (acc ++ (c.embed, r.embed) :: RExpr.embedClauses more) els.embed) Y
  | [], c, r, acc, els, Y, hc, hr, _, he, hY => by
    have h8 := dotPrec_ge8 hT
    simp only [RExpr.prClauses, List.append_nil, pushAll_append, pushAll_cons, pushAll_nil, RExpr.embedClauses,
      List.cons_append, List.nil_append]
    have pe : ∀ (x : RExpr) (k : Keyword), OK T x → Tok.kw k ∈ delims → ∀ S, PE T (pushAll (x.pr T 0) (push (.kw k) S)) x.embed (push (.kw k) S) :=
      fun x k hx hk S => PE_of_at T (hx 0 (push (.kw k) S) (by omega) rfl (Stops.delim hT (Int.le_refl 0) hk S))
    exact PC_last T rfl rfl (pe c .then hc (by simp [delims]) _) rfl rfl (pe r .else hr (by simp [delims]) _) rfl rfl
      (pe els .end he (by simp [delims]) _) rfl rfl
  | (c', r') :: more, c, r, acc, els, Y, hc, hr, hm, he, hY => by
    have h8 := dotPrec_ge8 hT
    have ih := case_ok hT more c' r' (acc ++ [(c.embed, r.embed)]) els Y (hm (c', r') (by simp)).1 (hm (c', r') (by simp)).2
      (fun p hp => hm p (by simp [hp])) he hY
    simp only [RExpr.prClauses, pushAll_append, pushAll_cons, pushAll_nil, RExpr.embedClauses,
      List.cons_append, List.nil_append, List.append_assoc] at ih ⊢
    have pe : ∀ (x : RExpr) (k : Keyword), OK T x → Tok.kw k ∈ delims → ∀ S, PE T (pushAll (x.pr T 0) (push (.kw k) S)) x.embed (push (.kw k) S) :=
      fun x k hx hk S => PE_of_at T (hx 0 (push (.kw k) S) (by omega) rfl (Stops.delim hT (Int.le_refl 0) hk S))
    exact PC_more T rfl rfl (pe c .then hc (by simp [delims]) _) rfl rfl (pe r .when hr (by simp [delims]) _) (by simp) ih

/-! ### what the loop builds -/

theorem combine_bop {o : BOp} (h : ∀ s, o = .sym s → s ≠ .single '.') (l r : RExpr) :
    combine default o.tok l.embed r.embed = .ok (RExpr.bin o l r).embed := by
  cases o with
  | sym s =>
    have hs := h s rfl
    simp only [BOp.tok, RExpr.embed]
    unfold combine
    split
    · rename_i heq; simp only [Tok.op.injEq] at heq; exact absurd heq hs
    · rename_i heq; cases heq
    · rename_i heq; simp only [Tok.op.injEq] at heq; subst heq; rfl
    · rename_i heq; cases heq
    · rename_i heq; cases heq
    · rename_i heq; cases heq
    · rename_i heq; cases heq
    · rename_i h3 _ _ _ _; exact absurd rfl (h3 s)
  | is => rfl
  | isNot => rfl
  | and => rfl
  | or => rfl

theorem ofIdent_castName {t : VType} (ht : ∀ u, t ≠ .array u) : VType.ofIdent (lowerChars (castName t)) = some t := by
  cases t with
  | array u => exact absurd rfl (ht u)
  | _ => decide

theorem castName_ne_array {t : VType} (ht : ∀ u, t ≠ .array u) : lowerChars (castName t) ≠ "array".toList := by
  cases t with
  | array u => exact absurd rfl (ht u)
  | _ => decide

theorem combine_cast {t : VType} (ht : ∀ u, t ≠ .array u) (L : PExpr) (loc : Loc) :
    combine default .dcolon L (.column loc (castName t)) = .ok (.cast default L t) := by
  unfold combine
  simp only [ofIdent_castName ht]

theorem BOp.tok_ne (o : BOp) : o.tok ≠ .lsq ∧ o.tok ≠ .kw .in ∧ o.tok ≠ .kw .notIn := by
  cases o <;> simp [BOp.tok]


/-! ### the loop lemma -/

/-- `parse_binary_operator_rhs(m, lhs)` on the printed spine steps followed by a stopping state applies exactly
those steps to `lhs` -/
theorem loop (hT : T.WF) : ∀ (ps : List Sp) (lhs : RExpr) (m : Int) (rest : PSt),
    m ≤ dotPrec T → rest.cur.loc = default → SpineOK T m ps → Stops T m rest →
    (∀ q ∈ ps, SpOK T q ∧ q.WF T) →
    PR T m lhs.embed (pushAll (flat T ps) rest) (plug lhs ps).embed rest
  | [], lhs, m, rest, _, _, _, hs, _ => by
    obtain ⟨_, tp, h1, h2⟩ := hs
    exact PR_stop T h1 h2
  | q :: ps, lhs, m, rest, hm, hloc, hok, hs, hq => by
    obtain ⟨hge, hle, hok'⟩ := hok
    obtain ⟨hqok, hqwf⟩ := hq q (by simp)
    have hX : Stops T (q.lvl T + 1) (pushAll (flat T ps) rest) :=
      stops_flat ps rest hge hs hle (fun x hx => (hq x (by simp [hx])).2)
    have hXloc : (pushAll (flat T ps) rest).cur.loc = default := flat_loc ps rest hloc
    have hcont := fun lhs' => loop hT ps lhs' m rest hm hloc hok' hs (fun x hx => hq x (by simp [hx]))
    have hrange := Sp.lvl_range hT hqwf
    have hdef := Sp.defined hqwf
    have h8 := dotPrec_ge8 hT
    have hnlt : ¬ q.lvl T < m := by omega
    cases q with
    | bin o r =>
      simp only [flat, Sp.flat, List.cons_append, pushAll_cons, pushAll_append]
      simp only [Sp.lvl, Sp.tok] at hX hrange hnlt hge
      have hopd := hqok (tokPrec T o.tok + 1) _ (by omega) hXloc hX
      obtain ⟨u, s1, hu, hr⟩ := hopd
      obtain ⟨tp2, htp2⟩ := PR_tp T hr
      refine PR_bin T (tp := tokPrec T o.tok) (rhs := u) (s2 := s1) (rhs' := r.embed) (tp2 := tp2)
        (tokenPrecedence_defined hdef) hnlt o.tok_ne.1 o.tok_ne.2.1 o.tok_ne.2.2 rfl hu htp2 ?_
        (combine_bop (fun s hs => (hqwf.1 s hs).1) lhs r) (hcont (.bin o lhs r))
      by_cases hlt : tokPrec T o.tok < tp2
      · simp only [hlt, if_true]; exact hr
      · simp only [hlt, if_false]
        exact PR_det T hr (PR_stop T htp2 (by omega))
    | idx i =>
      simp only [flat, Sp.flat, List.cons_append, pushAll_cons, pushAll_append, pushAll_nil]
      have hi := hqok 0 (push .rsq (pushAll (flat T ps) rest)) (by omega) rfl
        (Stops.delim hT (Int.le_refl 0) (by simp [delims]) _)
      exact PR_index T (tokenPrecedence_defined hdef) hnlt rfl rfl (PE_of_at T hi) rfl rfl (hcont (.index lhs i))
    | cast t =>
      simp only [flat, Sp.flat, List.cons_append, pushAll_cons, List.nil_append]
      simp only [Sp.lvl, Sp.tok] at hX hrange hnlt hge
      obtain ⟨hnlp, tp2, htp2, hlt2⟩ := hX
      have hcol : PU T (push (.ident (castName t)) (pushAll (flat T ps) rest))
          (.column (pushAll (flat T ps) rest).cur.loc (castName t)) (pushAll (flat T ps) rest) :=
        PU_prim T (by intro o; simp) (by simp) (PP_col T rfl rfl hnlp (castName_ne_array hqwf))
      refine PR_bin T (tp := tokPrec T .dcolon) (tp2 := tp2)
        (rhs' := .column (pushAll (flat T ps) rest).cur.loc (castName t)) (s3 := pushAll (flat T ps) rest)
        (tokenPrecedence_defined hdef) hnlt
        (by simp) (by simp) (by simp) rfl hcol htp2 ?_ (combine_cast hqwf lhs.embed _) (hcont (.cast lhs t))
      have : ¬ tokPrec T .dcolon < tp2 := by omega
      simp only [this, if_false, and_self]
    | inl n v vs =>
      simp only [flat, Sp.flat, List.cons_append, pushAll_cons, pushAll_append, pushAll_nil]
      have hl := list_ok hT .rp (Or.inl rfl) vs v [] (pushAll (flat T ps) rest) hqok.1 hqok.2 hXloc
      simp only [pushAll_cons, pushAll_append, pushAll_nil, List.nil_append] at hl
      exact PR_in T n (tokenPrecedence_defined hdef) hnlt rfl rfl rfl rfl hl (hcont (.inList n lhs v vs))


/-! ### heads -/

theorem dots_cons (p : List Char) (ps : List (List Char)) :
    RExpr.dots (p :: ps) = .op (.single '.') :: .ident p :: RExpr.dots ps := by
  simp [RExpr.dots]

theorem dot_defined (hT : T.WF) : Defined T (.op (.single '.')) := by
  intro o ho; simp only [Tok.op.injEq] at ho; subst ho; exact hT.1

theorem dots_stops (hT : T.WF) (path : List (List Char)) (X : PSt) (hX : Stops T (dotPrec T + 1) X) :
    Stops T (dotPrec T + 1) (pushAll (RExpr.dots path) X) := by
  cases path with
  | nil => exact hX
  | cons p ps =>
    rw [dots_cons]
    refine Stops.of_tok (by simp) (by simpa using dot_defined hT) ?_
    simp only [pushAll_cons, push_tok]; unfold dotPrec; omega

/-- the loop turns `x . p₁ . p₂ …` into one column name -/
theorem dots_parse (hT : T.WF) : ∀ (path : List (List Char)) (done : List Char) (m : Int) (X : PSt) (t : PExpr) (s' : PSt),
    m ≤ dotPrec T → X.cur.loc = default → Stops T (dotPrec T + 1) X →
    (∀ p ∈ path, lowerChars p ≠ "array".toList) →
    PR T m (.column default (RExpr.dotted done path)) X t s' →
    PR T m (.column default done) (pushAll (RExpr.dots path) X) t s'
  | [], done, m, X, t, s', _, _, _, _, h => by simpa [RExpr.dots, RExpr.dotted] using h
  | p :: ps, done, m, X, t, s', hm, hXloc, hX, hp, h => by
    rw [dots_cons]
    simp only [pushAll_cons]
    obtain ⟨hnlp, tp2, htp2, hlt2⟩ := dots_stops hT ps X hX
    have hYloc : (pushAll (RExpr.dots ps) X).cur.loc = default := pushAll_loc _ _ hXloc
    have hcol : PU T (push (.ident p) (pushAll (RExpr.dots ps) X))
        (.column (pushAll (RExpr.dots ps) X).cur.loc p) (pushAll (RExpr.dots ps) X) :=
      PU_prim T (by intro o; simp) (by simp) (PP_col T rfl rfl hnlp (hp p (by simp)))
    have hrec := dots_parse hT ps (done ++ ['.'] ++ p) m X t s' hm hXloc hX (fun q hq => hp q (by simp [hq]))
      (by simpa [RExpr.dotted] using h)
    refine PR_bin T (tp := dotPrec T) (tp2 := tp2)
      (rhs' := .column (pushAll (RExpr.dots ps) X).cur.loc p) (s3 := pushAll (RExpr.dots ps) X)
      (tokenPrecedence_defined (by simpa using dot_defined hT)) (by omega) (by simp) (by simp) (by simp) rfl hcol htp2 ?_
      (l' := .column default (done ++ ['.'] ++ p)) rfl hrec
    have : ¬ dotPrec T < tp2 := by omega
    simp only [this, if_false, and_self]

theorem Lit.tok_ne (l : Lit) : (∀ o, l.tok ≠ .op o) ∧ l.tok ≠ .kw .not ∧ l.tok ≠ .rp ∧ l.tok ≠ .kw .distinct ∧ l.tok ≠ .rsq := by
  cases l <;> simp [Lit.tok]

/-- the first token of a printed expression is not `)`, not DISTINCT and not `]` -/
theorem pr_first (T : PrecTables) : ∀ (c : Int) (e : RExpr), ∃ t ts, e.pr T c = t :: ts ∧ t ≠ .rp ∧ t ≠ .kw .distinct ∧ t ≠ .rsq
  | _, .lit l => ⟨_, _, rfl, l.tok_ne.2.2.1, l.tok_ne.2.2.2.1, l.tok_ne.2.2.2.2⟩
  | _, .col _ _ => ⟨_, _, rfl, by simp, by simp, by simp⟩
  | _, .paren _ => ⟨_, _, rfl, by simp, by simp, by simp⟩
  | _, .call _ _ => ⟨_, _, rfl, by simp, by simp, by simp⟩
  | _, .star => ⟨_, _, rfl, by simp, by simp, by simp⟩
  | _, .countDistinct _ _ _ => ⟨_, _, rfl, by simp, by simp, by simp⟩
  | _, .array _ _ => ⟨_, _, rfl, by simp, by simp, by simp⟩
  | _, .extract _ _ => ⟨_, _, rfl, by simp, by simp, by simp⟩
  | _, .tuple _ _ _ => ⟨_, _, rfl, by simp, by simp, by simp⟩
  | _, .case _ _ _ _ => ⟨_, _, rfl, by simp, by simp, by simp⟩
  | c, .not e => by
    rw [RExpr.pr]; unfold RExpr.wrap; split
    · exact ⟨_, _, rfl, by simp, by simp, by simp⟩
    · exact ⟨_, _, rfl, by simp, by simp, by simp⟩
  | c, .neg e => by
    rw [RExpr.pr]; unfold RExpr.wrap; split
    · exact ⟨_, _, rfl, by simp, by simp, by simp⟩
    · exact ⟨_, _, rfl, by simp, by simp, by simp⟩
  | c, .bin o l r => by
    rw [RExpr.pr]; unfold RExpr.wrap; split
    · exact ⟨_, _, rfl, by simp, by simp, by simp⟩
    · obtain ⟨t, ts, h, h1, h2, h3⟩ := pr_first T (tokPrec T o.tok) l
      rw [h]; exact ⟨_, _, rfl, h1, h2, h3⟩
  | c, .index a i => by
    rw [RExpr.pr]; unfold RExpr.wrap; split
    · exact ⟨_, _, rfl, by simp, by simp, by simp⟩
    · obtain ⟨t, ts, h, h1, h2, h3⟩ := pr_first T (tokPrec T .lsq) a
      rw [h]; exact ⟨_, _, rfl, h1, h2, h3⟩
  | c, .cast e t => by
    rw [RExpr.pr]; unfold RExpr.wrap; split
    · exact ⟨_, _, rfl, by simp, by simp, by simp⟩
    · obtain ⟨t, ts, h, h1, h2, h3⟩ := pr_first T (tokPrec T .dcolon) e
      rw [h]; exact ⟨_, _, rfl, h1, h2, h3⟩
  | c, .inList n e v vs => by
    rw [RExpr.pr]; unfold RExpr.wrap; split
    · exact ⟨_, _, rfl, by simp, by simp, by simp⟩
    · obtain ⟨t, ts, h, h1, h2, h3⟩ := pr_first T (tokPrec T (RExpr.inTok n)) e
      rw [h]; exact ⟨_, _, rfl, h1, h2, h3⟩

/-- a parenthesised expression is a primary expression -/
theorem paren_parse {e : RExpr} {X : PSt}
    (hpe : PE T (pushAll (e.pr T 0) (push .rp X)) e.embed (push .rp X)) :
    PU T (pushAll ([.lp] ++ e.pr T 0 ++ [.rp]) X) e.embed X := by
  simp only [List.cons_append, List.nil_append, pushAll_cons, pushAll_append, pushAll_nil]
  exact PU_prim T (by intro o; simp) (by simp) (PP_paren T rfl rfl hpe rfl rfl)

theorem stops_rp (hT : T.WF) (X : PSt) : ∃ tp, tokenPrecedence T (push .rp X) = .ok tp (push .rp X) ∧ tp < 0 :=
  (Stops.delim hT (Int.le_refl 0) (t := .rp) (by simp [delims]) X).2

/-- what the head of a spine needs from the induction -/
def HeadIH (T : PrecTables) : RExpr → Prop
  | .lit _ => True
  | .col _ _ => True
  | .paren y => OK T y
  | .call _ args => ∀ a ∈ args, OK T a
  | .star => True
  | .countDistinct _ a as => OK T a ∧ ∀ x ∈ as, OK T x
  | .array _ args => ∀ a ∈ args, OK T a
  | .extract _ e => OK T e
  | .tuple a b more => OK T a ∧ OK T b ∧ ∀ x ∈ more, OK T x
  | .case c r more els => OK T c ∧ OK T r ∧ (∀ p ∈ more, OK T p.1 ∧ OK T p.2) ∧ OK T els
  | .not x => OKU T (.not x)
  | .neg x => OKU T (.neg x)
  | e => OK T e


theorem prefix_level_of {h : RExpr} (hp : h.isPrefix = true) : h.level T = some (prefixLevel h) := by
  cases h <;> simp [RExpr.isPrefix] at hp <;> rfl

theorem prefixLevel_range {h : RExpr} (hp : h.isPrefix = true) : 0 ≤ prefixLevel h ∧ prefixLevel h < 8 := by
  cases h <;> simp [RExpr.isPrefix] at hp <;> simp [prefixLevel, notLevel, negLevel]

/-- an unparenthesised or parenthesised prefix expression in operand position -/
theorem prefix_head (hT : T.WF) {h : RExpr} (hp : h.isPrefix = true) (hwf : RExpr.WF T h) (hih : OKU T h)
    (c : Int) (X : PSt) (hXloc : X.cur.loc = default) (hX : Stops T (c + 1) X) :
    PU T (pushAll (h.pr T c) X) h.embed X := by
  have hlr := prefixLevel_range hp
  rw [pr_eq_wrap hT hwf c]
  cases hn : h.needsParen T c with
  | false =>
    simp only [RExpr.wrap, Bool.false_eq_true, if_false]
    simp only [RExpr.needsParen, prefix_level_of hp, decide_eq_false_iff_not] at hn
    exact hih hp X hXloc (hX.mono (by omega))
  | true =>
    simp only [RExpr.wrap, if_true]
    refine paren_parse ?_
    have hu := hih hp (push .rp X) rfl (Stops.delim hT (by omega) (by simp [delims]) X)
    obtain ⟨tp, h1, h2⟩ := stops_rp hT X
    exact PE_intro T hu (PR_stop T h1 h2)

/-- The head of a spine, printed in the context `c` of the first step, followed by a state `X` that stops at `c + 1`:
if the loop at level `m` continues from `X` with the head's tree to `(t, s')`, the expression parse from the head's
first token gives `(t, s')`. -/
theorem head_parse (hT : T.WF) (h : RExpr) (c m : Int) (X : PSt) (t : PExpr) (s' : PSt)
    (hwf : RExpr.WF T h) (hhead : h.isSpine = true → h.needsParen T c = true) (hih : HeadIH T h)
    (hXloc : X.cur.loc = default) (hX : Stops T (c + 1) X) (hc : c ≤ dotPrec T) (hm : m ≤ dotPrec T)
    (hr : PR T m h.embed X t s') : PExprAt T m (pushAll (h.pr T c) X) t s' := by
  have h8 := dotPrec_ge8 hT
  have hparen : ∀ e : RExpr, RExpr.WF T e → OK T e → e.needsParen T c = true →
      PU T (pushAll (e.pr T c) X) e.embed X := by
    intro e hwe hoe hn
    rw [pr_eq_wrap hT hwe c, hn]
    simp only [RExpr.wrap, if_true]
    exact paren_parse (PE_of_at T (hoe 0 (push .rp X) (by omega) rfl (Stops.delim hT (Int.le_refl 0) (by simp [delims]) X)))
  cases h with
  | lit l =>
    exact ⟨_, _, PU_prim T l.tok_ne.1 l.tok_ne.2.1 (PP_lit T l rfl rfl), hr⟩
  | col x path =>
    simp only [RExpr.WF] at hwf
    have hXd : Stops T (dotPrec T + 1) X := hX.mono (by omega)
    have hY := dots_stops hT path X hXd
    have hYloc : (pushAll (RExpr.dots path) X).cur.loc = default := pushAll_loc _ _ hXloc
    have hcol : PU T (push (.ident x) (pushAll (RExpr.dots path) X))
        (.column (pushAll (RExpr.dots path) X).cur.loc x) (pushAll (RExpr.dots path) X) :=
      PU_prim T (by intro o; simp) (by simp) (PP_col T rfl rfl hY.1 hwf.1)
    rw [hYloc] at hcol
    exact ⟨_, _, hcol, dots_parse hT path x m X t s' hm hXloc hXd hwf.2 hr⟩
  | paren y =>
    simp only [HeadIH] at hih
    have hu : PU T (pushAll ([.lp] ++ y.pr T 0 ++ [.rp]) X) y.embed X :=
      paren_parse (PE_of_at T (hih 0 (push .rp X) (by omega) rfl (Stops.delim hT (Int.le_refl 0) (by simp [delims]) X)))
    exact ⟨_, _, hu, hr⟩
  | call f args =>
    simp only [HeadIH] at hih
    cases args with
    | nil =>
      exact ⟨_, _, PU_prim T (by intro o; simp [RExpr.pr]) (by simp [RExpr.pr])
        (PP_call_nil T (s := pushAll ((RExpr.call f []).pr T c) X) rfl rfl rfl rfl rfl rfl), hr⟩
    | cons a as =>
      have hl := list_ok hT .rp (Or.inl rfl) as a [] X (hih a (by simp)) (fun x hx => hih x (by simp [hx])) hXloc
      obtain ⟨t0, ts0, hfirst, hnrp, hnd, _⟩ := pr_first T 0 a
      have hpp : PP T (pushAll ((RExpr.call f (a :: as)).pr T c) X) (RExpr.call f (a :: as)).embed X := by
        simp only [RExpr.pr, RExpr.prArgs, List.cons_append, List.nil_append, pushAll_cons, pushAll_append, pushAll_nil]
        simp only [pushAll_cons, pushAll_append, pushAll_nil] at hl
        refine PP_call_cons T (s2 := pushAll (RExpr.pr T 0 a) (pushAll (RExpr.prTail T as) (push Tok.rp X)))
          (s1 := push .lp (pushAll (RExpr.pr T 0 a) (pushAll (RExpr.prTail T as) (push Tok.rp X)))) rfl rfl rfl rfl ?_ ?_ hl
        · rw [hfirst]; simpa using hnrp
        · rw [hfirst]; simpa using hnd
      exact ⟨_, _, PU_prim T (by intro o; simp [RExpr.pr]) (by simp [RExpr.pr]) hpp, hr⟩
  | star => exact ⟨_, _, PU_star T rfl rfl, hr⟩
  | countDistinct f a as =>
    simp only [HeadIH] at hih
    simp only [RExpr.WF] at hwf
    have hl := list_ok hT .rp (Or.inl rfl) as a [] X hih.1 hih.2 hXloc
    obtain ⟨t0, ts0, hfirst, hnrp, _, _⟩ := pr_first T 0 a
    have hpp : PP T (pushAll ((RExpr.countDistinct f a as).pr T c) X) (RExpr.countDistinct f a as).embed X := by
      simp only [RExpr.pr, List.cons_append, List.nil_append, pushAll_cons, pushAll_append, pushAll_nil]
      simp only [pushAll_cons, pushAll_append, pushAll_nil] at hl
      refine PP_call_distinct T (s3 := pushAll (RExpr.pr T 0 a) (pushAll (RExpr.prTail T as) (push Tok.rp X)))
        (s2 := push (.kw .distinct) (pushAll (RExpr.pr T 0 a) (pushAll (RExpr.prTail T as) (push Tok.rp X))))
        (s1 := push .lp (push (.kw .distinct) (pushAll (RExpr.pr T 0 a) (pushAll (RExpr.prTail T as) (push Tok.rp X)))))
        rfl rfl rfl rfl hwf.1 rfl rfl ?_ hl
      rw [hfirst]; simpa using hnrp
    exact ⟨_, _, PU_prim T (by intro o; simp [RExpr.pr]) (by simp [RExpr.pr]) hpp, hr⟩
  | array sp args =>
    simp only [HeadIH] at hih
    simp only [RExpr.WF] at hwf
    cases args with
    | nil =>
      exact ⟨_, _, PU_prim T (by intro o; simp [RExpr.pr]) (by simp [RExpr.pr])
        (PP_array_nil T (s := pushAll ((RExpr.array sp []).pr T c) X) rfl rfl rfl hwf.1 rfl rfl rfl), hr⟩
    | cons a as =>
      have hl := list_ok hT .rsq (Or.inr rfl) as a [] X (hih a (by simp)) (fun x hx => hih x (by simp [hx])) hXloc
      obtain ⟨t0, ts0, hfirst, _, _, hnrsq⟩ := pr_first T 0 a
      have hpp : PP T (pushAll ((RExpr.array sp (a :: as)).pr T c) X) (RExpr.array sp (a :: as)).embed X := by
        simp only [RExpr.pr, RExpr.prArgs, List.cons_append, List.nil_append, pushAll_cons, pushAll_append, pushAll_nil]
        simp only [pushAll_cons, pushAll_append, pushAll_nil] at hl
        refine PP_array_cons T (s2 := pushAll (RExpr.pr T 0 a) (pushAll (RExpr.prTail T as) (push Tok.rsq X)))
          (s1 := push .lsq (pushAll (RExpr.pr T 0 a) (pushAll (RExpr.prTail T as) (push Tok.rsq X)))) rfl rfl rfl hwf.1 rfl ?_ hl
        rw [hfirst]; simpa using hnrsq
      exact ⟨_, _, PU_prim T (by intro o; simp [RExpr.pr]) (by simp [RExpr.pr]) hpp, hr⟩
  | extract part e =>
    simp only [HeadIH] at hih
    have he := PE_of_at T (hih 0 (push .rp X) (by omega) rfl (Stops.delim hT (Int.le_refl 0) (by simp [delims]) X))
    have hpp : PP T (pushAll ((RExpr.extract part e).pr T c) X) (RExpr.extract part e).embed X := by
      simp only [RExpr.pr, List.cons_append, List.nil_append, pushAll_cons, pushAll_append, pushAll_nil]
      exact PP_extract T (s4 := pushAll (RExpr.pr T 0 e) (push .rp X))
        (s3 := push (.kw .from) (pushAll (RExpr.pr T 0 e) (push .rp X)))
        (s2 := push (.ident part) (push (.kw .from) (pushAll (RExpr.pr T 0 e) (push .rp X))))
        (s1 := push .lp (push (.ident part) (push (.kw .from) (pushAll (RExpr.pr T 0 e) (push .rp X)))))
        rfl rfl rfl rfl rfl rfl rfl rfl he rfl rfl
    exact ⟨_, _, PU_prim T (by intro o; simp [RExpr.pr]) (by simp [RExpr.pr]) hpp, hr⟩
  | tuple a b more =>
    simp only [HeadIH] at hih
    have hl := list_ok hT .rp (Or.inl rfl) more b [a.embed] X hih.2.1 hih.2.2 hXloc
    simp only [pushAll_cons, pushAll_append, pushAll_nil] at hl
    have ha := PE_of_at T (hih.1 0 (push .comma (pushAll (RExpr.pr T 0 b) (pushAll (RExpr.prTail T more) (push .rp X))))
      (by omega) rfl (Stops.delim hT (Int.le_refl 0) (by simp [delims]) _))
    have hpp : PP T (pushAll ((RExpr.tuple a b more).pr T c) X) (RExpr.tuple a b more).embed X := by
      simp only [RExpr.pr, List.cons_append, List.nil_append, pushAll_cons, pushAll_append, pushAll_nil]
      exact PP_tuple T rfl rfl ha rfl rfl hl
    exact ⟨_, _, PU_prim T (by intro o; simp [RExpr.pr]) (by simp [RExpr.pr]) hpp, hr⟩
  | case cc r more els =>
    simp only [HeadIH] at hih
    have hc := case_ok hT more cc r [] els X hih.1 hih.2.1 hih.2.2.1 hih.2.2.2 hXloc
    have hpp : PP T (pushAll ((RExpr.case cc r more els).pr T c) X) (RExpr.case cc r more els).embed X := by
      simp only [RExpr.pr, List.cons_append, List.nil_append, pushAll_cons, pushAll_append, pushAll_nil, List.append_assoc] at hc ⊢
      exact PP_case T rfl rfl hc
    exact ⟨_, _, PU_prim T (by intro o; simp [RExpr.pr]) (by simp [RExpr.pr]) hpp, hr⟩
  | not x => exact ⟨_, _, prefix_head hT rfl hwf hih c X hXloc hX, hr⟩
  | neg x => exact ⟨_, _, prefix_head hT rfl hwf hih c X hXloc hX, hr⟩
  | bin o l r => exact ⟨_, _, hparen _ hwf hih (hhead rfl), hr⟩
  | index a i => exact ⟨_, _, hparen _ hwf hih (hhead rfl), hr⟩
  | cast e t' => exact ⟨_, _, hparen _ hwf hih (hhead rfl), hr⟩
  | inList n e v vs => exact ⟨_, _, hparen _ hwf hih (hhead rfl), hr⟩


/-! ### the induction -/

theorem WFs_mem {vs : List RExpr} (h : RExpr.WFs T vs) {x : RExpr} (hx : x ∈ vs) : RExpr.WF T x := by
  induction vs with
  | nil => cases hx
  | cons v vs ih =>
    simp only [RExpr.WFs] at h
    simp only [List.mem_cons] at hx
    rcases hx with hx | hx
    · subst hx; exact h.1
    · exact ih h.2 hx

theorem WFClauses_mem {cs : List (RExpr × RExpr)} (h : RExpr.WFClauses T cs) {p : RExpr × RExpr} (hp : p ∈ cs) :
    RExpr.WF T p.1 ∧ RExpr.WF T p.2 := by
  induction cs with
  | nil => cases hp
  | cons q qs ih =>
    obtain ⟨c, r⟩ := q
    simp only [RExpr.WFClauses] at h
    simp only [List.mem_cons] at hp
    rcases hp with hp | hp
    · subst hp; exact ⟨h.1, h.2.1⟩
    · exact ih h.2.2 hp

theorem spok_of_smaller {k : Nat} {q : Sp} (hs : q.Smaller k) (hwf : q.WF T)
    (ih : ∀ x : RExpr, x.size < k → RExpr.WF T x → OK T x) : SpOK T q := by
  cases q with
  | bin o r => exact ih r hs hwf.2
  | idx i => exact ih i hs hwf
  | cast t => trivial
  | inl n v vs =>
    refine ⟨ih v hs.1 hwf.1, ?_⟩
    intro x hx
    have := RExpr.size_lt_sizes hx
    exact ih x (by have := hs.2; omega) (WFs_mem hwf.2 hx)

theorem headIH_of (n : Nat) (ih : ∀ y : RExpr, y.size ≤ n → RExpr.WF T y → OK T y ∧ OKU T y) (h : RExpr)
    (hwf : RExpr.WF T h) (hsz : h.size ≤ n + 1) (hsub : h.isSpine = true ∨ h.isPrefix = true → h.size ≤ n) :
    HeadIH T h := by
  cases h with
  | lit l => trivial
  | col x p => trivial
  | paren y => simp only [RExpr.size] at hsz; exact (ih y (by omega) hwf).1
  | call f args =>
    intro a ha
    have := RExpr.size_lt_sizes ha
    simp only [RExpr.size] at hsz
    exact (ih a (by omega) (WFs_mem hwf ha)).1
  | star => trivial
  | countDistinct f a as =>
    simp only [RExpr.size] at hsz
    simp only [RExpr.WF] at hwf
    refine ⟨(ih a (by omega) hwf.2.1).1, ?_⟩
    intro x hx
    have := RExpr.size_lt_sizes hx
    exact (ih x (by omega) (WFs_mem hwf.2.2 hx)).1
  | array sp args =>
    intro a ha
    have := RExpr.size_lt_sizes ha
    simp only [RExpr.size] at hsz
    simp only [RExpr.WF] at hwf
    exact (ih a (by omega) (WFs_mem hwf.2 ha)).1
  | extract part e => simp only [RExpr.size] at hsz; exact (ih e (by omega) hwf).1
  | tuple a b more =>
    simp only [RExpr.size] at hsz
    simp only [RExpr.WF] at hwf
    refine ⟨(ih a (by omega) hwf.1).1, (ih b (by omega) hwf.2.1).1, ?_⟩
    intro x hx
    have := RExpr.size_lt_sizes hx
    exact (ih x (by omega) (WFs_mem hwf.2.2 hx)).1
  | case c r more els =>
    simp only [RExpr.size] at hsz
    simp only [RExpr.WF] at hwf
    refine ⟨(ih c (by omega) hwf.1).1, (ih r (by omega) hwf.2.1).1, ?_, (ih els (by omega) hwf.2.2.2).1⟩
    intro p hp
    have := RExpr.size_lt_sizeClauses hp
    have hw := WFClauses_mem hwf.2.2.1 hp
    exact ⟨(ih p.1 (by omega) hw.1).1, (ih p.2 (by omega) hw.2).1⟩
  | not x => exact (ih _ (hsub (Or.inr rfl)) hwf).2
  | neg x => exact (ih _ (hsub (Or.inr rfl)) hwf).2
  | bin o l r => exact (ih _ (hsub (Or.inl rfl)) hwf).1
  | index a i => exact (ih _ (hsub (Or.inl rfl)) hwf).1
  | cast e t => exact (ih _ (hsub (Or.inl rfl)) hwf).1
  | inList n' e v vs => exact (ih _ (hsub (Or.inl rfl)) hwf).1

theorem headCtx_bounds {m : Int} {ps : List Sp} (h : SpineOK T m ps) :
    m ≤ headCtx T m ps ∧ ∀ q ∈ ps, q.lvl T ≤ headCtx T m ps := by
  cases ps with
  | nil => exact ⟨Int.le_refl _, by simp⟩
  | cons q qs =>
    obtain ⟨h1, h2, _⟩ := h
    refine ⟨h1, ?_⟩
    intro x hx
    simp only [List.mem_cons] at hx
    rcases hx with hx | hx
    · subst hx; exact Int.le_refl _
    · exact h2 x hx

theorem headCtx_le_dot (hT : T.WF) {m : Int} (hm : m ≤ dotPrec T) {ps : List Sp} (hwf : ∀ q ∈ ps, q.WF T) :
    headCtx T m ps ≤ dotPrec T := by
  cases ps with
  | nil => exact hm
  | cons q qs => have := (Sp.lvl_range hT (hwf q (by simp))).2; simp only [headCtx]; omega

/-- the operand of a prefix operator of level `L`, printed in the context `prefixCtx L x` -/
theorem prefix_operand (hT : T.WF) {x : RExpr} (hwf : RExpr.WF T x) (hok : OK T x) (hoku : OKU T x)
    (L : Int) (hL : L + 1 ≤ 8) (rest : PSt) (hloc : rest.cur.loc = default) (hS : Stops T (L + 1) rest) :
    PExprAt T (L + 1) (pushAll (x.pr T (RExpr.prefixCtx L x)) rest) x.embed rest := by
  have h8 := dotPrec_ge8 hT
  unfold RExpr.prefixCtx
  cases hp : x.isPrefix with
  | false => simp only [Bool.false_eq_true, if_false]; exact hok (L + 1) rest (by omega) hloc hS
  | true =>
    simp only [if_true]
    cases hn : x.needsParen T L with
    | false =>
      rw [pr_eq_wrap hT hwf L, hn]
      simp only [RExpr.wrap, Bool.false_eq_true, if_false]
      simp only [RExpr.needsParen, prefix_level_of hp, decide_eq_false_iff_not] at hn
      obtain ⟨_, tp, h1, h2⟩ := hS
      exact ⟨_, _, hoku hp rest hloc (Stops.mono ⟨‹_›, tp, h1, h2⟩ (by omega)), PR_stop T h1 h2⟩
    | true =>
      have hn' : x.needsParen T (L + 1) = true := by
        simp only [RExpr.needsParen, prefix_level_of hp, decide_eq_true_eq] at hn ⊢; omega
      have := hok (L + 1) rest (by omega) hloc hS
      rw [pr_eq_wrap hT hwf (L + 1), hn'] at this
      rw [pr_eq_wrap hT hwf L, hn]
      exact this

/-- **climb_correct**, the induction: for a well-formed table the parser inverts the minimal-parenthesis printer on
every well-formed expression of every size -/
theorem climb (hT : T.WF) : ∀ (n : Nat) (e : RExpr), e.size ≤ n → RExpr.WF T e → OK T e ∧ OKU T e := by
  intro n
  induction n with
  | zero => intro e h; have := RExpr.size_pos e; omega
  | succ n ih =>
    intro e hsz hwf
    have h8 := dotPrec_ge8 hT
    -- A: a prefix expression read by `parse_unary_operator`
    have hA : OKU T e := by
      intro hp rest hloc hS
      cases e with
      | not x =>
        simp only [RExpr.size] at hsz
        simp only [RExpr.WF] at hwf
        obtain ⟨hox, hux⟩ := ih x (by omega) hwf
        have hx := prefix_operand hT hwf hox hux notLevel (by simp [notLevel]) rest hloc hS
        have : (RExpr.not x).pr T 0 = .kw .not :: x.pr T (RExpr.prefixCtx notLevel x) := by
          rw [RExpr.pr]; simp [RExpr.wrap, notLevel]
        rw [this]
        exact PU_not T rfl rfl hx
      | neg x =>
        simp only [RExpr.size] at hsz
        simp only [RExpr.WF] at hwf
        obtain ⟨hox, hux⟩ := ih x (by omega) hwf
        have hx := prefix_operand hT hwf hox hux negLevel (by simp [negLevel]) rest hloc hS
        have : (RExpr.neg x).pr T 0 = .op (.single '-') :: x.pr T (RExpr.prefixCtx negLevel x) := by
          rw [RExpr.pr]; simp [RExpr.wrap, negLevel]
        rw [this]
        exact PU_neg T rfl (by decide) hT.2.2.2.2.2.2 rfl hx
      | _ => simp [RExpr.isPrefix] at hp
    -- B: an expression that is not a prefix expression, unparenthesised at level `m`
    have hB : e.isPrefix = false → ∀ (m : Int) (rest : PSt), m ≤ dotPrec T → rest.cur.loc = default → Stops T m rest →
        e.needsParen T m = false → PExprAt T m (pushAll (e.pr T m) rest) e.embed rest := by
      intro hnp m rest hm hloc hS hn
      have hsp := unspine_ok T m e
      have hszs := unspine_sizes T m e
      have hwfs := unspine_wf T m e hwf
      have hb := headCtx_bounds hsp
      have hX : Stops T (headCtx T m (unspine T m e).2 + 1) (pushAll (flat T (unspine T m e).2) rest) :=
        stops_flat _ rest hb.1 hS hb.2 hwfs.2
      have hl := loop hT (unspine T m e).2 (unspine T m e).1 m rest hm hloc hsp hS
        (fun q hq => ⟨spok_of_smaller (hszs.2 q hq) (hwfs.2 q hq)
          (fun x hx hwx => (ih x (by omega) hwx).1), hwfs.2 q hq⟩)
      rw [plug_unspine] at hl
      have hih : HeadIH T (unspine T m e).1 := by
        refine headIH_of n ih _ hwfs.1 (by omega) ?_
        intro hh
        cases hs : e.isSpine with
        | true => have := unspine_head_lt T m e hs hn; omega
        | false =>
          -- the head of a non-spine expression is the expression itself
          have he : (unspine T m e).1 = e := by
            cases e <;> first | rfl | simp [RExpr.isSpine] at hs
          rw [he] at hh
          rcases hh with hh | hh
          · rw [hs] at hh; cases hh
          · rw [hnp] at hh; cases hh
      have := head_parse hT (unspine T m e).1 (headCtx T m (unspine T m e).2) m
        (pushAll (flat T (unspine T m e).2) rest) e.embed rest hwfs.1 (unspine_head T m e) hih
        (flat_loc _ rest hloc) hX (headCtx_le_dot hT hm hwfs.2) hm hl
      rw [pr_unspine T m e, pushAll_append]
      exact this
    refine ⟨?_, hA⟩
    -- C: every level
    intro m rest hm hloc hS
    cases hp : e.isPrefix with
    | true =>
      have hlr := prefixLevel_range hp
      have hu := prefix_head hT hp hwf hA m rest hloc (hS.mono (by omega))
      obtain ⟨_, tp, h1, h2⟩ := hS
      exact ⟨_, _, hu, PR_stop T h1 h2⟩
    | false =>
      cases hn : e.needsParen T m with
      | false => exact hB hp m rest hm hloc hS hn
      | true =>
        rw [pr_eq_wrap hT hwf m, hn]
        simp only [RExpr.wrap, if_true]
        have hn0 : e.needsParen T 0 = false := by
          unfold RExpr.needsParen
          cases hl : e.level T with
          | none => rfl
          | some p => have := (level_range hT hwf hl).1; simp only [decide_eq_false_iff_not]; omega
        have hin := hB hp 0 (push .rp rest) (by omega) rfl (Stops.delim hT (Int.le_refl 0) (by simp [delims]) rest) hn0
        obtain ⟨_, tp, h1, h2⟩ := hS
        exact ⟨_, _, paren_parse (PE_of_at T hin), PR_stop T h1 h2⟩

/-- **climb_correct** -/
theorem climb_correct (hT : T.WF) (e : RExpr) (hwf : RExpr.WF T e) : OK T e :=
  (climb hT e.size e (Nat.le_refl _) hwf).1

end Sqlgrep.Spec
