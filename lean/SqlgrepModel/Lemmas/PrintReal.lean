import SqlgrepModel.Lemmas.PrintGrammar
import SqlgrepModel.Lemmas.JsonNumLit
/-
REAL fidelity of JSON output, inside Lean (audit item L3): the text the printer ships for a finite REAL (serde_json /
ryu's shortest round-trip rendering — still an oracle, `RealOracle.json`) is checked to READ BACK as the same REAL:

  `RealReadsBack o v` : for every finite REAL `b` of the value, `JsonDoc.readReal (chars (o.json b)) = some b`

— the RFC 8259 denotation of the shipped text (`JsonGrammar.numValue`), rounded to the nearest REAL
(`DecFloat.decToF64`) with the sign of the text (so `-0.0` comes back as `-0.0`). It is decidable, and evaluated on every
case by the `print` driver (`hypothesis-violated`) and by `Drivers/FactCheck.lean` (`fact-mismatch real-json-roundtrip`).
`readsBack_spec` turns it into the statements of `Props/C17Json.lean`: the text is a `number` denoting `d`, the nearest
REAL of `d` is `b`, and both `f64::from_str` and sqlgrep's own JSON reader (`serdeNumber`) read `b`.
-/
namespace Sqlgrep.Print
open Sqlgrep.Utf8 Sqlgrep.JsonGrammar

/-- the shipped JSON text of every finite REAL of the value reads back as that REAL -/
def RealReadsBack (o : RealOracle) (v : Value) : Prop :=
  ∀ b ∈ allReals v, isFinite b = true → JsonDoc.readReal (chars (o.json b)) = some b

instance (o : RealOracle) : DecidablePred (RealReadsBack o) := fun v => by unfold RealReadsBack; infer_instance

/-- the same for every REAL whatsoever (what ryu guarantees) -/
def RealReadBack (o : RealOracle) : Prop := ∀ b, isFinite b = true → JsonDoc.readReal (chars (o.json b)) = some b

theorem RealReadBack.value {o : RealOracle} (h : RealReadBack o) (v : Value) : RealReadsBack o v := fun b _ hf => h b hf

/-- `readReal` is `serdeNumber` seen through `as_f64`, for a text in range -/
theorem readReal_serdeNumber {lex : List Char} {b : Nat} (h : JsonDoc.readReal lex = some b)
    (hfin : b % 2 ^ 63 ≠ DecFloat.infBits) :
    ∃ d n, NumD lex d ∧ JsonDoc.realOfDec (JsonDoc.lexNeg lex) d = b ∧ JsonDoc.serdeNumber lex = some n ∧
      (Sqlgrep.Json.num n).asF64 = some b := by
  unfold JsonDoc.readReal at h
  cases hd : numValue lex with
  | none => rw [hd] at h; cases h
  | some d =>
    rw [hd] at h
    simp only [Option.map_some, Option.some.injEq] at h
    have hD := numValue_sound hd
    cases hs : JsonDoc.serdeNumber lex with
    | none =>
      have := (JsonDoc.serdeNumber_none_iff hD).1 hs
      rw [← JsonDoc.realOfDec_mag (JsonDoc.lexNeg lex) d, h] at this
      exact absurd this hfin
    | some n =>
      refine ⟨d, n, hD, h, rfl, ?_⟩
      rw [JsonDoc.serdeNumber_asF64 hD n hs, h]

theorem isFinite_not_inf {b : Nat} (h : isFinite b = true) : b % 2 ^ 63 ≠ DecFloat.infBits := by
  unfold isFinite F64.mag at h
  unfold DecFloat.infBits
  simp only [decide_eq_true_eq] at h
  omega

/-- **what reading back says**: the shipped text of a finite REAL `b` is a `number` of RFC 8259 denoting the decimal `d`;
the REAL nearest to `d`, with the sign of the text, is `b` (for `b` other than `±0`: `nearestReal d = b`, a function of
`d` alone); `f64::from_str` of the text is `b` (when the text's exponent digits' value is below 65 536, where Rust stops
reading the exponent: observation N3 — every text ryu prints has an exponent of at most three digits); sqlgrep's own
JSON reader reads a number whose REAL is `b` -/
theorem readsBack_spec (o : RealOracle) (b : Nat) (hf : isFinite b = true)
    (h : JsonDoc.readReal (chars (o.json b)) = some b) :
    ∃ d, numValue (chars (o.json b)) = some d ∧ NumD (chars (o.json b)) d ∧
      JsonDoc.realOfDec (JsonDoc.lexNeg (chars (o.json b))) d = b ∧
      (b % 2 ^ 63 ≠ 0 → JsonDoc.nearestReal d = b) ∧
      (FloatGrammar.ExpSmall (chars (o.json b)) → DecFloat.parseF64 (chars (o.json b)) = some b) ∧
      ∃ n, JsonDoc.serdeNumber (chars (o.json b)) = some n ∧ (Sqlgrep.Json.num n).asF64 = some b := by
  obtain ⟨d, n, hD, hr, hs, ha⟩ := readReal_serdeNumber h (isFinite_not_inf hf)
  refine ⟨d, numValue_complete hD, hD, hr, ?_, ?_, n, hs, ha⟩
  · intro hnz
    rw [JsonDoc.litReal_eq hD] at hr
    split at hr
    · rw [← hr] at hnz; exact absurd (by decide) hnz
    · exact hr
  · intro hsm; rw [JsonDoc.json_number_is_from_str hD hsm, hr]

end Sqlgrep.Print
