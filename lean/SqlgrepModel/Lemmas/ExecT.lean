import SqlgrepModel.Model.ExecT
/- The traced batch loop (`Model/ExecT.lean`) is the batch loop of `Model/Exec.lean` / `Model/ExecI.lean`. -/
namespace Sqlgrep

theorem renderCalls_append (a b : List PrintCall) : renderCalls (a ++ b) = renderCalls a ++ renderCalls b := by
  simp [renderCalls]

theorem renderCalls_callsOf (r : Option RowOut) :
    renderCalls (callsOf r) = (match r with
      | some r => printResult r false
      | none => []) := by
  cases r <;> simp [renderCalls, callsOf, PrintCall.text]

/-- the state component of the traced file loop is the file loop -/
theorem runFileT_ls (O : Oracles) (qy : Query) (idx : JoinIndex) (w : Bool) (fls : List FileLine) (s : TraceState) :
    (runFileT O qy idx w fls s).ls = runFile O qy idx w none fls s.ls := by
  induction fls generalizing s with
  | nil => simp [runFileT, runFile]
  | cons fl rest ih =>
    rw [runFileT, runFile]
    have h0 : ((none : Option Nat) == some s.ls.consumed) = false := rfl
    simp only [h0, Bool.false_eq_true, if_false]
    by_cases hr : fl.readable = true
    · simp only [hr, Bool.not_true, Bool.false_eq_true, if_false]
      cases hx : executeLine O qy idx w s.ls.es fl.line with
      | ok p =>
        obtain ⟨es, res, lim⟩ := p
        cases lim <;> cases res <;> simp only [Bool.false_eq_true, if_false, if_true] <;> first | rfl | (rw [ih])
      | error k => simp only
      | panic site => simp only
      | oracleMissing what => simp only
    · have : fl.readable = false := by simpa using hr
      simp only [this, Bool.not_false, if_true]

/-- the traced file loop keeps "printed = text rendering of the calls" -/
theorem runFileT_printed (O : Oracles) (qy : Query) (idx : JoinIndex) (w : Bool) (fls : List FileLine) (s : TraceState)
    (h : s.ls.out.printed = renderCalls s.calls) :
    (runFileT O qy idx w fls s).ls.out.printed = renderCalls (runFileT O qy idx w fls s).calls := by
  induction fls generalizing s with
  | nil => simpa [runFileT] using h
  | cons fl rest ih =>
    rw [runFileT]
    by_cases hr : fl.readable = true
    · simp only [hr, Bool.not_true, Bool.false_eq_true, if_false]
      cases hx : executeLine O qy idx w s.ls.es fl.line with
      | ok p =>
        obtain ⟨es, lo⟩ := p
        simp only
        have hp : s.ls.out.printed ++ (match lo.result with
            | some r => printResult r false
            | none => []) = renderCalls (s.calls ++ callsOf lo.result) := by
          rw [renderCalls_append, renderCalls_callsOf, h]
        by_cases hl : lo.reachedLimit = true
        · simp only [hl, if_true]
          exact hp
        · simp only [hl, Bool.false_eq_true, if_false]
          exact ih _ hp
      | error k => simpa [failWith] using h
      | panic site => simpa [failWith] using h
      | oracleMissing what => simpa [failWith] using h
    · have : fl.readable = false := by simpa using hr
      simp only [this, Bool.not_false, if_true]
      exact h

theorem runFilesT_ls (O : Oracles) (qy : Query) (idx : JoinIndex) (w : Bool) (files : List (List FileLine)) (s : TraceState) :
    (runFilesT O qy idx w files s).ls = runFiles O qy idx w none files s.ls := by
  induction files generalizing s with
  | nil => simp [runFilesT, runFiles]
  | cons f rest ih =>
    rw [runFilesT, runFiles]
    by_cases hs : (s.ls.stop || reachedLimit qy s.ls.es) = true
    · simp only [hs, if_true]
    · simp only [hs, Bool.false_eq_true, if_false]
      rw [runFileT_ls]
      by_cases h2 : (runFile O qy idx w none f s.ls).stop = true
      · simp only [h2, if_true]
        exact runFileT_ls O qy idx w f s
      · simp only [h2, Bool.false_eq_true, if_false]
        rw [ih, runFileT_ls]

theorem runFilesT_printed (O : Oracles) (qy : Query) (idx : JoinIndex) (w : Bool) (files : List (List FileLine)) (s : TraceState)
    (h : s.ls.out.printed = renderCalls s.calls) :
    (runFilesT O qy idx w files s).ls.out.printed = renderCalls (runFilesT O qy idx w files s).calls := by
  induction files generalizing s with
  | nil => simpa [runFilesT] using h
  | cons f rest ih =>
    rw [runFilesT]
    by_cases hs : (s.ls.stop || reachedLimit qy s.ls.es) = true
    · simp only [hs, if_true]
      exact h
    · simp only [hs, Bool.false_eq_true, if_false]
      have h1 := runFileT_printed O qy idx w f s h
      by_cases h2 : (runFileT O qy idx w f s).ls.stop = true
      · simp only [h2, if_true]
        exact h1
      · simp only [h2, Bool.false_eq_true, if_false]
        exact ih _ h1

/-- the run component of the traced run is `runWithIndex` -/
theorem runWithIndexT_out (O : Oracles) (qy : Query) (idxO : Outcome JoinIndex) (files : List (List FileLine)) :
    (runWithIndexT O qy idxO files).out = runWithIndex O qy idxO files none := by
  unfold runWithIndexT runWithIndex
  cases idxO with
  | ok idx =>
    cases hq : qy.stmt with
    | select q =>
      simp only [runFilesT_ls]
      split <;> rfl
    | aggregate q =>
      simp only [runFilesT_ls]
      split
      · rfl
      · show (match finalResult O q (runFiles O qy idx (!true) none files {}).es with
          | .ok r => _
          | o => _ : TraceOut).out = _
        cases finalResult O q (runFiles O qy idx (!true) none files {}).es <;> rfl
  | error k => rfl
  | panic s => rfl
  | oracleMissing w => rfl

theorem runWithIndexT_printed (O : Oracles) (qy : Query) (idxO : Outcome JoinIndex) (files : List (List FileLine)) :
    (runWithIndexT O qy idxO files).out.printed = renderCalls (runWithIndexT O qy idxO files).calls := by
  unfold runWithIndexT
  cases idxO with
  | ok idx =>
    cases hq : qy.stmt with
    | select q =>
      simp only
      have hp := runFilesT_printed O qy idx (!false) files {} (by simp [renderCalls])
      split <;> exact hp
    | aggregate q =>
      simp only
      have hp := runFilesT_printed O qy idx (!true) files {} (by simp [renderCalls])
      split
      · exact hp
      · cases finalResult O q (runFilesT O qy idx (!true) files {}).ls.es with
        | ok r =>
          simp only
          rw [renderCalls_append, hp]
          simp [renderCalls, PrintCall.text]
        | error k => simpa [failWith] using hp
        | panic s => simpa [failWith] using hp
        | oracleMissing w => simpa [failWith] using hp
  | error k => simp [failWith, renderCalls]
  | panic s => simp [failWith, renderCalls]
  | oracleMissing w => simp [failWith, renderCalls]

/-- **the traced run is the run**: its `RunOut` is the one of `runBatchI` without interrupts -/
theorem runBatchT_out (O : Oracles) (qy : Query) (joined : Option (List FileLine)) (files : List (List FileLine)) :
    (runBatchT O qy joined files).out = (runBatchI O qy joined files none none).1 := by
  unfold runBatchT runBatchI joinSetup
  rw [runWithIndexT_out]
  cases qy.join with
  | none => rfl
  | some j => simp

/-- the recorded calls, rendered in the text format, are the printed lines of the run -/
theorem runBatchT_printed (O : Oracles) (qy : Query) (joined : Option (List FileLine)) (files : List (List FileLine)) :
    (runBatchT O qy joined files).out.printed = renderCalls (runBatchT O qy joined files).calls :=
  runWithIndexT_printed O qy _ files

end Sqlgrep
