import SqlgrepModel.Lemmas.AggPermTable
/-
Follow mode at engine level (`ExecutionConfig::default()`: update, then result, per line) against batch mode
(update-only per line, one result at the end): the table shown after the k-th line.
-/
set_option linter.unusedSimpArgs false
namespace Sqlgrep
open Value Spec.Agg

/-- `AggregateExecutionEngine::execute` for one row: update; if WHERE admitted the row, a full result -/
def followStep (O : Oracles) (q : AggStmt) (st : AggState) (env : Env) : Outcome (AggState × Option RowOut) :=
  (aggUpdateRow O q st env).bind (fun p =>
    if p.2 then (aggResult O q p.1).bind (fun r => .ok (r.1, some r.2)) else .ok (p.1, none))

/-- the state after feeding rows one at a time with update + result -/
def followRun (O : Oracles) (q : AggStmt) : List Env → AggState → Outcome AggState
  | [], st => .ok st
  | env :: rest, st => (followStep O q st env).bind (fun p => followRun O q rest p.1)

/-- the only state change of `execute_result` is `publishPercentiles` -/
theorem aggResult_state {O : Oracles} {q : AggStmt} {st st2 : AggState} {out : RowOut} (h : aggResult O q st = .ok (st2, out)) :
    st2 = publishPercentiles st := by
  rw [aggResult_eq] at h
  obtain ⟨_, _, h⟩ := obind_ok h
  obtain ⟨_, _, h⟩ := obind_ok h
  simp only [Outcome.ok.injEq, Prod.mk.injEq] at h
  exact h.1.symm

/-- `R s g → R (result s).state g`, and an update in between keeps `R` with the row appended -/
theorem coupledP_followStep {O : Oracles} {q : AggStmt} {st st' : AggState} {rows : List (List Value × Env)} {env : Env}
    {r : Option RowOut} (hc : CoupledP O q st rows) (h : followStep O q st env = .ok (st', r)) :
    (passes O q env = some false ∧ CoupledP O q st' rows) ∨
    (passes O q env = some true ∧ ∃ key, keyOf O q env = some key ∧ CoupledP O q st' (rows ++ [(key, env)])) := by
  unfold followStep at h
  obtain ⟨⟨st1, u⟩, h1, h2⟩ := obind_ok h
  obtain ⟨hpass, hfalse, htrue⟩ := coupledP_step hc h1
  cases u with
  | false =>
    simp only [Bool.false_eq_true, if_false, Outcome.ok.injEq, Prod.mk.injEq] at h2
    rw [← h2.1]
    exact Or.inl ⟨hpass, hfalse rfl⟩
  | true =>
    simp only [if_true] at h2
    obtain ⟨⟨st2, out⟩, h3, h4⟩ := obind_ok h2
    simp only [Outcome.ok.injEq, Prod.mk.injEq] at h4
    obtain ⟨key, hkey, hc1⟩ := htrue rfl
    rw [← h4.1, aggResult_state h3]
    exact Or.inr ⟨hpass, key, hkey, coupledP_publish hc1⟩

theorem followRun_coupledP {O : Oracles} {q : AggStmt} (envs : List Env) {st st' : AggState} {rows : List (List Value × Env)}
    (hc : CoupledP O q st rows) (h : followRun O q envs st = .ok st') :
    ∃ more, keyedRows O q envs = some more ∧ CoupledP O q st' (rows ++ more) := by
  induction envs generalizing st rows with
  | nil =>
    simp only [followRun, Outcome.ok.injEq] at h
    subst h
    exact ⟨[], rfl, by simpa using hc⟩
  | cons env rest ih =>
    simp only [followRun] at h
    obtain ⟨⟨st1, r⟩, h1, h2⟩ := obind_ok h
    rcases coupledP_followStep hc h1 with ⟨hpass, hc1⟩ | ⟨hpass, key, hkey, hc1⟩
    · obtain ⟨more, hm, hcm⟩ := ih hc1 h2
      exact ⟨more, by simp [keyedRows, hpass, hm], hcm⟩
    · obtain ⟨more, hm, hcm⟩ := ih hc1 h2
      refine ⟨(key, env) :: more, by simp [keyedRows, hpass, hkey, hm], ?_⟩
      simpa using hcm

/-- the specification's table for rows whose keyed form is known -/
theorem table_of_keyed {O : Oracles} {q : AggStmt} {envs : List Env} {rows : List (List Value × Env)} {t : List (List Value)}
    (hr : keyedRows O q envs = some rows) (h : table O q envs = some t) :
    tableOfGroups O q (groups rows) = some t ∧ KeysExact (rows.map (·.1)) := by
  unfold table at h
  simp only [hr] at h
  split at h
  · simp at h
  · rename_i hcond
    simp only [Bool.or_eq_true, Bool.not_eq_true', not_or, Bool.not_eq_false] at hcond
    exact ⟨h, keysExact_of_simple hcond.2⟩

/-- the table `execute_result` shows for a state coupled (in the follow-mode sense) to the rows seen so far -/
theorem aggResult_shows_spec {O : Oracles} {q : AggStmt} (hwf : StmtWF q) (hlim : q.limit = none) {envs : List Env}
    {rows : List (List Value × Env)} {st st2 : AggState} {out : RowOut}
    (hr : keyedRows O q envs = some rows) (hc : CoupledP O q st rows) (hres : aggResult O q st = .ok (st2, out))
    {t : List (List Value)} (hspec : table O q envs = some t) (hclass : deviationClass O q envs = "") :
    out = { columns := q.items.map (·.name), rows := t } := by
  obtain ⟨htab, hex⟩ := table_of_keyed hr hspec
  obtain ⟨hvis, hd15⟩ := deviationClass_empty hr hclass
  have := finalResultP_refines hwf hc hex htab hvis hd15
  simp only [finalResult, hres, hlim, bind, Outcome.bind, pure, Outcome.ok.injEq] at this
  exact this

/-- **C11, aggregate half, engine level**: feed the rows `pre` one at a time with update + result, then the row `env`
(admitted by WHERE): the table shown for `env` is the table a batch run (update only per row, one result) over
`pre ++ [env]` shows — for statements without LIMIT, whenever the specification fixes the outcome for that prefix and
the prefix is outside D10/D15. -/
theorem follow_table_eq_batch {O : Oracles} {q : AggStmt} (hwf : StmtWF q) (hlim : q.limit = none) (pre : List Env) (env : Env)
    {sf sf1 sf2 sb : AggState} {out : RowOut}
    (hfollow : followRun O q pre {} = .ok sf) (hupd : aggUpdateRow O q sf env = .ok (sf1, true))
    (hres : aggResult O q sf1 = .ok (sf2, out))
    (hbatch : aggRun O q (pre ++ [env]) {} = .ok sb)
    {t : List (List Value)} (hspec : table O q (pre ++ [env]) = some t) (hclass : deviationClass O q (pre ++ [env]) = "") :
    finalResult O q { agg := sb } = .ok out := by
  obtain ⟨rows, hrows, hc⟩ := followRun_coupledP pre (coupledP_init O q) hfollow
  simp only [List.nil_append] at hc
  obtain ⟨hpass, _, htrue⟩ := coupledP_step hc hupd
  obtain ⟨key, hkey, hc1⟩ := htrue rfl
  have hk1 : keyedRows O q [env] = some [(key, env)] := by simp [keyedRows, hpass, hkey]
  have hkall := keyedRows_append O q pre [env] hrows hk1
  rw [aggResult_shows_spec hwf hlim hkall hc1 hres hspec hclass]
  exact engine_refines_spec hwf _ hbatch hspec hclass

/-- the environment a line of a run without join presents to the statement -/
def lineEnv (t : TableInfo) (l : Line) : Env := envOfInsertions (columnsMapping t l.row l.text)

/-- `ExecutionEngine::execute(line, default config)` for an aggregate statement without join is `followStep` on the
aggregation state (plus the LIMIT bookkeeping of `update_limit`) -/
theorem executeLine_follow_agg (O : Oracles) (qy : Query) (q : AggStmt) (idx : JoinIndex) (es : EngineState) (l : Line)
    (hq : qy.stmt = .aggregate q) (hj : qy.join = none) (hadm : anyResult l.row = true) :
    executeLine O qy idx true es l =
      (followStep O q es.agg (lineEnv qy.table l)).bind (fun p =>
        .ok (updateLimit false q.limit { es with agg := p.1 } p.2)) := by
  simp only [executeLine, hq, hadm, lineEnvs, hj, Bool.not_true, Bool.false_eq_true, if_false, bind, Outcome.bind, if_true,
    aggEnvs, followStep, lineEnv, pure]
  cases h1 : aggUpdateRow O q es.agg (envOfInsertions (columnsMapping qy.table l.row l.text)) with
  | ok p =>
    obtain ⟨st1, u⟩ := p
    cases u with
    | false => simp [aggEnvs]
    | true =>
      simp only [aggEnvs, Bool.false_or, if_true]
      cases h2 : aggResult O q st1 with
      | ok r => rfl
      | error k => rfl
      | panic k => rfl
      | oracleMissing k => rfl
  | error k => rfl
  | panic k => rfl
  | oracleMissing k => rfl

/-- `execute(line, update-only config)` (batch mode) is one `execute_update` -/
theorem executeLine_batch_agg (O : Oracles) (qy : Query) (q : AggStmt) (idx : JoinIndex) (es : EngineState) (l : Line)
    (hq : qy.stmt = .aggregate q) (hj : qy.join = none) (hadm : anyResult l.row = true) :
    executeLine O qy idx false es l =
      (aggUpdateRow O q es.agg (lineEnv qy.table l)).bind (fun p =>
        .ok ({ es with agg := p.1 }, { result := none, reachedLimit := false })) := by
  simp only [executeLine, hq, hadm, lineEnvs, hj, Bool.not_true, Bool.false_eq_true, if_false, bind, Outcome.bind,
    aggEnvs, lineEnv, pure]
  cases h1 : aggUpdateRow O q es.agg (envOfInsertions (columnsMapping qy.table l.row l.text)) with
  | ok p => simp [aggEnvs]
  | error k => rfl
  | panic k => rfl
  | oracleMissing k => rfl

end Sqlgrep
