import SqlgrepModel.Lemmas.Variance
import SqlgrepModel.Props.C04
/-
C04 — STDDEV / VARIANCE against an INDEPENDENT definition, and the choices of the code the sentence does not fix.

The property sentence says "STDDEV / VARIANCE … over the argument's non-NULL values"; the README says `stddev(x)`,
`variance(x)`. `Spec/Agg.lean` `populationVariance` (to which the model's `stddevCalc` is definitionally equal, and which the
engine is proved to show: `Props.C04.aggregate_fold_refines`) is the CODE'S formula, evaluated in REAL arithmetic step by
step: `(Σx² − (Σx)²/n) / n`. That the model equals that formula is therefore true by construction and says nothing about
whether the formula is a variance. This file states what IS and what IS NOT the case, against `Spec/Variance.lean` (the
textbook population variance `σ² = (1/n)·Σ(x − μ)²` over exact rationals):

  (i)   `onepass_formula_is_the_variance_over_rationals`: over ℚ the formula and the definition are equal; `variance_nonneg`,
        `variance_of_equal_values_is_zero`, `variance_of_ints_cross_multiplied` (`n²·σ² = n·Σx² − (Σx)²`).
  (ii)  `variance_exact_where_no_step_rounds`, `stddev_exact_where_no_step_rounds`: for INT arguments on which no step of the
        formula rounds (`onePassExactInts`, `sqrtExact`: decidable; satisfied e.g. by small integers whose count is a power of
        two) the REAL the model shows IS the textbook variance / standard deviation, exactly; `variance_exact_where_no_step_rounds_real`
        the same for REAL arguments whose running sums are exact as well (`onePassExactReals`); `engine_variance_exact_where_no_step_rounds`
        carries it to the engine's running computation. Examples.
  (iii) `every_step_is_correctly_rounded`: in general each of the four operations returns the REAL nearest to the exact
        result on its (already rounded) operands — and that is all. It does NOT follow that the result is the REAL nearest
        to the variance, or near it, or non-negative: `Σx² − (Σx)²/n` cancels. FALSE in general, with kernel-evaluated
        witnesses that were run on the real program (candidate finding **D72**, see below):
          * `d72_variance_negative_real`:   VARIANCE over the REALs 0.1, 0.1, 0.1 is −1.16e-18, STDDEV is NaN (exact: 0, 0);
          * `d72_variance_negative_int`:    VARIANCE over seven INTs 1000000007 is −146.29, STDDEV is NaN (exact: 0, 0);
          * `d72_variance_of_equal_ints_positive`: VARIANCE over three INTs 300000007 is 10.67, STDDEV 3.27 (exact: 0, 0).
  (iv)  the CHOICES of the code that the sentence does not fix and the specification mirrors, as kernel-evaluated facts:
        population not sample (`choice_population_not_sample`), PERCENTILE = nearest rank at index `min(⌊p·n⌋, n−1)`
        (`choice_percentile_nearest_rank`), AVG over INT truncates towards zero (`choice_avg_int_truncates`).

Candidate finding D72 (reported, /repo not repaired, nothing weakened): on the real program (sqlgrep 0.8.2, /repo 36cb45c)
  `CREATE TABLE t(line = 'v=(.*)', line[1] => v REAL);`, three lines `v=0.1`, `SELECT VARIANCE(v), STDDEV(v) FROM t`
prints `variance0: -0.00, stddev1: NaN` (JSON: `{"variance0":-1.1564823173178713e-18,"stddev1":null}`); with `v INT` and seven
lines `v=1000000007` it prints `variance0: -146.29, stddev1: NaN`; with three lines `v=300000007` it prints
`variance0: 10.67, stddev1: 3.27`. A variance is never negative and the standard deviation of equal values is 0, so these
cells are not "computed from the rows of the group" in any reading of VARIANCE / STDDEV; model and code AGREE (the model
mirrors the one-pass formula), it is the formula that does not compute a variance once `(Σx)²/n` needs more than 53 bits.
-/
namespace Sqlgrep.Props.C04Variance
open Sqlgrep Sqlgrep.Value Sqlgrep.Spec.Agg Sqlgrep.Spec.Variance Sqlgrep.Variance

/-- the exact values of a list of INTs -/
def ratsOfInts (is : List Int) : List Rat := is.map (fun (i : Int) => (i : Rat))

/-! ### (i) the formula and the definition, over exact rationals -/

/-- **over exact rationals the one-pass formula IS the population variance**: `(1/n)·Σ(x − μ)² = (Σx² − (Σx)²/n) / n` for
every non-empty list of rationals -/
theorem onepass_formula_is_the_variance_over_rationals (xs : List Rat) (h : xs ≠ []) :
    popVariance xs = ((xs.map (fun x => x ^ 2)).sum - xs.sum ^ 2 / xs.length) / xs.length :=
  popVariance_eq_onepass xs h

/-- a variance is never negative -/
theorem variance_nonneg (xs : List Rat) : 0 ≤ popVariance xs := popVariance_nonneg xs

/-- the variance of `n` equal values is 0 (and so is their standard deviation) -/
theorem variance_of_equal_values_is_zero (n : Nat) (c : Rat) :
    popVariance (List.replicate n c) = 0 ∧ IsStdDev (List.replicate n c) 0 := by
  refine ⟨popVariance_const n c, ?_, ?_⟩
  · exact Rat.le_refl
  · rw [popVariance_const]; grind

/-- for INT inputs in integers only: `n²·σ² = n·Σx² − (Σx)²` -/
theorem variance_of_ints_cross_multiplied (is : List Int) (h : is ≠ []) :
    popVariance (ratsOfInts is) = (varNumer is : Rat) / ((is.length : Rat) * is.length) := popVariance_ints is h

/-! ### (ii) where no step rounds the model shows the variance, exactly -/

/-- the 64-bit range conditions under which the specification (and the code) answer at all for INT arguments: every
square, every partial sum and every partial sum of squares is an i64 -/
def sumsInRange (is : List Int) : Bool :=
  (is.map (fun x => x * x)).all inI64 && partialSumsOk inI64 0 is && partialSumsOk inI64 0 (is.map (fun x => x * x))

theorem ints_map_int' (l : List Int) : ints (l.map Value.int) = some l := by
  induction l with
  | nil => rfl
  | cons x xs ih => simp only [ints, List.map_cons, asInt, collect_cons_some] at ih ⊢; rw [ih]; rfl

theorem spread_variance (n : Int) (s q : Nat) : spread n true s q = populationVariance n s q := by
  simp only [spread, if_true]

theorem stddevOf_ints (isVar : Bool) (i : Int) (is : List Int) (hrange : sumsInRange (i :: is) = true) :
    stddevOf isVar ((i :: is).map Value.int) =
      some (.real (spread (i :: is).length isVar (F64.ofInt (intSum (i :: is))) (F64.ofInt (intSum ((i :: is).map (fun x => x * x)))))) := by
  have hi := ints_map_int' (i :: is)
  unfold sumsInRange at hrange
  simp only [List.map_cons] at hi
  unfold stddevOf
  simp only [List.map_cons, hi] at hrange ⊢
  rw [if_pos hrange]

/-- the specification's (= the model's) answer for INT arguments within range, unfolded -/
theorem stddev_of_ints (e : Expr) (isVar : Bool) (vs : List Value) (is : List Int) (hne : is ≠ [])
    (h : nonNull vs = is.map Value.int) (hrange : sumsInRange is = true) :
    aggregate (.stddev e isVar) vs =
      some (.real (spread is.length isVar (F64.ofInt (intSum is)) (F64.ofInt (intSum (is.map (fun x => x * x)))))) := by
  cases is with
  | nil => exact absurd rfl hne
  | cons i is =>
    simp only [aggregate, h]
    exact stddevOf_ints isVar i is hrange

/-- a cell is the REAL with bit pattern `b` (decidable form, for kernel evaluation) -/
theorem real_of_bits {o : Option Value} {b : Nat} (h : o.bind asReal = some b) : o = some (.real b) := by
  cases o with
  | none => simp at h
  | some v => cases v <;> simp [asReal] at h ⊢; exact h
/-- a cell is the INT `i` (decidable form) -/
theorem int_of_bits {o : Option Value} {i : Int} (h : o.bind asInt = some i) : o = some (.int i) := by
  cases o with
  | none => simp at h
  | some v => cases v <;> simp [asInt] at h ⊢; exact h

/-- **(ii) VARIANCE.** For INT arguments within the 64-bit range on which no step of the one-pass formula rounds
(`onePassExactInts`, decidable), the REAL shown by the specification — hence by the model and, through the C04 refinement, by
the engine — is finite and its exact value is the textbook population variance of the values. -/
theorem variance_exact_where_no_step_rounds (e : Expr) (vs : List Value) (is : List Int) (hne : is ≠ [])
    (h : nonNull vs = is.map Value.int) (hrange : sumsInRange is = true) (hex : onePassExactInts is = true) :
    ∃ v, aggregate (.stddev e true) vs = some (.real v) ∧ F64.IsExactly v (popVariance (ratsOfInts is)) := by
  refine ⟨_, stddev_of_ints e true vs is hne h hrange, ?_⟩
  rw [spread_variance]
  exact onePass_exact_value is hne hex

/-- **(ii) STDDEV.** … and where the square root does not round either (`sqrtExact`), the REAL shown for STDDEV is finite,
non-negative, and its square is exactly the population variance -/
theorem stddev_exact_where_no_step_rounds (e : Expr) (vs : List Value) (is : List Int) (hne : is ≠ [])
    (h : nonNull vs = is.map Value.int) (hrange : sumsInRange is = true) (hex : onePassExactInts is = true)
    (hr : sqrtExact (populationVariance is.length (F64.ofInt (intSum is)) (F64.ofInt (intSum (is.map (fun x => x * x))))) = true) :
    ∃ r, aggregate (.stddev e false) vs = some (.real r) ∧ F64.isFinite r = true ∧ IsStdDev (ratsOfInts is) (F64.toRat r) := by
  obtain ⟨hf, hsd⟩ := onePass_exact_stddev is hne hex hr
  exact ⟨_, stddev_of_ints e false vs is hne h hrange, hf, hsd⟩

/-- … and the engine's running computation (`update_aggregate` folded over the group's values) shows that very REAL -/
theorem engine_variance_exact_where_no_step_rounds (e : Expr) (vs : List Value) (is : List Int) (hne : is ≠ [])
    (hvs : vs ≠ []) (h : nonNull vs = is.map Value.int) (hrange : sumsInRange is = true) (hex : onePassExactInts is = true) :
    ∃ c v, foldV (.stddev e true) vs {} = .ok c ∧ shownValue (.stddev e true) c = .real v ∧
      F64.IsExactly v (popVariance (ratsOfInts is)) := by
  obtain ⟨v, hv, hx⟩ := variance_exact_where_no_step_rounds e vs is hne h hrange hex
  obtain ⟨c, hc, hs, _⟩ := Props.C04.aggregate_fold_refines (.stddev e true) vs (.real v) hvs hv rfl
  exact ⟨c, v, hc, hs, hx⟩

theorem reals_map_real' (l : List Nat) : reals (l.map Value.real) = some l := by
  induction l with
  | nil => rfl
  | cons x xs ih => simp only [reals, List.map_cons, asReal, collect_cons_some] at ih ⊢; rw [ih]; rfl

theorem ints_real_none (y : Nat) (ys : List Value) : ints (Value.real y :: ys) = none := by
  simp [ints, asInt, collect]

/-- **(ii) VARIANCE of REAL arguments.** For finite REAL arguments on which neither the running sums `Σx`, `Σ(x·x)` nor the
formula round (`onePassExactReals`, decidable) and whose first value is not `-0.0`, the REAL shown is finite and its exact value
is the textbook population variance of the exact values of the arguments. -/
theorem variance_exact_where_no_step_rounds_real (e : Expr) (vs : List Value) (r : Nat) (rs : List Nat)
    (h : nonNull vs = (r :: rs).map Value.real)
    (hz : zeroNeutral (r :: rs) = true ∧ zeroNeutral ((r :: rs).map (fun x => F64.mul x x)) = true)
    (hex : onePassExactReals (r :: rs) = true) :
    ∃ v, aggregate (.stddev e true) vs = some (.real v) ∧ F64.IsExactly v (popVariance ((r :: rs).map F64.toRat)) := by
  have hr := reals_map_real' (r :: rs)
  have hv : aggregate (.stddev e true) vs = some (.real (spread (r :: rs).length true (realSum (r :: rs))
      (realSum ((r :: rs).map (fun x => F64.mul x x))))) := by
    simp only [List.map_cons] at hr
    simp only [aggregate, h, stddevOf, List.map_cons, ints_real_none, hr]
    simp only [List.map_cons] at hz
    simp only [hz.1, hz.2, Bool.and_self, if_true]
  refine ⟨_, hv, ?_⟩
  rw [spread_variance]
  exact onePass_exact_value_reals (r :: rs) (by simp) hex

/-! examples: the hypotheses hold on non-trivial values, and the conclusions are evaluated -/

/-- 2, 4, 4, 4, 5, 5, 7, 9 (mean 5): no step rounds; VARIANCE is the REAL 4.0, STDDEV the REAL 2.0 — the textbook values -/
example : sumsInRange [2, 4, 4, 4, 5, 5, 7, 9] = true ∧ onePassExactInts [2, 4, 4, 4, 5, 5, 7, 9] = true ∧
    sqrtExact (populationVariance 8 (F64.ofInt 40) (F64.ofInt 232)) = true := by decide +kernel
example : popVariance (ratsOfInts [2, 4, 4, 4, 5, 5, 7, 9]) = 4 := by decide +kernel
example : aggregate (.stddev (.column "v") true) [.int 2, .int 4, .null, .int 4, .int 4, .int 5, .int 5, .int 7, .int 9] =
      some (.real 0x4010000000000000) ∧
    aggregate (.stddev (.column "v") false) [.int 2, .int 4, .null, .int 4, .int 4, .int 5, .int 5, .int 7, .int 9] =
      some (.real 0x4000000000000000) ∧
    F64.toRat 0x4010000000000000 = 4 ∧ F64.toRat 0x4000000000000000 = 2 :=
  ⟨real_of_bits (by decide +kernel), real_of_bits (by decide +kernel), by decide +kernel, by decide +kernel⟩
/-- REAL arguments 0.5, 1.5, −2.25, 100.0 (bit patterns): sums, squares and the formula are exact; VARIANCE is exactly
`1880.01171875` = the textbook variance of these four numbers -/
example : onePassExactReals [0x3fe0000000000000, 0x3ff8000000000000, 0xc002000000000000, 0x4059000000000000] = true ∧
    popVariance ([0x3fe0000000000000, 0x3ff8000000000000, 0xc002000000000000, 0x4059000000000000].map F64.toRat) = 481283 / 256 := by
  decide +kernel
/-- −3, 1, 5, 9 (mean 3): variance 20, not a perfect square: `onePassExactInts` holds, `sqrtExact` does not (√20 rounds) -/
example : onePassExactInts [-3, 1, 5, 9] = true ∧ popVariance (ratsOfInts [-3, 1, 5, 9]) = 20 ∧
    sqrtExact (populationVariance 4 (F64.ofInt 12) (F64.ofInt 116)) = false := by decide +kernel
/-- 1, 2, 3: the variance 2/3 is no REAL, so some step must round: the predicate is false, the theorem silent; the REAL shown
(0x3fe5555555555555) is the REAL nearest to 2/3 here, but nothing proved says so in general -/
example : onePassExactInts [1, 2, 3] = false ∧ popVariance (ratsOfInts [1, 2, 3]) = 2 / 3 ∧
    aggregate (.stddev (.column "v") true) [.int 1, .int 2, .int 3] = some (.real 0x3fe5555555555555) :=
  ⟨by decide +kernel, by decide +kernel, real_of_bits (by decide +kernel)⟩

/-! ### (iii) in general: every step correctly rounded, the result not -/

/-- **every step of the formula is correctly rounded on its own operands** (finite operands and results, `n ≠ 0`): no REAL
`y` is nearer to the exact `s·s`, `p/n`, `q − d`, `e/n` than the REALs `p`, `d`, `e`, `v` the model computes. The composition
of four correctly rounded steps is NOT a correctly rounded variance (next theorems). -/
theorem every_step_is_correctly_rounded (count : Int) (s q : Nat) (hs : F64.isFinite s = true) (hq : F64.isFinite q = true)
    (hn : F64.isFinite (steps count s q).n = true) (hz : F64.mag (steps count s q).n ≠ 0)
    (hp : F64.isFinite (steps count s q).p = true) (hd : F64.isFinite (steps count s q).d = true)
    (he : F64.isFinite (steps count s q).e = true) (hv : F64.isFinite (steps count s q).v = true) (y : Nat) :
    let t := steps count s q
    populationVariance count s q = t.v ∧
    DecFloat.adist (F64.umag s * F64.umag s) (F64.umag t.p * F64.unitScale) ≤ DecFloat.adist (F64.umag s * F64.umag s) (F64.umag y * F64.unitScale) ∧
    DecFloat.adist (F64.umag t.p * F64.unitScale) (F64.umag t.d * F64.umag t.n) ≤ DecFloat.adist (F64.umag t.p * F64.unitScale) (F64.umag y * F64.umag t.n) ∧
    DecFloat.adist (F64.units q + F64.units (F64.neg t.d)).natAbs (F64.umag t.e) ≤ DecFloat.adist (F64.units q + F64.units (F64.neg t.d)).natAbs (F64.umag y) ∧
    DecFloat.adist (F64.umag t.e * F64.unitScale) (F64.umag t.v * F64.umag t.n) ≤ DecFloat.adist (F64.umag t.e * F64.unitScale) (F64.umag y * F64.umag t.n) :=
  ⟨rfl, onePass_steps_nearest count s q hs hq hn hz hp hd he hv y⟩

/-- the REAL nearest to 0.1 -/
def tenth : Nat := 0x3fb999999999999a

/-- **D72, REAL arguments.** VARIANCE over the three REALs 0.1, 0.1, 0.1 is the NEGATIVE REAL `0xbc35555555555555`
(−1.1564823173178713e-18) and STDDEV is NaN — in the specification's formula, hence in the model, and on the real program.
The exact variance of the three (equal) values is 0, and 0.0 is a REAL. -/
theorem d72_variance_negative_real :
    aggregate (.stddev (.column "v") true) [.real tenth, .real tenth, .real tenth] = some (.real 0xbc35555555555555) ∧
    F64.signBit 0xbc35555555555555 = true ∧ F64.toRat 0xbc35555555555555 < 0 ∧
    aggregate (.stddev (.column "v") false) [.real tenth, .real tenth, .real tenth] = some (.real F64.canonNaN) ∧
    popVariance [F64.toRat tenth, F64.toRat tenth, F64.toRat tenth] = 0 := by
  refine ⟨real_of_bits (by decide +kernel), by decide +kernel, by decide +kernel, real_of_bits (by decide +kernel), popVariance_const 3 _⟩

/-- **D72, INT arguments.** VARIANCE over seven INTs 1000000007 is the negative REAL `0xc062492492492492` (−146.2857…),
STDDEV is NaN; every sum is far inside the 64-bit range (`sumsInRange`); the exact variance is 0. -/
theorem d72_variance_negative_int :
    sumsInRange (List.replicate 7 1000000007) = true ∧
    aggregate (.stddev (.column "v") true) (List.replicate 7 (.int 1000000007)) = some (.real 0xc062492492492492) ∧
    F64.toRat 0xc062492492492492 < 0 ∧
    aggregate (.stddev (.column "v") false) (List.replicate 7 (.int 1000000007)) = some (.real F64.canonNaN) ∧
    popVariance (ratsOfInts (List.replicate 7 1000000007)) = 0 := by
  refine ⟨by decide +kernel, real_of_bits (by decide +kernel), by decide +kernel, real_of_bits (by decide +kernel), by decide +kernel⟩

/-- **D72, the other direction.** VARIANCE over three INTs 300000007 is the REAL `0x4025555555555555` (10.666…) and STDDEV
`0x400a20bd700c2c3e` (3.2659…): a spread is shown although all values are equal (exact variance 0). -/
theorem d72_variance_of_equal_ints_positive :
    sumsInRange (List.replicate 3 300000007) = true ∧
    aggregate (.stddev (.column "v") true) (List.replicate 3 (.int 300000007)) = some (.real 0x4025555555555555) ∧
    aggregate (.stddev (.column "v") false) (List.replicate 3 (.int 300000007)) = some (.real 0x400a20bd700c2c3e) ∧
    F64.toRat 0x4025555555555555 > 10 ∧
    popVariance (ratsOfInts (List.replicate 3 300000007)) = 0 := by
  refine ⟨by decide +kernel, real_of_bits (by decide +kernel), real_of_bits (by decide +kernel), by decide +kernel, by decide +kernel⟩

/-- the engine shows exactly these cells (the C04 refinement applies: the specification answers): the running
`update_aggregate` over seven rows 1000000007 ends with the negative variance in the cell -/
theorem d72_engine_shows_negative_variance :
    ∃ c, foldV (.stddev (.column "v") true) (List.replicate 7 (.int 1000000007)) {} = .ok c ∧
      shownValue (.stddev (.column "v") true) c = .real 0xc062492492492492 := by
  obtain ⟨c, hc, hs, _⟩ := Props.C04.aggregate_fold_refines (.stddev (.column "v") true) (List.replicate 7 (.int 1000000007))
    (.real 0xc062492492492492) (by decide) d72_variance_negative_int.2.1 rfl
  exact ⟨c, hc, hs⟩

/-! ### (iv) the choices of the code that the sentence does not fix (mirrored by the specification) -/

/-- **population, not sample**: over 1, 2, 3 the population variance is 2/3 and the sample variance 1; VARIANCE shows
`0x3fe5555555555555` = 0.666… (and 1.0 would be `0x3ff0000000000000`) -/
theorem choice_population_not_sample :
    popVariance (ratsOfInts [1, 2, 3]) = 2 / 3 ∧ sampleVariance (ratsOfInts [1, 2, 3]) = 1 ∧
    aggregate (.stddev (.column "v") true) [.int 1, .int 2, .int 3] = some (.real 0x3fe5555555555555) :=
  ⟨by decide +kernel, by decide +kernel, real_of_bits (by decide +kernel)⟩

/-- **PERCENTILE(p) is the nearest-rank element at index `min(⌊p·n⌋, n−1)`** of the ascending values: the median of 1, 2 is 2
(not 1, not 1.5), PERCENTILE(1.0) is the greatest value, PERCENTILE(0.0) the least -/
theorem choice_percentile_nearest_rank :
    aggregate (.percentile (.column "v") 0x3fe0000000000000) [.int 2, .int 1] = some (.int 2) ∧
    aggregate (.percentile (.column "v") 0x3fe0000000000000) [.int 3, .int 2, .int 1] = some (.int 2) ∧
    aggregate (.percentile (.column "v") 0x3ff0000000000000) [.int 3, .int 1, .int 2] = some (.int 3) ∧
    aggregate (.percentile (.column "v") 0) [.int 3, .int 1, .int 2] = some (.int 1) :=
  ⟨int_of_bits (by decide +kernel), int_of_bits (by decide +kernel), int_of_bits (by decide +kernel), int_of_bits (by decide +kernel)⟩

/-- **AVG over INT is the truncating division** of the sum by the count (towards zero: 3/2 ↦ 1, −3/2 ↦ −1) -/
theorem choice_avg_int_truncates :
    aggregate (.avg (.column "v")) [.int 1, .int 2] = some (.int 1) ∧
    aggregate (.avg (.column "v")) [.int (-1), .int (-2)] = some (.int (-1)) :=
  ⟨int_of_bits (by decide +kernel), int_of_bits (by decide +kernel)⟩

end Sqlgrep.Props.C04Variance
