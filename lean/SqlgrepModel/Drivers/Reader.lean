import SqlgrepModel.Sexp
import SqlgrepModel.Model.Reader
/- Driver handlers for the reader models.
   `follow <head|tail> <cap> <initial> (<chunk>…)` → `delivered <n> <line>… retries <r>`   (C10)
   `lines (<file>…)`                               → `<ok|readerr> <total_lines> <line>…`   (C12, SELECT)
   `linecount (<file>…)`                           → `<ok|readerr> <total_lines>`           (C12, COUNT(*))
   `joinlines <main> <joined>`                     → `<ok|readerr> <total_lines> <line>…`   (C12, INNER JOIN on the whole line) -/
namespace Sqlgrep.Drivers.Reader
open Sqlgrep Sqlgrep.Reader

def showLines (ls : List (List Nat)) : String :=
  String.join (ls.map (fun l => " " ++ Sexp.showBytes l))

def handleFollow (args : List Sexp) : String :=
  match args with
  | [.atom mode, capS, initS, .list chunkS] =>
    match capS.nat?, initS.bytes?, chunkS.mapM Sexp.bytes? with
    | some cap, some init, some chunks =>
      let s0 := Follow.init init (mode == "head") cap
      let s := drive (driveFuel s0 chunks) s0 chunks
      s!"delivered {s.delivered.length}{showLines s.delivered} retries {s.retries}"
    | _, _, _ => "bad-case"
  | _ => "bad-case"

/-- the same run, answering the delivered lines only: used for schedules in which the writer also appends *between*
two polls of the reader (by `follow_exactly_once_in_order` and `follow_progress` the delivered sequence does not depend on
where the appends fall; the number of retries does) -/
def handleFollowDelivered (args : List Sexp) : String :=
  match args with
  | [.atom mode, capS, initS, .list chunkS] =>
    match capS.nat?, initS.bytes?, chunkS.mapM Sexp.bytes? with
    | some cap, some init, some chunks =>
      let s0 := Follow.init init (mode == "head") cap
      let s := drive (driveFuel s0 chunks) s0 chunks
      s!"delivered {s.delivered.length}{showLines s.delivered}"
    | _, _, _ => "bad-case"
  | _ => "bad-case"

def statusWord : Status Empty → String
  | .ok => "ok"
  | .readError => "readerr"
  | .engineError _ => "engineerr"

def handleLines (withLines : Bool) (args : List Sexp) : String :=
  match args with
  | [.list fileS] =>
    match fileS.mapM Sexp.bytes? with
    | some files =>
      let r := presented files
      s!"{statusWord r.2} {r.1.length}" ++ (if withLines then showLines r.1 else "")
    | none => "bad-case"
  | _ => "bad-case"

/-- `SELECT t.x, u.y FROM t INNER JOIN u::'joined' ON t.x = u.y`: the joined file is loaded first through the
same line loop (a read error there ends the run before any main line is counted); then every main line is
emitted once per equal joined line. -/
def handleJoin (args : List Sexp) : String :=
  match args with
  | [mainS, joinedS] =>
    match mainS.bytes?, joinedS.bytes? with
    | some main, some joined =>
      let j := presented [joined]
      match j.2 with
      | .ok =>
        let m := presented [main]
        let out := m.1.flatMap (fun l => (j.1.filter (· == l)).map (fun _ => l))
        s!"{statusWord m.2} {m.1.length}" ++ showLines out
      | st => s!"{statusWord st} 0"
    | _, _ => "bad-case"
  | _ => "bad-case"

end Sqlgrep.Drivers.Reader
