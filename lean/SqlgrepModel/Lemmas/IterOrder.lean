import SqlgrepModel.Model.Exec
import SqlgrepModel.Lemmas.ValueOrder
/-
Representation independence of the aggregation state (property C18).

The Rust engine keeps `BTreeMap<GroupKey, HashMap<usize, _>>`; the model keeps the inner hash maps as
association lists. The only place where the code *iterates* such a hash map is the first loop of
`execute_result` (percentile aggregators publish their value). Here: two states that denote the same maps but
list the entries of the inner maps in any order (`StRel`) are indistinguishable — every engine operation maps
related states to related states and gives equal outputs; in particular `publishPercentiles`, which folds over
the entries, does not depend on their order.
-/
namespace Sqlgrep.Iter
open Sqlgrep

/-! ### association lists as maps -/

abbrev keys {α : Type} (l : List (Nat × α)) : List Nat := l.map (·.1)

theorem alGet_nil {α : Type} (i : Nat) : alGet ([] : List (Nat × α)) i = none := rfl

theorem alGet_cons {α : Type} (p : Nat × α) (l : List (Nat × α)) (i : Nat) :
    alGet (p :: l) i = if p.1 = i then some p.2 else alGet l i := by
  unfold alGet
  rw [List.find?_cons]
  by_cases h : p.1 = i
  · have hb : (p.1 == i) = true := by simp [h]
    simp only [h, if_true]; simp
  · have hb : (p.1 == i) = false := by simp [h]
    simp only [hb, h, if_false]

theorem alGet_eq_none {α : Type} (l : List (Nat × α)) (i : Nat) : alGet l i = none ↔ i ∉ keys l := by
  induction l with
  | nil => simp [alGet_nil, keys]
  | cons p l ih =>
    rw [alGet_cons]
    by_cases h : p.1 = i
    · simp [h, keys]
    · simp only [h, if_false, ih, keys, List.map_cons, List.mem_cons, not_or]
      constructor
      · intro h2; exact ⟨fun e => h e.symm, h2⟩
      · intro h2; exact h2.2

theorem alGet_append_of_not_mem {α : Type} (l : List (Nat × α)) (i j : Nat) (v : α) :
    alGet (l ++ [(i, v)]) j = match alGet l j with
      | some x => some x
      | none => if i = j then some v else none := by
  induction l with
  | nil => simp [alGet_cons, alGet_nil]
  | cons p l ih =>
    simp only [List.cons_append, alGet_cons]
    by_cases h : p.1 = j
    · simp [h]
    · simp [h, ih]

theorem any_key {α : Type} (l : List (Nat × α)) (i : Nat) : l.any (·.1 == i) = true ↔ i ∈ keys l := by
  simp [keys, List.any_eq_true]

theorem alGet_map_set {α : Type} (l : List (Nat × α)) (i j : Nat) (v : α) :
    alGet (l.map (fun p => if p.1 == i then (i, v) else p)) j =
      if j = i then (if i ∈ keys l then some v else none) else alGet l j := by
  induction l with
  | nil => simp [alGet_nil]
  | cons p l ih =>
    rw [List.map_cons, alGet_cons, ih]
    by_cases hp : p.1 = i
    · by_cases hj : j = i <;> by_cases hpj : p.1 = j <;> simp_all [alGet_cons]
    · have hp' : ¬ i = p.1 := fun e => hp e.symm
      by_cases hj : j = i
      · subst hj
        simp only [hp, if_false, if_true, Bool.false_eq_true, beq_iff_eq]
        have e : (j ∈ keys (p :: l)) ↔ (j ∈ keys l) := by
          simp only [List.map_cons, List.mem_cons]
          exact ⟨fun h => h.resolve_left hp', Or.inr⟩
        by_cases hm : j ∈ keys l
        · rw [if_pos hm, if_pos (e.2 hm)]
        · rw [if_neg hm, if_neg (fun h => hm (e.1 h))]
      · by_cases hpj : p.1 = j <;> simp_all [alGet_cons]

/-- a HashMap insert: afterwards `i ↦ v`, every other key as before -/
theorem alGet_alSet {α : Type} (l : List (Nat × α)) (i j : Nat) (v : α) :
    alGet (alSet l i v) j = if j = i then some v else alGet l j := by
  unfold alSet
  by_cases h : l.any (·.1 == i) = true
  · rw [if_pos h, alGet_map_set]
    have hk := (any_key l i).1 h
    by_cases hj : j = i <;> simp [hj, hk]
  · rw [if_neg h, alGet_append_of_not_mem]
    have hk : i ∉ keys l := fun m => h ((any_key l i).2 m)
    by_cases hj : j = i
    · subst hj
      have := (alGet_eq_none l j).2 hk
      simp [this]
    · have hij : ¬ i = j := fun e => hj e.symm
      cases hg : alGet l j <;> simp [hj, hij]

theorem keys_alSet_nodup {α : Type} (l : List (Nat × α)) (i : Nat) (v : α) (h : (keys l).Nodup) :
    (keys (alSet l i v)).Nodup := by
  unfold alSet
  by_cases ha : l.any (·.1 == i) = true
  · rw [if_pos ha]
    have : keys (l.map (fun p => if p.1 == i then (i, v) else p)) = keys l := by
      unfold keys
      rw [List.map_map]
      apply List.map_congr_left
      intro p _
      by_cases hp : p.1 = i <;> simp [hp]
    rw [this]; exact h
  · rw [if_neg ha]
    have hk : i ∉ keys l := fun m => ha ((any_key l i).2 m)
    unfold keys at *
    rw [List.map_append, List.nodup_append]
    refine ⟨h, by simp, ?_⟩
    intro a ha' b hb
    simp at hb
    subst hb
    intro e; subst e; exact hk ha'

/-- the two lists denote the same map and neither lists a key twice (they may list the entries in different orders) -/
def SubRel {α : Type} (a b : List (Nat × α)) : Prop :=
  (∀ i, alGet a i = alGet b i) ∧ (keys a).Nodup ∧ (keys b).Nodup

theorem SubRel.symm {α : Type} {a b : List (Nat × α)} (h : SubRel a b) : SubRel b a :=
  ⟨fun i => (h.1 i).symm, h.2.2, h.2.1⟩

theorem SubRel.trans {α : Type} {a b c : List (Nat × α)} (h1 : SubRel a b) (h2 : SubRel b c) : SubRel a c :=
  ⟨fun i => (h1.1 i).trans (h2.1 i), h1.2.1, h2.2.2⟩

theorem SubRel.nil {α : Type} : SubRel ([] : List (Nat × α)) [] := ⟨fun _ => rfl, List.nodup_nil, List.nodup_nil⟩

theorem SubRel.set {α : Type} {a b : List (Nat × α)} (h : SubRel a b) (i : Nat) (v : α) :
    SubRel (Sqlgrep.alSet a i v) (Sqlgrep.alSet b i v) :=
  ⟨fun j => by rw [alGet_alSet, alGet_alSet, h.1 j], keys_alSet_nodup a i v h.2.1, keys_alSet_nodup b i v h.2.2⟩

/-- two inserts under different keys commute (as maps) -/
theorem SubRel.set_comm {α : Type} {a b : List (Nat × α)} (h : SubRel a b) (i j : Nat) (v w : α) (hij : i ≠ j) :
    SubRel (Sqlgrep.alSet (Sqlgrep.alSet a i v) j w) (Sqlgrep.alSet (Sqlgrep.alSet b j w) i v) := by
  refine ⟨fun k => ?_, keys_alSet_nodup _ _ _ (keys_alSet_nodup a i v h.2.1), keys_alSet_nodup _ _ _ (keys_alSet_nodup b j w h.2.2)⟩
  simp only [alGet_alSet, h.1 k]
  by_cases hk : k = j
  · subst hk
    have : ¬ k = i := fun e => hij e.symm
    simp [this]
  · simp [hk]

theorem mem_of_alGet {α : Type} {l : List (Nat × α)} {i : Nat} {v : α} (h : alGet l i = some v) : (i, v) ∈ l := by
  induction l with
  | nil => simp [alGet_nil] at h
  | cons p l ih =>
    rw [alGet_cons] at h
    by_cases hp : p.1 = i
    · simp only [hp, if_true, Option.some.injEq] at h
      have : p = (i, v) := by cases p; simp_all
      rw [this]; exact List.mem_cons_self
    · simp only [hp, if_false] at h
      exact List.mem_cons_of_mem _ (ih h)

theorem alGet_of_mem {α : Type} {l : List (Nat × α)} (hn : (keys l).Nodup) {i : Nat} {v : α} (h : (i, v) ∈ l) :
    alGet l i = some v := by
  induction l with
  | nil => cases h
  | cons p l ih =>
    rw [alGet_cons]
    simp only [keys, List.map_cons, List.nodup_cons] at hn
    rcases List.mem_cons.1 h with e | m
    · subst e; simp
    · have : p.1 ≠ i := by
        intro e
        apply hn.1
        rw [e]
        exact List.mem_map.2 ⟨(i, v), m, rfl⟩
      simp only [this, if_false]
      exact ih hn.2 m

theorem nodup_of_keys_nodup {α : Type} {l : List (Nat × α)} (h : (keys l).Nodup) : l.Nodup :=
  List.Pairwise.of_map (·.1) (fun a b hne e => hne (by rw [e])) h

/-- lists that denote the same map without repeated keys are permutations of each other: `SubRel` is exactly
"the same hash map, iterated in some other order" -/
theorem SubRel.perm {α : Type} {a b : List (Nat × α)} (h : SubRel a b) : a.Perm b := by
  rw [List.perm_ext_iff_of_nodup (nodup_of_keys_nodup h.2.1) (nodup_of_keys_nodup h.2.2)]
  intro p
  obtain ⟨i, v⟩ := p
  constructor
  · intro m
    have := alGet_of_mem h.2.1 m
    rw [h.1 i] at this
    exact mem_of_alGet this
  · intro m
    have := alGet_of_mem h.2.2 m
    rw [← h.1 i] at this
    exact mem_of_alGet this

theorem SubRel.of_perm {α : Type} {a b : List (Nat × α)} (p : a.Perm b) (hn : (keys a).Nodup) : SubRel a b := by
  have hb : (keys b).Nodup := (List.Perm.map _ p).nodup hn
  refine ⟨fun i => ?_, hn, hb⟩
  cases hg : alGet a i with
  | some v =>
    have := alGet_of_mem hb (p.mem_iff.1 (mem_of_alGet hg))
    rw [this]
  | none =>
    have hk := (alGet_eq_none a i).1 hg
    have : i ∉ keys b := fun m => hk ((List.Perm.map _ p).mem_iff.2 m)
    rw [(alGet_eq_none b i).2 this]

end Sqlgrep.Iter

namespace Sqlgrep.Iter
open Sqlgrep

/-! ### group maps (`BTreeMap<GroupKey, HashMap<usize, _>>`) -/

/-- same groups in the same (B-tree) order, each inner hash map the same map -/
inductive GmEq {α : Type} : GroupMap α → GroupMap α → Prop
  | nil : GmEq [] []
  | cons {k : List Value} {s1 s2 : List (Nat × α)} {r1 r2 : GroupMap α} :
      SubRel s1 s2 → GmEq r1 r2 → GmEq ((k, s1) :: r1) ((k, s2) :: r2)

theorem GmEq.symm {α : Type} {m1 m2 : GroupMap α} (h : GmEq m1 m2) : GmEq m2 m1 := by
  induction h with
  | nil => exact .nil
  | cons hs _ ih => exact .cons hs.symm ih

theorem GmEq.trans {α : Type} {m1 m2 m3 : GroupMap α} (h1 : GmEq m1 m2) (h2 : GmEq m2 m3) : GmEq m1 m3 := by
  induction h1 generalizing m3 with
  | nil => cases h2; exact .nil
  | cons hs _ ih =>
    cases h2 with
    | cons hs2 hr2 => exact .cons (hs.trans hs2) (ih hr2)

theorem gmLookup_nil {α : Type} (k : List Value) (i : Nat) : gmLookup ([] : GroupMap α) k i = none := rfl

theorem gmLookup_cons {α : Type} (k0 : List Value) (s : List (Nat × α)) (r : GroupMap α) (k : List Value) (i : Nat) :
    gmLookup ((k0, s) :: r) k i = if (Value.cmpList k0 k == .eq) = true then alGet s i else gmLookup r k i := by
  unfold gmLookup gmGet
  rw [List.find?_cons]
  by_cases h : (Value.cmpList k0 k == .eq) = true
  · simp only [h, if_true]; rfl
  · have hb : (Value.cmpList k0 k == .eq) = false := by simpa using h
    simp only [hb, Bool.false_eq_true, if_false]

theorem GmEq.lookup {α : Type} {m1 m2 : GroupMap α} (h : GmEq m1 m2) (k : List Value) (i : Nat) :
    gmLookup m1 k i = gmLookup m2 k i := by
  induction h with
  | nil => rfl
  | cons hs _ ih => rw [gmLookup_cons, gmLookup_cons, hs.1 i, ih]

theorem GmEq.modify {α : Type} {m1 m2 : GroupMap α} (h : GmEq m1 m2) (k : List Value)
    (f g : List (Nat × α) → List (Nat × α)) (hf : ∀ a b, SubRel a b → SubRel (f a) (g b)) :
    GmEq (gmModify m1 k f) (gmModify m2 k g) := by
  induction h with
  | nil => exact .cons (hf _ _ SubRel.nil) .nil
  | @cons k0 s1 s2 r1 r2 hs hr ih =>
    unfold gmModify
    cases Value.cmpList k k0 with
    | lt => exact .cons (hf _ _ SubRel.nil) (.cons hs hr)
    | eq => exact .cons (hf _ _ hs) hr
    | gt => exact .cons hs ih

theorem GmEq.set {α : Type} {m1 m2 : GroupMap α} (h : GmEq m1 m2) (k : List Value) (i : Nat) (v : α) :
    GmEq (gmSet m1 k i v) (gmSet m2 k i v) :=
  h.modify k _ _ (fun _ _ hs => hs.set i v)

theorem cmpList_refl (k : List Value) : Value.cmpList k k = .eq := by
  have := Value.cmpList_swap k k
  cases h : Value.cmpList k k <;> rw [h] at this <;> simp [Ordering.swap] at this

theorem gmModify_gmModify {α : Type} (m : GroupMap α) (k : List Value) (f g : List (Nat × α) → List (Nat × α)) :
    gmModify (gmModify m k f) k g = gmModify m k (fun s => g (f s)) := by
  induction m with
  | nil => simp [gmModify, cmpList_refl]
  | cons p r ih =>
    have e : ∀ f : List (Nat × α) → List (Nat × α), gmModify (p :: r) k f =
        match Value.cmpList k p.1 with
        | .lt => (k, f []) :: p :: r
        | .eq => (p.1, f p.2) :: r
        | .gt => p :: gmModify r k f := fun f => by rw [gmModify]; rfl
    rw [e f, e (fun s => g (f s))]
    cases h : Value.cmpList k p.1 with
    | lt => simp only []; rw [gmModify]; simp [cmpList_refl]
    | eq => simp only []; rw [gmModify]; simp [h]
    | gt => simp only []; rw [gmModify]; simp [h, ih]

/-- two inserts into the same group under different indexes commute (as maps) -/
theorem GmEq.set_comm {α : Type} {m1 m2 : GroupMap α} (h : GmEq m1 m2) (k : List Value) (i j : Nat) (v w : α) (hij : i ≠ j) :
    GmEq (gmSet (gmSet m1 k i v) k j w) (gmSet (gmSet m2 k j w) k i v) := by
  unfold gmSet
  rw [gmModify_gmModify, gmModify_gmModify]
  exact h.modify k _ _ (fun _ _ hs => hs.set_comm i j v w hij)

/-! ### aggregation states -/

structure StRel (a b : AggState) : Prop where
  aggs : GmEq a.aggs b.aggs
  vals : GmEq a.vals b.vals

theorem StRel.symm {a b : AggState} (h : StRel a b) : StRel b a := ⟨h.aggs.symm, h.vals.symm⟩
theorem StRel.trans {a b c : AggState} (h1 : StRel a b) (h2 : StRel b c) : StRel a c :=
  ⟨h1.aggs.trans h2.aggs, h1.vals.trans h2.vals⟩
theorem StRel.init : StRel {} {} := ⟨.nil, .nil⟩

theorem StRel.readCell {a b : AggState} (h : StRel a b) (k : List Value) (i : Nat) : readCell a k i = readCell b k i := by
  unfold Sqlgrep.readCell
  rw [h.aggs.lookup, h.vals.lookup]

theorem StRel.setVal {a b : AggState} (h : StRel a b) (k : List Value) (i : Nat) (v : Value) :
    StRel (setVal a k i v) (setVal b k i v) := ⟨h.aggs, h.vals.set k i v⟩

theorem StRel.setAgg {a b : AggState} (h : StRel a b) (k : List Value) (i : Nat) (v : Aggregator) :
    StRel (setAgg a k i v) (setAgg b k i v) := ⟨h.aggs.set k i v, h.vals⟩

theorem StRel.writeCell {a b : AggState} (h : StRel a b) (k : List Value) (i : Nat) (c : Cell) :
    StRel (writeCell a k i c) (writeCell b k i c) := by
  unfold Sqlgrep.writeCell
  cases c.agg <;> cases c.val <;> simp only <;> first | exact h | exact h.setVal _ _ _ | exact h.setAgg _ _ _ | exact (h.setAgg _ _ _).setVal _ _ _

/-! ### outcomes -/

def ORel {α : Type} (R : α → α → Prop) : Outcome α → Outcome α → Prop
  | .ok a, .ok b => R a b
  | .error k, .error k' => k = k'
  | .panic s, .panic s' => s = s'
  | .oracleMissing w, .oracleMissing w' => w = w'
  | _, _ => False

theorem ORel.refl {α : Type} (x : Outcome α) : ORel Eq x x := by cases x <;> simp [ORel]

theorem ORel.eq {α : Type} {x y : Outcome α} (h : ORel Eq x y) : x = y := by
  cases x <;> cases y <;> simp_all [ORel]

theorem ORel.bind {α β : Type} {R : α → α → Prop} {S : β → β → Prop} {x y : Outcome α} {f g : α → Outcome β}
    (h : ORel R x y) (hf : ∀ a b, R a b → ORel S (f a) (g b)) : ORel S (x >>= f) (y >>= g) := by
  cases x <;> cases y <;> simp_all [ORel, Bind.bind, Outcome.bind]

theorem bind_eq_ok {α β : Type} {x : Outcome α} {f : α → Outcome β} {b : β} (h : (x >>= f) = .ok b) :
    ∃ a, x = .ok a ∧ f a = .ok b := by
  cases x <;> simp_all [Bind.bind, Outcome.bind]

theorem ORel.pure {α : Type} {R : α → α → Prop} {a b : α} (h : R a b) : ORel R (Pure.pure a : Outcome α) (Pure.pure b) := h

end Sqlgrep.Iter
