import SqlgrepModel.Model.Lower
import SqlgrepModel.Model.Engine
import SqlgrepModel.Lemmas.ExtractRow
/-
`row[index]` sites: the Rust engine indexes the extracted row of a line by the position of a column name among the table's
column names (`TableDefinition::index_for` + `row.columns[index]`, join keys and `create_columns_mapping`). The engine
model reads rows with `getD … .null`; these lemmas show the default is never taken on the rows the engine is given:
a lowered table has one name per column, an admitted row has one value per column, and the position of a name is smaller
than the number of names.
-/
namespace Sqlgrep
open Extract

theorem lowerColumns_length : ∀ (cs : List PColDef) (cols : List Column),
    Lower.lowerColumns cs = .ok cols → cols.length = cs.length := by
  intro cs
  induction cs with
  | nil => intro cols h; rw [Lower.lowerColumns] at h; cases h; rfl
  | cons c cs ih =>
    intro cols h
    rw [Lower.lowerColumns] at h
    cases hp : Lower.lowerParsing c.parsing with
    | ok p =>
      rw [hp] at h
      cases hr : Lower.lowerColumns cs with
      | ok rest =>
        rw [hr] at h
        simp only [LRes.ok.injEq] at h
        subst h
        simp [ih rest hr]
      | err e => rw [hr] at h; cases h
      | panic s => rw [hr] at h; cases h
    | err e => rw [hp] at h; cases h
    | panic s => rw [hp] at h; cases h

/-- a lowered CREATE TABLE has exactly one column name per column -/
theorem lowerCreate_aligned (rv : List Char → Bool) (c : PCreate) (n : String) (d : TableDef) (names : List String)
    (h : Lower.lowerCreate rv c = .ok (.createTable n d names)) : names.length = d.columns.length := by
  unfold Lower.lowerCreate at h
  split at h
  · rename_i cols hc
    split at h
    · simp only [LRes.ok.injEq, LStmt.createTable.injEq] at h
      obtain ⟨_, hd, hn⟩ := h
      subst hd hn
      simp [lowerColumns_length _ _ hc]
    · cases h
  · cases h
  · cases h

/-- an admitted row has one value per column (a row cut by a NOT NULL column is empty, hence not admitted) -/
theorem admitted_row_full (o : Extract.Oracles) (d : TableDef) (lo : LineOracle) (h : anyResult (extractRow o d lo) = true) :
    (extractRow o d lo).length = d.columns.length := by
  by_cases hc : cutBy o (ParsingInput.new d lo) d.columns
  · have : extractRow o d lo = [] := extractWith_cut o d _ hc
    rw [this] at h
    simp [anyResult] at h
  · show (extractWith o d (ParsingInput.new d lo)).length = _
    rw [extractWith_kept o d _ hc, List.length_map]

/-- the position of a name among the names is a position of the row: the `row[index]` site is in range and the
model's `getD` never takes its default -/
theorem row_index_in_range (names : List String) (row : List Value) (hlen : row.length = names.length)
    (n : String) (ki : Nat) (hk : indexOf? names n = some ki) :
    ∃ v, row[ki]? = some v ∧ row.getD ki .null = v := by
  have hlt : ki < names.length := by
    unfold indexOf? at hk
    have := List.findIdx?_eq_some_iff_getElem.1 hk
    exact this.1
  have : ki < row.length := by omega
  exact ⟨row[ki], List.getElem?_eq_getElem this, by simp [List.getD, List.getElem?_eq_getElem this]⟩

end Sqlgrep
