// Wire encoding of expression trees, environments and the oracle tables for the evaluator model.
use std::collections::{BTreeSet, HashMap};

use chrono::{Local, NaiveDateTime, TimeZone};
use sqlgrep::execution::verif_hooks::{EvaluationError, ExpressionExecutionEngine, HashMapColumnProvider};
use sqlgrep::execution::ColumnScope;
use sqlgrep::model::*;

use crate::util::{catch, hex, hexs, value_sexp, vtype_sexp, Caught};

pub fn func_name(f: &Function) -> &'static str {
    match f {
        Function::Greatest => "greatest",
        Function::Least => "least",
        Function::Abs => "abs",
        Function::Sqrt => "sqrt",
        Function::Pow => "pow",
        Function::StringLength => "length",
        Function::StringToUpper => "upper",
        Function::StringToLower => "lower",
        Function::RegexMatches => "regex_matches",
        Function::CreateArray => "create_array",
        Function::ArrayUnique => "array_unique",
        Function::ArrayLength => "array_length",
        Function::ArrayCat => "array_cat",
        Function::ArrayAppend => "array_append",
        Function::ArrayPrepend => "array_prepend",
        Function::TimestampNow => "now",
        Function::MakeTimestamp => "make_timestamp",
        Function::TimestampExtractEpoch => "epoch",
        Function::TimestampExtractYear => "year",
        Function::TimestampExtractMonth => "month",
        Function::TimestampExtractDay => "day",
        Function::TimestampExtractHour => "hour",
        Function::TimestampExtractMinute => "minute",
        Function::TimestampExtractSecond => "second",
        Function::TruncateTimestamp => "date_trunc",
    }
}

pub fn cmp_name(op: &CompareOperator) -> &'static str {
    match op {
        CompareOperator::Equal => "eq",
        CompareOperator::NotEqual => "ne",
        CompareOperator::GreaterThan => "gt",
        CompareOperator::GreaterThanOrEqual => "ge",
        CompareOperator::LessThan => "lt",
        CompareOperator::LessThanOrEqual => "le",
    }
}

pub fn arith_name(op: &ArithmeticOperator) -> &'static str {
    match op {
        ArithmeticOperator::Add => "add",
        ArithmeticOperator::Subtract => "sub",
        ArithmeticOperator::Multiply => "mul",
        ArithmeticOperator::Divide => "div",
    }
}

fn scope_name(s: &ColumnScope) -> &'static str {
    match s {
        ColumnScope::Table => "table",
        ColumnScope::AggregationValue => "agg",
        ColumnScope::GroupKey => "gkey",
        ColumnScope::GroupValue => "gval",
    }
}

/// canonical structural text of an expression (also used as the identity of GROUP BY parts)
pub fn expr_sexp(e: &ExpressionTree) -> String {
    match e {
        ExpressionTree::Value(v) => format!("(val {})", value_sexp(v)),
        ExpressionTree::ColumnAccess(n) => format!("(col {})", hexs(n)),
        ExpressionTree::ScopedColumnAccess(s, n) => format!("(scoped {} {})", scope_name(s), hexs(n)),
        ExpressionTree::Wildcard => "(wild)".to_owned(),
        ExpressionTree::Compare { operator, left, right } => format!("(cmp {} {} {})", cmp_name(operator), expr_sexp(left), expr_sexp(right)),
        ExpressionTree::NullableCompare { operator, left, right } => format!(
            "(nullcmp {} {} {})",
            if *operator == NullableCompareOperator::NotEqual { 1 } else { 0 },
            expr_sexp(left),
            expr_sexp(right)
        ),
        ExpressionTree::Arithmetic { operator, left, right } => format!("(arith {} {} {})", arith_name(operator), expr_sexp(left), expr_sexp(right)),
        ExpressionTree::BooleanOperation { operator, left, right } => format!(
            "(bool {} {} {})",
            if *operator == BooleanOperator::And { "and" } else { "or" },
            expr_sexp(left),
            expr_sexp(right)
        ),
        ExpressionTree::UnaryArithmetic { operator, operand } => match operator {
            UnaryArithmeticOperator::Negative => format!("(neg {})", expr_sexp(operand)),
            UnaryArithmeticOperator::Invert => format!("(not {})", expr_sexp(operand)),
        },
        ExpressionTree::In { is_not, operand, values } => {
            let mut s = format!("(in {} {}", if *is_not { 1 } else { 0 }, expr_sexp(operand));
            for v in values {
                s.push(' ');
                s.push_str(&expr_sexp(v));
            }
            s.push(')');
            s
        }
        ExpressionTree::FunctionCall { function, arguments } => {
            let mut s = format!("(call {}", func_name(function));
            for v in arguments {
                s.push(' ');
                s.push_str(&expr_sexp(v));
            }
            s.push(')');
            s
        }
        ExpressionTree::ArrayElementAccess { array, index } => format!("(idx {} {})", expr_sexp(array), expr_sexp(index)),
        ExpressionTree::TypeConversion { operand, convert_to_type } => format!("(cast {} {})", expr_sexp(operand), vtype_sexp(convert_to_type)),
        ExpressionTree::Case { clauses, else_clause } => {
            let mut s = format!("(case {}", expr_sexp(else_clause));
            for (c, r) in clauses {
                s.push_str(&format!(" ({} {})", expr_sexp(c), expr_sexp(r)));
            }
            s.push(')');
            s
        }
        ExpressionTree::Aggregate(id, agg) => match agg.as_ref() {
            Aggregate::GroupKey(col) => format!("(gkeyref {})", hexs(&expr_sexp(col))),
            _ => format!("(gvalref {})", id),
        },
    }
}

pub fn collect_value_strings(v: &Value, out: &mut BTreeSet<String>) {
    match v {
        Value::String(s) => {
            out.insert(s.clone());
        }
        Value::Array(_, xs) => {
            for x in xs {
                collect_value_strings(x, out);
            }
        }
        _ => {}
    }
}

pub fn collect_expr_strings(e: &ExpressionTree, out: &mut BTreeSet<String>) {
    let _ = e.visit::<(), _>(&mut |t| {
        if let ExpressionTree::Value(v) = t {
            collect_value_strings(v, out);
        }
        Ok(())
    });
}

pub fn ts_parse_oracle(s: &str) -> Option<Value> {
    // chrono called directly (what ValueType::Timestamp.parse wraps); all runs are in UTC
    let naive = NaiveDateTime::parse_from_str(s, "%Y-%m-%d %H:%M:%S").ok()?;
    Local.from_local_datetime(&naive).single().map(Value::Timestamp)
}

/// oracle tables for every string that statically occurs in the case
pub fn oracles_sexp(strings: &BTreeSet<String>, patterns: &BTreeSet<String>) -> String {
    let ship = crate::util::ship_facts(crate::util::SITE_EVAL);
    let mut s = String::from("(oracles (fparse");
    for x in strings {
        if !ship { break; }
        match x.parse::<f64>() {
            Ok(f) => s.push_str(&format!(" ({} {})", hexs(x), f.to_bits())),
            Err(_) => s.push_str(&format!(" ({} none)", hexs(x))),
        }
    }
    s.push_str(") (tsparse");
    for x in strings {
        if !ship { break; }
        match ts_parse_oracle(x) {
            Some(v) => {
                let vs = value_sexp(&v); // (ts d s f)
                let inner = vs.trim_start_matches("(ts ").trim_end_matches(')');
                s.push_str(&format!(" ({} ({}))", hexs(x), inner));
            }
            None => s.push_str(&format!(" ({} none)", hexs(x))),
        }
    }
    s.push_str(") (regex");
    for p in patterns {
        let re = regex::Regex::new(p);
        for v in strings {
            let r = match &re {
                Ok(re) => if re.is_match(v) { "1" } else { "0" },
                Err(_) => "bad",
            };
            s.push_str(&format!(" ({} {} {})", hexs(v), hexs(p), r));
        }
    }
    s.push_str(") (upper");
    for x in strings {
        if !x.is_ascii() {
            s.push_str(&format!(" ({} {})", hexs(x), hexs(&x.to_uppercase())));
        }
    }
    s.push_str(") (lower");
    for x in strings {
        if !x.is_ascii() {
            s.push_str(&format!(" ({} {})", hexs(x), hexs(&x.to_lowercase())));
        }
    }
    s.push_str("))");
    s
}

pub fn env_sexp(table: &[(String, Value)]) -> String {
    let mut s = String::from("(env (table");
    for (n, v) in table {
        s.push_str(&format!(" ({} {})", hexs(n), value_sexp(v)));
    }
    s.push_str("))");
    s
}

/// NaN payloads are not observable: answers carry the canonical NaN
pub fn canon_value(v: &Value) -> Value {
    match v {
        Value::Float(Float(f)) if f.is_nan() => Value::Float(Float(f64::from_bits(0x7ff8000000000000))),
        Value::Array(t, xs) => Value::Array(t.clone(), xs.iter().map(canon_value).collect()),
        other => other.clone(),
    }
}

pub fn eval_err_kind(e: &EvaluationError) -> &'static str {
    match e {
        EvaluationError::ColumnNotFound(_) => "ColumnNotFound",
        EvaluationError::ExpectedNonNull => "ExpectedNonNull",
        EvaluationError::TypeError(_, _) => "TypeError",
        EvaluationError::GroupKeyNotFound => "GroupKeyNotFound",
        EvaluationError::GroupValueNotFound => "GroupValueNotFound",
        EvaluationError::UndefinedOperation => "UndefinedOperation",
        EvaluationError::UndefinedFunction(_, _) => "UndefinedFunction",
        EvaluationError::InvalidRegex(_) => "InvalidRegex",
        EvaluationError::ExpectedArray(_) => "ExpectedArray",
        EvaluationError::ExpectedArrayIndexingToBeInt(_) => "ExpectedArrayIndexingToBeInt",
        EvaluationError::ExpectedArrayElementType => "ExpectedArrayElementType",
        EvaluationError::FailedToTruncate => "FailedToTruncate",
        EvaluationError::InvalidTruncatePart => "InvalidTruncatePart",
        EvaluationError::FailedToParseTimestamp => "FailedToParseTimestamp",
        EvaluationError::FailedToConvert => "FailedToConvert",
    }
}

/// the documented meaning of a CONDITION (WHERE, HAVING, an operand of AND / OR, a WHEN clause): a BOOLEAN is its
/// value, NULL does not hold, a value of any other type has no truth value (`None`: evaluating it as a condition must be
/// an error — C03 "type mismatch … makes the query report an error rather than emit a wrong value"). Written from the
/// property sentence; deliberately NOT the implementation's `Value::bool()` (finding D69).
pub fn truth(v: &Value) -> Option<bool> {
    match v {
        Value::Bool(b) => Some(*b),
        Value::Null => Some(false),
        _ => None,
    }
}

#[derive(Debug, Clone, PartialEq)]
pub enum Ev {
    Ok(Value),
    Err(&'static str),
    Panic(String),
}

impl Ev {
    pub fn wire(&self) -> String {
        match self {
            Ev::Ok(v) => format!("ok {}", value_sexp(&canon_value(v))),
            Ev::Err(k) => format!("err {}", k),
            Ev::Panic(_) => "panic".to_owned(),
        }
    }
}

/// evaluate with the REAL evaluator on a table-scope environment
pub fn eval_real(table: &[(String, Value)], e: &ExpressionTree) -> Ev {
    let r = catch(|| {
        let mut map: HashMap<&str, &Value> = HashMap::new();
        for (n, v) in table {
            map.insert(n.as_str(), v);
        }
        let provider = HashMapColumnProvider::from_table_scope(map);
        let engine = ExpressionExecutionEngine::new(&provider);
        engine.evaluate(e)
    });
    match r {
        Caught::Done(Ok(v)) => Ev::Ok(v),
        Caught::Done(Err(e)) => Ev::Err(eval_err_kind(&e)),
        Caught::Panic(m) => Ev::Panic(m),
    }
}

pub fn bytes_hex(s: &str) -> String {
    hex(s.as_bytes())
}
