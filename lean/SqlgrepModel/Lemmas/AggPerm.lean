import SqlgrepModel.Lemmas.AggSpecFacts
/-
C15, aggregate level: every order-insensitive aggregate of the specification is a function of the MULTISET of its
group's argument values (`aggregate_perm`), under the hypotheses the property grants.
-/
set_option linter.unusedSimpArgs false
namespace Sqlgrep
open Value Spec.Agg

/-! ### permutations through `collect` -/

/-- both missing, or both present and permutations of each other -/
def OptPerm {α : Type} : Option (List α) → Option (List α) → Prop
  | none, none => True
  | some a, some b => a.Perm b
  | _, _ => False

theorem OptPerm.refl {α : Type} (a : Option (List α)) : OptPerm a a := by
  cases a with
  | none => trivial
  | some l => exact List.Perm.refl l

theorem OptPerm.trans {α : Type} {a b c : Option (List α)} (h1 : OptPerm a b) (h2 : OptPerm b c) : OptPerm a c := by
  cases a <;> cases b <;> cases c <;> simp [OptPerm] at * 
  exact h1.trans h2

theorem collect_perm {α : Type} {l1 l2 : List (Option α)} (h : l1.Perm l2) : OptPerm (collect l1) (collect l2) := by
  induction h with
  | nil => exact OptPerm.refl _
  | @cons x m1 m2 _ ih =>
    cases x with
    | none => simp [collect, OptPerm]
    | some a =>
      simp only [collect]
      cases h1 : collect m1 <;> cases h2 : collect m2 <;> simp [h1, h2, OptPerm] at ih ⊢
      exact ih
  | swap x y l =>
    cases x <;> cases y <;> simp [collect, OptPerm]
    cases hl : collect l <;> simp
    exact List.Perm.swap _ _ _
  | trans _ _ ih1 ih2 => exact OptPerm.trans ih1 ih2

theorem optPerm_some_left {α : Type} {a : List α} {b : Option (List α)} (h : OptPerm (some a) b) :
    ∃ b', b = some b' ∧ a.Perm b' := by
  cases b with
  | none => simp [OptPerm] at h
  | some b' => exact ⟨b', rfl, h⟩

/-! ### aggregates as functions of the multiset of their argument values -/

theorem nonNull_perm {vs1 vs2 : List Value} (h : vs1.Perm vs2) : (nonNull vs1).Perm (nonNull vs2) := h.filter _

theorem ints_perm {xs ys : List Value} (h : xs.Perm ys) : OptPerm (ints xs) (ints ys) := collect_perm (h.map _)
theorem reals_perm {xs ys : List Value} (h : xs.Perm ys) : OptPerm (reals xs) (reals ys) := collect_perm (h.map _)
theorem intervals_perm {xs ys : List Value} (h : xs.Perm ys) : OptPerm (intervals xs) (intervals ys) := collect_perm (h.map _)
theorem bools_perm {xs ys : List Value} (h : xs.Perm ys) : OptPerm (bools xs) (bools ys) := collect_perm (h.map _)

theorem foldl_add_perm {l1 l2 : List Int} (h : l1.Perm l2) (a : Int) : l1.foldl (· + ·) a = l2.foldl (· + ·) a := by
  induction h generalizing a with
  | nil => rfl
  | cons x _ ih => simp only [List.foldl_cons]; exact ih _
  | swap x y l => simp only [List.foldl_cons]; congr 1; omega
  | trans _ _ ih1 ih2 => rw [ih1, ih2]

theorem intSum_perm {l1 l2 : List Int} (h : l1.Perm l2) : intSum l1 = intSum l2 := foldl_add_perm h 0

/-! #### COUNT(DISTINCT) -/

/-- number of first occurrences satisfying `p` -/
def cntFirst (p : Value → Bool) (l : List Value) : Nat := ((firstOccs l).filter p).length

theorem cntFirst_cons (p : Value → Bool) (a : Value) (l : List Value) :
    cntFirst p (a :: l) = (if p a then 1 else 0) + cntFirst (fun x => !Value.beq a x && p x) l := by
  simp only [cntFirst, firstOccs]
  by_cases hp : p a = true
  · simp only [hp, if_true, List.filter_cons_of_pos, List.length_cons, List.filter_filter]
    rw [Nat.add_comm]
    congr 2
    apply List.filter_congr; intro x _; rw [Bool.and_comm]
  · simp only [hp, Bool.false_eq_true, if_false, Nat.zero_add]
    rw [List.filter_cons_of_neg (by simp [hp]), List.filter_filter]
    congr 1
    apply List.filter_congr; intro x _; rw [Bool.and_comm]

theorem cntFirst_congr {p p' : Value → Bool} (h : ∀ x, p x = p' x) (l : List Value) : cntFirst p l = cntFirst p' l := by
  have : p = p' := funext h
  rw [this]

theorem beq_congr_right {a x y : Value} (h : Value.beq x y = true) : Value.beq a x = Value.beq a y := by
  cases hax : Value.beq a x
  · cases hay : Value.beq a y
    · rfl
    · have := beq_trans hay (by rw [beq_symm]; exact h)
      rw [hax] at this; exact this
  · exact (beq_trans hax h).symm

theorem cntFirst_perm {l1 l2 : List Value} (h : l1.Perm l2) :
    ∀ p : Value → Bool, (∀ x y, Value.beq x y = true → p x = p y) → cntFirst p l1 = cntFirst p l2 := by
  induction h with
  | nil => intro p _; rfl
  | @cons a m1 m2 _ ih =>
    intro p hp
    rw [cntFirst_cons, cntFirst_cons]
    congr 1
    apply ih
    intro x y hxy
    rw [beq_congr_right hxy, hp x y hxy]
  | swap a b l =>
    intro p hp
    rw [cntFirst_cons, cntFirst_cons, cntFirst_cons, cntFirst_cons]
    have hcong : cntFirst (fun x => !Value.beq a x && (!Value.beq b x && p x)) l =
        cntFirst (fun x => !Value.beq b x && (!Value.beq a x && p x)) l := by
      apply cntFirst_congr; intro x
      cases Value.beq a x <;> cases Value.beq b x <;> simp
    rw [hcong]
    cases hab : Value.beq a b
    · have hba : Value.beq b a = false := by rw [beq_symm]; exact hab
      simp only [hab, hba, Bool.not_false, Bool.true_and]
      omega
    · have hba : Value.beq b a = true := by rw [beq_symm]; exact hab
      have hpab : p a = p b := hp a b hab
      simp only [hab, hba, Bool.not_true, Bool.false_and, Bool.false_eq_true, if_false, hpab]
  | trans _ _ ih1 ih2 => intro p hp; rw [ih1 p hp, ih2 p hp]

theorem firstOccs_length_perm {l1 l2 : List Value} (h : l1.Perm l2) : (firstOccs l1).length = (firstOccs l2).length := by
  have := cntFirst_perm h (fun _ => true) (fun _ _ _ => rfl)
  have hf : ∀ l : List Value, l.filter (fun _ => true) = l := fun l => List.filter_eq_self.mpr (fun _ _ => rfl)
  simpa [cntFirst, hf] using this

/-! #### MIN / MAX / PERCENTILE -/

/-- values among which "equal in the value order" means "identical" (e.g. no `0.0` next to `-0.0`) -/
def ValuesExact (xs : List Value) : Prop := ∀ a ∈ xs, ∀ b ∈ xs, Value.cmp a b = .eq → a = b

theorem ValuesExact.perm {xs ys : List Value} (h : ValuesExact xs) (hp : xs.Perm ys) : ValuesExact ys :=
  fun a ha b hb hab => h a (hp.mem_iff.mpr ha) b (hp.mem_iff.mpr hb) hab

theorem cmp_eq_of_le_le {a b : Value} (h1 : Value.cmp a b ≠ .gt) (h2 : Value.cmp b a ≠ .gt) : Value.cmp a b = .eq := by
  rw [cmp_swap a b] at h2
  cases h : Value.cmp a b <;> simp_all [Ordering.swap]

theorem extreme_perm (wantLess : Bool) {xs ys : List Value} (h : xs.Perm ys) (hex : ValuesExact xs) :
    extreme wantLess xs = extreme wantLess ys := by
  cases xs with
  | nil => rw [List.Perm.nil_eq h] 
  | cons x xs' =>
    have hne : ys ≠ [] := by
      intro he; rw [he] at h; exact absurd h.length_eq (by simp)
    cases wantLess with
    | true =>
      obtain ⟨hm1, hl1⟩ := extreme_min_spec (x :: xs') (by simp)
      obtain ⟨hm2, hl2⟩ := extreme_min_spec ys hne
      have h12 := hl1 _ (h.mem_iff.mpr hm2)
      have h21 := hl2 _ (h.mem_iff.mp hm1)
      exact hex _ hm1 _ (h.mem_iff.mpr hm2) (cmp_eq_of_le_le h12 h21)
    | false =>
      obtain ⟨hm1, hl1⟩ := extreme_max_spec (x :: xs') (by simp)
      obtain ⟨hm2, hl2⟩ := extreme_max_spec ys hne
      have h12 := hl1 _ (h.mem_iff.mpr hm2)
      have h21 := hl2 _ (h.mem_iff.mp hm1)
      have h12' : Value.cmp (extreme false ys) (extreme false (x :: xs')) ≠ .gt := by
        rw [cmp_swap]; cases hc : Value.cmp (extreme false (x :: xs')) (extreme false ys) <;> simp_all [Ordering.swap]
      have h21' : Value.cmp (extreme false (x :: xs')) (extreme false ys) ≠ .gt := by
        rw [cmp_swap]; cases hc : Value.cmp (extreme false ys) (extreme false (x :: xs')) <;> simp_all [Ordering.swap]
      exact hex _ hm1 _ (h.mem_iff.mpr hm2) (cmp_eq_of_le_le h21' h12')

/-- an ascending arrangement of exact values is unique -/
theorem sorted_perm_unique {l1 l2 : List Value} (h : l1.Perm l2) (hex : ValuesExact l1)
    (h1 : l1.Pairwise (fun a b => Value.cmp a b ≠ .gt)) (h2 : l2.Pairwise (fun a b => Value.cmp a b ≠ .gt)) : l1 = l2 := by
  induction l1 generalizing l2 with
  | nil => exact (List.Perm.nil_eq h)
  | cons a t ih =>
    cases l2 with
    | nil => exact absurd h.length_eq (by simp)
    | cons b u =>
      rw [List.pairwise_cons] at h1 h2
      have hab : a = b := by
        have ha : a ∈ b :: u := h.mem_iff.mp (by simp)
        have hb : b ∈ a :: t := h.mem_iff.mpr (by simp)
        have h_ab : Value.cmp a b ≠ .gt := by
          rcases List.mem_cons.mp hb with hb | hb
          · rw [hb, cmp_refl]; simp
          · exact h1.1 b hb
        have h_ba : Value.cmp b a ≠ .gt := by
          rcases List.mem_cons.mp ha with ha | ha
          · rw [ha, cmp_refl]; simp
          · exact h2.1 a ha
        exact hex a (by simp) b hb (cmp_eq_of_le_le h_ab h_ba)
      subst hab
      congr 1
      exact ih (List.Perm.cons_inv h) (fun x hx y hy => hex x (by simp [hx]) y (by simp [hy])) h1.2 h2.2

theorem sortValues_eq_of_perm {xs ys : List Value} (h : xs.Perm ys) (hex : ValuesExact xs) : sortValues xs = sortValues ys := by
  apply sorted_perm_unique _ _ (sortValues_sorted xs) (sortValues_sorted ys)
  · exact ((sortValues_perm xs).trans h).trans (sortValues_perm ys).symm
  · exact hex.perm (sortValues_perm xs).symm

theorem sameType_iff (xs : List Value) : sameType xs = true ↔ ∀ a ∈ xs, ∀ b ∈ xs, a.valueType = b.valueType := by
  cases xs with
  | nil => simp [sameType]
  | cons v rest =>
    simp only [sameType, List.all_eq_true, beq_iff_eq]
    constructor
    · intro h a ha b hb
      have hv : ∀ w ∈ v :: rest, w.valueType = v.valueType := by
        intro w hw
        rcases List.mem_cons.mp hw with hw | hw
        · rw [hw]
        · exact h w hw
      rw [hv a ha, hv b hb]
    · intro h w hw
      exact h w (by simp [hw]) v (by simp)

theorem sameType_perm {xs ys : List Value} (h : xs.Perm ys) : sameType xs = sameType ys := by
  have : sameType xs = true ↔ sameType ys = true := by
    rw [sameType_iff, sameType_iff]
    constructor
    · intro hh a ha b hb; exact hh a (h.mem_iff.mpr ha) b (h.mem_iff.mpr hb)
    · intro hh a ha b hb; exact hh a (h.mem_iff.mp ha) b (h.mem_iff.mp hb)
  cases h1 : sameType xs <;> cases h2 : sameType ys <;> simp_all

/-! #### all order-insensitive aggregates -/

/-- the aggregates C15 speaks about (everything but ARRAY_AGG and STRING_AGG, whose value is the arrival order) -/
def orderInsensitive : AggKind → Bool
  | .arrayAgg _ => false
  | .stringAgg _ _ => false
  | _ => true

/-- aggregates that pick a value by the value order -/
def usesOrder : AggKind → Bool
  | .min _ | .max _ | .percentile _ _ => true
  | _ => false

/-- aggregates that add values up -/
def usesSums : AggKind → Bool
  | .sum _ | .avg _ | .stddev _ _ => true
  | _ => false

/-! #### REAL sums: algebraic laws of the addition on the values at hand

`F64.add` is executed with Lean's `Float` (IEEE-754 binary64 hardware addition), which is OPAQUE to the kernel: not even
`F64.add 0 0 = 0` can be proved. What C15 needs from it is therefore stated as explicit laws, restricted to the values
that actually arise when the addends `rs` of one group are summed in some order — NOT as "the sum does not depend on the
order" (which is the conclusion). The laws and the proofs below are generic in the addition, so that they can be
instantiated (and are, in `Props/C15.lean`) with a transparent exact addition. -/

/-- `l` uses each addend of `rs` at most as often as it occurs in `rs` -/
def SubMulti (l rs : List Nat) : Prop := ∃ rest, (l ++ rest).Perm rs

/-- the sum of `l` added up from the left, starting at `z0` (for `F64.add`, `F64.zero` this is `Spec.Agg.realSum`) -/
def fsum (add : Nat → Nat → Nat) (z0 : Nat) (l : List Nat) : Nat := l.foldl add z0

/-- **the assumption about the addition, on the values at hand** (the addends `rs` of one group, and the partial sums
`fsum a` of lists `a` of some of them):
* `zeroAdd`: `0.0 + y = y` for every addend (IEEE: false only for `y = -0.0`, and for a NaN with another payload);
* `comm`: `x + y = y + x` for two addends (IEEE addition is commutative on non-NaN operands);
* `assoc`: `(A + B) + C = A + (B + C)` for the partial sums `A`, `B`, `C` of three lists (`B`, `C` non-empty) that together
  use each addend at most as often as it occurs — this is what "the sums are exactly representable" buys: IEEE addition returns the exact
  sum when it is representable, and exact addition is associative. It fails as soon as some partial sum is rounded. -/
structure AddLaws (add : Nat → Nat → Nat) (z0 : Nat) (rs : List Nat) : Prop where
  zeroAdd : ∀ y ∈ rs, add z0 y = y
  comm : ∀ x ∈ rs, ∀ y ∈ rs, add x y = add y x
  assoc : ∀ a b c, b ≠ [] → c ≠ [] → SubMulti (a ++ b ++ c) rs →
    add (add (fsum add z0 a) (fsum add z0 b)) (fsum add z0 c) =
      add (fsum add z0 a) (add (fsum add z0 b) (fsum add z0 c))

theorem SubMulti.perm {l l' rs : List Nat} (h : SubMulti l rs) (hp : l.Perm l') : SubMulti l' rs := by
  obtain ⟨rest, hr⟩ := h
  exact ⟨rest, (hp.symm.append_right rest).trans hr⟩

theorem SubMulti.left {a b rs : List Nat} (h : SubMulti (a ++ b) rs) : SubMulti a rs := by
  obtain ⟨rest, hr⟩ := h
  exact ⟨b ++ rest, by rw [← List.append_assoc]; exact hr⟩

theorem SubMulti.right {a b rs : List Nat} (h : SubMulti (a ++ b) rs) : SubMulti b rs :=
  (h.perm List.perm_append_comm).left

theorem SubMulti.mem {l rs : List Nat} (h : SubMulti l rs) {x : Nat} (hx : x ∈ l) : x ∈ rs := by
  obtain ⟨rest, hr⟩ := h
  exact hr.mem_iff.mp (List.mem_append_left _ hx)

theorem SubMulti.refl (rs : List Nat) : SubMulti rs rs := ⟨[], by simp⟩

theorem SubMulti.of_perm {l rs : List Nat} (h : l.Perm rs) : SubMulti l rs := ⟨[], by simpa using h⟩

theorem AddLaws.perm {add : Nat → Nat → Nat} {z0 : Nat} {rs rs' : List Nat} (h : AddLaws add z0 rs) (hp : rs.Perm rs') :
    AddLaws add z0 rs' :=
  ⟨fun y hy => h.zeroAdd y (hp.mem_iff.mpr hy),
   fun x hx y hy => h.comm x (hp.mem_iff.mpr hx) y (hp.mem_iff.mpr hy),
   fun a b c hb hc hs => h.assoc a b c hb hc (by obtain ⟨rest, hr⟩ := hs; exact ⟨rest, hr.trans hp.symm⟩)⟩

theorem fsum_snoc (add : Nat → Nat → Nat) (z0 : Nat) (l : List Nat) (x : Nat) :
    fsum add z0 (l ++ [x]) = add (fsum add z0 l) x := by
  simp [fsum, List.foldl_append]

theorem fsum_single {add : Nat → Nat → Nat} {z0 : Nat} {rs : List Nat} (h : AddLaws add z0 rs) {x : Nat} (hx : x ∈ rs) :
    fsum add z0 [x] = x := by
  simp only [fsum, List.foldl_cons, List.foldl_nil]; exact h.zeroAdd x hx

/-- two addends after a partial sum at hand may be swapped -/
theorem AddLaws.right_comm {add : Nat → Nat → Nat} {z0 : Nat} {rs : List Nat} (h : AddLaws add z0 rs)
    (pre : List Nat) (x y : Nat) (hs : SubMulti (pre ++ [x] ++ [y]) rs) :
    add (add (fsum add z0 pre) x) y = add (add (fsum add z0 pre) y) x := by
  have hx : x ∈ rs := hs.mem (by simp)
  have hy : y ∈ rs := hs.mem (by simp)
  have hs' : SubMulti (pre ++ [y] ++ [x]) rs := hs.perm (by
    simp only [List.append_assoc]
    exact List.Perm.append_left pre (List.Perm.swap y x []))
  have e1 := h.assoc pre [x] [y] (by simp) (by simp) hs
  have e2 := h.assoc pre [y] [x] (by simp) (by simp) hs'
  rw [fsum_single h hx, fsum_single h hy] at e1 e2
  rw [e1, e2, h.comm x hx y hy]

/-- **the sum of the addends is the same in every order** — from the laws, by the swaps that generate a permutation; the
accumulator in front of the two swapped addends is always a partial sum at hand -/
theorem foldl_perm_of_laws {add : Nat → Nat → Nat} {z0 : Nat} {rs : List Nat} (h : AddLaws add z0 rs) {l1 l2 : List Nat}
    (hp : l1.Perm l2) : ∀ pre, SubMulti (pre ++ l1) rs →
      l1.foldl add (fsum add z0 pre) = l2.foldl add (fsum add z0 pre) := by
  induction hp with
  | nil => intro _ _; rfl
  | cons x _ ih =>
    intro pre hs
    simp only [List.foldl_cons]
    rw [← fsum_snoc add z0 pre x]
    exact ih (pre ++ [x]) (by simpa [List.append_assoc] using hs)
  | swap x y l =>
    intro pre hs
    simp only [List.foldl_cons]
    have hs' : SubMulti (pre ++ [y] ++ [x]) rs := by
      have : pre ++ y :: x :: l = (pre ++ [y] ++ [x]) ++ l := by simp
      rw [this] at hs
      exact hs.left
    rw [h.right_comm pre y x hs']
  | trans hp1 _ ih1 ih2 =>
    intro pre hs
    rw [ih1 pre hs]
    exact ih2 pre (hs.perm (List.Perm.append_left pre hp1))

theorem fsum_perm_of_laws {add : Nat → Nat → Nat} {z0 : Nat} {rs l : List Nat} (h : AddLaws add z0 rs) (hp : l.Perm rs) :
    fsum add z0 l = fsum add z0 rs :=
  foldl_perm_of_laws h hp [] (SubMulti.of_perm hp)

/-- adding a non-empty run of addends one by one to a partial sum, or adding their own sum to it, is the same -/
theorem foldl_eq_add_fsum {add : Nat → Nat → Nat} {z0 : Nat} {rs : List Nat} (h : AddLaws add z0 rs) (m : List Nat) :
    m ≠ [] → ∀ pre, SubMulti (pre ++ m) rs →
      m.foldl add (fsum add z0 pre) = add (fsum add z0 pre) (fsum add z0 m) := by
  induction m with
  | nil => intro hne; exact absurd rfl hne
  | cons x m' ih =>
    intro _ pre hs
    have hx : x ∈ rs := hs.mem (by simp)
    cases m' with
    | nil => simp only [List.foldl_cons, List.foldl_nil, fsum_single h hx]
    | cons y m'' =>
      have hne : y :: m'' ≠ [] := by simp
      have hs1 : SubMulti ((pre ++ [x]) ++ (y :: m'')) rs := by simpa [List.append_assoc] using hs
      have hs2 : SubMulti ([x] ++ (y :: m'')) rs := by
        have : pre ++ x :: y :: m'' = pre ++ ([x] ++ (y :: m'')) := by simp
        rw [this] at hs
        exact hs.right
      have e1 := ih hne (pre ++ [x]) hs1
      have e2 := ih hne [x] hs2
      have e3 := h.assoc pre [x] (y :: m'') (by simp) (by simp) (by simpa [List.append_assoc] using hs)
      have hfx : fsum add z0 (x :: y :: m'') = (y :: m'').foldl add (fsum add z0 [x]) := rfl
      rw [List.foldl_cons, ← fsum_snoc add z0 pre x, e1, fsum_snoc, hfx, e2]
      rw [fsum_single h hx] at e3 ⊢
      exact e3

theorem fsum_append_of_laws {add : Nat → Nat → Nat} {z0 : Nat} {r1 r2 : List Nat} (h : AddLaws add z0 (r1 ++ r2))
    (hne : r2 ≠ []) : fsum add z0 (r1 ++ r2) = add (fsum add z0 r1) (fsum add z0 r2) := by
  have : fsum add z0 (r1 ++ r2) = r2.foldl add (fsum add z0 r1) := by simp [fsum, List.foldl_append]
  rw [this]
  exact foldl_eq_add_fsum h r2 hne r1 (SubMulti.refl _)

/-- the laws for the model's REAL addition on the addends `rs` (an assumption about IEEE addition: see `AddLaws`) -/
def RealAddLaws (rs : List Nat) : Prop := AddLaws F64.add F64.zero rs

theorem realSum_eq_fsum (l : List Nat) : realSum l = fsum F64.add F64.zero l := rfl

/-- REAL sums do not depend on the order — derived from the laws -/
theorem realSum_perm_of_laws {rs l : List Nat} (h : RealAddLaws rs) (hp : l.Perm rs) : realSum l = realSum rs :=
  fsum_perm_of_laws h hp

/-- the REAL sum of a concatenation is the sum of the parts' sums — derived from the laws -/
theorem realSum_append_of_laws {r1 r2 : List Nat} (h : RealAddLaws (r1 ++ r2)) (hne : r2 ≠ []) :
    realSum (r1 ++ r2) = F64.add (realSum r1) (realSum r2) :=
  fsum_append_of_laws h hne

/-- what the property grants about the sums of the non-NULL values `xs` of a group: INT (and INTERVAL) partial sums
stay in range in every order; for REAL addends the addition obeys `RealAddLaws` on them (and on their squares, for
STDDEV/VARIANCE) — an assumption about IEEE addition on these values, from which order-independence is PROVED -/
structure SumsOrderFree (xs : List Value) : Prop where
  intOk : ∀ is, ints xs = some is → ∀ l, l.Perm is → partialSumsOk inI64 0 l = true
  intSqOk : ∀ is, ints xs = some is → ∀ l, l.Perm (is.map (fun x => x * x)) → partialSumsOk inI64 0 l = true
  ivOk : ∀ ns, intervals xs = some ns → ∀ l, l.Perm ns → partialSumsOk inIv 0 l = true
  realLaws : ∀ rs, reals xs = some rs → RealAddLaws rs
  realSqLaws : ∀ rs, reals xs = some rs → RealAddLaws (rs.map (fun x => F64.mul x x))

theorem SumsOrderFree.realSum {xs : List Value} (hs : SumsOrderFree xs) (rs : List Nat) (h : reals xs = some rs)
    (l : List Nat) (hp : l.Perm rs) : realSum l = realSum rs :=
  realSum_perm_of_laws (hs.realLaws rs h) hp

theorem SumsOrderFree.realSqSum {xs : List Value} (hs : SumsOrderFree xs) (rs : List Nat) (h : reals xs = some rs)
    (l : List Nat) (hp : l.Perm (rs.map (fun x => F64.mul x x))) :
    Spec.Agg.realSum l = Spec.Agg.realSum (rs.map (fun x => F64.mul x x)) :=
  realSum_perm_of_laws (hs.realSqLaws rs h) hp

theorem SumsOrderFree.realZero {xs : List Value} (hs : SumsOrderFree xs) (rs : List Nat) (h : reals xs = some rs)
    (y : Nat) (hy : y ∈ rs) : F64.add F64.zero y = y ∧ F64.add F64.zero (F64.mul y y) = F64.mul y y :=
  ⟨(hs.realLaws rs h).zeroAdd y hy, (hs.realSqLaws rs h).zeroAdd _ (List.mem_map.mpr ⟨y, hy, rfl⟩)⟩

theorem zeroNeutral_of_all {l : List Nat} (h : ∀ y ∈ l, F64.add F64.zero y = y) : zeroNeutral l = true := by
  cases l with
  | nil => rfl
  | cons y ys => simp [zeroNeutral, h y (by simp)]

theorem perm_nil_iff {α : Type} {xs ys : List α} (h : xs.Perm ys) : xs = [] ↔ ys = [] := by
  constructor
  · intro he; subst he; exact (List.Perm.nil_eq h).symm
  · intro he; subst he; exact List.Perm.eq_nil h

theorem sumOf_perm {xs ys : List Value} (h : xs.Perm ys) (hs : SumsOrderFree xs) : sumOf xs = sumOf ys := by
  cases xs with
  | nil => rw [List.Perm.nil_eq h]
  | cons x xs' =>
    cases ys with
    | nil => exact absurd h.length_eq (by simp)
    | cons y ys' =>
      simp only [sumOf]
      have hi := ints_perm h
      have hr := reals_perm h
      have hn := intervals_perm h
      cases h1 : ints (x :: xs') with
      | some is =>
        obtain ⟨js, hjs, hp⟩ := optPerm_some_left (h1 ▸ hi)
        simp only [hjs, hs.intOk is h1 is (List.Perm.refl _), hs.intOk is h1 js hp.symm, if_true, intSum_perm hp]
      | none =>
        have h1' : ints (y :: ys') = none := by
          cases hh : ints (y :: ys') with
          | none => rfl
          | some _ => rw [h1, hh] at hi; simp [OptPerm] at hi
        cases h2 : reals (x :: xs') with
        | some rs =>
          obtain ⟨ss, hss, hp⟩ := optPerm_some_left (h2 ▸ hr)
          have hz1 := zeroNeutral_of_all (fun y hy => (hs.realZero rs h2 y hy).1)
          have hz2 := zeroNeutral_of_all (l := ss) (fun y hy => (hs.realZero rs h2 y (hp.mem_iff.mpr hy)).1)
          simp only [h1', hss, hz1, hz2, if_true, hs.realSum rs h2 ss hp.symm]
        | none =>
          have h2' : reals (y :: ys') = none := by
            cases hh : reals (y :: ys') with
            | none => rfl
            | some _ => rw [h2, hh] at hr; simp [OptPerm] at hr
          cases h3 : intervals (x :: xs') with
          | some ns =>
            obtain ⟨ms, hms, hp⟩ := optPerm_some_left (h3 ▸ hn)
            simp only [h1', h2', hms, hs.ivOk ns h3 ns (List.Perm.refl _), hs.ivOk ns h3 ms hp.symm, if_true, intSum_perm hp]
          | none =>
            have h3' : intervals (y :: ys') = none := by
              cases hh : intervals (y :: ys') with
              | none => rfl
              | some _ => rw [h3, hh] at hn; simp [OptPerm] at hn
            simp only [h1', h2', h3']

theorem avgOf_perm {xs ys : List Value} (h : xs.Perm ys) (hs : SumsOrderFree xs) : avgOf xs = avgOf ys := by
  cases xs with
  | nil => rw [List.Perm.nil_eq h]
  | cons x xs' =>
    cases ys with
    | nil => exact absurd h.length_eq (by simp)
    | cons y ys' =>
      simp only [avgOf]
      have hi := ints_perm h
      have hr := reals_perm h
      have hn := intervals_perm h
      cases h1 : ints (x :: xs') with
      | some is =>
        obtain ⟨js, hjs, hp⟩ := optPerm_some_left (h1 ▸ hi)
        simp only [hjs, hs.intOk is h1 is (List.Perm.refl _), hs.intOk is h1 js hp.symm, if_true, intSum_perm hp, hp.length_eq]
      | none =>
        have h1' : ints (y :: ys') = none := by
          cases hh : ints (y :: ys') with
          | none => rfl
          | some _ => rw [h1, hh] at hi; simp [OptPerm] at hi
        cases h2 : reals (x :: xs') with
        | some rs =>
          obtain ⟨ss, hss, hp⟩ := optPerm_some_left (h2 ▸ hr)
          have hz1 := zeroNeutral_of_all (fun y hy => (hs.realZero rs h2 y hy).1)
          have hz2 := zeroNeutral_of_all (l := ss) (fun y hy => (hs.realZero rs h2 y (hp.mem_iff.mpr hy)).1)
          simp only [h1', hss, hz1, hz2, if_true, hs.realSum rs h2 ss hp.symm, hp.length_eq]
        | none =>
          have h2' : reals (y :: ys') = none := by
            cases hh : reals (y :: ys') with
            | none => rfl
            | some _ => rw [h2, hh] at hr; simp [OptPerm] at hr
          cases h3 : intervals (x :: xs') with
          | some ns =>
            obtain ⟨ms, hms, hp⟩ := optPerm_some_left (h3 ▸ hn)
            simp only [h1', h2', hms, hs.ivOk ns h3 ns (List.Perm.refl _), hs.ivOk ns h3 ms hp.symm, if_true, intSum_perm hp,
              hp.length_eq]
          | none =>
            have h3' : intervals (y :: ys') = none := by
              cases hh : intervals (y :: ys') with
              | none => rfl
              | some _ => rw [h3, hh] at hn; simp [OptPerm] at hn
            simp only [h1', h2', h3']

theorem stddevOf_perm (isVar : Bool) {xs ys : List Value} (h : xs.Perm ys) (hs : SumsOrderFree xs) :
    stddevOf isVar xs = stddevOf isVar ys := by
  cases xs with
  | nil => rw [List.Perm.nil_eq h]
  | cons x xs' =>
    cases ys with
    | nil => exact absurd h.length_eq (by simp)
    | cons y ys' =>
      simp only [stddevOf]
      have hi := ints_perm h
      have hr := reals_perm h
      cases h1 : ints (x :: xs') with
      | some is =>
        obtain ⟨js, hjs, hp⟩ := optPerm_some_left (h1 ▸ hi)
        have hpsq : (is.map (fun x => x * x)).Perm (js.map (fun x => x * x)) := hp.map _
        simp only [hjs, hs.intOk is h1 is (List.Perm.refl _), hs.intOk is h1 js hp.symm,
          hs.intSqOk is h1 _ (List.Perm.refl _), hs.intSqOk is h1 _ hpsq.symm, intSum_perm hp, intSum_perm hpsq, hp.length_eq,
          hpsq.all_eq]
      | none =>
        have h1' : ints (y :: ys') = none := by
          cases hh : ints (y :: ys') with
          | none => rfl
          | some _ => rw [h1, hh] at hi; simp [OptPerm] at hi
        cases h2 : reals (x :: xs') with
        | some rs =>
          obtain ⟨ss, hss, hp⟩ := optPerm_some_left (h2 ▸ hr)
          have hpsq : (rs.map (fun x => F64.mul x x)).Perm (ss.map (fun x => F64.mul x x)) := hp.map _
          have hz1 := zeroNeutral_of_all (fun y hy => (hs.realZero rs h2 y hy).1)
          have hz2 := zeroNeutral_of_all (l := ss) (fun y hy => (hs.realZero rs h2 y (hp.mem_iff.mpr hy)).1)
          have hq1 : zeroNeutral (rs.map (fun x => F64.mul x x)) = true := by
            apply zeroNeutral_of_all
            intro y hy
            obtain ⟨z, hz, hzy⟩ := List.mem_map.mp hy
            rw [← hzy]; exact (hs.realZero rs h2 z hz).2
          have hq2 : zeroNeutral (ss.map (fun x => F64.mul x x)) = true := by
            apply zeroNeutral_of_all
            intro y hy
            obtain ⟨z, hz, hzy⟩ := List.mem_map.mp hy
            rw [← hzy]; exact (hs.realZero rs h2 z (hp.mem_iff.mpr hz)).2
          simp only [h1', hss, hz1, hz2, hq1, hq2, Bool.and_self, if_true, hs.realSum rs h2 ss hp.symm,
            hs.realSqSum rs h2 _ hpsq.symm, hp.length_eq]
        | none =>
          have h2' : reals (y :: ys') = none := by
            cases hh : reals (y :: ys') with
            | none => rfl
            | some _ => rw [h2, hh] at hr; simp [OptPerm] at hr
          simp only [h1', h2']

/-- **every order-insensitive aggregate is a function of the multiset of its group's argument values**, under the
hypotheses the property grants: values picked by order are exact; INT partial sums in range in every order; REAL
sums exact -/
theorem aggregate_perm (k : AggKind) {vs1 vs2 : List Value} (h : vs1.Perm vs2) (hk : orderInsensitive k = true)
    (hex : usesOrder k = true → ValuesExact (nonNull vs1)) (hsum : usesSums k = true → SumsOrderFree (nonNull vs1)) :
    aggregate k vs1 = aggregate k vs2 := by
  have hn := nonNull_perm h
  cases k with
  | groupKey e c => rfl
  | count col d =>
    cases col with
    | none => simp only [aggregate, h.length_eq]
    | some cn =>
      cases d with
      | false => simp only [aggregate, hn.length_eq]
      | true => simp only [aggregate, firstOccs_length_perm hn]
  | sum e => simp only [aggregate]; exact sumOf_perm hn (hsum rfl)
  | avg e => simp only [aggregate]; exact avgOf_perm hn (hsum rfl)
  | stddev e b => simp only [aggregate]; exact stddevOf_perm b hn (hsum rfl)
  | min e => simp only [aggregate, sameType_perm hn, extreme_perm true hn (hex rfl)]
  | max e => simp only [aggregate, sameType_perm hn, extreme_perm false hn (hex rfl)]
  | percentile e p =>
    simp only [aggregate, percentileOf, sameType_perm hn, sortValues_eq_of_perm hn (hex rfl)]
  | boolAnd e =>
    simp only [aggregate]
    have hb := bools_perm hn
    cases h1 : bools (nonNull vs1) with
    | none =>
      cases h2 : bools (nonNull vs2) with
      | none => rfl
      | some _ => rw [h1, h2] at hb; simp [OptPerm] at hb
    | some bs =>
      obtain ⟨cs, hcs, hp⟩ := optPerm_some_left (h1 ▸ hb)
      have he : bs.isEmpty = cs.isEmpty := by cases bs <;> cases cs <;> simp_all
      simp only [hcs, Option.map_some, hp.all_eq, he]
  | boolOr e =>
    simp only [aggregate]
    have hb := bools_perm hn
    cases h1 : bools (nonNull vs1) with
    | none =>
      cases h2 : bools (nonNull vs2) with
      | none => rfl
      | some _ => rw [h1, h2] at hb; simp [OptPerm] at hb
    | some bs =>
      obtain ⟨cs, hcs, hp⟩ := optPerm_some_left (h1 ▸ hb)
      have he : bs.isEmpty = cs.isEmpty := by cases bs <;> cases cs <;> simp_all
      simp only [hcs, Option.map_some, hp.any_eq, he]
  | arrayAgg e => simp [orderInsensitive] at hk
  | stringAgg e d => simp [orderInsensitive] at hk

end Sqlgrep
