import SqlgrepModel.Lemmas.AggFollowJoin
import SqlgrepModel.Lemmas.AggFollowExec
import SqlgrepModel.Lemmas.FollowBridge
/-
C11 — incremental (tail -f) results equal a batch run over the same prefix.

Follow mode feeds lines one at a time through `executeLine … (withResult := true)`; batch mode runs
`executeLine … (withResult := false)` for aggregates (update only) and prints one final table, and the very
same per-line step for non-aggregates. Part 1 (this file, proved): non-aggregate statements — the rows
emitted for the k-th line are exactly the rows by which the batch output over k lines extends the batch
output over k−1 lines. Part 2 (aggregates, end of this file): the table shown after the k-th update+result equals
the batch result over the first k lines — from the aggregation refinement (Lemmas/Agg*.lean): `execute_result` keeps
the coupling between state and per-group rows (`result_repeatable`), and the table is a function of those rows alone.
The aggregate half is stated twice: at engine level over `followRun` (`follow_eq_batch_prefix`, with the k-th row that
WHERE rejects in `follow_rejected_row_changes_nothing`), and over the EXECUTED loops `runFollowAll` / `runBatch`
(`follow_kth_line_eq_batch_prefix`, `follow_last_shown_is_batch_table`), linked by `follow_run_is_engine_steps`.
With a JOIN (where `FollowFileExecutor` refuses to run, so the follow side is the line-at-a-time feed `feedLines` of the
`incr` driver): `follow_join_kth_line_eq_batch_prefix`, at full strength since D61 was repaired (/repo 7277b4c).
-/
namespace Sqlgrep.Props.C11
open Sqlgrep

/-- for a non-aggregate statement the engine's per-line step is the same function in follow and batch mode -/
theorem select_step_mode_independent (O : Oracles) (qy : Query) (idx : JoinIndex) (es : EngineState) (l : Line)
    (q : SelectStmt) (hq : qy.stmt = .select q) :
    executeLine O qy idx true es l = executeLine O qy idx false es l := by
  simp only [executeLine, hq]

/-- what one readable line adds to a batch run that has not stopped: its own records, after the records so far -/
theorem batch_line_extends (O : Oracles) (qy : Query) (idx : JoinIndex) (w : Bool) (fl : FileLine) (ls : LoopState)
    (es' : EngineState) (lo : LineOut) (hr : fl.readable = true)
    (hx : executeLine O qy idx w ls.es fl.line = .ok (es', lo)) :
    (runFile O qy idx w none [fl] ls).out.printed =
      ls.out.printed ++ (match lo.result with
        | some r => printResult r false
        | none => []) := by
  simp only [runFile, hr, hx]
  by_cases hl : lo.reachedLimit = true <;> simp [hl, runFile] <;> rfl

/-- the batch loop over `pre ++ [fl]` is the batch loop over `pre` followed by the step for `fl`
(as long as the run over `pre` neither failed nor reached a limit) -/
theorem runFile_append (O : Oracles) (qy : Query) (idx : JoinIndex) (w : Bool) (pre : List FileLine) (fl : FileLine)
    (ls : LoopState) (hstop : (runFile O qy idx w none pre ls).stop = false) :
    runFile O qy idx w none (pre ++ [fl]) ls = runFile O qy idx w none [fl] (runFile O qy idx w none pre ls) := by
  -- keep the last step folded while the prefix is unfolded
  obtain ⟨g, hg⟩ : ∃ g : LoopState → LoopState, ∀ s, runFile O qy idx w none [fl] s = g s := ⟨_, fun _ => rfl⟩
  rw [hg]
  induction pre generalizing ls with
  | nil => simp only [List.nil_append, runFile.eq_1]; exact hg ls
  | cons x xs ih =>
    simp only [List.cons_append, runFile] at hstop ⊢
    by_cases hr : x.readable = true
    · simp only [hr] at hstop ⊢
      simp at hstop ⊢
      cases hx : executeLine O qy idx w ls.es x.line with
      | ok p =>
        obtain ⟨es1, lo1⟩ := p
        simp only [hx] at hstop ⊢
        by_cases hl : lo1.reachedLimit = true
        · simp [hl] at hstop
        · simp only [hl] at hstop ⊢
          exact ih _ hstop
      | error k => simp [hx] at hstop
      | panic s => simp [hx] at hstop
      | oracleMissing s => simp [hx] at hstop
    · simp [hr] at hstop

/-- C11 for non-aggregate statements: the records emitted for the k-th line are exactly the records by which
the batch output over the first k lines extends the batch output over the first k−1 lines -/
theorem select_incremental_eq_batch_extension (O : Oracles) (qy : Query) (idx : JoinIndex) (w : Bool)
    (pre : List FileLine) (fl : FileLine) (hr : fl.readable = true)
    (hstop : (runFile O qy idx w none pre {}).stop = false)
    (es' : EngineState) (lo : LineOut)
    (hx : executeLine O qy idx w (runFile O qy idx w none pre {}).es fl.line = .ok (es', lo)) :
    (runFile O qy idx w none (pre ++ [fl]) {}).out.printed =
      (runFile O qy idx w none pre {}).out.printed ++ (match lo.result with
        | some r => printResult r false
        | none => []) := by
  rw [runFile_append O qy idx w pre fl {} hstop]
  exact batch_line_extends O qy idx w fl _ es' lo hr hx

/-- **C11 for non-aggregate statements, about the executed follow run** (`Model/ExecI.lean` `runFollowAll`,
`FollowFileExecutor::execute`, driver kind `followi`; follow mode has no joins): for every k, the follow run stopped
after k delivered lines — equivalently the follow run over the first k lines — has exactly the outcome of the batch
run over a file holding the first k lines: the same records in the same order, the same number of lines read, the
same error. WHERE, DISTINCT and also LIMIT included. Hence the records printed for the k-th delivered line are
exactly those by which the batch output over k lines extends the batch output over k−1 lines. -/
theorem select_follow_eq_batch_prefix (O : Oracles) (qy : Query) (q : SelectStmt) (hq : qy.stmt = .select q)
    (hj : qy.join = none) (lines : List Line) (k : Nat) :
    runFollowAll O qy (some k) lines = runFollowAll O qy none (lines.take k) ∧
    runFollowAll O qy none (lines.take k) = runBatch O qy [] [readableFile (lines.take k)] none :=
  ⟨runFollowAll_stopAt O qy k lines, runFollowAll_select_eq_runBatch O qy q hq hj (lines.take k)⟩

/-- **the same at engine level, joins included** (line-at-a-time execution with update + result over a loaded
join index — what the `incr` driver executes, `C06.incr_driver_is_feedLines`): for a non-aggregate statement without
LIMIT (DISTINCT or not, INNER/OUTER JOIN with any number of partners) the batch output over the first k lines is
the concatenation of the records of the first k incremental answers (`piece` = the records of one answer); so the
k-th answer carries exactly the records by which the batch output over k lines extends that over k−1 lines. If a
line fails, the answers end there and the batch runs over longer prefixes print the same records. -/
theorem select_answers_are_batch_extensions (O : Oracles) (qy : Query) (q : SelectStmt) (hq : qy.stmt = .select q)
    (hl : q.limit = none) (joined : List FileLine) (idx : JoinIndex)
    (hidx : Spec.Select.joinIndexOf qy joined = .ok idx) (lines : List Line) (k : Nat) :
    (runBatch O qy joined [readableFile (lines.take k)] none).printed =
      ((feedLines O qy idx true lines {}).1.take k).flatMap piece := by
  rw [runBatch_select_out O qy q hq joined _ idx hidx]
  have h0 : reachedLimit qy ({} : LoopState).es = false := by simp [reachedLimit, hq, hl]
  simp only [runFiles, h0, Bool.or_self, Bool.false_eq_true, if_false]
  have := runFile_take_eq_answers O qy q hq hl idx lines k
  split <;> exact this

/-- consequence in the form of the sentence: one more line extends the batch output by the records of the answer
for that line -/
theorem select_kth_answer_is_batch_extension (O : Oracles) (qy : Query) (q : SelectStmt) (hq : qy.stmt = .select q)
    (hl : q.limit = none) (joined : List FileLine) (idx : JoinIndex)
    (hidx : Spec.Select.joinIndexOf qy joined = .ok idx) (lines : List Line) (k : Nat) (lo : LineOut)
    (hk : (feedLines O qy idx true lines {}).1[k]? = some lo) :
    (runBatch O qy joined [readableFile (lines.take (k + 1))] none).printed =
      (runBatch O qy joined [readableFile (lines.take k)] none).printed ++ piece lo := by
  rw [select_answers_are_batch_extensions O qy q hq hl joined idx hidx lines (k + 1),
    select_answers_are_batch_extensions O qy q hq hl joined idx hidx lines k]
  have hlt : k < (feedLines O qy idx true lines {}).1.length := by
    rcases Nat.lt_or_ge k (feedLines O qy idx true lines {}).1.length with h | h
    · exact h
    · rw [List.getElem?_eq_none h] at hk; cases hk
  rw [List.take_succ_eq_append_getElem hlt]
  have : (feedLines O qy idx true lines {}).1[k] = lo := by
    rw [List.getElem?_eq_getElem hlt] at hk; exact Option.some.inj hk
  simp [this]

/-! ### aggregate statements -/

open Sqlgrep.Spec.Agg

/-- in follow mode the engine's per-line step for an aggregate statement (no join) is "update, then — if WHERE admitted
the row — a full result" on the aggregation state -/
theorem agg_follow_step (O : Oracles) (qy : Query) (q : AggStmt) (idx : JoinIndex) (es : EngineState) (l : Line)
    (hq : qy.stmt = .aggregate q) (hj : qy.join = none) (hadm : anyResult l.row = true) :
    executeLine O qy idx true es l =
      (followStep O q es.agg (lineEnv qy.table l)).bind (fun p =>
        .ok (updateLimit false q.limit { es with agg := p.1 } p.2)) :=
  executeLine_follow_agg O qy q idx es l hq hj hadm

/-- in batch mode the per-line step is the update alone (the table is printed once, by `finalResult`) -/
theorem agg_batch_step (O : Oracles) (qy : Query) (q : AggStmt) (idx : JoinIndex) (es : EngineState) (l : Line)
    (hq : qy.stmt = .aggregate q) (hj : qy.join = none) (hadm : anyResult l.row = true) :
    executeLine O qy idx false es l =
      (aggUpdateRow O q es.agg (lineEnv qy.table l)).bind (fun p =>
        .ok ({ es with agg := p.1 }, { result := none, reachedLimit := false })) :=
  executeLine_batch_agg O qy q idx es l hq hj hadm

/-- **results are repeatable** (`R s g → R (result s).state g`): the only state change of `execute_result` is
`publishPercentiles`, which keeps every cell similar to the fold of its aggregate over its group's rows; DISTINCT
uses a fresh memory per result (D24 repaired), so nothing else leaks between refreshes. -/
theorem result_repeatable {O : Oracles} {q : AggStmt} {st st2 : AggState} {rows : List (List Value × Env)} {out : RowOut}
    (hc : CoupledP O q st rows) (hres : aggResult O q st = .ok (st2, out)) : CoupledP O q st2 rows := by
  rw [aggResult_state hres]; exact coupledP_publish hc

/-- the coupling survives any history of update+result steps -/
theorem follow_history_coupled {O : Oracles} {q : AggStmt} (envs : List Env) {st : AggState}
    (h : followRun O q envs {} = .ok st) : ∃ rows, keyedRows O q envs = some rows ∧ CoupledP O q st rows := by
  obtain ⟨rows, hr, hc⟩ := followRun_coupledP envs (coupledP_init O q) h
  exact ⟨rows, hr, by simpa using hc⟩

/-- **`follow_eq_batch_prefix` (aggregate half).** For every aggregate statement without LIMIT (any aggregates, GROUP BY,
WHERE, HAVING incl. hidden aggregates, DISTINCT), every input and every k: feed the first k−1 lines' rows `pre` one at a
time (update + result each), then a k-th row `env` that WHERE admits — the table shown for it is exactly the table of a
batch run (update only per row, one result at the end) over `pre ++ [env]`. Proved by direct simulation of the two
states (no reference to the specification, so it also covers the finding classes D10/D15). Hypotheses: both runs got
that far without an evaluation error, and the GROUP BY keys seen are exact (equal in the value order ⇒ identical; with
`0.0` and `-0.0` as keys the two modes may show different representatives of the group: D60 below).
This is the case "the k-th row is shown" (`hupd : … = .ok (sf1, true)`); the other case is
`follow_rejected_row_changes_nothing`, and both cases over the executed loops (with lines that are not admitted) are
`follow_kth_line_eq_batch_prefix`. Statements WITH a LIMIT are outside this theorem. -/
theorem follow_eq_batch_prefix {O : Oracles} {q : AggStmt} (hlim : q.limit = none) (pre : List Env) (env : Env)
    {sf sf1 sf2 sb : AggState} {out : RowOut}
    (hfollow : followRun O q pre {} = .ok sf) (hupd : aggUpdateRow O q sf env = .ok (sf1, true))
    (hres : aggResult O q sf1 = .ok (sf2, out))
    (hbatch : aggRun O q (pre ++ [env]) {} = .ok sb)
    (hex : KeysExact (groupKeysOf O q (pre ++ [env]))) :
    finalResult O q { agg := sb } = .ok out :=
  follow_table_eq_batch_direct hlim pre env hfollow hupd hres hbatch hex

/-- the same relation between the states after any history: every cell of the follow-mode state is similar to the
batch-mode state's cell (identical but for published PERCENTILE values), so `execute_result` yields the same table -/
theorem follow_state_similar_to_batch {O : Oracles} {q : AggStmt} (envs : List Env) {sf sb : AggState}
    (hf : followRun O q envs {} = .ok sf) (hb : aggRun O q envs {} = .ok sb) (hex : KeysExact (groupKeysOf O q envs)) :
    (aggResult O q sf).bind (fun r => .ok r.2) = (aggResult O q sb).bind (fun r => (.ok r.2 : Outcome RowOut)) := by
  obtain ⟨S, hsim, hSk⟩ := sim2_runs envs (sim2_init q) (K := []) (fun k hk => by simp at hk) hf hb
  apply aggResult_sim2 hsim
  intro a ha b hb' hab
  have hk : ∀ k ∈ S, k ∈ groupKeysOf O q envs := fun k hk => by
    rcases hSk k hk with h | h
    · simp at h
    · exact h
  exact hex a (hk a ha) b (hk b hb') hab

/- A second route to the same statement, through the specification (C04's `agg_refines_spec`): both tables equal the
   specification's table for the prefix. It needs no hypothesis on the batch run (it succeeds, by the totality half of
   the refinement) but only applies where the specification fixes the outcome, outside D10/D15. -/

/-- through the specification: the table shown for the k-th line is the table of the batch run over the first k lines,
and that batch run succeeds -/
theorem follow_eq_batch_prefix_via_spec {O : Oracles} {q : AggStmt} (hwf : StmtWF q) (hlim : q.limit = none)
    (pre : List Env) (env : Env) {sf sf1 sf2 : AggState} {out : RowOut}
    (hfollow : followRun O q pre {} = .ok sf) (hupd : aggUpdateRow O q sf env = .ok (sf1, true))
    (hres : aggResult O q sf1 = .ok (sf2, out))
    {t : List (List Value)} (hspec : table O q (pre ++ [env]) = some t) (hclass : deviationClass O q (pre ++ [env]) = "") :
    (aggRun O q (pre ++ [env]) {}).bind (fun sb => finalResult O q { agg := sb }) = .ok out := by
  obtain ⟨sb, hsb⟩ := (by
    cases hr : keyedRows O q (pre ++ [env]) with
    | none => simp [table, hr] at hspec
    | some rows =>
      obtain ⟨hfolds, hkeys⟩ := foldsOk_of_spec hwf hr hspec hclass
      exact aggRun_progress (pre ++ [env]) (coupled_init O q) hr (by simpa using hfolds) hkeys :
    ∃ sb, aggRun O q (pre ++ [env]) {} = .ok sb)
  rw [hsb]
  exact follow_table_eq_batch hwf hlim pre env hfollow hupd hres hsb hspec hclass

/-! ### the k-th line that shows nothing, and the executed loops -/

/-- the k-th row is rejected by WHERE: follow mode shows nothing for it and keeps its state (so the last table shown
stays the last table shown), and the batch run over the first k rows IS the batch run over the first k−1 rows — the
batch table is unchanged -/
theorem follow_rejected_row_changes_nothing {O : Oracles} {q : AggStmt} (pre : List Env) (env : Env) (sf : AggState)
    (h : passes O q env = some false) :
    followStep O q sf env = .ok (sf, none) ∧ aggRun O q (pre ++ [env]) {} = aggRun O q pre {} :=
  rejected_row_changes_nothing pre env sf h

/-- **`followRun` is the executed follow loop.** `runFollowAll` is the function the compiled driver runs for a `followi`
case (`FollowFileExecutor::execute`: per delivered line the flag, the line count, `executeLine` with update + result, the
printer). For an aggregate statement without join and LIMIT it feeds exactly the rows of the admitted lines
(`followEnvs`), in order, through `followStep`; prints the tables `followStep` returned (`followTables` = `followRun`
plus those tables: `followTables_state`), and counts every line. -/
theorem follow_run_is_engine_steps (O : Oracles) (qy : Query) (q : AggStmt) (hq : qy.stmt = .aggregate q)
    (hj : qy.join = none) (hlim : q.limit = none) (lines : List Line) {st : AggState} {ts : List RowOut}
    (h : followTables O q (followEnvs qy.table lines) {} = .ok (st, ts)) :
    runFollowAll O qy none lines = { printed := ts.flatMap (fun r => printResult r true), totalLines := lines.length } ∧
    followRun O q (followEnvs qy.table lines) {} = .ok st :=
  ⟨runFollowAll_agg O qy q hq hj hlim lines h, followRun_of_tables h⟩

/-- and conversely: an executed follow run that reports no failure went through every engine step -/
theorem follow_run_without_failure_ran_every_step (O : Oracles) (qy : Query) (q : AggStmt) (hq : qy.stmt = .aggregate q)
    (hj : qy.join = none) (hlim : q.limit = none) (lines : List Line)
    (h : hasFailed (runFollowAll O qy none lines) = false) :
    ∃ st ts, followTables O q (followEnvs qy.table lines) {} = .ok (st, ts) :=
  runFollowAll_agg_ok O qy q hq hj hlim lines h

/-- **C11, aggregate half, over the executed loops; every k-th line.** `runFollowAll` over the first k delivered lines and
`runBatch` over the same lines as one file; neither reports a failure; the GROUP BY keys seen are exact; no LIMIT, no JOIN.
* The k-th line is SHOWN (`lineShown`: it is admitted and WHERE admits its row): what follow mode prints for it — after
  everything it printed for the first k−1 lines — is exactly what the batch run over the first k lines prints.
* The k-th line is NOT shown (not admitted, or rejected by WHERE): follow mode prints nothing for it, and the batch run
  over the first k lines prints what the batch run over the first k−1 lines prints — the table is unchanged.
In both cases the follow run over the first k−1 lines reports no failure either, so the statement applies to every
earlier line as well. -/
theorem follow_kth_line_eq_batch_prefix (O : Oracles) (qy : Query) (q : AggStmt) (hq : qy.stmt = .aggregate q)
    (hj : qy.join = none) (hlim : q.limit = none) (joined : List FileLine) (pre : List Line) (l : Line)
    (hf : hasFailed (runFollowAll O qy none (pre ++ [l])) = false)
    (hb : hasFailed (runBatch O qy joined [asFile (pre ++ [l])] none) = false)
    (hex : KeysExact (groupKeysOf O q (followEnvs qy.table (pre ++ [l])))) :
    hasFailed (runFollowAll O qy none pre) = false ∧
    (lineShown O qy q l →
      (runFollowAll O qy none (pre ++ [l])).printed =
        (runFollowAll O qy none pre).printed ++ (runBatch O qy joined [asFile (pre ++ [l])] none).printed) ∧
    (¬ lineShown O qy q l →
      (runFollowAll O qy none (pre ++ [l])).printed = (runFollowAll O qy none pre).printed ∧
      (runBatch O qy joined [asFile (pre ++ [l])] none).printed = (runBatch O qy joined [asFile pre] none).printed ∧
      hasFailed (runBatch O qy joined [asFile pre] none) = false) :=
  follow_exec_step O qy q hq hj hlim joined pre l hf hb hex

/-- **the last table shown** after any number of lines is the batch table over those lines: the follow output ends with
exactly the batch run's output — or follow mode has printed nothing at all, because no line so far was shown -/
theorem follow_last_shown_is_batch_table (O : Oracles) (qy : Query) (q : AggStmt) (hq : qy.stmt = .aggregate q)
    (hj : qy.join = none) (hlim : q.limit = none) (joined : List FileLine) (lines : List Line)
    (hf : hasFailed (runFollowAll O qy none lines) = false)
    (hb : hasFailed (runBatch O qy joined [asFile lines] none) = false)
    (hex : KeysExact (groupKeysOf O q (followEnvs qy.table lines))) :
    (∃ earlier, (runFollowAll O qy none lines).printed = earlier ++ (runBatch O qy joined [asFile lines] none).printed) ∨
    ((runFollowAll O qy none lines).printed = [] ∧ ∀ l ∈ lines, ¬ lineShown O qy q l) :=
  follow_exec_last O qy q hq hj hlim joined lines hf hb hex

/-! ### with or without a JOIN (D61 repaired: one table per line) -/

/-- for an aggregate statement the executed per-line step (default config) sends the rows of ALL the line's join partners
(`lineEnvs`, which is the nested loop's `rowsOf`: `Props.C05.join_refines_nested_loop`; exactly one row without a join)
through `execute_update`, and then — iff one of them updated — computes ONE table -/
theorem agg_follow_join_step (O : Oracles) (qy : Query) (q : AggStmt) (idx : JoinIndex) (es : EngineState) (l : Line)
    (hq : qy.stmt = .aggregate q) (hadm : anyResult l.row = true) :
    executeLine O qy idx true es l =
      (lineEnvs qy idx false l).bind (fun envs =>
        (aggEnvs O q envs es.agg false).bind (fun p =>
          if p.2 then (aggResult O q p.1).bind (fun r => .ok (updateLimit false q.limit { es with agg := r.1 } (some r.2)))
          else .ok (updateLimit false q.limit { es with agg := p.1 } none))) :=
  executeLine_follow_join O qy q idx es l hq hadm

/-- **one line in both modes, any join index**: from a follow-mode engine state similar to the batch-mode engine state
(after the same lines), the line's answer under the default configuration either carries a table — the table
`execute_result` shows on the batch-mode state after the same line, whatever the number of join partners — or it carries
none and neither aggregation state changed; and the states are similar again -/
theorem follow_join_line_is_batch_table {O : Oracles} {qy : Query} {q : AggStmt} (hq : qy.stmt = .aggregate q)
    (hlim : q.limit = none) (idx : JoinIndex) (l : Line) {esf esb esf' esb' : EngineState} {lo lob : LineOut}
    {S K : List (List Value)} (h : Sim2 q esf.agg esb.agg S) (hS : ∀ k ∈ S, k ∈ K)
    (hK : ∀ envs, lineEnvs qy idx false l = .ok envs → ∀ k ∈ groupKeysOf O q (envs.map (·.1)), k ∈ K)
    (hex : KeysExact K)
    (hf : executeLine O qy idx true esf l = .ok (esf', lo)) (hb : executeLine O qy idx false esb l = .ok (esb', lob)) :
    (∃ S', Sim2 q esf'.agg esb'.agg S' ∧ ∀ k ∈ S', k ∈ K) ∧
    ((∃ out, lo.result = some out ∧ finalResult O q esb' = .ok out) ∨
     (lo.result = none ∧ esf'.agg = esf.agg ∧ esb'.agg = esb.agg)) :=
  line_sim hq hlim idx l h hS hK hex hf hb

/-- **C11, aggregate half, at full strength: with or without a JOIN.** Follow side: the engine's answers for the lines
fed one at a time with the default configuration (`feedLines`, what the `incr` driver runs:
`Props.C06.incr_driver_is_feedLines`); batch side: the executed `runBatch` over the same lines as one file, the join (if
any) loaded into `idx`. Hypotheses: no LIMIT; the feed does not fail; the batch run reports no failure; the GROUP BY keys
seen (over all join partners) are exact — D60 is the only carve-out. Then for EVERY k the answer for the k-th line either
carries a table, and printing it is exactly what the batch run over the first k lines prints (a line with several join
partners included), or it carries none, and the batch run over the first k lines prints what the batch run over the
first k−1 lines prints. -/
theorem follow_join_kth_line_eq_batch_prefix {O : Oracles} {qy : Query} {q : AggStmt} (hq : qy.stmt = .aggregate q)
    (hlim : q.limit = none) (joined : List FileLine) (idx : JoinIndex) (hidx : joinOutcome qy joined = .ok idx)
    (pre : List Line) (l : Line) {esf : EngineState} {losf : List LineOut}
    (hf : feedLines O qy idx true (pre ++ [l]) {} = (losf, .ok esf))
    (hb : hasFailed (runBatch O qy joined [asFile (pre ++ [l])] none) = false)
    (hex : KeysExact (lineKeys O qy q idx (pre ++ [l]))) :
    ∃ lo, losf = (feedLines O qy idx true pre {}).1 ++ [lo] ∧
      ((∃ out, lo.result = some out ∧
          (runBatch O qy joined [asFile (pre ++ [l])] none).printed = printResult out true) ∨
       (lo.result = none ∧
          (runBatch O qy joined [asFile (pre ++ [l])] none).printed = (runBatch O qy joined [asFile pre] none).printed ∧
          hasFailed (runBatch O qy joined [asFile pre] none) = false)) :=
  follow_join_kth_line hq hlim joined idx hidx pre l hf hb hex

/-- the hypotheses of `follow_join_kth_line_eq_batch_prefix` hold together on the D61 input — `SELECT COUNT(*) FROM a INNER
JOIN b ON a.k = b.k`, a joined file with two rows of key 1, one input line with key 1 (k = 1: a line with TWO join
partners) — and its conclusion there: the answer for the line carries the table `2`, which is what the batch run prints.
(Follow mode over a JOIN exists at the library API only: `FollowFileExecutor::execute` answers `JoinNotSupported`, see
`Model/PipelineFollow.lean` `followStatement`.) -/
example :
    d61Query.stmt = .aggregate exCountQ ∧ exCountQ.limit = none ∧ joinOutcome d61Query d61Joined = .ok d61Index ∧
    (∃ losf esf, feedLines {} d61Query d61Index true ([] ++ [d61Line]) {} = (losf, .ok esf)) ∧
    hasFailed (runBatch {} d61Query d61Joined [asFile ([] ++ [d61Line])] none) = false ∧
    KeysExact (lineKeys {} d61Query exCountQ d61Index ([] ++ [d61Line])) ∧
    (feedLines {} d61Query d61Index true ([] ++ [d61Line]) {}).1.map (·.result) = [some { columns := ["count0"], rows := [[.int 2]] }] ∧
    (runBatch {} d61Query d61Joined [asFile ([] ++ [d61Line])] none).printed = ["count0: 2"] := by
  refine ⟨rfl, rfl, rfl, ⟨_, _, rfl⟩, by decide, ?_, rfl, by decide⟩
  intro a ha b hb _
  have hk : lineKeys {} d61Query exCountQ d61Index ([] ++ [d61Line]) = [[.null], [.null]] := rfl
  rw [hk] at ha hb
  simp only [List.mem_cons, List.mem_nil_iff, or_false, or_self] at ha hb
  rw [ha, hb]

/-! ### negation witness of the open finding of this property (D60), and the regression witness of the repaired D61 -/

/-- **D60** (why "exact keys" cannot be dropped from `follow_eq_batch_prefix`): GROUP BY over the REAL keys `0.0` and
`-0.0` (one group: they are equal in the value order). Rows (0.0, NULL, 1), (-0.0, 1, NULL), statement
`SELECT r, COUNT(v), PERCENTILE(w, p) … GROUP BY r`, any p: fed incrementally, the table after the second row shows the
key `0.0` (the refresh after row one published the percentile and thereby created the group's entry under `0.0`); a batch
run over both rows shows `-0.0` (the entry is created by COUNT(v) of row two). The harness witness D60 shows the same on
the implementation. -/
theorem d60_follow_and_batch_show_different_key_representatives (p : Nat) :
    ∃ sf sf1 sf2 out sb outb,
      followRun {} (d60Stmt p) [rowRVW 0 .null (.int 1)] {} = .ok sf ∧
      aggUpdateRow {} (d60Stmt p) sf (rowRVW (2^63) (.int 1) .null) = .ok (sf1, true) ∧
      aggResult {} (d60Stmt p) sf1 = .ok (sf2, out) ∧
      aggRun {} (d60Stmt p) [rowRVW 0 .null (.int 1), rowRVW (2^63) (.int 1) .null] {} = .ok sb ∧
      finalResult {} (d60Stmt p) { agg := sb } = .ok outb ∧
      out.rows = [[.real 0, .int 1, .int 1]] ∧ outb.rows = [[.real (2^63), .int 1, .int 1]] := by
  refine ⟨{ aggs := (st1 p).aggs, vals := [([.real 0], [(2, .int 1)])] }, st2f p, st2f p,
    { columns := ["r", "count1", "percentile2"], rows := [[.real 0, .int 1, .int 1]] }, st2b p,
    { columns := ["r", "count1", "percentile2"], rows := [[.real (2^63), .int 1, .int 1]] }, ?_, rfl, ?_, rfl, ?_, rfl, rfl⟩
  · have h1 : aggUpdateRow {} (d60Stmt p) {} (rowRVW 0 .null (.int 1)) = .ok (st1 p, true) := rfl
    simp only [followRun, followStep, h1, Outcome.bind, if_true]
    rw [aggResult_eq, pub_1]
    rfl
  · rw [aggResult_eq, pub_f]
    rfl
  · simp only [finalResult, bind, Outcome.bind]
    rw [aggResult_eq, pub_b]
    rfl

/-- **D61, repaired** (regression witness): follow mode, aggregate over a JOIN. `SELECT COUNT(*) FROM a INNER JOIN b ON
a.k = b.k`, the joined file has two rows with key 1, one input line with key 1: the answer for that line carries ONE table
with the one row `2` — the table a batch run over the same line shows. Before /repo 7277b4c it carried the rows `1` and
`2` (one full table per join partner, concatenated). The harness witness D61 checks the same on the implementation. -/
theorem d61_repaired_follow_join_shows_the_batch_table :
    (∃ es lo, executeLine {} d61Query d61Index true {} d61Line = .ok (es, lo) ∧
      lo.result = some { columns := ["count0"], rows := [[.int 2]] }) ∧
    (∃ es lo, executeLine {} d61Query d61Index false {} d61Line = .ok (es, lo) ∧
      finalResult {} exCountQ es = .ok { columns := ["count0"], rows := [[.int 2]] }) :=
  ⟨⟨_, _, rfl, rfl⟩, ⟨_, _, rfl, rfl⟩⟩
/-- `SELECT COUNT(*) FROM t` -/
def exCount : AggStmt :=
  { items := [{ name := "count0", kind := .count none false, transform := none }], filter := none, groupBy := none,
    having := none, havingAggs := [], havingKeys := [], havingVisit := [], limit := none, distinct := false }

/-- non-vacuity: after one line fed incrementally, the second line's table (`2`) is the batch table over both lines -/
example : ∃ sf sf1 sf2 out, followRun {} exCount [{}] {} = .ok sf ∧ aggUpdateRow {} exCount sf {} = .ok (sf1, true) ∧
    aggResult {} exCount sf1 = .ok (sf2, out) ∧ table {} exCount ([({} : Env)] ++ [({} : Env)]) = some [[.int 2]] ∧
    deviationClass {} exCount ([({} : Env)] ++ [({} : Env)]) = "" ∧ out.rows = [[.int 2]] ∧
    (aggRun {} exCount ([({} : Env)] ++ [({} : Env)]) {}).bind (fun sb => finalResult {} exCount { agg := sb }) = .ok out :=
  ⟨_, _, _, _, rfl, rfl, rfl, rfl, rfl, rfl, rfl⟩

/-- non-vacuity of `follow_eq_batch_prefix`: the key-exactness hypothesis on the same input, and the conclusion -/
example : KeysExact (groupKeysOf {} exCount ([({} : Env)] ++ [({} : Env)])) := by
  intro a ha b hb _
  simp [groupKeysOf, keyOf, exCount] at ha hb
  rw [ha, hb]
example : finalResult {} exCount { agg := (publishPercentiles (publishPercentiles {})) } = finalResult {} exCount {} := rfl

/-- non-vacuity over the executed loops: `SELECT COUNT(*) FROM a WHERE k = 1` on a shown line, a line WHERE rejects and a
line that is not admitted. Follow mode prints one table (`1`) for the first line and nothing for the other two; the batch
runs over 1, 2 and 3 lines all print `1`. -/
example :
    runFollowAll {} exWhereQuery none [exLineShown] = { printed := ["count0: 1"], totalLines := 1 } ∧
    runFollowAll {} exWhereQuery none [exLineShown, exLineRejected] = { printed := ["count0: 1"], totalLines := 2 } ∧
    runFollowAll {} exWhereQuery none [exLineShown, exLineRejected, exLineNotAdmitted] =
      { printed := ["count0: 1"], totalLines := 3 } ∧
    runBatch {} exWhereQuery [] [asFile [exLineShown, exLineRejected, exLineNotAdmitted]] none =
      { printed := ["count0: 1"], totalLines := 3 } ∧
    runFollowAll {} exWhereQuery none [exLineShown, exLineShown] = { printed := ["count0: 1", "count0: 2"], totalLines := 2 } ∧
    runBatch {} exWhereQuery [] [asFile [exLineShown, exLineShown]] none = { printed := ["count0: 2"], totalLines := 2 } := by
  refine ⟨?_, ?_, ?_, ?_, ?_, ?_⟩ <;> rfl
example : lineShown {} exWhereQuery exWhereStmt exLineShown ∧ ¬ lineShown {} exWhereQuery exWhereStmt exLineRejected ∧
    ¬ lineShown {} exWhereQuery exWhereStmt exLineNotAdmitted := by
  refine ⟨⟨rfl, rfl⟩, fun h => ?_, fun h => ?_⟩
  · exact absurd h.2 (by decide)
  · exact absurd h.1 (by decide)
/-- the hypotheses of `follow_kth_line_eq_batch_prefix` hold on that input (k = 2: the rejected line) -/
example : hasFailed (runFollowAll {} exWhereQuery none ([exLineShown] ++ [exLineRejected])) = false ∧
    hasFailed (runBatch {} exWhereQuery [] [asFile ([exLineShown] ++ [exLineRejected])] none) = false ∧
    KeysExact (groupKeysOf {} exWhereStmt (followEnvs exWhereQuery.table ([exLineShown] ++ [exLineRejected]))) := by
  refine ⟨by decide, by decide, ?_⟩
  intro a ha b hb _
  simp [groupKeysOf, keyOf, exWhereStmt, followEnvs, asFile, envsOf] at ha hb
  rw [← ha.2, ← hb.2]

end Sqlgrep.Props.C11
