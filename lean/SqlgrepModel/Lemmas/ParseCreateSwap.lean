import SqlgrepModel.Lemmas.ParsePrefix
/-
Prefix determinism of the CREATE TABLE parser, in the barrier form of `Lemmas/ParsePrefix.lean`: the functions that
read ONE `CREATE TABLE name ( … )` up to (not including) its closing `;` never look past the first boundary token of
their input (a clause keyword, `;`, `End`) and treat all boundary tokens alike:
`F (swapB t2 s) = (F s).mapSt (swapB t2)` for every answer (value, error, out of fuel).
-/
namespace Sqlgrep
namespace Parse
namespace Concat

variable {t2 : PSt} {T : PrecTables}

theorem consumeString_swapB (h2 : Boundary t2.cur.tok) (s : PSt) :
    consumeString (swapB t2 s) = (consumeString s).mapSt (swapB t2) := by
  by_cases h : Boundary s.cur.tok
  · have h' := swapB_b t2 h2 h
    have a : ∀ (u : PSt), Boundary u.cur.tok → consumeString u = mkErr u .expectedString := by
      intro u hu
      unfold consumeString
      split
      · rename_i n hn; rw [hn] at hu; unfold Boundary ClauseKw at hu; simp at hu
      · rfl
    rw [a _ h, a _ h']; exact mkErr_swapB t2 s _
  · unfold consumeString
    rw [swapB_nb t2 h]
    split
    · rw [next_swapB t2 h]; cases next s <;> rfl
    · exact mkErr_swapB t2 s _

theorem consumeInt_swapB (h2 : Boundary t2.cur.tok) (s : PSt) :
    consumeInt (swapB t2 s) = (consumeInt s).mapSt (swapB t2) := by
  by_cases h : Boundary s.cur.tok
  · have h' := swapB_b t2 h2 h
    have a : ∀ (u : PSt), Boundary u.cur.tok → consumeInt u = mkErr u .expectedInt := by
      intro u hu
      unfold consumeInt
      split
      · rename_i n hn; rw [hn] at hu; unfold Boundary ClauseKw at hu; simp at hu
      · rfl
    rw [a _ h, a _ h']; exact mkErr_swapB t2 s _
  · unfold consumeInt
    rw [swapB_nb t2 h]
    split
    · rw [next_swapB t2 h]; cases next s <;> rfl
    · exact mkErr_swapB t2 s _

theorem parseRegexMode_swapB (h2 : Boundary t2.cur.tok) (s : PSt) :
    parseRegexMode (swapB t2 s) = (parseRegexMode s).mapSt (swapB t2) := by
  by_cases h : Boundary s.cur.tok
  · have h' := swapB_b t2 h2 h
    have a : ∀ (u : PSt), Boundary u.cur.tok → parseRegexMode u = .ok .captures u := by
      intro u hu
      unfold parseRegexMode
      split
      · rename_i n hn; rw [hn] at hu; unfold Boundary ClauseKw at hu; simp at hu
      · rfl
    rw [a _ h, a _ h']; rfl
  · unfold parseRegexMode
    rw [swapB_nb t2 h]
    split
    · split
      · rw [next_swapB t2 h]; cases next s <;> rfl
      · split
        · rw [next_swapB t2 h]; cases next s <;> rfl
        · rfl
    · rfl

theorem typeBrackets_swapB (h2 : Boundary t2.cur.tok) : ∀ (n k : Nat) (s : PSt),
    typeBrackets n k (swapB t2 s) = (typeBrackets n k s).mapSt (swapB t2) := by
  intro n
  induction n with
  | zero => intro k s; rw [typeBrackets, typeBrackets]; rfl
  | succ n ih =>
    intro k s
    rw [typeBrackets, typeBrackets]
    simp only [swapB_tok_eq t2 h2 (show ¬ Boundary Tok.lsq by decide)]
    by_cases hc : s.cur.tok = .lsq
    · simp only [hc, if_true]
      rw [next_swapB t2 (nb_of_eq hc (by decide))]
      cases next s with
      | err e s1 => rfl
      | fuel => rfl
      | ok a s1 =>
        simp only [mapSt_ok, expectConsume_swapB t2 h2 (show ¬ Boundary Tok.rsq by decide)]
        cases expectConsume Tok.rsq PErrKind.expectedRightSquareParentheses s1 with
        | err e s2 => rfl
        | fuel => rfl
        | ok a2 s2 => simp only [mapSt_ok]; exact ih _ _
    · simp only [hc, if_false]; rfl

theorem parseType_swapB (h2 : Boundary t2.cur.tok) (n : Nat) (s : PSt) :
    parseType n (swapB t2 s) = (parseType n s).mapSt (swapB t2) := by
  unfold parseType
  simp only [swapB_loc, consumeIdentifier_swapB t2 h2]
  cases consumeIdentifier s with
  | err e s1 => rfl
  | fuel => rfl
  | ok name s1 =>
    simp only [mapSt_ok, typeBrackets_swapB h2]
    cases typeBrackets n 0 s1 with
    | err e s2 => rfl
    | fuel => rfl
    | ok k s2 =>
      simp only [mapSt_ok]
      cases VType.ofIdent (lowerChars name) <;> rfl

/-- boundary tokens are none of the tokens the CREATE TABLE parser looks for -/
theorem boundary_ne {t : Tok} (h : Boundary t) :
    t ≠ .kw .not ∧ t ≠ .kw .default ∧ (∀ i, t ≠ .ident i) ∧ (∀ i, t ≠ .str i) ∧ t ≠ .lcu ∧ t ≠ .rp ∧ t ≠ .comma ∧
    t ≠ .rarrow ∧ t ≠ .kw .create := by
  rcases boundary_cases h with e | e | e | e | e | e | e | e <;> subst e <;> simp

set_option hygiene false in
/-- the rewriting set of `pre_simp`, extended by the lemmas of this file -/
macro "cs_simp" : tactic => `(tactic| simp only [mapSt_ok, mapSt_err, mapSt_fuel, PRes.bind, swapB_loc, mkErr_swapB, ne_eq,
  consumeIdentifier_swapB _ h2, consumeString_swapB h2, consumeInt_swapB h2, parseRegexMode_swapB h2, typeBrackets_swapB h2,
  parseType_swapB h2,
  expectConsume_swapB _ h2 (show ¬ Boundary Tok.rsq by decide), expectConsume_swapB _ h2 (show ¬ Boundary Tok.rp by decide),
  expectConsume_swapB _ h2 (show ¬ Boundary Tok.lp by decide), expectConsume_swapB _ h2 (show ¬ Boundary Tok.lsq by decide),
  expectConsume_swapB _ h2 (show ¬ Boundary Tok.null by decide), expectConsume_swapB _ h2 (show ¬ Boundary Tok.rarrow by decide),
  expectConsume_swapB _ h2 (show ¬ Boundary (Tok.kw .table) by decide),
  swapB_tok_eq _ h2 (show ¬ Boundary Tok.lp by decide), swapB_tok_eq _ h2 (show ¬ Boundary Tok.lsq by decide),
  swapB_tok_eq _ h2 (show ¬ Boundary Tok.comma by decide), swapB_tok_eq _ h2 (show ¬ Boundary Tok.rp by decide),
  swapB_tok_eq _ h2 (show ¬ Boundary Tok.rsq by decide), swapB_tok_eq _ h2 (show ¬ Boundary Tok.rcu by decide),
  swapB_tok_eq _ h2 (show ¬ Boundary Tok.rarrow by decide),
  swapB_tok_eq _ h2 (show ¬ Boundary (Tok.op (.single '=')) by decide),
  swapB_tok_eq _ h2 (show ¬ Boundary (Tok.op (.single '.')) by decide),
  ihP])

set_option hygiene false in
macro "cs_auto" : tactic => `(tactic| repeat' (first
   | rfl
   | cs_simp
   | nb_step
   | pre_cases
   | split))

theorem parseDefineColumn_swapB (hT : InertBoundary T) (h2 : Boundary t2.cur.tok) (n : Nat) (p : PColParsing) (s : PSt) :
    parseDefineColumn T n p (swapB t2 s) = (parseDefineColumn T n p s).mapSt (swapB t2) := by
  have ihP := (swapIH_all (t2 := t2) hT h2 n).p
  have hcl : ¬ Boundary Tok.rp := by decide
  unfold parseDefineColumn
  simp only [consumeIdentifier_swapB t2 h2]
  cases consumeIdentifier s with
  | err e s1 => rfl
  | fuel => rfl
  | ok name s1 =>
    simp only [mapSt_ok, parseType_swapB h2]
    cases parseType n s1 with
    | err e s2 => rfl
    | fuel => rfl
    | ok type s2 =>
      simp only [mapSt_ok]
      by_cases hb : Boundary s2.cur.tok
      · have hb' := swapB_b t2 h2 hb
        have e1 := boundary_ne hb
        have e2 := boundary_ne hb'
        split
        · rename_i heq; exact absurd heq e2.1
        · rename_i heq; exact absurd heq e2.2.1
        · rename_i i heq; exact absurd heq (e2.2.2.1 i)
        · split
          · rename_i heq; exact absurd heq e1.1
          · rename_i heq; exact absurd heq e1.2.1
          · rename_i i heq; exact absurd heq (e1.2.2.1 i)
          · rfl
      · rw [swapB_nb t2 hb]
        split
        · cs_auto
        · cs_auto
        · cs_auto
        · rfl

theorem refLoop_swapB (h2 : Boundary t2.cur.tok) : ∀ (n : Nat) (acc : List PRegexRef) (s : PSt), ¬ Boundary s.cur.tok →
    refLoop n acc (swapB t2 s) = (refLoop n acc s).mapSt (swapB t2) := by
  intro n
  induction n with
  | zero => intro acc s _; rw [refLoop, refLoop]; rfl
  | succ n ih =>
    intro acc s hnb
    have ihP := fun (s : PSt) => next_swapB t2 (s := s)
    have hcl : ¬ Boundary Tok.rp := by decide
    rw [refLoop, refLoop]
    rw [next_swapB t2 hnb]
    cases next s with
    | err e s1 => rfl
    | fuel => rfl
    | ok a s1 =>
      simp only [mapSt_ok]
      cs_auto
      rename_i hcomma
      exact ih _ _ (nb_of_eq hcomma (by decide))

theorem optRefs_swapB (h2 : Boundary t2.cur.tok) (n : Nat) (f : PRegexRef) (s : PSt) :
    optRefs n f (swapB t2 s) = (optRefs n f s).mapSt (swapB t2) := by
  unfold optRefs
  simp only [swapB_tok_eq t2 h2 (show ¬ Boundary Tok.comma by decide)]
  by_cases hc : s.cur.tok = .comma
  · simp only [hc, if_true]; exact refLoop_swapB h2 n _ s (nb_of_eq hc (by decide))
  · simp only [hc, if_false]; rfl

theorem jsonLoop_swapB (h2 : Boundary t2.cur.tok) : ∀ (n : Nat) (acc : List PJsonStep) (s : PSt),
    jsonLoop n acc (swapB t2 s) = (jsonLoop n acc s).mapSt (swapB t2) := by
  intro n
  induction n with
  | zero => intro acc s; rw [jsonLoop, jsonLoop]; rfl
  | succ n ih =>
    intro acc s
    have ihP := fun (s : PSt) => next_swapB t2 (s := s)
    have hcl : ¬ Boundary Tok.rp := by decide
    rw [jsonLoop, jsonLoop]
    cs_auto
    all_goals exact ih _ _

set_option hygiene false in
macro "cs_auto2" : tactic => `(tactic| repeat' (first
   | rfl
   | simp only [hOR, hDC, hJL]
   | cs_simp
   | nb_step
   | pre_cases
   | split))

theorem colItem_swapB (hT : InertBoundary T) (h2 : Boundary t2.cur.tok) (n : Nat) (ps : Patterns) (cs : List PColDef) (s : PSt) :
    colItem T n ps cs (swapB t2 s) = (colItem T n ps cs s).mapSt (swapB t2) := by
  have ihP := fun (s : PSt) => next_swapB t2 (s := s)
  have hcl : ¬ Boundary Tok.rp := by decide
  have hOR := optRefs_swapB (t2 := t2) h2 n
  have hDC := parseDefineColumn_swapB (t2 := t2) hT h2 n
  have hJL := jsonLoop_swapB (t2 := t2) h2 n
  unfold colItem
  by_cases hb : Boundary s.cur.tok
  · have hb' := swapB_b t2 h2 hb
    have e1 := boundary_ne hb
    have e2 := boundary_ne hb'
    split
    · rename_i i heq; exact absurd heq (e2.2.2.1 i)
    · rename_i i heq; exact absurd heq (e2.2.2.2.1 i)
    · rename_i heq; exact absurd heq e2.2.2.2.2.1
    · rename_i heq; exact absurd heq e2.2.2.2.2.2.1
    · split
      · rename_i i heq; exact absurd heq (e1.2.2.1 i)
      · rename_i i heq; exact absurd heq (e1.2.2.2.1 i)
      · rename_i heq; exact absurd heq e1.2.2.2.2.1
      · rename_i heq; exact absurd heq e1.2.2.2.2.2.1
      · exact mkErr_swapB t2 s _
  · rw [swapB_nb t2 hb]
    split
    · rw [next_swapB t2 hb]
      cases next s with
      | err e s1 => rfl
      | fuel => rfl
      | ok a s1 =>
        simp only [mapSt_ok]
        cs_auto2
    · rw [next_swapB t2 hb]
      cases next s with
      | err e s1 => rfl
      | fuel => rfl
      | ok a s1 =>
        simp only [mapSt_ok]
        cs_auto2
    · rw [next_swapB t2 hb]
      cases next s with
      | err e s1 => rfl
      | fuel => rfl
      | ok a s1 =>
        simp only [mapSt_ok, hJL]
        cs_auto2
    · rw [next_swapB t2 hb]; cases next s <;> rfl
    · exact mkErr_swapB t2 s _

theorem colLoop_swapB (hT : InertBoundary T) (h2 : Boundary t2.cur.tok) : ∀ (n : Nat) (ps : Patterns) (cs : List PColDef) (s : PSt),
    colLoop T n ps cs (swapB t2 s) = (colLoop T n ps cs s).mapSt (swapB t2) := by
  intro n
  induction n with
  | zero => intro ps cs s; rw [colLoop, colLoop]; rfl
  | succ n ih =>
    intro ps cs s
    have ihP := fun (s : PSt) => next_swapB t2 (s := s)
    have hcl : ¬ Boundary Tok.rp := by decide
    rw [colLoop, colLoop]
    simp only [colItem_swapB hT h2]
    cases colItem T n ps cs s with
    | err e s1 => rfl
    | fuel => rfl
    | ok r s1 =>
      simp only [mapSt_ok]
      cases r with
      | none => rfl
      | some pc =>
        simp only []
        cs_auto
        all_goals exact ih _ _ _

/-- `parse_create_table` up to, not including, the closing `;`: `CREATE TABLE name ( items )` -/
def createBody (T : PrecTables) (fuel : Nat) (s : PSt) : PRes (List Char × Patterns × List PColDef) :=
  try! (_, s) ← next s;
  try! (_, s) ← expectConsume (.kw .table) (.expectedKeyword .table) s;
  try! (name, s) ← consumeIdentifier s;
  try! (_, s) ← expectConsume .lp .expectedLeftParentheses s;
  try! (pc, s) ← colLoop T fuel [] [] s;
  .ok (name, pc) s

/-- `parse_create_table` is the body followed by the `;` -/
theorem parseCreateTable_eq (T : PrecTables) (fuel : Nat) (s : PSt) :
    parseCreateTable T fuel s =
      (match createBody T fuel s with
       | .ok npc s1 =>
         (match expectConsume .semi .expectedSemiColon s1 with
          | .ok _ s2 => .ok { loc := s.cur.loc, endLoc := s2.cur.loc, name := npc.1, patterns := npc.2.1, columns := npc.2.2 } s2
          | .err e s' => .err e s'
          | .fuel => .fuel)
       | .err e s' => .err e s'
       | .fuel => .fuel) := by
  unfold parseCreateTable createBody
  dsimp only
  cases next s with
  | err e s1 => rfl
  | fuel => rfl
  | ok a s1 =>
    simp only []
    cases expectConsume (.kw .table) (.expectedKeyword .table) s1 with
    | err e s2 => rfl
    | fuel => rfl
    | ok a2 s2 =>
      simp only []
      cases consumeIdentifier s2 with
      | err e s3 => rfl
      | fuel => rfl
      | ok nm s3 =>
        simp only []
        cases expectConsume .lp .expectedLeftParentheses s3 with
        | err e s4 => rfl
        | fuel => rfl
        | ok a4 s4 =>
          simp only []
          cases colLoop T fuel [] [] s4 with
          | err e s5 => rfl
          | fuel => rfl
          | ok pc s5 => rfl

theorem createBody_swapB (hT : InertBoundary T) (h2 : Boundary t2.cur.tok) (n : Nat) (s : PSt) (hnb : ¬ Boundary s.cur.tok) :
    createBody T n (swapB t2 s) = (createBody T n s).mapSt (swapB t2) := by
  have ihP := fun (s : PSt) => next_swapB t2 (s := s)
  have hcl : ¬ Boundary Tok.rp := by decide
  unfold createBody
  rw [next_swapB t2 hnb]
  cases next s with
  | err e s1 => rfl
  | fuel => rfl
  | ok a s1 =>
    have hOR := colLoop_swapB (t2 := t2) hT h2 n
    have hDC := hOR; have hJL := hOR
    simp only [mapSt_ok]
    cs_auto2

end Concat
end Parse
end Sqlgrep
