// C04: aggregate statements through the real FileExecutor vs the Lean engine model (and its executable spec).
use crate::engine_run::*;
use crate::queries::*;
use crate::run::{Params, Run};
use crate::util::Rng;

pub fn gen_input(rng: &mut Rng, n: usize, null_pct: u64, extreme: bool) -> Vec<String> {
    (0..n).map(|_| gen_line(rng, null_pct, extreme)).collect()
}

pub fn join_lines(lines: &[String]) -> Vec<u8> {
    let mut s = String::new();
    for l in lines {
        s.push_str(l);
        s.push('\n');
    }
    s.into_bytes()
}

fn agg_tag(text: &str, r: &BatchResult) -> String {
    let mut aggs: Vec<&str> = Vec::new();
    for a in &["COUNT(*)", "COUNT(DISTINCT", "COUNT(", "SUM(", "MIN(", "MAX(", "AVG(", "STDDEV(", "VARIANCE(", "PERCENTILE(", "BOOL_", "ARRAY_AGG(", "STRING_AGG("] {
        if text.contains(a) { aggs.push(a); }
    }
    format!("{}|g{}|h{}|w{}|{}|rows{}", aggs.join(""), text.contains("GROUP BY") as u8, text.contains("HAVING") as u8, text.contains("WHERE") as u8, r.status, r.records().len().min(4))
}

pub fn run(p: &Params) -> Run {
    let mut run = Run::new("C04");
    let mut rng = Rng::new(p.seed ^ 0x04);
    let n = p.n(2500, 120_000);
    let opts = QueryOpts { allow_limit: false, allow_distinct: false, allow_join: false, aggregate: Some(true) };
    for i in 0..n {
        let sch = gen_schema(&mut rng);
        let gq = gen_query(&mut rng, &sch, &opts, "");
        let prepared = match prepare(&sch.defs, &gq.text) {
            Ok(p) => p,
            Err(e) => { run.count(&format!("rejected:{}", e.split(':').next().unwrap_or(""))); continue; }
        };
        let nlines = match rng.below(4) { 0 => rng.below(3), 1 => rng.below(8), _ => rng.below(30) };
        let null_pct = *rng.pick(&[5u64, 20, 50, 80]);
        let lines = gen_input(&mut rng, nlines, null_pct, i % 7 == 0);
        let content = join_lines(&lines);
        let files = vec![content];
        let result = run_files(&prepared, &files);
        let case = match batch_case(&prepared, b"", &files, None) { Some(c) => c, None => continue };
        run.count(&format!("status:{}", result.status));
        let tag = agg_tag(&gq.text, &result);
        run.oracle_checks += 1;
        if result.status == "panic" {
            run.fail(format!("query={} input={:?}", gq.text, lines), "panic:aggregate", "aggregate run panicked".to_owned());
        }
        // the case description travels with the case so that spec failures can be reported with the SQL text
        run.case_with_desc(case, result.wire(), tag, format!("query={} input={:?}", gq.text, lines));
    }
    run.notes.push("aggregate statements (1-4 select items mixing keys, aggregates, transforms; WHERE/GROUP BY/HAVING) over 0-30 lines with 5-80% NULL fields".to_owned());
    run
}
