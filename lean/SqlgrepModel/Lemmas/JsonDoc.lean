import SqlgrepModel.Model.JsonDoc
import SqlgrepModel.Lemmas.DecFloat
/-
`JsonDoc.docOfLine` (the Lean computation of `serde_json::from_str::<Value>(line)`) and RFC 8259.

* `parseJsonL_erase`: the lexeme-keeping parser is `Lemmas/JsonParser.parseJson` — same control flow, `.num` carries the
  text of the number instead of its denotation;
* `parseJsonL_grammar` / `parseJsonL_complete`: hence (by `parseJson_iff`) `parseJsonL cs = some l` exactly when `cs` is a
  `JSON-text` of RFC 8259 whose denotation is `l.erase`;
* `docOfLine_some_iff`, `docOfLine_rfc8259`, `not_rfc8259_not_json`: a line has a document iff its bytes are UTF-8 of a
  `JSON-text`, within serde_json's two limits (nesting ≤ 127, numbers in the REAL range);
* `serdeNumber_spec`, `toJson_nums`, `nums_followPath`: every number found in the document at a path is serde_json's
  reading of a number lexeme of the text, and its REAL is `decToF64` of the lexeme's denotation `Dec` (hence the nearest REAL:
  `DecFloat.decToF64_nearest`).
-/
namespace Sqlgrep
namespace JsonDoc
open JsonGrammar

def eV (p : LVal × List Char) : JVal × List Char := (p.1.erase, p.2)
def eMs (p : List (List Char × LVal) × List Char) : List (List Char × JVal) × List Char := (LVal.eraseMembers p.1, p.2)
def eM (p : (List Char × LVal) × List Char) : (List Char × JVal) × List Char := ((p.1.1, p.1.2.erase), p.2)
def eEs (p : List LVal × List Char) : List JVal × List Char := (LVal.eraseList p.1, p.2)

structure EraseIH (fuel : Nat) : Prop where
  v : ∀ cs, (parseValL fuel cs).map eV = parseVal fuel cs
  ms : ∀ cs, (parseMembersL fuel cs).map eMs = parseMembers fuel cs
  m : ∀ cs, (parseMemberL fuel cs).map eM = parseMember fuel cs
  es : ∀ cs, (parseElemsL fuel cs).map eEs = parseElems fuel cs

theorem erase_zero : EraseIH 0 := by
  constructor <;> intro cs
  · rw [parseValL, parseVal]; rfl
  · rw [parseMembersL, parseMembers]; rfl
  · rw [parseMemberL, parseMember]; rfl
  · rw [parseElemsL, parseElems]; rfl

theorem erase_succ (f : Nat) (ih : EraseIH f) : EraseIH (f + 1) := by
  constructor
  · intro cs
    rw [parseValL, parseVal]
    cases dropWs cs with
    | nil => rfl
    | cons c t =>
      simp only
      by_cases h1 : c = '"'
      · simp only [h1, if_true]
        cases parseChars t with
        | none => rfl
        | some p => rfl
      simp only [h1, if_false]
      by_cases h2 : c = '{'
      · simp only [h2, if_true]
        cases dropWs t with
        | nil => rfl
        | cons c2 t2 =>
          simp only
          by_cases h3 : c2 = '}'
          · simp only [h3, if_true]; rfl
          · simp only [h3, if_false]
            rw [← ih.ms]
            cases parseMembersL f (c2 :: t2) with
            | none => rfl
            | some p => rfl
      simp only [h2, if_false]
      by_cases h3 : c = '['
      · simp only [h3, if_true]
        cases dropWs t with
        | nil => rfl
        | cons c2 t2 =>
          simp only
          by_cases h4 : c2 = ']'
          · simp only [h4, if_true]; rfl
          · simp only [h4, if_false]
            rw [← ih.es]
            cases parseElemsL f (c2 :: t2) with
            | none => rfl
            | some p => rfl
      simp only [h3, if_false]
      by_cases h4 : c = 't'
      · simp only [h4, if_true]
        cases stripLit ['r', 'u', 'e'] t <;> rfl
      simp only [h4, if_false]
      by_cases h5 : c = 'f'
      · simp only [h5, if_true]
        cases stripLit ['a', 'l', 's', 'e'] t <;> rfl
      simp only [h5, if_false]
      by_cases h6 : c = 'n'
      · simp only [h6, if_true]
        cases stripLit ['u', 'l', 'l'] t <;> rfl
      simp only [h6, if_false]
      cases hn : numValue (spanNum (c :: t)).1 with
      | none => rfl
      | some d => simp [eV, LVal.erase, hn]
  · intro cs
    rw [parseMembersL, parseMembers, ← ih.m]
    cases parseMemberL f cs with
    | none => rfl
    | some p =>
      obtain ⟨m, r⟩ := p
      simp only [Option.map, eM]
      cases r with
      | nil => rfl
      | cons c t =>
        simp only
        by_cases h1 : c = '}'
        · simp only [h1, if_true]; rfl
        simp only [h1, if_false]
        by_cases h2 : c = ','
        · simp only [h2, if_true]
          rw [← ih.ms]
          cases parseMembersL f t with
          | none => rfl
          | some p => rfl
        · simp only [h2, if_false]
  · intro cs
    rw [parseMemberL, parseMember]
    cases dropWs cs with
    | nil => rfl
    | cons c t =>
      simp only
      by_cases h1 : c = '"'
      · simp only [h1, if_true]
        cases parseChars t with
        | none => rfl
        | some p =>
          obtain ⟨k, r⟩ := p
          simp only
          cases dropWs r with
          | nil => rfl
          | cons c2 t2 =>
            simp only
            by_cases h2 : c2 = ':'
            · simp only [h2, if_true]
              rw [← ih.v]
              cases parseValL f t2 with
              | none => rfl
              | some p => rfl
            · simp only [h2, if_false]; rfl
      · simp only [h1, if_false]; rfl
  · intro cs
    rw [parseElemsL, parseElems, ← ih.v]
    cases parseValL f cs with
    | none => rfl
    | some p =>
      obtain ⟨x, r⟩ := p
      simp only [Option.map, eV]
      cases r with
      | nil => rfl
      | cons c t =>
        simp only
        by_cases h1 : c = ']'
        · simp only [h1, if_true]; rfl
        simp only [h1, if_false]
        by_cases h2 : c = ','
        · simp only [h2, if_true]
          rw [← ih.es]
          cases parseElemsL f t with
          | none => rfl
          | some p => rfl
        · simp only [h2, if_false]

theorem erase_all : ∀ fuel, EraseIH fuel
  | 0 => erase_zero
  | f + 1 => erase_succ f (erase_all f)

/-- **the lexeme parser is the grammar's parser**: forgetting the number lexemes of `parseJsonL`'s answer gives
`parseJson`'s answer, and one fails exactly when the other does -/
theorem parseJsonL_erase (cs : List Char) : (parseJsonL cs).map LVal.erase = parseJson cs := by
  unfold parseJsonL parseJson
  rw [← (erase_all _).v]
  cases parseValL (cs.length + 1) cs with
  | none => rfl
  | some p =>
    obtain ⟨x, r⟩ := p
    cases r <;> rfl


/-- a text the lexeme parser accepts is a `JSON-text` of RFC 8259 and denotes the tree with the lexemes forgotten -/
theorem parseJsonL_grammar {cs : List Char} {l : LVal} (h : parseJsonL cs = some l) : JsonTextD cs l.erase := by
  have := parseJsonL_erase cs
  rw [h] at this
  exact (parseJson_iff cs l.erase).1 this.symm

/-- every `JSON-text` is accepted, with a lexeme tree that denotes its value -/
theorem parseJsonL_complete {cs : List Char} {x : JVal} (h : JsonTextD cs x) : ∃ l, parseJsonL cs = some l ∧ l.erase = x := by
  have hp := (parseJson_iff cs x).2 h
  rw [← parseJsonL_erase] at hp
  cases hl : parseJsonL cs with
  | none => rw [hl] at hp; cases hp
  | some l =>
    rw [hl] at hp
    simp only [Option.map, Option.some.injEq] at hp
    exact ⟨l, rfl, hp⟩

/-- what it means that a line has a document -/
theorem docOfLine_some_iff (line : List Nat) (j : Json) :
    docOfLine line = some j ↔
      ∃ cs l, Utf8.decode line = some cs ∧ parseJsonL cs = some l ∧ l.depth ≤ maxDepth ∧ toJson l = some j := by
  unfold docOfLine docOfChars
  constructor
  · intro h
    cases hd : Utf8.decode line with
    | none => rw [hd] at h; cases h
    | some cs =>
      rw [hd] at h
      simp only at h
      cases hl : parseJsonL cs with
      | none => rw [hl] at h; cases h
      | some l =>
        rw [hl] at h
        simp only at h
        by_cases hdep : l.depth ≤ maxDepth
        · rw [if_pos hdep] at h; exact ⟨cs, l, rfl, hl, hdep, h⟩
        · rw [if_neg hdep] at h; cases h
  · rintro ⟨cs, l, hd, hl, hdep, hj⟩
    rw [hd]; simp only; rw [hl]; simp only; rw [if_pos hdep]; exact hj

/-- **a document comes from an RFC 8259 text**: if the line has a document, its bytes are the UTF-8 encoding of a
`JSON-text` (`Spec/JsonGrammar.lean`, written from the RFC), and the document is serde_json's classification
(`toJson`: integer / float numbers, UTF-8 strings, repeated keys) of a tree that denotes the text's value -/
theorem docOfLine_rfc8259 (line : List Nat) (j : Json) (h : docOfLine line = some j) :
    ∃ cs l, Utf8.decode line = some cs ∧ JsonTextD cs l.erase ∧ l.depth ≤ maxDepth ∧ toJson l = some j := by
  obtain ⟨cs, l, hd, hl, hdep, hj⟩ := (docOfLine_some_iff line j).1 h
  exact ⟨cs, l, hd, parseJsonL_grammar hl, hdep, hj⟩

/-- a line whose text is not a `JSON-text` of RFC 8259 has no document -/
theorem not_rfc8259_not_json (line : List Nat) (cs : List Char) (hd : Utf8.decode line = some cs)
    (h : ¬ ∃ x, JsonTextD cs x) : docOfLine line = none := by
  cases hdoc : docOfLine line with
  | none => rfl
  | some j =>
    obtain ⟨cs', l, hd', hg, _, _⟩ := docOfLine_rfc8259 line j hdoc
    rw [hd] at hd'
    cases hd'
    exact absurd ⟨_, hg⟩ h

/-- a line that is not UTF-8 has no document -/
theorem not_utf8_not_json (line : List Nat) (hd : Utf8.decode line = none) : docOfLine line = none := by
  unfold docOfLine; rw [hd]

/-- conversely, a `JSON-text` within serde_json's limits has a document -/
theorem rfc8259_has_doc (line : List Nat) (cs : List Char) (x : JVal) (hd : Utf8.decode line = some cs)
    (h : JsonTextD cs x) :
    ∃ l, l.erase = x ∧ docOfLine line = (if l.depth ≤ maxDepth then toJson l else none) := by
  obtain ⟨l, hl, he⟩ := parseJsonL_complete h
  refine ⟨l, he, ?_⟩
  unfold docOfLine docOfChars
  rw [hd]; simp only; rw [hl]

/-! ### numbers: the REAL of a JSON number is the nearest REAL of the literal's denotation -/

/-- what `serdeNumber` answers: the literal is a `number` of the grammar with denotation `d`, the number's REAL
(`as_f64`) is `decToF64` of `d` with the literal's sign, and that REAL is finite -/
theorem serdeNumber_spec (lex : List Char) (n : JNum) (h : serdeNumber lex = some n) :
    ∃ d, numValue lex = some d ∧ (Json.num n).asF64 = some (realOfDec (lexNeg lex) d) ∧
      realOfDec (lexNeg lex) d % 2 ^ 63 ≠ DecFloat.infBits := by
  unfold serdeNumber at h
  cases hd : numValue lex with
  | none => rw [hd] at h; cases h
  | some d =>
    rw [hd] at h
    simp only at h
    refine ⟨d, rfl, ?_⟩
    by_cases hinf : realOfDec (lexNeg lex) d % 2 ^ 63 = DecFloat.infBits
    · rw [if_pos hinf] at h; cases h
    · rw [if_neg hinf] at h
      refine ⟨?_, hinf⟩
      split at h
      · split at h
        · cases h; rfl
        · split at h
          · cases h; rfl
          · split at h <;> (cases h; rfl)
      · cases h; rfl

/-- the magnitude of `realOfDec` is the conversion of the non-negative number -/
theorem realOfDec_mag (neg : Bool) (d : Dec) :
    realOfDec neg d % 2 ^ 63 = DecFloat.decToF64 false d.mant.natAbs d.exp := by
  unfold realOfDec
  have hle := DecFloat.decToF64_pos_le d.mant.natAbs d.exp
  unfold DecFloat.infBits at hle
  cases neg with
  | false => omega
  | true => rw [DecFloat.decToF64_neg]; unfold DecFloat.signMask; omega

/-! ### every number of the document comes from a number lexeme of the text -/

mutual
/-- the number lexemes of a parsed text -/
def LVal.lexemes : LVal → List (List Char)
  | .num lex => [lex]
  | .arr xs => LVal.lexemesList xs
  | .obj ms => LVal.lexemesMembers ms
  | _ => []
def LVal.lexemesList : List LVal → List (List Char)
  | [] => []
  | x :: xs => x.lexemes ++ LVal.lexemesList xs
def LVal.lexemesMembers : List (List Char × LVal) → List (List Char)
  | [] => []
  | (_, x) :: ms => x.lexemes ++ LVal.lexemesMembers ms
end

mutual
/-- the number nodes of a document -/
def nums : Json → List JNum
  | .num n => [n]
  | .arr xs => numsList xs
  | .obj kvs => numsMembers kvs
  | _ => []
def numsList : List Json → List JNum
  | [] => []
  | x :: xs => nums x ++ numsList xs
def numsMembers : List (List Nat × Json) → List JNum
  | [] => []
  | (_, x) :: kvs => nums x ++ numsMembers kvs
end

theorem nums_getIndex {xs : List Json} {i : Nat} {v : Json} (h : xs[i]? = some v) : ∀ n ∈ nums v, n ∈ numsList xs := by
  induction xs generalizing i with
  | nil => simp at h
  | cons x xs ih =>
    intro n hn
    rw [numsList]
    cases i with
    | zero => simp at h; subst h; exact List.mem_append_left _ hn
    | succ i => exact List.mem_append_right _ (ih (by simpa using h) n hn)

theorem nums_lookup {kvs : List (List Nat × Json)} {k : List Nat} {v : Json} (h : kvs.lookup k = some v) :
    ∀ n ∈ nums v, n ∈ numsMembers kvs := by
  induction kvs with
  | nil => simp [List.lookup] at h
  | cons kv kvs ih =>
    obtain ⟨k', x⟩ := kv
    intro n hn
    rw [numsMembers]
    rw [List.lookup] at h
    split at h
    · cases h; exact List.mem_append_left _ hn
    · exact List.mem_append_right _ (ih h n hn)

/-- a value reached by a path is a sub-tree: its numbers are numbers of the document -/
theorem nums_followPath : ∀ (steps : List JsonStep) (j v : Json), followPath steps j = some v → ∀ n ∈ nums v, n ∈ nums j
  | [], j, v, h => by simp only [followPath, Option.some.injEq] at h; subst h; exact fun n hn => hn
  | s :: rest, j, v, h => by
    rw [followPath] at h
    cases hs : JsonAccess.step j s with
    | none => rw [hs] at h; cases h
    | some w =>
      rw [hs] at h
      intro n hn
      have hw := nums_followPath rest w v h n hn
      cases s with
      | field name =>
        cases j with
        | obj kvs => rw [nums]; exact nums_lookup (by simpa [JsonAccess.step, Json.getField] using hs) n hw
        | _ => simp [JsonAccess.step, Json.getField] at hs
      | index i =>
        cases j with
        | arr xs => rw [nums]; exact nums_getIndex (by simpa [JsonAccess.step, Json.getIndex] using hs) n hw
        | _ => simp [JsonAccess.step, Json.getIndex] at hs

theorem nums_insertMember (m : List (List Nat × Json)) (k : List Nat) (v : Json) :
    ∀ n ∈ numsMembers (insertMember m k v), n ∈ numsMembers m ∨ n ∈ nums v := by
  induction m with
  | nil => intro n hn; simp [insertMember, numsMembers] at hn; exact Or.inr hn
  | cons kv m ih =>
    obtain ⟨k', v'⟩ := kv
    intro n hn
    rw [insertMember] at hn
    split at hn
    · rw [numsMembers, List.mem_append] at hn
      rw [numsMembers, List.mem_append]
      rcases hn with h | h
      · exact Or.inr h
      · exact Or.inl (Or.inr h)
    · rw [numsMembers, List.mem_append] at hn
      rw [numsMembers, List.mem_append]
      rcases hn with h | h
      · exact Or.inl (Or.inl h)
      · rcases ih n h with h' | h'
        · exact Or.inl (Or.inr h')
        · exact Or.inr h'

theorem nums_dedupe (kvs : List (List Nat × Json)) (acc : List (List Nat × Json)) :
    ∀ n ∈ numsMembers (kvs.foldl (fun m kv => insertMember m kv.1 kv.2) acc), n ∈ numsMembers acc ∨ n ∈ numsMembers kvs := by
  induction kvs generalizing acc with
  | nil => intro n hn; exact Or.inl hn
  | cons kv kvs ih =>
    intro n hn
    rw [List.foldl] at hn
    obtain ⟨k, v⟩ := kv
    rw [numsMembers, List.mem_append]
    rcases ih _ n hn with h | h
    · rcases nums_insertMember acc k v n h with h' | h'
      · exact Or.inl h'
      · exact Or.inr (Or.inl h')
    · exact Or.inr (Or.inr h)

mutual
/-- every number of the document is serde_json's reading of a number lexeme of the text -/
theorem toJson_nums : ∀ (l : LVal) (j : Json), toJson l = some j → ∀ n ∈ nums j, ∃ lex ∈ l.lexemes, serdeNumber lex = some n
  | .null, j, h => by simp only [toJson, Option.some.injEq] at h; subst h; intro n hn; simp [nums] at hn
  | .bool b, j, h => by simp only [toJson, Option.some.injEq] at h; subst h; intro n hn; simp [nums] at hn
  | .str s, j, h => by simp only [toJson, Option.some.injEq] at h; subst h; intro n hn; simp [nums] at hn
  | .num lex, j, h => by
    rw [toJson] at h
    cases hs : serdeNumber lex with
    | none => rw [hs] at h; cases h
    | some m =>
      rw [hs] at h
      simp only [Option.map, Option.some.injEq] at h; subst h
      intro n hn
      simp only [nums, List.mem_singleton] at hn; subst hn
      exact ⟨lex, by simp [LVal.lexemes], hs⟩
  | .arr xs, j, h => by
    rw [toJson] at h
    cases hx : toJsonList xs with
    | none => rw [hx] at h; cases h
    | some vs =>
      rw [hx] at h
      simp only [Option.map, Option.some.injEq] at h; subst h
      intro n hn
      rw [nums] at hn
      rw [LVal.lexemes]
      exact toJsonList_nums xs vs hx n hn
  | .obj ms, j, h => by
    rw [toJson] at h
    cases hx : toJsonMembers ms with
    | none => rw [hx] at h; cases h
    | some kvs =>
      rw [hx] at h
      simp only [Option.map, Option.some.injEq] at h; subst h
      intro n hn
      rw [nums] at hn
      rw [LVal.lexemes]
      rcases nums_dedupe kvs [] n hn with h' | h'
      · simp [numsMembers] at h'
      · exact toJsonMembers_nums ms kvs hx n h'
theorem toJsonList_nums : ∀ (xs : List LVal) (vs : List Json), toJsonList xs = some vs →
    ∀ n ∈ numsList vs, ∃ lex ∈ LVal.lexemesList xs, serdeNumber lex = some n
  | [], vs, h => by simp only [toJsonList, Option.some.injEq] at h; subst h; intro n hn; simp [numsList] at hn
  | x :: xs, vs, h => by
    rw [toJsonList] at h
    cases h1 : toJson x with
    | none => rw [h1] at h; simp at h
    | some v =>
      cases h2 : toJsonList xs with
      | none => rw [h1, h2] at h; simp at h
      | some vs' =>
        rw [h1, h2] at h
        simp only [Option.some.injEq] at h; subst h
        intro n hn
        rw [numsList, List.mem_append] at hn
        rw [LVal.lexemesList]
        rcases hn with hn | hn
        · obtain ⟨lex, hl, hs⟩ := toJson_nums x v h1 n hn
          exact ⟨lex, List.mem_append_left _ hl, hs⟩
        · obtain ⟨lex, hl, hs⟩ := toJsonList_nums xs vs' h2 n hn
          exact ⟨lex, List.mem_append_right _ hl, hs⟩
theorem toJsonMembers_nums : ∀ (ms : List (List Char × LVal)) (kvs : List (List Nat × Json)), toJsonMembers ms = some kvs →
    ∀ n ∈ numsMembers kvs, ∃ lex ∈ LVal.lexemesMembers ms, serdeNumber lex = some n
  | [], kvs, h => by simp only [toJsonMembers, Option.some.injEq] at h; subst h; intro n hn; simp [numsMembers] at hn
  | (k, x) :: ms, kvs, h => by
    rw [toJsonMembers] at h
    cases h1 : toJson x with
    | none => rw [h1] at h; simp at h
    | some v =>
      cases h2 : toJsonMembers ms with
      | none => rw [h1, h2] at h; simp at h
      | some kvs' =>
        rw [h1, h2] at h
        simp only [Option.some.injEq] at h; subst h
        intro n hn
        rw [numsMembers, List.mem_append] at hn
        rw [LVal.lexemesMembers]
        rcases hn with hn | hn
        · obtain ⟨lex, hl, hs⟩ := toJson_nums x v h1 n hn
          exact ⟨lex, List.mem_append_left _ hl, hs⟩
        · obtain ⟨lex, hl, hs⟩ := toJsonMembers_nums ms kvs' h2 n hn
          exact ⟨lex, List.mem_append_right _ hl, hs⟩
end


end JsonDoc
end Sqlgrep
