import SqlgrepModel.Spec.Grammar
/-!
The first token of a printed expression (`RExpr.pr`, any context level, any table) is never the keyword `DISTINCT`: an
expression starts with a literal, a name, `(`, `-`, `NOT`, `CASE`, `EXTRACT` or `*`. Used by `Props/C13Stmt.lean`, where
`SELECT DISTINCT …` is the one thing that may not be confused with a projection.
-/
namespace Sqlgrep.Spec.RExpr
open Sqlgrep Sqlgrep.Spec

/-- a non-empty token list whose first token is not `DISTINCT` -/

def GoodHead (l : List Tok) : Prop := ∃ t rest, l = t :: rest ∧ t ≠ .kw .distinct

theorem goodHead_append {l m : List Tok} (h : GoodHead l) : GoodHead (l ++ m) := by
  obtain ⟨t, r, rfl, ht⟩ := h; exact ⟨t, r ++ m, rfl, ht⟩

theorem goodHead_wrap {b : Bool} {l : List Tok} (h : GoodHead l) : GoodHead (wrap b l) := by
  unfold wrap; split
  · exact ⟨.lp, _, rfl, by simp⟩
  · exact h

theorem pr_goodHead (T : PrecTables) : ∀ (e : RExpr) (ctx : Int), GoodHead (pr T ctx e)
  | .lit l, ctx => by rw [pr]; cases l <;> exact ⟨_, [], rfl, by simp [Lit.tok]⟩
  | .col x path, ctx => by rw [pr]; exact ⟨_, _, rfl, by simp⟩
  | .paren e, ctx => by rw [pr]; exact ⟨.lp, _, rfl, by simp⟩
  | .bin o l r, ctx => by
      rw [pr]; exact goodHead_wrap (by rw [List.append_assoc]; exact goodHead_append (pr_goodHead T l _))
  | .not e, ctx => by rw [pr]; exact goodHead_wrap ⟨_, _, rfl, by simp⟩
  | .neg e, ctx => by rw [pr]; exact goodHead_wrap ⟨_, _, rfl, by simp⟩
  | .index a i, ctx => by
      rw [pr]; exact goodHead_wrap (by simp only [List.append_assoc]; exact goodHead_append (pr_goodHead T a _))
  | .cast e t, ctx => by rw [pr]; exact goodHead_wrap (goodHead_append (pr_goodHead T e _))
  | .inList n e v vs, ctx => by
      rw [pr]; exact goodHead_wrap (by simp only [List.append_assoc]; exact goodHead_append (pr_goodHead T e _))
  | .call f args, ctx => by rw [pr]; exact ⟨_, _, rfl, by simp⟩
  | .star, ctx => by rw [pr]; exact ⟨_, _, rfl, by simp⟩
  | .countDistinct f a as, ctx => by rw [pr]; exact ⟨_, _, rfl, by simp⟩
  | .array sp args, ctx => by rw [pr]; exact ⟨_, _, rfl, by simp⟩
  | .extract part e, ctx => by rw [pr]; exact ⟨_, _, rfl, by simp⟩
  | .tuple a b more, ctx => by rw [pr]; exact ⟨.lp, _, rfl, by simp⟩
  | .case c r more els, ctx => by rw [pr]; exact ⟨_, _, rfl, by simp⟩

theorem minimal_goodHead (e : RExpr) : GoodHead (minimal e) := pr_goodHead specTables e 0
theorem full_goodHead (e : RExpr) : GoodHead (full e) := pr_goodHead specTables (parenAll e) 0

end Sqlgrep.Spec.RExpr
