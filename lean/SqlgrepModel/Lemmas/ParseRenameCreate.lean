import SqlgrepModel.Lemmas.ParseRenameStmt
import SqlgrepModel.Lemmas.ParseRenameTree
/-
`parse_multiple_create_table` / `parse_create_table` — pattern definitions with `split` / `match`, columns read from
pattern groups, from a pattern of their own, from a JSON path; `parse_define_column` with NOT NULL / DEFAULT / TRIM /
CONVERT / MICROSECONDS; `parse_type` — and `Parser::parse` on a token vector that starts with CREATE are equivariant
under respelling identifiers (`Lemmas/ParseRename.lean` for the expression parser behind DEFAULT): on the vector with
EVERY identifier `n` replaced by `ρ n` the answer is the tree with every name respelled (`POp.renCreate`: table,
pattern, column names, JSON fields; types, modes and options are the same) or the error with its payload respelled.

What `ρ` must satisfy beyond `NameMap`: `NotDefinedType` quotes `name ++ "[]"…` — `ρ` commutes with the appended
brackets (`brackets`); the parser makes up pattern names `_pattern<n>` — `ρ` fixes them (`inline`). Both hold for
lower-casing (`createNameMap_lowerChars`) and for every respelling of letters only.
-/
set_option linter.unusedSimpArgs false
namespace Sqlgrep

def PRegexRef.renAll (ρ : List Char → List Char) (r : PRegexRef) : PRegexRef := { r with pattern := ρ r.pattern }

def PJsonStep.renAll (ρ : List Char → List Char) : PJsonStep → PJsonStep
  | .field n => .field (ρ n)
  | .index i => .index i

def PColParsing.renAll (ρ : List Char → List Char) : PColParsing → PColParsing
  | .regex r => .regex (r.renAll ρ)
  | .multiRegex rs => .multiRegex (rs.map (PRegexRef.renAll ρ))
  | .json p => .json (p.map (PJsonStep.renAll ρ))

def PColDef.renAll (ρ : List Char → List Char) (c : PColDef) : PColDef :=
  { c with parsing := c.parsing.renAll ρ, name := ρ c.name }

def renPatterns (ρ : List Char → List Char) (ps : Parse.Patterns) : Parse.Patterns := ps.map (fun p => (ρ p.1, p.2))

def PCreate.renAll (ρ : List Char → List Char) (c : PCreate) : PCreate :=
  { c with name := ρ c.name, patterns := renPatterns ρ c.patterns, columns := c.columns.map (PColDef.renAll ρ) }

/-- respell every name of a CREATE TABLE tree: the table, the patterns, the columns, the JSON fields -/
def POp.renCreate (ρ : List Char → List Char) : POp → POp
  | .createTable c => .createTable (c.renAll ρ)
  | .multiple cs => .multiple (cs.map (PCreate.renAll ρ))
  | t => t

def ParseOutcome.renCreate (ρ : List Char → List Char) : ParseOutcome → ParseOutcome
  | .tree t => .tree (t.renCreate ρ)
  | .error e => .error (e.ren ρ)
  | .fuel => .fuel
  | .panic => .panic

/-- what the CREATE TABLE parser needs of a respelling -/
structure CreateNameMap (ρ : List Char → List Char) : Prop where
  names : NameMap ρ
  brackets : ∀ n k, ρ (n ++ Parse.bracketSuffix k) = ρ n ++ Parse.bracketSuffix k
  inline : ∀ k, ρ (Parse.inlinePatternName k) = Parse.inlinePatternName k

namespace Parse

variable {ρ : List Char → List Char}

theorem parseRegexMode_ren (hρ : CaseOnly ρ) (s : PSt) : parseRegexMode (s.ren ρ) = (parseRegexMode s).ren ρ id := by
  have hco : ∀ n, lowerChars (ρ n) = lowerChars n := hρ
  unfold parseRegexMode
  cases htk : s.cur.tok <;> simp only [ren_cur_tok, htk, Tok.ren, hco]
  all_goals sren []

theorem typeBrackets_ren : ∀ (n k : Nat) (s : PSt), typeBrackets n k (s.ren ρ) = (typeBrackets n k s).ren ρ id := by
  intro n
  induction n with
  | zero => intro k s; rw [typeBrackets, typeBrackets]; rfl
  | succ n ih =>
    intro k s
    have hrsq : ∀ s, expectConsume .rsq .expectedRightSquareParentheses (s.ren ρ) = (expectConsume .rsq .expectedRightSquareParentheses s).ren ρ id :=
      fun s => expectConsume_ren ρ _ _ s (by simp) rfl
    rw [typeBrackets, typeBrackets]
    sren [tok_ren_eq_lsq, hrsq, ih]

theorem parseType_ren (hρ : CreateNameMap ρ) (n : Nat) (s : PSt) : parseType n (s.ren ρ) = (parseType n s).ren ρ id := by
  have hco : ∀ n, lowerChars (ρ n) = lowerChars n := hρ.names.caseOnly
  have hbr := hρ.brackets
  have htb := @typeBrackets_ren ρ n 0
  unfold parseType
  sren [htb, hco, hbr]

theorem mkErr_ren_any {α} (s : PSt) (k : PErrKind) (hk : k.ren ρ = k) (f : α → α) :
    (mkErr (s.ren ρ) k : PRes α) = (mkErr s k).ren ρ f := mkErr_ren ρ s k f hk

theorem parseDefineColumn_ren (hρ : CreateNameMap ρ) {T : PrecTables} (hT : NoIdentOps T) (n : Nat) (p : PColParsing)
    (s : PSt) : parseDefineColumn T n (p.renAll ρ) (s.ren ρ) = (parseDefineColumn T n p s).ren ρ (PColDef.renAll ρ) := by
  have hco : ∀ n, lowerChars (ρ n) = lowerChars n := hρ.names.caseOnly
  have hty := parseType_ren hρ n
  have hpr := (ren_all T hρ.names hT n).2.2.2.1
  have hnull : ∀ s, expectConsume .null .expectedNull (s.ren ρ) = (expectConsume .null .expectedNull s).ren ρ id :=
    fun s => expectConsume_ren ρ _ _ s (by simp) rfl
  have hmk : ∀ (s : PSt) (k : PErrKind) (hk : k.ren ρ = k), (mkErr (s.ren ρ) k : PRes PColDef) = (mkErr s k).ren ρ (PColDef.renAll ρ) :=
    fun s k hk => mkErr_ren ρ s k _ hk
  unfold parseDefineColumn
  rw [consumeIdentifier_ren]
  cases h1 : consumeIdentifier s with
  | err e s1 => rfl
  | fuel => rfl
  | ok name s1 =>
    simp only [ren_ok]
    rw [hty]
    cases h2 : parseType n s1 with
    | err e s2 => rfl
    | fuel => rfl
    | ok ty s2 =>
      simp only [ren_ok, id]
      cases htk : s2.cur.tok <;> simp only [ren_cur_tok, htk, Tok.ren, hco]
      all_goals try (sren [PColDef.renAll, hmk]; done)
      rename_i k
      cases k
      all_goals try (sren [PColDef.renAll, hmk]; done)
      all_goals try (sren [PColDef.renAll, hmk, hnull]; done)
      -- DEFAULT <primary>
      simp only [next_ren]
      cases h3 : next s2 with
      | err e s3 => rfl
      | fuel => rfl
      | ok u s3 =>
        simp only [ren_ok, hpr]
        cases h4 : parsePrimary T n s3 with
        | err e s4 => rfl
        | fuel => rfl
        | ok e s4 =>
          simp only [ren_ok]
          cases e <;> simp only [PExpr.renAll]
          all_goals try (exact hmk _ _ rfl)
          rename_i l v
          cases hv : v.valueType with
          | none => rfl
          | some vt =>
            simp only []
            by_cases hne : vt = ty
            · simp only [hne, ne_eq, not_true_eq_false, if_false]; rfl
            · simp only [hne, ne_eq, not_false_eq_true, if_true]; exact hmk _ _ rfl

theorem tok_ren_eq_rarrow (t : Tok) : (t.ren ρ = .rarrow) = (t = .rarrow) := tok_ren_eq ρ (by simp) t
theorem tok_ren_eq_rcu (t : Tok) : (t.ren ρ = .rcu) = (t = .rcu) := tok_ren_eq ρ (by simp) t

theorem expectConsume_ren' (t : Tok) (k : PErrKind) (ht : ∀ n, t ≠ .ident n) (hk : k.ren ρ = k) (s : PSt) :
    expectConsume t k (s.ren ρ) = (expectConsume t k s).ren ρ id := expectConsume_ren ρ t k s ht hk

theorem refLoop_ren : ∀ (n : Nat) (acc : List PRegexRef) (s : PSt),
    refLoop n (acc.map (PRegexRef.renAll ρ)) (s.ren ρ) = (refLoop n acc s).ren ρ (List.map (PRegexRef.renAll ρ)) := by
  intro n
  induction n with
  | zero => intro acc s; rw [refLoop, refLoop]; rfl
  | succ n ih =>
    intro acc s
    have hlsq := @expectConsume_ren' ρ .lsq .expectedLeftSquareParentheses (by simp) rfl
    have hrsq := @expectConsume_ren' ρ .rsq .expectedRightSquareParentheses (by simp) rfl
    have hmk : ∀ (s : PSt) (f : List PRegexRef → List PRegexRef), (mkErr (s.ren ρ) .expectedRightArrow : PRes _) = (mkErr s .expectedRightArrow).ren ρ f :=
      fun s f => mkErr_ren ρ s _ f rfl
    rw [refLoop, refLoop]
    sren [hlsq, hrsq, hmk, tok_ren_eq_rarrow, ← ih, List.map_append, PRegexRef.renAll]

theorem optRefs_ren (n : Nat) (first : PRegexRef) (s : PSt) :
    optRefs n (first.renAll ρ) (s.ren ρ) = (optRefs n first s).ren ρ (List.map (PRegexRef.renAll ρ)) := by
  have h := @refLoop_ren ρ n [first]
  unfold optRefs
  sren [← h]

theorem jsonLoop_ren : ∀ (n : Nat) (acc : List PJsonStep) (s : PSt),
    jsonLoop n (acc.map (PJsonStep.renAll ρ)) (s.ren ρ) = (jsonLoop n acc s).ren ρ (List.map (PJsonStep.renAll ρ)) := by
  intro n
  induction n with
  | zero => intro acc s; rw [jsonLoop, jsonLoop]; rfl
  | succ n ih =>
    intro acc s
    have hrsq := @expectConsume_ren' ρ .rsq .expectedRightSquareParentheses (by simp) rfl
    have hmk : ∀ (s : PSt) (f : List PJsonStep → List PJsonStep), (mkErr (s.ren ρ) .expectedJsonColumnPartStart : PRes _) = (mkErr s .expectedJsonColumnPartStart).ren ρ f :=
      fun s f => mkErr_ren ρ s _ f rfl
    rw [jsonLoop, jsonLoop]
    sren [hrsq, hmk, tok_ren_eq_lsq, tok_ren_eq_rcu, ← ih, List.map_append, PJsonStep.renAll]

theorem parsingOfRefs_ren (rs : List PRegexRef) :
    parsingOfRefs (rs.map (PRegexRef.renAll ρ)) = (parsingOfRefs rs).renAll ρ := by
  cases rs with
  | nil => rfl
  | cons r rs => cases rs <;> rfl

theorem renPatterns_length (ps : Patterns) : (renPatterns ρ ps).length = ps.length := by simp [renPatterns]

theorem renPatterns_append (a b : Patterns) : renPatterns ρ (a ++ b) = renPatterns ρ a ++ renPatterns ρ b := by
  simp [renPatterns]

/-- the value `colItem` returns, respelled -/
def renItem (ρ : List Char → List Char) (r : Option (Patterns × List PColDef)) : Option (Patterns × List PColDef) :=
  r.map (fun pc => (renPatterns ρ pc.1, pc.2.map (PColDef.renAll ρ)))

theorem colItem_ren (hρ : CreateNameMap ρ) {T : PrecTables} (hT : NoIdentOps T) (n : Nat) (ps : Patterns)
    (cs : List PColDef) (s : PSt) :
    colItem T n (renPatterns ρ ps) (cs.map (PColDef.renAll ρ)) (s.ren ρ) = (colItem T n ps cs s).ren ρ (renItem ρ) := by
  have hmode := @parseRegexMode_ren ρ hρ.names.caseOnly
  have hrsq := @expectConsume_ren' ρ .rsq .expectedRightSquareParentheses (by simp) rfl
  have harr := @expectConsume_ren' ρ .rarrow .expectedRightArrow (by simp) rfl
  have hrefs := @optRefs_ren ρ n
  have hjson := @jsonLoop_ren ρ n []
  have hcol := parseDefineColumn_ren hρ hT n
  have hinl := hρ.inline
  have hmk : ∀ (s : PSt) (k : PErrKind) (hk : k.ren ρ = k), (mkErr (s.ren ρ) k : PRes _) = (mkErr s k).ren ρ (renItem ρ) :=
    fun s k hk => mkErr_ren ρ s k _ hk
  have hrefs' : ∀ (pn : List Char) (g : Nat) (s : PSt), optRefs n { pattern := ρ pn, group := g } (s.ren ρ) =
      (optRefs n { pattern := pn, group := g } s).ren ρ (List.map (PRegexRef.renAll ρ)) := fun pn g s => hrefs ⟨pn, g⟩ s
  have hcolr : ∀ (refs : List PRegexRef) (s : PSt), parseDefineColumn T n (parsingOfRefs (refs.map (PRegexRef.renAll ρ))) (s.ren ρ) =
      (parseDefineColumn T n (parsingOfRefs refs) s).ren ρ (PColDef.renAll ρ) := fun refs s => by
    rw [parsingOfRefs_ren]; exact hcol _ s
  have hcolj : ∀ (parts : List PJsonStep) (s : PSt), parseDefineColumn T n (.json (parts.map (PJsonStep.renAll ρ))) (s.ren ρ) =
      (parseDefineColumn T n (.json parts) s).ren ρ (PColDef.renAll ρ) := fun parts s => hcol (.json parts) s
  have hcols : ∀ (s : PSt), parseDefineColumn T n (.regex { pattern := inlinePatternName ps.length, group := 1 }) (s.ren ρ) =
      (parseDefineColumn T n (.regex { pattern := inlinePatternName ps.length, group := 1 }) s).ren ρ (PColDef.renAll ρ) := fun s => by
    have := hcol (.regex { pattern := inlinePatternName ps.length, group := 1 }) s
    simpa [PColParsing.renAll, PRegexRef.renAll, hinl, renPatterns_length] using this
  have hjson' : ∀ s, jsonLoop n [] (s.ren ρ) = (jsonLoop n [] s).ren ρ (List.map (PJsonStep.renAll ρ)) := hjson
  unfold colItem
  cases htk : s.cur.tok <;> simp only [ren_cur_tok, htk, Tok.ren]
  all_goals try (exact hmk _ _ rfl)
  all_goals try (sren [hmode, hrsq, harr, hrefs', hcolr, hcolj, hcols, hjson', hmk, renItem, renPatterns_length,
    renPatterns_append, renPatterns, hinl, List.map_append, tok_ren_eq_lsq, List.isEmpty_map]; done)
  rw [renPatterns_length]
  have hsingle : ∀ (pat : List Char), renPatterns ρ [(inlinePatternName ps.length, pat, PRegexMode.captures)] =
      [(inlinePatternName ps.length, pat, PRegexMode.captures)] := fun pat => by simp [renPatterns, hinl]
  sren [harr, hcols, renItem, renPatterns_append, hsingle, List.map_append]

/-- the value `colLoop` returns, respelled -/
def renPC (ρ : List Char → List Char) (pc : Patterns × List PColDef) : Patterns × List PColDef :=
  (renPatterns ρ pc.1, pc.2.map (PColDef.renAll ρ))

theorem colLoop_ren (hρ : CreateNameMap ρ) {T : PrecTables} (hT : NoIdentOps T) : ∀ (n : Nat) (ps : Patterns)
    (cs : List PColDef) (s : PSt),
    colLoop T n (renPatterns ρ ps) (cs.map (PColDef.renAll ρ)) (s.ren ρ) = (colLoop T n ps cs s).ren ρ (renPC ρ) := by
  intro n
  induction n with
  | zero => intro ps cs s; rw [colLoop, colLoop]; rfl
  | succ n ih =>
    intro ps cs s
    have hmk : ∀ (s : PSt), (mkErr (s.ren ρ) .expectedColumnDefinitionContinuation : PRes _) =
        (mkErr s .expectedColumnDefinitionContinuation).ren ρ (renPC ρ) := fun s => mkErr_ren ρ s _ _ rfl
    rw [colLoop, colLoop, colItem_ren hρ hT]
    cases h1 : colItem T n ps cs s with
    | err e s1 => rfl
    | fuel => rfl
    | ok r s1 =>
      cases r with
      | none => rfl
      | some pc =>
        simp only [ren_ok, renItem, Option.map_some]
        have ih' := ih pc.1 pc.2
        sren [tok_ren_eq_rp, hmk, ih', renPC]

theorem parseCreateTable_ren (hρ : CreateNameMap ρ) {T : PrecTables} (hT : NoIdentOps T) (n : Nat) (s : PSt) :
    parseCreateTable T n (s.ren ρ) = (parseCreateTable T n s).ren ρ (PCreate.renAll ρ) := by
  have htab := @expectConsume_ren' ρ (.kw .table) (.expectedKeyword .table) (by simp) rfl
  have hlp := @expectConsume_ren' ρ .lp .expectedLeftParentheses (by simp) rfl
  have hsemi := @expectConsume_ren' ρ .semi .expectedSemiColon (by simp) rfl
  have hloop : ∀ s, colLoop T n [] [] (s.ren ρ) = (colLoop T n [] [] s).ren ρ (renPC ρ) := colLoop_ren hρ hT n [] []
  unfold parseCreateTable
  sren [htab, hlp, hsemi, hloop, PCreate.renAll, renPC]

theorem opOfCreates_ren (cs : List PCreate) : opOfCreates (cs.map (PCreate.renAll ρ)) = (opOfCreates cs).renCreate ρ := by
  cases cs with
  | nil => rfl
  | cons c cs => cases cs <;> rfl

theorem multiCreateLoop_ren (hρ : CreateNameMap ρ) {T : PrecTables} (hT : NoIdentOps T) : ∀ (n : Nat) (acc : List PCreate)
    (s : PSt), multiCreateLoop T n (acc.map (PCreate.renAll ρ)) (s.ren ρ) = (multiCreateLoop T n acc s).ren ρ (POp.renCreate ρ) := by
  intro n
  induction n with
  | zero => intro acc s; rw [multiCreateLoop, multiCreateLoop]; rfl
  | succ n ih =>
    intro acc s
    have hc := parseCreateTable_ren hρ hT n
    rw [multiCreateLoop, multiCreateLoop]
    sren [hc, ← ih, ← opOfCreates_ren, List.map_append, ne_eq]

/-- `Parser::parse` on a token vector that starts with CREATE -/
theorem parseOp_create_ren (hρ : CreateNameMap ρ) {T : PrecTables} (hT : NoIdentOps T) (n : Nat) (s : PSt)
    (hs : s.cur.tok = .kw .create) : parseOp T n (s.ren ρ) = (parseOp T n s).ren ρ (POp.renCreate ρ) := by
  have hloop : ∀ s, multiCreateLoop T n [] (s.ren ρ) = (multiCreateLoop T n [] s).ren ρ (POp.renCreate ρ) :=
    multiCreateLoop_ren hρ hT n []
  have hs' : (s.ren ρ).cur.tok = .kw .create := by rw [ren_cur_tok, hs]; rfl
  have hne : (Tok.kw Keyword.create = Tok.kw Keyword.select) = False := by simp
  have hmk : ∀ (s : PSt), (mkErr (s.ren ρ) .tooManyTokens : PRes POp) = (mkErr s .tooManyTokens).ren ρ (POp.renCreate ρ) :=
    fun s => mkErr_ren ρ s _ _ rfl
  unfold parseOp parseStatement
  simp only [hs, hs', ne_eq, not_true_eq_false, and_false, if_false, hne, hloop]
  sren [optSemi_ren, ren_rest_isEmpty, hmk]

/-- **`Parser::parse` is equivariant under respelling identifiers** (token vectors that start with CREATE) -/
theorem parseTokens_create_ren (hρ : CreateNameMap ρ) {T : PrecTables} (hT : NoIdentOps T) (toks : List PTok)
    (hs : toks.head?.map (·.tok) = some (.kw .create)) :
    parseTokens T (toks.map (PTok.ren ρ)) = (parseTokens T toks).renCreate ρ := by
  cases toks with
  | nil => simp at hs
  | cons t ts =>
    have ht : t.tok = .kw .create := by simpa using hs
    unfold parseTokens parseTokensFuel
    simp only [List.map_cons, List.length_cons, List.length_map]
    have h := parseOp_create_ren hρ hT (fuelBound (ts.length + 1)) ⟨t, ts⟩ ht
    have e : ({ cur := t.ren ρ, rest := ts.map (PTok.ren ρ) } : PSt) = PSt.ren ρ ⟨t, ts⟩ := rfl
    rw [e, h]
    cases parseOp T (fuelBound (ts.length + 1)) ⟨t, ts⟩ <;> rfl

/-! ### lower-casing every identifier is such a respelling -/

/-- a character `lowerChars` leaves alone -/
def lowerFixed (c : Char) : Prop := ¬ ('A' ≤ c ∧ c ≤ 'Z') ∧ c.toNat ≠ 0x212A ∧ c.toNat ≠ 0x130

instance : DecidablePred lowerFixed := fun c =>
  inferInstanceAs (Decidable (¬ ('A' ≤ c ∧ c ≤ 'Z') ∧ c.toNat ≠ 0x212A ∧ c.toNat ≠ 0x130))

theorem lowerChars_of_fixed : ∀ (w : List Char), (∀ c ∈ w, lowerFixed c) → lowerChars w = w
  | [], _ => rfl
  | c :: cs, h => by
    have hc := h c (by simp)
    have ih := lowerChars_of_fixed cs (fun d hd => h d (List.mem_cons_of_mem _ hd))
    rw [lowerChars_cons, ih]
    simp [lowerChars, hc.1, hc.2.1, hc.2.2]

/-- every character of a lower-cased word is left alone by lower-casing -/
theorem lowerChars_out_fixed (s : List Char) : ∀ c ∈ lowerChars s, lowerFixed c := by
  intro c hc
  simp only [lowerChars, List.mem_flatMap] at hc
  obtain ⟨d, _, hcd⟩ := hc
  have hA : ('A' : Char).toNat = 65 := by decide
  have hZ : ('Z' : Char).toNat = 90 := by decide
  unfold lowerFixed
  simp only [char_le_iff, hA, hZ]
  split at hcd
  · rename_i hu
    simp only [char_le_iff, hA, hZ] at hu
    simp only [List.mem_singleton] at hcd
    subst hcd
    rw [ofNat_toNat_small _ (by omega)]
    omega
  · split at hcd
    · simp only [List.mem_singleton] at hcd; subst hcd; decide
    · split at hcd
      · simp only [List.mem_cons, List.mem_nil_iff, or_false] at hcd
        rcases hcd with rfl | rfl
        · decide
        · rw [ofNat_toNat_small _ (by decide)]; omega
      · rename_i hu h1 h2
        simp only [char_le_iff, hA, hZ] at hu
        simp only [List.mem_singleton] at hcd; subst hcd
        exact ⟨hu, h1, h2⟩

theorem lowerChars_idem (s : List Char) : lowerChars (lowerChars s) = lowerChars s :=
  lowerChars_of_fixed _ (lowerChars_out_fixed s)

theorem lowerChars_bracketSuffix : ∀ k, lowerChars (bracketSuffix k) = bracketSuffix k
  | 0 => rfl
  | k + 1 => by
    have ih := lowerChars_bracketSuffix k
    show lowerChars ('[' :: ']' :: bracketSuffix k) = _
    rw [lowerChars_cons, lowerChars_cons ']', ih]
    rfl

theorem digit_fixed {c : Char} (h : c.isDigit = true) : lowerFixed c := by
  have hA : ('A' : Char).toNat = 65 := by decide
  have hZ : ('Z' : Char).toNat = 90 := by decide
  simp only [Char.isDigit, Bool.and_eq_true, decide_eq_true_eq] at h
  unfold lowerFixed
  simp only [char_le_iff, hA, hZ]
  have h0 : c.val.toNat = c.toNat := rfl
  have : c.toNat ≤ 57 := by have := h.2; rw [UInt32.le_iff_toNat_le] at this; simpa [h0] using this
  omega

theorem lowerChars_inlinePatternName (k : Nat) : lowerChars (inlinePatternName k) = inlinePatternName k := by
  apply lowerChars_of_fixed
  intro c hc
  unfold inlinePatternName at hc
  rcases List.mem_append.mp hc with h | h
  · have : ∀ c ∈ "_pattern".toList, lowerFixed c := by decide
    exact this c h
  · rw [Nat.toString_eq_ofList_toDigits] at h
    simp only [String.toList_ofList] at h
    exact digit_fixed (Nat.isDigit_of_mem_toDigits (by decide) (by decide) h)

/-- **spelling every identifier in lower case is a respelling the CREATE TABLE parser is equivariant under** -/
theorem createNameMap_lowerChars : CreateNameMap lowerChars where
  names :=
    { caseOnly := lowerChars_idem
      dot := fun a b => by rw [lowerChars_append, lowerChars_append]; rfl
      createArray := by decide
      extract := fun p => by
        rw [lowerChars_append, lowerChars_idem]
        have : lowerChars "timestamp_extract_".toList = "timestamp_extract_".toList := by decide
        rw [this] }
  brackets := fun n k => by rw [lowerChars_append, lowerChars_bracketSuffix]
  inline := lowerChars_inlinePatternName

end Parse
end Sqlgrep
