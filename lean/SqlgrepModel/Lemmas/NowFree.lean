import SqlgrepModel.Lemmas.NoSkipPipeline
/-
"Only now() may differ between runs" (last sentence of C18).

The model has no clock: `now()` is answered by the field `nowF` of the total oracle (`Model/Eval.lean`
`TotalOracles`, read at exactly one place: `callFunction … .now []`). This file shows that the clock reading reaches a
run ONLY through a call of `now`: replace the reading by any other value (`Oracles.withNow`) — every expression,
statement and run that contains no call of `now` gives the same outcome.

* `notNow`, `Expr.nowFree`, `Stmt.nowFree`, `LStmt.nowFree`: the decidable syntactic predicate (instances of
  `Expr.allFuncs` / `Stmt.allFuncs` of `Lemmas/NoSkip*.lean`);
* `Oracles.withNow`, `Oracles.SameButNow` (same tables, same `upperF lowerF regexF`) and
  `SameButNow.eq_withNow`: two oracles that differ at most in the clock are `O` and `O.withNow v`;
* `callFunction_withNow` → `eval_withNow` (mutual over `Expr`) → the engines (`selectOne`, `cellStep`, `aggUpdateRow`,
  `aggResult`, `executeLine`, `finalResult`) → the executors (`runFile(s)`, `runBatch`, `runBatchI`, `runFollow`, the
  traced `runBatchT`, `runFollowAllT`) → `Pipeline.runStatement` / `runLowered` (`Facts.withNow`).
-/
namespace Sqlgrep

/-! ### the syntactic predicate -/

/-- every function except `now` -/
def notNow (f : Func) : Bool :=
  match f with
  | .now => false
  | _ => true

/-- no call of `now` anywhere in the expression (operands, function arguments, IN lists, CASE branches, at any depth) -/
abbrev Expr.nowFree (e : Expr) : Bool := e.allFuncs notNow

/-- no call of `now` anywhere in the statement: select list, WHERE, GROUP BY parts, aggregate arguments, the
expressions around aggregates, HAVING and the aggregates inside HAVING (`Stmt.allFuncs`, `Lemmas/NoSkipEngine.lean`) -/
abbrev Stmt.nowFree (s : Stmt) : Bool := s.allFuncs notNow

/-- a lowered statement (`parsing::parse`'s answer): a query is `nowFree` when its statement is — a JOIN clause holds two
column NAMES, a table name and a file name, no expression —; CREATE TABLE statements contain no expression at all -/
def LStmt.nowFree : LStmt → Bool
  | .select s _ _ _ => (Stmt.select s).nowFree
  | .aggregate a _ _ _ => (Stmt.aggregate a).nowFree
  | .createTable _ _ _ => true
  | .multiple _ => true

/-! ### oracles that differ in the clock only -/

/-- the same library functions, another clock reading -/
def TotalOracles.withNow (T : TotalOracles) (v : Value) : TotalOracles := { T with nowF := v }

/-- the same tables and library functions, another clock reading (an oracle without total functions has no clock:
`now()` is `oracleMissing` there, before and after) -/
def Oracles.withNow (O : Oracles) (v : Value) : Oracles := { O with total := O.total.map (·.withNow v) }

/-- **two oracles differ at most in `nowF`**: every shipped table is the same, both have total functions behind the
tables or neither has, and `upperF`, `lowerF`, `regexF` are the same functions. Nothing is said about `nowF`. -/
structure Oracles.SameButNow (O₁ O₂ : Oracles) : Prop where
  fparse : O₁.fparse = O₂.fparse
  tsparse : O₁.tsparse = O₂.tsparse
  regex : O₁.regex = O₂.regex
  upper : O₁.upper = O₂.upper
  lower : O₁.lower = O₂.lower
  total : match O₁.total, O₂.total with
    | none, none => True
    | some T₁, some T₂ => T₁.upperF = T₂.upperF ∧ T₁.lowerF = T₂.lowerF ∧ T₁.regexF = T₂.regexF
    | _, _ => False

theorem Oracles.sameButNow_withNow (O : Oracles) (v : Value) : O.SameButNow (O.withNow v) := by
  refine ⟨rfl, rfl, rfl, rfl, rfl, ?_⟩
  obtain ⟨fp, tp, rg, up, lo, tot⟩ := O
  cases tot with
  | none => trivial
  | some T => exact ⟨rfl, rfl, rfl⟩

theorem Oracles.SameButNow.refl (O : Oracles) : O.SameButNow O := by
  refine ⟨rfl, rfl, rfl, rfl, rfl, ?_⟩
  cases O.total with
  | none => trivial
  | some T => exact ⟨rfl, rfl, rfl⟩

/-- the second of two oracles that differ at most in the clock is the first with another clock reading -/
theorem Oracles.SameButNow.eq_withNow {O₁ O₂ : Oracles} (h : O₁.SameButNow O₂) : ∃ v, O₂ = O₁.withNow v := by
  obtain ⟨fp, tp, rg, up, lo, tot⟩ := O₁
  obtain ⟨fp', tp', rg', up', lo', tot'⟩ := O₂
  obtain ⟨h1, h2, h3, h4, h5, h6⟩ := h
  simp only at h1 h2 h3 h4 h5 h6
  subst h1 h2 h3 h4 h5
  cases tot with
  | none =>
    cases tot' with
    | none => exact ⟨.null, rfl⟩
    | some T' => exact h6.elim
  | some T =>
    cases tot' with
    | none => exact h6.elim
    | some T' =>
      obtain ⟨uF, lF, rF, nF⟩ := T
      obtain ⟨uF', lF', rF', nF'⟩ := T'
      obtain ⟨e1, e2, e3⟩ := h6
      simp only at e1 e2 e3
      subst e1 e2 e3
      exact ⟨nF', rfl⟩

/-! ### `callFunction` -/

theorem Oracles.withNow_of_none (O : Oracles) (v : Value) (h : O.total = none) : O.withNow v = O := by
  obtain ⟨fp, tp, rg, up, lo, tot⟩ := O
  simp only at h
  subst h
  rfl

/-- **the clock reading reaches a function call only through `now`**: a call of any other function has the same outcome
whatever the reading -/
theorem callFunction_withNow (O : Oracles) (v : Value) (f : Func) (hf : notNow f = true) (args : List Value) :
    callFunction (O.withNow v) f args = callFunction O f args := by
  obtain ⟨fp, tp, rg, up, lo, tot⟩ := O
  cases tot with
  | none => rfl
  | some T =>
    unfold callFunction
    simp only [Oracles.withNow, TotalOracles.withNow, Option.map]
    split <;> (try rfl)
    exact absurd hf (by decide)

/-! ### the other places where the evaluator reads its oracle: tables only -/

theorem parseLit_withNow (O : Oracles) (v : Value) (t : VType) (s : Bytes) : parseLit (O.withNow v) t s = parseLit O t s := rfl

theorem tsOfText_withNow (O : Oracles) (v : Value) (s : Bytes) : tsOfText (O.withNow v) s = tsOfText O s := rfl

theorem coerceTs_withNow (O : Oracles) (v : Value) (l r : Value) : coerceTs (O.withNow v) l r = coerceTs O l r := by
  unfold coerceTs; simp only [tsOfText_withNow]

theorem prepCompare_withNow (O : Oracles) (v : Value) (l r : Value) : prepCompare (O.withNow v) l r = prepCompare O l r := by
  unfold prepCompare; rw [coerceTs_withNow]

theorem castValue_withNow (O : Oracles) (v : Value) (x : Value) (t : VType) : castValue (O.withNow v) x t = castValue O x t := by
  unfold castValue; simp only [parseLit_withNow]

/-! ### the evaluator -/

section
variable (O : Oracles) (v : Value)

mutual
/-- the outcome of evaluating an expression without a call of `now` — value, error kind, panic site or missing fact —
does not depend on the clock reading -/
theorem eval_withNow (env : Env) : ∀ (e : Expr), e.nowFree = true → eval (O.withNow v) env e = eval O env e
  | .value _, _ => by simp only [eval]
  | .column _, _ => by simp only [eval]
  | .scoped _ _, _ => by simp only [eval]
  | .wildcard, _ => by simp only [eval]
  | .compare _ l r, h => by
    simp only [Expr.allFuncs, Bool.and_eq_true] at h
    simp only [eval, eval_withNow env l h.1, eval_withNow env r h.2, prepCompare_withNow]
  | .nullCmp _ l r, h => by
    simp only [Expr.allFuncs, Bool.and_eq_true] at h
    simp only [eval, eval_withNow env l h.1, eval_withNow env r h.2]
  | .arith _ l r, h => by
    simp only [Expr.allFuncs, Bool.and_eq_true] at h
    simp only [eval, eval_withNow env l h.1, eval_withNow env r h.2]
  | .boolOp _ l r, h => by
    simp only [Expr.allFuncs, Bool.and_eq_true] at h
    simp only [eval, eval_withNow env l h.1, eval_withNow env r h.2]
  | .neg e, h => by
    simp only [Expr.allFuncs] at h
    simp only [eval, eval_withNow env e h]
  | .not e, h => by
    simp only [Expr.allFuncs] at h
    simp only [eval, eval_withNow env e h]
  | .inList _ e vs, h => by
    simp only [Expr.allFuncs, Bool.and_eq_true] at h
    simp only [eval, eval_withNow env e h.1, evalIn_withNow env vs h.2]
  | .call f args, h => by
    simp only [Expr.allFuncs, Bool.and_eq_true] at h
    simp only [eval, evalList_withNow env args h.2, callFunction_withNow O v f h.1]
  | .index a i, h => by
    simp only [Expr.allFuncs, Bool.and_eq_true] at h
    simp only [eval, eval_withNow env a h.1, eval_withNow env i h.2]
  | .cast e _, h => by
    simp only [Expr.allFuncs] at h
    simp only [eval, eval_withNow env e h, castValue_withNow]
  | .case clauses els, h => by
    simp only [Expr.allFuncs, Bool.and_eq_true] at h
    simp only [eval, evalCase_withNow env clauses h.1, eval_withNow env els h.2]
  | .groupKeyRef _, _ => by simp only [eval]
  | .groupValueRef _, _ => by simp only [eval]
theorem evalList_withNow (env : Env) : ∀ (es : List Expr), Expr.allFuncsList notNow es = true →
    evalList (O.withNow v) env es = evalList O env es
  | [], _ => by simp only [evalList]
  | e :: es, h => by
    simp only [Expr.allFuncsList, Bool.and_eq_true] at h
    simp only [evalList, eval_withNow env e h.1, evalList_withNow env es h.2]
theorem evalIn_withNow (env : Env) : ∀ (es : List Expr), Expr.allFuncsList notNow es = true →
    ∀ (isNot : Bool) (x : Value) (anyNull : Bool), evalIn (O.withNow v) env isNot x anyNull es = evalIn O env isNot x anyNull es
  | [], _, _, _, _ => by simp only [evalIn]
  | e :: es, h, isNot, x, a => by
    simp only [Expr.allFuncsList, Bool.and_eq_true] at h
    simp only [evalIn, eval_withNow env e h.1, evalIn_withNow env es h.2, prepCompare_withNow]
theorem evalCase_withNow (env : Env) : ∀ (cs : List (Expr × Expr)), Expr.allFuncsCases notNow cs = true →
    evalCase (O.withNow v) env cs = evalCase O env cs
  | [], _ => by simp only [evalCase]
  | (c, r) :: rest, h => by
    simp only [Expr.allFuncsCases, Bool.and_eq_true] at h
    simp only [evalCase, eval_withNow env c h.1.1, eval_withNow env r h.1.2, evalCase_withNow env rest h.2]
end

end

end Sqlgrep
