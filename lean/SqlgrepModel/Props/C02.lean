import SqlgrepModel.Lemmas.ExtractJson
import SqlgrepModel.Lemmas.JsonDoc
/-
C02 — JSON-path extraction yields exactly the addressed JSON value, typed.

Model: `JsonAccess.getValue` / `fromLinear`, `convertFromJson`, the `Json` branch of `Extract.extractColumn`
and `ParsingInput.new` (`serde_json::from_str(line).unwrap_or(Null)` once per line iff the table has JSON columns),
mirroring /repo HEAD. The JSON tree is a parameter (`LineOracle.json`, `none` = not JSON): all theorems of the first sections
hold for every tree, every definition and every oracle answer; the last section starts from the BYTES of the line
(`Model/JsonDoc.lean` `docOfLine`: the RFC 8259 grammar of `Spec/JsonGrammar.lean` plus serde_json's number classification). Specification: `followPath` (the value reached by following
the path), `noCoercion` (the decision table) and `specColumn`.
-/
namespace Sqlgrep.Props.C02
open Sqlgrep Sqlgrep.Extract Sqlgrep.Lit

/-- **json_get_spec.** `get_value` returns the value reached by following the path step by step (object member by
name, array element by index); it is `none` iff some step is absent from the value reached so far. -/
theorem json_get_spec (a : JsonAccess) (j : Json) :
    a.getValue j = followPath a.steps j ∧
    (a.getValue j = none ↔
      ∃ (pre : List JsonStep) (s : JsonStep) (post : List JsonStep) (v : Json),
        a.steps = pre ++ s :: post ∧ followPath pre j = some v ∧ JsonAccess.step v s = none) := by
  refine ⟨getValue_eq_followPath a j, ?_⟩
  rw [getValue_eq_followPath a j]
  exact followPath_none_iff a.steps j

/-- paths compose: following `pre ++ post` is following `post` from where `pre` leads -/
theorem json_path_compose (pre post : List JsonStep) (j : Json) :
    followPath (pre ++ post) j = (followPath pre j).bind (followPath post) :=
  followPath_append pre post j

/-- one step: a field step works on objects only (first member of that name in the parsed tree, where serde_json
has already kept the last duplicate), an index step on arrays only -/
theorem json_step_spec (j : Json) (name : List Nat) (i : Nat) :
    (JsonAccess.step j (.field name) = match j with | .obj kvs => kvs.lookup name | _ => none) ∧
    (JsonAccess.step j (.index i) = match j with | .arr xs => xs[i]? | _ => none) := by
  constructor <;> cases j <;> rfl

/-- `from_linear` builds exactly the written path; it is total on non-empty part lists (the empty list is D30,
rejected by the parser) -/
theorem fromLinear_total_partial (parts : List JsonStep) :
    (parts = [] → JsonAccess.fromLinear parts = none) ∧
    (parts ≠ [] → ∃ a, JsonAccess.fromLinear parts = some a ∧ a.steps = parts) :=
  fromLinear_spec parts

/-- **json_convert_no_coercion.** `convert_from_json` is the decision table `noCoercion`. -/
theorem json_convert_no_coercion (ty : VType) (j : Json) : convertFromJson ty j = noCoercion ty j :=
  convertFromJson_eq_noCoercion ty j

/-- INT only from integers that fit 64 bits -/
theorem int_only_from_integers (j : Json) (n : Int) :
    convertFromJson .int j = .int n ↔
      (∃ u f, j = .num (.posInt u f) ∧ u ≤ 9223372036854775807 ∧ n = (u : Int)) ∨ (∃ f, j = .num (.negInt n f)) := by
  rw [convertFromJson_eq_noCoercion]
  cases j with
  | num x =>
    cases x with
    | posInt u f =>
      simp only [noCoercion]
      by_cases h : u ≤ 9223372036854775807
      · simp only [h, if_true, Value.int.injEq]
        constructor
        · intro hn; left; exact ⟨u, f, rfl, h, hn.symm⟩
        · rintro (⟨u', f', hj, _, hn⟩ | ⟨f', hj⟩)
          · injection hj with hj; injection hj with hu _; subst hu; exact hn.symm
          · injection hj with hj; cases hj
      · simp only [h, if_false, reduceCtorEq, false_iff, not_or, not_exists]
        constructor
        · rintro u' f' ⟨hj, hle, _⟩
          injection hj with hj; injection hj with hu _; subst hu; exact h hle
        · intro f' hj; injection hj with hj; cases hj
    | negInt m f =>
      simp only [noCoercion, Value.int.injEq]
      constructor
      · intro h; subst h; right; exact ⟨f, rfl⟩
      · rintro (⟨u', f', hj, _⟩ | ⟨f', hj⟩)
        · injection hj with hj; cases hj
        · injection hj with hj; injection hj with hm _
    | float b =>
      simp only [noCoercion, reduceCtorEq, false_iff, not_or, not_exists]
      constructor
      · rintro u f ⟨hj, _⟩; injection hj with hj; cases hj
      · intro f hj; injection hj with hj; cases hj
  | _ =>
    simp only [noCoercion, reduceCtorEq, false_iff, not_or, not_exists]
    constructor
    · rintro u f ⟨hj, _⟩; cases hj
    · intro f hj; cases hj

/-- a JSON value of another kind, a float, or an integer beyond `i64` is NULL for INT — never rounded or wrapped -/
theorem int_otherwise_null (j : Json) (h : ∀ n, convertFromJson .int j ≠ .int n) : convertFromJson .int j = .null := by
  rw [convertFromJson_eq_noCoercion] at *
  cases j with
  | num x =>
    cases x with
    | posInt u f =>
      simp only [noCoercion] at *
      split
      · rename_i hu; exact absurd (by simp [hu]) (h u)
      · rfl
    | negInt m f => exact absurd rfl (h m)
    | float b => rfl
  | _ => rfl

/-- REAL from any number (integers through `as f64`), from nothing else -/
theorem real_from_any_number (j : Json) :
    (∀ x, j = .num x → ∃ b, convertFromJson .real j = .real b) ∧
    ((∀ x, j ≠ .num x) → convertFromJson .real j = .null) := by
  constructor
  · intro x hx; subst hx; cases x <;> exact ⟨_, rfl⟩
  · intro h
    cases j with
    | num x => exact absurd rfl (h x)
    | _ => rfl

/-- TEXT only from strings, BOOLEAN only from booleans: everything else is NULL -/
theorem text_bool_only_from_own_kind (j : Json) :
    (convertFromJson .text j = match j with | .str s => .text s | _ => .null) ∧
    (convertFromJson .bool j = match j with | .bool b => .bool b | _ => .null) := by
  constructor <;> cases j <;> rfl

/-- arrays element-wise: a JSON array becomes an array of the element conversions (position and length kept,
wrong-typed elements NULL); anything else is NULL -/
theorem array_elementwise (e : VType) (j : Json) :
    convertFromJson (.array e) j =
      match j with
      | .arr xs => .array e (xs.map (convertFromJson e))
      | _ => .null := by
  cases j <;> rfl

/-- TIMESTAMP / INTERVAL columns get nothing from a JSON value without CONVERT -/
theorem timestamp_interval_null (j : Json) :
    convertFromJson .timestamp j = .null ∧ convertFromJson .interval j = .null := by
  constructor <;> cases j <;> rfl

/-- **json_column_spec.** The value of a JSON column: DEFAULT (NULL if none) iff the path is absent (also when the
line is not JSON: then the tree is `null`); otherwise, with CONVERT, the JSON string parsed as a literal of the
declared type (NULL for non-strings and non-literals), without CONVERT the un-coerced conversion; then TRIM. -/
theorem json_column_spec (o : Oracles) (c : Column) (inp : ParsingInput) (a : JsonAccess) (hp : c.parsing = .json a) :
    columnValue o c inp =
      applyTrim c (match followPath a.steps inp.json with
        | none => c.defaultValue
        | some v =>
          if c.options.convert then (match v with | .str s => literal o c.type s | _ => .null)
          else noCoercion c.type v) := by
  rw [columnValue_eq_spec]
  unfold specColumn
  rw [hp]
  simp only []
  cases followPath a.steps inp.json with
  | none => rfl
  | some v =>
    simp only []
    cases c.options.convert with
    | false => rfl
    | true => cases v <;> rfl

/-- DEFAULT is used only when the path is absent: when the path leads somewhere, the declared default is irrelevant -/
theorem json_default_only_when_absent (o : Oracles) (c : Column) (inp : ParsingInput) (a : JsonAccess) (v : Json)
    (hp : c.parsing = .json a) (hv : followPath a.steps inp.json = some v) (dflt : Option Value) :
    columnValue o c inp = columnValue o { c with options := { c.options with default := dflt } } inp := by
  rw [json_column_spec o c inp a hp,
    json_column_spec o { c with options := { c.options with default := dflt } } inp a hp, hv]
  rfl

/-- a line that is not JSON (or a table without JSON columns) presents the tree `null`, on which every path is absent -/
theorem not_json_is_absent (d : TableDef) (lo : LineOracle) (hn : lo.json = none) (a : JsonAccess) :
    followPath a.steps (ParsingInput.new d lo).json = none := by
  have hj : (ParsingInput.new d lo).json = .null := by
    unfold ParsingInput.new
    simp only [hn, Option.getD_none]
    split <;> rfl
  rw [hj]
  cases a with
  | last s => cases s <;> rfl
  | cons s inner => cases s <;> rfl

/-- **json_columns_independent.** A JSON column's value is a function of its own definition and the line's JSON
tree alone — not of any other column, pattern or pattern result; and position `i` of a kept row is column `i`. -/
theorem json_columns_independent (o : Oracles) (c : Column) (inp inp' : ParsingInput) (hj : c.isJson = true)
    (h : inp.json = inp'.json) : columnValue o c inp = columnValue o c inp' :=
  json_columnValue_congr o c inp inp' hj h

theorem row_is_columnwise (o : Oracles) (d : TableDef) (lo : LineOracle)
    (hkeep : ¬ cutBy o (ParsingInput.new d lo) d.columns) (i : Nat) (c : Column) (hc : d.columns[i]? = some c) :
    (extractRow o d lo)[i]? = some (columnValue o c (ParsingInput.new d lo)) := by
  unfold extractRow
  rw [extractWith_kept o d _ hkeep, List.getElem?_map, hc]
  rfl

/-- **regex_columns_unaffected.** The regex columns of a mixed table have the values they have in the same table
without its JSON columns: the regex side keeps working on the raw line. -/
theorem regex_columns_unaffected (o : Oracles) (d : TableDef) (lo : LineOracle) :
    (withoutJson d).columns.map (fun c => columnValue o c (ParsingInput.new (withoutJson d) lo)) =
    (d.columns.filter (fun c => !c.isJson)).map (fun c => columnValue o c (ParsingInput.new d lo)) := by
  unfold withoutJson
  simp only []
  apply List.map_congr_left
  intro c hc
  have hj : c.isJson = false := by
    have := (List.mem_filter.1 hc).2
    simpa using this
  exact (regex_column_same_input o d lo c hj).symm

/-! ### from the bytes of the line

Until `Model/JsonDoc.lean` the statements above started from a JSON tree that the harness shipped
(`LineOracle.json` = what `serde_json::from_str` answered). `JsonDoc.docOfLine` computes that tree from the bytes of
the line, so the statements can start from the bytes; "the line parsed as one JSON document" is RFC 8259
(`Spec/JsonGrammar.lean`) through `parseJson_iff`. -/

/-- the regex side does not look at the JSON tree of the line -/
theorem buildResults_json (lo : LineOracle) (j : Option Json) (ps : List Pattern) (acc : List (Text × RegexResult)) :
    buildResults { lo with json := j } ps acc = buildResults lo ps acc := by
  induction ps generalizing acc with
  | nil => rfl
  | cons p ps ih =>
    unfold buildResults
    cases p.mode with
    | captures =>
      simp only []
      cases lo.captures p.regex with
      | none => exact ih acc
      | some gs => exact ih _
    | split => exact ih _

/-- the parsing input of a line whose JSON tree is computed from its bytes -/
theorem input_from_text (d : TableDef) (lo : LineOracle) (hj : d.anyJson = true) :
    ParsingInput.new d (JsonDoc.withDoc lo) =
      { regex := (ParsingInput.new d lo).regex, json := (JsonDoc.docOfLine lo.line).getD .null } := by
  unfold ParsingInput.new JsonDoc.withDoc
  simp only [hj, if_true]
  rw [buildResults_json]

/-- **json_column_from_text.** The value of a JSON-path column of a line, from the BYTES of the line: it is `specColumn`
— the sentence of C02 written as a function — applied to `JsonDoc.docOfLine line`, the Lean computation of
`serde_json::from_str::<Value>(line)` (`Value::Null` when the line has no document). -/
theorem json_column_from_text (o : Oracles) (d : TableDef) (lo : LineOracle) (c : Column) (hj : d.anyJson = true) :
    columnValue o c (ParsingInput.new d (JsonDoc.withDoc lo)) =
      specColumn o c { regex := (ParsingInput.new d lo).regex, json := (JsonDoc.docOfLine lo.line).getD .null } := by
  rw [input_from_text d lo hj, columnValue_eq_spec]

/-- … spelled out: DEFAULT iff the path is absent from the document of the line, else the addressed value, typed -/
theorem json_column_from_text_spec (o : Oracles) (d : TableDef) (lo : LineOracle) (c : Column) (a : JsonAccess)
    (hj : d.anyJson = true) (hp : c.parsing = .json a) :
    columnValue o c (ParsingInput.new d (JsonDoc.withDoc lo)) =
      applyTrim c (match followPath a.steps ((JsonDoc.docOfLine lo.line).getD .null) with
        | none => c.defaultValue
        | some v =>
          if c.options.convert then (match v with | .str s => literal o c.type s | _ => .null)
          else noCoercion c.type v) := by
  rw [input_from_text d lo hj, json_column_spec o c _ a hp]

/-- **the document of a line is the RFC 8259 reading of its bytes**: when a JSON column found a value `v` at its path,
the bytes of the line are the UTF-8 encoding of a `JSON-text` of RFC 8259 (`JsonTextD`, the grammar with denotation of
`Spec/JsonGrammar.lean`; `parseJson_iff` makes the parser that produced the tree sound and complete for it), the tree
the path was followed through is serde_json's classification (`JsonDoc.toJson`) of a tree `l` denoting the text's
value, nested no deeper than serde_json's limit. -/
theorem json_value_comes_from_rfc8259_text (lo : LineOracle) (a : JsonAccess) (v : Json)
    (hv : followPath a.steps ((JsonDoc.docOfLine lo.line).getD .null) = some v) :
    ∃ cs l j, Utf8.decode lo.line = some cs ∧ JsonGrammar.JsonTextD cs l.erase ∧ l.depth ≤ JsonDoc.maxDepth ∧
      JsonDoc.toJson l = some j ∧ followPath a.steps j = some v := by
  cases hd : JsonDoc.docOfLine lo.line with
  | none =>
    rw [hd] at hv
    have : followPath a.steps (Option.getD none Json.null) = none := by
      cases a with
      | last s => cases s <;> rfl
      | cons s inner => cases s <;> rfl
    rw [this] at hv; cases hv
  | some j =>
    rw [hd] at hv
    obtain ⟨cs, l, h1, h2, h3, h4⟩ := JsonDoc.docOfLine_rfc8259 lo.line j hd
    exact ⟨cs, l, j, h1, h2, h3, h4, hv⟩

/-- a line that is not UTF-8, or whose text is not a `JSON-text` of RFC 8259, gives every JSON column its DEFAULT -/
theorem not_rfc8259_line_is_default (o : Oracles) (d : TableDef) (lo : LineOracle) (c : Column) (a : JsonAccess)
    (hj : d.anyJson = true) (hp : c.parsing = .json a)
    (hn : Utf8.decode lo.line = none ∨ ∃ cs, Utf8.decode lo.line = some cs ∧ ¬ ∃ x, JsonGrammar.JsonTextD cs x) :
    columnValue o c (ParsingInput.new d (JsonDoc.withDoc lo)) = applyTrim c c.defaultValue := by
  have hdoc : JsonDoc.docOfLine lo.line = none := by
    rcases hn with h | ⟨cs, h1, h2⟩
    · exact JsonDoc.not_utf8_not_json _ h
    · exact JsonDoc.not_rfc8259_not_json _ cs h1 h2
  rw [json_column_from_text_spec o d lo c a hj hp, hdoc]
  have : followPath a.steps (Option.getD none Json.null) = none := by
    cases a with
    | last s => cases s <;> rfl
    | cons s inner => cases s <;> rfl
  rw [this]

/-- `noCoercion .real` of a number node is the number's REAL (`as_f64`) -/
theorem real_of_number (n : JNum) (b : Nat) (h : (Json.num n).asF64 = some b) : noCoercion .real (.num n) = .real b := by
  cases n <;> (simp only [Json.asF64, Option.some.injEq] at h; subst h; rfl)

theorem applyTrim_real (c : Column) (b : Nat) : applyTrim c (.real b) = .real b := by
  unfold applyTrim; split <;> rfl

/-- **json_real_is_nearest.** A REAL column fed from a JSON number holds THE nearest REAL to the decimal number the
RFC 8259 grammar gives the number's text. Precisely: if the line has a document and the column's path leads to a number in
it, then the bytes of the line are the UTF-8 of a `JSON-text` (`JsonTextD cs l.erase`), the number is one of the
text's `number` literals `lex` whose denotation by the grammar is the decimal `dec = mant · 10^exp`
(`JsonGrammar.numValue`, the executable form of `NumD`), and the column's value is the REAL with the literal's sign whose
magnitude `r = decToF64 false |mant| exp` is finite and at least as close to `|mant| · 10^exp` as every REAL `y`
(distances in units of 2^-1074 over the common denominator, `DecFloat.decToF64_nearest`; a tie goes to the even
mantissa, `DecFloat.decToF64_tie_even`). Since /repo 265d413 (serde_json `float_roundtrip`); before it the value could
be one unit in the last place off (finding D66). -/
theorem json_real_is_nearest (o : Oracles) (d : TableDef) (lo : LineOracle) (c : Column) (a : JsonAccess)
    (hj : d.anyJson = true) (hp : c.parsing = .json a) (ht : c.type = .real) (hc : c.options.convert = false)
    (j : Json) (n : JNum) (hdoc : JsonDoc.docOfLine lo.line = some j) (hv : followPath a.steps j = some (.num n)) :
    ∃ (cs : List Char) (l : JsonDoc.LVal) (lex : List Char) (dec : JsonGrammar.Dec),
      Utf8.decode lo.line = some cs ∧ JsonGrammar.JsonTextD cs l.erase ∧ lex ∈ l.lexemes ∧
      JsonGrammar.numValue lex = some dec ∧
      columnValue o c (ParsingInput.new d (JsonDoc.withDoc lo)) = .real (JsonDoc.realOfDec (JsonDoc.lexNeg lex) dec) ∧
      JsonDoc.realOfDec (JsonDoc.lexNeg lex) dec % 2 ^ 63 = DecFloat.decToF64 false dec.mant.natAbs dec.exp ∧
      F64.isFinite (DecFloat.decToF64 false dec.mant.natAbs dec.exp) = true ∧
      ∀ y, DecFloat.adist (DecFloat.numOf dec.mant.natAbs dec.exp * DecFloat.unitScale)
              (F64.umag (DecFloat.decToF64 false dec.mant.natAbs dec.exp) * DecFloat.denOf dec.exp) ≤
           DecFloat.adist (DecFloat.numOf dec.mant.natAbs dec.exp * DecFloat.unitScale) (F64.umag y * DecFloat.denOf dec.exp) := by
  obtain ⟨cs, l, h1, h2, _, h4⟩ := JsonDoc.docOfLine_rfc8259 lo.line j hdoc
  have hn : n ∈ JsonDoc.nums j := JsonDoc.nums_followPath a.steps j (.num n) hv n (by simp [JsonDoc.nums])
  obtain ⟨lex, hl, hs⟩ := JsonDoc.toJson_nums l j h4 n hn
  obtain ⟨dec, hd, hf, hfin⟩ := JsonDoc.serdeNumber_spec lex n hs
  have hmag := JsonDoc.realOfDec_mag (JsonDoc.lexNeg lex) dec
  have hne : DecFloat.decToF64 false dec.mant.natAbs dec.exp ≠ DecFloat.infBits := by rw [← hmag]; exact hfin
  have near := fun y => DecFloat.decToF64_nearest dec.mant.natAbs dec.exp y hne
  refine ⟨cs, l, lex, dec, h1, h2, hl, hd, ?_, hmag, (near 0).1, fun y => (near y).2⟩
  rw [json_column_from_text_spec o d lo c a hj hp, hdoc]
  simp only [Option.getD_some, hv, hc, ht]
  rw [real_of_number n _ hf]
  simp only [Bool.false_eq_true, if_false]
  rw [applyTrim_real]

/-! ### non-vacuity -/

/-- `{"a": {"b": [10, "x"]}, "n": 18446744073709551616}` as serde_json presents it -/
def exTree : Json :=
  .obj [([97], .obj [([98], .arr [.num (.posInt 10 0x4024000000000000), .str [120]])]),
        ([110], .num (.float 0x43f0000000000000))]

def pathAB0 : JsonAccess := .cons (.field [97]) (.cons (.field [98]) (.last (.index 0)))

example : JsonAccess.fromLinear [.field [97], .field [98], .index 0] = some pathAB0 := by decide
example : pathAB0.getValue exTree = some (.num (.posInt 10 0x4024000000000000)) := by rfl
example : (JsonAccess.cons (.field [97]) (.last (.field [122]))).getValue exTree = none := by rfl
example : convertFromJson .int (.num (.posInt 10 0x4024000000000000)) = .int 10 := by rfl
example : convertFromJson .int (.num (.float 0x43f0000000000000)) = .null := by rfl
example : convertFromJson .int (.num (.posInt 9223372036854775808 0x43e0000000000000)) = .null := by rfl
example : convertFromJson .real (.num (.posInt 10 0x4024000000000000)) = .real 0x4024000000000000 := by rfl
example : convertFromJson .text (.num (.posInt 10 0x4024000000000000)) = .null := by rfl
example : convertFromJson (.array .int) (.arr [.num (.posInt 10 0x4024000000000000), .str [120]]) = .array .int [.int 10, .null] := by rfl

def exCol : Column := { parsing := .json pathAB0, type := .int, options := { default := some (.int 7) } }
def exInp : ParsingInput := { regex := [], json := exTree }
example : columnValue { parseF64 := fun _ => none } exCol exInp = .int 10 := by rfl
example : columnValue { parseF64 := fun _ => none } exCol { regex := [], json := .null } = .int 7 := by rfl
example : followPath pathAB0.steps exInp.json = some (.num (.posInt 10 0x4024000000000000)) := by rfl


/-- from bytes: the line `{"a":{"b":[10,"x"]},"a":{"b":[7]}}` — a repeated key keeps the last value -/
def exLine : List Nat := "{\"a\":{\"b\":[10,\"x\"]}, \"a\" : {\"b\":[7, 1.5, -0, 1e400]}}".toUTF8.toList.map (·.toNat)
def exLine2 : List Nat := " {\"a\":{\"b\":[10,1.5,-0,18446744073709551616]}}\n".toUTF8.toList.map (·.toNat)
example : JsonDoc.docOfLine exLine = none := by decide +kernel                      -- `1e400` is out of range: not a document
example : ((JsonDoc.docOfLine exLine2).bind (followPath pathAB0.steps)).bind Json.asI64 = some 10 := by decide +kernel
example : ((JsonDoc.docOfLine exLine2).bind (followPath pathAB0.steps)).bind Json.asF64 = some 0x4024000000000000 := by decide +kernel
example : ((JsonDoc.docOfLine exLine2).bind (followPath [.field [97], .field [98], .index 2])).bind Json.asI64 = none := by decide +kernel   -- `-0` is the float -0.0
example : ((JsonDoc.docOfLine exLine2).bind (followPath [.field [97], .field [98], .index 2])).bind Json.asF64 = some 0x8000000000000000 := by decide +kernel
example : ((JsonDoc.docOfLine exLine2).bind (followPath [.field [97], .field [98], .index 3])).bind Json.asF64 = some 0x43f0000000000000 := by decide +kernel   -- above `u64::MAX`: a float
example : JsonDoc.docOfLine [0x7b, 0xff, 0x7d] = none := by decide +kernel           -- not UTF-8

/-- the two literals of finding D66: the JSON REAL is now `f64::from_str` of the literal (before /repo 265d413 serde_json
answered `…6d` and `0x0010000000000000`) -/
example : ((JsonDoc.docOfLine ("{\"x\":239.21e-27}".toUTF8.toList.map (·.toNat))).bind (followPath [.field [120]])).bind Json.asF64
    = some 0x3ad2820acce1ed6c := by decide +kernel
example : (JsonDoc.docOfLine ("2.2250738585072011e-308".toUTF8.toList.map (·.toNat))).bind Json.asF64 = some 0x000fffffffffffff := by decide +kernel

end Sqlgrep.Props.C02
