// C11: incremental (tail -f) results equal a batch run over the same prefix.
use crate::c04::{gen_input, join_lines};
use crate::engine_run::*;
use crate::queries::*;
use crate::run::{Params, Run};
use crate::util::Rng;

pub fn run(p: &Params) -> Run {
    let mut run = Run::new("C11");
    let mut rng = Rng::new(p.seed ^ 0x11);
    let n = p.n(1200, 40_000);
    let opts = QueryOpts { allow_limit: false, allow_distinct: true, allow_join: false, aggregate: None };
    for _ in 0..n {
        let sch = gen_schema(&mut rng);
        let gq = gen_query(&mut rng, &sch, &opts, "");
        let prepared = match prepare(&sch.defs, &gq.text) { Ok(p) => p, Err(_) => { run.count("rejected"); continue; } };
        let nl = rng.below(9);
        let np = *rng.pick(&[10u64, 30, 60]);
        let lines = gen_input(&mut rng, nl, np, false);
        let (wire, steps) = run_incremental(&prepared, &lines);
        let desc = format!("query={} input={:?}", gq.text, lines);
        // correspondence with the model's line-at-a-time driver
        if let Some(case) = incr_case(&prepared, b"", &join_lines(&lines)) {
            let kind = if wire.contains("err:") { "err" } else if wire.contains("panic") { "panic" } else { "ok" };
            run.case_with_desc(case, wire.clone(), format!("{}:{}:d{}:h{}:n{}", if gq.is_aggregate { "agg" } else { "sel" }, kind, gq.text.contains("DISTINCT") as u8, gq.text.contains("HAVING") as u8, lines.len().min(5)), desc.clone());
        }
        if wire.contains("panic") {
            run.oracle_checks += 1;
            run.fail(desc.clone(), "panic:incremental", "line-at-a-time execution panicked".to_owned());
            continue;
        }
        if wire.contains("err:") { run.count("incremental-error"); continue; }
        // the relation, evaluated on the implementation for every prefix
        let mut shown: Option<Vec<String>> = None; // records of the last table shown (aggregate)
        let mut emitted: Vec<String> = Vec::new(); // all records emitted so far (non-aggregate)
        let mut prev_batch: Vec<String> = Vec::new();
        for k in 1..=lines.len() {
            run.oracle_checks += 1;
            let batch = run_files(&prepared, &[join_lines(&lines[..k])]);
            if batch.status != "ok" { break; }
            let render = |cols: &Vec<String>, rows: &Vec<Vec<sqlgrep::model::Value>>| -> Vec<String> {
                rows.iter().map(|r| if cols.len() == 1 && cols[0] == "input" { format!("{}", r[0]) } else { cols.iter().zip(r.iter()).map(|(c, v)| format!("{}: {}", c, v)).collect::<Vec<_>>().join(", ") }).collect()
            };
            if gq.is_aggregate {
                if let Some(Some((cols, rows))) = steps.get(k - 1) { shown = Some(render(cols, rows)); }
                let table = shown.clone().unwrap_or_default();
                if table != batch.records() {
                    run.fail(format!("{} k={}", desc, k), "incremental-table-differs", format!("after line {} the table shown is {:?} but a batch run over the first {} lines gives {:?}", k, table, k, batch.records()));
                    break;
                }
            } else {
                let new: Vec<String> = match steps.get(k - 1) { Some(Some((cols, rows))) => render(cols, rows), _ => Vec::new() };
                emitted.extend(new.clone());
                let b = batch.records();
                let ext_ok = b.len() >= prev_batch.len() && b[..prev_batch.len()] == prev_batch[..] && b[prev_batch.len()..] == new[..];
                if !ext_ok {
                    run.fail(format!("{} k={}", desc, k), "incremental-rows-differ", format!("line {} emitted {:?} but batch output grew from {:?} to {:?}", k, new, prev_batch, b));
                    break;
                }
                prev_batch = b;
            }
        }
    }
    run.notes.push("statements without LIMIT (SELECT and aggregate, DISTINCT, HAVING) fed line by line with the default config; every prefix compared with a fresh batch run".to_owned());
    run
}
