// C20: a statement's meaning does not depend on layout, letter case or clause order.
//
// (1) Correspondence of the tokenizer model: `lexcases::gen_all` (driver kinds `tok`, `near`) plus one `tok` case for
//     every statement text and variant below.
// (2) The C20 relation evaluated on the implementation end to end: valid query and CREATE TABLE texts from the
//     shared generators x layout variants must `sqlgrep::parsing::parse` to the same `Statement` (compared through
//     `{:?}`) and, for queries, print the same records for a small input.  One variant kind at a time, so that a failure
//     names the kind; plus a variant mixing all kinds, which on failure is re-run kind by kind.
//
// The variants are built on the harness's own scan of the statement text into lexemes (words, numbers, quoted strings
// with backslash escapes, the two-character operators, single characters) — not on the implementation's tokenizer.
// String literals (patterns, JOIN file names, delimiters) are never touched.
//
// What the sentence leaves open, and what is done here: the trailing semicolon is *optional* only for queries — the
// grammar makes it the mandatory terminator of every CREATE TABLE (several definitions may follow each other), so the
// semicolon variant is applied to queries only.  The case of modifier words (TRIM, CONVERT, MICROSECONDS) is not
// listed in the sentence: the ORACLE does not vary it; a variant with these words re-cased (`case-option`) goes to the
// model only (correspondence: `Props/C20Create.lean` proves the model reads them lower-cased; a change of the code shows
// there).  `split`/`match` are varied as their own kind (`case-mode`, finding D46).
//
// (3) CREATE TABLE texts reach the model's parser and lowering (case kind `stmt`: tokens -> tree -> statement,
//     `Pipeline.parseToks`): every CREATE TABLE base and its `case-type`, `case-mode`, `case-option` and mixed variants —
//     the texts `Props/C20Create.lean` `create_table_name_case_statement` speaks about (type names incl. array types
//     `int[]`, `TEXT[][]`, pattern modes, several statements in one definitions text).
use std::collections::BTreeSet;

use sqlgrep::parsing::verif_hooks::{completion_words, keywords_list};

use crate::extract;
use crate::lexcases;
use crate::queries;
use crate::run::{Params, Run};
use crate::runq;
use crate::stmtcases;
use crate::util::{catch, Caught, Rng};

#[derive(Clone, Debug, PartialEq)]
enum K { Word, Number, Str, Punct, Op }

#[derive(Clone, Debug)]
struct Lx { k: K, text: String }

/// the harness's own scan of a generated statement; `None` when the text contains something it does not know
fn scan(text: &str) -> Option<Vec<(String, Lx)>> {
    let cs: Vec<char> = text.chars().collect();
    let mut out = Vec::new();
    let mut i = 0;
    let mut gap = String::new();
    while i < cs.len() {
        let c = cs[i];
        if c == ' ' || c == '\n' { gap.push(c); i += 1; continue; }
        let start = i;
        let k;
        if c.is_alphabetic() {
            while i < cs.len() && (cs[i].is_alphanumeric() || cs[i] == '_') { i += 1; }
            k = K::Word;
        } else if c.is_ascii_digit() {
            while i < cs.len() && cs[i].is_ascii_digit() { i += 1; }
            if i < cs.len() && cs[i] == '.' {
                i += 1;
                while i < cs.len() && cs[i].is_ascii_digit() { i += 1; }
            }
            k = K::Number;
        } else if c == '\'' {
            i += 1;
            loop {
                if i >= cs.len() { return None; }
                if cs[i] == '\\' { i += 2; continue; }
                if cs[i] == '\'' { i += 1; break; }
                i += 1;
            }
            k = K::Str;
        } else if "()[]{},;".contains(c) {
            i += 1;
            k = K::Punct;
        } else if c == '-' && i + 1 < cs.len() && cs[i + 1] == '-' {
            return None;
        } else if c == '\\' || c.is_whitespace() || c.is_numeric() {
            return None;
        } else {
            let two: String = cs[i..(i + 2).min(cs.len())].iter().collect();
            if ["<=", ">=", "!=", "=>", "::"].contains(&two.as_str()) { i += 2; } else { i += 1; }
            k = K::Op;
        }
        out.push((std::mem::take(&mut gap), Lx { k, text: cs[start..i].iter().collect() }));
    }
    if !gap.is_empty() { return None; }
    Some(out)
}

fn render(items: &[(String, Lx)], tail: &str) -> String {
    let mut s = String::new();
    for (g, l) in items { s.push_str(g); s.push_str(&l.text); }
    s.push_str(tail);
    s
}

struct Vocab {
    keywords: BTreeSet<String>,
    functions: BTreeSet<String>,
    aggregates: BTreeSet<String>,
}

const AGGREGATES: &[&str] = &["count", "min", "max", "sum", "avg", "stddev", "variance", "percentile", "bool_and", "bool_or", "array_agg", "string_agg"];
const TYPES: &[&str] = &["int", "real", "text", "boolean", "timestamp", "interval"];
const LITERALS: &[&str] = &["null", "true", "false"];
const MODES: &[&str] = &["split", "match"];
const OPTIONS: &[&str] = &["trim", "convert", "microseconds"];

/// definitions texts with what the generator of `extract.rs` never writes: a column called like a type, the same type
/// name at several occurrences, array types of both depths next to options, an inline pattern, a JSON path with an
/// index, two and three statements in one text
const FIXED_DEFS: &[&str] = &[
    "CREATE TABLE t(line = SPLIT ';', line[1] => a int, line[2] => b Text NOT NULL, line[3] => c REAL[] default NULL);",
    "CREATE TABLE t(p = MATCH 'a(b)', p[1] => int INT, p[1] => x INT[] convert, p[1] => y TEXT[][], 'z' => z Text TRIM); CREATE TABLE u({.f[0]} => ts TIMESTAMP microseconds);",
    "CREATE TABLE a(p = 'x(y)', p[1] => real REAL, p[1] => text text[] DEFAULT NULL);\nCREATE TABLE b({.k} => boolean BOOLEAN NOT NULL, {.i[1].j} => interval INTERVAL[][]);\nCREATE TABLE c(q = split ',', q[1], q[2] => v int[]);",
];

fn vocab() -> Vocab {
    let keywords: BTreeSet<String> = keywords_list(false).into_iter().collect();
    let aggregates: BTreeSet<String> = AGGREGATES.iter().map(|s| (*s).to_owned()).collect();
    let functions: BTreeSet<String> = completion_words().into_iter().map(|w| w.to_lowercase()).filter(|w| !aggregates.contains(w)).collect();
    Vocab { keywords, functions, aggregates }
}

const KINDS: &[&str] = &["case-keyword", "case-literal", "case-function", "case-aggregate", "case-type", "case-mode",
    "whitespace", "unicode-space", "ws-insert", "tight", "comment", "comment-end", "semicolon", "clause-order"];

fn recase(rng: &mut Rng, w: &str) -> String {
    match rng.below(4) {
        0 => w.to_lowercase(),
        1 => w.to_uppercase(),
        _ => w.chars().map(|c| if rng.chance(1, 2) { c.to_ascii_uppercase() } else { c.to_ascii_lowercase() }).collect(),
    }
}

fn pk<'a>(rng: &mut Rng, xs: &[&'a str]) -> &'a str { xs[rng.below(xs.len())] }

/// split a query's lexemes into head (through `FROM <table>`) and the clauses starting at depth-0 clause keywords
fn clauses(items: &[(String, Lx)]) -> Option<(Vec<(String, Lx)>, Vec<Vec<(String, Lx)>>, Vec<(String, Lx)>)> {
    let is_word = |l: &Lx, w: &str| l.k == K::Word && l.text.eq_ignore_ascii_case(w);
    let mut depth = 0i32;
    let mut from = None;
    for (i, (_, l)) in items.iter().enumerate() {
        if l.text == "(" { depth += 1; } else if l.text == ")" { depth -= 1; }
        if depth == 0 && is_word(l, "from") { from = Some(i); break; }
    }
    let from = from?;
    let mut starts = Vec::new();
    depth = 0;
    let mut i = from + 2;
    let mut end = items.len();
    while i < items.len() {
        let l = &items[i].1;
        if l.text == "(" { depth += 1; } else if l.text == ")" { depth -= 1; }
        if depth == 0 {
            if l.text == ";" { end = i; break; }
            let starter = ["where", "group", "having", "limit"].iter().any(|w| is_word(l, w))
                || ((is_word(l, "inner") || is_word(l, "outer")) )
                || (is_word(l, "join") && !(i > 0 && (is_word(&items[i - 1].1, "inner") || is_word(&items[i - 1].1, "outer"))));
            if starter { starts.push(i); }
        }
        i += 1;
    }
    if starts.first().map(|s| *s != from + 2).unwrap_or(false) { return None; }
    let head = items[..from + 2].to_vec();
    let mut cl = Vec::new();
    for (k, s) in starts.iter().enumerate() {
        let e = if k + 1 < starts.len() { starts[k + 1] } else { end };
        cl.push(items[*s..e].to_vec());
    }
    Some((head, cl, items[end..].to_vec()))
}

/// apply one variant kind to `its` / `tail` in place; false when the kind does not apply or changes nothing
fn apply(rng: &mut Rng, v: &Vocab, kind: &str, its: &mut Vec<(String, Lx)>, tail: &mut String, is_query: bool) -> bool {
    let mut changed = false;
    let n = its.len();
    match kind {
        "case-keyword" | "case-literal" | "case-function" | "case-aggregate" | "case-type" | "case-mode" | "case-option" => {
            for i in 0..n {
                if its[i].1.k != K::Word { continue; }
                let lw = its[i].1.text.to_lowercase();
                let next_is_paren = i + 1 < n && its[i + 1].1.text == "(";
                let prev_is_dot = i > 0 && its[i - 1].1.text == ".";
                let applies = match kind {
                    "case-keyword" => v.keywords.contains(&lw) && !prev_is_dot,
                    "case-literal" => LITERALS.contains(&lw.as_str()) && !prev_is_dot,
                    "case-function" => v.functions.contains(&lw) && next_is_paren && !prev_is_dot,
                    "case-aggregate" => v.aggregates.contains(&lw) && next_is_paren && !prev_is_dot,
                    "case-type" => TYPES.contains(&lw.as_str()) && !next_is_paren && !prev_is_dot
                        // a type name stands after `::` (cast) or, in a CREATE TABLE text only, after the column name — in a
                        // SELECT a word after another word can be an alias or column that merely looks like a type (`x AS text`)
                        // (the word in front is the column's NAME, so no keyword: `TABLE int (` names a table, `DEFAULT text` no type)
                        && i > 0 && (its[i - 1].1.text == "::" || (its[i - 1].1.k == K::Word && !v.keywords.contains(&its[i - 1].1.text.to_lowercase())
                            && i > 1 && its[i - 2].1.text == "=>" && its.first().map(|f| f.1.text.eq_ignore_ascii_case("create")).unwrap_or(false))),
                    // the one option word of a column definition: behind the type (`name TYPE opt` / `name TYPE[] opt`), in front of `,` / `)`
                    "case-option" => OPTIONS.contains(&lw.as_str()) && its.first().map(|f| f.1.text.eq_ignore_ascii_case("create")).unwrap_or(false)
                        && i > 0 && (its[i - 1].1.text == "]" || its[i - 1].1.k == K::Word) && i + 1 < n && (its[i + 1].1.text == "," || its[i + 1].1.text == ")"),
                    _ => MODES.contains(&lw.as_str()) && i > 0 && its[i - 1].1.text == "=" && i + 1 < n && its[i + 1].1.k == K::Str,
                };
                if applies {
                    let w = recase(rng, &its[i].1.text);
                    if w != its[i].1.text { changed = true; }
                    its[i].1.text = w;
                }
            }
        }
        "whitespace" | "unicode-space" => {
            let pool: &[&str] = if kind == "whitespace" { &[" ", "  ", "\t", "\n", " \n ", "\r\n", "\n\n\t", "   "] } else { &["\u{a0}", "\u{2028}", " \u{3000}", "\u{85}", "\u{2003}\n"] };
            for i in 0..n {
                if !its[i].0.is_empty() && rng.chance(2, 3) { its[i].0 = pk(rng, pool).to_owned(); changed = true; }
            }
        }
        "ws-insert" => {
            for i in 1..n {
                if its[i].0.is_empty() && rng.chance(1, 2) { its[i].0 = pk(rng, &[" ", "\n", "\t", "  "]).to_owned(); changed = true; }
            }
            if rng.chance(1, 2) { its[0].0 = pk(rng, &[" ", "\n\n", "\t"]).to_owned(); changed = true; }
            if rng.chance(1, 2) { tail.push_str(pk(rng, &[" ", "\n", " \n"])); changed = true; }
        }
        "tight" => {
            for i in 1..n {
                let safe = |l: &Lx| l.k == K::Punct || l.k == K::Str;
                if !its[i].0.is_empty() && (safe(&its[i].1) || safe(&its[i - 1].1)) && rng.chance(2, 3) { its[i].0 = String::new(); changed = true; }
            }
        }
        "comment" => {
            // at token boundaries, with or without whitespace around; directly after an operator character a space first
            for i in 0..n {
                if !rng.chance(1, 3) { continue; }
                let after_op = i > 0 && its[i - 1].1.k == K::Op;
                let c = pk(rng, &["-- note\n", "--\n", "-- SELECT 'x' FROM; more words\n", "--é \\\n", "-- a -- b\n", "--;x y\n", "-- it's 1.2.3 (\n", "-- x\r\n", "--\t\\'\n"]);
                let lead = if after_op || rng.chance(1, 2) { " " } else { "" };
                its[i].0 = format!("{}{}{}", lead, c, if rng.chance(1, 2) { "  " } else { "" });
                changed = true;
            }
        }
        "comment-end" => {
            let after_op = tail.is_empty() && its[n - 1].1.k == K::Op;
            tail.push_str(&format!("{}{}", if after_op || rng.chance(1, 2) { " " } else { "" }, pk(rng, &["--", "-- the end", "--\n", "-- x\n-- y"])));
            changed = true;
        }
        "semicolon" => {
            if !is_query { return false; }
            if its[n - 1].1.text == ";" { its.pop(); } else { its.push((pk(rng, &["", " ", "\n"]).to_owned(), Lx { k: K::Punct, text: ";".to_owned() })); }
            changed = true;
        }
        "clause-order" => {
            if !is_query { return false; }
            let (head, mut cl, rest) = match clauses(its) { Some(x) => x, None => return false };
            if cl.len() < 2 { return false; }
            let names = |cl: &Vec<Vec<(String, Lx)>>| cl.iter().map(|c| c[0].1.text.to_lowercase()).collect::<Vec<_>>();
            let before = names(&cl);
            for _ in 0..4 {
                rng.shuffle(&mut cl);
                if names(&cl) != before { break; }
            }
            if names(&cl) == before { return false; }
            let mut out = head;
            for mut c in cl { if c[0].0.is_empty() { c[0].0 = " ".to_owned(); } out.extend(c); }
            let mut rest = rest;
            if let Some(first) = rest.first_mut() { if first.1.k == K::Word && first.0.is_empty() { first.0 = " ".to_owned(); } }
            out.extend(rest);
            *its = out;
            changed = true;
        }
        _ => return false,
    }
    changed
}

fn variant(rng: &mut Rng, v: &Vocab, kind: &str, items: &[(String, Lx)], is_query: bool) -> Option<String> {
    let mut its = items.to_vec();
    let mut tail = String::new();
    if apply(rng, v, kind, &mut its, &mut tail, is_query) { Some(render(&its, &tail)) } else { None }
}

/// correspondence case `stmt`: the text's token vector through the real parser + lowering and through `Pipeline.parseToks`
fn emit_stmt(run: &mut Run, text: &str, gen: &str) {
    if let Caught::Done(Ok(tokens)) = stmtcases::tokenize_caught(text) {
        let (answer, skind) = stmtcases::run_parse(text);
        let desc: String = text.chars().take(300).collect();
        run.case_with_desc(format!("stmt {} {}", stmtcases::tokens_sexp(&tokens), stmtcases::regex_oracle(&tokens)), answer, format!("stmt:{}:{}", gen, skind), desc);
    }
}

fn parse_debug(text: &str) -> Result<String, String> {
    match catch(|| sqlgrep::parsing::parse(text)) {
        Caught::Done(Ok(st)) => Ok(format!("{:?}", st)),
        Caught::Done(Err(e)) => Err(format!("error({}, {}:{})", e, e.location().line, e.location().column)),
        Caught::Panic(m) => Err(format!("PANIC({})", m)),
    }
}

struct Base {
    text: String,
    items: Vec<(String, Lx)>,
    is_query: bool,
    defs: String,
    debug: String,
    output: Option<String>,
}

const INPUT_KINDS: usize = 3;

/// the relation on one (base, variant) pair; failures are classified as `<variant kind>:<deviation>:<statement kind>`
fn compare(run: &mut Run, b: &Base, kind: &str, vtext: &str, input: &str) -> bool {
    run.oracle_checks += 1;
    if !kind.starts_with("mixed") { run.count(&format!("variant:{}", kind)); }
    let stmt_kind = if b.is_query { "query" } else { "create" };
    let desc = format!("base {:?} variant[{}] {:?}", b.text, kind, vtext);
    let kind = if kind.starts_with("mixed") { "mixed" } else { kind };
    match parse_debug(vtext) {
        Ok(d) => {
            if d != b.debug {
                run.fail(desc, &format!("{}:parse-differs:{}", kind, stmt_kind), format!("the variant parses to a different statement: {} vs {}", &d[..d.len().min(300)], &b.debug[..b.debug.len().min(300)]));
                return false;
            }
        }
        Err(e) => {
            run.fail(desc, &format!("{}:variant-rejected:{}", kind, stmt_kind), format!("the base text parses, the variant does not: {}", e));
            return false;
        }
    }
    if let Some(out) = &b.output {
        run.oracle_checks += 1;
        let o = runq::run_batch(&b.defs, vtext, input).show();
        if &o != out {
            run.fail(desc, &format!("{}:output-differs:{}", kind, stmt_kind), format!("output {} vs {}", &o[..o.len().min(300)], &out[..out.len().min(300)]));
            return false;
        }
    }
    true
}

pub fn run(p: &Params) -> Run {
    let mut run = Run::new("C20");
    let mut rng = lexcases::seeded(p.seed, 0xC20);
    lexcases::gen_all(&mut run, &mut rng, p);

    let v = vocab();
    let join_content: String = (0..12).map(|_| queries::gen_join_line(&mut rng) + "\n").collect();
    let join_path = runq::tmp_file(join_content.as_bytes());
    let join_str = join_path.to_string_lossy().to_string();
    let opts = queries::QueryOpts { allow_limit: true, allow_distinct: true, allow_join: true, aggregate: None };
    let mut skipped_scan = 0;
    let nstmts = p.n(170, 5000);
    for si in 0..nstmts {
        // a base statement
        let (text, is_query, defs) = if si % 3 == 2 {
            let d = extract::gen_def(&mut rng, (si % 11) as u64);
            let mut text = d.render(&mut rng);
            if si % 4 == 1 {
                // a definitions text of several statements
                for k in 0..1 + rng.below(2) {
                    let d2 = extract::gen_def(&mut rng, ((si + k) % 11) as u64);
                    text.push_str(pk(&mut rng, &[" ", "\n", ""]));
                    text.push_str(&d2.render(&mut rng).replacen("CREATE TABLE t ", &format!("CREATE TABLE t{} ", k), 1));
                }
                run.count("base:create:multi");
            }
            (text, false, String::new())
        } else if si < 3 * FIXED_DEFS.len() && si % 3 == 0 {
            (FIXED_DEFS[si / 3].to_owned(), false, String::new())
        } else if si % 41 == 0 {
            ((*rng.pick(&[queries::MAIN_DEF, queries::MAIN_DEF_BOOL, queries::JOIN_DEF])).to_owned(), false, String::new())
        } else {
            let sch = queries::gen_schema(&mut rng);
            (queries::gen_query(&mut rng, &sch, &opts, &join_str).text, true, sch.defs.clone())
        };
        let debug = match parse_debug(&text) {
            Ok(d) => d,
            Err(_) => { run.count("base:rejected"); continue; }  // the property speaks about valid statements
        };
        let items = match scan(&text) {
            Some(items) if !items.is_empty() && render(&items, "") == text => items,
            _ => { skipped_scan += 1; continue; }
        };
        run.count(if is_query { "base:query" } else { "base:create" });
        let input: String = (0..8).map(|_| queries::gen_line(&mut rng, 15, false) + "\n").collect();
        let output = if is_query && si % INPUT_KINDS != 1 { Some(runq::run_batch(&defs, &text, &input).show()) } else { None };
        let b = Base { text: text.clone(), items, is_query, defs, debug, output };
        if si % 5 == 0 { lexcases::emit_tok(&mut run, &text, "c20-base"); }
        if !is_query { emit_stmt(&mut run, &text, "c20-create-base"); }
        for kind in KINDS {
            if let Some(vt) = variant(&mut rng, &v, kind, &b.items, is_query) {
                let ok = compare(&mut run, &b, kind, &vt, &input);
                run.tags.insert(format!("rel:{}:{}:{}", kind, if is_query { "query" } else { "create" }, if ok { "same" } else { "differs" }));
                if si % 7 == 0 || !ok { lexcases::emit_tok(&mut run, &vt, "c20-variant"); }
                if !is_query && (*kind == "case-type" || *kind == "case-mode") { emit_stmt(&mut run, &vt, &format!("c20-create-{}", kind)); }
            }
        }
        if !is_query {
            // the option words re-cased: to the model only (the sentence does not list them: no oracle verdict)
            if let Some(vt) = variant(&mut rng, &v, "case-option", &b.items, false) {
                run.count("variant:case-option(model only)");
                emit_stmt(&mut run, &vt, "c20-create-case-option");
            }
        }
        // several kinds at once, each applied to the result of the previous one
        let mut its = b.items.clone();
        let mut tail = String::new();
        let mut applied: Vec<&str> = Vec::new();
        for kind in KINDS {
            if !rng.chance(2, 3) { continue; }
            if apply(&mut rng, &v, kind, &mut its, &mut tail, is_query) { applied.push(kind); }
        }
        if applied.len() >= 2 {
            let vt = render(&its, &tail);
            // single kinds are checked above on the same statement: a failure here that no single kind shows is an interaction
            let mixed = format!("mixed[{}]", applied.join("+"));
            run.count("variant:mixed");
            let ok = compare(&mut run, &b, &mixed, &vt, &input);
            run.tags.insert(format!("rel:mixed:{}:{}", if is_query { "query" } else { "create" }, if ok { "same" } else { "differs" }));
            if si % 7 == 3 || !ok { lexcases::emit_tok(&mut run, &vt, "c20-mixed"); }
            if !is_query { emit_stmt(&mut run, &vt, "c20-create-mixed"); }
        }
    }
    let _ = std::fs::remove_file(&join_path);
    // the same relation through the program itself (-c / --command-file): `;` and `--` inside literals and comments
    crate::cli::layout_stream(&mut run, &mut rng, p.n(40, 600));
    run.notes.push(format!("{} statements skipped because the harness scanner does not cover them", skipped_scan));
    run.notes.push("relation: parse(base) == parse(variant) through {:?}, and equal printed output for queries; the trailing semicolon is varied for queries only (mandatory terminator of CREATE TABLE); modifier words (TRIM / CONVERT / MICROSECONDS) are case-varied for the model only (`stmt` correspondence, no oracle verdict)".to_owned());
    run.notes.push("CREATE TABLE bases (generated, several statements in one text, fixed texts with array types and columns called like types) and their case-type / case-mode / case-option / mixed variants go through the model's parser and lowering (`stmt` cases): the texts of Props/C20Create.lean".to_owned());
    run
}

