import SqlgrepModel.Lemmas.JoinIndex
import SqlgrepModel.Spec.Join
/- Helper lemmas for C05: the model's per-line join (`lineEnvs` over the loaded index) is the nested loop. -/
namespace Sqlgrep
open Value Spec.Join

theorem keysMatch_iff_bucket (kr ks : Value) :
    (!ks.isNull && beq ks kr) = keysMatch kr ks := by
  unfold keysMatch
  cases h : beq ks kr
  · have : beq kr ks = false := by rw [beq_symm]; exact h
    simp [this]
  · have h' : beq kr ks = true := by rw [beq_symm]; exact h
    have := isNull_eq_of_beq h
    simp [h', this]

theorem matchingRows_eq_partners (qy : Query) (j : JoinInfo) (ki kj : Nat) (joined : List (List Value)) (r : Line)
    (hki : indexOf? qy.table.columns j.joinerColumn = some ki)
    (hkj : indexOf? j.joined.columns j.joinedColumn = some kj) :
    matchingRows kj (r.row.getD ki .null) joined = partners qy j joined r := by
  unfold matchingRows partners keyOf
  rw [hki, hkj]
  apply List.filter_congr
  intro s _
  exact keysMatch_iff_bucket _ _

theorem loadJoin_ok_index (j : JoinInfo) (lines : List Line) (idx : JoinIndex) (h : loadJoin j lines = .ok idx) :
    ∃ kj, indexOf? j.joined.columns j.joinedColumn = some kj := by
  unfold loadJoin at h
  cases hk : indexOf? j.joined.columns j.joinedColumn with
  | none => rw [hk] at h; cases h
  | some kj => exact ⟨kj, rfl⟩

theorem lineEnvs_eq_rowsOf (qy : Query) (j : JoinInfo) (joinedLines : List Line) (idx : JoinIndex)
    (allowOuter : Bool) (r : Line) (ki : Nat)
    (hj : qy.join = some j) (hki : indexOf? qy.table.columns j.joinerColumn = some ki)
    (hl : loadJoin j joinedLines = .ok idx) :
    lineEnvs qy idx allowOuter r = .ok (rowsOf qy j (admittedRows joinedLines) allowOuter r) := by
  obtain ⟨kj, hkj⟩ := loadJoin_ok_index j joinedLines idx hl
  unfold lineEnvs
  simp only [hj, hki]
  rw [joinIndexGet_loadJoin j joinedLines idx kj hkj hl]
  have hp := matchingRows_eq_partners qy j ki kj (admittedRows joinedLines) r hki hkj
  unfold admittedRows admitted at hp
  simp only [hp]
  unfold rowsOf
  have hadm : admittedRows joinedLines = (joinedLines.filter (fun l => anyResult l.row)).map (·.row) := rfl
  rw [hadm]
  cases hps : partners qy j ((joinedLines.filter (fun l => anyResult l.row)).map (·.row)) r with
  | nil =>
    simp only [List.isEmpty_nil, Bool.true_and, if_true]
    by_cases ho : (j.isOuter && allowOuter) = true
    · simp only [ho, if_true]; rfl
    · simp only [ho]; rfl
  | cons p ps => simp [pairRow]

end Sqlgrep
