// C10: follow mode delivers every completed line exactly once, in order.
// Schedules (content x cuts into appends x BufReader capacity x head/tail start x where the writer stops)
// are run against the real FollowFileIterator on a real temp file; the retry hook performs the next
// append or ends the iteration. Compared with the Lean machine (`follow` cases) and with the property
// itself (delivered == complete lines of what was appended after the start offset).
use std::cell::RefCell;
use std::fs::{File, OpenOptions};
use std::io::{BufReader, Seek, SeekFrom, Write};
use std::rc::Rc;

use sqlgrep::helpers::{verif_hooks, FollowFileIterator};

use crate::run::{Params, Run};
use crate::runq::tmp_file;
use crate::util::{catch, hex, Caught, Rng};

pub const CAPS: [usize; 7] = [1, 2, 3, 5, 8, 64, 8192];

pub struct Schedule {
    pub head: bool,
    pub cap: usize,
    pub initial: Vec<u8>,
    pub chunks: Vec<Vec<u8>>, // appends actually performed, in order (the hook ends the iteration afterwards)
    /// eager[i] = number of pending chunks the writer appends just BEFORE the reader's i-th call of `next()` (i.e. while
    /// the consumer is still working on the lines delivered so far); chunks not appended eagerly are appended one per
    /// retry, as before. Empty = the writer appends at the retry point only.
    pub eager: Vec<usize>,
}

pub struct Observed {
    pub delivered: Vec<Vec<u8>>,
    pub hook_calls: usize,
}

/// run one schedule on the real iterator; Err = panic message
pub fn run_real(s: &Schedule) -> Result<Observed, String> {
    let path = tmp_file(&s.initial);
    let res = catch(|| -> Result<Observed, String> {
        let writer = OpenOptions::new().append(true).open(&path).map_err(|e| format!("open: {}", e))?;
        let file = File::open(&path).map_err(|e| format!("open: {}", e))?;
        let mut reader = BufReader::with_capacity(s.cap, file);
        // as FollowFileExecutor::new
        if s.head {
            reader.seek(SeekFrom::Start(0)).map_err(|e| format!("seek: {}", e))?;
        } else {
            reader.seek(SeekFrom::End(0)).map_err(|e| format!("seek: {}", e))?;
        }
        let calls = Rc::new(RefCell::new(0usize));
        let calls2 = calls.clone();
        let chunks = s.chunks.clone();
        let next_chunk = Rc::new(RefCell::new(0usize));
        let next_chunk2 = next_chunk.clone();
        let writer = Rc::new(RefCell::new(writer));
        let writer2 = writer.clone();
        verif_hooks::set_follow_retry_hook(Some(Box::new(move || {
            let n = *calls2.borrow();
            *calls2.borrow_mut() = n + 1;
            let i = *next_chunk2.borrow();
            if i < chunks.len() {
                writer2.borrow_mut().write_all(&chunks[i]).unwrap();
                writer2.borrow_mut().flush().unwrap();
                *next_chunk2.borrow_mut() = i + 1;
                true
            } else {
                false
            }
        })));
        let mut delivered: Vec<Vec<u8>> = Vec::new();
        let mut it = FollowFileIterator::new(reader);
        let mut call = 0usize;
        loop {
            // the writer may append while the consumer is busy between two polls
            for _ in 0..s.eager.get(call).copied().unwrap_or(0) {
                let i = *next_chunk.borrow();
                if i < s.chunks.len() {
                    writer.borrow_mut().write_all(&s.chunks[i]).unwrap();
                    writer.borrow_mut().flush().unwrap();
                    *next_chunk.borrow_mut() = i + 1;
                }
            }
            call += 1;
            match it.next() {
                Some(l) => delivered.push(l.into_bytes()),
                None => break,
            }
        }
        verif_hooks::set_follow_retry_hook(None);
        let hook_calls = *calls.borrow();
        Ok(Observed { delivered, hook_calls })
    });
    verif_hooks::set_follow_retry_hook(None);
    let _ = std::fs::remove_file(&path);
    match res {
        Caught::Done(r) => r,
        Caught::Panic(m) => Err(format!("panic: {}", m)),
    }
}

/// the property's right-hand side, computed independently: newline-terminated lines of `content`
pub fn complete_lines(content: &[u8]) -> (Vec<Vec<u8>>, Vec<u8>) {
    let mut lines = Vec::new();
    let mut cur = Vec::new();
    for &b in content {
        if b == b'\n' {
            lines.push(std::mem::take(&mut cur));
        } else {
            cur.push(b);
        }
    }
    (lines, cur)
}

const ATOMS: [&str; 14] = ["a", "b", "xyz", " ", "\u{e9}", "\u{20ac}", "\u{1f600}", "\n", "\n", "\n\n", "\r\n", "\r", "\u{e9}\n", "0"];

fn gen_content(rng: &mut Rng, max_atoms: usize) -> Vec<u8> {
    let n = rng.below(max_atoms + 1);
    let mut out = Vec::new();
    for _ in 0..n {
        out.extend_from_slice(rng.pick(&ATOMS).as_bytes());
    }
    out
}

fn gen_long_content(rng: &mut Rng, line_len: usize) -> Vec<u8> {
    // a few lines, one of them longer than the reader's buffer
    let mut out = gen_content(rng, 4);
    if !out.is_empty() && *out.last().unwrap() != b'\n' && rng.chance(1, 2) { out.push(b'\n'); }
    let unit = "ab\u{e9}\u{20ac}";
    while out.len() < line_len { out.extend_from_slice(unit.as_bytes()); }
    if rng.chance(3, 4) { out.push(b'\n'); }
    out.extend_from_slice(&gen_content(rng, 4));
    out
}

fn is_cont(b: u8) -> bool { b & 0xC0 == 0x80 }

#[derive(Clone, Copy, PartialEq)]
enum CutMode { None, EveryByte, BeforeNl, InsideMb, AfterNl, Random }

impl CutMode {
    fn name(self) -> &'static str {
        match self {
            CutMode::None => "one-append", CutMode::EveryByte => "every-byte", CutMode::BeforeNl => "before-nl",
            CutMode::InsideMb => "inside-mb", CutMode::AfterNl => "after-nl", CutMode::Random => "random",
        }
    }
}

fn cut_points(rng: &mut Rng, content: &[u8], mode: CutMode) -> Vec<usize> {
    // cut point i (0 < i < len) separates content[..i] from content[i..]
    let mut pts = Vec::new();
    let den = 1 + rng.below(6) as u64;
    for i in 1..content.len() {
        let take = match mode {
            CutMode::None => false,
            CutMode::EveryByte => true,
            CutMode::BeforeNl => content[i] == b'\n',
            CutMode::InsideMb => is_cont(content[i]),
            CutMode::AfterNl => content[i - 1] == b'\n',
            CutMode::Random => rng.chance(1, den),
        };
        if take { pts.push(i); }
    }
    pts
}

fn cut(content: &[u8], pts: &[usize]) -> Vec<Vec<u8>> {
    let mut out = Vec::new();
    let mut last = 0;
    for &p in pts {
        out.push(content[last..p].to_vec());
        last = p;
    }
    if last < content.len() { out.push(content[last..].to_vec()); }
    out
}

fn case_line(s: &Schedule) -> String {
    format!("{} {} {} {} ({})", if s.eager.is_empty() { "follow" } else { "followd" }, if s.head { "head" } else { "tail" }, s.cap, hex(&s.initial),
            s.chunks.iter().map(|c| hex(c)).collect::<Vec<_>>().join(" "))
}

fn bucket(n: usize) -> &'static str { match n { 0 => "0", 1 => "1", 2..=4 => "2-4", _ => "5+" } }

/// run one schedule: correspondence case + property oracle
pub fn check_schedule(run: &mut Run, s: &Schedule, mode: &str) {
    let line = case_line(s);
    let appended: Vec<u8> = s.chunks.concat();
    let mut whole = s.initial.clone();
    whole.extend_from_slice(&appended);
    let start = if s.head { 0 } else { s.initial.len() };
    let (expected, tail) = complete_lines(&whole[start..]);
    let mb_cut = s.chunks.iter().any(|c| c.first().map(|b| is_cont(*b)).unwrap_or(false));
    let nl_cut = s.chunks.iter().skip(1).any(|c| c.first() == Some(&b'\n'));
    let has_cr = whole[start..].contains(&b'\r');
    let has_empty = expected.iter().any(|l| l.is_empty());
    let longest = expected.iter().map(|l| l.len() + 1).max().unwrap_or(0).max(tail.len());
    if mb_cut { run.count("cut-inside-multibyte"); }
    if nl_cut { run.count("cut-before-newline"); }
    if has_cr { run.count("has-cr"); }
    if has_empty { run.count("has-empty-line"); }
    if longest > s.cap { run.count("line-longer-than-buffer"); }
    if !tail.is_empty() { run.count("unterminated-tail"); }
    if !s.head && !s.initial.is_empty() { run.count("tail-start-with-existing-content"); }
    let tag = format!("{}/cap{}/{}/mb{}/tail{}/long{}/n{}", if s.head { "head" } else { "tail" }, s.cap, mode,
                      mb_cut as u8, (!tail.is_empty()) as u8, (longest > s.cap) as u8, bucket(expected.len()));
    match run_real(s) {
        Err(e) => {
            run.case(line.clone(), format!("failed {}", e.replace('\n', " ")), tag);
            run.fail(line, "follow-panic", e);
        }
        Ok(obs) => {
            let answer = if s.eager.is_empty() {
                format!("delivered {}{} retries {}", obs.delivered.len(), obs.delivered.iter().map(|l| format!(" {}", hex(l))).collect::<String>(), obs.hook_calls)
            } else {
                format!("delivered {}{}", obs.delivered.len(), obs.delivered.iter().map(|l| format!(" {}", hex(l))).collect::<String>())
            };
            run.case(line.clone(), answer, tag);
            run.oracle_checks += 1;
            if obs.delivered != expected {
                let d = &obs.delivered;
                let common = d.iter().zip(expected.iter()).take_while(|(a, b)| a == b).count();
                let (class, what) = if common == d.len() && d.len() < expected.len() {
                    (if mb_cut { "D29:ended-at-multibyte-cut" } else { "line-lost-at-end" },
                     format!("only {} of {} complete lines delivered before the iteration ended", d.len(), expected.len()))
                } else if common == expected.len() && d.len() > expected.len() {
                    if d[common] == tail { ("tail-delivered", format!("unterminated tail {} delivered", hex(&tail))) }
                    else { ("extra-line-delivered", format!("extra item {} after all complete lines", hex(&d[common]))) }
                } else if common > 0 && d[common] == d[common - 1] && d[common - 1] != expected[common] {
                    ("line-duplicated", format!("item {} delivered twice: {}", common - 1, hex(&d[common])))
                } else if common + 1 < expected.len() && d[common] == expected[common + 1] {
                    ("line-lost", format!("line {} ({}) never delivered", common, hex(&expected[common])))
                } else if common + 1 < expected.len() && d[common] == [expected[common].clone(), expected[common + 1].clone()].concat() {
                    ("lines-merged", format!("lines {} and {} delivered as one item", common, common + 1))
                } else if expected[common].starts_with(&d[common]) && d[common].len() < expected[common].len() {
                    ("line-split-or-truncated", format!("line {}: delivered {} expected {}", common, hex(&d[common]), hex(&expected[common])))
                } else {
                    ("line-altered", format!("item {}: delivered {} expected {}", common, hex(&d[common]), hex(&expected[common])))
                };
                run.fail(line, class, what);
            }
        }
    }
}

/// lines that are NOT valid UTF-8 (oracle only, no model case: the reader model delivers bytes, the implementation a
/// lossily converted `String`): every complete line is still delivered exactly once, in order — as its lossy conversion —
/// and nothing else is, whatever the chunking; a line with an undecodable byte must not disturb the lines around it
fn check_schedule_lossy(run: &mut Run, s: &Schedule, mode: &str) {
    let appended: Vec<u8> = s.chunks.concat();
    let mut whole = s.initial.clone();
    whole.extend_from_slice(&appended);
    let start = if s.head { 0 } else { s.initial.len() };
    let (expected, _tail) = complete_lines(&whole[start..]);
    let expected: Vec<Vec<u8>> = expected.iter().map(|l| String::from_utf8_lossy(l).into_owned().into_bytes()).collect();
    let desc = format!("{} cap={} initial={} chunks=({}) [{}; lines that are not valid UTF-8]", if s.head { "head" } else { "tail" }, s.cap, hex(&s.initial), s.chunks.iter().map(|c| hex(c)).collect::<Vec<_>>().join(" "), mode);
    run.oracle_checks += 1;
    run.count("invalid-utf8-content");
    match run_real(s) {
        Err(e) => run.fail(desc, "follow-panic", e),
        Ok(obs) => {
            if obs.delivered != expected {
                let d = &obs.delivered;
                let common = d.iter().zip(expected.iter()).take_while(|(a, b)| a == b).count();
                let class = if d.len() > expected.len() && common == expected.len() { "extra-line-delivered" } else if d.len() < expected.len() && common == d.len() { "line-lost-at-end" } else { "line-altered" };
                run.fail(desc, class, format!("delivered {} items, expected {}; first difference at item {}: {:?} vs {:?}", d.len(), expected.len(), common, d.get(common).map(|l| hex(l)), expected.get(common).map(|l| hex(l))));
            }
        }
    }
}

/// the real `FollowFileExecutor` (what `sqlgrep --follow [--head]` runs) over a growing file: the file holds `initial`
/// at start-up, the retry hook appends one chunk per call and then ends the run; stdout is captured
fn exec_follow(query: &str, head: bool, initial: &[u8], chunks: &[Vec<u8>]) -> (String, Vec<String>) {
    use std::sync::atomic::AtomicBool;
    use std::sync::Arc;
    use sqlgrep::execution::execution_engine::ExecutionEngine;
    use sqlgrep::executor::{DisplayOptions, FollowFileExecutor, OutputFormat};
    const DEF: &str = "CREATE TABLE t(line = '(.*)', line[1] => x TEXT);";
    let prepared = match crate::engine_run::prepare(DEF, query) { Ok(p) => p, Err(e) => return (format!("rejected {}", e), Vec::new()) };
    let path = tmp_file(initial);
    {
        let path = path.clone();
        let chunks = chunks.to_vec();
        let calls = std::cell::Cell::new(0usize);
        verif_hooks::set_follow_retry_hook(Some(Box::new(move || {
            let n = calls.get();
            calls.set(n + 1);
            if n < chunks.len() {
                let mut f = OpenOptions::new().append(true).open(&path).unwrap();
                f.write_all(&chunks[n]).unwrap();
                true
            } else {
                false
            }
        })));
    }
    let mut status = String::new();
    let out = crate::c19::capture_stdout(|| {
        let res = catch(|| -> Result<(), String> {
            let file = File::open(&path).map_err(|_| "err:FailOpenFile".to_owned())?;
            let display = DisplayOptions { output_format: OutputFormat::Text, single_result: false, print_result: true };
            let engine = ExecutionEngine::new(&prepared.tables, &prepared.statement);
            let mut executor = FollowFileExecutor::new(Arc::new(AtomicBool::new(true)), file, head, display, engine).map_err(|_| "err:Io".to_owned())?;
            executor.execute().map_err(|e| format!("err:{}", crate::engine_run::exec_err_kind(&e)))
        });
        status = match res {
            Caught::Done(Ok(())) => "ok".to_owned(),
            Caught::Done(Err(e)) => e,
            Caught::Panic(m) => format!("panic {}", m),
        };
    });
    verif_hooks::set_follow_retry_hook(None);
    let _ = std::fs::remove_file(path);
    let text = crate::util::strip_control(&String::from_utf8_lossy(&out));
    let mut printed: Vec<String> = text.split('\n').map(|s| s.to_owned()).collect();
    if printed.last().map(|l| l.is_empty()).unwrap_or(false) { printed.pop(); }
    (status, printed)
}

/// executor level: what the query *sees* in follow mode are exactly the complete lines appended after the start offset
fn check_executor(run: &mut Run, rng: &mut Rng) {
    let head = rng.chance(1, 2);
    // no CR / empty-line atoms here: the printed text is split at line feeds again
    const XATOMS: [&str; 8] = ["a", "b", "xyz", " ", "\u{e9}", "\u{20ac}", "\n", "q\n"];
    let gen = |rng: &mut Rng, n: usize| -> Vec<u8> { let mut o = Vec::new(); for _ in 0..rng.below(n + 1) { o.extend_from_slice(rng.pick(&XATOMS).as_bytes()); } o };
    let mut initial = gen(rng, 8);
    if rng.chance(1, 2) && !initial.is_empty() && *initial.last().unwrap() == b'\n' { initial.extend_from_slice(b"tail"); }
    let appended = gen(rng, 10);
    let pts = cut_points(rng, &appended, CutMode::Random);
    let chunks = cut(&appended, &pts);
    let mut whole = initial.clone();
    whole.extend_from_slice(&appended);
    let start = if head { 0 } else { initial.len() };
    let (expected, _tail) = complete_lines(&whole[start..]);
    // a lone `input` column prints the line in its TEXT rendering (quoted): the code's meaning of "just the line"
    let expected: Vec<String> = expected.iter().map(|l| format!("'{}'", String::from_utf8_lossy(l))).collect();
    let aggregate = rng.chance(1, 2);
    let query = if aggregate { "SELECT COUNT(*) AS n FROM t" } else { "SELECT input FROM t" };
    let (status, printed) = exec_follow(query, head, &initial, &chunks);
    run.oracle_checks += 1;
    run.count(if aggregate { "executor:aggregate" } else { "executor:select" });
    let desc = format!("FollowFileExecutor head={} query={} initial={} appends=({})", head, query, hex(&initial), chunks.iter().map(|c| hex(c)).collect::<Vec<_>>().join(" "));
    if status != "ok" {
        run.fail(desc, "follow-executor-failed", format!("status {}", status));
        return;
    }
    // a line that contains only spaces is still a row (x = ' '), the empty line too (x = '')
    if aggregate {
        let last = printed.iter().rev().find(|l| !l.is_empty()).cloned();
        let want = if expected.is_empty() { None } else { Some(format!("n: {}", expected.len())) };
        if last != want {
            run.fail(desc, "follow-executor-line-count", format!("the last table shown is {:?} but {} complete lines were appended after the start offset", last, expected.len()));
        }
    } else if printed != expected {
        run.fail(desc, "follow-executor-lines-differ", format!("the query saw {:?} but the complete lines are {:?}", printed, expected));
    }
}

fn make_schedule(rng: &mut Rng, head: bool, cap: usize, initial: Vec<u8>, appended: &[u8], mode: CutMode) -> Schedule {
    let pts = cut_points(rng, appended, mode);
    let mut chunks = cut(appended, &pts);
    // the writer sometimes stops early (the hook ends the iteration with appends still outstanding)
    if chunks.len() > 1 && rng.chance(1, 6) {
        let keep = 1 + rng.below(chunks.len() - 1);
        chunks.truncate(keep);
    }
    Schedule { head, cap, initial, chunks, eager: Vec::new() }
}

pub fn run(p: &Params) -> Run {
    let mut run = Run::new("C10");
    let mut rng = Rng::new(p.seed ^ 0xC10);
    let modes = [CutMode::None, CutMode::EveryByte, CutMode::BeforeNl, CutMode::InsideMb, CutMode::AfterNl, CutMode::Random, CutMode::Random, CutMode::Random];

    // fixed corner schedules for every capacity and start mode
    let corners: Vec<(&[u8], &[u8])> = vec![
        (b"", b""),
        (b"", b"\n"),
        (b"", b"a"),
        (b"", b"a\n"),
        (b"", b"\n\n\n"),
        (b"", b"a\xc3\xa9\nb"),
        (b"", b"a\r\nb\r\n"),
        (b"old\n", b"new\n"),
        (b"old", b"er\nnew\n"),
        (b"old\nhalf", b"\n"),
        (b"x", b"\xc3\xa9\n"),
        (b"", "\u{1f600}\u{20ac}\n\u{e9}\r\n\n\u{e9}".as_bytes()),
        (b"ab\n", b"ab\nab\nab"),
    ];
    for (init, app) in &corners {
        for &cap in &CAPS {
            for &head in &[true, false] {
                for &mode in &[CutMode::None, CutMode::EveryByte] {
                    let s = make_schedule(&mut Rng::new(1), head, cap, init.to_vec(), app, mode);
                    check_schedule(&mut run, &s, mode.name());
                }
            }
        }
    }

    // random schedules
    let n = p.n(12_000, 100_000);
    for i in 0..n {
        let head = rng.chance(1, 2);
        let cap = *rng.pick(&CAPS);
        let initial = if rng.chance(1, 2) { Vec::new() } else { gen_content(&mut rng, 6) };
        let appended = gen_content(&mut rng, if i % 7 == 0 { 40 } else { 14 });
        let mode = *rng.pick(&modes);
        let s = make_schedule(&mut rng, head, cap, initial, &appended, mode);
        check_schedule(&mut run, &s, mode.name());
    }

    // content with bytes that are not valid UTF-8 (lone lead bytes, stray continuation bytes, 0xFF) between ordinary lines
    let bad_atoms: &[&[u8]] = &[b"\xff", b"\xc3", b"\x80", b"\xe2\x82", b"\xf0\x9f", b"a\xffb", b"\xc3\n", b"\xff\n"];
    for _ in 0..p.n(600, 10_000) {
        let head = rng.chance(1, 2);
        let cap = *rng.pick(&CAPS);
        let gen_bad = |rng: &mut Rng, n: usize| -> Vec<u8> {
            let mut out = Vec::new();
            for _ in 0..rng.below(n + 1) { if rng.chance(1, 3) { out.extend_from_slice(*rng.pick(bad_atoms)); } else { out.extend_from_slice(rng.pick(&ATOMS).as_bytes()); } }
            out
        };
        let initial = if rng.chance(1, 2) { Vec::new() } else { gen_bad(&mut rng, 6) };
        let appended = gen_bad(&mut rng, 14);
        let mode = *rng.pick(&modes);
        let s = make_schedule(&mut rng, head, cap, initial, &appended, mode);
        check_schedule_lossy(&mut run, &s, mode.name());
    }

    // lines longer than the reader's buffer, also for the large capacities
    let n_long = p.n(200, 1500);
    for _ in 0..n_long {
        let head = rng.chance(1, 2);
        let cap = *rng.pick(&[8usize, 64, 64, 8192, 8192]);
        // longer than the reader's buffer; for the large capacity also longer than 64 KiB / 128 KiB (common fixed limits)
        let line_len = match cap { 8 => 20 + rng.below(30), 64 => 60 + rng.below(200), _ => if rng.chance(1, 4) { 65_000 + rng.below(150_000) } else { 8000 + rng.below(9000) } };
        let initial = if rng.chance(1, 2) { Vec::new() } else { gen_content(&mut rng, 4) };
        let appended = gen_long_content(&mut rng, line_len);
        // few cuts for long contents, near the buffer boundary as well
        let mut pts: Vec<usize> = Vec::new();
        for _ in 0..rng.below(5) { if appended.len() > 1 { pts.push(1 + rng.below(appended.len() - 1)); } }
        if appended.len() > cap + 1 && rng.chance(1, 2) { pts.push(cap); pts.push(cap + 1); }
        pts.sort(); pts.dedup();
        let chunks = cut(&appended, &pts);
        let s = Schedule { head, cap, initial, chunks, eager: Vec::new() };
        check_schedule(&mut run, &s, "long");
    }

    // the writer appends BETWEEN two polls as well (while the consumer works on the lines delivered so far), not only
    // when the reader waits at end of file
    let n_eager = p.n(3_000, 40_000);
    for i in 0..n_eager {
        let head = rng.chance(1, 2);
        let cap = *rng.pick(&CAPS);
        let initial = if rng.chance(1, 2) { Vec::new() } else { gen_content(&mut rng, 6) };
        let appended = gen_content(&mut rng, if i % 5 == 0 { 40 } else { 16 });
        let mode = *rng.pick(&modes);
        let mut s = make_schedule(&mut rng, head, cap, initial, &appended, mode);
        let calls = 2 + rng.below(12);
        s.eager = (0..calls).map(|_| if rng.chance(1, 2) { rng.below(3) } else { 0 }).collect();
        if s.eager.iter().all(|k| *k == 0) { s.eager[0] = 1; }
        check_schedule(&mut run, &s, "eager");
    }
    // bursts: one append holds many complete lines (more than the reader's own buffering, 64 KiB .. 300 KiB) plus an
    // unterminated tail; the completion (and further lines) arrive while the consumer is still working through the burst
    let n_burst = p.n(6, 60);
    for i in 0..n_burst {
        let head = rng.chance(1, 2);
        let cap = *rng.pick(&[64usize, 8192, 8192, 8192]);
        let nlines = 2_000 + rng.below(if i % 2 == 0 { 12_000 } else { 4_000 });
        let mut burst: Vec<u8> = Vec::new();
        for k in 0..nlines { burst.extend_from_slice(format!("line {} {}\n", k, "xy\u{e9}".repeat(rng.below(6))).as_bytes()); }
        burst.extend_from_slice(b"unterminated ta");
        let completion = "il \u{20ac}\nnext line\nlast\n".as_bytes().to_vec();
        let extra = gen_content(&mut rng, 10);
        let initial = if rng.chance(1, 2) { Vec::new() } else { b"old\n".to_vec() };
        let mut eager = vec![0usize; 1 + rng.below(nlines)];
        eager.push(1 + rng.below(2));
        let s = Schedule { head, cap, initial, chunks: vec![burst, completion, extra], eager };
        check_schedule(&mut run, &s, "burst");
    }

    // executor level (`FollowFileExecutor`, with and without --head, SELECT and aggregate), oracle only
    for _ in 0..p.n(300, 4_000) { check_executor(&mut run, &mut rng); }

    // exhaustive small scope (thorough): all contents <= 5 symbols over {a, \n, \r, é} x all cut sets x caps <= 3
    if p.tier_thorough {
        let syms: [&[u8]; 4] = [b"a", b"\n", b"\r", "\u{e9}".as_bytes()];
        for len in 0..=5usize {
            let total = 4usize.pow(len as u32);
            for code in 0..total {
                let mut content = Vec::new();
                let mut c = code;
                for _ in 0..len { content.extend_from_slice(syms[c % 4]); c /= 4; }
                let nb = content.len();
                let cutsets = if nb <= 1 { 1 } else { 1usize << (nb - 1) };
                for cs in 0..cutsets {
                    let pts: Vec<usize> = (1..nb).filter(|i| cs >> (i - 1) & 1 == 1).collect();
                    let chunks = cut(&content, &pts);
                    for &cap in &[1usize, 2, 3] {
                        let s = Schedule { head: true, cap, initial: Vec::new(), chunks: chunks.clone(), eager: Vec::new() };
                        check_schedule(&mut run, &s, "exhaustive");
                    }
                }
            }
        }
        run.notes.push("exhaustive small scope: all contents of <= 5 symbols over {a, LF, CR, e-acute} x all cut sets x caps 1..3".to_owned());
    }
    run.notes.push("eager schedules: the writer also appends between two polls of the reader (driver kind followd compares delivered lines only); bursts of 64-300 KiB of complete lines plus a tail completed while the consumer is busy; executor level: the real FollowFileExecutor with and without --head, SELECT and aggregate, stdout captured (oracle only)".to_owned());
    run.notes.push("the real reader's reads are never short (regular file): `poll k` with k+1 < cap is covered by the theorems only".to_owned());
    // the command-line program with --follow [--head] on a file that does not grow (oracle only; see cli.rs)
    let mut crng = Rng::new(p.seed ^ 0xC10C11);
    crate::cli::follow_stream(&mut run, &mut crng, p.n(6, 40));
    // the whole program in follow mode: raw texts, a real growing file, every output format (Props/PipelineFollow.lean)
    let mut frng = Rng::new(p.seed ^ 0xC10e2ef);
    for focus in &["select", "print"] { crate::e2ef::stream(&mut run, &mut frng, p.n(100, 2000), focus); }
    run
}
