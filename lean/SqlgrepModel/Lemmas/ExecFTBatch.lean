import SqlgrepModel.Lemmas.ExecFT
import SqlgrepModel.Lemmas.ExecTLines
import SqlgrepModel.Lemmas.ExecTAgg
import SqlgrepModel.Lemmas.AggFollowExec
import SqlgrepModel.Lemmas.Pipeline
/-
The traced follow run against the traced batch run over the same lines (C11 with the result tables handed to the
printer instead of their text rendering):

* non-aggregate statement (no join; WHERE, DISTINCT, LIMIT included): the traced follow run IS the traced batch run over
  one file holding the lines — same `RunOut`, same print calls (`runFollowAllT_select_eq_runBatchT`);
* aggregate statement (no join, no LIMIT): the calls of the follow run are the tables `followTables` shows, one per line
  that WHERE admits (`runFollowAllT_agg`), and the table shown for the k-th line is THE table the batch run over the
  first k lines hands to the printer (`followT_agg_step`: `follow_exec_step` for print calls).
-/
set_option linter.unusedSimpArgs false
namespace Sqlgrep
open Value Spec.Agg Spec.Select

/-! ### non-aggregate statements -/

theorem runFollowT_select_calls (O : Oracles) (qy : Query) (q : SelectStmt) (hq : qy.stmt = .select q)
    (lines : List Line) (s : TraceState) (h0 : reachedLimit qy s.ls.es = false) :
    (runFollowT O qy none lines s).calls = (runFileT O qy [] true (readableFile lines) s).calls := by
  induction lines generalizing s with
  | nil => rfl
  | cons l rest ih =>
    have hrl : ({ readable := true, line := l } : FileLine).readable = true := rfl
    have hn : ((none : Option Nat) == some s.ls.consumed) = false := rfl
    have hu : isUpdated qy = false := by simp [isUpdated, hq]
    show (runFollowT O qy none (l :: rest) s).calls = (runFileT O qy [] true ({ readable := true, line := l } :: readableFile rest) s).calls
    cases hx : executeLine O qy [] true s.ls.es l with
    | ok p =>
      obtain ⟨es1, lo⟩ := p
      rw [runFileT_cons_ok O qy [] true _ (readableFile rest) s es1 lo hrl hx]
      rw [runFollowT]
      simp only [hn, Bool.false_eq_true, if_false, hx]
      have hflag := executeLine_select_reached O qy q hq [] true s.ls.es es1 l lo hx
      cases hres : lo.result with
      | none =>
        have hnum := executeLine_select_noresult O qy q hq [] true s.ls.es es1 l lo hx hres
        have hl : lo.reachedLimit = false := by
          rw [hflag]
          simp only [reachedLimit, hq] at h0 ⊢
          rw [hnum]; exact h0
        simp only [hl, Bool.false_eq_true, if_false]
        rw [ih _ (by show reachedLimit qy es1 = false; rw [← hflag]; exact hl)]
        simp only [advanceT, advance, hres, callsOf, List.append_nil, piece]
      | some r =>
        simp only [hu]
        by_cases hl : lo.reachedLimit = true
        · simp only [hl, if_true, hres, callsOf]
        · simp only [hl, Bool.false_eq_true, if_false]
          rw [ih _ (by show reachedLimit qy es1 = false; rw [← hflag]; simpa using hl)]
          simp only [advanceT, advance, hres, callsOf, piece]
    | error k =>
      have hne : ∀ p, executeLine O qy [] true s.ls.es l ≠ .ok p := by intro p hp; rw [hx] at hp; cases hp
      rw [(runFileT_cons_fail O qy [] true _ (readableFile rest) s hrl hne).1]
      simp [runFollowT, hn, hx]
    | panic k =>
      have hne : ∀ p, executeLine O qy [] true s.ls.es l ≠ .ok p := by intro p hp; rw [hx] at hp; cases hp
      rw [(runFileT_cons_fail O qy [] true _ (readableFile rest) s hrl hne).1]
      simp [runFollowT, hn, hx]
    | oracleMissing k =>
      have hne : ∀ p, executeLine O qy [] true s.ls.es l ≠ .ok p := by intro p hp; rw [hx] at hp; cases hp
      rw [(runFileT_cons_fail O qy [] true _ (readableFile rest) s hrl hne).1]
      simp [runFollowT, hn, hx]

/-- **follow mode = batch mode for a non-aggregate statement** (no join — follow mode has none; WHERE, DISTINCT, LIMIT
included): over the same lines the traced follow run and the traced batch run over one file holding them are equal —
the same `RunOut`, the same calls of the printer -/
theorem runFollowAllT_select_eq_runBatchT (O : Oracles) (qy : Query) (q : SelectStmt) (hq : qy.stmt = .select q)
    (hj : qy.join = none) (joined : Option (List FileLine)) (lines : List Line) :
    runFollowAllT O qy none lines = runBatchT O qy joined [readableFile lines] := by
  have hout : (runFollowAllT O qy none lines).out = (runBatchT O qy joined [readableFile lines]).out := by
    rw [runFollowAllT_out, Pipeline.runBatchT_nojoin O qy hj joined, Pipeline.runBatchT_some_out]
    exact runFollowAll_select_eq_runBatch O qy q hq hj lines
  have hcalls : (runFollowAllT O qy none lines).calls = (runBatchT O qy joined [readableFile lines]).calls := by
    unfold runFollowAllT runBatchT joinSetup runWithIndexT
    simp only [hj, hq, Bool.not_false, runFilesT_single]
    have e : (({} : TraceState).ls.stop || reachedLimit qy ({} : TraceState).ls.es) = reachedLimit qy ({} : EngineState) := by
      show (false || _) = _
      rw [Bool.false_or]
    rw [e]
    by_cases h0 : reachedLimit qy ({} : EngineState) = true
    · simp only [h0, if_true]
      split <;> rfl
    · simp only [h0, Bool.false_eq_true, if_false]
      rw [runFollowT_select_calls O qy q hq lines {} (by simpa using h0)]
      split <;> rfl
  cases ha : runFollowAllT O qy none lines with
  | mk o c =>
    cases hb : runBatchT O qy joined [readableFile lines] with
    | mk o' c' =>
      rw [ha, hb] at hout hcalls
      simp only at hout hcalls
      rw [hout, hcalls]

/-! ### aggregate statements -/

theorem runFollowT_agg_calls (O : Oracles) (qy : Query) (q : AggStmt) (hq : qy.stmt = .aggregate q) (hj : qy.join = none)
    (hlim : q.limit = none) (lines : List Line) (s : TraceState) {st : AggState} {ts : List RowOut}
    (h : followTables O q (followEnvs qy.table lines) s.ls.es.agg = .ok (st, ts)) :
    (runFollowT O qy none lines s).calls = s.calls ++ ts.map (fun r => { result := r, final := true }) := by
  induction lines generalizing s ts with
  | nil =>
    simp only [followEnvs, asFile, List.map_nil, envsOf, List.filter_nil, followTables, Outcome.ok.injEq, Prod.mk.injEq] at h
    obtain ⟨_, h2⟩ := h
    subst h2
    simp [runFollowT]
  | cons l rest ih =>
    have hnone : ((none : Option Nat) == some s.ls.consumed) = false := rfl
    have hu : isUpdated qy = true := by simp [isUpdated, hq]
    rw [followEnvs_cons] at h
    rw [runFollowT]
    simp only [hnone, Bool.false_eq_true, if_false]
    by_cases hadm : anyResult l.row = true
    · simp only [hadm, if_true, followTables] at h
      obtain ⟨⟨st1, r⟩, h1, h2⟩ := obind_ok h
      obtain ⟨⟨st2, ts2⟩, h3, h4⟩ := obind_ok h2
      simp only [Outcome.ok.injEq, Prod.mk.injEq] at h4
      obtain ⟨h4a, h4b⟩ := h4
      subst h4a; subst h4b
      rw [executeLine_follow_agg O qy q [] _ l hq hj hadm]
      simp only [h1, Outcome.bind, updateLimit, hlim]
      cases r with
      | none =>
        simp only []
        rw [ih _ (by simpa using h3)]
        simp
      | some out =>
        simp only [hu, Bool.false_eq_true, if_false]
        rw [ih _ (by simpa using h3)]
        simp
    · simp only [hadm, Bool.false_eq_true, if_false] at h
      have hex : executeLine O qy [] true
          { s.ls with consumed := s.ls.consumed + 1, out := { s.ls.out with totalLines := s.ls.out.totalLines + 1 } }.es l =
          .ok (s.ls.es, { result := none, reachedLimit := false }) := by
        simp only [executeLine, hq, hadm, Bool.not_false, if_true, updateLimit, hlim, Nat.add_zero]
      rw [hex]
      simp only []
      exact ih _ (by simpa using h)

/-- **the traced follow run of an aggregate statement** (no join, no LIMIT) whose steps do not fail: it prints and hands
to the printer exactly the tables `followTables` shows — one per line that WHERE admits, each with `single_result`
(= `output.updated`) set -/
theorem runFollowAllT_agg (O : Oracles) (qy : Query) (q : AggStmt) (hq : qy.stmt = .aggregate q) (hj : qy.join = none)
    (hlim : q.limit = none) (lines : List Line) {st : AggState} {ts : List RowOut}
    (h : followTables O q (followEnvs qy.table lines) {} = .ok (st, ts)) :
    runFollowAllT O qy none lines =
      { out := { printed := ts.flatMap (fun r => printResult r true), totalLines := lines.length },
        calls := ts.map (fun r => { result := r, final := true }) } := by
  have hout := runFollowAllT_out O qy none lines
  rw [runFollowAll_agg O qy q hq hj hlim lines h] at hout
  have hl : reachedLimit qy {} = false := by simp [reachedLimit, hq]
  have hcalls : (runFollowAllT O qy none lines).calls = ts.map (fun r => { result := r, final := true }) := by
    unfold runFollowAllT
    simp only [hl, Bool.false_eq_true, if_false]
    rw [runFollowT_agg_calls O qy q hq hj hlim lines {} h]
    rfl
  cases ha : runFollowAllT O qy none lines with
  | mk o c =>
    rw [ha] at hout hcalls
    simp only at hout hcalls
    rw [hout, hcalls]

/-- the traced batch run of an aggregate statement (no join, every line readable) whose updates and final result
succeed: it prints the final table once, finally -/
theorem runBatchT_agg (O : Oracles) (qy : Query) (q : AggStmt) (hq : qy.stmt = .aggregate q) (hj : qy.join = none)
    (joined : Option (List FileLine)) (files : List (List FileLine)) (hread : ∀ fl ∈ files.flatten, fl.readable = true)
    {st : AggState} (hrun : aggRun O q (envsOf qy.table files.flatten) {} = .ok st)
    {r : RowOut} (hfin : finalResult O q { agg := st } = .ok r) :
    runBatchT O qy joined files =
      { out := { printed := printResult r true, totalLines := files.flatten.length },
        calls := [{ result := r, final := true }] } := by
  have hls := runFiles_agg O qy q hq hj files hread {} rfl hrun
  have hfin' : finalResult O q { seen := ([] : List (List Value)), agg := st, numOut := 0 } = .ok r := hfin
  have hT : (runFilesT O qy [] false files {}).ls = afterLines {} st files.flatten.length := by
    rw [runFilesT_ls]; exact hls
  have hC : (runFilesT O qy [] false files {}).calls = [] := runFilesT_agg_calls O qy q hq [] files {}
  unfold runBatchT joinSetup runWithIndexT
  simp only [hj, hq, Bool.not_true, hT, hC]
  simp only [afterLines, hasFailed, hfin']
  simp

/-- **the k-th line, both cases, for what reaches the printer.** `runFollowAllT` over the first k delivered lines and
`runBatchT` over the same lines as one file; neither reports a failure; the GROUP BY keys seen are exact; no LIMIT, no
JOIN. The follow run over the first k−1 lines did not fail either, the batch run makes exactly one print call — its
final table `r` — and
* if the k-th line is shown (admitted, WHERE admits its row), the follow run's calls are those over the first k−1 lines
  followed by exactly that call: the screen it shows is the table of the batch run over the first k lines;
* otherwise the follow run makes no call for it, and the batch run over the first k−1 lines (which does not fail
  either) makes the same call `r`: the table is unchanged. -/
theorem followT_agg_step (O : Oracles) (qy : Query) (q : AggStmt) (hq : qy.stmt = .aggregate q) (hj : qy.join = none)
    (hlim : q.limit = none) (joined : Option (List FileLine)) (pre : List Line) (l : Line)
    (hf : hasFailed (runFollowAllT O qy none (pre ++ [l])).out = false)
    (hb : hasFailed (runBatchT O qy joined [asFile (pre ++ [l])]).out = false)
    (hex : KeysExact (groupKeysOf O q (followEnvs qy.table (pre ++ [l])))) :
    hasFailed (runFollowAllT O qy none pre).out = false ∧
    ∃ r, (runBatchT O qy joined [asFile (pre ++ [l])]).calls = [{ result := r, final := true }] ∧
      (lineShown O qy q l →
        (runFollowAllT O qy none (pre ++ [l])).calls =
          (runFollowAllT O qy none pre).calls ++ [{ result := r, final := true }]) ∧
      (¬ lineShown O qy q l →
        (runFollowAllT O qy none (pre ++ [l])).calls = (runFollowAllT O qy none pre).calls ∧
        (runBatchT O qy joined [asFile pre]).calls = [{ result := r, final := true }] ∧
        hasFailed (runBatchT O qy joined [asFile pre]).out = false) := by
  rw [runFollowAllT_out] at hf
  rw [Pipeline.runBatchT_nojoin O qy hj joined, Pipeline.runBatchT_some_out] at hb
  obtain ⟨st2, ts, hft⟩ := runFollowAll_agg_ok O qy q hq hj hlim _ hf
  obtain ⟨sb, r, hrun, hfin⟩ := runBatch_agg_ok O qy q hq hj [] _ (asFile_readable _) hb
  have hF := runFollowAllT_agg O qy q hq hj hlim _ hft
  have hB := runBatchT_agg O qy q hq hj joined [asFile (pre ++ [l])] (by simpa using asFile_readable _)
    (by simpa using hrun) hfin
  have hrun' : aggRun O q (followEnvs qy.table (pre ++ [l])) {} = .ok sb := hrun
  by_cases hadm : anyResult l.row = true
  · have he : followEnvs qy.table (pre ++ [l]) = followEnvs qy.table pre ++ [lineEnv qy.table l] := by
      rw [followEnvs_append, followEnvs_cons]
      simp [hadm, followEnvs, asFile, envsOf]
    rw [he] at hft hex hrun'
    obtain ⟨sf, ts0, hpre, hcase⟩ := followTables_snoc_batch hlim _ _ hft hrun' hfin hex
    have hFp := runFollowAllT_agg O qy q hq hj hlim pre hpre
    refine ⟨by rw [hFp]; rfl, r, by rw [hB], ?_, ?_⟩
    · intro hs
      rcases hcase with ⟨_, hts⟩ | ⟨hp, _, _⟩
      · rw [hF, hFp, hts]
        simp
      · rw [hs.2] at hp; cases hp
    · intro hns
      rcases hcase with ⟨hp, _⟩ | ⟨_, hts, hbp⟩
      · exact absurd ⟨hadm, hp⟩ hns
      · have hBp := runBatchT_agg O qy q hq hj joined [asFile pre] (by simpa using asFile_readable _)
          (by simpa [followEnvs] using hbp) hfin
        rw [hF, hFp, hBp, hts]
        exact ⟨rfl, rfl, rfl⟩
  · have he : followEnvs qy.table (pre ++ [l]) = followEnvs qy.table pre := by
      rw [followEnvs_append, followEnvs_cons]
      simp [hadm, followEnvs, asFile, envsOf]
    rw [he] at hft hrun'
    have hFp := runFollowAllT_agg O qy q hq hj hlim pre hft
    have hBp := runBatchT_agg O qy q hq hj joined [asFile pre] (by simpa using asFile_readable _)
      (by simpa [followEnvs] using hrun') hfin
    refine ⟨by rw [hFp]; rfl, r, by rw [hB], fun hs => absurd hs.1 hadm, fun _ => ?_⟩
    rw [hF, hFp, hBp]
    exact ⟨rfl, rfl, rfl⟩

end Sqlgrep
