#!/usr/bin/env python3
"""development aid: run `harness gen <ID> quick <seed>` and the driver, print the disagreements (no proofs, no evidence)
usage: tools/e2e_diff.py [ID=E2E] [seed=1] [max_shown=5]"""
import os, subprocess, sys, time, collections
ROOT = os.path.dirname(os.path.dirname(os.path.abspath(__file__)))
pid = sys.argv[1] if len(sys.argv) > 1 else "E2E"
seed = sys.argv[2] if len(sys.argv) > 2 else "1"
shown = int(sys.argv[3]) if len(sys.argv) > 3 else 5
out = os.path.join(ROOT, "build", "dev", f"{pid}-{seed}")
env = dict(os.environ, TZ="UTC", VERIF_TMP=os.path.join(ROOT, "build", "tmp"))
t0 = time.time()
subprocess.run([os.path.join(ROOT, "build/target/debug/harness"), "gen", pid, "quick", seed, out], check=True, env=env)
t1 = time.time()
cases = open(os.path.join(out, "cases.txt")).read().splitlines()
impl = open(os.path.join(out, "impl.txt")).read().splitlines()
descs = open(os.path.join(out, "descs.txt")).read().splitlines()
with open(os.path.join(out, "cases.txt"), "rb") as f:
    p = subprocess.run([os.path.join(ROOT, "lean/.lake/build/bin/driver")], stdin=f, stdout=subprocess.PIPE, env=env)
t2 = time.time()
model = p.stdout.decode("utf-8", "replace").splitlines()
e2e = [i for i, c in enumerate(cases) if c.startswith("e2e ")]
bad = [i for i in e2e if not model[i].startswith("skip") and model[i].split(" ## ")[0] != impl[i]]
skips = collections.Counter(model[i] for i in e2e if model[i].startswith("skip"))
three = [i for i in e2e if not model[i].startswith("skip") and len(model[i].split(" ## ")) >= 3]
specbad = [i for i in three if model[i].split(" ## ")[1] != impl[i]]
specclasses = collections.Counter(model[i].split(" ## ")[2] for i in specbad)
kinds = collections.Counter(impl[i].split(" ")[0] for i in e2e)
print(f"{pid} seed={seed}: {len(cases)} cases ({len(e2e)} e2e, {sum(len(cases[i]) for i in e2e)//1024} KiB), gen {t1-t0:.1f}s driver {t2-t1:.1f}s; e2e disagreements={len(bad)} skips={sum(skips.values())} {dict(skips)}")
print("  results:", dict(kinds))
print(f"  spec answered {len(three)} cases; implementation != spec on {len(specbad)} {dict(specclasses)}")
for i in [j for j in specbad if not model[j].split(" ## ")[2].startswith(("D10", "D15"))][:shown]:
    print("--- SPEC", descs[i][:700]); print("   impl :", impl[i][:400]); print("   spec :", model[i].split(" ## ")[1][:400], model[i].split(" ## ")[2])
for i in bad[:shown]:
    print("---", descs[i] if i < len(descs) else "")
    print("   impl :", impl[i][:600])
    print("   model:", model[i][:600])
sys.exit(1 if bad else 0)
