import SqlgrepModel.Lemmas.ParseLift
import SqlgrepModel.Lemmas.LexSemicolon
import SqlgrepModel.Lemmas.ParseRenameTree
import SqlgrepModel.Props.C20Parse
/-
C20 — whole statements (audit-2 M11). `Props/C20.lean` is the lexical half, `Props/C20Parse.lean` the parser-level
section (clause loop, trees); this file LIFTS the clause-order, trailing-semicolon and name-case theorems to whole
token vectors (`Parse.parseTokens PrecTables.code`), to the lowered statement (`Lower.lowerStatement`, i.e.
`Pipeline.parseToks` / `Pipeline.parseText`) and to the answer of the whole program (`Pipeline.runText`):

  "… in an optional trailing semicolon, or in the relative order of the JOIN / WHERE / GROUP BY / HAVING / LIMIT
   clauses [, in the letter case of function, aggregate and type names] parse to the SAME STATEMENT and therefore
   produce the SAME OUTPUT."

The common piece is `same_tree_same_statement`: SELECT trees that are the same up to token locations (what the
clause-level theorems conclude) have equal `eraseLoc`, and the lowering reads locations only into errors, so they
lower to EQUAL statements.
-/
namespace Sqlgrep.Props.C20Stmt
open Sqlgrep Sqlgrep.Parse Sqlgrep.Lower Sqlgrep.Pipeline

/-! ### trees equal up to locations lower to the same statement -/

/-- **`SameUpToLoc` trees lower to EQUAL statements**: SELECT trees that are the same up to token locations have equal
`eraseLoc`; the lowering of trees with equal `eraseLoc` is the same up to the location inside a conversion error; in
particular if one lowers to a statement the other lowers to that statement. -/
theorem same_tree_same_statement (rv : List Char → Bool) {q q' : PSelect} (h : q.SameUpToLoc q') :
    (POp.select q).eraseLoc = (POp.select q').eraseLoc ∧
    (lowerStatement rv (.select q)).mapErr CErr.strip = (lowerStatement rv (.select q')).mapErr CErr.strip ∧
    ∀ s, lowerStatement rv (.select q) = .ok s → lowerStatement rv (.select q') = .ok s :=
  ⟨sameUpToLoc_eraseLoc h, lowerStatement_of_eraseLoc_eq rv (sameUpToLoc_eraseLoc h),
   fun s => lowerStatement_of_sameUpToLoc rv h s⟩

/-- … for arbitrary trees (CREATE TABLE included): equal `eraseLoc` ⇒ the same lowering up to the error location -/
theorem lowering_depends_on_erased_tree (rv : List Char → Bool) {t₁ t₂ : POp} (h : t₁.eraseLoc = t₂.eraseLoc) :
    (lowerStatement rv t₁).mapErr CErr.strip = (lowerStatement rv t₂).mapErr CErr.strip ∧
    ∀ s, lowerStatement rv t₁ = .ok s → lowerStatement rv t₂ = .ok s :=
  ⟨lowerStatement_of_eraseLoc_eq rv h, fun s => lowerStatement_ok_of_eraseLoc_eq rv h s⟩

/-! ### (1) clause order -/

/-- **Clause order does not matter to the parse tree** — `clause_order_invariance_statement` (trees): let
`head ++ clauses₁ ++ end₁` be a token vector that `Parser::parse` reads as a SELECT tree, `head` without clause
keyword / `;` / `End`, `clauses₁` cut into clause-shaped segments, `end₁` either `End` or `;` `End`. Then for every
rearrangement `clauses₂` of the segments, either end `end₂`, and every relocation of all tokens (`head'` has the tokens
of `head`), `Parser::parse` reads `head' ++ clauses₂ ++ end₂` as a SELECT tree that is the same up to locations.
Side conditions, all about the FIRST vector only and discharged by its successful parse: that each segment is read
exactly as one clause, and that no clause kind occurs twice (a second WHERE is `AlreadyHaveWhere`, so the first vector
would not parse). `InertBoundary T` — the clause keywords, `;` and `End` have no operator precedence — holds for the
tables of the code (`inertBoundary_code`). -/
theorem clause_order_invariance_tree (head head' : List PTok) (segs₁ segs₂ : List (List PTok)) (end₁ end₂ : List PTok)
    (he₁ : IsEnd end₁) (he₂ : IsEnd end₂)
    (hnb : ∀ t ∈ head, ¬ Boundary t.tok) (hhead : head'.map (·.tok) = head.map (·.tok))
    (hshape : ClauseSegments segs₁)
    (hperm : (segs₁.map (fun seg => seg.map (·.tok))).Perm (segs₂.map (fun seg => seg.map (·.tok))))
    (q₁ : PSelect) (h : parseTokens PrecTables.code (head ++ segs₁.flatten ++ end₁) = .tree (.select q₁)) :
    ∃ q₂, parseTokens PrecTables.code (head' ++ segs₂.flatten ++ end₂) = .tree (.select q₂) ∧ q₁.SameUpToLoc q₂ ∧
      (POp.select q₁).eraseLoc = (POp.select q₂).eraseLoc := by
  obtain ⟨q₂, h₂, hs⟩ := select_clause_order_term inertBoundary_code head head' segs₁ segs₂ end₁ end₂ he₁.stmtEnd
    he₂.stmtEnd hnb hhead hshape.shape hperm q₁ h
  exact ⟨q₂, h₂, hs, sameUpToLoc_eraseLoc hs⟩

/-- **Clause order does not matter to the statement** — `clause_order_invariance_statement`: … hence the two token
vectors lower to the SAME `LStmt`: if `parsing::parse` (parser + lowering, `Pipeline.parseToks`) answers a statement on
the first vector, it answers that statement on the second. -/
theorem clause_order_invariance_statement (rv : List Char → Bool) (head head' : List PTok)
    (segs₁ segs₂ : List (List PTok)) (end₁ end₂ : List PTok) (he₁ : IsEnd end₁) (he₂ : IsEnd end₂)
    (hh : SelectHead head) (hhead : head'.map (·.tok) = head.map (·.tok)) (hshape : ClauseSegments segs₁)
    (hperm : (segs₁.map (fun seg => seg.map (·.tok))).Perm (segs₂.map (fun seg => seg.map (·.tok))))
    (s : LStmt) (h : parseToks rv (head ++ segs₁.flatten ++ end₁) = .stmt s) :
    parseToks rv (head' ++ segs₂.flatten ++ end₂) = .stmt s := by
  obtain ⟨t, ht, _⟩ := tree_of_parseToks_stmt h
  have hnb := hh.2
  obtain ⟨k, ks, rfl, hk⟩ := hh.cons
  obtain ⟨q₁, rfl⟩ := parseTokens_select_tree (ts := ks ++ segs₁.flatten ++ end₁) hk (by simpa using ht)
  obtain ⟨q₂, h₂, _, he⟩ := clause_order_invariance_tree (k :: ks) head' segs₁ segs₂ end₁ end₂ he₁ he₂ hnb hhead hshape
    hperm q₁ ht
  exact parseToks_stmt_of_sameTree rv ht h₂ he s h

/-- … for texts: two query texts whose token vectors are `head ++ clauses₁ ++ end₁` and `head' ++ clauses₂ ++ end₂`
as above parse to the same statement -/
theorem clause_order_invariance_text (o : Lex.Oracles) (rv : List Char → Bool) (text₁ text₂ : List Char)
    (head head' : List PTok) (segs₁ segs₂ : List (List PTok)) (end₁ end₂ : List PTok)
    (ht₁ : Lex.tokenize o text₁ = .ok (head ++ segs₁.flatten ++ end₁))
    (ht₂ : Lex.tokenize o text₂ = .ok (head' ++ segs₂.flatten ++ end₂))
    (he₁ : IsEnd end₁) (he₂ : IsEnd end₂)
    (hh : SelectHead head) (hhead : head'.map (·.tok) = head.map (·.tok)) (hshape : ClauseSegments segs₁)
    (hperm : (segs₁.map (fun seg => seg.map (·.tok))).Perm (segs₂.map (fun seg => seg.map (·.tok))))
    (s : LStmt) (h : parseText o rv text₁ = .stmt s) : parseText o rv text₂ = .stmt s := by
  unfold parseText at h ⊢
  rw [ht₁] at h
  rw [ht₂]
  exact clause_order_invariance_statement rv head head' segs₁ segs₂ end₁ end₂ he₁ he₂ hh hhead hshape hperm s h

/-- **… and therefore produce the same output**: the whole program (`Pipeline.runText`: definitions text, query text,
format, files ↦ printed records or error) answers the same on two query texts that differ in the order of their
clauses (and in layout, and in the optional `;`), on every input, format and state of the outside world -/
theorem clause_order_same_output (F : Facts) (defs text₁ text₂ : List Char) (fmt : Print.Format) (single : Bool)
    (files : List (List Nat)) (head head' : List PTok) (segs₁ segs₂ : List (List PTok)) (end₁ end₂ : List PTok)
    (ht₁ : Lex.tokenize (lexOracles F) text₁ = .ok (head ++ segs₁.flatten ++ end₁))
    (ht₂ : Lex.tokenize (lexOracles F) text₂ = .ok (head' ++ segs₂.flatten ++ end₂))
    (he₁ : IsEnd end₁) (he₂ : IsEnd end₂)
    (hh : SelectHead head) (hhead : head'.map (·.tok) = head.map (·.tok)) (hshape : ClauseSegments segs₁)
    (hperm : (segs₁.map (fun seg => seg.map (·.tok))).Perm (segs₂.map (fun seg => seg.map (·.tok))))
    (d q : LStmt)
    (hc₁ : classesCover F defs = true ∧ classesCover F text₁ = true) (hc₂ : classesCover F text₂ = true)
    (hd : parseText (lexOracles F) (regexValidFn F) defs = .stmt d)
    (hp : (createPatterns d).all (fun re => ((Utf8.decode re).bind (regexValidOf F)).isSome) = true)
    (hq : parseText (lexOracles F) (regexValidFn F) text₁ = .stmt q) :
    runText F defs text₁ fmt single files = runText F defs text₂ fmt single files :=
  Props.Pipeline.runText_depends_on_statements F defs defs text₁ text₂ fmt single files d q hc₁ ⟨hc₁.1, hc₂⟩ hd hd hp hq
    (clause_order_invariance_text _ _ text₁ text₂ head head' segs₁ segs₂ end₁ end₂ ht₁ ht₂ he₁ he₂ hh hhead hshape hperm q hq)

/-! ### (2) the optional trailing semicolon -/

/-- **Optional trailing semicolon, token vectors → statement**: let `pre` start with SELECT and contain neither `;`
nor `End`. `parsing::parse` answers a statement on `pre ++ [End]` iff it answers that statement on `pre ++ [;, End]`
(`trailing_semicolon_statement` composed with `same_tree_same_statement`). -/
theorem trailing_semicolon_lowered (rv : List Char → Bool) (pre : List PTok)
    (hsel : ∃ t ts, pre = t :: ts ∧ t.tok = .kw .select)
    (hpre : ∀ t ∈ pre, t.tok ≠ .semi ∧ t.tok ≠ .eof) (l0 l l' : Loc) (s : LStmt) :
    parseToks rv (pre ++ [⟨l0, .eof⟩]) = .stmt s ↔ parseToks rv (pre ++ [⟨l, .semi⟩, ⟨l', .eof⟩]) = .stmt s := by
  obtain ⟨k, ks, rfl, hk⟩ := hsel
  have hts := C20Parse.trailing_semicolon_statement PrecTables.code inertBoundary_code (k :: ks) hpre l0 l l'
  constructor
  · intro h
    obtain ⟨t, ht, _⟩ := tree_of_parseToks_stmt h
    obtain ⟨q, rfl⟩ := parseTokens_select_tree (ts := ks ++ [⟨l0, .eof⟩]) hk (by simpa using ht)
    obtain ⟨q', hq', hs⟩ := hts.1 q ht
    exact parseToks_stmt_of_sameTree rv ht hq' (sameUpToLoc_eraseLoc hs) s h
  · intro h
    obtain ⟨t, ht, _⟩ := tree_of_parseToks_stmt h
    obtain ⟨q, rfl⟩ := parseTokens_select_tree (ts := ks ++ [⟨l, .semi⟩, ⟨l', .eof⟩]) hk (by simpa using ht)
    obtain ⟨q', hq', hs⟩ := hts.2 q ht
    exact parseToks_stmt_of_sameTree rv ht hq' (sameUpToLoc_eraseLoc hs) s h

/-- what `tokenize_append_semi` gives, read through `parseText` -/
theorem parseText_of_semiAppended (o : Lex.Oracles) (rv : List Char → Bool) (q q' : List Char)
    (happ : Lex.SemiAppended (Lex.tokenize o q) (Lex.tokenize o q'))
    (init : List PTok) (last : PTok) (hq : Lex.tokenize o q = .ok (init ++ [last])) (hsel : SelectNoSemi init) (s : LStmt) :
    parseText o rv q = .stmt s ↔ parseText o rv q' = .stmt s := by
  obtain ⟨hlast, hne⟩ := Lex.tokenize_init_noEof o q init last hq
  unfold parseText
  generalize Lex.tokenize o q = r at happ hq
  generalize Lex.tokenize o q' = r' at happ
  cases happ with
  | same r => exact Iff.rfl
  | semi pre l0 l l' =>
    simp only [Lex.Result.ok.injEq] at hq
    obtain ⟨hpre, _⟩ := List.append_inj' hq rfl
    subst hpre
    exact trailing_semicolon_lowered rv pre hsel.cons (fun t ht => ⟨hsel.2 t ht, hne t ht⟩) l0 l l' s

/-- **Optional trailing semicolon, texts** — `trailing_semicolon_text`: for EVERY query text `q` whose tokens start
with SELECT and contain no `;`, the texts `q`, `q ++ ";"` and `q ++ " ;"` parse to the same statement
(`parsing::parse` answers a statement on one iff it answers that statement on the other).
Side conditions: SELECT — the `;` of a CREATE TABLE statement is not optional (`C20Parse`, example); no `;` among the
tokens of `q` — necessary: a text ending in `;;` is accepted (`SELECT x FROM t;;` is) while the same text with one more `;`
is `TooManyTokens` (example there). Nothing is assumed about how `q` ends: a `;` appended
behind a `--` comment or inside an unterminated string literal disappears in the tokenizer, and the theorem holds
there too (`Lex.tokenize_append_semi`). -/
theorem trailing_semicolon_text (o : Lex.Oracles) (rv : List Char → Bool) (q : List Char)
    (init : List PTok) (last : PTok) (hq : Lex.tokenize o q = .ok (init ++ [last])) (hsel : SelectNoSemi init) (s : LStmt) :
    (parseText o rv q = .stmt s ↔ parseText o rv (q ++ [';']) = .stmt s) ∧
    (parseText o rv q = .stmt s ↔ parseText o rv (q ++ [' ', ';']) = .stmt s) :=
  ⟨parseText_of_semiAppended o rv q _ (Lex.tokenize_append_semi o q) init last hq hsel s,
   parseText_of_semiAppended o rv q _ (Lex.tokenize_append_space_semi o q) init last hq hsel s⟩

/-- **… and therefore the same output**: the whole program answers the same on `q`, `q ++ ";"` and `q ++ " ;"` -/
theorem trailing_semicolon_same_output (F : Facts) (defs q : List Char) (fmt : Print.Format) (single : Bool)
    (files : List (List Nat)) (init : List PTok) (last : PTok)
    (hq : Lex.tokenize (lexOracles F) q = .ok (init ++ [last])) (hsel : SelectNoSemi init) (d s : LStmt)
    (hc : classesCover F defs = true ∧ classesCover F q = true)
    (hd : parseText (lexOracles F) (regexValidFn F) defs = .stmt d)
    (hp : (createPatterns d).all (fun re => ((Utf8.decode re).bind (regexValidOf F)).isSome) = true)
    (hs : parseText (lexOracles F) (regexValidFn F) q = .stmt s) :
    runText F defs q fmt single files = runText F defs (q ++ [';']) fmt single files ∧
    runText F defs q fmt single files = runText F defs (q ++ [' ', ';']) fmt single files := by
  have hts := trailing_semicolon_text (lexOracles F) (regexValidFn F) q init last hq hsel s
  have c1 : classesCover F (q ++ [';']) = true := by
    simp only [classesCover, List.all_append, Bool.and_eq_true] at hc ⊢
    exact ⟨hc.2, by simp⟩
  have c2 : classesCover F (q ++ [' ', ';']) = true := by
    simp only [classesCover, List.all_append, Bool.and_eq_true] at hc ⊢
    exact ⟨hc.2, by simp⟩
  exact ⟨Props.Pipeline.runText_depends_on_statements F defs defs q _ fmt single files d s hc ⟨hc.1, c1⟩ hd hd hp hs (hts.1.mp hs),
    Props.Pipeline.runText_depends_on_statements F defs defs q _ fmt single files d s hc ⟨hc.1, c2⟩ hd hd hp hs (hts.2.mp hs)⟩

/-! ### (3) letter case of function, aggregate and type names

FULL STATEMENT (what the sentence says): two texts that differ only in the letter case of function, aggregate and type
names parse to the same statement.
PROVED (`…_partial`), for SELECT statements: let `ρ` respell identifiers by a change of letter case (`NameMap ρ`: the
lower-cased word is the same; compatible with the `.` of qualified names; the two call names the parser makes up,
`create_array` and `timestamp_extract_<part>`, are fixed — every table of case changes of words with an upper-case
letter gives one, `nameMap_respell`). If the token vector `toks` starts with SELECT and is read as a tree all of whose
case-SENSITIVE names (column names, aliases, the table, the join's names) `ρ` fixes, then the vector with EVERY
identifier token `n` replaced by `ρ n` is read as that tree with its call names respelled, and lowers to the SAME
statement. That covers function names, aggregate names, the type names of casts `e::INT` (the parser looks a type up
lower-cased and stores the type, so the two trees are equal there), the word `array` of `array[…]` and the part of
`EXTRACT(part FROM e)`.
MISSING: one respelling for all tokens: a text that spells a column `COUNT` and the aggregate `COUNT(…)` and changes the
letter case of the second only is outside the side condition (`ρ` would have to fix and to change the word `COUNT`).
CREATE TABLE texts — the type names of column definitions, the pattern modes `split` / `match`, the column options — are
`Props/C20Create.lean` (per occurrence, proved outright: `create_table_name_case_tree / _statement / _text /
_same_output / _error_kind`). -/

/-- **Letter case of names, trees** (`name_case_tree_partial`): respelling every identifier token by `ρ` respells the
names of the tree; when `ρ` fixes the tree's case-sensitive names, only its call names -/
theorem name_case_tree_partial (ρ : List Char → List Char) (hρ : NameMap ρ) (toks : List PTok) (hs : SelectVector toks)
    (t : POp) (ht : parseTokens PrecTables.code toks = .tree t) :
    parseTokens PrecTables.code (toks.map (PTok.ren ρ)) = .tree (t.renAll ρ) ∧
    (t.namesFixed ρ = true → parseTokens PrecTables.code (toks.map (PTok.ren ρ)) = .tree (t.renameCalls ρ)) := by
  have h := parseTokens_select_ren hρ noIdentOps_code toks hs
  rw [ht] at h
  exact ⟨h, fun hf => by rw [h, ParseOutcome.ren, POp.renAll_of_fixed hf]⟩

/-- **Letter case of function, aggregate and type names, statements** (`name_case_statement_partial`): … and therefore
`parsing::parse` answers the SAME `LStmt` on the respelled vector -/
theorem name_case_statement_partial (rv : List Char → Bool) (ρ : List Char → List Char) (hρ : NameMap ρ)
    (toks : List PTok) (hs : SelectVector toks) (t : POp) (ht : parseTokens PrecTables.code toks = .tree t)
    (hfix : t.namesFixed ρ = true) (s : LStmt) (h : parseToks rv toks = .stmt s) :
    parseToks rv (toks.map (PTok.ren ρ)) = .stmt s := by
  have h2 := (name_case_tree_partial ρ hρ toks hs t ht).2 hfix
  unfold parseToks at h ⊢
  rw [ht] at h
  rw [h2]
  simp only [lowerTree] at h ⊢
  rw [C20Parse.names_case_insensitive_statement ρ hρ.caseOnly rv t]
  cases hl : lowerStatement rv t with
  | ok s' => rw [hl] at h; simp only [Parsed.stmt.injEq] at h; simp [LRes.mapErr, h]
  | err e => rw [hl] at h; cases h
  | panic e => rw [hl] at h; cases h

/-- **… texts** (`name_case_text_partial`): two texts whose token vectors carry the same tokens up to the respelling
(at any locations) parse to the same statement -/
theorem name_case_text_partial (o : Lex.Oracles) (rv : List Char → Bool) (ρ : List Char → List Char) (hρ : NameMap ρ)
    (text₁ text₂ : List Char) (ts₁ ts₂ : List PTok)
    (ht₁ : Lex.tokenize o text₁ = .ok ts₁) (ht₂ : Lex.tokenize o text₂ = .ok ts₂)
    (hren : ts₂.map (·.tok) = ts₁.map (fun t => t.tok.ren ρ)) (hs : SelectVector ts₁)
    (t : POp) (ht : parseTokens PrecTables.code ts₁ = .tree t) (hfix : t.namesFixed ρ = true)
    (s : LStmt) (h : parseText o rv text₁ = .stmt s) : parseText o rv text₂ = .stmt s := by
  unfold parseText at h ⊢
  rw [ht₁] at h
  rw [ht₂]
  have h1 := name_case_statement_partial rv ρ hρ ts₁ hs t ht hfix s h
  refine Props.Pipeline.location_blind rv (ts₁.map (PTok.ren ρ)) ts₂ ?_ s h1
  rw [hren, List.map_map]
  rfl

/-- **… and therefore the same output** -/
theorem name_case_same_output_partial (F : Facts) (ρ : List Char → List Char) (hρ : NameMap ρ)
    (defs text₁ text₂ : List Char) (fmt : Print.Format) (single : Bool) (files : List (List Nat)) (ts₁ ts₂ : List PTok)
    (ht₁ : Lex.tokenize (lexOracles F) text₁ = .ok ts₁) (ht₂ : Lex.tokenize (lexOracles F) text₂ = .ok ts₂)
    (hren : ts₂.map (·.tok) = ts₁.map (fun t => t.tok.ren ρ)) (hs : SelectVector ts₁)
    (t : POp) (ht : parseTokens PrecTables.code ts₁ = .tree t) (hfix : t.namesFixed ρ = true) (d q : LStmt)
    (hc₁ : classesCover F defs = true ∧ classesCover F text₁ = true) (hc₂ : classesCover F text₂ = true)
    (hd : parseText (lexOracles F) (regexValidFn F) defs = .stmt d)
    (hp : (createPatterns d).all (fun re => ((Utf8.decode re).bind (regexValidOf F)).isSome) = true)
    (hq : parseText (lexOracles F) (regexValidFn F) text₁ = .stmt q) :
    runText F defs text₁ fmt single files = runText F defs text₂ fmt single files :=
  Props.Pipeline.runText_depends_on_statements F defs defs text₁ text₂ fmt single files d q hc₁ ⟨hc₁.1, hc₂⟩ hd hd hp hq
    (name_case_text_partial _ _ ρ hρ text₁ text₂ ts₁ ts₂ ht₁ ht₂ hren hs t ht hfix q hq)

/-! ### non-vacuity: concrete texts (kernel-evaluated) -/

/-- the token vector of an ASCII text -/
def exToks (text : String) : List PTok :=
  match Lex.tokenize Lex.Tables.asciiOnly text.toList with
  | .ok ts => ts
  | _ => []

def isStmt : Parsed → Bool
  | .stmt _ => true
  | _ => false

def exQ1 : String := "SELECT x FROM t WHERE x > 1 LIMIT 2"
def exQ2 : String := "select x from t LIMIT 2 WHERE x > 1;"
/-- `SELECT x FROM t` · [`WHERE x > 1`, `LIMIT 2`] · `End` -/
def exHead1 : List PTok := (exToks exQ1).take 4
def exSegs1 : List (List PTok) := [((exToks exQ1).drop 4).take 4, ((exToks exQ1).drop 8).take 2]
def exEnd1 : List PTok := (exToks exQ1).drop 10
/-- `select x from t` · [`LIMIT 2`, `WHERE x > 1`] · `;` `End` -/
def exHead2 : List PTok := (exToks exQ2).take 4
def exSegs2 : List (List PTok) := [((exToks exQ2).drop 4).take 2, ((exToks exQ2).drop 6).take 4]
def exEnd2 : List PTok := (exToks exQ2).drop 10

/-- every hypothesis of `clause_order_invariance_text` holds on `SELECT x FROM t WHERE x > 1 LIMIT 2` against
`select x from t LIMIT 2 WHERE x > 1;` (other clause order, other keyword case, a trailing `;`): the token vectors are
head (4 tokens) ++ two clause segments ++ end, the segments are clause-shaped, the second vector's segments are a
rearrangement of the first's, and the first text parses to a statement -/
theorem exClauseOrderHyps :
    Lex.tokenize Lex.Tables.asciiOnly exQ1.toList = .ok (exHead1 ++ exSegs1.flatten ++ exEnd1) ∧
    Lex.tokenize Lex.Tables.asciiOnly exQ2.toList = .ok (exHead2 ++ exSegs2.flatten ++ exEnd2) ∧
    IsEnd exEnd1 ∧ IsEnd exEnd2 ∧ SelectHead exHead1 ∧ exHead2.map (·.tok) = exHead1.map (·.tok) ∧
    ClauseSegments exSegs1 ∧
    (exSegs1.map (fun seg => seg.map (·.tok))).Perm (exSegs2.map (fun seg => seg.map (·.tok))) ∧
    isStmt (parseText Lex.Tables.asciiOnly (fun _ => true) exQ1.toList) = true := by decide +kernel

/-- … so the theorem applies: whatever statement the first text parses to, the second parses to it -/
example (s : LStmt) (h : parseText Lex.Tables.asciiOnly (fun _ => true) exQ1.toList = .stmt s) :
    parseText Lex.Tables.asciiOnly (fun _ => true) exQ2.toList = .stmt s :=
  clause_order_invariance_text _ _ _ _ exHead1 exHead2 exSegs1 exSegs2 exEnd1 exEnd2 exClauseOrderHyps.1
    exClauseOrderHyps.2.1 exClauseOrderHyps.2.2.1 exClauseOrderHyps.2.2.2.1 exClauseOrderHyps.2.2.2.2.1
    exClauseOrderHyps.2.2.2.2.2.1 exClauseOrderHyps.2.2.2.2.2.2.1 exClauseOrderHyps.2.2.2.2.2.2.2.1 s h

/-- all five clauses in two orders (and with / without `;`), through the whole program: the same printed records -/
example :
    Props.Pipeline.recordsOf (runText Props.Pipeline.exFacts Props.Pipeline.exDefs
      "SELECT k, COUNT(*) FROM t WHERE v > 0 GROUP BY k HAVING COUNT(*) > 0 LIMIT 5".toList .text false [strBytes "a;1\nb;2\n"]) =
    Props.Pipeline.recordsOf (runText Props.Pipeline.exFacts Props.Pipeline.exDefs
      "SELECT k, COUNT(*) FROM t LIMIT 5 HAVING COUNT(*) > 0 GROUP BY k WHERE v > 0;".toList .text false [strBytes "a;1\nb;2\n"]) ∧
    (Props.Pipeline.recordsOf (runText Props.Pipeline.exFacts Props.Pipeline.exDefs
      "SELECT k, COUNT(*) FROM t WHERE v > 0 GROUP BY k HAVING COUNT(*) > 0 LIMIT 5".toList .text false [strBytes "a;1\nb;2\n"])).isSome = true := by
  decide +kernel

def exQ3 : String := "select COUNT(*) from t"

/-- every hypothesis of `trailing_semicolon_text` holds on `select COUNT(*) from t`: its tokens in front of `End` start
with SELECT and contain no `;`, and it parses to a statement -/
theorem exSemicolonHyps :
    Lex.tokenize Lex.Tables.asciiOnly exQ3.toList = .ok ((exToks exQ3).dropLast ++ [(exToks exQ3).getLast!]) ∧
    SelectNoSemi (exToks exQ3).dropLast ∧ isStmt (parseText Lex.Tables.asciiOnly (fun _ => true) exQ3.toList) = true := by
  decide +kernel

/-- … so the theorem applies: `select COUNT(*) from t;` and `select COUNT(*) from t ;` parse to the statement of
`select COUNT(*) from t` -/
example (s : LStmt) (h : parseText Lex.Tables.asciiOnly (fun _ => true) exQ3.toList = .stmt s) :
    parseText Lex.Tables.asciiOnly (fun _ => true) (exQ3.toList ++ [';']) = .stmt s ∧
    parseText Lex.Tables.asciiOnly (fun _ => true) (exQ3.toList ++ [' ', ';']) = .stmt s :=
  have t := trailing_semicolon_text Lex.Tables.asciiOnly (fun _ => true) exQ3.toList _ _ exSemicolonHyps.1 exSemicolonHyps.2.1 s
  ⟨t.1.mp h, t.2.mp h⟩

/-- with and without `;`, and with a `;` that falls into a `--` comment, through the whole program -/
example :
    Props.Pipeline.recordsOf (runText Props.Pipeline.exFacts Props.Pipeline.exDefs "select COUNT(*) from t".toList .json true [strBytes "a;1\nb;2\n"]) =
    Props.Pipeline.recordsOf (runText Props.Pipeline.exFacts Props.Pipeline.exDefs "select COUNT(*) from t;".toList .json true [strBytes "a;1\nb;2\n"]) ∧
    Props.Pipeline.recordsOf (runText Props.Pipeline.exFacts Props.Pipeline.exDefs "select COUNT(*) from t".toList .json true [strBytes "a;1\nb;2\n"]) =
    Props.Pipeline.recordsOf (runText Props.Pipeline.exFacts Props.Pipeline.exDefs "select COUNT(*) from t ;".toList .json true [strBytes "a;1\nb;2\n"]) ∧
    Props.Pipeline.recordsOf (runText Props.Pipeline.exFacts Props.Pipeline.exDefs "select COUNT(*) from t".toList .json true [strBytes "a;1\nb;2\n"]) =
    Props.Pipeline.recordsOf (runText Props.Pipeline.exFacts Props.Pipeline.exDefs "select COUNT(*) from t -- rows;".toList .json true [strBytes "a;1\nb;2\n"]) ∧
    (Props.Pipeline.recordsOf (runText Props.Pipeline.exFacts Props.Pipeline.exDefs "select COUNT(*) from t".toList .json true [strBytes "a;1\nb;2\n"])).isSome = true := by
  decide +kernel

def exQ4 : String := "select COUNT(*), Abs(x)::INT from t where X > 1"
def exQ5 : String := "SELECT count(*), abs(x)::int FROM t WHERE X > 1"
/-- `COUNT` ↦ `count`, `Abs` ↦ `abs`, `INT` ↦ `int`; the column `X` keeps its spelling -/
def exTable : List (List Char × List Char) :=
  [("COUNT".toList, "count".toList), ("Abs".toList, "abs".toList), ("INT".toList, "int".toList)]

def treeOf : ParseOutcome → Option POp
  | .tree t => some t
  | _ => none

/-- every hypothesis of `name_case_text_partial` holds on `select COUNT(*), Abs(x)::INT from t where X > 1` against
`SELECT count(*), abs(x)::int FROM t WHERE X > 1`: the table is a table of case changes, the second text's tokens are
the first's respelled, the first text starts with SELECT and parses to a tree whose case-sensitive names (`x`, `X`,
`t`) the respelling fixes, and to a statement -/
theorem exNameCaseHyps :
    RespellTable exTable = true ∧
    (exToks exQ5).map (·.tok) = (exToks exQ4).map (fun t => t.tok.ren (segwise (respell exTable))) ∧
    SelectVector (exToks exQ4) ∧
    ((treeOf (parseTokens PrecTables.code (exToks exQ4))).map (POp.namesFixed (segwise (respell exTable)))) = some true ∧
    Lex.tokenize Lex.Tables.asciiOnly exQ4.toList = .ok (exToks exQ4) ∧
    Lex.tokenize Lex.Tables.asciiOnly exQ5.toList = .ok (exToks exQ5) ∧
    isStmt (parseText Lex.Tables.asciiOnly (fun _ => true) exQ4.toList) = true := by decide +kernel

/-- … so the theorem applies: whatever statement the first text parses to, the second parses to it -/
example (s : LStmt) (h : parseText Lex.Tables.asciiOnly (fun _ => true) exQ4.toList = .stmt s) :
    parseText Lex.Tables.asciiOnly (fun _ => true) exQ5.toList = .stmt s := by
  obtain ⟨h1, h2, h3, h4, h5, h6, _⟩ := exNameCaseHyps
  cases ht : parseTokens PrecTables.code (exToks exQ4) with
  | tree t =>
    rw [ht] at h4
    simp only [treeOf, Option.map_some, Option.some.injEq] at h4
    exact name_case_text_partial _ _ _ (nameMap_respell exTable h1) _ _ _ _ h5 h6 h2 h3 t ht h4 s h
  | error e => rw [ht] at h4; cases h4
  | fuel => rw [ht] at h4; cases h4
  | panic => rw [ht] at h4; cases h4

/-- function, aggregate and cast-type names in two spellings, through the whole program: the same printed records -/
example :
    Props.Pipeline.recordsOf (runText Props.Pipeline.exFacts Props.Pipeline.exDefs
      "SELECT k, Abs(v)::TEXT FROM t WHERE Abs(v) > 0".toList .text false [strBytes "a;1\nb;2\n"]) =
    Props.Pipeline.recordsOf (runText Props.Pipeline.exFacts Props.Pipeline.exDefs
      "select k, ABS(v)::text from t where abs(v) > 0".toList .text false [strBytes "a;1\nb;2\n"]) ∧
    Props.Pipeline.recordsOf (runText Props.Pipeline.exFacts Props.Pipeline.exDefs
      "SELECT k, MAX(v), COUNT(*) FROM t GROUP BY k".toList .text false [strBytes "a;1\nb;2\n"]) =
    Props.Pipeline.recordsOf (runText Props.Pipeline.exFacts Props.Pipeline.exDefs
      "SELECT k, max(v), Count(*) FROM t GROUP BY k".toList .text false [strBytes "a;1\nb;2\n"]) ∧
    (Props.Pipeline.recordsOf (runText Props.Pipeline.exFacts Props.Pipeline.exDefs
      "SELECT k, Abs(v)::TEXT FROM t WHERE Abs(v) > 0".toList .text false [strBytes "a;1\nb;2\n"])).isSome = true ∧
    (Props.Pipeline.recordsOf (runText Props.Pipeline.exFacts Props.Pipeline.exDefs
      "SELECT k, MAX(v), COUNT(*) FROM t GROUP BY k".toList .text false [strBytes "a;1\nb;2\n"])).isSome = true := by
  decide +kernel

end Sqlgrep.Props.C20Stmt
