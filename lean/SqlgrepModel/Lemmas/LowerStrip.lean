import SqlgrepModel.Lemmas.LowerNames
import SqlgrepModel.Lemmas.ParseStripStmt
/-
The lowering reads a tree's locations only to put them into errors: lowering a tree with every location erased
gives the same statement, and the same error kind (at the default location).
`lowerStatement rv t.eraseLoc = (lowerStatement rv t).mapErr CErr.strip`.
-/
namespace Sqlgrep

def CErr.strip (e : CErr) : CErr := ⟨default, e.kind⟩

mutual
def Lower.XExpr.eraseLoc : Lower.XExpr → Lower.XExpr
  | .plain e => .plain e.eraseLoc
  | .hole => .hole
  | .binop _ o a b => .binop default o a.eraseLoc b.eraseLoc
  | .boolop o a b => .boolop o a.eraseLoc b.eraseLoc
  | .unop _ o e => .unop default o e.eraseLoc
  | .invert e => .invert e.eraseLoc
  | .nullcmp n a b => .nullcmp n a.eraseLoc b.eraseLoc
  | .index a i => .index a.eraseLoc i.eraseLoc
  | .cast e t => .cast e.eraseLoc t
  | .call _ n args => .call default n (Lower.XExpr.eraseLocList args)
def Lower.XExpr.eraseLocList : List Lower.XExpr → List Lower.XExpr
  | [] => []
  | x :: xs => x.eraseLoc :: Lower.XExpr.eraseLocList xs
end

def Lower.Extracted.eraseLoc : Lower.Extracted → Lower.Extracted
  | .column n => .column n
  | .call n args d => .call n (PExpr.eraseLoc.eraseLocs args) d

namespace Lower

theorem binop_erase (loc o l r) : lowerBinop default o l r = (lowerBinop loc o l r).mapErr CErr.strip := by
  unfold lowerBinop
  repeat' split
  all_goals rfl
theorem unop_erase (loc o e) : lowerUnop default o e = (lowerUnop loc o e).mapErr CErr.strip := by
  unfold lowerUnop; split <;> rfl
theorem call_erase (loc n a) : lowerCall default n a = (lowerCall loc n a).mapErr CErr.strip := by
  unfold lowerCall; split <;> rfl

theorem lowerPlain_erase :
    (∀ e, lowerPlain e.eraseLoc = (lowerPlain e).mapErr CErr.strip) ∧
    (∀ es, lowerPlainList (PExpr.eraseLoc.eraseLocs es) = (lowerPlainList es).mapErr CErr.strip) ∧
    (∀ cs, lowerPlainClauses (PExpr.eraseLoc.eraseLocClauses cs) = (lowerPlainClauses cs).mapErr CErr.strip) := by
  have hb := binop_erase
  have hu := unop_erase
  have hc := call_erase
  apply PExpr.induct3
  case value => intro l v; rw [PExpr.eraseLoc, lowerPlain, lowerPlain]; rfl
  case column => intro l n; rw [PExpr.eraseLoc, lowerPlain, lowerPlain]; rfl
  case wildcard => intro l; rw [PExpr.eraseLoc, lowerPlain, lowerPlain]; rfl
  case tuple => intro l vs _; rw [PExpr.eraseLoc, lowerPlain, lowerPlain]; rfl
  case binop =>
    intro l o a b iha ihb
    rw [PExpr.eraseLoc, lowerPlain, lowerPlain, iha, ihb]
    cases lowerPlain a <;> simp only [LRes.mapErr]
    cases lowerPlain b <;> first | exact hb _ _ _ _ | simp only [LRes.mapErr]
  case boolop =>
    intro l o a b iha ihb
    rw [PExpr.eraseLoc, lowerPlain, lowerPlain, iha, ihb]
    cases lowerPlain a <;> simp only [LRes.mapErr]
    cases lowerPlain b <;> simp only [LRes.mapErr]
  case nullcmp =>
    intro l o a b iha ihb
    rw [PExpr.eraseLoc, lowerPlain, lowerPlain, iha, ihb]
    cases lowerPlain a <;> simp only [LRes.mapErr]
    cases lowerPlain b <;> simp only [LRes.mapErr]
  case index =>
    intro l a b iha ihb
    rw [PExpr.eraseLoc, lowerPlain, lowerPlain, iha, ihb]
    cases lowerPlain a <;> simp only [LRes.mapErr]
    cases lowerPlain b <;> simp only [LRes.mapErr]
  case unop =>
    intro l o a iha
    rw [PExpr.eraseLoc, lowerPlain, lowerPlain, iha]
    cases lowerPlain a <;> first | exact hu _ _ _ | simp only [LRes.mapErr]
  case invert =>
    intro l a iha
    rw [PExpr.eraseLoc, lowerPlain, lowerPlain, iha]
    cases lowerPlain a <;> simp only [LRes.mapErr]
  case cast =>
    intro l a ty iha
    rw [PExpr.eraseLoc, lowerPlain, lowerPlain, iha]
    cases lowerPlain a <;> simp only [LRes.mapErr]
  case inList =>
    intro l n a vs iha ihvs
    rw [PExpr.eraseLoc, lowerPlain, lowerPlain, iha, ihvs]
    cases lowerPlain a <;> simp only [LRes.mapErr]
    cases lowerPlainList vs <;> simp only [LRes.mapErr]
  case call =>
    intro l n args d ihargs
    rw [PExpr.eraseLoc, lowerPlain, lowerPlain, ihargs]
    cases lowerPlainList args <;> first | exact hc _ _ _ | simp only [LRes.mapErr]
  case case =>
    intro l cs els ihcs ihels
    rw [PExpr.eraseLoc, lowerPlain, lowerPlain, ihcs, ihels]
    cases lowerPlainClauses cs <;> simp only [LRes.mapErr]
    cases lowerPlain els <;> simp only [LRes.mapErr]
  case nil => rw [PExpr.eraseLoc.eraseLocs, lowerPlainList]; rfl
  case cons =>
    intro x xs ihx ihxs
    rw [PExpr.eraseLoc.eraseLocs, lowerPlainList, lowerPlainList, ihx, ihxs]
    cases lowerPlain x <;> simp only [LRes.mapErr]
    cases lowerPlainList xs <;> simp only [LRes.mapErr]
  case cnil => rw [PExpr.eraseLoc.eraseLocClauses, lowerPlainClauses]; rfl
  case ccons =>
    intro c r xs ihc ihr ihxs
    rw [PExpr.eraseLoc.eraseLocClauses, lowerPlainClauses, lowerPlainClauses, ihc, ihr, ihxs]
    cases lowerPlain c <;> simp only [LRes.mapErr]
    cases lowerPlain r <;> simp only [LRes.mapErr]
    cases lowerPlainClauses xs <;> simp only [LRes.mapErr]

theorem countAggregates_erase :
    (∀ e, countAggregates (e.eraseLoc) = countAggregates e) ∧
    (∀ es, countAggregatesList (PExpr.eraseLoc.eraseLocs es) = countAggregatesList es) ∧
    (∀ cs, countAggregatesClauses (PExpr.eraseLoc.eraseLocClauses cs) = countAggregatesClauses cs) := by
  apply PExpr.induct3
  all_goals intros
  all_goals (first | rw [PExpr.eraseLoc] | rw [PExpr.eraseLoc.eraseLocs] | rw [PExpr.eraseLoc.eraseLocClauses])
  all_goals (simp only [countAggregates, countAggregatesList, countAggregatesClauses, *])

theorem holeOr_erase (b : Bool) (x : XExpr) : (holeOr b x).eraseLoc = holeOr b (x.eraseLoc) := by
  unfold holeOr; split <;> simp [XExpr.eraseLoc]

theorem firstSome_erase (a b : Option Extracted) :
    (firstSome a b).map (Extracted.eraseLoc) = firstSome (a.map (Extracted.eraseLoc)) (b.map (Extracted.eraseLoc)) := by
  unfold firstSome; cases a <;> simp

/-- `extract_aggregate` commutes with the respelling -/
theorem extractAggregate_erase :
    (∀ e, extractAggregate (e.eraseLoc) =
      ((extractAggregate e).1.map (Extracted.eraseLoc), (extractAggregate e).2.1, (extractAggregate e).2.2.eraseLoc)) ∧
    (∀ es acc, extractArgs (PExpr.eraseLoc.eraseLocs es) (acc.map (Extracted.eraseLoc)) =
      ((extractArgs es acc).1.map (Extracted.eraseLoc), XExpr.eraseLocList (extractArgs es acc).2)) ∧
    (∀ _cs : List (PExpr × PExpr), True) := by
  apply PExpr.induct3
  case cnil => trivial
  case ccons => intros; trivial
  case nil => intro acc; simp [PExpr.eraseLoc.eraseLocs, extractArgs, XExpr.eraseLocList]
  case cons =>
    intro x xs ihx ihxs acc
    rw [PExpr.eraseLoc.eraseLocs, extractArgs, extractArgs, ihx]
    dsimp only
    have := ihxs (if (extractAggregate x).1.isSome then (extractAggregate x).1 else acc)
    have hcond : (Option.map (Extracted.eraseLoc) (extractAggregate x).1).isSome = (extractAggregate x).1.isSome := by simp
    have harg : (if (Option.map (Extracted.eraseLoc) (extractAggregate x).1).isSome = true then Option.map (Extracted.eraseLoc) (extractAggregate x).1 else Option.map (Extracted.eraseLoc) acc)
        = Option.map (Extracted.eraseLoc) (if (extractAggregate x).1.isSome then (extractAggregate x).1 else acc) := by
      rw [hcond]; split <;> rfl
    rw [harg, this]
    simp [XExpr.eraseLocList, holeOr_erase]
  case call =>
    intro l n args d ih
    rw [PExpr.eraseLoc, extractAggregate, extractAggregate]
    split
    · simp [Extracted.eraseLoc, XExpr.eraseLoc, PExpr.eraseLoc]
    · have := ih none
      simp only [Option.map_none] at this
      simp [this, XExpr.eraseLoc]
  all_goals intros
  all_goals (rw [PExpr.eraseLoc])
  all_goals (first | rw [extractAggregate, extractAggregate] | rw [extractAggregate])
  all_goals (simp_all [XExpr.eraseLoc, Extracted.eraseLoc, holeOr_erase, firstSome_erase, PExpr.eraseLoc])




theorem lowerX_erase :
    ∀ x, lowerX (XExpr.eraseLoc x) = (lowerX x).mapErr (CErr.strip) := by
  have hp := lowerPlain_erase.1
  have hb := binop_erase
  have hu := unop_erase
  have hc := call_erase
  apply XExpr.rec (motive_1 := fun x => lowerX (XExpr.eraseLoc x) = (lowerX x).mapErr (CErr.strip))
    (motive_2 := fun xs => lowerXList (XExpr.eraseLocList xs) = (lowerXList xs).mapErr (CErr.strip))
  case plain => intro e; rw [XExpr.eraseLoc, lowerX, lowerX]; exact hp e
  case hole => rw [XExpr.eraseLoc, lowerX]; rfl
  case binop =>
    intro l o a b iha ihb
    rw [XExpr.eraseLoc, lowerX, lowerX, iha, ihb]
    cases lowerX a <;> simp only [LRes.mapErr]
    cases lowerX b <;> first | exact hb _ _ _ _ | simp only [LRes.mapErr]
  case boolop =>
    intro o a b iha ihb
    rw [XExpr.eraseLoc, lowerX, lowerX, iha, ihb]
    cases lowerX a <;> simp only [LRes.mapErr]
    cases lowerX b <;> simp only [LRes.mapErr]
  case unop =>
    intro l o a iha
    rw [XExpr.eraseLoc, lowerX, lowerX, iha]
    cases lowerX a <;> first | exact hu _ _ _ | simp only [LRes.mapErr]
  case invert =>
    intro a iha
    rw [XExpr.eraseLoc, lowerX, lowerX, iha]
    cases lowerX a <;> simp only [LRes.mapErr]
  case nullcmp =>
    intro n a b iha ihb
    rw [XExpr.eraseLoc, lowerX, lowerX, iha, ihb]
    cases lowerX a <;> simp only [LRes.mapErr]
    cases lowerX b <;> simp only [LRes.mapErr]
  case index =>
    intro a b iha ihb
    rw [XExpr.eraseLoc, lowerX, lowerX, iha, ihb]
    cases lowerX a <;> simp only [LRes.mapErr]
    cases lowerX b <;> simp only [LRes.mapErr]
  case cast =>
    intro a ty iha
    rw [XExpr.eraseLoc, lowerX, lowerX, iha]
    cases lowerX a <;> simp only [LRes.mapErr]
  case call =>
    intro l n args ih
    rw [XExpr.eraseLoc, lowerX, lowerX, ih]
    cases lowerXList args <;> first | exact hc _ _ _ | simp only [LRes.mapErr]
  case nil => rw [XExpr.eraseLocList, lowerXList]; rfl
  case cons =>
    intro x xs ihx ihxs
    rw [XExpr.eraseLocList, lowerXList, lowerXList, ihx, ihxs]
    cases lowerX x <;> simp only [LRes.mapErr]
    cases lowerXList xs <;> simp only [LRes.mapErr]

theorem eraseLocs_length : ∀ es : List PExpr, (PExpr.eraseLoc.eraseLocs es).length = es.length := by
  intro es; induction es with
  | nil => simp [PExpr.eraseLoc.eraseLocs]
  | cons x xs ih => simp [PExpr.eraseLoc.eraseLocs, ih]

theorem eraseLoc_loc (e : PExpr) : PExpr.loc e.eraseLoc = default := by
  cases e <;> simp [PExpr.eraseLoc, PExpr.loc]

/-- `transform_call_aggregate` on a respelled call with respelled arguments -/
theorem lowerCallAggregate_erase (loc n args d i) :
    lowerCallAggregate default n (PExpr.eraseLoc.eraseLocs args) d i
      = (lowerCallAggregate loc n args d i).mapErr (CErr.strip) := by
  have hp := lowerPlain_erase.1
  unfold lowerCallAggregate
  dsimp only
  by_cases h1 : str (lowerChars n) = "count"
  · simp only [h1, if_true]
    cases args with
    | nil => simp [PExpr.eraseLoc.eraseLocs, LRes.mapErr]
    | cons a0 rest =>
      cases rest with
      | nil =>
        simp only [PExpr.eraseLoc.eraseLocs, List.isEmpty_cons, Bool.false_eq_true, if_false, List.length_singleton, if_true,
          hp, eraseLoc_loc]
        cases lowerPlain a0 with
        | ok e => cases e <;> simp [LRes.mapErr, CErr.strip]
        | err e => simp [LRes.mapErr]
        | panic s => simp [LRes.mapErr]
      | cons a1 rest2 => simp [PExpr.eraseLoc.eraseLocs, LRes.mapErr, CErr.strip]
  · simp only [h1, if_false]
    by_cases h2 : aggregateNames.contains (str (lowerChars n)) = true
    · simp only [h2, if_true]
      cases args with
      | nil => simp [PExpr.eraseLoc.eraseLocs, LRes.mapErr, CErr.strip]
      | cons a0 rest =>
        cases rest with
        | nil =>
          simp only [PExpr.eraseLoc.eraseLocs, List.length_singleton, if_true, hp]
          cases lowerPlain a0 with
          | ok e => simp only [LRes.mapErr]; cases aggOfName1 (str (lowerChars n)) e <;> simp [LRes.mapErr, CErr.strip]
          | err e => simp [LRes.mapErr]
          | panic s => simp [LRes.mapErr]
        | cons a1 rest2 =>
          cases rest2 with
          | nil =>
            simp only [PExpr.eraseLoc.eraseLocs, List.length_cons, List.length_nil, hp]
            simp only [show (0 + 1 + 1 = 1) = False by simp, if_false, show (0 + 1 + 1 = 2) = True by simp, if_true]
            cases lowerPlain a0 with
            | ok e0 =>
              cases lowerPlain a1 with
              | ok e1 =>
                simp only [LRes.mapErr]
                by_cases hpct : str (lowerChars n) = "percentile"
                · simp only [hpct, if_true]; cases e1 with
                  | value v => cases v <;> simp [LRes.mapErr, CErr.strip]
                  | _ => simp [LRes.mapErr, CErr.strip]
                · simp only [hpct, if_false]
                  by_cases hsa : str (lowerChars n) = "string_agg"
                  · simp only [hsa, if_true]; cases e1 with
                    | value v => cases v <;> simp [LRes.mapErr, CErr.strip]
                    | _ => simp [LRes.mapErr, CErr.strip]
                  · simp [hsa, LRes.mapErr, CErr.strip]
              | err e => simp [LRes.mapErr]
              | panic s => simp [LRes.mapErr]
            | err e => simp [LRes.mapErr]
            | panic s => simp [LRes.mapErr]
          | cons a2 rest3 => simp [PExpr.eraseLoc.eraseLocs, LRes.mapErr, CErr.strip]
    · rw [if_neg h2, if_neg h2]; simp [LRes.mapErr, CErr.strip]


theorem lowerAggregate_erase (tree : PExpr) (i : Nat) :
    lowerAggregate (tree.eraseLoc) i = (lowerAggregate tree i).mapErr (CErr.strip) := by
  have hc := (countAggregates_erase).1 tree
  have hx := (extractAggregate_erase).1 tree
  have hp := lowerPlain_erase.1 tree
  unfold lowerAggregate
  simp only [hc, eraseLoc_loc, hx]
  by_cases h1 : countAggregates tree > 1
  · simp [h1, LRes.mapErr, CErr.strip]
  · simp only [h1, if_false]
    by_cases h2 : countAggregates tree > 0
    · simp only [h2, if_true]
      cases hex : (extractAggregate tree).1 with
      | none => simp [LRes.mapErr, CErr.strip]
      | some x =>
        cases x with
        | column c => simp [Extracted.eraseLoc, LRes.mapErr, CErr.strip]
        | call name args d =>
          simp only [Option.map_some, Extracted.eraseLoc, lowerCallAggregate_erase (PExpr.loc tree), lowerX_erase]
          cases lowerCallAggregate (PExpr.loc tree) name args d i with
          | ok r =>
            simp only [LRes.mapErr]
            cases (extractAggregate tree).2.1 with
            | true => simp
            | false => simp only [Bool.false_eq_true, if_false]; cases lowerX (extractAggregate tree).2.2 <;> simp [LRes.mapErr]
          | err e => simp [LRes.mapErr]
          | panic s => simp [LRes.mapErr]
    · simp only [h2, if_false, hp]
      cases lowerPlain tree <;> simp [LRes.mapErr]

theorem lowerHaving_erase :
    (∀ e st, lowerHaving (e.eraseLoc) st = (lowerHaving e st).mapErr (CErr.strip)) ∧
    (∀ es st, lowerHavingList (PExpr.eraseLoc.eraseLocs es) st = (lowerHavingList es st).mapErr (CErr.strip)) ∧
    (∀ cs st, lowerHavingClauses (PExpr.eraseLoc.eraseLocClauses cs) st = (lowerHavingClauses cs st).mapErr (CErr.strip)) := by
  have hb := binop_erase
  have hu := unop_erase
  have hc := call_erase
  have hca := lowerCallAggregate_erase
  apply PExpr.induct3
  case value => intro l v st; rw [PExpr.eraseLoc, lowerHaving]; rfl
  case column => intro l n st; rw [PExpr.eraseLoc, lowerHaving]; rfl
  case wildcard => intro l st; rw [PExpr.eraseLoc, lowerHaving]; rfl
  case tuple => intro l vs _ st; rw [PExpr.eraseLoc, lowerHaving, lowerHaving]; rfl
  case binop =>
    intro l o a b iha ihb st
    rw [PExpr.eraseLoc, lowerHaving, lowerHaving, iha]
    cases lowerHaving a st with
    | ok r => obtain ⟨a', st1⟩ := r; simp only [LRes.mapErr]; rw [ihb]
              cases lowerHaving b st1 with
              | ok r2 => obtain ⟨b', st2⟩ := r2; simp only [LRes.mapErr]
                         have := hb l o a' b'
                         cases hlb : lowerBinop l o a' b' <;> simp_all [LRes.mapErr]
              | err e => simp [LRes.mapErr]
              | panic s => simp [LRes.mapErr]
    | err e => simp [LRes.mapErr]
    | panic s => simp [LRes.mapErr]
  case boolop =>
    intro l o a b iha ihb st
    rw [PExpr.eraseLoc, lowerHaving, lowerHaving, iha]
    cases lowerHaving a st with
    | ok r => obtain ⟨a', st1⟩ := r; simp only [LRes.mapErr]; rw [ihb]
              cases lowerHaving b st1 with
              | ok r2 => obtain ⟨b', st2⟩ := r2; simp [LRes.mapErr]
              | err e => simp [LRes.mapErr]
              | panic s => simp [LRes.mapErr]
    | err e => simp [LRes.mapErr]
    | panic s => simp [LRes.mapErr]
  case nullcmp =>
    intro l o a b iha ihb st
    rw [PExpr.eraseLoc, lowerHaving, lowerHaving, iha]
    cases lowerHaving a st with
    | ok r => obtain ⟨a', st1⟩ := r; simp only [LRes.mapErr]; rw [ihb]
              cases lowerHaving b st1 with
              | ok r2 => obtain ⟨b', st2⟩ := r2; simp [LRes.mapErr]
              | err e => simp [LRes.mapErr]
              | panic s => simp [LRes.mapErr]
    | err e => simp [LRes.mapErr]
    | panic s => simp [LRes.mapErr]
  case index =>
    intro l a b iha ihb st
    rw [PExpr.eraseLoc, lowerHaving, lowerHaving, iha]
    cases lowerHaving a st with
    | ok r => obtain ⟨a', st1⟩ := r; simp only [LRes.mapErr]; rw [ihb]
              cases lowerHaving b st1 with
              | ok r2 => obtain ⟨b', st2⟩ := r2; simp [LRes.mapErr]
              | err e => simp [LRes.mapErr]
              | panic s => simp [LRes.mapErr]
    | err e => simp [LRes.mapErr]
    | panic s => simp [LRes.mapErr]
  case unop =>
    intro l o a iha st
    rw [PExpr.eraseLoc, lowerHaving, lowerHaving, iha]
    cases lowerHaving a st with
    | ok r => obtain ⟨a', st1⟩ := r; simp only [LRes.mapErr]
              have := hu l o a'
              cases hlu : lowerUnop l o a' <;> simp_all [LRes.mapErr]
    | err e => simp [LRes.mapErr]
    | panic s => simp [LRes.mapErr]
  case invert =>
    intro l a iha st
    rw [PExpr.eraseLoc, lowerHaving, lowerHaving, iha]
    cases lowerHaving a st with
    | ok r => obtain ⟨a', st1⟩ := r; simp [LRes.mapErr]
    | err e => simp [LRes.mapErr]
    | panic s => simp [LRes.mapErr]
  case cast =>
    intro l a ty iha st
    rw [PExpr.eraseLoc, lowerHaving, lowerHaving, iha]
    cases lowerHaving a st with
    | ok r => obtain ⟨a', st1⟩ := r; simp [LRes.mapErr]
    | err e => simp [LRes.mapErr]
    | panic s => simp [LRes.mapErr]
  case inList =>
    intro l n a vs iha ihvs st
    rw [PExpr.eraseLoc, lowerHaving, lowerHaving, iha]
    cases lowerHaving a st with
    | ok r => obtain ⟨a', st1⟩ := r; simp only [LRes.mapErr]; rw [ihvs]
              cases lowerHavingList vs st1 with
              | ok r2 => obtain ⟨b', st2⟩ := r2; simp [LRes.mapErr]
              | err e => simp [LRes.mapErr]
              | panic s => simp [LRes.mapErr]
    | err e => simp [LRes.mapErr]
    | panic s => simp [LRes.mapErr]
  case call =>
    intro l n args d ihargs st
    rw [PExpr.eraseLoc, lowerHaving, lowerHaving, hca]
    cases hagg : lowerCallAggregate l n args d 0 with
    | ok r => obtain ⟨nm, k⟩ := r; simp [LRes.mapErr]
    | panic s => simp [LRes.mapErr]
    | err e =>
      simp only [LRes.mapErr]
      have hk : (CErr.strip e).kind = .undefinedAggregate ↔ e.kind = .undefinedAggregate := by
        unfold CErr.strip; cases hke : e.kind <;> simp_all
      by_cases hua : e.kind = .undefinedAggregate
      · have hua' : (CErr.strip e).kind = .undefinedAggregate := hk.mpr hua
        simp only [hua, hua', ne_eq, not_true_eq_false, if_false]
        rw [ihargs]
        cases lowerHavingList args st with
        | ok r2 => obtain ⟨b', st2⟩ := r2; simp only [LRes.mapErr]
                   have := hc l n b'
                   cases hlc : lowerCall l n b' <;> simp_all [LRes.mapErr]
        | err e => simp [LRes.mapErr]
        | panic s => simp [LRes.mapErr]
      · have hua' : ¬(CErr.strip e).kind = .undefinedAggregate := fun h => hua (hk.mp h)
        simp [hua, hua', LRes.mapErr]
  case case =>
    intro l cs els ihcs ihels st
    rw [PExpr.eraseLoc, lowerHaving, lowerHaving, ihcs]
    cases lowerHavingClauses cs st with
    | ok r => obtain ⟨a', st1⟩ := r; simp only [LRes.mapErr]; rw [ihels]
              cases lowerHaving els st1 with
              | ok r2 => obtain ⟨b', st2⟩ := r2; simp [LRes.mapErr]
              | err e => simp [LRes.mapErr]
              | panic s => simp [LRes.mapErr]
    | err e => simp [LRes.mapErr]
    | panic s => simp [LRes.mapErr]
  case nil => intro st; rw [PExpr.eraseLoc.eraseLocs, lowerHavingList]; rfl
  case cons =>
    intro x xs ihx ihxs st
    rw [PExpr.eraseLoc.eraseLocs, lowerHavingList, lowerHavingList, ihx]
    cases lowerHaving x st with
    | ok r => obtain ⟨a', st1⟩ := r; simp only [LRes.mapErr]; rw [ihxs]
              cases lowerHavingList xs st1 with
              | ok r2 => obtain ⟨b', st2⟩ := r2; simp [LRes.mapErr]
              | err e => simp [LRes.mapErr]
              | panic s => simp [LRes.mapErr]
    | err e => simp [LRes.mapErr]
    | panic s => simp [LRes.mapErr]
  case cnil => intro st; rw [PExpr.eraseLoc.eraseLocClauses, lowerHavingClauses]; rfl
  case ccons =>
    intro c r xs ihc ihr ihxs st
    rw [PExpr.eraseLoc.eraseLocClauses, lowerHavingClauses, lowerHavingClauses, ihc]
    cases lowerHaving c st with
    | ok r1 => obtain ⟨a', st1⟩ := r1; simp only [LRes.mapErr]; rw [ihr]
               cases lowerHaving r st1 with
               | ok r2 => obtain ⟨b', st2⟩ := r2; simp only [LRes.mapErr]; rw [ihxs]
                          cases lowerHavingClauses xs st2 with
                          | ok r3 => obtain ⟨c', st3⟩ := r3; simp [LRes.mapErr]
                          | err e => simp [LRes.mapErr]
                          | panic s => simp [LRes.mapErr]
               | err e => simp [LRes.mapErr]
               | panic s => simp [LRes.mapErr]
    | err e => simp [LRes.mapErr]
    | panic s => simp [LRes.mapErr]




end Lower

def PSelect.eraseLoc (q : PSelect) : PSelect :=
  { q with loc := default, projections := eraseProj q.projections, filter := q.filter.map PExpr.eraseLoc,
           groupBy := q.groupBy.map PExpr.eraseLoc.eraseLocs, having := q.having.map PExpr.eraseLoc }

theorem POp.eraseLoc_select (q : PSelect) : (POp.select q).eraseLoc = .select q.eraseLoc := rfl

namespace Lower

theorem lowerOpt_erase (o : Option PExpr) :
    lowerOpt lowerPlain (o.map PExpr.eraseLoc) = (lowerOpt lowerPlain o).mapErr CErr.strip := by
  cases o with
  | none => rfl
  | some e => simp only [Option.map_some, lowerOpt, lowerPlain_erase.1]; cases lowerPlain e <;> rfl

theorem lowerHavingOpt_erase (o : Option PExpr) :
    lowerHavingOpt (o.map PExpr.eraseLoc) = (lowerHavingOpt o).mapErr CErr.strip := by
  cases o with
  | none => rfl
  | some e => simp only [Option.map_some, lowerHavingOpt, lowerHaving_erase.1]; cases lowerHaving e {} <;> rfl

theorem lowerGroupBy_erase (o : Option (List PExpr)) :
    lowerGroupBy (o.map PExpr.eraseLoc.eraseLocs) = (lowerGroupBy o).mapErr CErr.strip := by
  cases o with
  | none => rfl
  | some es => simp only [Option.map_some, lowerGroupBy, lowerPlain_erase.2.1]; cases lowerPlainList es <;> rfl

theorem lowerProjections_erase : ∀ (ps : List (Option (List Char) × PExpr)) (i : Nat),
    lowerProjections (eraseProj ps) i = (lowerProjections ps i).mapErr CErr.strip := by
  intro ps
  induction ps with
  | nil => intro i; rfl
  | cons p rest ih =>
    intro i
    obtain ⟨name, tree⟩ := p
    have ih' := ih (i + 1)
    unfold eraseProj at ih' ⊢
    simp only [List.map_cons, lowerProjections, lowerPlain_erase.1, ih']
    cases lowerPlain tree with
    | ok e => simp only [LRes.mapErr]; cases lowerProjections rest (i + 1) <;> rfl
    | err e => rfl
    | panic s => rfl

theorem lowerItems_erase : ∀ (ps : List (Option (List Char) × PExpr)) (i : Nat),
    lowerItems (eraseProj ps) i = (lowerItems ps i).mapErr CErr.strip := by
  intro ps
  induction ps with
  | nil => intro i; rfl
  | cons p rest ih =>
    intro i
    obtain ⟨name, tree⟩ := p
    have ih' := ih (i + 1)
    unfold eraseProj at ih' ⊢
    simp only [List.map_cons, lowerItems, lowerAggregate_erase, ih']
    cases lowerAggregate tree i with
    | ok r => obtain ⟨dn, k, tr⟩ := r; simp only [LRes.mapErr]; cases lowerItems rest (i + 1) <;> rfl
    | err e => rfl
    | panic s => rfl

theorem join_erase (loc f j) : lowerJoin default f j = (lowerJoin loc f j).mapErr CErr.strip := by
  unfold lowerJoin
  repeat' split
  all_goals rfl

theorem anyAggregates_erase (ps : List (Option (List Char) × PExpr)) : anyAggregates (eraseProj ps) = anyAggregates ps := by
  unfold anyAggregates eraseProj
  simp [List.any_map, Function.comp_def, countAggregates_erase.1]

theorem lowerSelect_erase (q : PSelect) : lowerSelect q.eraseLoc = (lowerSelect q).mapErr CErr.strip := by
  unfold lowerSelect
  simp only [PSelect.eraseLoc, lowerProjections_erase, lowerOpt_erase, join_erase q.loc]
  cases lowerProjections q.projections 0 with
  | ok ps =>
    simp only [LRes.mapErr]
    cases lowerOpt lowerPlain q.filter with
    | ok f => simp only [LRes.mapErr]; cases lowerJoin q.loc q.fromTable q.join <;> rfl
    | err e => rfl
    | panic s => rfl
  | err e => rfl
  | panic s => rfl

theorem lowerAggregateStmt_erase (q : PSelect) :
    lowerAggregateStmt q.eraseLoc = (lowerAggregateStmt q).mapErr CErr.strip := by
  unfold lowerAggregateStmt
  simp only [PSelect.eraseLoc, lowerItems_erase, lowerOpt_erase, lowerHavingOpt_erase, lowerGroupBy_erase, join_erase q.loc]
  cases lowerItems q.projections 0 with
  | ok items =>
    simp only [LRes.mapErr]
    cases lowerOpt lowerPlain q.filter with
    | ok f =>
      simp only [LRes.mapErr]
      cases lowerHavingOpt q.having with
      | ok h =>
        simp only [LRes.mapErr]
        cases lowerJoin q.loc q.fromTable q.join with
        | ok j => simp only [LRes.mapErr]; cases lowerGroupBy q.groupBy <;> rfl
        | err e => rfl
        | panic s => rfl
      | err e => rfl
      | panic s => rfl
    | err e => rfl
    | panic s => rfl
  | err e => rfl
  | panic s => rfl

theorem lowerCreate_erase (rv : List Char → Bool) (c : PCreate) :
    lowerCreate rv c.eraseLoc = (lowerCreate rv c).mapErr CErr.strip := by
  unfold lowerCreate
  simp only [PCreate.eraseLoc]
  cases hcols : lowerColumns c.columns with
  | ok cols =>
    simp only []
    by_cases hv : (c.patterns.all fun p => rv p.2.1) = true
    · simp only [hv, if_true]; rfl
    · simp only [hv]; rfl
  | err e => exact absurd hcols (lowerColumns_noErr _ _)
  | panic s => rfl

theorem lowerCreates_erase (rv : List Char → Bool) : ∀ cs : List PCreate,
    lowerCreates rv (cs.map PCreate.eraseLoc) = (lowerCreates rv cs).mapErr CErr.strip := by
  intro cs
  induction cs with
  | nil => rfl
  | cons c rest ih =>
    simp only [List.map_cons, lowerCreates, lowerCreate_erase, ih]
    cases lowerCreate rv c with
    | ok s => simp only [LRes.mapErr]; cases lowerCreates rv rest <;> rfl
    | err e => rfl
    | panic s => rfl

/-- **the lowering reads a tree's locations only into errors** -/
theorem lowerStatement_erase (rv : List Char → Bool) (t : POp) :
    lowerStatement rv t.eraseLoc = (lowerStatement rv t).mapErr CErr.strip := by
  cases t with
  | select q =>
    rw [POp.eraseLoc_select]
    simp only [lowerStatement]
    have hg : q.eraseLoc.groupBy.isSome = q.groupBy.isSome := by simp [PSelect.eraseLoc]
    have hh : q.eraseLoc.having.isSome = q.having.isSome := by simp [PSelect.eraseLoc]
    have ha : anyAggregates q.eraseLoc.projections = anyAggregates q.projections := anyAggregates_erase _
    simp only [hg, hh, ha, lowerSelect_erase, lowerAggregateStmt_erase]
    repeat' split
    all_goals rfl
  | createTable c => simp only [POp.eraseLoc, lowerStatement]; exact lowerCreate_erase rv c
  | multiple cs =>
    simp only [POp.eraseLoc, lowerStatement, lowerCreates_erase]
    cases lowerCreates rv cs <;> rfl

end Lower
end Sqlgrep
