import SqlgrepModel.Drivers.C16
import SqlgrepModel.Drivers.Eval
import SqlgrepModel.Drivers.Run
import SqlgrepModel.Drivers.Reader
import SqlgrepModel.Drivers.Print
import SqlgrepModel.Drivers.Extract
import SqlgrepModel.Drivers.Join
import SqlgrepModel.Drivers.Lex
import SqlgrepModel.Drivers.ParseStmt
import SqlgrepModel.Drivers.ParseExpr
import SqlgrepModel.Drivers.Pipeline
import SqlgrepModel.Drivers.JsonText
import SqlgrepModel.Drivers.F64Parse
import SqlgrepModel.Drivers.FactCheck
import SqlgrepModel.Drivers.JsonDocD
/- Line protocol driver: `<kind> <payload…>` per line in, one answer line out. -/
open Sqlgrep

def dispatch (line : String) : String :=
  match Sexp.parseAll line with
  | some (.atom kind :: args) =>
    -- shipped library facts are first compared with what the Lean model predicts (Drivers/FactCheck.lean)
    match Drivers.FactCheck.check kind args with
    | some mismatch => mismatch
    | none =>
    match kind with
    | "cmp3" => Drivers.C16.handle args
    | "cmpir" => Drivers.C16.handleCmpir args
    | "eval" => Drivers.Eval.handle args
    | "batch" => Drivers.Run.handleBatch args
    | "incr" => Drivers.Run.handleIncr args
    | "follow" => Drivers.Reader.handleFollow args
    | "followd" => Drivers.Reader.handleFollowDelivered args
    | "lines" => Drivers.Reader.handleLines true args
    | "linecount" => Drivers.Reader.handleLines false args
    | "joinlines" => Drivers.Reader.handleJoin args
    | "print" => Drivers.Print.handle args
    | "extract" => Drivers.Extract.handle args
    | "join" => Drivers.Join.handleJoin args
    | "intr" => Drivers.Join.handleIntr args
    | "followi" => Drivers.Join.handleFollowI args
    | "onres" => Drivers.Join.handleOnRes args
    | "tok" => Drivers.Lex.handleTok args
    | "near" => Drivers.Lex.handleNear args
    | "pstmt" => Drivers.ParseStmt.handle args
    | "stmt" => Drivers.ParseStmt.handleStmt args
    | "pexpr" => Drivers.ParseExpr.handle args
    | "e2e" => Drivers.Pipeline.handle args
    | "e2ef" => Drivers.Pipeline.handleFollow args
    | "jsontext" => Drivers.JsonText.handle args
    | "f64parse" => Drivers.F64Parse.handle args
    | "f64arith" => Drivers.F64Arith.handle args
    | "jsondoc" => Drivers.JsonDocD.handle args
    | _ => "unknown-kind"
  | _ => "bad-line"

partial def loop (h : IO.FS.Stream) (out : IO.FS.Stream) : IO Unit := do
  let line ← h.getLine
  if line.isEmpty then return ()
  out.putStrLn (dispatch line)
  loop h out

def main : IO Unit := do
  let stdin ← IO.getStdin
  let stdout ← IO.getStdout
  loop stdin stdout
