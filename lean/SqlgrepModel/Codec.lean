import SqlgrepModel.Sexp
import SqlgrepModel.Model.Value
/- Decoding/encoding of model values on the wire. -/
namespace Sqlgrep
open Sexp

def VType.ofSexp : Sexp → Option VType
  | .atom "int" => some .int
  | .atom "real" => some .real
  | .atom "bool" => some .bool
  | .atom "text" => some .text
  | .atom "timestamp" => some .timestamp
  | .atom "interval" => some .interval
  | .list [.atom "arr", e] => (VType.ofSexp e).map .array
  | _ => none

def VType.toWire : VType → String
  | .int => "int" | .real => "real" | .bool => "bool" | .text => "text"
  | .timestamp => "timestamp" | .interval => "interval"
  | .array e => "(arr " ++ e.toWire ++ ")"

mutual
def Value.ofSexp : Sexp → Option Value
  | .list [.atom "null"] => some .null
  | .list [.atom "int", i] => i.int?.map .int
  | .list [.atom "real", b] => b.nat?.map .real
  | .list [.atom "bool", b] => b.nat?.map (fun n => .bool (n != 0))
  | .list [.atom "text", b] => b.bytes?.map .text
  | .list (.atom "array" :: t :: xs) => do
      let t ← VType.ofSexp t
      let xs ← Value.ofSexps xs
      pure (.array t xs)
  | .list [.atom "ts", d, s, f] => do
      pure (.timestamp (← d.int?) (← s.int?) (← f.int?))
  | .list [.atom "iv", n] => n.int?.map .interval
  | _ => none
def Value.ofSexps : List Sexp → Option (List Value)
  | [] => some []
  | x :: xs => do
      let v ← Value.ofSexp x
      let vs ← Value.ofSexps xs
      pure (v :: vs)
end

mutual
def Value.toWire : Value → String
  | .null => "(null)"
  | .int i => "(int " ++ toString i ++ ")"
  | .real b => "(real " ++ toString b ++ ")"
  | .bool b => "(bool " ++ (if b then "1" else "0") ++ ")"
  | .text s => "(text " ++ Sexp.showBytes s ++ ")"
  | .array t xs => "(array " ++ t.toWire ++ Value.toWires xs ++ ")"
  | .timestamp d s f => "(ts " ++ toString d ++ " " ++ toString s ++ " " ++ toString f ++ ")"
  | .interval n => "(iv " ++ toString n ++ ")"
def Value.toWires : List Value → String
  | [] => ""
  | x :: xs => " " ++ Value.toWire x ++ Value.toWires xs
end

def Value.rowToWire (vs : List Value) : String :=
  "(" ++ " ".intercalate (vs.map Value.toWire) ++ ")"

def showOrdering : Ordering → String
  | .lt => "lt" | .eq => "eq" | .gt => "gt"

end Sqlgrep
