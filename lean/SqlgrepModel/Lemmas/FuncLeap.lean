import SqlgrepModel.Lemmas.FuncTime
/-
Timestamps in chrono's leap-second representation (nanosecond field in [10⁹, 2·10⁹): second `:60`) under the
evaluator's arithmetic: `tsShift` (timestamp ± interval, chrono `NaiveTime::overflowing_add_signed`), `tsDiff`
(`signed_duration_since`), `stampNs` / `dateTrunc` (`duration_trunc`).
-/
namespace Sqlgrep

/-- second of day in range, nanoseconds in the leap-second representation -/
def TsLeap (s f : Int) : Prop := 0 ≤ s ∧ s < 86400 ∧ 1000000000 ≤ f ∧ f < 2000000000

theorem tdiv_tmod_nonneg (n : Int) (h : 0 ≤ n) : Int.tdiv n 1000000000 = n / 1000000000 ∧ Int.tmod n 1000000000 = n % 1000000000 :=
  ⟨Int.tdiv_eq_ediv_of_nonneg h, Int.tmod_eq_emod_of_nonneg h⟩

theorem tdiv_tmod_neg (n : Int) (h : n ≤ 0) :
    Int.tdiv n 1000000000 = -((-n) / 1000000000) ∧ Int.tmod n 1000000000 = -((-n) % 1000000000) := by
  have h1 := Int.neg_tdiv (a := -n) (b := 1000000000)
  have h2 := Int.neg_tmod (a := -n) (b := 1000000000)
  rw [Int.neg_neg] at h1 h2
  rw [h1, h2, Int.tdiv_eq_ediv_of_nonneg (by omega), Int.tmod_eq_emod_of_nonneg (by omega)]
  exact ⟨rfl, rfl⟩

/-- **adding an interval to a leap second**, the three cases of chrono's rule, for every interval `ns`:
it stays inside the leap second exactly when `−1 s < ns` and the end of the leap second is not reached (only the
fraction moves — below 10⁹ it is an ordinary time of second `:59` again); reaching or passing the end continues from
`:59 + (f − 10⁹)`; a second or more backwards continues from the start of the following second `+ (f − 10⁹)` -/
theorem leap_add_cases (d s f ns : Int) (hf : 1000000000 ≤ f ∧ f < 2000000000) :
    (-1000000000 < ns ∧ f + ns < 2000000000 → tsShift d s f ns = .timestamp d s (f + ns)) ∧
    (2000000000 ≤ f + ns → tsShift d s f ns = tsOfTotal (tsTotal d s (f - 1000000000) + ns)) ∧
    (ns ≤ -1000000000 → tsShift d s f ns = tsOfTotal (tsTotal d (s + 1) (f - 1000000000) + ns)) := by
  have hnf : ¬ f < nsPerSec := by unfold nsPerSec; omega
  unfold tsShift
  rw [if_neg hnf]
  unfold nsPerSec
  dsimp only
  refine ⟨fun h => ?_, fun h => ?_, fun h => ?_⟩
  · by_cases h0 : 0 ≤ ns
    · obtain ⟨e1, e2⟩ := tdiv_tmod_nonneg ns h0
      have q : ns / 1000000000 = 0 := by omega
      have r : ns % 1000000000 = ns := by omega
      rw [e1, e2, q, r]
      have c1 : (decide ((0 : Int) > 0) || decide (ns > 0) && decide (f ≥ 2 * 1000000000 - ns)) = false := by
        simp only [Bool.or_eq_false_iff, Bool.and_eq_false_iff, decide_eq_false_iff_not]; omega
      simp only [c1, Bool.false_eq_true, if_false]
      have c2 : ¬ ((0 : Int) < 0) := by omega
      simp only [c2, if_false]
    · obtain ⟨e1, e2⟩ := tdiv_tmod_neg ns (by omega)
      have q : (-ns) / 1000000000 = 0 := by omega
      have r : (-ns) % 1000000000 = -ns := by omega
      rw [e1, e2, q, r]
      have c1 : (decide (-(0 : Int) > 0) || decide (- -ns > 0) && decide (f ≥ 2 * 1000000000 - - -ns)) = false := by
        simp only [Bool.or_eq_false_iff, Bool.and_eq_false_iff, decide_eq_false_iff_not]; omega
      simp only [c1, Bool.false_eq_true, if_false]
      have c2 : ¬ (-(0 : Int) < 0) := by omega
      simp only [c2, if_false, Int.neg_neg]
  · have h0 : 0 ≤ ns := by omega
    obtain ⟨e1, e2⟩ := tdiv_tmod_nonneg ns h0
    rw [e1, e2]
    have c1 : (decide (ns / 1000000000 > 0) || decide (ns % 1000000000 > 0) && decide (f ≥ 2 * 1000000000 - ns % 1000000000)) = true := by
      simp only [Bool.or_eq_true, Bool.and_eq_true, decide_eq_true_eq]; omega
    simp only [c1, if_true]
  · obtain ⟨e1, e2⟩ := tdiv_tmod_neg ns (by omega)
    rw [e1, e2]
    have c1 : (decide (-(-ns / 1000000000) > 0) || decide (-(-ns % 1000000000) > 0) && decide (f ≥ 2 * 1000000000 - -(-ns % 1000000000))) = false := by
      simp only [Bool.or_eq_false_iff, Bool.and_eq_false_iff, decide_eq_false_iff_not]; omega
    have c2 : -(-ns / 1000000000) < 0 := by omega
    simp only [c1, Bool.false_eq_true, if_false, c2, if_true]


/-- in the linear count `tsTotal` (which places the leap second `:60 + φ` at the position of the following second
`+ φ`): staying inside or stepping backwards moves the count by `ns`; escaping forwards moves it by `ns − 1 s` — the
leap second itself is one of the elapsed seconds -/
theorem leap_add_instant (d s f ns : Int) (hf : 1000000000 ≤ f ∧ f < 2000000000) :
    ∃ d' s' f', tsShift d s f ns = .timestamp d' s' f' ∧
      ((-1000000000 < ns ∧ f + ns < 2000000000 → tsTotal d' s' f' = tsTotal d s f + ns ∧ s' = s ∧ d' = d) ∧
       (2000000000 ≤ f + ns → tsTotal d' s' f' = tsTotal d s f + ns - 1000000000 ∧ TsPlain s' f') ∧
       (ns ≤ -1000000000 → tsTotal d' s' f' = tsTotal d s f + ns ∧ TsPlain s' f')) := by
  obtain ⟨c1, c2, c3⟩ := leap_add_cases d s f ns hf
  by_cases h1 : -1000000000 < ns ∧ f + ns < 2000000000
  · refine ⟨d, s, f + ns, c1 h1, fun _ => ⟨?_, rfl, rfl⟩, fun h => ?_, fun h => ?_⟩
    · unfold tsTotal; omega
    · omega
    · omega
  · by_cases h2 : 2000000000 ≤ f + ns
    · obtain ⟨d', s', f', e, hp, ht⟩ := tsTotal_tsOfTotal (tsTotal d s (f - 1000000000) + ns)
      refine ⟨d', s', f', (c2 h2).trans e, fun h => absurd h h1, fun _ => ⟨?_, hp⟩, fun h => ?_⟩
      · rw [ht]; unfold tsTotal; omega
      · omega
    · have h3 : ns ≤ -1000000000 := by omega
      obtain ⟨d', s', f', e, hp, ht⟩ := tsTotal_tsOfTotal (tsTotal d (s + 1) (f - 1000000000) + ns)
      refine ⟨d', s', f', (c3 h3).trans e, fun h => absurd h h1, fun h => absurd h h2, fun _ => ⟨?_, hp⟩⟩
      rw [ht]; unfold tsTotal nsPerSec; omega

/-! ### differences -/

/-- `timestamp − timestamp` in the linear count: the difference of the `tsTotal`s, corrected by one second when the two
seconds of day differ and the EARLIER one (by second of day) is a leap second -/
theorem tsDiff_eq (d s f d' s' f' : Int) :
    tsDiff d s f d' s' f' = tsTotal d s f - tsTotal d' s' f' +
      (if s > s' ∧ f' ≥ 1000000000 then 1000000000 else if s < s' ∧ f ≥ 1000000000 then -1000000000 else 0) := by
  unfold tsDiff tsTotal nsPerSec
  dsimp only
  by_cases c1 : s > s' ∧ f' ≥ 1000000000
  · have b1 : (decide (s > s') && decide (f' ≥ 1000000000)) = true := by
      simp only [Bool.and_eq_true, decide_eq_true_eq]; exact c1
    rw [if_pos b1, if_pos c1]; omega
  · have b1 : ¬ (decide (s > s') && decide (f' ≥ 1000000000)) = true := by
      simp only [Bool.and_eq_true, decide_eq_true_eq]; exact c1
    rw [if_neg b1, if_neg c1]
    by_cases c2 : s < s' ∧ f ≥ 1000000000
    · have b2 : (decide (s < s') && decide (f ≥ 1000000000)) = true := by
        simp only [Bool.and_eq_true, decide_eq_true_eq]; exact c2
      rw [if_pos b2, if_pos c2]; omega
    · have b2 : ¬ (decide (s < s') && decide (f ≥ 1000000000)) = true := by
        simp only [Bool.and_eq_true, decide_eq_true_eq]; exact c2
      rw [if_neg b2, if_neg c2]; omega

/-- **`(t + iv) − t = iv` for a leap second `t`** whenever the result lies on the expected side within the day: it
stayed inside the leap second, or escaped forwards to a LATER second of day, or backwards to a second of day that is
not later. (Across midnight chrono loses or invents the leap second: `leap_diff_midnight_flag`.) -/
theorem leap_add_then_diff (d s f ns d' s' f' : Int) (hf : 1000000000 ≤ f ∧ f < 2000000000)
    (hr : tsShift d s f ns = .timestamp d' s' f')
    (hside : (-1000000000 < ns ∧ f + ns < 2000000000) ∨ (2000000000 ≤ f + ns ∧ s < s') ∨ (ns ≤ -1000000000 ∧ s' ≤ s)) :
    tsDiff d' s' f' d s f = ns := by
  obtain ⟨d2, s2, f2, e, k1, k2, k3⟩ := leap_add_instant d s f ns hf
  rw [hr] at e
  injection e with e1 e2 e3
  subst e1 e2 e3
  rw [tsDiff_eq]
  rcases hside with h | h | h
  · obtain ⟨ht, hs, _⟩ := k1 h
    have c1 : ¬ (s' > s ∧ f ≥ 1000000000) := by omega
    have c2 : ¬ (s' < s ∧ f' ≥ 1000000000) := by omega
    simp only [c1, c2, if_false]; omega
  · obtain ⟨ht, _⟩ := k2 h.1
    have c1 : s' > s ∧ f ≥ 1000000000 := by omega
    simp only [c1, and_self, if_true]; omega
  · obtain ⟨ht, hp⟩ := k3 h.1
    unfold TsPlain at hp
    have c1 : ¬ (s' > s ∧ f ≥ 1000000000) := by omega
    have c2 : ¬ (s' < s ∧ f' ≥ 1000000000) := by omega
    simp only [c1, c2, if_false]; omega

/-- FLAG (kernel-checked witnesses of chrono's rule, mirrored by the model and by the code): the leap second
2016-12-31 23:59:60.5 plus one second is 2017-01-01 00:00:00.5, but the difference of the two is 0 s, not 1 s;
and 2017-01-01 00:00:00 minus 23:59:60.5 is −0.5 s although it is later in the value order — the second of day went DOWN across
midnight, so `NaiveTime::signed_duration_since` does not count the leap second -/
theorem leap_diff_midnight_flag :
    tsShift 736329 86399 1500000000 1000000000 = .timestamp 736330 0 500000000 ∧
    tsDiff 736330 0 500000000 736329 86399 1500000000 = 0 ∧
    tsDiff 736330 0 0 736329 86399 1500000000 = -500000000 ∧
    Value.cmp (.timestamp 736330 0 0) (.timestamp 736329 86399 1500000000) = .gt := by
  refine ⟨?_, by decide, by decide, by decide⟩
  rw [(leap_add_cases _ _ _ _ ⟨by decide, by decide⟩).2.1 (by decide)]
  rfl

/-! ### date_trunc -/

/-- inside the window in which `timestamp_nanos_opt` answers, the subtraction `original − (stamp mod span)` of
`duration_trunc` cannot leave chrono's date range: the checked form succeeds with the value the model uses, so the
`expect` inside `DateTime − TimeDelta` is unreachable -/
theorem dateTrunc_shift_in_range (d s f st span : Int) (hs : 0 ≤ s ∧ s < 86400) (hf : 0 ≤ f ∧ f < 2000000000)
    (hst : stampNs d s f = some st) (hspan : IsSubDaySpan span) :
    tsAdd d s f (-(st % span)) = .ok (tsShift d s f (-(st % span))) := by
  have hpos := span_pos hspan
  have hle : span ≤ 3600000000000 := by unfold IsSubDaySpan nsPerSec at hspan; omega
  have hm0 := Int.emod_nonneg st (Int.ne_of_gt hpos)
  have hm1 := Int.emod_lt_of_pos st hpos
  -- the day is within the i64-nanosecond window
  have hd : 612000 ≤ d ∧ d ≤ 826000 := by
    unfold stampNs at hst
    dsimp only at hst
    unfold nsPerSec at hst
    split at hst
    · rw [checked_eq] at hst
      split at hst
      · rename_i h1 h2; rw [inI64_iff] at h2; omega
      · simp at hst
    · rw [checked_eq] at hst
      split at hst
      · rename_i h1 h2; rw [inI64_iff] at h2; omega
      · simp at hst
  generalize hns : -(st % span) = ns at *
  have hnsb : -3600000000000 < ns ∧ ns ≤ 0 := by omega
  -- the day of the shifted value is d − 1, d or d + 1
  have hday : ∃ d' s' f', tsShift d s f ns = .timestamp d' s' f' ∧ d - 2 ≤ d' ∧ d' ≤ d + 1 := by
    by_cases hleap : f < 1000000000
    · rw [tsShift_plain d s f ns (by unfold nsPerSec; omega)]
      refine ⟨_, _, _, rfl, ?_, ?_⟩ <;> unfold tsTotal nsPerSec <;> omega
    · obtain ⟨c1, c2, c3⟩ := leap_add_cases d s f ns ⟨by omega, hf.2⟩
      by_cases h1 : -1000000000 < ns
      · exact ⟨d, s, f + ns, c1 ⟨h1, by omega⟩, by omega, by omega⟩
      · rw [c3 (by omega)]
        refine ⟨_, _, _, rfl, ?_, ?_⟩ <;> unfold tsTotal nsPerSec <;> omega
  obtain ⟨d', s', f', e, hlo, hhi⟩ := hday
  unfold tsAdd
  rw [e]
  dsimp only
  have hy := (CivilE.year_in_range_iff d').2 ⟨by unfold CivilE.dayMin; omega, by unfold CivilE.dayMax; omega⟩
  have hb : (decide (-262143 ≤ (CivilE.civilOfDays d').1) && decide ((CivilE.civilOfDays d').1 ≤ 262142)) = true := by
    simp only [Bool.and_eq_true, decide_eq_true_eq]; exact hy
  generalize CivilE.civilOfDays d' = c at *
  obtain ⟨y, m, dd⟩ := c
  simp only at hb ⊢
  rw [if_pos hb]

/-- `date_trunc` to hour … microseconds on ANY timestamp inside the window (leap seconds included): the timestamp
minus `stamp mod span`, where the stamp of a leap second `:60 + φ` is that of the following second `+ φ`. For a leap
second and a span of a second or more the result is therefore the START OF THE LEAP SECOND (`:60.000`), not the start
of the minute or hour: `date_trunc_leap_flag` -/
theorem dateTrunc_span_closed (part : Bytes) (span : Int)
    (hy : (part == strBytes "year") = false) (hm : (part == strBytes "month") = false)
    (hd : (part == strBytes "day") = false) (hs : truncSpan part = some span) (d s f st : Int)
    (hst : stampNs d s f = some st) :
    dateTrunc part d s f = .ok (tsShift d s f (-(st % span))) := by
  unfold dateTrunc
  simp only [hy, hm, hd, hs, hst, Bool.false_eq_true, if_false]

theorem stampNs_some (d s f st : Int) (h : stampNs d s f = some st) : st = tsTotal (d - 719163) s f := by
  unfold stampNs at h
  dsimp only at h
  unfold tsTotal
  unfold nsPerSec at *
  split at h
  · rw [checked_eq] at h
    split at h
    · rw [Option.bind_some, checked_eq] at h
      split at h
      · injection h with h; omega
      · cases h
    · simp at h
  · rw [checked_eq] at h
    split at h
    · rw [Option.bind_some, checked_eq] at h
      split at h
      · injection h with h; omega
      · cases h
    · simp at h

/-- a leap second truncated to a second, a minute or an hour is the start of that leap second -/
theorem dateTrunc_leap_is_leap_start (d s f span : Int) (hf : 1000000000 ≤ f ∧ f < 2000000000)
    (hspan : span = 1000000000 ∨ (span = 60000000000 ∧ s % 60 = 59) ∨ (span = 3600000000000 ∧ s % 3600 = 3599)) :
    tsShift d s f (-(tsTotal (d - 719163) s f % span)) = .timestamp d s 1000000000 := by
  have hmod : tsTotal (d - 719163) s f % span = f - 1000000000 := by
    unfold tsTotal nsPerSec
    rcases hspan with h | ⟨h, h'⟩ | ⟨h, h'⟩ <;> subst h <;> omega
  rw [hmod]
  have := (leap_add_cases d s f (-(f - 1000000000)) hf).1 ⟨by omega, by omega⟩
  rw [this]; congr 1; omega

end Sqlgrep
