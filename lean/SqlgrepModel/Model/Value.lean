/-
Value algebra of sqlgrep (`src/model.rs`): `Value`, `ValueType`, the comparison rustc derives
for `#[derive(PartialOrd, Ord)]`, the hand-written `Ord`/`PartialEq`/`Hash` of `Float`,
`#[derive(PartialEq)]` and the byte stream `#[derive(Hash)]` feeds to a hasher.

Representations (DESIGN.md 4.2): INT is `Int`; REAL is its IEEE-754 binary64 bit pattern as a
`Nat` (< 2^64); TEXT is the list of its UTF-8 bytes (Rust orders `String` by bytes); TIMESTAMP is
chrono's `NaiveDateTime` in UTC as (day number, second of day, nanosecond incl. leap second);
INTERVAL is the total number of nanoseconds.
-/
namespace Sqlgrep

namespace F64
def mag (n : Nat) : Nat := n % 2^63
def signBit (n : Nat) : Bool := n / 2^63 % 2 == 1
def isNaN (n : Nat) : Bool := decide (mag n > 0x7ff0000000000000)
/-- order key of a non-NaN pattern: IEEE numeric order, `-0.0` and `0.0` both map to 0 -/
def key (n : Nat) : Int := if signBit n then -(mag n : Int) else (mag n : Int)
/-- `impl Ord for Float` (after the REAL total-order repair): numeric order, NaN last, NaN = NaN -/
def cmp (a b : Nat) : Ordering :=
  if isNaN a then (if isNaN b then .eq else .gt)
  else if isNaN b then .lt
  else compare (key a) (key b)
/-- bits fed to the hasher by `impl Hash for Float`: NaN and zero normalised -/
def hashBits (n : Nat) : Nat :=
  if isNaN n then 0x7ff8000000000000 else if mag n == 0 then 0
  else (if signBit n then 2^63 else 0) + mag n   -- = n for every pattern below 2^64
end F64

inductive VType where
  | int | real | bool | text | array (e : VType) | timestamp | interval
  deriving DecidableEq, Repr, Inhabited

namespace VType
def rank : VType → Nat
  | int => 0 | real => 1 | bool => 2 | text => 3 | array _ => 4 | timestamp => 5 | interval => 6
/-- `#[derive(Ord)]` on `ValueType` -/
def cmp : VType → VType → Ordering
  | array a, array b => cmp a b
  | a, b => compare a.rank b.rank
end VType

inductive Value where
  | null
  | int (i : Int)
  | real (bits : Nat)
  | bool (b : Bool)
  | text (bytes : List Nat)
  | array (t : VType) (xs : List Value)
  | timestamp (day sec frac : Int)
  | interval (ns : Int)
  deriving Repr, Inhabited

namespace Value

def rank : Value → Nat
  | null => 0 | int _ => 1 | real _ => 2 | bool _ => 3 | text _ => 4
  | array _ _ => 5 | timestamp _ _ _ => 6 | interval _ => 7

def isNull : Value → Bool
  | null => true
  | _ => false

/-- lexicographic order on byte strings (`impl Ord for str`) -/
def cmpBytes : List Nat → List Nat → Ordering
  | [], [] => .eq
  | [], _ :: _ => .lt
  | _ :: _, [] => .gt
  | a :: as, b :: bs => (compare a b).then (cmpBytes as bs)

def cmpBool (a b : Bool) : Ordering := compare a.toNat b.toNat

mutual
/-- `#[derive(Ord)]` on `Value`: variant rank first, then payload -/
def cmp : Value → Value → Ordering
  | null, null => .eq
  | int a, int b => compare a b
  | real a, real b => F64.cmp a b
  | bool a, bool b => cmpBool a b
  | text a, text b => cmpBytes a b
  | array t xs, array u ys => (VType.cmp t u).then (cmpList xs ys)
  | timestamp d s f, timestamp d' s' f' => ((compare d d').then (compare s s')).then (compare f f')
  | interval a, interval b => compare a b
  | a, b => compare a.rank b.rank
/-- `impl Ord for Vec<Value>`: lexicographic, shorter first -/
def cmpList : List Value → List Value → Ordering
  | [], [] => .eq
  | [], _ :: _ => .lt
  | _ :: _, [] => .gt
  | a :: as, b :: bs => (cmp a b).then (cmpList as bs)
end

mutual
/-- `#[derive(PartialEq)]` on `Value` (REAL through `Float::eq`, i.e. `cmp == Equal`) -/
def beq : Value → Value → Bool
  | null, null => true
  | int a, int b => a == b
  | real a, real b => F64.cmp a b == .eq
  | bool a, bool b => a == b
  | text a, text b => a == b
  | array t xs, array u ys => t == u && beqList xs ys
  | timestamp d s f, timestamp d' s' f' => d == d' && s == s' && f == f'
  | interval a, interval b => a == b
  | _, _ => false
def beqList : List Value → List Value → Bool
  | [], [] => true
  | a :: as, b :: bs => beq a b && beqList as bs
  | _, _ => false
end

/-- words fed to the `Hasher` by `#[derive(Hash)]` for `ValueType` -/
def hashVType : VType → List Int
  | .array e => 4 :: hashVType e
  | t => [t.rank]

mutual
/-- words fed to the `Hasher` by `#[derive(Hash)]`: discriminant, then payload; a `Vec` feeds its
length first; a `String` its bytes and a terminator. Two values feed equal streams iff
`hashRepr` is equal (the hash function itself is abstracted as injective on the stream). -/
def hashRepr : Value → List Int
  | null => [0]
  | int a => [1, a]
  | real a => [2, F64.hashBits a]
  | bool b => [3, b.toNat]
  | text s => 4 :: (s.map (fun (b : Nat) => (b : Int)) ++ [255])
  | array t xs => 5 :: (hashVType t ++ ((xs.length : Int) :: hashList xs))
  | timestamp d s f => [6, d, s, f]
  | interval a => [7, a]
def hashList : List Value → List Int
  | [] => []
  | a :: as => hashRepr a ++ hashList as
end

def valueType : Value → Option VType
  | null => none
  | int _ => some .int
  | real _ => some .real
  | bool _ => some .bool
  | text _ => some .text
  | array t _ => some (.array t)
  | timestamp _ _ _ => some .timestamp
  | interval _ => some .interval

end Value
end Sqlgrep
