import SqlgrepModel.Model.Lex
/-
The tokenizer on a concatenation `A ++ B` when `A` ends cleanly behind a `;`.

`tokenize` is a fold over the characters with a state; after `A` the state holds `A`'s tokens, a position, and the flags
"inside a string / a comment / behind a backslash / inside a word or number / directly behind an operator character".
If all flags are off and the last token is `;` (`CleanEnd`), what the fold does on the characters of `B` is what it does
on `B` alone, except for (a) the locations stamped on tokens and errors and (b) `A`'s tokens staying below `B`'s: a last
token `;` takes part in none of the token fusions (`IS NOT`, `NOT IN`, `::`, two-character operators, `--`).
So `tokenize (A ++ B)` = the tokens of `A` (without `End`) followed by the tokens of `B` up to locations, and an error of
`B` is an error of `A ++ B` of the same kind (`tokenize_append`).

Without `CleanEnd` the statement is false: a text that ends inside a comment or a string swallows the beginning of `B`
(examples in `Props/C18Defs.lean`).
-/
namespace Sqlgrep.Lex.Concat
open Sqlgrep.Lex

/-- two states of the fold over the same characters: `a` started behind the tokens `… ;` (`base`, last first, below the
`;`) of an earlier text, `b` started from scratch; they agree on everything but positions -/
structure Rel (base : List Tok) (a b : St) : Prop where
  toks : a.toks.map (·.tok) = b.toks.map (·.tok) ++ .semi :: base
  cur : a.cur = b.cur
  esc : a.esc = b.esc
  com : a.com = b.com
  prevOp : a.prevOp = b.prevOp
  pend : a.pend = b.pend

/-- the same for results: both go on (related), or both stop with the same error kind / the same missing fact -/
def RRel (base : List Tok) : R → R → Prop
  | .run a, .run b => Rel base a b
  | .fail _ e, .fail _ e' => e = e'
  | .missing w, .missing w' => w = w'
  | _, _ => False

variable {base : List Tok} {a b : St}

theorem Rel.lastTok (h : Rel base a b) : a.lastTok = some (b.lastTok.getD .semi) := by
  have ht := h.toks
  unfold St.lastTok
  cases hb : b.toks with
  | nil =>
    rw [hb] at ht
    cases ha : a.toks with
    | nil => rw [ha] at ht; simp at ht
    | cons p r => rw [ha] at ht; simp at ht; simp [ht.1]
  | cons q s =>
    rw [hb] at ht
    cases ha : a.toks with
    | nil => rw [ha] at ht; simp at ht
    | cons p r => rw [ha] at ht; simp at ht; simp [ht.1]

/-- a last token other than `;` is the other run's last token too -/
theorem Rel.lastTok_eq (h : Rel base a b) (t : Tok) (ht : t ≠ .semi) : (a.lastTok = some t) = (b.lastTok = some t) := by
  rw [h.lastTok]
  cases hb : b.lastTok with
  | none => simp [ht.symm]
  | some u => simp

theorem Rel.add (h : Rel base a b) (t : Tok) : Rel base (a.add t) (b.add t) := by
  refine ⟨?_, h.cur, h.esc, h.com, h.prevOp, h.pend⟩
  simp [St.add, h.toks]

theorem Rel.setLast (h : Rel base a b) (t : Tok) (hne : b.toks ≠ []) : Rel base (a.setLast t) (b.setLast t) := by
  have ht := h.toks
  cases hb : b.toks with
  | nil => exact absurd hb hne
  | cons q s =>
    rw [hb] at ht
    cases ha : a.toks with
    | nil => rw [ha] at ht; simp at ht
    | cons p r =>
      rw [ha] at ht
      simp only [List.map_cons, List.cons_append, List.cons.injEq] at ht
      refine ⟨?_, ?_, ?_, ?_, ?_, ?_⟩ <;> simp [St.setLast, ha, hb, ht.2, h.cur, h.esc, h.com, h.prevOp, h.pend]

theorem nonempty_of_lastTok {b : St} {t : Tok} (h : b.lastTok = some t) : b.toks ≠ [] := by
  intro he; simp [St.lastTok, he] at h

theorem Rel.addKeyword (h : Rel base a b) (k : Keyword) : Rel base (addKeyword a k) (addKeyword b k) := by
  unfold Lex.addKeyword
  have hl := h.lastTok
  cases hb : b.lastTok with
  | none =>
    rw [hb] at hl; simp only [Option.getD_none] at hl
    rw [hl]
    cases k <;> exact h.add _
  | some t =>
    rw [hb] at hl; simp only [Option.getD_some] at hl
    rw [hl]
    have hne := nonempty_of_lastTok hb
    cases k <;> first
      | exact h.add _
      | (cases t <;> first
          | exact h.add _
          | (rename_i kw; cases kw <;> first | exact h.add _ | exact h.setLast _ hne))

theorem Rel.with_pend (h : Rel base a b) (p : Pending) : Rel base { a with pend := p } { b with pend := p } :=
  ⟨h.toks, h.cur, h.esc, h.com, h.prevOp, rfl⟩

theorem Rel.flushIdent (o : Oracles) (h : Rel base a b) (w : List Char) : Rel base (flushIdent o a w) (flushIdent o b w) := by
  unfold Lex.flushIdent
  dsimp only
  split
  · exact h.addKeyword _
  · split
    · exact h.add _
    · split
      · exact h.add _
      · split
        · exact h.add _
        · exact h.add _

theorem Rel.flushNumber (o : Oracles) (h : Rel base a b) (w : List Char) (d : Bool) :
    RRel base (flushNumber o a w d) (flushNumber o b w d) := by
  unfold Lex.flushNumber
  cases d with
  | true =>
    simp only [if_true]
    cases o.fparse w with
    | bits x => exact h.add _
    | err => rfl
    | missing =>
      simp only []
      cases DecFloat.parseF64 w with
      | some x => exact h.add _
      | none => rfl
  | false =>
    simp only [Bool.false_eq_true, if_false]
    cases Lit.parseI64 (w.map Char.toNat) with
    | some i => exact h.add _
    | none => rfl

theorem Rel.flush (o : Oracles) (h : Rel base a b) : RRel base (flush o a) (flush o b) := by
  unfold Lex.flush
  rw [h.pend]
  cases b.pend with
  | none => exact h
  | ident r => exact (h.with_pend .none).flushIdent o _
  | number r d => exact (h.with_pend .none).flushNumber o _ d

theorem Rel.addOp (h : Rel base a b) (c : Char) : Rel base (addOp a c) (addOp b c) := by
  have := h.add (.op (.single c))
  exact ⟨this.toks, this.cur, this.esc, this.com, rfl, this.pend⟩

theorem Rel.operator (h : Rel base a b) (adj : Bool) (c : Char) : Rel base (operator a adj c) (operator b adj c) := by
  unfold Lex.operator
  cases adj with
  | false => exact h.addOp c
  | true =>
    simp only [if_true]
    have hl := h.lastTok
    cases hb : b.lastTok with
    | none => rw [hb] at hl; simp only [Option.getD_none] at hl; rw [hl]; exact h.addOp c
    | some t =>
      rw [hb] at hl; simp only [Option.getD_some] at hl; rw [hl]
      have hne := nonempty_of_lastTok hb
      cases t with
      | op o =>
        cases o with
        | single x =>
          simp only []
          split
          · exact h.setLast _ hne
          · split
            · exact h.setLast _ hne
            · exact h.addOp c
        | dual x y => exact h.addOp c
      | _ => exact h.addOp c

theorem Rel.classify (o : Oracles) (h : Rel base a b) (adj : Bool) (c : Char) :
    Rel base (classify o a adj c) (classify o b adj c) := by
  unfold Lex.classify
  extract_lets i
  clear_value i
  by_cases hA : i.alpha = true
  · rw [if_pos hA, if_pos hA]; exact h.with_pend _
  rw [if_neg hA, if_neg hA]
  by_cases hN : i.numeric = true
  · rw [if_pos hN, if_pos hN]; exact h.with_pend _
  rw [if_neg hN, if_neg hN]
  by_cases h0 : c = '('
  · rw [if_pos h0, if_pos h0]; exact h.add _
  rw [if_neg h0, if_neg h0]
  by_cases h1 : c = ')'
  · rw [if_pos h1, if_pos h1]; exact h.add _
  rw [if_neg h1, if_neg h1]
  by_cases h2 : c = '['
  · rw [if_pos h2, if_pos h2]; exact h.add _
  rw [if_neg h2, if_neg h2]
  by_cases h3 : c = ']'
  · rw [if_pos h3, if_pos h3]; exact h.add _
  rw [if_neg h3, if_neg h3]
  by_cases h4 : c = '{'
  · rw [if_pos h4, if_pos h4]; exact h.add _
  rw [if_neg h4, if_neg h4]
  by_cases h5 : c = '}'
  · rw [if_pos h5, if_pos h5]; exact h.add _
  rw [if_neg h5, if_neg h5]
  by_cases h6 : c = ','
  · rw [if_pos h6, if_pos h6]; exact h.add _
  rw [if_neg h6, if_neg h6]
  by_cases h7 : c = ';'
  · rw [if_pos h7, if_pos h7]; exact h.add _
  rw [if_neg h7, if_neg h7]
  by_cases hC : c = ':'
  · rw [if_pos hC, if_pos hC]
    have hl := h.lastTok
    cases hb : b.lastTok with
    | none => rw [hb] at hl; simp only [Option.getD_none] at hl; rw [hl]; exact h.add _
    | some t =>
      rw [hb] at hl; simp only [Option.getD_some] at hl; rw [hl]
      cases t <;> first | exact h.add _ | exact h.setLast _ (nonempty_of_lastTok hb)
  rw [if_neg hC, if_neg hC]
  by_cases hW : i.white = true
  · rw [if_pos hW, if_pos hW]; exact h
  rw [if_neg hW, if_neg hW]
  exact h.operator adj c

theorem Rel.advance (h : Rel base a b) (c : Char) : Rel base (a.advance c) (b.advance c) := by
  unfold St.advance
  split
  · exact ⟨h.toks, h.cur, h.esc, h.com, rfl, h.pend⟩
  · exact ⟨h.toks, h.cur, h.esc, h.com, rfl, h.pend⟩

theorem Rel.tail_toks (h : Rel base a b) (hne : b.toks ≠ []) :
    a.toks.tail.map (·.tok) = b.toks.tail.map (·.tok) ++ .semi :: base := by
  have ht := h.toks
  cases hb : b.toks with
  | nil => exact absurd hb hne
  | cons q s =>
    rw [hb] at ht
    cases ha : a.toks with
    | nil => rw [ha] at ht; simp at ht
    | cons p r =>
      rw [ha] at ht
      simp only [List.map_cons, List.cons_append, List.cons.injEq] at ht
      simpa using ht.2

theorem Rel.tail (h : Rel base a b) (hne : b.toks ≠ []) :
    Rel base { a with com := true, toks := a.toks.tail } { b with com := true, toks := b.toks.tail } :=
  ⟨h.tail_toks hne, h.cur, h.esc, rfl, h.prevOp, h.pend⟩

theorem Rel.dashCheck (h : Rel base a b) : Rel base a.dashCheck b.dashCheck := by
  unfold St.dashCheck
  by_cases hd : b.lastTok = some dashDash
  · simp only [h.lastTok_eq dashDash (by decide), hd, if_true]; exact h.tail (nonempty_of_lastTok hd)
  · simp only [h.lastTok_eq dashDash (by decide), hd, if_false]; exact h

theorem Rel.quote (h : Rel base a b) : Rel base (quote a) (quote b) := by
  unfold Lex.quote
  rw [h.cur]
  cases b.cur with
  | none => exact ⟨h.toks, rfl, h.esc, h.com, h.prevOp, h.pend⟩
  | some s =>
    have h' : Rel base { a with cur := none } { b with cur := none } := ⟨h.toks, rfl, h.esc, h.com, h.prevOp, h.pend⟩
    exact h'.add _

/-- the loop body behind `next_char` and the `--` check -/
def bodyCore (o : Oracles) (adj : Bool) (st : St) (c : Char) : St :=
  if st.com then
    if c = '\n' then { st with com := false } else st
  else if c = '\\' ∧ st.esc = false then { st with esc := true }
  else if c = '\'' ∧ st.esc = false then quote st
  else
    match st.cur with
    | some s => { st with esc := false, cur := some (c :: s) }
    | none => Lex.classify o { st with esc := false } adj c

theorem body_eq (o : Oracles) (st : St) (c : Char) :
    Lex.body o st c = bodyCore o st.prevOp (st.advance c).dashCheck c := rfl

theorem Rel.bodyCore (o : Oracles) (h : Rel base a b) (adj : Bool) (c : Char) :
    Rel base (bodyCore o adj a c) (bodyCore o adj b c) := by
  unfold Sqlgrep.Lex.Concat.bodyCore
  by_cases hcm : b.com = true
  · have hca : a.com = true := h.com.trans hcm
    rw [if_pos hca, if_pos hcm]
    by_cases hn : c = '\n'
    · rw [if_pos hn, if_pos hn]; exact ⟨h.toks, h.cur, h.esc, rfl, h.prevOp, h.pend⟩
    · rw [if_neg hn, if_neg hn]; exact h
  · have hca : ¬ a.com = true := by rw [h.com]; exact hcm
    rw [if_neg hca, if_neg hcm]
    by_cases h1 : c = '\\' ∧ b.esc = false
    · have h1a : c = '\\' ∧ a.esc = false := by rw [h.esc]; exact h1
      rw [if_pos h1a, if_pos h1]; exact ⟨h.toks, h.cur, rfl, h.com, h.prevOp, h.pend⟩
    · have h1a : ¬ (c = '\\' ∧ a.esc = false) := by rw [h.esc]; exact h1
      rw [if_neg h1a, if_neg h1]
      by_cases h2 : c = '\'' ∧ b.esc = false
      · have h2a : c = '\'' ∧ a.esc = false := by rw [h.esc]; exact h2
        rw [if_pos h2a, if_pos h2]; exact h.quote
      · have h2a : ¬ (c = '\'' ∧ a.esc = false) := by rw [h.esc]; exact h2
        rw [if_neg h2a, if_neg h2]
        have h3 : Rel base { a with esc := false } { b with esc := false } :=
          ⟨h.toks, h.cur, rfl, h.com, h.prevOp, h.pend⟩
        have hcur := h.cur
        cases hbc : b.cur with
        | some s =>
          rw [hbc] at hcur
          simp only [hcur]
          exact ⟨h.toks, rfl, rfl, h.com, h.prevOp, h.pend⟩
        | none =>
          rw [hbc] at hcur
          have := h3.classify o adj c
          simpa only [hcur, hbc] using this

theorem Rel.body (o : Oracles) (h : Rel base a b) (c : Char) : Rel base (body o a c) (body o b c) := by
  rw [body_eq, body_eq, h.prevOp]
  exact (h.advance c).dashCheck.bodyCore o _ c

theorem RRel.bind_body (o : Oracles) {x y : R} (h : RRel base x y) (c : Char) :
    RRel base (x.bind (fun st => .run (body o st c))) (y.bind (fun st => .run (body o st c))) := by
  cases x <;> cases y <;> simp only [RRel] at h <;> try exact h.elim
  · exact h.body o c
  · exact h
  · exact h

theorem Rel.step (o : Oracles) (h : Rel base a b) (c : Char) : RRel base (step o a c) (step o b c) := by
  unfold Lex.step
  have hf := h.flush o
  rw [h.pend]
  cases hp : b.pend with
  | none => exact h.body o c
  | ident r =>
    simp only []
    split
    · exact ⟨h.toks, h.cur, h.esc, h.com, h.prevOp, rfl⟩
    · exact RRel.bind_body o hf c
  | number r d =>
    simp only []
    split
    · exact ⟨h.toks, h.cur, h.esc, h.com, h.prevOp, rfl⟩
    · split
      · split
        · rfl
        · exact ⟨h.toks, h.cur, h.esc, h.com, h.prevOp, rfl⟩
      · exact RRel.bind_body o hf c

theorem RRel.stepR (o : Oracles) {x y : R} (h : RRel base x y) (c : Char) : RRel base (stepR o x c) (stepR o y c) := by
  unfold Lex.stepR
  cases x <;> cases y <;> simp only [RRel] at h <;> try exact h.elim
  · exact h.step o c
  · exact h
  · exact h

theorem RRel.foldl (o : Oracles) : ∀ (text : List Char) {x y : R}, RRel base x y →
    RRel base (text.foldl (Lex.stepR o) x) (text.foldl (Lex.stepR o) y) := by
  intro text
  induction text with
  | nil => intro x y h; exact h
  | cons c cs ih => intro x y h; exact ih (h.stepR o c)

theorem Rel.close (h : Rel base a b) : Rel base a.close b.close := by
  unfold St.close
  by_cases hd : b.lastTok = some dashDash
  · simp only [h.lastTok_eq dashDash (by decide), hd, if_true]
    have : Rel base { a with toks := a.toks.tail } { b with toks := b.toks.tail } :=
      ⟨h.tail_toks (nonempty_of_lastTok hd), h.cur, h.esc, h.com, h.prevOp, h.pend⟩
    exact this.add _
  · simp only [h.lastTok_eq dashDash (by decide), hd, if_false]; exact h.add _

theorem RRel.finish (o : Oracles) {x y : R} (h : RRel base x y) : RRel base (x.bind (finish o)) (y.bind (finish o)) := by
  cases x <;> cases y <;> simp only [RRel] at h <;> try exact h.elim
  · rename_i a b
    simp only [R.bind, Lex.finish]
    have hf := h.flush o
    cases hx : Lex.flush o a <;> cases hy : Lex.flush o b <;> rw [hx, hy] at hf <;> simp only [RRel] at hf <;>
      try exact hf.elim
    · exact hf.close
    · exact hf
    · exact hf
  · exact h
  · exact h

/-- **the text `A` ends cleanly behind a `;`**: the fold over `A` ends outside strings, comments and escapes, with no
word or number under way, not directly behind an operator character, and the last token is `;`. `toks` are the tokens
of `A` (last first, without `End`). Decidable by running the tokenizer on `A`. -/
def CleanEnd (o : Oracles) (A : List Char) (st : St) : Prop :=
  run o {} A = .run st ∧ st.cur = none ∧ st.esc = false ∧ st.com = false ∧ st.prevOp = false ∧ st.pend = .none ∧
  st.lastTok = some .semi

/-- the fold over `A ++ B` is the fold over `B` continued from the state after `A` -/
theorem run_append (o : Oracles) (A B : List Char) (st0 : St) :
    run o st0 (A ++ B) = B.foldl (stepR o) (run o st0 A) := by
  unfold Lex.run
  rw [List.foldl_append]

/-- the state after a clean end is related to the fresh state -/
theorem CleanEnd.rel {o : Oracles} {A : List Char} {st : St} (h : CleanEnd o A st) :
    ∃ base, st.toks.map (·.tok) = .semi :: base ∧ Rel base st {} := by
  obtain ⟨_, hcur, hesc, hcom, hprev, hpend, hlast⟩ := h
  unfold St.lastTok at hlast
  cases ht : st.toks with
  | nil => rw [ht] at hlast; simp at hlast
  | cons p r =>
    rw [ht] at hlast
    simp only [Option.some.injEq] at hlast
    refine ⟨r.map (·.tok), by simp [hlast], ⟨by simp [ht, hlast], hcur, hesc, hcom, hprev, hpend⟩⟩

/-- **tokens of a concatenation.** `A` ends cleanly behind a `;` in the state `st` (its tokens, last first, without `End`).
Then for every text `B`:
* `B` tokenizes to `tsB` ⇒ `A ++ B` tokenizes to the tokens of `A` followed by the tokens of `B` (up to locations: the
  positions of `B`'s tokens are counted from the beginning of `A`);
* `B` has a tokenizer error ⇒ `A ++ B` has a tokenizer error of the same kind;
* `B` needs a fact that was not shipped ⇒ so does `A ++ B`. -/
theorem tokenize_append (o : Oracles) (A B : List Char) (st : St) (h : CleanEnd o A st) :
    match tokenize o B with
    | .ok tsB => ∃ ts, tokenize o (A ++ B) = .ok ts ∧ ts.map (·.tok) = st.toks.reverse.map (·.tok) ++ tsB.map (·.tok)
    | .error _ e => ∃ loc, tokenize o (A ++ B) = .error loc e
    | .missing w => tokenize o (A ++ B) = .missing w := by
  obtain ⟨base, hbase, hrel⟩ := h.rel
  have hrun : RRel base (run o {} (A ++ B)) (run o {} B) := by
    rw [run_append, h.1]
    exact RRel.foldl o B (x := .run st) (y := .run {}) hrel
  have hfin := hrun.finish o
  unfold tokenize
  cases hx : (run o {} (A ++ B)).bind (finish o) <;> cases hy : (run o {} B).bind (finish o) <;>
    rw [hx, hy] at hfin <;> simp only [RRel] at hfin <;> try exact hfin.elim
  · rename_i sa sb
    simp only []
    refine ⟨sa.toks.reverse, rfl, ?_⟩
    have ht := hfin.toks
    rw [← hbase] at ht
    rw [List.map_reverse, ht, List.reverse_append, List.map_reverse, List.map_reverse]
  · subst hfin; exact ⟨_, rfl⟩
  · subst hfin; rfl

end Sqlgrep.Lex.Concat
