import SqlgrepModel.Lemmas.SelectEngine
/-
The batch loop (`runFile`, `runFiles`, `runBatch`) on a non-aggregate statement equals the specification
`Spec.Select.runOf` whenever the specification decides the run (`Spec.Select.batchBlocks = some _`):
induction over the lines with the invariant "memory = rows output so far, counter = their number, counter
below the limit".
-/
namespace Sqlgrep
open Sqlgrep.Spec.Select

/-! ### generic facts about the loop (any statement) -/

/-- the loop over `a ++ b` is the loop over `a`, then — unless it stopped — the loop over `b` -/
theorem runFile_append_gen (O : Oracles) (qy : Query) (idx : JoinIndex) (w : Bool) (a b : List FileLine)
    (ls : LoopState) (hs : ls.stop = false) :
    runFile O qy idx w none (a ++ b) ls =
      if (runFile O qy idx w none a ls).stop then runFile O qy idx w none a ls
      else runFile O qy idx w none b (runFile O qy idx w none a ls) := by
  induction a generalizing ls with
  | nil => simp [runFile, hs]
  | cons x xs ih =>
    simp only [List.cons_append, runFile]
    have hn : ((none : Option Nat) == some ls.consumed) = false := rfl
    simp only [hn, Bool.false_eq_true, if_false]
    by_cases hr : x.readable = true
    · simp only [hr, Bool.not_true, Bool.false_eq_true, if_false]
      cases hx : executeLine O qy idx w ls.es x.line with
      | ok p =>
        obtain ⟨es1, lo1⟩ := p
        simp only
        by_cases hl : lo1.reachedLimit = true
        · simp [hl]
        · simp only [hl, Bool.false_eq_true, if_false]
          exact ih _ hs
      | error k => simp
      | panic s => simp
      | oracleMissing s => simp
    · simp [hr]

/-- what the loop appends to the printed records for one line's output -/
def piece (lo : LineOut) : List String :=
  match lo.result with
  | some r => printResult r false
  | none => []

/-- the loop state after one line was counted, executed and its output printed -/
def advance (ls : LoopState) (es1 : EngineState) (lo : LineOut) : LoopState :=
  { ls with
    consumed := ls.consumed + 1
    es := es1
    out := { ls.out with totalLines := ls.out.totalLines + 1, printed := ls.out.printed ++ piece lo } }

/-- one step of the loop on a readable line whose engine step succeeds -/
theorem runFile_cons_ok (O : Oracles) (qy : Query) (idx : JoinIndex) (w : Bool) (fl : FileLine) (rest : List FileLine)
    (ls : LoopState) (es1 : EngineState) (lo : LineOut) (hr : fl.readable = true)
    (hx : executeLine O qy idx w ls.es fl.line = .ok (es1, lo)) :
    runFile O qy idx w none (fl :: rest) ls =
      if lo.reachedLimit then { advance ls es1 lo with stop := true }
      else runFile O qy idx w none rest (advance ls es1 lo) := by
  have hn : ((none : Option Nat) == some ls.consumed) = false := rfl
  simp only [runFile, hn, hr, hx, Bool.not_true, Bool.false_eq_true, if_false, piece, advance]
  cases lo.result <;> rfl

/-! ### `updateLimit` on a line's table -/

/-- the rows of a line that LIMIT lets through when `k` rows were output before -/
def truncRows (lim : Option Nat) (k : Nat) (kept : List (List Value)) : List (List Value) :=
  match lim with
  | some n => kept.take (n - k)
  | none => kept

def reachedAt (lim : Option Nat) (k : Nat) : Bool :=
  match lim with
  | some n => decide (k ≥ n)
  | none => false

theorem printBlock_nil (names : List String) : printBlock names [] = [] := rfl

theorem updateLimit_tableOf (lim : Option Nat) (es : EngineState) (names : List String) (kept : List (List Value)) :
    (updateLimit true lim es (tableOf names kept)).1 =
        { es with numOut := es.numOut + (truncRows lim es.numOut kept).length } ∧
    piece (updateLimit true lim es (tableOf names kept)).2 = printBlock names (truncRows lim es.numOut kept) ∧
    (updateLimit true lim es (tableOf names kept)).2.reachedLimit =
        reachedAt lim (es.numOut + (truncRows lim es.numOut kept).length) := by
  cases kept with
  | nil => cases lim <;> simp [updateLimit, tableOf, appendRows, truncRows, piece, printBlock_nil, reachedAt]
  | cons x xs =>
    cases lim <;> simp [updateLimit, tableOf, appendRows, truncRows, piece, printBlock, reachedAt]

/-- for a non-aggregate statement the flag returned with a line is the engine's `reached_limit()` afterwards -/
theorem executeLine_select_reached (O : Oracles) (qy : Query) (q : SelectStmt) (hq : qy.stmt = .select q)
    (idx : JoinIndex) (w : Bool) (es es1 : EngineState) (l : Line) (lo : LineOut)
    (hx : executeLine O qy idx w es l = .ok (es1, lo)) : lo.reachedLimit = reachedLimit qy es1 := by
  rw [executeLine_select O qy q hq] at hx
  cases hl : lineRows O qy q idx l with
  | ok rs =>
    rw [hl] at hx
    simp only [Outcome.bind, Outcome.ok.injEq] at hx
    have h := updateLimit_tableOf q.limit { es with seen := seenAfter q.distinct es.seen (keepRows q.distinct es.seen rs) }
      (columnsOf qy q) (keepRows q.distinct es.seen rs)
    rw [hx] at h
    obtain ⟨h1, _, h3⟩ := h
    simp only at h1 h3
    rw [h3, h1]
    simp only [reachedLimit, hq, reachedAt]
    cases q.limit <;> rfl
  | error k => rw [hl] at hx; cases hx
  | panic s => rw [hl] at hx; cases hx
  | oracleMissing s => rw [hl] at hx; cases hx

/-- a file that is left without a stop leaves the engine below its limit -/
theorem runFile_select_not_reached (O : Oracles) (qy : Query) (q : SelectStmt) (hq : qy.stmt = .select q)
    (idx : JoinIndex) (w : Bool) (fls : List FileLine) (ls : LoopState) (h0 : reachedLimit qy ls.es = false)
    (hs : (runFile O qy idx w none fls ls).stop = false) :
    reachedLimit qy (runFile O qy idx w none fls ls).es = false := by
  induction fls generalizing ls with
  | nil => simpa [runFile] using h0
  | cons fl rest ih =>
    by_cases hr : fl.readable = true
    · cases hx : executeLine O qy idx w ls.es fl.line with
      | ok p =>
        obtain ⟨es1, lo⟩ := p
        rw [runFile_cons_ok O qy idx w fl rest ls es1 lo hr hx] at hs ⊢
        by_cases hl : lo.reachedLimit = true
        · simp [hl] at hs
        · simp only [hl, Bool.false_eq_true, if_false] at hs ⊢
          refine ih _ ?_ hs
          have := executeLine_select_reached O qy q hq idx w ls.es es1 fl.line lo hx
          simp only [advance]
          rw [← this]; simpa using hl
      | error k =>
        have hn : ((none : Option Nat) == some ls.consumed) = false := rfl
        simp [runFile, hn, hr, hx] at hs
      | panic s =>
        have hn : ((none : Option Nat) == some ls.consumed) = false := rfl
        simp [runFile, hn, hr, hx] at hs
      | oracleMissing s =>
        have hn : ((none : Option Nat) == some ls.consumed) = false := rfl
        simp [runFile, hn, hr, hx] at hs
    · have hn : ((none : Option Nat) == some ls.consumed) = false := rfl
      simp [runFile, hn, hr] at hs

/-- for a non-aggregate statement the loop over the files is the loop over their concatenation: the check
between files sees exactly the flag that would have stopped the inner loop -/
theorem runFiles_select_flatten (O : Oracles) (qy : Query) (q : SelectStmt) (hq : qy.stmt = .select q)
    (idx : JoinIndex) (w : Bool) (files : List (List FileLine)) (ls : LoopState) (hs : ls.stop = false)
    (h0 : reachedLimit qy ls.es = false) :
    runFiles O qy idx w none files ls = runFile O qy idx w none files.flatten ls := by
  induction files generalizing ls with
  | nil => simp [runFiles, runFile]
  | cons f rest ih =>
    simp only [runFiles, hs, h0, Bool.or_self, Bool.false_eq_true, if_false, List.flatten_cons]
    rw [runFile_append_gen O qy idx w f rest.flatten ls hs]
    by_cases h1 : (runFile O qy idx w none f ls).stop = true
    · simp [h1]
    · simp only [h1, Bool.false_eq_true, if_false]
      exact ih _ (by simpa using h1) (runFile_select_not_reached O qy q hq idx w f ls h0 (by simpa using h1))

/-! ### the loop over lines whose candidate rows are known -/

def keptBlocks (d : Bool) (seen : List (List Value)) (blocks : List (List (List Value))) : List (List (List Value)) :=
  if d then dedupBlocks tupleSame seen blocks else blocks

theorem keptBlocks_cons (d : Bool) (seen : List (List Value)) (b : List (List Value)) (bs : List (List (List Value))) :
    keptBlocks d seen (b :: bs) =
      keepRows d seen b :: keptBlocks d (seenAfter d seen (keepRows d seen b)) bs := by
  cases d <;> simp [keptBlocks, dedupBlocks, keepRows, seenAfter]

def limBlocks (lim : Option Nat) (k : Nat) (B : List (List (List Value))) : List (List (List Value)) :=
  match lim with
  | some n => takeBlocks (n - k) B
  | none => B

def limConsumed (lim : Option Nat) (k : Nat) (B : List (List (List Value))) : Nat :=
  match lim with
  | some n => consumed (n - k) B
  | none => B.length

theorem linesRows_cons_ok (O : Oracles) (qy : Query) (q : SelectStmt) (idx : JoinIndex) (l : Line) (ls : List Line)
    (blocks : List (List (List Value))) (h : linesRows O qy q idx (l :: ls) = .ok blocks) :
    ∃ b bs, lineRows O qy q idx l = .ok b ∧ linesRows O qy q idx ls = .ok bs ∧ blocks = b :: bs := by
  simp only [linesRows, bind, pure] at h
  cases hb : lineRows O qy q idx l with
  | ok b =>
    rw [hb] at h
    simp only [Outcome.bind] at h
    cases hbs : linesRows O qy q idx ls with
    | ok bs =>
      rw [hbs] at h
      simp only [Outcome.ok.injEq] at h
      exact ⟨b, bs, rfl, rfl, h.symm⟩
    | error k => rw [hbs] at h; cases h
    | panic s => rw [hbs] at h; cases h
    | oracleMissing s => rw [hbs] at h; cases h
  | error k => rw [hb] at h; cases h
  | panic s => rw [hb] at h; cases h
  | oracleMissing s => rw [hb] at h; cases h

theorem linesRows_length (O : Oracles) (qy : Query) (q : SelectStmt) (idx : JoinIndex) (ls : List Line)
    (blocks : List (List (List Value))) (h : linesRows O qy q idx ls = .ok blocks) : blocks.length = ls.length := by
  induction ls generalizing blocks with
  | nil => simp only [linesRows, Outcome.ok.injEq] at h; subst h; rfl
  | cons l ls ih =>
    obtain ⟨b, bs, _, h2, rfl⟩ := linesRows_cons_ok O qy q idx l ls blocks h
    simp [ih bs h2]

/-- **the loop in closed form.** Over readable lines with candidate rows `blocks`, started with memory `seen`,
`k` rows output so far and the limit not yet reached, the loop prints the blocks that DISTINCT keeps, cut to what
is left of LIMIT, counts the lines up to the one that reaches the limit, changes nothing else in its output and
stops exactly when the limit is reached. -/
theorem runFile_select (O : Oracles) (qy : Query) (q : SelectStmt) (hq : qy.stmt = .select q) (idx : JoinIndex)
    (w : Bool) (fls : List FileLine) (hr : ∀ fl ∈ fls, fl.readable = true) :
    ∀ (blocks : List (List (List Value))) (ls : LoopState),
      linesRows O qy q idx (fls.map (·.line)) = .ok blocks →
      reachedAt q.limit ls.es.numOut = false →
      (runFile O qy idx w none fls ls).out =
        { ls.out with
          printed := ls.out.printed ++
            render (columnsOf qy q) (limBlocks q.limit ls.es.numOut (keptBlocks q.distinct ls.es.seen blocks))
          totalLines := ls.out.totalLines +
            limConsumed q.limit ls.es.numOut (keptBlocks q.distinct ls.es.seen blocks) } := by
  induction fls with
  | nil =>
    intro blocks ls hb _
    simp only [List.map_nil, linesRows, Outcome.ok.injEq] at hb
    subst hb
    cases hl : q.limit with
    | none => simp [runFile, keptBlocks, dedupBlocks, limBlocks, limConsumed, render]
    | some n =>
      cases hd : q.distinct <;>
        simp [runFile, keptBlocks, dedupBlocks, limBlocks, limConsumed, render, takeBlocks] <;>
        cases n - ls.es.numOut <;> rfl
  | cons fl rest ih =>
    intro blocks ls hb hk
    simp only [List.map_cons] at hb
    obtain ⟨b, bs, hb1, hb2, rfl⟩ := linesRows_cons_ok O qy q idx fl.line (rest.map (·.line)) blocks hb
    have hrl : fl.readable = true := hr fl (List.mem_cons_self ..)
    have hrest : ∀ x ∈ rest, x.readable = true := fun x hx => hr x (List.mem_cons_of_mem _ hx)
    -- the engine step on this line
    have hx := executeLine_select O qy q hq idx w ls.es fl.line
    rw [hb1] at hx
    simp only [Outcome.bind] at hx
    obtain ⟨h1, h2, h3⟩ := updateLimit_tableOf q.limit
      { ls.es with seen := seenAfter q.distinct ls.es.seen (keepRows q.distinct ls.es.seen b) }
      (columnsOf qy q) (keepRows q.distinct ls.es.seen b)
    rw [keptBlocks_cons]
    generalize hkept : keepRows q.distinct ls.es.seen b = kept at *
    generalize hB : keptBlocks q.distinct (seenAfter q.distinct ls.es.seen kept) bs = B at *
    generalize hU : updateLimit true q.limit { ls.es with seen := seenAfter q.distinct ls.es.seen kept }
      (tableOf (columnsOf qy q) kept) = U at hx h1 h2 h3
    obtain ⟨es1, lo⟩ := U
    rw [runFile_cons_ok O qy idx w fl rest ls es1 lo hrl hx]
    simp only at h1 h2 h3
    rw [h3]
    cases hl : q.limit with
    | none =>
      rw [hl] at h1 h2 h3 hk
      simp only [reachedAt, Bool.false_eq_true, if_false]
      have := ih hrest bs (advance ls es1 lo) hb2 (by simp [hl, reachedAt])
      rw [this]
      simp only [advance, h1, h2, hl, truncRows, limBlocks, limConsumed, render, List.flatMap_cons, hB,
        List.length_cons, List.append_assoc]
      congr 1
      omega
    | some n =>
      rw [hl] at h1 h2 h3 hk
      simp only [reachedAt, decide_eq_false_iff_not, Nat.not_le, ge_iff_le] at hk
      simp only [truncRows] at h1 h2 h3 ⊢
      obtain ⟨m, hm⟩ : ∃ m, n - ls.es.numOut = m + 1 := ⟨n - ls.es.numOut - 1, by omega⟩
      by_cases hreach : n - ls.es.numOut ≤ kept.length
      · -- this line reaches the limit
        have hlen : (kept.take (n - ls.es.numOut)).length = n - ls.es.numOut := by
          rw [List.length_take]; omega
        have hra : reachedAt (some n) (ls.es.numOut + (kept.take (n - ls.es.numOut)).length) = true := by
          simp only [reachedAt, hlen, decide_eq_true_eq]; omega
        simp only [hra, if_true, advance, h2, limBlocks, limConsumed, render, takeBlocks, List.flatMap_cons]
        have hz : n - ls.es.numOut - kept.length = 0 := by omega
        rw [hz, takeBlocks_zero_flatMap _ (printBlock_nil _), hm, consumed]
        have : kept.length ≥ m + 1 := by omega
        simp [this]
      · have hlt : kept.length < n - ls.es.numOut := by omega
        have htake : kept.take (n - ls.es.numOut) = kept := List.take_of_length_le (by omega)
        rw [htake] at h1 h2 h3
        have hra : reachedAt (some n) (ls.es.numOut + kept.length) = false := by
          simp only [reachedAt, decide_eq_false_iff_not]; omega
        simp only [htake, hra, Bool.false_eq_true, if_false]
        have := ih hrest bs (advance ls es1 lo) hb2 (by simp only [advance, h1, hl]; exact hra)
        rw [this]
        simp only [advance, h1, h2, hl, limBlocks, limConsumed, render, takeBlocks, List.flatMap_cons, hB,
          List.append_assoc, htake]
        have e1 : n - (ls.es.numOut + kept.length) = n - ls.es.numOut - kept.length := by omega
        rw [e1, hm, consumed]
        have : ¬ kept.length ≥ m + 1 := by omega
        simp only [this, if_false]
        congr 1
        omega

/-! ### the whole batch run -/

/-- `runBatch` once the join index is available -/
def batchWithIndex (O : Oracles) (qy : Query) (files : List (List FileLine)) (idx : JoinIndex) : RunOut :=
  let isAgg := match qy.stmt with
    | .aggregate _ => true
    | _ => false
  let ls := runFiles O qy idx (!isAgg) none files {}
  if hasFailed ls.out then ls.out
  else match qy.stmt with
    | .aggregate q =>
      match finalResult O q ls.es with
      | .ok r => { ls.out with printed := ls.out.printed ++ printResult r true }
      | o => failWith ls.out o
    | _ => ls.out

theorem runBatch_eq (O : Oracles) (qy : Query) (joined : List FileLine) (files : List (List FileLine)) :
    runBatch O qy joined files none =
      match joinIndexOf qy joined with
      | .ok idx => batchWithIndex O qy files idx
      | o => failWith {} o := by
  unfold runBatch joinIndexOf batchWithIndex
  cases qy.join with
  | none => rfl
  | some j =>
    simp only []
    cases setupJoin qy.table j (loadJoinFile j joined) <;> rfl

theorem runBatch_select_out (O : Oracles) (qy : Query) (q : SelectStmt) (hq : qy.stmt = .select q)
    (joined : List FileLine) (files : List (List FileLine)) (idx : JoinIndex) (hj : joinIndexOf qy joined = .ok idx) :
    runBatch O qy joined files none = (runFiles O qy idx true none files {}).out := by
  rw [runBatch_eq, hj]
  simp only [batchWithIndex, hq]
  split <;> rfl

theorem runBatch_join_failed (O : Oracles) (qy : Query) (joined : List FileLine) (files : List (List FileLine))
    (h : ∀ idx, joinIndexOf qy joined ≠ .ok idx) : hasFailed (runBatch O qy joined files none) = true := by
  rw [runBatch_eq]
  cases hj : joinIndexOf qy joined with
  | ok idx => exact absurd hj (h idx)
  | error k => simp [failWith, hasFailed]
  | panic s => simp [failWith, hasFailed]
  | oracleMissing s => simp [failWith, hasFailed]

/-- **refinement**: whenever the specification decides a batch run of a non-aggregate statement, the model's run
is the specified one — same records in the same order with the same grouping, same number of lines consumed,
no error -/
theorem runBatch_select_eq_spec (O : Oracles) (qy : Query) (q : SelectStmt) (hq : qy.stmt = .select q)
    (joined : List FileLine) (files : List (List FileLine)) (blocks : List (List (List Value)))
    (hb : batchBlocks O qy q joined files = some blocks) :
    runBatch O qy joined files none = runOf qy q blocks := by
  unfold batchBlocks at hb
  cases hj : joinIndexOf qy joined with
  | ok idx =>
    rw [hj] at hb
    simp only at hb
    by_cases hr : files.flatten.all (·.readable) = true
    · rw [if_pos hr] at hb
      cases hl : linesRows O qy q idx (files.flatten.map (·.line)) with
      | ok bl =>
        rw [hl] at hb
        simp only [Option.some.injEq] at hb
        subst hb
        rw [runBatch_select_out O qy q hq joined files idx hj]
        by_cases h0 : reachedLimit qy ({} : LoopState).es = true
        · -- LIMIT 0: nothing is read
          have hlim : q.limit = some 0 := by
            simp only [reachedLimit, hq] at h0
            cases hlm : q.limit with
            | none => rw [hlm] at h0; cases h0
            | some n =>
              rw [hlm] at h0
              have : n = 0 := by simpa using h0
              rw [this]
          have : runFiles O qy idx true none files {} = {} := by
            cases files with
            | nil => rfl
            | cons f rest => simp only [runFiles, h0, Bool.or_true, if_true]
          rw [this]
          simp only [runOf, outBlocks, applyLimit, linesConsumed, hlim, render,
            takeBlocks_zero_flatMap _ (printBlock_nil _), consumed]
        · have h0' : reachedLimit qy ({} : LoopState).es = false := by simpa using h0
          rw [runFiles_select_flatten O qy q hq idx true files {} rfl h0']
          have hk : reachedAt q.limit ({} : LoopState).es.numOut = false := by
            simp only [reachedLimit, hq] at h0'
            simp only [reachedAt]
            cases hlm : q.limit with
            | none => rfl
            | some n => rw [hlm] at h0'; exact h0'
          rw [runFile_select O qy q hq idx true files.flatten
            (fun fl hfl => by simpa using (List.all_eq_true.1 hr) fl hfl) bl {} hl hk]
          simp only [runOf, outBlocks, applyLimit, applyDistinct, linesConsumed, limBlocks, limConsumed, keptBlocks]
          cases q.limit <;> cases q.distinct <;> simp
      | error k => rw [hl] at hb; cases hb
      | panic s => rw [hl] at hb; cases hb
      | oracleMissing s => rw [hl] at hb; cases hb
    · rw [if_neg hr] at hb; cases hb
  | error k => rw [hj] at hb; cases hb
  | panic s => rw [hj] at hb; cases hb
  | oracleMissing s => rw [hj] at hb; cases hb

end Sqlgrep
